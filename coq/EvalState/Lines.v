(* C07 (MiniStar part): every failure of a program is located at the line of a statement that occurs in the
   program text (at any nesting depth, including the bodies of the functions the program defines).
   The proof carries the "closure-store invariant" through eval / call / exec by induction on the fuel:
   every closure in the store has a body all of whose statement lines are lines of the program. *)
From Coq Require Import ZArith String List Bool.
From SV Require Import Core.Syntax Core.Values Core.Slice Core.Sem Core.SemProofs.
Import ListNotations.

(* ---- the lines of a program text ------------------------------------------------------------------------ *)
Fixpoint stmt_lines (st : stmt) : list Z :=
  stmt_line st ::
  match st with
  | SIf _ _ th el => flat_map stmt_lines th ++ flat_map stmt_lines el
  | SFor _ _ _ body => flat_map stmt_lines body
  | SDef _ _ _ body => flat_map stmt_lines body
  | _ => []
  end.
Definition lines_of_stmts (ss : list stmt) : list Z := flat_map stmt_lines ss.

(* the statements directly nested in a statement, and "st occurs in the block ss at some depth" *)
Definition children (st : stmt) : list stmt :=
  match st with
  | SIf _ _ th el => th ++ el
  | SFor _ _ _ body => body
  | SDef _ _ _ body => body
  | _ => []
  end.
Inductive occurs (st : stmt) : list stmt -> Prop :=
| occ_here ss : In st ss -> occurs st ss
| occ_sub ss parent : In parent ss -> occurs st (children parent) -> occurs st ss.

Lemma stmt_lines_children st : stmt_lines st = stmt_line st :: lines_of_stmts (children st).
Proof. destruct st; cbn [stmt_lines children lines_of_stmts flat_map]; try reflexivity. rewrite flat_map_app. reflexivity. Qed.

Section StmtInd.
  Variable Q : stmt -> Prop.
  Hypothesis H : forall st, Forall Q (children st) -> Q st.
  Fixpoint stmt_ind' (st : stmt) : Q st :=
    let go := fix go (ss : list stmt) : Forall Q ss :=
                match ss with
                | [] => Forall_nil Q
                | s :: r => Forall_cons s (stmt_ind' s) (go r)
                end in
    match st with
    | SIf ln c th el => H (SIf ln c th el) (proj2 (Forall_app Q th el) (conj (go th) (go el)))
    | SFor ln t e body => H (SFor ln t e body) (go body)
    | SDef ln nm ps body => H (SDef ln nm ps body) (go body)
    | SExpr ln e => H (SExpr ln e) (Forall_nil Q)
    | SAssign ln t e => H (SAssign ln t e) (Forall_nil Q)
    | SAug ln t o e => H (SAug ln t o e) (Forall_nil Q)
    | SBreak ln => H (SBreak ln) (Forall_nil Q)
    | SContinue ln => H (SContinue ln) (Forall_nil Q)
    | SReturn ln e => H (SReturn ln e) (Forall_nil Q)
    | SPass ln => H (SPass ln) (Forall_nil Q)
    end.
End StmtInd.

Lemma stmt_lines_occurs : forall st l, In l (stmt_lines st) ->
  exists st', (st' = st \/ occurs st' (children st)) /\ stmt_line st' = l.
Proof.
  induction st as [st IH] using stmt_ind'. intros l Hl.
  rewrite stmt_lines_children in Hl. destruct Hl as [E | Hl].
  - exists st. split; [left; reflexivity | exact E].
  - unfold lines_of_stmts in Hl. apply in_flat_map in Hl. destruct Hl as (c & Hc & Hl).
    rewrite Forall_forall in IH. destruct (IH c Hc l Hl) as (st' & [-> | O] & E).
    + exists c. split; [right; apply occ_here; exact Hc | exact E].
    + exists st'. split; [right; eapply occ_sub; eassumption | exact E].
Qed.

(* a line of the text is the line of a statement occurring in it, and conversely *)
Lemma lines_of_stmts_occurs : forall ss l, In l (lines_of_stmts ss) ->
  exists st, occurs st ss /\ stmt_line st = l.
Proof.
  intros ss l Hl. unfold lines_of_stmts in Hl. apply in_flat_map in Hl. destruct Hl as (c & Hc & Hl).
  destruct (stmt_lines_occurs c l Hl) as (st' & [-> | O] & E).
  - exists c. split; [apply occ_here; exact Hc | exact E].
  - exists st'. split; [eapply occ_sub; eassumption | exact E].
Qed.

Lemma occurs_lines_of_stmts : forall st ss, occurs st ss -> In (stmt_line st) (lines_of_stmts ss).
Proof.
  intros st ss O. induction O as [ss Hin | ss parent Hin O IH]; unfold lines_of_stmts; apply in_flat_map.
  - exists st. split; [exact Hin|]. rewrite stmt_lines_children. left. reflexivity.
  - exists parent. split; [exact Hin|]. rewrite stmt_lines_children. right. exact IH.
Qed.

(* ---- computations that leave the closure store alone and fail without a line ------------------------------ *)
Definition pres {A} (m : M A) : Prop :=
  forall s, match m s with Ok _ s' => clos s' = clos s | Fail _ l _ => l = None | OutOfFuel => True end.

Lemma pres_ret {A} (a : A) : pres (ret a).
Proof. intros s. reflexivity. Qed.
Lemma pres_fail {A} e : pres (@fail A e).
Proof. intros s. reflexivity. Qed.
Lemma pres_bind {A B} (m : M A) (f : A -> M B) : pres m -> (forall a, pres (f a)) -> pres (bind m f).
Proof.
  intros Hm Hf s. unfold bind. specialize (Hm s). destruct (m s) as [a s1|e l s1|]; [|exact Hm|exact I].
  specialize (Hf a s1). destruct (f a s1) as [b s2|e l s2|]; [congruence|exact Hf|exact I].
Qed.

Ltac pres_prim :=
  let s := fresh "s" in
  intros s; cbv beta iota delta [get_state put_state alloc_list alloc_dict alloc_cell get_list get_dict set_list set_dict
                                 set_list_elem iter_lock get_cell set_cell emit_obs];
  repeat match goal with
         | |- context [match ?v with VNone => _ | _ => _ end] => is_var v; destruct v
         | |- context [nth_error ?l ?a] => destruct (nth_error l a) as [[? [|?]]|] || destruct (nth_error l a) as [[?|]|]
         end; reflexivity.

Lemma pres_get_state : pres get_state. Proof. pres_prim. Qed.
Lemma pres_alloc_list l : pres (alloc_list l). Proof. pres_prim. Qed.
Lemma pres_alloc_dict l : pres (alloc_dict l). Proof. pres_prim. Qed.
Lemma pres_alloc_cell v : pres (alloc_cell v). Proof. pres_prim. Qed.
Lemma pres_get_list a : pres (get_list a). Proof. pres_prim. Qed.
Lemma pres_get_dict a : pres (get_dict a). Proof. pres_prim. Qed.
Lemma pres_set_list a l : pres (set_list a l). Proof. pres_prim. Qed.
Lemma pres_set_dict a l : pres (set_dict a l). Proof. pres_prim. Qed.
Lemma pres_set_list_elem a l : pres (set_list_elem a l). Proof. pres_prim. Qed.
Lemma pres_iter_lock v d : pres (iter_lock v d). Proof. pres_prim. Qed.
Lemma pres_get_cell a : pres (get_cell a). Proof. pres_prim. Qed.
Lemma pres_set_cell a v : pres (set_cell a v). Proof. pres_prim. Qed.
Lemma pres_emit_obs o : pres (emit_obs o). Proof. pres_prim. Qed.

Lemma pres_mapM {A B} (f : A -> M B) l : (forall x, pres (f x)) -> pres (mapM f l).
Proof.
  intros H. induction l as [|x xs IH]; cbn [mapM]; [apply pres_ret|].
  apply pres_bind; [apply H|]. intros y. apply pres_bind; [apply IH|]. intros ys. apply pres_ret.
Qed.

Ltac pres_step :=
  match goal with
  | H : pres ?m |- pres ?m => exact H
  | |- pres (bind _ _) => apply pres_bind; [|intro]
  | |- pres (ret _) => apply pres_ret
  | |- pres (fail _) => apply pres_fail
  | |- pres get_state => apply pres_get_state
  | |- pres (get_list _) => apply pres_get_list
  | |- pres (get_dict _) => apply pres_get_dict
  | |- pres (set_list _ _) => apply pres_set_list
  | |- pres (set_dict _ _) => apply pres_set_dict
  | |- pres (set_list_elem _ _) => apply pres_set_list_elem
  | |- pres (alloc_list _) => apply pres_alloc_list
  | |- pres (alloc_dict _) => apply pres_alloc_dict
  | |- pres (alloc_cell _) => apply pres_alloc_cell
  | |- pres (get_cell _) => apply pres_get_cell
  | |- pres (set_cell _ _) => apply pres_set_cell
  | |- pres (emit_obs _) => apply pres_emit_obs
  | |- pres (mapM _ _) => apply pres_mapM; intro
  | |- pres (let _ := _ in _) => cbv zeta
  | |- pres (match ?x with _ => _ end) => destruct x
  | |- pres (if ?x then _ else _) => destruct x
  end.

Lemma pres_check_hashable k : pres (check_hashable k).
Proof. unfold check_hashable. repeat pres_step. Qed.
Lemma pres_as_int v : pres (as_int v).
Proof. unfold as_int. repeat pres_step. Qed.
Lemma pres_opt_int v : pres (opt_int v).
Proof. unfold opt_int. repeat pres_step. Qed.
Lemma pres_obs_list vs : pres (obs_list vs).
Proof. unfold obs_list. repeat pres_step. Qed.
Lemma pres_lift_sres r : pres (lift_sres r).
Proof. unfold lift_sres. repeat pres_step. Qed.
Lemma pres_str_of v : pres (str_of v).
Proof. unfold str_of. repeat (apply pres_obs_list || pres_step). Qed.
Lemma pres_veqM a b : pres (veqM a b).
Proof. unfold veqM. repeat pres_step. Qed.
Lemma pres_iter_elems v : pres (iter_elems v).
Proof. unfold iter_elems. repeat pres_step. Qed.

Ltac pres_step2 :=
  match goal with
  | |- pres (check_hashable _) => apply pres_check_hashable
  | |- pres (as_int _) => apply pres_as_int
  | |- pres (opt_int _) => apply pres_opt_int
  | |- pres (str_of _) => apply pres_str_of
  | |- pres (obs_list _) => apply pres_obs_list
  | |- pres (lift_sres _) => apply pres_lift_sres
  | |- pres (veqM _ _) => apply pres_veqM
  | |- pres (iter_elems _) => apply pres_iter_elems
  | _ => pres_step
  end.

Lemma pres_contains a b : pres (contains a b).
Proof. unfold contains. repeat pres_step2. Qed.
Lemma pres_unop_eval o a : pres (unop_eval o a).
Proof. unfold unop_eval. repeat pres_step2. Qed.
Lemma pres_binop_eval o a b : pres (binop_eval o a b).
Proof.
  unfold binop_eval. destruct o; repeat (apply pres_contains || pres_step2).
Qed.
Lemma pres_index_eval a i : pres (index_eval a i).
Proof. unfold index_eval. repeat pres_step2. Qed.
Lemma pres_slice_eval a lo hi st : pres (slice_eval a lo hi st).
Proof. unfold slice_eval. repeat pres_step2. Qed.
Lemma pres_set_index a i v : pres (set_index a i v).
Proof.
  unfold set_index. repeat pres_step2.
  intros s. match goal with |- context [nth_error ?l ?k] => destruct (nth_error l k) as [[? ?]|] end; reflexivity.
Qed.
Lemma pres_call_builtin b args kwargs : pres (call_builtin b args kwargs).
Proof. unfold call_builtin. destruct kwargs; [|apply pres_fail]. repeat pres_step2. Qed.
Lemma pres_call_method recv m args : pres (call_method recv m args).
Proof. unfold call_method. repeat pres_step2. Qed.
Lemma pres_call_method_kw recv m args kwargs : pres (call_method_kw recv m args kwargs).
Proof. unfold call_method_kw. destruct kwargs; [apply pres_call_method|]. repeat pres_step2. Qed.
Lemma pres_alloc_cells names : pres (alloc_cells names).
Proof. induction names as [|x t IH]; cbn [alloc_cells]; repeat pres_step2. Qed.
Lemma pres_aug_list_inplace o a b m : aug_list_inplace o a b = Some m -> pres m.
Proof.
  unfold aug_list_inplace. destruct o; try discriminate. destruct a; try discriminate.
  intros E. inversion E; subst. repeat pres_step2.
Qed.

Ltac pres_tac :=
  repeat match goal with
    | |- pres (contains _ _) => apply pres_contains
    | |- pres (unop_eval _ _) => apply pres_unop_eval
    | |- pres (binop_eval _ _ _) => apply pres_binop_eval
    | |- pres (index_eval _ _) => apply pres_index_eval
    | |- pres (slice_eval _ _ _ _) => apply pres_slice_eval
    | |- pres (set_index _ _ _) => apply pres_set_index
    | |- pres (call_builtin _ _ _) => apply pres_call_builtin
    | |- pres (call_method _ _ _) => apply pres_call_method
    | |- pres (call_method_kw _ _ _ _) => apply pres_call_method_kw
    | |- pres (alloc_cells _) => apply pres_alloc_cells
    | |- pres (iter_lock _ _) => apply pres_iter_lock
    | _ => pres_step2
    end.

(* ---- the closure-store invariant ----------------------------------------------------------------------- *)
Section Lines.
  Variable P : Z -> Prop.          (* "is a line of the program" *)

  Definition stmt_lines_in (st : stmt) : Prop := forall l, In l (stmt_lines st) -> P l.
  Definition stmts_lines_in (ss : list stmt) : Prop := forall l, In l (lines_of_stmts ss) -> P l.
  Definition body_ok (b : body) : Prop :=
    match b with BStmts ss => stmts_lines_in ss | BExpr _ => True end.
  Definition clos_ok (s : state) : Prop := Forall (fun c => body_ok (c_body c)) (clos s).

  Definition line_ok (l : option Z) : Prop := forall k, l = Some k -> P k.     (* no line yet, or a program line *)
  Definition line_in (l : option Z) : Prop := exists k, l = Some k /\ P k.     (* a program line *)

  (* weak triple (expressions, calls): invariant kept; a failure has no line yet or a program line *)
  Definition sp {A} (m : M A) : Prop := forall s, clos_ok s ->
    match m s with Ok _ s' => clos_ok s' | Fail _ l _ => line_ok l | OutOfFuel => True end.
  (* strong triple (statements): a failure has a program line *)
  Definition sps {A} (m : M A) : Prop := forall s, clos_ok s ->
    match m s with Ok _ s' => clos_ok s' | Fail _ l _ => line_in l | OutOfFuel => True end.

  Lemma line_in_ok l : line_in l -> line_ok l.
  Proof. intros (k & -> & Hk) k' E. inversion E; subst. exact Hk. Qed.
  Lemma line_ok_none : line_ok None.
  Proof. intros k E. discriminate. Qed.

  Lemma sps_sp {A} (m : M A) : sps m -> sp m.
  Proof. intros H s Hs. specialize (H s Hs). destruct (m s); auto. apply line_in_ok. exact H. Qed.

  Lemma sp_pres {A} (m : M A) : pres m -> sp m.
  Proof.
    intros H s Hs. specialize (H s). destruct (m s) as [a s'|e l s'|]; [|subst; apply line_ok_none|exact I].
    unfold clos_ok. rewrite H. exact Hs.
  Qed.
  Lemma sp_ret {A} (a : A) : sp (ret a).
  Proof. apply sp_pres, pres_ret. Qed.
  Lemma sp_fail {A} e : sp (@fail A e).
  Proof. apply sp_pres, pres_fail. Qed.
  Lemma sp_bind {A B} (m : M A) (f : A -> M B) : sp m -> (forall a, sp (f a)) -> sp (bind m f).
  Proof.
    intros Hm Hf s Hs. unfold bind. specialize (Hm s Hs). destruct (m s) as [a s1|e l s1|]; [|exact Hm|exact I].
    apply Hf. exact Hm.
  Qed.
  Lemma sps_bind {A B} (m : M A) (f : A -> M B) : sps m -> (forall a, sps (f a)) -> sps (bind m f).
  Proof.
    intros Hm Hf s Hs. unfold bind. specialize (Hm s Hs). destruct (m s) as [a s1|e l s1|]; [|exact Hm|exact I].
    apply Hf. exact Hm.
  Qed.
  Lemma sp_mapM {A B} (f : A -> M B) l : (forall x, sp (f x)) -> sp (mapM f l).
  Proof.
    intros H. induction l as [|x xs IH]; cbn [mapM]; [apply sp_ret|].
    apply sp_bind; [apply H|]. intros y. apply sp_bind; [apply IH|]. intros ys. apply sp_ret.
  Qed.

  Lemma sps_at_line {A} ln (m : M A) : P ln -> sp m -> sps (at_line ln m).
  Proof.
    intros Hln H s Hs. specialize (H s Hs). unfold at_line. destruct (m s) as [a s1|e [k|] s1|]; auto.
    - exists k. split; [reflexivity | apply H; reflexivity].
    - exists ln. split; [reflexivity | exact Hln].
  Qed.

  Lemma clos_ok_iter_lock v d s u s' : iter_lock v d s = Ok u s' -> clos_ok s -> clos_ok s'.
  Proof.
    intros E Hs. pose proof (pres_iter_lock v d s) as H. rewrite E in H. unfold clos_ok. rewrite H. exact Hs.
  Qed.

  Lemma sp_with_lock {A} v (m : M A) : sp m -> sp (with_lock v m).
  Proof.
    intros H s Hs. unfold with_lock.
    pose proof (pres_iter_lock v true s) as L1.
    destruct (iter_lock v true s) as [u s1|e l s1|] eqn:E1; [|subst; apply line_ok_none|exact I].
    assert (Hs1 : clos_ok s1) by (eapply clos_ok_iter_lock; eassumption).
    specialize (H s1 Hs1). destruct (m s1) as [a s2|e l s2|]; [| |exact I].
    - destruct (iter_lock v false s2) as [u2 s3|e l s3|] eqn:E2; try apply line_ok_none.
      eapply clos_ok_iter_lock; eassumption.
    - destruct (iter_lock v false s2); exact H.
  Qed.
  Lemma sps_with_lock {A} v (m : M A) : sps m -> sps (with_lock v m).
  Proof.
    (* only used with a body that is itself strong; the lock operations of with_lock never fail *)
    intros H s Hs. unfold with_lock.
    assert (T : forall d s0, exists s1, iter_lock v d s0 = Ok tt s1).
    { intros d s0. unfold iter_lock. destruct v; eauto.
      - destruct (nth_error (lists s0) a) as [[? ?]|]; eauto.
      - destruct (nth_error (dicts s0) a) as [[? ?]|]; eauto. }
    destruct (T true s) as [s1 E1]. rewrite E1.
    assert (Hs1 : clos_ok s1) by (eapply clos_ok_iter_lock; eassumption).
    specialize (H s1 Hs1). destruct (m s1) as [a s2|e l s2|]; [| |exact I].
    - destruct (T false s2) as [s3 E2]. rewrite E2. eapply clos_ok_iter_lock; eassumption.
    - destruct (iter_lock v false s2); exact H.
  Qed.

  Lemma sp_get_clo_bind {B} c (f : closure -> M B) :
    (forall cl, body_ok (c_body cl) -> sp (f cl)) -> sp (bind (get_clo c) f).
  Proof.
    intros Hf s Hs. unfold bind, get_clo. destruct (nth_error (clos s) c) as [cl|] eqn:E; [|apply line_ok_none].
    apply Hf; [|exact Hs]. unfold clos_ok in Hs. rewrite Forall_forall in Hs. apply Hs. eapply nth_error_In. exact E.
  Qed.

  Lemma sp_alloc_clo c : body_ok (c_body c) -> sp (alloc_clo c).
  Proof.
    intros Hc s Hs. unfold alloc_clo, clos_ok. cbn [clos]. apply Forall_app. split; [exact Hs|].
    constructor; [exact Hc | constructor].
  Qed.

  (* ---- the combinators of Sem.v ------------------------------------------------------------------------ *)
  Section Ev.
    Variable ev : env -> expr -> M value.
    Hypothesis Hev : forall en e, sp (ev en e).

    Lemma sp_assign en t v : sp (assign ev en t v).
    Proof.
      revert v. induction t as [x|ts IH|a i] using SemProofs.target_ind'; intros v; cbn [assign].
      - destruct (lookup x en); apply sp_pres; pres_tac.
      - apply sp_bind; [apply sp_pres; pres_tac|]. intros vs.
        destruct (Nat.eqb (length ts) (length vs)); [|apply sp_fail].
        revert vs. induction IH as [|t ts' Ht Hts IHts]; intros vs; [apply sp_ret|].
        destruct vs as [|v' vs']; [apply sp_ret|].
        apply sp_bind; [apply Ht|]. intros _. apply IHts.
      - apply sp_bind; [apply Hev|]. intros av. apply sp_bind; [apply Hev|]. intros iv. apply sp_pres, pres_set_index.
    Qed.

    Lemma sp_comp_clauses en cls first (k : M unit) : sp k -> sp (comp_clauses ev en cls first k).
    Proof.
      intros Hk. revert first. induction cls as [|c r IH]; intros first; cbn [comp_clauses]; [exact Hk|].
      destruct c as [t e|c].
      - apply sp_bind.
        + destruct first; [apply sp_ret|]. apply sp_bind; [apply Hev|]. intros it.
          apply sp_bind; [apply sp_pres, pres_iter_elems|]. intros vs. apply sp_ret.
        + intros p. apply sp_with_lock. induction (snd p) as [|v vs IHv]; [apply sp_ret|].
          apply sp_bind; [apply sp_assign|]. intros _. apply sp_bind; [apply IH|]. intros _. apply IHv.
      - apply sp_bind; [apply Hev|]. intros cv. apply sp_bind; [apply sp_pres, pres_get_state|]. intros s.
        destruct (truth s cv); [apply IH|apply sp_ret].
    Qed.
  End Ev.

  Lemma stmts_lines_in_cons st ss : stmts_lines_in (st :: ss) <-> stmt_lines_in st /\ stmts_lines_in ss.
  Proof.
    unfold stmts_lines_in, stmt_lines_in, lines_of_stmts. cbn [flat_map]. split.
    - intros H. split; intros l Hl; apply H, in_or_app; auto.
    - intros [H1 H2] l Hl. apply in_app_or in Hl. destruct Hl; auto.
  Qed.
  Lemma stmts_lines_in_app a b : stmts_lines_in (a ++ b) <-> stmts_lines_in a /\ stmts_lines_in b.
  Proof.
    unfold stmts_lines_in, lines_of_stmts. rewrite flat_map_app. split.
    - intros H. split; intros l Hl; apply H, in_or_app; auto.
    - intros [H1 H2] l Hl. apply in_app_or in Hl. destruct Hl; auto.
  Qed.
  Lemma stmt_lines_in_inv st : stmt_lines_in st -> P (stmt_line st) /\ stmts_lines_in (children st).
  Proof.
    unfold stmt_lines_in, stmts_lines_in. rewrite stmt_lines_children. intros H. split.
    - apply H. left. reflexivity.
    - intros l Hl. apply H. right. exact Hl.
  Qed.

  Lemma sp_run_block (ex : stmt -> M ctrl) ss :
    stmts_lines_in ss -> (forall st, stmt_lines_in st -> sp (ex st)) -> sp (run_block ex ss).
  Proof.
    intros Hss Hex. induction ss as [|st r IH]; cbn [run_block]; [apply sp_ret|].
    apply stmts_lines_in_cons in Hss. destruct Hss as [Hst Hr].
    apply sp_bind; [apply Hex; exact Hst|]. intros c. destruct c; try apply sp_ret. apply IH. exact Hr.
  Qed.
  Lemma sps_run_block (ex : stmt -> M ctrl) ss :
    stmts_lines_in ss -> (forall st, stmt_lines_in st -> sps (ex st)) -> sps (run_block ex ss).
  Proof.
    intros Hss Hex. induction ss as [|st r IH]; cbn [run_block].
    - intros s Hs. exact Hs.
    - apply stmts_lines_in_cons in Hss. destruct Hss as [Hst Hr].
      apply sps_bind; [apply Hex; exact Hst|]. intros c. destruct c; try (intros s Hs; exact Hs). apply IH. exact Hr.
  Qed.

  Lemma sp_for_loop (body : value -> M ctrl) vs : (forall v, sp (body v)) -> sp (for_loop body vs).
  Proof.
    intros H. induction vs as [|v r IH]; cbn [for_loop]; [apply sp_ret|].
    apply sp_bind; [apply H|]. intros c. destruct c; try apply sp_ret; apply IH.
  Qed.

  (* ---- the induction on fuel ---------------------------------------------------------------------------- *)
  Ltac spt IHe IHc IHx :=
    repeat match goal with
      | |- sp (eval _ _ _) => apply IHe
      | |- sp (call _ _ _ _) => apply IHc
      | |- sp (bind _ _) => apply sp_bind; [|intro]
      | |- sp (ret _) => apply sp_ret
      | |- sp (fail _) => apply sp_fail
      | |- sp (mapM _ _) => apply sp_mapM; intro
      | |- sp (with_lock _ _) => apply sp_with_lock
      | |- sp (comp_clauses _ _ _ _ _) => apply sp_comp_clauses; [intros; apply IHe|]
      | |- sp (assign _ _ _ _) => apply sp_assign; intros; apply IHe
      | |- sp (for_loop _ _) => apply sp_for_loop; intro
      | |- sp (run_block (exec _ _) _) =>
          apply sp_run_block; [assumption | intros; apply sps_sp, IHx; assumption]
      | |- sp (alloc_clo _) => apply sp_alloc_clo; cbn [c_body body_ok]; first [assumption | exact I]
      | H : aug_list_inplace _ _ _ = Some ?m |- sp ?m => apply sp_pres; exact (pres_aug_list_inplace _ _ _ _ H)
      | |- sp (match aug_list_inplace ?o ?a ?b with _ => _ end) => destruct (aug_list_inplace o a b) eqn:?
      | |- sp (let _ := _ in _) => cbv zeta
      | |- sp (match ?x with _ => _ end) => destruct x
      | |- sp (if ?x then _ else _) => destruct x
      | |- sp _ => apply sp_pres; solve [pres_tac]
      end.

  Theorem sp_all : forall n,
    (forall en e, sp (eval n en e)) /\
    (forall f pos named, sp (call n f pos named)) /\
    (forall en st, stmt_lines_in st -> sps (exec n en st)).
  Proof.
    induction n as [|n [IHe [IHc IHx]]].
    - repeat split; intros; intros s _; exact I.
    - split; [|split].
      + intros en e. destruct e; cbn [eval]; spt IHe IHc IHx.
      + intros f pos named. destruct f; cbn [call]; try solve [spt IHe IHc IHx].
        apply sp_get_clo_bind. intros [nm ps df bd cenv] Hcl. cbn [c_name c_params c_defaults c_body c_env] in *.
        destruct bd as [ss|e]; cbn [body_ok] in Hcl; spt IHe IHc IHx.
      + intros en st Hst. destruct (stmt_lines_in_inv st Hst) as [Hln Hch].
        destruct st; cbn [exec stmt_line children] in *;
          try (apply stmts_lines_in_app in Hch; destruct Hch as [Hth Hel]);
          (apply sps_at_line; [exact Hln|]); spt IHe IHc IHx.
  Qed.
End Lines.

(* ---- whole programs ---------------------------------------------------------------------------------------- *)
Lemma alloc_cells_ok' names : forall s, exists g s', alloc_cells names s = Ok g s' /\ clos s' = clos s.
Proof.
  intros s. pose proof (pres_alloc_cells names s) as H.
  assert (T : forall names s, exists g s', alloc_cells names s = Ok g s').
  { clear. induction names as [|x t IH]; intros s; cbn [alloc_cells]; [unfold ret; eauto|].
    unfold bind, alloc_cell.
    match goal with |- context [alloc_cells t ?s1] => destruct (IH s1) as (g & s' & E); rewrite E end.
    unfold ret. eauto. }
  destruct (T names s) as (g & s' & E). rewrite E in H. eauto.
Qed.

(* the run of a whole program from the empty store satisfies the strong triple *)
Theorem run_program_error_line_in : forall fuel prog tr e l,
  run_program fuel prog = (tr, Failed e l) -> exists k, l = Some k /\ In k (lines_of_stmts prog).
Proof.
  intros fuel prog tr e l H. unfold run_program in H.
  set (P := fun k => In k (lines_of_stmts prog)).
  destruct (alloc_cells_ok' (dedup (body_names prog)) empty_state) as (g & s0 & E0 & C0).
  unfold bind in H. rewrite E0 in H.
  assert (Hs0 : clos_ok P s0) by (unfold clos_ok; rewrite C0; constructor).
  assert (R : sps P (run_block (exec fuel g) prog)).
  { apply sps_run_block; [intros k Hk; exact Hk|]. intros st Hst. apply (proj2 (proj2 (sp_all P fuel))). exact Hst. }
  specialize (R s0 Hs0). destruct (run_block (exec fuel g) prog s0) as [c s1|e1 l1 s1|]; inversion H; subst.
  exact R.
Qed.

(* C07_error_has_line *)
Theorem run_program_error_has_line : forall fuel prog tr e l,
  run_program fuel prog = (tr, Failed e l) ->
  exists st, occurs st prog /\ l = Some (stmt_line st).
Proof.
  intros fuel prog tr e l H. destruct (run_program_error_line_in fuel prog tr e l H) as (k & -> & Hk).
  destruct (lines_of_stmts_occurs prog k Hk) as (st & O & E). exists st. split; [exact O | rewrite E; reflexivity].
Qed.

(* the same invariant for a single statement executed from any store that satisfies it *)
Theorem exec_error_line_in : forall (P : Z -> Prop) n en st s e l s',
  clos_ok P s -> stmt_lines_in P st -> exec n en st s = Fail e l s' -> exists k, l = Some k /\ P k.
Proof.
  intros P n en st s e l s' Hs Hst E. pose proof (proj2 (proj2 (sp_all P n)) en st Hst s Hs) as H.
  rewrite E in H. exact H.
Qed.
