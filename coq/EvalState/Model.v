(* C07 IModel: the evaluator's recoverable bookkeeping as a state machine (DESIGN 4/C07).
   Written from the code, operation by operation:
     eval/runtime/cheap_call_stack.rs   CheapCallStack { count, stack: Box<[CheapFrame]> }  push / pop / to_diagnostic_frames
     eval/runtime/evaluator.rs          Evaluator::with_call_stack (push?; within; add_diagnostics; pop)
     eval.rs                            Evaluator::eval_module (replace module_def_info; push(None).unwrap(); eval; pop; restore)
     eval/bc/frame.rs                   alloca_raw / alloca_frame (bump alloca; replace current_frame; push frame_stack; k; pop; restore)
     eval/bc/bytecode.rs                run_block: InstrControl::Err(e) => Err(Bc::wrap_error_for_instr_ptr(ip, e, eval))
     eval/compiler.rs                   add_span_to_expr_error (set span unless set; set call stack unless set)
     starlark_syntax/src/diagnostic.rs  set_span (if none) / set_call_stack (if empty)
     values/stack_guard.rs              stack_guard(): check depth < MAX; inc; Drop restores prev_depth
     values/recursive_repr_or_json_guard.rs  repr_stack_push / json_stack_push: insert or cycle; Drop pops the last entry
   A computation is an arbitrary tree of these bracketed operations whose leaves (ordinary instructions,
   natives) succeed or fail.  No proofs in this file. *)
From Coq Require Import ZArith List Bool.
Import ListNotations.
Open Scope Z_scope.

(* CheapFrame { function, span } *)
Record cframe := { fn_id : Z; call_span : option Z }.

(* thread-locals STACK_DEPTH, REPR_STACK, JSON_STACK *)
Record guards_t := { depth : nat; repr_set : list Z; json_set : list Z }.

Record st := {
  count : nat;               (* CheapCallStack.count *)
  slots : list cframe;       (* CheapCallStack.stack: boxed slice of fixed length; entries at index >= count are stale *)
  frames : list Z;           (* Evaluator.frame_stack (saved BcFramePtr), top first *)
  current_frame : Z;         (* Evaluator.current_frame *)
  alloca_top : nat;          (* bump pointer of Evaluator.alloca *)
  def_info : Z;              (* Evaluator.module_def_info *)
  guards : guards_t
}.

(* crate::Error as far as location goes: kind, Diagnostic.span, Diagnostic.call_stack (empty = not set) *)
Inductive ekind := EUser (tag : Z) | EStackOverflow | ETooManyRecursion.
Record error := { kind : ekind; espan : option Z; estack : list cframe }.
Inductive res := ROk | RErr (e : error).

(* MAX_RECURSION of stack_guard.rs: 200 with debug assertions, 3000 without; a parameter of the model *)
Definition max_recursion_debug : nat := 200.

(* ---- computation trees ------------------------------------------------------------------------------- *)
Inductive which_guard := GRepr | GJson.

Inductive tree :=
| Leaf (ok : bool) (tag : Z)                 (* an instruction / native body without bookkeeping effects: succeeds or fails *)
| Seq (a b : tree)                           (* a ; b -- b runs only when a succeeded (`?`) *)
| Catch (a : tree)                           (* a native that swallows its callee's error (getattr default, speculative exec) *)
| Instr (span : Z) (a : tree)                (* one bytecode instruction whose work is `a`: errors get span + call stack *)
| Call (f : Z) (span : option Z) (a : tree)  (* with_call_stack f span a *)
| Frame (fp : Z) (words : nat) (a : tree)    (* alloca_frame: new BcFrame at fp, `words` words of alloca *)
| StackGuard (a : tree)                      (* let _g = stack_guard()?; a *)
| PtrGuard (w : which_guard) (ptr : Z) (a cyc : tree).  (* repr/json_stack_push(ptr): Ok(_g) => a, Err(cycle) => cyc *)

(* ---- primitive operations ---------------------------------------------------------------------------- *)
Fixpoint set_nth {A} (l : list A) (i : nat) (x : A) : list A :=
  match l, i with
  | [], _ => []
  | _ :: t, O => x :: t
  | h :: t, S i => h :: set_nth t i x
  end.

Definition with_count (s : st) (c : nat) (sl : list cframe) : st :=
  {| count := c; slots := sl; frames := frames s; current_frame := current_frame s; alloca_top := alloca_top s;
     def_info := def_info s; guards := guards s |}.

(* CheapCallStack::push: Err(StackOverflow) when count >= stack.len() *)
Definition push (f : Z) (sp : option Z) (s : st) : option st :=
  if Nat.leb (length (slots s)) (count s) then None
  else Some (with_count s (S (count s)) (set_nth (slots s) (count s) {| fn_id := f; call_span := sp |})).

(* CheapCallStack::pop: count -= 1 (entries are not cleared) *)
Definition pop (s : st) : st := with_count s (pred (count s)) (slots s).

(* CheapCallStack::to_diagnostic_frames: stack[1..count] (the first entry is the module) *)
Definition diagnostic_frames (s : st) : list cframe := skipn 1 (firstn (count s) (slots s)).

(* Diagnostic::set_span / set_call_stack: only when not set yet *)
Definition set_span (sp : Z) (e : error) : error :=
  {| kind := kind e; espan := match espan e with None => Some sp | x => x end; estack := estack e |}.
Definition set_call_stack (fr : list cframe) (e : error) : error :=
  {| kind := kind e; espan := espan e; estack := match estack e with [] => fr | x => x end |}.

Definition map_err (f : error -> error) (r : res) : res := match r with ROk => ROk | RErr e => RErr (f e) end.

Definition with_frames (s : st) (fs : list Z) (cur : Z) (top : nat) : st :=
  {| count := count s; slots := slots s; frames := fs; current_frame := cur; alloca_top := top;
     def_info := def_info s; guards := guards s |}.
Definition with_guards (s : st) (g : guards_t) : st :=
  {| count := count s; slots := slots s; frames := frames s; current_frame := current_frame s; alloca_top := alloca_top s;
     def_info := def_info s; guards := g |}.
Definition with_def_info (s : st) (d : Z) : st :=
  {| count := count s; slots := slots s; frames := frames s; current_frame := current_frame s; alloca_top := alloca_top s;
     def_info := d; guards := guards s |}.

Definition guard_set (w : which_guard) (g : guards_t) : list Z := match w with GRepr => repr_set g | GJson => json_set g end.
Definition put_guard_set (w : which_guard) (g : guards_t) (l : list Z) : guards_t :=
  match w with
  | GRepr => {| depth := depth g; repr_set := l; json_set := json_set g |}
  | GJson => {| depth := depth g; repr_set := repr_set g; json_set := l |}
  end.
Definition put_depth (g : guards_t) (d : nat) : guards_t := {| depth := d; repr_set := repr_set g; json_set := json_set g |}.
Definition memZ (x : Z) (l : list Z) : bool := existsb (Z.eqb x) l.

Section Run.
  Variable max_recursion : nat.

  (* Evaluator::with_call_stack *)
  Definition with_call_stack (f : Z) (sp : option Z) (within : st -> res * st) (s : st) : res * st :=
    match push f sp s with
    | None => (RErr {| kind := EStackOverflow; espan := None; estack := [] |}, s)          (* `?` before anything was pushed *)
    | Some s1 =>
        let (r, s2) := within s1 in
        let r' := map_err (set_call_stack (diagnostic_frames s2)) r in                     (* add_diagnostics, before the pop *)
        (r', pop s2)                                                                       (* "Must always call .pop regardless" *)
    end.

  (* alloca_raw + alloca_frame *)
  Definition alloca_frame (fp : Z) (words : nat) (k : st -> res * st) (s : st) : res * st :=
    let old_frame := current_frame s in
    let old_top := alloca_top s in
    let s1 := with_frames s (old_frame :: frames s) fp (old_top + words)%nat in           (* mem::replace; frame_stack.push *)
    let (r, s2) := k s1 in
    (r, with_frames s2 (tl (frames s2)) old_frame old_top).                                (* frame_stack.pop(); current_frame = old_frame *)

  (* stack_guard()? *)
  Definition stack_guard (k : st -> res * st) (s : st) : res * st :=
    let prev := depth (guards s) in
    if Nat.leb max_recursion prev then (RErr {| kind := ETooManyRecursion; espan := None; estack := [] |}, s)
    else
      let (r, s2) := k (with_guards s (put_depth (guards s) (S prev))) in
      (r, with_guards s2 (put_depth (guards s2) prev)).                                    (* Drop: set(prev_depth) *)

  (* repr_stack_push / json_stack_push *)
  Definition ptr_guard (w : which_guard) (p : Z) (k cyc : st -> res * st) (s : st) : res * st :=
    let cur := guard_set w (guards s) in
    if memZ p cur then cyc s
    else
      let (r, s2) := k (with_guards s (put_guard_set w (guards s) (cur ++ [p]))) in
      (r, with_guards s2 (put_guard_set w (guards s2) (removelast (guard_set w (guards s2))))).   (* Drop: stack.pop() *)

  (* Evaluator::eval_module; `None` = the unwrap of push(None) would panic (call stack already full) *)
  Definition eval_module (info : Z) (k : st -> res * st) (s : st) : option (res * st) :=
    let old := def_info s in
    match push 0 None (with_def_info s info) with
    | None => None
    | Some s1 =>
        let (r, s2) := k s1 in
        Some (r, with_def_info (pop s2) old)
    end.

  Fixpoint run (t : tree) (s : st) : res * st :=
    match t with
    | Leaf true _ => (ROk, s)
    | Leaf false tag => (RErr {| kind := EUser tag; espan := None; estack := [] |}, s)
    | Seq a b => match run a s with (ROk, s1) => run b s1 | r => r end
    | Catch a => let (_, s1) := run a s in (ROk, s1)
    | Instr sp a =>
        let (r, s1) := run a s in
        (map_err (fun e => set_call_stack (diagnostic_frames s1) (set_span sp e)) r, s1)   (* add_span_to_expr_error *)
    | Call f sp a => with_call_stack f sp (run a) s
    | Frame fp w a => alloca_frame fp w (run a) s
    | StackGuard a => stack_guard (run a) s
    | PtrGuard w p a cyc => ptr_guard w p (run a) (run cyc) s
    end.

  (* the embedder's entry point (not reachable from inside a tree: `load` runs other evaluators) *)
  Definition enter_module (info : Z) (t : tree) (s : st) : option (res * st) := eval_module info (run t) s.
End Run.

(* an idle evaluator with a call stack of `cap` entries (alloc_if_needed) *)
Definition idle (cap : nat) : st :=
  {| count := 0; slots := repeat {| fn_id := 0; call_span := None |} cap; frames := []; current_frame := 0; alloca_top := 0;
     def_info := 0; guards := {| depth := 0; repr_set := []; json_set := [] |} |}.

(* what a later evaluation can observe of the bookkeeping: everything except stale slots *)
Definition live (s : st) : list cframe := firstn (count s) (slots s).
