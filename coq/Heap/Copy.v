(* C03 (and C04's freeze): executable mirror of the two-space copying collector of starlark-rust.
   NO proofs in this file.

   Rust anchors
   - starlark/src/values/layout/heap/heap_type.rs
       Heap::garbage_collect_internal : take the old arena, make a fresh one (Tracer.arena), run the
                                        root tracing closure, install the new arena, drop the old one
       Tracer::trace / Tracer::adjust : case 1 "doesn't point at the old arena" (immediate / frozen) -> unchanged;
                                        case 2 header = Forward(x) -> x ; header = value -> heap_copy
   - starlark/src/values/layout/avalue.rs : heap_copy_impl
         let (v, r) = tracer.reserve::<A>();                       (new cell = Blackhole)
         let mut x = AValueHeader::overwrite_with_forward(me, v);  (old cell := Forward v, BEFORE the payload is traced)
         trace(&mut x, tracer);                                    (Trace::trace of the payload: adjust every visited field)
         r.fill(x);                                                (new cell := payload with adjusted fields)
     same protocol, hand written, in avalues/tuple.rs and avalues/array.rs (reserve_with_extra, forward, trace
     the elements, fill); avalues/str_.rs copies the bytes and forwards (a cell without fields).
   - starlark/src/values/trace.rs + #[derive(Trace)] (starlark_derive/src/trace.rs): which fields are visited.
     This is the parameter [visit]: [visit t i = true] iff field number [i] of a cell of type [t] is traced.
     A field that is not visited keeps its stale pointer into the old arena.
   - starlark/src/eval/runtime/evaluator.rs : Evaluator::trace, starlark/src/environment/modules.rs : Module::trace
     = the fold over the roots ([gc_run]).

   Addresses are indices into a list; the old heap and the new heap use the same cell type
   (old heap: Cell | Forward, new heap: Blackhole | Cell; the invariants say which occur where). *)
From Coq Require Import ZArith List Bool Arith.
Import ListNotations.

Definition addr := nat.
Definition tag := nat.

Inductive ref : Type :=
| Imm (z : Z)        (* inline value: int, bool, None *)
| Frozen (f : Z)     (* pointer into a frozen heap: never moved *)
| Ptr (a : addr).    (* pointer into the heap being collected *)

Inductive cell : Type :=
| Cell (t : tag) (fields : list ref)
| Forward (a' : addr)     (* old heap only: AValueForward *)
| Blackhole.              (* new heap only: reserved, not yet filled *)

Definition heap := list cell.

Record state : Type := mkSt { old : heap; new : heap }.

Fixpoint upd {A : Type} (l : list A) (i : nat) (x : A) : list A :=
  match l, i with
  | [], _ => []
  | _ :: t, O => x :: t
  | h :: t, S j => h :: upd t j x
  end.

(* Trace the fields of one payload / the root set, left to right, threading the state.
   [mask i = false]: field [i] is not visited by the type's Trace impl and is left as it is. *)
Fixpoint trace_fields (c : state -> ref -> option (state * ref)) (mask : nat -> bool) (i : nat)
         (st : state) (fs : list ref) : option (state * list ref) :=
  match fs with
  | [] => Some (st, [])
  | x :: xs =>
    match (if mask i then c st x else Some (st, x)) with
    | None => None
    | Some (st1, x') =>
      match trace_fields c mask (S i) st1 xs with
      | None => None
      | Some (st2, xs') => Some (st2, x' :: xs')
      end
    end
  end.

Section Copy.
  Variable visit : tag -> nat -> bool.

  (* Tracer::adjust + heap_copy_impl.  [None] = out of fuel, or a dangling / blackholed pointer
     (vtable.rs: heap_copy of BlackHole panics). *)
  Fixpoint copy (fuel : nat) (st : state) (r : ref) {struct fuel} : option (state * ref) :=
    match r with
    | Imm _ => Some (st, r)
    | Frozen _ => Some (st, r)
    | Ptr a =>
      match nth_error (old st) a with
      | Some (Forward a') => Some (st, Ptr a')
      | Some (Cell t fs) =>
        match fuel with
        | O => None
        | S f =>
          let a' := length (new st) in                                              (* reserve *)
          let st1 := mkSt (upd (old st) a (Forward a')) (new st ++ [Blackhole]) in  (* forward *)
          match trace_fields (copy f) (visit t) 0 st1 fs with                       (* trace   *)
          | None => None
          | Some (st2, fs') =>
            Some (mkSt (old st2) (upd (new st2) a' (Cell t fs')), Ptr a')           (* fill    *)
          end
        end
      | _ => None
      end
    end.

  (* Evaluator::trace: every root is adjusted in turn. *)
  Definition copy_roots (fuel : nat) (st : state) (roots : list ref) : option (state * list ref) :=
    trace_fields (copy fuel) (fun _ => true) 0 st roots.

  (* Heap::garbage_collect_internal: fresh arena, trace the roots. Fuel = number of cells + 1. *)
  Definition gc_run (h : heap) (roots : list ref) : option (state * list ref) :=
    copy_roots (S (length h)) (mkSt h []) roots.

  (* the new heap and the adjusted roots (the old arena is dropped) *)
  Definition gc (h : heap) (roots : list ref) : heap * list ref :=
    match gc_run h roots with
    | Some (st, rs) => (new st, rs)
    | None => ([], roots)
    end.

  (* where a reference of the old heap went *)
  Definition fwd_of (o : heap) (r : ref) : ref :=
    match r with
    | Ptr a => match nth_error o a with Some (Forward a') => Ptr a' | _ => r end
    | _ => r
    end.

  Definition fwd (h : heap) (roots : list ref) (r : ref) : ref :=
    match gc_run h roots with
    | Some (st, _) => fwd_of (old st) r
    | None => r
    end.

  (* MUTANT of heap_copy_impl used by the Examples only: the payload is traced and the new cell is
     filled BEFORE the old header is overwritten with the forward pointer. *)
  Fixpoint copy_fill_first (fuel : nat) (st : state) (r : ref) {struct fuel} : option (state * ref) :=
    match r with
    | Imm _ => Some (st, r)
    | Frozen _ => Some (st, r)
    | Ptr a =>
      match nth_error (old st) a with
      | Some (Forward a') => Some (st, Ptr a')
      | Some (Cell t fs) =>
        match fuel with
        | O => None
        | S f =>
          let a' := length (new st) in
          let st1 := mkSt (old st) (new st ++ [Blackhole]) in
          match trace_fields (copy_fill_first f) (visit t) 0 st1 fs with
          | None => None
          | Some (st2, fs') =>
            Some (mkSt (upd (old st2) a (Forward a')) (upd (new st2) a' (Cell t fs')), Ptr a')
          end
        end
      | _ => None
      end
    end.

  Definition gc_fill_first (fuel : nat) (h : heap) (roots : list ref) : option (state * list ref) :=
    trace_fields (copy_fill_first fuel) (fun _ => true) 0 (mkSt h []) roots.
End Copy.

Definition visit_complete (visit : tag -> nat -> bool) : Prop := forall t i, visit t i = true.
Definition visit_all : tag -> nat -> bool := fun _ _ => true.

(* [visit] from a table (type tag, fields declared, fields visited): used with the translator's trace_table *)
Definition visit_of_table (tbl : list (tag * list nat * list nat)) (t : tag) (i : nat) : bool :=
  match find (fun e => Nat.eqb (fst (fst e)) t) tbl with
  | Some (_, _, visited) => existsb (Nat.eqb i) visited
  | None => true
  end.
