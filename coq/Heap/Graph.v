(* C03: what is observable of a heap (unfolding to any depth), reachability, well-formedness, and a tiny
   mutator language with GC safepoints (for schedule independence).  Definitions only; proofs in Proofs.v. *)
From Coq Require Import ZArith List Bool Arith.
From SV Require Import Heap.Copy.
Import ListNotations.

Definition ref_ok (h : heap) (r : ref) : Prop :=
  match r with Ptr a => a < length h | _ => True end.

Definition is_cell (c : cell) : Prop := exists t fs, c = Cell t fs.

(* a heap outside a collection: only cells, no dangling pointer *)
Definition heap_wf (h : heap) : Prop :=
  forall a c, nth_error h a = Some c -> exists t fs, c = Cell t fs /\ Forall (ref_ok h) fs.

Definition roots_ok (h : heap) (roots : list ref) : Prop := Forall (ref_ok h) roots.

(* observation: the unfolding of a reference to depth n.  Content and cycles are visible (a cycle is an
   infinite regular tree: equal at every depth), addresses are not. *)
Inductive tree : Type :=
| TImm (z : Z)
| TFrozen (f : Z)
| TNode (t : tag) (kids : list tree)
| TCut                (* depth exhausted *)
| TBad.               (* dangling pointer, Forward or Blackhole: never observable on a well-formed heap *)

Fixpoint obs (n : nat) (h : heap) (r : ref) : tree :=
  match r with
  | Imm z => TImm z
  | Frozen f => TFrozen f
  | Ptr a =>
    match n with
    | O => TCut
    | S m =>
      match nth_error h a with
      | Some (Cell t fs) => TNode t (map (obs m h) fs)
      | _ => TBad
      end
    end
  end.

Inductive reachable (h : heap) (roots : list ref) : ref -> Prop :=
| reach_root : forall r, In r roots -> reachable h roots r
| reach_field : forall a t fs r, reachable h roots (Ptr a) -> nth_error h a = Some (Cell t fs) -> In r fs ->
                                 reachable h roots r.

(* the forwarding relation of a (partially) collected old heap *)
Definition fwd_rel (o : heap) (r r' : ref) : Prop :=
  match r with
  | Ptr a => exists a', r' = Ptr a' /\ nth_error o a = Some (Forward a')
  | _ => r' = r
  end.

(* ---- a tiny mutator with safepoints ------------------------------------------------------------
   The machine state is a heap and a root vector (module slots).  Operands are root indices.
   A collection may happen before every instruction (the PossibleGc statement boundary). *)
Inductive instr : Type :=
| IConst (z : Z)                          (* push an immediate as a new root *)
| IAlloc (t : tag) (args : list nat)      (* allocate Cell t [roots at args], push it *)
| IGet (x : nat) (j : nat)                (* push field j of the cell root x *)
| ISet (x : nat) (j : nat) (y : nat)      (* root x . field j := root y   (mutation: builds cycles) *)
| IDrop (x : nat)                         (* overwrite root x with an immediate (the old value may die) *)
| IEmit (x : nat) (depth : nat)           (* transcript += obs depth heap (root x) *)
| ISame (x : nat) (y : nat).              (* transcript += whether root x and root y are the same object *)

Definition ref_eqb (a b : ref) : bool :=
  match a, b with
  | Imm x, Imm y => Z.eqb x y
  | Frozen x, Frozen y => Z.eqb x y
  | Ptr x, Ptr y => Nat.eqb x y
  | _, _ => false
  end.

Record mstate : Type := mkM { mheap : heap; mroots : list ref; mout : list tree }.

Definition root (s : mstate) (x : nat) : ref := nth x (mroots s) (Imm 0).

Definition step (s : mstate) (i : instr) : mstate :=
  match i with
  | IConst z => mkM (mheap s) (mroots s ++ [Imm z]) (mout s)
  | IAlloc t args =>
    mkM (mheap s ++ [Cell t (map (root s) args)]) (mroots s ++ [Ptr (length (mheap s))]) (mout s)
  | IGet x j =>
    match root s x with
    | Ptr a =>
      match nth_error (mheap s) a with
      | Some (Cell t fs) => mkM (mheap s) (mroots s ++ [nth j fs (Imm 0)]) (mout s)
      | _ => mkM (mheap s) (mroots s ++ [Imm 0]) (mout s)
      end
    | _ => mkM (mheap s) (mroots s ++ [Imm 0]) (mout s)
    end
  | ISet x j y =>
    match root s x with
    | Ptr a =>
      match nth_error (mheap s) a with
      | Some (Cell t fs) => mkM (upd (mheap s) a (Cell t (upd fs j (root s y)))) (mroots s) (mout s)
      | _ => s
      end
    | _ => s
    end
  | IDrop x => mkM (mheap s) (upd (mroots s) x (Imm 0)) (mout s)
  | IEmit x d => mkM (mheap s) (mroots s) (mout s ++ [obs d (mheap s) (root s x)])
  | ISame x y => mkM (mheap s) (mroots s)
                     (mout s ++ [TImm (if ref_eqb (root s x) (root s y) then 1 else 0)])
  end.

Definition collect (visit : tag -> nat -> bool) (s : mstate) : mstate :=
  let '(h', rs') := gc visit (mheap s) (mroots s) in mkM h' rs' (mout s).

(* run a program; [sched k = true]: collect at the safepoint before instruction k *)
Fixpoint run (visit : tag -> nat -> bool) (sched : nat -> bool) (k : nat) (s : mstate) (p : list instr) : mstate :=
  match p with
  | [] => s
  | i :: p' =>
    let s1 := if sched k then collect visit s else s in
    run visit sched (S k) (step s1 i) p'
  end.
