(* C03: executable comparison driver for the object-graph tie (cases.v route).
   The harness (harness/src/bin/gc.rs) walks the real heap before and after a forced collection; Python feeds the
   BEFORE graph (renumbered, with extra garbage cells) to [gc_case]; the result must be the AFTER graph in first-visit
   numbering.  Numbers are printed as N / Z. *)
From Coq Require Import ZArith NArith List Bool.
From SV Require Import Heap.Copy Heap.Graph.
Import ListNotations.

Inductive cref : Type := CI (z : Z) | CP (a : N).
Inductive ccell : Type := CC (t : N) (fs : list cref) | CBad.

Definition to_ref (c : cref) : ref := match c with CI z => Imm z | CP a => Ptr (N.to_nat a) end.
Definition of_ref (r : ref) : cref :=
  match r with Imm z => CI z | Frozen z => CI z | Ptr a => CP (N.of_nat a) end.

Definition to_heap (g : list (N * list cref)) : heap :=
  map (fun c => Cell (N.to_nat (fst c)) (map to_ref (snd c))) g.

Definition of_heap (h : heap) : list ccell :=
  map (fun c => match c with Cell t fs => CC (N.of_nat t) (map of_ref fs) | _ => CBad end) h.

(* executable well-formedness of an input graph *)
Definition wf_case (g : list (N * list cref)) (roots : list cref) : bool :=
  let n := N.of_nat (length g) in
  let okr := fun r => match r with CP a => N.ltb a n | CI _ => true end in
  forallb (fun c => forallb okr (snd c)) g && forallb okr roots.

(* the model's collector on a graph *)
Definition gc_case (g : list (N * list cref)) (roots : list cref) : bool * list ccell * list cref :=
  let '(h', rs) := gc visit_all (to_heap g) (map to_ref roots) in
  (wf_case g roots, of_heap h', map of_ref rs).

(* the same with a Trace impl that skips field [i] of cells of type [t] (used by the search to predict a loss) *)
Definition gc_case_drop (t i : N) (g : list (N * list cref)) (roots : list cref) : list ccell * list cref :=
  let visit := fun t' i' => negb (Nat.eqb t' (N.to_nat t) && Nat.eqb i' (N.to_nat i)) in
  let '(h', rs) := gc visit (to_heap g) (map to_ref roots) in
  (of_heap h', map of_ref rs).

(* transcript of a mutator program under a schedule given as the list of safepoints at which to collect *)
Definition run_case (sched : list N) (h : list (N * list cref)) (roots : list cref) (p : list instr) : list tree :=
  mout (run visit_all (fun k => existsb (N.eqb (N.of_nat k)) sched) 0 (mkM (to_heap h) (map to_ref roots) []) p).
