(* C03: proofs about the copying collector model (Heap/Copy.v). *)
From Coq Require Import ZArith List Bool Arith Lia.
From SV Require Import Heap.Copy Heap.Graph.
Import ListNotations.

(* ---------------------------------------------------------------------------------------------- *)
(* lists *)

Lemma upd_length : forall A (l : list A) i x, length (upd l i x) = length l.
Proof. induction l; destruct i; simpl; intros; auto. Qed.

Lemma nth_error_upd_eq : forall A (l : list A) i x, i < length l -> nth_error (upd l i x) i = Some x.
Proof. induction l; destruct i; simpl; intros; try lia; auto. apply IHl. lia. Qed.

Lemma nth_error_upd_neq : forall A (l : list A) i j x, i <> j -> nth_error (upd l i x) j = nth_error l j.
Proof.
  induction l; destruct i; destruct j; simpl; intros; auto; try congruence.
Qed.

Lemma upd_app_mid : forall A (l r : list A) y x, upd (l ++ y :: r) (length l) x = l ++ x :: r.
Proof. induction l; simpl; intros; auto. f_equal. apply IHl. Qed.

Lemma nth_error_Some_lt : forall A (l : list A) i x, nth_error l i = Some x -> i < length l.
Proof. intros. apply nth_error_Some. congruence. Qed.

Lemma nth_error_lt_Some : forall A (l : list A) i, i < length l -> exists x, nth_error l i = Some x.
Proof. intros. destruct (nth_error l i) eqn:E; eauto. apply nth_error_None in E. lia. Qed.

(* ---------------------------------------------------------------------------------------------- *)
(* termination: fuel = number of unforwarded cells + 1 suffices, for ANY visit mask *)

Fixpoint unfw (o : heap) : nat :=
  match o with
  | [] => 0
  | Cell _ _ :: t => S (unfw t)
  | _ :: t => unfw t
  end.

Lemma unfw_le_length : forall o, unfw o <= length o.
Proof. induction o as [|c o]; simpl; auto. destruct c; lia. Qed.

Lemma unfw_upd_cell : forall o a t fs x,
  nth_error o a = Some (Cell t fs) -> S (unfw (upd o a (Forward x))) = unfw o.
Proof.
  induction o as [|c o]; destruct a; simpl; intros; try discriminate.
  - inversion H; subst. reflexivity.
  - destruct c; simpl; erewrite <- IHo; eauto.
Qed.

Section Term.
  Variable visit : tag -> nat -> bool.
  Variable h0 : heap.
  Hypothesis h0_wf : heap_wf h0.

  (* weak invariant: every old entry is the original cell or a forward *)
  Definition Inv0 (st : state) : Prop :=
    length (old st) = length h0 /\
    forall a c, nth_error (old st) a = Some c -> nth_error h0 a = Some c \/ exists a', c = Forward a'.

  Definition total_at (n : nat) (c : state -> ref -> option (state * ref)) : Prop :=
    forall st r, Inv0 st -> ref_ok h0 r -> unfw (old st) <= n ->
      exists st' r', c st r = Some (st', r') /\ Inv0 st' /\ unfw (old st') <= unfw (old st).

  Lemma trace_fields_total : forall n c, total_at n c ->
    forall fs mask i st, Inv0 st -> Forall (ref_ok h0) fs -> unfw (old st) <= n ->
      exists st' fs', trace_fields c mask i st fs = Some (st', fs') /\ Inv0 st' /\ unfw (old st') <= unfw (old st)
                      /\ length fs' = length fs.
  Proof.
    intros n c Hc. induction fs as [|x xs IH]; intros mask i st HI Hok Hn; simpl.
    - eauto 6.
    - inversion Hok as [|? ? Hx Hxs]; subst.
      assert (Hhd : exists st1 x', (if mask i then c st x else Some (st, x)) = Some (st1, x') /\ Inv0 st1
                                   /\ unfw (old st1) <= unfw (old st)).
      { destruct (mask i). - apply Hc; auto. - eauto. }
      destruct Hhd as (st1 & x' & E1 & HI1 & Hle1). rewrite E1.
      assert (Hn1 : unfw (old st1) <= n) by lia.
      destruct (IH mask (S i) st1 HI1 Hxs Hn1) as (st2 & xs' & E2 & HI2 & Hle2 & Hlen).
      rewrite E2. exists st2, (x' :: xs'). simpl. split; [reflexivity|]. split; [assumption|]. split; lia.
  Qed.

  Lemma copy_total : forall fuel st r, Inv0 st -> ref_ok h0 r -> unfw (old st) < fuel ->
    exists st' r', copy visit fuel st r = Some (st', r') /\ Inv0 st' /\ unfw (old st') <= unfw (old st).
  Proof.
    induction fuel as [|f IHf]; intros st r HI Hok Hlt; [lia|].
    destruct r as [z|z|a]; simpl; eauto.
    destruct HI as [Hlen Hold]. simpl in Hok. rewrite <- Hlen in Hok.
    destruct (nth_error_lt_Some _ _ _ Hok) as [c Ec]. rewrite Ec.
    destruct (Hold _ _ Ec) as [Eh | [a' ->]].
    2:{ exists st, (Ptr a'). repeat split; auto. }
    destruct (h0_wf _ _ Eh) as (t & fs & -> & Hfs).
    set (st1 := mkSt (upd (old st) a (Forward (length (new st)))) (new st ++ [Blackhole])).
    assert (Hu1 : S (unfw (old st1)) = unfw (old st)) by (simpl; eapply unfw_upd_cell; eauto).
    assert (HI1 : Inv0 st1).
    { split; simpl. - rewrite upd_length; auto.
      - intros b cb Hb. destruct (Nat.eq_dec a b) as [<-|Hne].
        + rewrite nth_error_upd_eq in Hb by auto. inversion Hb; eauto.
        + rewrite nth_error_upd_neq in Hb by auto. auto. }
    assert (Htot : total_at (unfw (old st1)) (copy visit f)).
    { intros s r0 Hs Hr Hle. apply IHf; auto. lia. }
    destruct (trace_fields_total _ _ Htot fs (visit t) 0 st1 HI1 Hfs (le_n _))
      as (st2 & fs' & E2 & HI2 & Hle2 & _).
    rewrite E2. eexists _, _. split; [reflexivity|]. split.
    - destruct HI2; split; simpl; auto.
    - simpl. lia.
  Qed.
End Term.

(* ---------------------------------------------------------------------------------------------- *)
(* the copy invariant and its preservation (visit complete) *)

Section Main.
  Variable visit : tag -> nat -> bool.
  Hypothesis visit_ok : visit_complete visit.
  Variable h0 : heap.
  Hypothesis h0_wf : heap_wf h0.
  Variable roots : list ref.

  (* F = { (a, a') | old[a] = Forward a' } *)
  Record Inv (st : state) : Prop := mkInv {
    inv_len : length (old st) = length h0;
    inv_old : forall a c, nth_error (old st) a = Some c ->
        nth_error h0 a = Some c \/ exists a', c = Forward a' /\ a' < length (new st);
    inv_inj : forall a1 a2 a', nth_error (old st) a1 = Some (Forward a') ->
                               nth_error (old st) a2 = Some (Forward a') -> a1 = a2;
    inv_img : forall a a', nth_error (old st) a = Some (Forward a') ->
        exists t fs, nth_error h0 a = Some (Cell t fs) /\
          (nth_error (new st) a' = Some Blackhole \/
           exists fs', nth_error (new st) a' = Some (Cell t fs') /\ Forall2 (fwd_rel (old st)) fs fs');
    inv_surj : forall a', a' < length (new st) -> exists a, nth_error (old st) a = Some (Forward a');
    inv_reach : forall a a', nth_error (old st) a = Some (Forward a') -> reachable h0 roots (Ptr a)
  }.

  Definition stable (st st' : state) : Prop :=
    forall a a', nth_error (old st) a = Some (Forward a') -> nth_error (old st') a = Some (Forward a').

  (* a (sub)copy only forwards more cells and appends filled cells: blackholes of the callers stay,
     no blackhole of its own is left behind *)
  Definition ext (st st' : state) : Prop :=
    stable st st' /\ exists added, new st' = new st ++ added /\ Forall is_cell added.

  Lemma ext_refl : forall st, ext st st.
  Proof. intros st; split; [red; auto|]. exists []. rewrite app_nil_r. auto. Qed.

  Lemma ext_trans : forall s1 s2 s3, ext s1 s2 -> ext s2 s3 -> ext s1 s3.
  Proof.
    intros s1 s2 s3 [H1 (a1 & E1 & F1)] [H2 (a2 & E2 & F2)]. split.
    - red; auto.
    - exists (a1 ++ a2). rewrite E2, E1, app_assoc. split; auto. apply Forall_app; auto.
  Qed.

  Lemma fwd_rel_mono : forall st st' r r', stable st st' -> fwd_rel (old st) r r' -> fwd_rel (old st') r r'.
  Proof. intros st st' [z|z|a] r' Hs; simpl; auto. intros (a' & -> & H). eauto. Qed.

  Lemma Forall2_fwd_mono : forall st st' fs fs', stable st st' ->
    Forall2 (fwd_rel (old st)) fs fs' -> Forall2 (fwd_rel (old st')) fs fs'.
  Proof. intros st st' fs fs' Hs H. induction H; constructor; eauto using fwd_rel_mono. Qed.

  Lemma h0_no_forward : forall a a', nth_error h0 a = Some (Forward a') -> False.
  Proof. intros a a' H. destruct (h0_wf _ _ H) as (? & ? & ? & _). discriminate. Qed.

  Definition ok_at (c : state -> ref -> option (state * ref)) : Prop :=
    forall st r st' r', c st r = Some (st', r') -> Inv st -> ref_ok h0 r -> reachable h0 roots r ->
      Inv st' /\ ext st st' /\ fwd_rel (old st') r r'.

  Lemma trace_fields_ok : forall c, ok_at c -> forall fs mask i st st' fs',
    (forall j, mask j = true) -> trace_fields c mask i st fs = Some (st', fs') ->
    Inv st -> Forall (ref_ok h0) fs -> Forall (reachable h0 roots) fs ->
    Inv st' /\ ext st st' /\ Forall2 (fwd_rel (old st')) fs fs'.
  Proof.
    intros c Hc. induction fs as [|x xs IH]; intros mask i st st' fs' Hm E HI Hok Hre; simpl in E.
    - inversion E; subst. auto using ext_refl.
    - rewrite Hm in E. destruct (c st x) as [[st1 x']|] eqn:E1; [|discriminate].
      destruct (trace_fields c mask (S i) st1 xs) as [[st2 xs']|] eqn:E2; [|discriminate].
      inversion E; subst st' fs'. clear E.
      inversion Hok as [|? ? Hx Hxs]; subst. inversion Hre as [|? ? Rx Rxs]; subst.
      destruct (Hc _ _ _ _ E1 HI Hx Rx) as (HI1 & X1 & F1).
      destruct (IH _ _ _ _ _ Hm E2 HI1 Hxs Rxs) as (HI2 & X2 & F2).
      split; auto. split; [eapply ext_trans; eauto|].
      constructor; auto. eapply fwd_rel_mono; [apply X2|auto].
  Qed.

  Ltac triv_case E :=
    inversion E; subst; split; [assumption|split; [apply ext_refl|simpl; eauto]].

  Lemma copy_ok : forall fuel, ok_at (copy visit fuel).
  Proof.
    induction fuel as [|f IHf]; intros st r st' r' E HI Hok Hreach.
    - destruct r as [z|z|a]; simpl in E; try (triv_case E).
      destruct (nth_error (old st) a) as [[t fs|a'|]|] eqn:Ea; try discriminate. triv_case E.
    - destruct r as [z|z|a]; simpl in E; try (triv_case E).
      destruct (nth_error (old st) a) as [[t fs|a'|]|] eqn:Ea; try discriminate; [|triv_case E].
      destruct (inv_old _ HI _ _ Ea) as [Eh | (x & Hx & _)]; [|discriminate].
      destruct (h0_wf _ _ Eh) as (t0 & fs0 & Hc0 & Hfs). inversion Hc0; subst t0 fs0. clear Hc0.
      remember (length (new st)) as a' eqn:Ea'.
      remember (mkSt (upd (old st) a (Forward a')) (new st ++ [Blackhole])) as st1 eqn:Est1.
      destruct (trace_fields (copy visit f) (visit t) 0 st1 fs) as [[st2 fs']|] eqn:E2; [|discriminate].
      inversion E; subst st' r'. clear E.
      assert (Ha : a < length (old st)) by (eapply nth_error_Some_lt; eauto).
      assert (Hst : stable st st1).
      { intros b b' Hb. subst st1; simpl. destruct (Nat.eq_dec a b) as [<-|Hne]; [congruence|].
        rewrite nth_error_upd_neq; auto. }
      assert (Hlt : forall b b', nth_error (old st) b = Some (Forward b') -> b' < length (new st)).
      { intros b b' Hb. destruct (inv_old _ HI _ _ Hb) as [Hh|(y & Hy & Hl)].
        - exfalso; eapply h0_no_forward; eauto.
        - inversion Hy; subst; auto. }
      assert (HI1 : Inv st1).
      { subst st1 a'. constructor; simpl.
        - rewrite upd_length. apply HI.
        - intros b c Hb. destruct (Nat.eq_dec a b) as [<-|Hne].
          + rewrite nth_error_upd_eq in Hb by auto. inversion Hb; subst. right. exists (length (new st)).
            split; auto. rewrite app_length; simpl; lia.
          + rewrite nth_error_upd_neq in Hb by auto.
            destruct (inv_old _ HI _ _ Hb) as [|(x & -> & Hx)]; auto. right. exists x. split; auto.
            rewrite app_length; simpl; lia.
        - intros a1 a2 x H1 H2.
          destruct (Nat.eq_dec a a1) as [<-|N1]; destruct (Nat.eq_dec a a2) as [<-|N2]; auto.
          + rewrite nth_error_upd_eq in H1 by auto. rewrite nth_error_upd_neq in H2 by auto.
            inversion H1; subst x. apply Hlt in H2. lia.
          + rewrite nth_error_upd_eq in H2 by auto. rewrite nth_error_upd_neq in H1 by auto.
            inversion H2; subst x. apply Hlt in H1. lia.
          + rewrite nth_error_upd_neq in H1, H2 by auto. eapply inv_inj; eauto.
        - intros b b' Hb. destruct (Nat.eq_dec a b) as [<-|Hne].
          + rewrite nth_error_upd_eq in Hb by auto. inversion Hb; subst b'. exists t, fs. split; auto. left.
            rewrite nth_error_app2 by lia. rewrite Nat.sub_diag. reflexivity.
          + rewrite nth_error_upd_neq in Hb by auto.
            destruct (inv_img _ HI _ _ Hb) as (t1 & fs1 & Eh1 & Himg). exists t1, fs1. split; auto.
            rewrite nth_error_app1 by eauto. destruct Himg as [|(fs1' & En & HF)]; auto. right.
            exists fs1'. split; auto.
            apply (Forall2_fwd_mono st (mkSt (upd (old st) a (Forward (length (new st)))) (new st ++ [Blackhole]))); auto.
        - intros x Hx. rewrite app_length in Hx; simpl in Hx.
          destruct (Nat.eq_dec x (length (new st))) as [->|Hne].
          + exists a. apply nth_error_upd_eq; auto.
          + destruct (inv_surj _ HI x) as [b Hb]; [lia|]. exists b. apply Hst in Hb. exact Hb.
        - intros b b' Hb. destruct (Nat.eq_dec a b) as [<-|Hne]; auto.
          rewrite nth_error_upd_neq in Hb by auto. eapply inv_reach; eauto. }
      assert (Hfr : Forall (reachable h0 roots) fs).
      { apply Forall_forall. intros x Hx. eapply reach_field; eauto. }
      destruct (trace_fields_ok _ IHf fs (visit t) 0 st1 st2 fs' (visit_ok t) E2 HI1 Hfs Hfr)
        as (HI2 & [Hst2 (added & Hnew2 & Hadd)] & HF2).
      assert (Ea1 : nth_error (old st1) a = Some (Forward a')).
      { subst st1; simpl. apply nth_error_upd_eq; auto. }
      assert (Ea2 : nth_error (old st2) a = Some (Forward a')) by (apply Hst2; auto).
      assert (Hnew' : upd (new st2) a' (Cell t fs') = new st ++ Cell t fs' :: added).
      { rewrite Hnew2. subst st1; simpl. rewrite <- app_assoc. simpl. subst a'. apply upd_app_mid. }
      assert (Hlen2 : a' < length (new st2)).
      { rewrite Hnew2. subst st1; simpl. rewrite !app_length; simpl. lia. }
      split; [|split].
      + constructor; simpl.
        * apply HI2.
        * intros b c Hb. rewrite upd_length. eapply inv_old; eauto.
        * apply (inv_inj _ HI2).
        * intros b b' Hb. destruct (inv_img _ HI2 _ _ Hb) as (t1 & fs1 & Eh1 & Himg).
          exists t1, fs1; split; auto.
          destruct (Nat.eq_dec b' a') as [->|Hne].
          -- assert (b = a) by (eapply inv_inj; eauto). subst b. rewrite Eh in Eh1; inversion Eh1; subst t1 fs1.
             right. exists fs'. split; auto. apply nth_error_upd_eq; auto.
          -- rewrite nth_error_upd_neq by auto. exact Himg.
        * intros x Hx. rewrite upd_length in Hx. eapply inv_surj; eauto.
        * apply (inv_reach _ HI2).
      + split.
        * intros b b' Hb. simpl. apply Hst2. apply Hst. auto.
        * exists (Cell t fs' :: added). simpl. split; auto. constructor; auto. red; eauto.
      + simpl. exists a'. split; auto.
  Qed.
End Main.

(* ---------------------------------------------------------------------------------------------- *)
(* a whole collection *)

Section Final.
  Variable visit : tag -> nat -> bool.
  Hypothesis visit_ok : visit_complete visit.
  Variable h : heap.
  Hypothesis h_wf : heap_wf h.
  Variable roots : list ref.
  Hypothesis h_roots : roots_ok h roots.

  Lemma h_no_forward : forall a a', nth_error h a = Some (Forward a') -> False.
  Proof. intros a a' H. destruct (h_wf _ _ H) as (? & ? & ? & _). discriminate. Qed.

  Lemma init_Inv : Inv h roots (mkSt h []).
  Proof.
    constructor; simpl; auto.
    - intros; exfalso; eapply h_no_forward; eauto.
    - intros; exfalso; eapply h_no_forward; eauto.
    - intros; lia.
    - intros; exfalso; eapply h_no_forward; eauto.
  Qed.

  (* the state at the end of a collection *)
  Definition final (st : state) (rs : list ref) : Prop :=
    gc_run visit h roots = Some (st, rs) /\ Inv h roots st /\ Forall is_cell (new st) /\
    Forall2 (fwd_rel (old st)) roots rs.

  Lemma gc_run_final : exists st rs, final st rs.
  Proof.
    assert (I0 : Inv0 h (mkSt h [])) by (split; simpl; auto).
    assert (T : total_at h (length h) (copy visit (S (length h)))).
    { intros st r Hs Hr Hle. apply copy_total; auto. lia. }
    destruct (trace_fields_total h (length h) _ T roots (fun _ => true) 0 (mkSt h []) I0 h_roots (unfw_le_length h))
      as (st & rs & E & _ & _ & _).
    exists st, rs. unfold final. split; [exact E|].
    assert (Hre : Forall (reachable h roots) roots) by (apply Forall_forall; intros; apply reach_root; auto).
    destruct (trace_fields_ok h roots _ (copy_ok visit visit_ok h h_wf roots (S (length h)))
               roots (fun _ => true) 0 (mkSt h []) st rs (fun _ => eq_refl) E init_Inv h_roots Hre)
      as (HI & [_ (added & Hn & Ha)] & HF).
    simpl in Hn. subst added. split; [exact HI|split; [exact Ha|exact HF]].
  Qed.

  Section WithFinal.
    Variables (st : state) (rs : list ref).
    Hypothesis Hfin : final st rs.

    Let HI : Inv h roots st := proj1 (proj2 Hfin).
    Let Hcells : Forall is_cell (new st) := proj1 (proj2 (proj2 Hfin)).
    Let Hroots : Forall2 (fwd_rel (old st)) roots rs := proj2 (proj2 (proj2 Hfin)).

    (* every forwarded cell's image is the cell with F applied pointwise (no blackhole is left) *)
    Lemma final_complete : forall a a', nth_error (old st) a = Some (Forward a') ->
      exists t fs fs', nth_error h a = Some (Cell t fs) /\ nth_error (new st) a' = Some (Cell t fs') /\
                       Forall2 (fwd_rel (old st)) fs fs'.
    Proof.
      intros a a' Ha. destruct (inv_img _ _ _ HI _ _ Ha) as (t & fs & Eh & [Hb | (fs' & En & HF)]).
      - exfalso. apply nth_error_In in Hb. rewrite Forall_forall in Hcells. destruct (Hcells _ Hb) as (? & ? & ?).
        discriminate.
      - eauto 8.
    Qed.

    Lemma final_obs : forall n r r', fwd_rel (old st) r r' -> obs n (new st) r' = obs n h r.
    Proof.
      induction n as [|n IH]; intros [z|z|a] r' Hr; simpl in Hr; subst; try reflexivity.
      - destruct Hr as (a' & -> & _). reflexivity.
      - destruct Hr as (a' & -> & Ha). simpl.
        destruct (final_complete _ _ Ha) as (t & fs & fs' & Eh & En & HF). rewrite Eh, En. f_equal.
        clear Eh En. induction HF; simpl; auto. f_equal; auto.
    Qed.

    Lemma final_obs_roots : forall n, map (obs n (new st)) rs = map (obs n h) roots.
    Proof.
      intros n.
      assert (G : forall l l', Forall2 (fwd_rel (old st)) l l' -> map (obs n (new st)) l' = map (obs n h) l).
      { intros l l' HF. induction HF; simpl; auto. f_equal; auto using final_obs. }
      apply G. exact Hroots.
    Qed.

    (* every reachable reference has been forwarded *)
    Lemma final_reach_fwd : forall r, reachable h roots r -> fwd_rel (old st) r (fwd_of (old st) r).
    Proof.
      assert (K : forall r r', fwd_rel (old st) r r' -> fwd_rel (old st) r (fwd_of (old st) r)).
      { intros [z|z|a] r' Hr; simpl in *; auto. destruct Hr as (a' & -> & Ha). rewrite Ha. eauto. }
      assert (L : forall fs fs' r, Forall2 (fwd_rel (old st)) fs fs' -> In r fs -> exists r', fwd_rel (old st) r r').
      { intros fs fs' r HF. induction HF; simpl; intros []; subst; eauto. }
      intros r Hr. induction Hr as [r Hin | a t fs r Hr IH Eh Hin].
      - destruct (L _ _ _ Hroots Hin) as [r' Hr']. eauto.
      - simpl in IH. destruct IH as (a' & _ & Ha).
        destruct (final_complete _ _ Ha) as (t1 & fs1 & fs1' & Eh1 & _ & HF).
        rewrite Eh in Eh1; inversion Eh1; subst. destruct (L _ _ _ HF Hin) as [r' Hr']. eauto.
    Qed.

    Lemma final_fwd_fun : forall r r1 r2, fwd_rel (old st) r r1 -> fwd_rel (old st) r r2 -> r1 = r2.
    Proof.
      intros [z|z|a] r1 r2; simpl; try congruence. intros (a1 & -> & H1) (a2 & -> & H2). congruence.
    Qed.

    Lemma final_fwd_inj : forall r1 r2 r', fwd_rel (old st) r1 r' -> fwd_rel (old st) r2 r' -> r1 = r2.
    Proof.
      intros [z1|z1|a1] [z2|z2|a2] r'; simpl; intros H1 H2; subst; try congruence;
        repeat match goal with H : exists _, _ |- _ => destruct H as (? & ? & ?) end; subst; try discriminate.
      inversion H; subst. f_equal. eapply (inv_inj _ _ _ HI); eauto.
    Qed.

    Lemma final_alias : forall r1 r2, reachable h roots r1 -> reachable h roots r2 ->
      (fwd_of (old st) r1 = fwd_of (old st) r2 <-> r1 = r2).
    Proof.
      intros r1 r2 H1 H2. split; [|congruence]. intros E.
      apply final_reach_fwd in H1. apply final_reach_fwd in H2. rewrite E in H1.
      eapply final_fwd_inj; eauto.
    Qed.

    Lemma final_fwd_lt : forall a a', nth_error (old st) a = Some (Forward a') -> a' < length (new st).
    Proof.
      intros a a' Ha. destruct (inv_old _ _ _ HI _ _ Ha) as [Hh|(y & Hy & Hl)].
      - exfalso; eapply h_no_forward; eauto.
      - inversion Hy; subst; auto.
    Qed.

    Lemma final_fwd_ok : forall r r', fwd_rel (old st) r r' -> ref_ok (new st) r'.
    Proof.
      intros [z|z|a] r'; simpl; intros H; subst; simpl; auto. destruct H as (a' & -> & Ha). simpl.
      eapply final_fwd_lt; eauto.
    Qed.

    (* the new heap is again a well-formed heap: only cells (no Blackhole, no Forward), closed *)
    Lemma final_wf : heap_wf (new st) /\ roots_ok (new st) rs.
    Proof.
      split.
      - intros a' c Hc. destruct (inv_surj _ _ _ HI a') as [a Ha]; [eapply nth_error_Some_lt; eauto|].
        destruct (final_complete _ _ Ha) as (t & fs & fs' & Eh & En & HF). rewrite Hc in En. inversion En; subst.
        exists t, fs'. split; auto. clear Eh En Hc. induction HF; constructor; eauto using final_fwd_ok.
      - red. assert (G : forall l l', Forall2 (fwd_rel (old st)) l l' -> Forall (ref_ok (new st)) l').
        { intros l l' HF. induction HF; constructor; eauto using final_fwd_ok. }
        eapply G. exact Hroots.
    Qed.

    (* F is an isomorphism between the subgraph reachable from the roots and the whole new heap *)
    Definition Fmap (a : addr) : option addr :=
      match nth_error (old st) a with Some (Forward a') => Some a' | _ => None end.

    Lemma Fmap_spec : forall a a', Fmap a = Some a' <-> nth_error (old st) a = Some (Forward a').
    Proof.
      unfold Fmap; intros a a'. destruct (nth_error (old st) a) as [[]|]; split; intros H; inversion H; auto.
    Qed.

    Definition ref_map (F : addr -> option addr) (r r' : ref) : Prop :=
      match r with Ptr a => exists a', r' = Ptr a' /\ F a = Some a' | _ => r' = r end.

    Lemma final_iso :
      (* domain = reachable cells *)
      (forall a, (exists a', Fmap a = Some a') <-> reachable h roots (Ptr a)) /\
      (* injective *)
      (forall a1 a2 a', Fmap a1 = Some a' -> Fmap a2 = Some a' -> a1 = a2) /\
      (* onto the whole new heap *)
      (forall a', a' < length (new st) <-> exists a, Fmap a = Some a') /\
      (* tags and edges are preserved *)
      (forall a a', Fmap a = Some a' -> exists t fs fs', nth_error h a = Some (Cell t fs) /\
          nth_error (new st) a' = Some (Cell t fs') /\ Forall2 (ref_map Fmap) fs fs') /\
      (* roots *)
      Forall2 (ref_map Fmap) roots rs.
    Proof.
      assert (RM : forall r r', fwd_rel (old st) r r' -> ref_map Fmap r r').
      { intros [z|z|a] r'; simpl; auto. intros (a' & -> & Ha). exists a'. split; auto. apply Fmap_spec; auto. }
      assert (RM2 : forall fs fs', Forall2 (fwd_rel (old st)) fs fs' -> Forall2 (ref_map Fmap) fs fs').
      { intros fs fs' HF. induction HF; constructor; auto. }
      repeat split.
      - intros (a' & Ha). apply Fmap_spec in Ha. eapply (inv_reach _ _ _ HI); eauto.
      - intros Hr. apply final_reach_fwd in Hr. simpl in Hr. destruct Hr as (a' & _ & Ha). exists a'.
        apply Fmap_spec; auto.
      - intros a1 a2 a' H1 H2. apply Fmap_spec in H1, H2. eapply (inv_inj _ _ _ HI); eauto.
      - intros Hlt. destruct (inv_surj _ _ _ HI _ Hlt) as [a Ha]. exists a. apply Fmap_spec; auto.
      - intros (a & Ha). apply Fmap_spec in Ha. eapply final_fwd_lt; eauto.
      - intros a a' Ha. apply Fmap_spec in Ha. destruct (final_complete _ _ Ha) as (t & fs & fs' & ? & ? & ?).
        eauto 8.
      - auto.
    Qed.
  End WithFinal.
End Final.

(* ---------------------------------------------------------------------------------------------- *)
(* closed statements about [gc] *)

Theorem copy_terminates : forall visit h0 fuel st r,
  heap_wf h0 -> Inv0 h0 st -> ref_ok h0 r -> unfw (old st) < fuel ->
  exists st' r', copy visit fuel st r = Some (st', r') /\ Inv0 h0 st' /\ unfw (old st') <= unfw (old st).
Proof. intros. eapply copy_total; eauto. Qed.

Theorem gc_terminates : forall visit h roots, heap_wf h -> roots_ok h roots ->
  exists st rs, gc_run visit h roots = Some (st, rs).
Proof.
  intros visit h roots Hwf Hr.
  assert (I0 : Inv0 h (mkSt h [])) by (split; simpl; auto).
  assert (T : total_at h (length h) (copy visit (S (length h)))).
  { intros st r Hs Hr' Hle. apply copy_total; auto. lia. }
  destruct (trace_fields_total h (length h) _ T roots (fun _ => true) 0 (mkSt h []) I0 Hr (unfw_le_length h))
    as (st & rs & E & _). eauto.
Qed.

Theorem copy_inv : forall visit h0 roots fuel st r st' r',
  visit_complete visit -> heap_wf h0 ->
  copy visit fuel st r = Some (st', r') -> Inv h0 roots st -> ref_ok h0 r -> reachable h0 roots r ->
  Inv h0 roots st' /\ ext st st' /\ fwd_rel (old st') r r'.
Proof. intros. eapply copy_ok; eauto. Qed.

Theorem copy_inv_init : forall h roots, heap_wf h -> Inv h roots (mkSt h []).
Proof. intros. apply init_Inv; auto. Qed.

Theorem gc_obs_eq : forall visit h roots, heap_wf h -> roots_ok h roots -> visit_complete visit ->
  let '(h', roots') := gc visit h roots in
  forall n, map (obs n h') roots' = map (obs n h) roots.
Proof.
  intros visit h roots Hwf Hr Hv. destruct (gc_run_final visit Hv h Hwf roots Hr) as (st & rs & Hfin).
  unfold gc. rewrite (proj1 Hfin). intros n. eapply final_obs_roots; eauto.
Qed.

Theorem gc_alias_eq : forall visit h roots r1 r2, heap_wf h -> roots_ok h roots -> visit_complete visit ->
  reachable h roots r1 -> reachable h roots r2 ->
  (fwd visit h roots r1 = fwd visit h roots r2 <-> r1 = r2).
Proof.
  intros visit h roots r1 r2 Hwf Hr Hv H1 H2. destruct (gc_run_final visit Hv h Hwf roots Hr) as (st & rs & Hfin).
  unfold fwd. rewrite (proj1 Hfin). eapply final_alias; eauto.
Qed.

Theorem gc_roots_fwd : forall visit h roots, heap_wf h -> roots_ok h roots -> visit_complete visit ->
  snd (gc visit h roots) = map (fwd visit h roots) roots.
Proof.
  intros visit h roots Hwf Hr Hv. destruct (gc_run_final visit Hv h Hwf roots Hr) as (st & rs & Hfin).
  unfold gc, fwd. rewrite (proj1 Hfin). simpl.
  assert (G : forall l l', Forall2 (fwd_rel (old st)) l l' -> l' = map (fwd_of (old st)) l).
  { intros l l' HF. induction HF as [|x y l l' Hxy HF IH]; simpl; auto. f_equal; auto.
    destruct x as [z|z|a]; simpl in *; auto. destruct Hxy as (a' & -> & Ha). rewrite Ha. reflexivity. }
  apply G. apply Hfin.
Qed.

(* after a collection the heap is again well formed: only cells - no Blackhole, no Forward - and closed *)
Theorem gc_wf : forall visit h roots, heap_wf h -> roots_ok h roots -> visit_complete visit ->
  let '(h', roots') := gc visit h roots in heap_wf h' /\ roots_ok h' roots'.
Proof.
  intros visit h roots Hwf Hr Hv. destruct (gc_run_final visit Hv h Hwf roots Hr) as (st & rs & Hfin).
  unfold gc. rewrite (proj1 Hfin). eapply final_wf; eauto.
Qed.

Theorem gc_no_hole_reachable : forall visit h roots, heap_wf h -> roots_ok h roots -> visit_complete visit ->
  let '(h', roots') := gc visit h roots in
  forall a, reachable h' roots' (Ptr a) -> exists t fs, nth_error h' a = Some (Cell t fs).
Proof.
  intros visit h roots Hwf Hr Hv. pose proof (gc_wf visit h roots Hwf Hr Hv) as W.
  destruct (gc visit h roots) as [h' roots']. destruct W as [W1 W2]. intros a Ha.
  assert (Hok : forall r, reachable h' roots' r -> ref_ok h' r).
  { intros r Hre. induction Hre as [r Hin | b t fs r _ _ Eb Hin].
    - red in W2. rewrite Forall_forall in W2. auto.
    - destruct (W1 _ _ Eb) as (t1 & fs1 & E1 & Hf). inversion E1; subst. rewrite Forall_forall in Hf. auto. }
  apply Hok in Ha. simpl in Ha. destruct (nth_error_lt_Some _ _ _ Ha) as [c Hc].
  destruct (W1 _ _ Hc) as (t & fs & -> & _). eauto.
Qed.

Theorem gc_graph_iso : forall visit h roots, heap_wf h -> roots_ok h roots -> visit_complete visit ->
  let '(h', roots') := gc visit h roots in
  exists F : addr -> option addr,
    (forall a, (exists a', F a = Some a') <-> reachable h roots (Ptr a)) /\
    (forall a1 a2 a', F a1 = Some a' -> F a2 = Some a' -> a1 = a2) /\
    (forall a', a' < length h' <-> exists a, F a = Some a') /\
    (forall a a', F a = Some a' -> exists t fs fs', nth_error h a = Some (Cell t fs) /\
        nth_error h' a' = Some (Cell t fs') /\ Forall2 (ref_map F) fs fs') /\
    Forall2 (ref_map F) roots roots'.
Proof.
  intros visit h roots Hwf Hr Hv. destruct (gc_run_final visit Hv h Hwf roots Hr) as (st & rs & Hfin).
  unfold gc. rewrite (proj1 Hfin). exists (Fmap st). eapply final_iso; eauto.
Qed.

(* ---------------------------------------------------------------------------------------------- *)
(* schedule independence of the mutator with safepoints (Graph.v): simulation up to heap isomorphism *)

Definition arel := addr -> addr -> Prop.

Definition rrel (R : arel) (r1 r2 : ref) : Prop :=
  match r1, r2 with
  | Imm x, Imm y => x = y
  | Frozen x, Frozen y => x = y
  | Ptr a, Ptr b => R a b
  | _, _ => False
  end.

Record Iso (R : arel) (h1 : heap) (rs1 : list ref) (h2 : heap) (rs2 : list ref) : Prop := mkIso {
  iso_roots : Forall2 (rrel R) rs1 rs2;
  iso_fun : forall a b1 b2, R a b1 -> R a b2 -> b1 = b2;
  iso_inj : forall a1 a2 b, R a1 b -> R a2 b -> a1 = a2;
  iso_cells : forall a b, R a b -> exists t fs1 fs2,
      nth_error h1 a = Some (Cell t fs1) /\ nth_error h2 b = Some (Cell t fs2) /\ Forall2 (rrel R) fs1 fs2
}.

Definition wfs (s : mstate) : Prop := heap_wf (mheap s) /\ roots_ok (mheap s) (mroots s).

Definition sim (s1 s2 : mstate) : Prop :=
  mout s1 = mout s2 /\ wfs s1 /\ wfs s2 /\ exists R, Iso R (mheap s1) (mroots s1) (mheap s2) (mroots s2).

Lemma Forall2_flip : forall A B (P : A -> B -> Prop) (Q : B -> A -> Prop) l1 l2,
  (forall x y, P x y -> Q y x) -> Forall2 P l1 l2 -> Forall2 Q l2 l1.
Proof. intros A B P Q l1 l2 H F. induction F; constructor; auto. Qed.

Lemma Forall2_comp : forall A B C (P : A -> B -> Prop) (Q : B -> C -> Prop) (S : A -> C -> Prop),
  (forall x y z, P x y -> Q y z -> S x z) ->
  forall l1 l2, Forall2 P l1 l2 -> forall l3, Forall2 Q l2 l3 -> Forall2 S l1 l3.
Proof.
  intros A B C P Q S H l1 l2 F. induction F; intros l3 G; inversion G; subst; constructor; eauto.
Qed.

Lemma Forall2_mono : forall A B (P Q : A -> B -> Prop) l1 l2,
  (forall x y, P x y -> Q x y) -> Forall2 P l1 l2 -> Forall2 Q l1 l2.
Proof. intros A B P Q l1 l2 H F. induction F; constructor; auto. Qed.

Lemma Forall2_upd : forall A B (P : A -> B -> Prop) l1 l2 j x y,
  Forall2 P l1 l2 -> P x y -> Forall2 P (upd l1 j x) (upd l2 j y).
Proof.
  intros A B P l1 l2 j x y F. revert j. induction F; intros j Hxy; simpl; auto.
  destruct j; constructor; auto.
Qed.

Lemma Forall2_nth : forall A B (P : A -> B -> Prop) l1 l2 j d1 d2,
  Forall2 P l1 l2 -> P d1 d2 -> P (nth j l1 d1) (nth j l2 d2).
Proof.
  intros A B P l1 l2 j d1 d2 F. revert j. induction F; intros j Hd; destruct j; simpl; auto.
Qed.

Lemma Forall_nth_d : forall A (P : A -> Prop) l j d, Forall P l -> P d -> P (nth j l d).
Proof. intros A P l j d F. revert j. induction F; intros j Hd; destruct j; simpl; auto. Qed.

Lemma Forall_upd : forall A (P : A -> Prop) l j x, Forall P l -> P x -> Forall P (upd l j x).
Proof. intros A P l j x F. revert j. induction F; intros j Hx; simpl; auto. destruct j; constructor; auto. Qed.

Lemma rrel_mono : forall (R R' : arel) r1 r2, (forall a b, R a b -> R' a b) -> rrel R r1 r2 -> rrel R' r1 r2.
Proof. intros R R' [x|x|a] [y|y|b] H; simpl; auto. Qed.

Lemma ref_ok_mono : forall h h' r, length h <= length h' -> ref_ok h r -> ref_ok h' r.
Proof. intros h h' [z|z|a]; simpl; auto. intros; lia. Qed.

Lemma ref_ok_len : forall h h' r, length h = length h' -> ref_ok h r -> ref_ok h' r.
Proof. intros h h' r E. apply ref_ok_mono. lia. Qed.

Lemma sim_sym : forall s1 s2, sim s1 s2 -> sim s2 s1.
Proof.
  intros s1 s2 (Ho & W1 & W2 & R & I). split; [auto|]. split; [auto|]. split; [auto|].
  exists (fun b a => R a b).
  assert (FL : forall r1 r2, rrel R r1 r2 -> rrel (fun b a => R a b) r2 r1).
  { intros [x|x|a] [y|y|b]; simpl; auto. }
  constructor.
  - eapply Forall2_flip; [|apply I]. exact FL.
  - intros a b1 b2 H1 H2. eapply (iso_inj _ _ _ _ _ I); eauto.
  - intros a1 a2 b H1 H2. eapply (iso_fun _ _ _ _ _ I); eauto.
  - intros b a H. destruct (iso_cells _ _ _ _ _ I _ _ H) as (t & fs1 & fs2 & E1 & E2 & F).
    exists t, fs2, fs1. repeat split; auto. eapply Forall2_flip; eauto.
Qed.

Lemma sim_refl : forall s, wfs s -> sim s s.
Proof.
  intros s [W R]. split; [auto|]. split; [split; auto|]. split; [split; auto|].
  exists (fun a b => a = b /\ a < length (mheap s)).
  assert (RR : forall r, ref_ok (mheap s) r -> rrel (fun a b => a = b /\ a < length (mheap s)) r r).
  { intros [x|x|a]; simpl; auto. }
  assert (RL : forall l, Forall (ref_ok (mheap s)) l -> Forall2 (rrel (fun a b => a = b /\ a < length (mheap s))) l l).
  { intros l F. induction F; constructor; auto. }
  constructor.
  - apply RL. exact R.
  - intros a b1 b2 [-> _] [-> _]. reflexivity.
  - intros a1 a2 b [-> _] [-> _]. reflexivity.
  - intros a b [-> Hlt]. destruct (nth_error_lt_Some _ _ _ Hlt) as [c Hc].
    destruct (W _ _ Hc) as (t & fs & -> & Hf). exists t, fs, fs. auto.
Qed.

Lemma iso_obs : forall R h1 rs1 h2 rs2, Iso R h1 rs1 h2 rs2 ->
  forall n r1 r2, rrel R r1 r2 -> obs n h1 r1 = obs n h2 r2.
Proof.
  intros R h1 rs1 h2 rs2 I. induction n as [|n IH]; intros [x|x|a] [y|y|b] H; simpl in *; subst; try tauto; auto.
  destruct (iso_cells _ _ _ _ _ I _ _ H) as (t & fs1 & fs2 & E1 & E2 & F). rewrite E1, E2. f_equal.
  clear E1 E2. induction F; simpl; auto. f_equal; auto.
Qed.

Lemma rrel_eqb : forall R h1 rs1 h2 rs2, Iso R h1 rs1 h2 rs2 ->
  forall a1 b1 a2 b2, rrel R a1 b1 -> rrel R a2 b2 -> ref_eqb a1 a2 = ref_eqb b1 b2.
Proof.
  intros R h1 rs1 h2 rs2 I [x1|x1|p1] [y1|y1|q1] [x2|x2|p2] [y2|y2|q2]; simpl; intros H1 H2; subst; try tauto; auto.
  destruct (Nat.eqb p1 p2) eqn:E; destruct (Nat.eqb q1 q2) eqn:E'; auto.
  - apply Nat.eqb_eq in E. subst. apply Nat.eqb_neq in E'. exfalso. apply E'. eapply (iso_fun _ _ _ _ _ I); eauto.
  - apply Nat.eqb_eq in E'. subst. apply Nat.eqb_neq in E. exfalso. apply E. eapply (iso_inj _ _ _ _ _ I); eauto.
Qed.

Lemma root_rel : forall R rs1 rs2 x, Forall2 (rrel R) rs1 rs2 -> rrel R (nth x rs1 (Imm 0)) (nth x rs2 (Imm 0)).
Proof. intros. apply Forall2_nth; simpl; auto. Qed.

Lemma root_ok : forall h rs x, roots_ok h rs -> ref_ok h (nth x rs (Imm 0)).
Proof. intros. apply Forall_nth_d; simpl; auto. Qed.

Lemma heap_wf_app : forall h t fs, heap_wf h -> Forall (ref_ok h) fs -> heap_wf (h ++ [Cell t fs]).
Proof.
  intros h t fs W F a c Hc.
  assert (Hl : length h <= length (h ++ [Cell t fs])) by (rewrite app_length; lia).
  destruct (Nat.lt_ge_cases a (length h)) as [Hlt|Hge].
  - rewrite nth_error_app1 in Hc by auto. destruct (W _ _ Hc) as (t1 & fs1 & -> & F1). exists t1, fs1. split; auto.
    eapply Forall_impl; [|exact F1]. intros r. apply ref_ok_mono; auto.
  - rewrite nth_error_app2 in Hc by auto. destruct (a - length h) as [|k] eqn:Ek; simpl in Hc.
    + inversion Hc; subst. exists t, fs. split; auto. eapply Forall_impl; [|exact F]. intros r. apply ref_ok_mono; auto.
    + destruct k; discriminate.
Qed.

Lemma heap_wf_upd : forall h a t fs, heap_wf h -> Forall (ref_ok h) fs -> heap_wf (upd h a (Cell t fs)).
Proof.
  intros h a t fs W F b c Hc.
  assert (Hl : length h = length (upd h a (Cell t fs))) by (rewrite upd_length; auto).
  destruct (Nat.eq_dec a b) as [<-|Hne].
  - assert (Ha : a < length h) by (apply nth_error_Some_lt in Hc; rewrite upd_length in Hc; auto).
    rewrite nth_error_upd_eq in Hc by auto. inversion Hc; subst. exists t, fs. split; auto.
    eapply Forall_impl; [|exact F]. intros r. apply ref_ok_len; auto.
  - rewrite nth_error_upd_neq in Hc by auto. destruct (W _ _ Hc) as (t1 & fs1 & -> & F1). exists t1, fs1. split; auto.
    eapply Forall_impl; [|exact F1]. intros r. apply ref_ok_len; auto.
Qed.

Section Sim.
  Variable visit : tag -> nat -> bool.
  Hypothesis visit_ok : visit_complete visit.

  Lemma sim_collect_r : forall s1 s2, sim s1 s2 -> sim s1 (collect visit s2).
  Proof.
    intros s1 s2 (Ho & W1 & [W2 R2] & R & I).
    destruct (gc_run_final visit visit_ok (mheap s2) W2 (mroots s2) R2) as (st & rs & Hfin).
    pose proof Hfin as (Erun & HI & Hcells & Hroots).
    unfold collect, gc. rewrite Erun. simpl.
    split; [auto|]. split; [auto|]. split.
    { unfold wfs; simpl. eapply final_wf; eauto. }
    simpl.
    assert (CP : forall r1 r2 r3, rrel R r1 r2 -> fwd_rel (old st) r2 r3 ->
                 rrel (fun a c => exists b, R a b /\ nth_error (old st) b = Some (Forward c)) r1 r3).
    { intros [x|x|a] [y|y|b] r3; simpl; intros H1 H2; subst; try tauto; simpl; auto.
      destruct H2 as (c & -> & Hc). exists b. auto. }
    exists (fun a c => exists b, R a b /\ nth_error (old st) b = Some (Forward c)). constructor.
    - eapply Forall2_comp; [exact CP|apply I|exact Hroots].
    - intros a c1 c2 (b1 & H1 & E1) (b2 & H2 & E2).
      assert (b1 = b2) by (eapply (iso_fun _ _ _ _ _ I); eauto). subst. congruence.
    - intros a1 a2 c (b1 & H1 & E1) (b2 & H2 & E2).
      assert (b1 = b2) by (eapply (inv_inj _ _ _ HI); eauto). subst. eapply (iso_inj _ _ _ _ _ I); eauto.
    - intros a c (b & H & E). destruct (iso_cells _ _ _ _ _ I _ _ H) as (t & fs1 & fs2 & E1 & E2 & F).
      destruct (final_complete _ _ _ _ _ Hfin _ _ E) as (t' & fs & fs' & Eh & En & HF).
      rewrite E2 in Eh. inversion Eh; subst t' fs. exists t, fs1, fs'. repeat split; auto.
      eapply Forall2_comp; [exact CP|exact F|exact HF].
  Qed.

  Lemma sim_collect_l : forall s1 s2, sim s1 s2 -> sim (collect visit s1) s2.
  Proof. intros. apply sim_sym. apply sim_collect_r. apply sim_sym. auto. Qed.

  Lemma sim_step : forall s1 s2 i, sim s1 s2 -> sim (step s1 i) (step s2 i).
  Proof.
    intros s1 s2 i (Ho & [W1 R1] & [W2 R2] & R & I).
    pose proof (iso_roots _ _ _ _ _ I) as HR.
    assert (RT : forall x, rrel R (root s1 x) (root s2 x)) by (intros; apply root_rel; auto).
    assert (Lt : forall a b, R a b -> a < length (mheap s1) /\ b < length (mheap s2)).
    { intros a b H. destruct (iso_cells _ _ _ _ _ I _ _ H) as (t & fs1 & fs2 & E1 & E2 & _).
      split; eapply nth_error_Some_lt; eauto. }
    destruct i as [z|t args|x j|x j y|x|x d|x y]; simpl.
    - (* IConst *)
      split; [auto|]. split; [|split].
      + split; simpl; auto. apply Forall_app; split; auto. repeat constructor.
      + split; simpl; auto. apply Forall_app; split; auto. repeat constructor.
      + exists R. constructor; simpl; try apply I. apply Forall2_app; auto. repeat constructor.
    - (* IAlloc *)
      assert (M : forall a b, R a b -> (fun a b => R a b \/ (a = length (mheap s1) /\ b = length (mheap s2))) a b)
        by (intros; left; auto).
      assert (OK1 : Forall (ref_ok (mheap s1)) (map (root s1) args)).
      { apply Forall_forall. intros r Hr. apply in_map_iff in Hr. destruct Hr as (x & <- & _). apply root_ok; auto. }
      assert (OK2 : Forall (ref_ok (mheap s2)) (map (root s2) args)).
      { apply Forall_forall. intros r Hr. apply in_map_iff in Hr. destruct Hr as (x & <- & _). apply root_ok; auto. }
      split; [auto|]. split; [|split].
      + split; simpl. * apply heap_wf_app; auto.
        * apply Forall_app; split.
          -- eapply Forall_impl; [|exact R1]. intros r. apply ref_ok_mono. rewrite app_length; lia.
          -- repeat constructor. simpl. rewrite app_length; simpl; lia.
      + split; simpl. * apply heap_wf_app; auto.
        * apply Forall_app; split.
          -- eapply Forall_impl; [|exact R2]. intros r. apply ref_ok_mono. rewrite app_length; lia.
          -- repeat constructor. simpl. rewrite app_length; simpl; lia.
      + exists (fun a b => R a b \/ (a = length (mheap s1) /\ b = length (mheap s2))). constructor; simpl.
        * apply Forall2_app. -- eapply Forall2_mono; [|exact HR]. intros; eapply rrel_mono; eauto.
          -- constructor; [|constructor]. simpl. right; auto.
        * intros a b1 b2 [H1|[-> ->]] [H2|[E2 ->]]; auto.
          -- eapply (iso_fun _ _ _ _ _ I); eauto.
          -- apply Lt in H1. lia.
          -- apply Lt in H2. lia.
        * intros a1 a2 b [H1|[-> ->]] [H2|[-> E2]]; auto.
          -- eapply (iso_inj _ _ _ _ _ I); eauto.
          -- apply Lt in H1. lia.
          -- apply Lt in H2. lia.
        * intros a b [H|[-> ->]].
          -- destruct (iso_cells _ _ _ _ _ I _ _ H) as (t1 & fs1 & fs2 & E1 & E2 & F). exists t1, fs1, fs2.
             destruct (Lt _ _ H). rewrite !nth_error_app1 by auto. repeat split; auto.
             eapply Forall2_mono; [|exact F]. intros; eapply rrel_mono; eauto.
          -- exists t, (map (root s1) args), (map (root s2) args).
             rewrite !nth_error_app2 by lia. rewrite !Nat.sub_diag. simpl. repeat split; auto.
             clear OK1 OK2. induction args; simpl; constructor; auto. eapply rrel_mono; eauto.
    - (* IGet *)
      pose proof (RT x) as Hx.
      assert (Push : forall r1 r2, rrel R r1 r2 -> ref_ok (mheap s1) r1 -> ref_ok (mheap s2) r2 ->
                sim (mkM (mheap s1) (mroots s1 ++ [r1]) (mout s1)) (mkM (mheap s2) (mroots s2 ++ [r2]) (mout s2))).
      { intros r1 r2 Hr O1 O2. split; [auto|]. split; [|split].
        - split; simpl; auto. apply Forall_app; split; auto.
        - split; simpl; auto. apply Forall_app; split; auto.
        - exists R. constructor; simpl; try apply I. apply Forall2_app; auto. }
      destruct (root s1 x) as [z1|z1|a] eqn:E1; destruct (root s2 x) as [z2|z2|b] eqn:E2; simpl in Hx; try tauto;
        try (apply Push; simpl; auto).
      destruct (iso_cells _ _ _ _ _ I _ _ Hx) as (t & fs1 & fs2 & C1 & C2 & F). rewrite C1, C2.
      apply Push.
      + apply Forall2_nth; simpl; auto.
      + destruct (W1 _ _ C1) as (? & ? & Ec & Fo). inversion Ec; subst. apply Forall_nth_d; simpl; auto.
      + destruct (W2 _ _ C2) as (? & ? & Ec & Fo). inversion Ec; subst. apply Forall_nth_d; simpl; auto.
    - (* ISet *)
      pose proof (RT x) as Hx. pose proof (RT y) as Hy.
      assert (Same : sim s1 s2).
      { split; [auto|]. split; [split; auto|]. split; [split; auto|]. exists R; auto. }
      destruct (root s1 x) as [z1|z1|a] eqn:E1; destruct (root s2 x) as [z2|z2|b] eqn:E2; simpl in Hx; try tauto; auto.
      destruct (iso_cells _ _ _ _ _ I _ _ Hx) as (t & fs1 & fs2 & C1 & C2 & F). rewrite C1, C2.
      destruct (Lt _ _ Hx) as [La Lb].
      split; [auto|]. split; [|split].
      + split; simpl.
        * apply heap_wf_upd; auto. destruct (W1 _ _ C1) as (? & ? & Ec & Fo). inversion Ec; subst.
          apply Forall_upd; auto. apply root_ok; auto.
        * eapply Forall_impl; [|exact R1]. intros r. apply ref_ok_len. rewrite upd_length; auto.
      + split; simpl.
        * apply heap_wf_upd; auto. destruct (W2 _ _ C2) as (? & ? & Ec & Fo). inversion Ec; subst.
          apply Forall_upd; auto. apply root_ok; auto.
        * eapply Forall_impl; [|exact R2]. intros r. apply ref_ok_len. rewrite upd_length; auto.
      + exists R. constructor; simpl; try apply I.
        intros a' b' H'. destruct (Nat.eq_dec a a') as [<-|Na].
        * assert (b' = b) by (eapply (iso_fun _ _ _ _ _ I); eauto). subst b'.
          rewrite !nth_error_upd_eq by auto. exists t, (upd fs1 j (root s1 y)), (upd fs2 j (root s2 y)).
          repeat split; auto. apply Forall2_upd; auto.
        * assert (Nb : b <> b'). { intros <-. apply Na. eapply (iso_inj _ _ _ _ _ I); eauto. }
          rewrite !nth_error_upd_neq by auto. apply (iso_cells _ _ _ _ _ I); auto.
    - (* IDrop *)
      split; [auto|]. split; [|split].
      + split; simpl; auto. apply Forall_upd; simpl; auto.
      + split; simpl; auto. apply Forall_upd; simpl; auto.
      + exists R. constructor; simpl; try apply I. apply Forall2_upd; simpl; auto.
    - (* IEmit *)
      split; [simpl; rewrite Ho; f_equal; f_equal; eapply iso_obs; eauto|].
      split; [split; auto|]. split; [split; auto|]. exists R; auto.
    - (* ISame *)
      split; [simpl; rewrite Ho; f_equal; f_equal; f_equal; erewrite rrel_eqb; eauto|].
      split; [split; auto|]. split; [split; auto|]. exists R; auto.
  Qed.

  Lemma sim_run : forall sched1 sched2 p k1 k2 s1 s2, sim s1 s2 ->
    sim (run visit sched1 k1 s1 p) (run visit sched2 k2 s2 p).
  Proof.
    induction p as [|i p IH]; intros k1 k2 s1 s2 H; simpl; auto.
    apply IH. apply sim_step.
    destruct (sched1 k1); destruct (sched2 k2); auto using sim_collect_l, sim_collect_r.
  Qed.
End Sim.

Theorem schedule_independent : forall visit sched1 sched2 h roots p,
  visit_complete visit -> heap_wf h -> roots_ok h roots ->
  mout (run visit sched1 0 (mkM h roots []) p) = mout (run visit sched2 0 (mkM h roots []) p).
Proof.
  intros visit sched1 sched2 h roots p Hv W R.
  assert (S : sim (mkM h roots []) (mkM h roots [])) by (apply sim_refl; split; auto).
  apply (sim_run visit Hv sched1 sched2 p 0 0) in S. apply S.
Qed.
