(* C10 correspondence driver for digit strings and host ranges. Executable only. *)
From Coq Require Import ZArith Bool List String.
From SV Require Import Int.Model Int.Str.
Import ListNotations.
Open Scope Z_scope.

Inductive scase :=
| CRender (z : Z) (base : Z) (impl : string)         (* implementation rendered z in base as impl (lower-cased) *)
| CParse (z : Z) (base : Z) (digits : string)        (* implementation parsed these digits in base to z *)
| CHost (z : Z) (i32 u32 i64 u64 : bool).            (* which fixed-width unpackings succeeded *)

Definition opt_eqb (a : option Z) (b : Z) := match a with Some x => x =? b | None => false end.
Definition fits lo hi z := match unpack_range lo hi (canon z) with Some _ => true | None => false end.

Definition ok_case (c : scase) : bool :=
  match c with
  | CRender z b s => String.eqb (render b z) s
  | CParse z b s => opt_eqb (parse b s) z
  | CHost z a b c d =>
      Bool.eqb (fits (-2147483648) 2147483647 z) a && Bool.eqb (fits 0 4294967295 z) b &&
      Bool.eqb (fits (-9223372036854775808) 9223372036854775807 z) c && Bool.eqb (fits 0 18446744073709551615 z) d
  end.

Fixpoint bad_from (i : N) (cs : list scase) : list N :=
  match cs with [] => [] | c :: cs => (if ok_case c then [] else [i]) ++ bad_from (i + 1) cs end.
Definition bad_cases cs := bad_from 0 cs.
