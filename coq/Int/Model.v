(* C10 model: the Small/Big integer representation of starlark-rust and its operations,
   mirroring starlark/src/values/types/int/{inline_int.rs,int_or_big.rs} and bigint.rs branch by
   branch.  Executable; no proofs in this file.  BigInt (num-bigint) is modelled as Z: `/` and `%`
   on BigInt truncate toward zero (Z.quot / Z.rem); bit operations are two's-complement-infinite
   (Z.land / Z.lor / Z.lxor / Z.lnot); shifts are Z.shiftl / Z.shiftr (floor). *)
From Coq Require Import ZArith Bool List.
From SV Require Import Extracted.IntC.
Open Scope Z_scope.

(* InlineInt::MIN / MAX = min_max_for_bits(BITS) *)
Definition imin : Z := - 2 ^ (inline_bits - 1).
Definition imax : Z := 2 ^ (inline_bits - 1) - 1.
(* the carrier i32 *)
Definition i32min : Z := -2147483648.
Definition i32max : Z := 2147483647.

Definition in_i32 (z : Z) : bool := (i32min <=? z) && (z <=? i32max).
(* InlineInt::try_from_impl: i32::try_from, then the MIN..=MAX check *)
Definition in_inline (z : Z) : bool := in_i32 z && ((imin <=? z) && (z <=? imax)).

Inductive rep := Small (z : Z) | Big (z : Z).
Definition den (r : rep) : Z := match r with Small z | Big z => z end.
Definition is_big (r : rep) : bool := match r with Small _ => false | Big _ => true end.
(* representation invariant: Small holds an InlineInt, Big is outside the InlineInt range *)
Definition wf (r : rep) : Prop :=
  match r with Small z => in_inline z = true | Big z => in_inline z = false end.
Definition wfb (r : rep) : bool :=
  match r with Small z => in_inline z | Big z => negb (in_inline z) end.

(* StarlarkInt::from(BigInt) / from_impl *)
Definition canon (z : Z) : rep := if in_inline z then Small z else Big z.

Inductive err :=
| FloorDivisionByZero | ModuloByZero | LeftShiftOverflow | LeftShiftNegative | RightShiftNegative
| Unreachable.
Inductive res := Ok (r : rep) | Err (e : err).

(* i32::checked_op(..).and_then(InlineInt::try_from): None on i32 overflow or out of inline range *)
Definition checked (z : Z) : option Z := if in_i32 z && in_inline z then Some z else None.

Definition add (a b : rep) : rep :=
  match a, b with
  | Small x, Small y => match checked (x + y) with Some c => Small c | None => canon (x + y) end
  | _, _ => canon (den a + den b)
  end.

Definition sub (a b : rep) : rep :=
  match a, b with
  | Small x, Small y => match checked (x - y) with Some c => Small c | None => canon (x - y) end
  | _, _ => canon (den a - den b)
  end.

(* Mul<i32> for StarlarkIntRef *)
Definition mul_i32 (a : rep) (rhs : Z) : rep :=
  match a with
  | Small x => match checked (x * rhs) with Some c => Small c | None => canon (x * rhs) end
  | Big x => canon (x * rhs)
  end.

Definition mul (a b : rep) : rep :=
  match a, b with
  | Small x, _ => mul_i32 b x
  | _, Small y => mul_i32 a y
  | Big x, Big y => canon (x * y)
  end.

Definition neg (a : rep) : rep :=
  match a with
  | Small x => match checked (- x) with Some c => Small c | None => canon (- x) end
  | Big x => canon (- x)
  end.

Definition bit_not (a : rep) : rep :=
  match a with Small x => Small (Z.lnot x) | Big x => canon (Z.lnot x) end.

Definition bit_and (a b : rep) : rep :=
  match a, b with
  | Small x, Small y => Small (Z.land x y)
  | _, _ => canon (Z.land (den a) (den b))
  end.
Definition bit_or (a b : rep) : rep :=
  match a, b with
  | Small x, Small y => Small (Z.lor x y)
  | _, _ => canon (Z.lor (den a) (den b))
  end.
Definition bit_xor (a b : rep) : rep :=
  match a, b with
  | Small x, Small y => Small (Z.lxor x y)
  | _, _ => canon (Z.lxor (den a) (den b))
  end.

(* floor_div_big_big *)
Definition floor_div_big (a b : Z) : res :=
  if b =? 0 then Err FloorDivisionByZero else
  let sig := Z.sgn b * Z.sgn a in
  let offset := if (sig <? 0) && negb (Z.rem a b =? 0) then 1 else 0 in
  Ok (canon (Z.quot a b - offset)).

(* i32::checked_div: None when b = 0 or on MIN / -1 *)
Definition checked_div (a b : Z) : option Z :=
  if b =? 0 then None else checked (Z.quot a b).

(* floor_div_small_small *)
Definition floor_div_small (a b : Z) : res :=
  if b =? 0 then Err FloorDivisionByZero else
  let sig := Z.sgn b * Z.sgn a in
  let offset := if (sig <? 0) && negb (Z.rem a b =? 0) then 1 else 0 in
  match checked_div a b with
  | Some d => match checked (d - offset) with Some r => Ok (Small r) | None => Err Unreachable end
  | None => floor_div_big a b
  end.

Definition floor_div (a b : rep) : res :=
  match a, b with
  | Small x, Small y => floor_div_small x y
  | _, _ => floor_div_big (den a) (den b)
  end.

(* percent_small *)
Definition percent_small (a b : Z) : res :=
  if b =? 0 then Err ModuloByZero else
  if (a =? i32min) && (b =? -1) then Ok (Small 0) else
  let r := Z.rem a b in
  if r =? 0 then Ok (Small 0) else
  if negb (Z.sgn b =? Z.sgn r)
  then match checked (r + b) with Some c => Ok (Small c) | None => Err Unreachable end
  else Ok (Small r).

Definition percent_big (a b : Z) : res :=
  if b =? 0 then Err ModuloByZero else
  let r := Z.rem a b in
  if r =? 0 then Ok (Small 0) else
  Ok (canon (if negb (Z.sgn b =? Z.sgn r) then r + b else r)).

Definition percent (a b : rep) : res :=
  match a, b with
  | Small x, Small y => percent_small x y
  | _, _ => percent_big (den a) (den b)
  end.

Definition is_negative (a : rep) : bool := den a <? 0.
(* StarlarkIntRef::is_zero: a Big is never zero *)
Definition is_zero (a : rep) : bool := match a with Small z => z =? 0 | Big _ => false end.

(* InlineInt::checked_shl *)
Definition checked_shl (a b : Z) : option Z :=
  if 32 <=? b then None else if in_inline (Z.shiftl a b) then Some (Z.shiftl a b) else None.

Definition left_shift (a b : rep) : res :=
  match (match a, b with
         | Small x, Small y => if 0 <=? y then checked_shl x y else None
         | _, _ => None end) with
  | Some r => Ok (Small r)
  | None =>
    if is_negative b then Err LeftShiftNegative else
    if is_zero a || is_zero b then Ok a else
    if shl_cap <? den b then Err LeftShiftOverflow else
    match b with
    | Big _ => Err LeftShiftOverflow
    | Small y => Ok (canon (Z.shiftl (den a) y))
    end
  end.

(* i32::checked_shr: None when the shift is >= 32 *)
Definition checked_shr (a b : Z) : option Z :=
  if 32 <=? b then None else checked (Z.shiftr a b).

Definition u64max : Z := 18446744073709551615.

(* BigInt >> u64.  Z.shiftr iterates n times, so the executable model answers directly when every
   bit is shifted out (Proofs.shiftr_fast_eq shows this is Z.shiftr). *)
Definition shiftr_fast (x n : Z) : Z :=
  if Z.log2 (Z.abs x) + 1 <? n then (if x <? 0 then -1 else 0) else Z.shiftr x n.

Definition right_shift (a b : rep) : res :=
  match (match a, b with
         | Small x, Small y => if 0 <=? y then checked_shr x y else None
         | _, _ => None end) with
  | Some r => Ok (Small r)
  | None =>
    if is_negative b then Err RightShiftNegative else
    if is_zero a || is_zero b then Ok a else
    if u64max <? den b then Ok (Small (if is_negative a then -1 else 0)) else
    match a with
    | Small x => Ok (Small (if x <? 0 then -1 else 0))
    | Big x => Ok (canon (shiftr_fast x (den b)))
    end
  end.

Definition abs (a : rep) : rep :=
  match a with
  | Small x => canon (Z.abs x)   (* checked_abs -> from(i32), or from(BigInt) on MIN *)
  | Big x => canon (Z.abs x)
  end.

(* Ord for StarlarkIntRef; cmp_small_big compares signum(a) with +-2 *)
Definition cmp_small_big (a b : Z) : comparison :=
  Z.compare (Z.sgn a) (2 * Z.sgn b).
Definition compare (a b : rep) : comparison :=
  match a, b with
  | Small x, Small y => Z.compare x y
  | Big x, Big y => Z.compare x y
  | Small x, Big y => cmp_small_big x y
  | Big x, Small y => CompOpp (cmp_small_big y x)
  end.
(* derived PartialEq on the enum *)
Definition eqb (a b : rep) : bool :=
  match a, b with
  | Small x, Small y => x =? y
  | Big x, Big y => x =? y
  | _, _ => false
  end.

(* host fixed-width unpacking (UnpackValue for i32/u32/i64/u64/usize/isize): exact or None *)
Definition unpack_range (lo hi : Z) (a : rep) : option Z :=
  if (lo <=? den a) && (den a <=? hi) then Some (den a) else None.
(* Value::unpack_i32 : Small -> Some, Big -> to_i32 (None on a 64-bit target) *)
Definition unpack_i32 (a : rep) : option Z :=
  match a with Small x => Some x | Big _ => None end.
