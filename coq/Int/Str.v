(* C10: conversion between integers and digit strings in any base 2..36 (model + round trip). *)
From Coq Require Import ZArith Bool List Lia Ascii String.
Import ListNotations.
Open Scope Z_scope.

(* digits of n >= 0 in base b, most significant first; fuel = number of bits of n *)
Fixpoint digits_fuel (fuel : nat) (b n : Z) (acc : list Z) : list Z :=
  match fuel with
  | O => n :: acc
  | S f => if n <? b then n :: acc else digits_fuel f b (n / b) ((n mod b) :: acc)
  end.
Definition digits (b n : Z) : list Z := digits_fuel (Z.to_nat (Z.log2 n)) b n [].
Definition of_digits (b : Z) (ds : list Z) : Z := fold_left (fun acc d => acc * b + d) ds 0.

Definition digit_chars : list ascii :=
  list_ascii_of_string "0123456789abcdefghijklmnopqrstuvwxyz".
Definition digit_char (d : Z) : ascii := nth (Z.to_nat d) digit_chars "?"%char.
(* value of a digit character, case-insensitive *)
Definition char_digit (c : ascii) : option Z :=
  let n := Z.of_nat (nat_of_ascii c) in
  if (48 <=? n) && (n <=? 57) then Some (n - 48)
  else if (97 <=? n) && (n <=? 122) then Some (n - 87)
  else if (65 <=? n) && (n <=? 90) then Some (n - 55)
  else None.

Definition render (b z : Z) : string :=
  let body := string_of_list_ascii (map digit_char (digits b (Z.abs z))) in
  if z <? 0 then String "-"%char body else body.

Fixpoint parse_digits (b : Z) (cs : list ascii) (acc : Z) : option Z :=
  match cs with
  | [] => Some acc
  | c :: cs => match char_digit c with
               | Some d => if d <? b then parse_digits b cs (acc * b + d) else None
               | None => None
               end
  end.
Definition parse (b : Z) (s : string) : option Z :=
  match list_ascii_of_string s with
  | [] => None
  | "-"%char :: [] => None
  | "-"%char :: cs => option_map Z.opp (parse_digits b cs 0)
  | cs => parse_digits b cs 0
  end.

(* ---- proofs ---------------------------------------------------------------------------------- *)
Lemma of_digits_app b l d : of_digits b (l ++ [d]) = of_digits b l * b + d.
Proof. unfold of_digits. rewrite fold_left_app. reflexivity. Qed.

Lemma digits_fuel_spec b : 2 <= b -> forall fuel n acc, 0 <= n < 2 ^ Z.of_nat (S fuel) ->
  exists l, digits_fuel fuel b n acc = l ++ acc /\ of_digits b l = n /\ l <> [] /\
            Forall (fun d => 0 <= d < b) l.
Proof.
  intros Hb. induction fuel as [|f IH]; intros n acc Hn.
  - exists [n]. change (2 ^ Z.of_nat 1) with 2 in Hn.
    split; [reflexivity|]. split; [unfold of_digits; cbn [fold_left]; lia|].
    split; [discriminate|]. constructor; [lia|constructor].
  - cbn [digits_fuel]. destruct (Z.ltb_spec n b).
    + exists [n]. split; [reflexivity|]. split; [unfold of_digits; cbn [fold_left]; lia|].
      split; [discriminate|]. constructor; [lia|constructor].
    + assert (Hq : 0 <= n / b < 2 ^ Z.of_nat (S f)).
      { split; [apply Z.div_pos; lia|].
        apply Z.div_lt_upper_bound; [lia|].
        replace (Z.of_nat (S (S f))) with (Z.of_nat (S f) + 1) in Hn by lia.
        rewrite Z.pow_add_r in Hn by lia. change (2 ^ 1) with 2 in Hn.
        assert (0 < 2 ^ Z.of_nat (S f)) by (apply Z.pow_pos_nonneg; lia). nia. }
      destruct (IH (n / b) ((n mod b) :: acc) Hq) as [l [E [V [NE F]]]].
      exists (l ++ [n mod b]). rewrite E, <- app_assoc. split; [reflexivity|]. split; [|split].
      * rewrite of_digits_app, V. pose proof (Z.div_mod n b). lia.
      * destruct l; discriminate.
      * apply Forall_app. split; [assumption|]. constructor; [|constructor].
        apply Z.mod_pos_bound. lia.
Qed.

Lemma log2_fuel n : 0 <= n -> 0 <= n < 2 ^ Z.of_nat (S (Z.to_nat (Z.log2 n))).
Proof.
  intros Hn. split; [assumption|]. rewrite Nat2Z.inj_succ, Z2Nat.id by apply Z.log2_nonneg.
  destruct (Z.eq_dec n 0) as [->|]; [reflexivity|]. apply Z.log2_spec. lia.
Qed.

Theorem of_digits_digits b n : 2 <= b -> 0 <= n ->
  of_digits b (digits b n) = n /\ Forall (fun d => 0 <= d < b) (digits b n) /\ digits b n <> [].
Proof.
  intros Hb Hn. unfold digits.
  destruct (digits_fuel_spec b Hb _ n [] (log2_fuel n Hn)) as [l [E [V [NE F]]]].
  rewrite E, app_nil_r. auto.
Qed.

Lemma char_digit_char d : 0 <= d < 36 -> char_digit (digit_char d) = Some d.
Proof.
  intros H. assert (C : exists k, (k < 36)%nat /\ d = Z.of_nat k) by (exists (Z.to_nat d); lia).
  destruct C as [k [Hk ->]]. unfold digit_char. rewrite Nat2Z.id.
  do 36 (destruct k as [|k]; [reflexivity|]). lia.
Qed.

Lemma digit_char_not_minus d : 0 <= d < 36 -> digit_char d <> "-"%char.
Proof.
  intros H. assert (C : exists k, (k < 36)%nat /\ d = Z.of_nat k) by (exists (Z.to_nat d); lia).
  destruct C as [k [Hk ->]]. unfold digit_char. rewrite Nat2Z.id.
  do 36 (destruct k as [|k]; [discriminate|]). lia.
Qed.

Lemma parse_digits_render b : 2 <= b <= 36 -> forall l acc, Forall (fun d => 0 <= d < b) l ->
  parse_digits b (map digit_char l) acc = Some (fold_left (fun a d => a * b + d) l acc).
Proof.
  intros Hb. induction l as [|d l IH]; intros acc F; [reflexivity|].
  inversion F as [|? ? Hd Fl]; subst. simpl. rewrite char_digit_char by lia.
  destruct (Z.ltb_spec d b); [|lia]. apply IH. assumption.
Qed.

Theorem parse_render b z : 2 <= b <= 36 -> parse b (render b z) = Some z.
Proof.
  intros Hb. unfold render, parse.
  destruct (of_digits_digits b (Z.abs z) ltac:(lia) ltac:(lia)) as [V [F NE]].
  destruct (Z.ltb_spec z 0).
  - cbn [list_ascii_of_string]. rewrite list_ascii_of_string_of_list_ascii.
    destruct (digits b (Z.abs z)) as [|d l] eqn:D; [contradiction|]. cbn [map].
    rewrite <- (map_cons digit_char), parse_digits_render by (try lia; assumption).
    fold (of_digits b (d :: l)). rewrite V. simpl. f_equal. lia.
  - rewrite list_ascii_of_string_of_list_ascii.
    destruct (digits b (Z.abs z)) as [|d l] eqn:D; [contradiction|]. cbn [map].
    assert (digit_char d <> "-"%char).
    { apply digit_char_not_minus. inversion F; subst. lia. }
    destruct (digit_char d) as [b0 b1 b2 b3 b4 b5 b6 b7] eqn:DC.
    assert (G : parse_digits b (Ascii b0 b1 b2 b3 b4 b5 b6 b7 :: map digit_char l) 0 = Some z).
    { rewrite <- DC, <- (map_cons digit_char), parse_digits_render by (try lia; assumption).
      fold (of_digits b (d :: l)). rewrite V. f_equal. lia. }
    destruct b0, b1, b2, b3, b4, b5, b6, b7; try exact G. congruence.
Qed.
