(* C10 proofs: every operation of Int/Model.v returns a well-formed representation of the exact
   mathematical result (Z), or exactly the documented error. *)
From Coq Require Import ZArith Bool List Lia ZifyBool.
From SV Require Import Extracted.IntC Int.Model.
Open Scope Z_scope.
Ltac Zify.zify_post_hook ::= Z.to_euclidean_division_equations.

(* ---- obligations on the extracted constants ------------------------------------------------ *)
Lemma inline_bits_ok : inline_bits = 32.
Proof. reflexivity. Qed.
Lemma shl_cap_ok : 0 < shl_cap < 2147483647.
Proof. unfold shl_cap. lia. Qed.

Lemma imin_eq : imin = -2147483648. Proof. reflexivity. Qed.
Lemma imax_eq : imax = 2147483647. Proof. reflexivity. Qed.

Lemma in_inline_spec z : in_inline z = true <-> -2147483648 <= z <= 2147483647.
Proof. unfold in_inline, in_i32, i32min, i32max. rewrite imin_eq, imax_eq. lia. Qed.
Lemma in_inline_false z : in_inline z = false <-> (z < -2147483648 \/ 2147483647 < z).
Proof. unfold in_inline, in_i32, i32min, i32max. rewrite imin_eq, imax_eq. lia. Qed.
Lemma in_i32_spec z : in_i32 z = true <-> -2147483648 <= z <= 2147483647.
Proof. unfold in_i32, i32min, i32max. lia. Qed.

Lemma wfb_wf r : wfb r = true <-> wf r.
Proof. destruct r; simpl; [tauto|]. destruct (in_inline z); simpl; intuition congruence. Qed.

Lemma canon_wf z : wf (canon z).
Proof. unfold canon. destruct (in_inline z) eqn:E; simpl; auto. Qed.
Lemma canon_den z : den (canon z) = z.
Proof. unfold canon. destruct (in_inline z); reflexivity. Qed.
Lemma canon_ok z : wf (canon z) /\ den (canon z) = z.
Proof. split; [apply canon_wf | apply canon_den]. Qed.

Lemma checked_spec z : checked z = if in_inline z then Some z else None.
Proof.
  unfold checked. destruct (in_inline z) eqn:E.
  - apply in_inline_spec in E. destruct (in_i32 z) eqn:F; [reflexivity|].
    exfalso. assert (in_i32 z = true) by (apply in_i32_spec; lia). congruence.
  - rewrite andb_false_r. reflexivity.
Qed.

Theorem repr_unique a b : wf a -> wf b -> den a = den b -> a = b.
Proof. destruct a, b; simpl; intros; subst; congruence. Qed.

Lemma wf_small x : wf (Small x) -> -2147483648 <= x <= 2147483647.
Proof. simpl. apply in_inline_spec. Qed.
Lemma wf_big x : wf (Big x) -> x < -2147483648 \/ 2147483647 < x.
Proof. simpl. apply in_inline_false. Qed.

Ltac fin := first [ apply canon_ok | split; [apply canon_wf | rewrite canon_den; try reflexivity] ].

(* generic shape: Small/Small fast path through `checked`, otherwise canon *)
Lemma fast_path z :
  wf (match checked z with Some c => Small c | None => canon z end) /\
  den (match checked z with Some c => Small c | None => canon z end) = z.
Proof. rewrite checked_spec. destruct (in_inline z) eqn:E; simpl; auto. apply canon_ok. Qed.

Theorem add_exact a b : wf a -> wf b -> wf (add a b) /\ den (add a b) = den a + den b.
Proof. destruct a, b; simpl; intros _ _; try apply canon_ok. apply fast_path. Qed.
Theorem sub_exact a b : wf a -> wf b -> wf (sub a b) /\ den (sub a b) = den a - den b.
Proof. destruct a, b; simpl; intros _ _; try apply canon_ok. apply fast_path. Qed.

Lemma mul_i32_exact a y : wf (mul_i32 a y) /\ den (mul_i32 a y) = den a * y.
Proof. destruct a; simpl; [apply fast_path | apply canon_ok]. Qed.
Theorem mul_exact a b : wf a -> wf b -> wf (mul a b) /\ den (mul a b) = den a * den b.
Proof.
  destruct a as [x|x], b as [y|y]; simpl; intros _ _.
  - rewrite Z.mul_comm. apply fast_path.
  - rewrite Z.mul_comm. apply canon_ok.
  - apply canon_ok.
  - apply canon_ok.
Qed.

Theorem neg_exact a : wf a -> wf (neg a) /\ den (neg a) = - den a.
Proof. destruct a; simpl; intros _; [apply fast_path | apply canon_ok]. Qed.

(* ---- bit operations: the i32 range is closed under lnot/land/lor/lxor ---------------------- *)
Lemma range_shiftr z : -2147483648 <= z <= 2147483647 <-> (Z.shiftr z 31 = 0 \/ Z.shiftr z 31 = -1).
Proof. rewrite Z.shiftr_div_pow2 by lia. change (2 ^ 31) with 2147483648. lia. Qed.

Lemma range_land x y : -2147483648 <= x <= 2147483647 -> -2147483648 <= y <= 2147483647 ->
  -2147483648 <= Z.land x y <= 2147483647.
Proof.
  rewrite !range_shiftr, Z.shiftr_land. intros [H|H] [G|G]; rewrite H, G; simpl; auto.
Qed.
Lemma range_lor x y : -2147483648 <= x <= 2147483647 -> -2147483648 <= y <= 2147483647 ->
  -2147483648 <= Z.lor x y <= 2147483647.
Proof.
  rewrite !range_shiftr, Z.shiftr_lor. intros [H|H] [G|G]; rewrite H, G; simpl; auto.
Qed.
Lemma range_lxor x y : -2147483648 <= x <= 2147483647 -> -2147483648 <= y <= 2147483647 ->
  -2147483648 <= Z.lxor x y <= 2147483647.
Proof.
  rewrite !range_shiftr, Z.shiftr_lxor. intros [H|H] [G|G]; rewrite H, G; simpl; auto.
Qed.

Theorem not_exact a : wf a -> wf (bit_not a) /\ den (bit_not a) = Z.lnot (den a).
Proof.
  destruct a as [x|x]; simpl; intros H; [|apply canon_ok].
  split; [|reflexivity]. apply in_inline_spec. apply in_inline_spec in H. unfold Z.lnot. lia.
Qed.
Theorem and_exact a b : wf a -> wf b -> wf (bit_and a b) /\ den (bit_and a b) = Z.land (den a) (den b).
Proof.
  destruct a as [x|x], b as [y|y]; simpl; intros Ha Hb; try apply canon_ok.
  split; [|reflexivity]. apply in_inline_spec. apply range_land; apply in_inline_spec; assumption.
Qed.
Theorem or_exact a b : wf a -> wf b -> wf (bit_or a b) /\ den (bit_or a b) = Z.lor (den a) (den b).
Proof.
  destruct a as [x|x], b as [y|y]; simpl; intros Ha Hb; try apply canon_ok.
  split; [|reflexivity]. apply in_inline_spec. apply range_lor; apply in_inline_spec; assumption.
Qed.
Theorem xor_exact a b : wf a -> wf b -> wf (bit_xor a b) /\ den (bit_xor a b) = Z.lxor (den a) (den b).
Proof.
  destruct a as [x|x], b as [y|y]; simpl; intros Ha Hb; try apply canon_ok.
  split; [|reflexivity]. apply in_inline_spec. apply range_lxor; apply in_inline_spec; assumption.
Qed.

(* ---- floor division and modulo ------------------------------------------------------------- *)
Lemma floor_offset a b : b <> 0 ->
  Z.quot a b - (if (Z.sgn b * Z.sgn a <? 0) && negb (Z.rem a b =? 0) then 1 else 0) = a / b.
Proof.
  intros Hb. destruct (Z.ltb_spec (Z.sgn b * Z.sgn a) 0); destruct (Z.eqb_spec (Z.rem a b) 0); simpl; nia.
Qed.

Definition div_post (a b : Z) (r : res) : Prop :=
  match r with
  | Ok r => b <> 0 /\ wf r /\ den r = a / b
  | Err FloorDivisionByZero => b = 0
  | Err _ => False
  end.

Lemma floor_div_big_exact a b : div_post a b (floor_div_big a b).
Proof.
  unfold floor_div_big, div_post. destruct (Z.eqb_spec b 0); [assumption|].
  rewrite floor_offset by assumption. split; [assumption|apply canon_ok].
Qed.

Lemma floor_div_small_exact a b : in_inline a = true -> in_inline b = true ->
  div_post a b (floor_div_small a b).
Proof.
  intros Ha Hb. apply in_inline_spec in Ha. apply in_inline_spec in Hb.
  unfold floor_div_small. destruct (Z.eqb_spec b 0) as [E|E]; [exact E|].
  unfold checked_div. destruct (Z.eqb_spec b 0); [contradiction|].
  rewrite checked_spec. destruct (in_inline (Z.quot a b)) eqn:Q.
  - rewrite floor_offset by assumption. rewrite checked_spec.
    destruct (in_inline (a / b)) eqn:D.
    + simpl. auto.
    + exfalso. apply in_inline_false in D. apply in_inline_spec in Q.
      pose proof (floor_offset a b E) as FO.
      destruct ((Z.sgn b * Z.sgn a <? 0) && negb (Z.rem a b =? 0)) eqn:O; [|lia].
      assert (Z.quot a b = -2147483648) by lia. nia.
  - apply floor_div_big_exact.
Qed.

Theorem floor_div_exact a b : wf a -> wf b -> div_post (den a) (den b) (floor_div a b).
Proof.
  destruct a as [x|x], b as [y|y]; simpl; intros Ha Hb; try apply floor_div_big_exact.
  apply floor_div_small_exact; assumption.
Qed.

Definition mod_post (a b : Z) (r : res) : Prop :=
  match r with
  | Ok r => b <> 0 /\ wf r /\ den r = a mod b
  | Err ModuloByZero => b = 0
  | Err _ => False
  end.

Lemma rem_adjust a b : b <> 0 -> Z.rem a b <> 0 ->
  (if negb (Z.sgn b =? Z.sgn (Z.rem a b)) then Z.rem a b + b else Z.rem a b) = a mod b.
Proof.
  intros Hb Hr.
  pose proof (Z.rem_bound_abs a b Hb). pose proof (Z.quot_rem' a b).
  destruct (Z.eqb_spec (Z.sgn b) (Z.sgn (Z.rem a b))); simpl.
  - apply Z.mod_unique with (q := Z.quot a b); [|lia].
    destruct (Z.sgn_spec b) as [[? ?]|[[? ?]|[? ?]]];
    destruct (Z.sgn_spec (Z.rem a b)) as [[? ?]|[[? ?]|[? ?]]]; lia.
  - apply Z.mod_unique with (q := Z.quot a b - 1); [|lia].
    destruct (Z.sgn_spec b) as [[? ?]|[[? ?]|[? ?]]];
    destruct (Z.sgn_spec (Z.rem a b)) as [[? ?]|[[? ?]|[? ?]]]; lia.
Qed.

Lemma rem0_mod0 a b : b <> 0 -> Z.rem a b = 0 -> a mod b = 0.
Proof. intros Hb H. apply Z.mod_divide; [assumption|]. apply Z.rem_divide; assumption. Qed.

Lemma wf_small0 : wf (Small 0).
Proof. apply in_inline_spec. lia. Qed.

Lemma percent_big_exact a b : mod_post a b (percent_big a b).
Proof.
  unfold percent_big, mod_post. destruct (Z.eqb_spec b 0); [assumption|].
  destruct (Z.eqb_spec (Z.rem a b) 0) as [R|R].
  - split; [assumption|]. split; [apply wf_small0|]. simpl. symmetry. apply rem0_mod0; assumption.
  - rewrite rem_adjust by assumption. split; [assumption|apply canon_ok].
Qed.

Lemma percent_small_exact a b : in_inline a = true -> in_inline b = true ->
  mod_post a b (percent_small a b).
Proof.
  intros Ha Hb. apply in_inline_spec in Ha. apply in_inline_spec in Hb.
  unfold percent_small, mod_post, i32min. destruct (Z.eqb_spec b 0); [assumption|].
  destruct (Z.eqb_spec a (-2147483648)); destruct (Z.eqb_spec b (-1)); simpl andb; cbv iota.
  1: { subst. split; [lia|]. split; [apply wf_small0|]. reflexivity. }
  all: destruct (Z.eqb_spec (Z.rem a b) 0) as [R|R];
    [ split; [assumption|]; split; [apply wf_small0|]; simpl; symmetry; apply rem0_mod0; assumption | ].
  all: pose proof (rem_adjust a b ltac:(assumption) R) as HA;
       destruct (negb (Z.sgn b =? Z.sgn (Z.rem a b))) eqn:S.
  all: try (rewrite checked_spec; destruct (in_inline (Z.rem a b + b)) eqn:I;
       [ split; [assumption|]; split; [exact I| simpl; exact HA]
       | exfalso; apply in_inline_false in I; nia ]).
  all: split; [assumption|]; split; [apply in_inline_spec; nia | simpl; exact HA].
Qed.

Theorem percent_exact a b : wf a -> wf b -> mod_post (den a) (den b) (percent a b).
Proof.
  destruct a as [x|x], b as [y|y]; simpl; intros Ha Hb; try apply percent_big_exact.
  apply percent_small_exact; assumption.
Qed.

(* ---- shifts ---------------------------------------------------------------------------------- *)
Definition shl_post (a b : Z) (r : res) : Prop :=
  match r with
  | Ok r => 0 <= b /\ wf r /\ den r = Z.shiftl a b
  | Err LeftShiftNegative => b < 0
  | Err LeftShiftOverflow => a <> 0 /\ shl_cap < b
  | Err _ => False
  end.

Theorem shl_exact a b : wf a -> wf b -> shl_post (den a) (den b) (left_shift a b).
Proof.
  intros Ha Hb. unfold left_shift.
  destruct (match a, b with
            | Small x, Small y => if 0 <=? y then checked_shl x y else None
            | _, _ => None end) as [r|] eqn:F.
  - destruct a as [x|x], b as [y|y]; try discriminate. simpl.
    destruct (Z.leb_spec 0 y); [|discriminate]. unfold checked_shl in F.
    destruct (32 <=? y); [discriminate|]. destruct (in_inline (Z.shiftl x y)) eqn:I; [|discriminate].
    injection F as <-. auto.
  - clear F. unfold is_negative. destruct (Z.ltb_spec (den b) 0); [assumption|].
    destruct (is_zero a || is_zero b) eqn:Zr.
    + simpl. split; [assumption|]. split; [assumption|].
      apply orb_true_iff in Zr. destruct Zr as [Zr|Zr].
      * destruct a; simpl in *; [|discriminate]. apply Z.eqb_eq in Zr. subst. rewrite Z.shiftl_0_l. reflexivity.
      * destruct b; simpl in *; [|discriminate]. apply Z.eqb_eq in Zr. subst. rewrite Z.shiftl_0_r. reflexivity.
    + apply orb_false_iff in Zr. destruct Zr as [Za Zb].
      assert (den a <> 0).
      { destruct a as [x|x]; simpl in *; [apply Z.eqb_neq; assumption|]. apply wf_big in Ha. lia. }
      destruct (Z.ltb_spec shl_cap (den b)); [simpl; auto|].
      destruct b as [y|y]; simpl in *.
      * split; [assumption|]. apply canon_ok.
      * apply wf_big in Hb. pose proof shl_cap_ok. lia.
Qed.

Definition shr_post (a b : Z) (r : res) : Prop :=
  match r with
  | Ok r => 0 <= b /\ wf r /\ den r = Z.shiftr a b
  | Err RightShiftNegative => b < 0
  | Err _ => False
  end.

Lemma shiftr_saturate a b k : 0 <= k <= b -> - 2 ^ k <= a < 2 ^ k ->
  Z.shiftr a b = if a <? 0 then -1 else 0.
Proof.
  intros Hk Ha. rewrite Z.shiftr_div_pow2 by lia.
  assert (2 ^ k <= 2 ^ b) by (apply Z.pow_le_mono_r; lia).
  assert (0 < 2 ^ k) by (apply Z.pow_pos_nonneg; lia).
  destruct (Z.ltb_spec a 0).
  - symmetry. apply Z.div_unique with (r := a + 2 ^ b); lia.
  - apply Z.div_small. lia.
Qed.

Lemma shiftr_fast_eq x n : 0 <= n -> shiftr_fast x n = Z.shiftr x n.
Proof.
  intros Hn. unfold shiftr_fast. destruct (Z.ltb_spec (Z.log2 (Z.abs x) + 1) n); [|reflexivity].
  symmetry. apply shiftr_saturate with (k := Z.log2 (Z.abs x) + 1).
  - pose proof (Z.log2_nonneg (Z.abs x)). lia.
  - destruct (Z.eq_dec x 0) as [->|Hx].
    + simpl. lia.
    + pose proof (Z.log2_spec (Z.abs x) ltac:(lia)) as [_ Hs].
      replace (Z.succ (Z.log2 (Z.abs x))) with (Z.log2 (Z.abs x) + 1) in Hs by lia. lia.
Qed.

Lemma wf_m1_0 (c : bool) : wf (Small (if c then -1 else 0)).
Proof. apply in_inline_spec. destruct c; lia. Qed.

(* The guard |a| < 2^(2^64) excludes integers whose magnitude needs more than 2^64 bits, which no
   machine can hold; for them `a >> b` with b >= 2^64 is answered 0 / -1 by the code. *)
Theorem shr_exact a b : wf a -> wf b -> - 2 ^ u64max <= den a < 2 ^ u64max ->
  shr_post (den a) (den b) (right_shift a b).
Proof.
  intros Ha Hb Hmag. unfold right_shift.
  destruct (match a, b with
            | Small x, Small y => if 0 <=? y then checked_shr x y else None
            | _, _ => None end) as [r|] eqn:F.
  - destruct a as [x|x], b as [y|y]; try discriminate. simpl.
    destruct (Z.leb_spec 0 y); [|discriminate]. unfold checked_shr in F.
    destruct (32 <=? y); [discriminate|]. rewrite checked_spec in F.
    destruct (in_inline (Z.shiftr x y)) eqn:I; [|discriminate]. injection F as <-. auto.
  - unfold is_negative. destruct (Z.ltb_spec (den b) 0); [assumption|].
    destruct (is_zero a || is_zero b) eqn:Zr.
    + simpl. split; [assumption|]. split; [assumption|].
      apply orb_true_iff in Zr. destruct Zr as [Zr|Zr].
      * destruct a; cbn [den is_zero is_negative] in *; [|discriminate]. apply Z.eqb_eq in Zr. subst. rewrite Z.shiftr_0_l. reflexivity.
      * destruct b; cbn [den is_zero is_negative] in *; [|discriminate]. apply Z.eqb_eq in Zr. subst. rewrite Z.shiftr_0_r. reflexivity.
    + destruct (Z.ltb_spec u64max (den b)).
      * simpl. split; [assumption|]. split; [apply wf_m1_0|].
        symmetry. apply shiftr_saturate with (k := u64max); [|assumption].
        clear Hmag. split; [discriminate | lia].
      * destruct a as [x|x]; simpl.
        -- split; [assumption|]. split; [apply wf_m1_0|].
           (* here the fast path failed: b >= 32 (or b is Big) *)
           assert (32 <= den b).
           { destruct b as [y|y]; cbn [den is_zero is_negative] in *.
             - destruct (Z.leb_spec 0 y); [|lia]. unfold checked_shr in F.
               destruct (Z.leb_spec 32 y); [assumption|]. exfalso.
               rewrite checked_spec in F.
               assert (in_inline (Z.shiftr x y) = true); [|rewrite H3 in F; discriminate].
               apply in_inline_spec. apply wf_small in Ha. rewrite Z.shiftr_div_pow2 by lia.
               assert (0 < 2 ^ y) by (apply Z.pow_pos_nonneg; lia). nia.
             - apply wf_big in Hb. lia. }
           symmetry. apply shiftr_saturate with (k := 31); [lia|]. apply wf_small in Ha.
           change (2 ^ 31) with 2147483648. lia.
        -- split; [assumption|]. rewrite <- shiftr_fast_eq by assumption. apply canon_ok.
Qed.

Theorem abs_exact a : wf a -> wf (abs a) /\ den (abs a) = Z.abs (den a).
Proof. destruct a; simpl; intros _; apply canon_ok. Qed.

(* ---- comparison ------------------------------------------------------------------------------ *)
Theorem compare_exact a b : wf a -> wf b -> compare a b = Z.compare (den a) (den b).
Proof.
  destruct a as [x|x], b as [y|y]; simpl; intros Ha Hb; try reflexivity.
  - apply wf_small in Ha. apply wf_big in Hb. unfold cmp_small_big.
    destruct (Z.compare_spec x y); destruct (Z.compare_spec (Z.sgn x) (2 * Z.sgn y)); try reflexivity; lia.
  - apply wf_big in Ha. apply wf_small in Hb. unfold cmp_small_big.
    destruct (Z.compare_spec x y); destruct (Z.compare_spec (Z.sgn y) (2 * Z.sgn x)); simpl; try reflexivity; lia.
Qed.

Theorem eqb_exact a b : wf a -> wf b -> eqb a b = (den a =? den b).
Proof.
  destruct a as [x|x], b as [y|y]; simpl; intros Ha Hb; try reflexivity.
  - apply wf_small in Ha. apply wf_big in Hb. lia.
  - apply wf_big in Ha. apply wf_small in Hb. lia.
Qed.

(* ---- host conversions ------------------------------------------------------------------------ *)
Theorem unpack_range_exact lo hi a :
  unpack_range lo hi a = if (lo <=? den a) && (den a <=? hi) then Some (den a) else None.
Proof. reflexivity. Qed.

Theorem unpack_i32_exact a : wf a ->
  unpack_i32 a = if (-2147483648 <=? den a) && (den a <=? 2147483647) then Some (den a) else None.
Proof.
  destruct a as [x|x]; simpl; intros H.
  - apply wf_small in H. destruct ((-2147483648 <=? x) && (x <=? 2147483647)) eqn:E; [reflexivity|lia].
  - apply wf_big in H. destruct ((-2147483648 <=? x) && (x <=? 2147483647)) eqn:E; [lia|reflexivity].
Qed.
