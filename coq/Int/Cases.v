(* C10 correspondence driver: runs the model on the operands the implementation ran on and
   reports the cases on which the two differ.  Executable only. *)
From Coq Require Import ZArith Bool List.
From SV Require Import Int.Model.
Import ListNotations.
Open Scope Z_scope.

Inductive op := OAdd | OSub | OMul | ODiv | OMod | OAnd | OOr | OXor | OShl | OShr
              | OEq | ONe | OLt | OLe | OGt | OGe | ONeg | OInv | OPos | OAbs.

(* observable outcome: an integer with its representation tag, a boolean, or an error *)
Inductive out := OInt (big : bool) (z : Z) | OBool (b : bool) | OErr (e : err).

Definition of_rep (r : rep) : out := OInt (is_big r) (den r).
Definition of_res (r : res) : out := match r with Ok r => of_rep r | Err e => OErr e end.
Definition is_lt c := match c with Lt => true | _ => false end.
Definition is_gt c := match c with Gt => true | _ => false end.

Definition run (o : op) (x y : Z) : out :=
  let a := canon x in let b := canon y in
  match o with
  | OAdd => of_rep (add a b) | OSub => of_rep (sub a b) | OMul => of_rep (mul a b)
  | ODiv => of_res (floor_div a b) | OMod => of_res (percent a b)
  | OAnd => of_rep (bit_and a b) | OOr => of_rep (bit_or a b) | OXor => of_rep (bit_xor a b)
  | OShl => of_res (left_shift a b) | OShr => of_res (right_shift a b)
  | OEq => OBool (eqb a b) | ONe => OBool (negb (eqb a b))
  | OLt => OBool (is_lt (compare a b)) | OLe => OBool (negb (is_gt (compare a b)))
  | OGt => OBool (is_gt (compare a b)) | OGe => OBool (negb (is_lt (compare a b)))
  | ONeg => of_rep (neg a) | OInv => of_rep (bit_not a) | OPos => of_rep a | OAbs => of_rep (abs a)
  end.

Definition err_eqb (a b : err) : bool :=
  match a, b with
  | FloorDivisionByZero, FloorDivisionByZero | ModuloByZero, ModuloByZero
  | LeftShiftOverflow, LeftShiftOverflow | LeftShiftNegative, LeftShiftNegative
  | RightShiftNegative, RightShiftNegative | Unreachable, Unreachable => true
  | _, _ => false
  end.
Definition out_eqb (a b : out) : bool :=
  match a, b with
  | OInt g x, OInt h y => Bool.eqb g h && (x =? y)
  | OBool x, OBool y => Bool.eqb x y
  | OErr x, OErr y => err_eqb x y
  | _, _ => false
  end.

(* cases: (id, op, a, b, what the implementation returned); result: ids that differ + model answer *)
Definition mismatches (cs : list (N * op * Z * Z * out)) : list (N * out) :=
  flat_map (fun c => match c with (i, o, x, y, impl) =>
     let m := run o x y in if out_eqb m impl then [] else [(i, m)] end) cs.
