(* C09 specification: the mathematical denotation of a value.  Two values are equal in the
   specification iff their denotations are equal; being an equality of trees this is an equivalence
   relation by construction.  A number denotes its exact real value (written as an integer count of
   units of 2^-1074, in which every finite binary64 is integral), or +inf / -inf / NaN (all NaNs are
   one value, as the Starlark specification has it); -0.0 and +0.0 denote the same number. *)
From Coq Require Import ZArith Bool List.
From SV Require Import Int.Model Eq.Model.
Import ListNotations.
Open Scope Z_scope.

Inductive nkey := KNaN | KPInf | KNInf | KVal (units : Z).

Definition unit_scale : Z := 2 ^ (0 - emin).

Definition fkey (f : f64) : nkey :=
  match f with NaN => KNaN | PInf => KPInf | NInf => KNInf | _ => KVal (fscaled f) end.
Definition num_key (n : num) : nkey :=
  match n with NInt r => KVal (den r * unit_scale) | NFloat f => fkey f end.

Inductive skey := SNone | SBool (b : bool) | SNum (k : nkey) | SStr (s : list Z)
                | STuple (l : list skey) | SList (l : list skey).

Fixpoint denote (v : value) : skey :=
  match v with
  | VNone => SNone
  | VBool b => SBool b
  | VNum n => SNum (num_key n)
  | VStr s => SStr s
  | VTuple l => STuple (map denote l)
  | VList l => SList (map denote l)
  end.

(* the class on which the implementation's int/float comparison (through conversion to binary64)
   is exact: every integer has magnitude at most 2^53 *)
Definition exact_num (n : num) : bool :=
  match n with NInt r => Z.abs (den r) <=? p53 | NFloat _ => true end.
Fixpoint exact_in_f64 (v : value) : bool :=
  match v with
  | VNum n => exact_num n
  | VTuple l | VList l => forallb exact_in_f64 l
  | _ => true
  end.

(* values without floats: the class on which ordering is a strict total order per type *)
Definition int_only (n : num) : bool := match n with NInt _ => true | NFloat _ => false end.
Fixpoint float_free (v : value) : bool :=
  match v with
  | VNum n => int_only n
  | VTuple l | VList l => forallb float_free l
  | _ => true
  end.
