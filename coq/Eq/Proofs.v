(* C09 lemmas about Eq/Model.v. *)
From Coq Require Import ZArith Lia Bool List ZifyBool Permutation Sorted.
From SV Require Import Extracted.IntC Extracted.EqC Int.Model Int.Proofs Eq.Model.
Import ListNotations.
Open Scope Z_scope.

(* ------------------------------------------------------------------------------------------ *)
(* induction over values with the nested lists *)
Section ValueInd.
  Variable P : value -> Prop.
  Hypothesis HNone : P VNone.
  Hypothesis HBool : forall b, P (VBool b).
  Hypothesis HNum : forall n, P (VNum n).
  Hypothesis HStr : forall s, P (VStr s).
  Hypothesis HTuple : forall l, Forall P l -> P (VTuple l).
  Hypothesis HList : forall l, Forall P l -> P (VList l).
  Fixpoint value_ind' (v : value) : P v :=
    match v with
    | VNone => HNone
    | VBool b => HBool b
    | VNum n => HNum n
    | VStr s => HStr s
    | VTuple l => HTuple l ((fix go l := match l return Forall P l with
                                         | [] => Forall_nil P
                                         | x :: l' => Forall_cons x (value_ind' x) (go l') end) l)
    | VList l => HList l ((fix go l := match l return Forall P l with
                                       | [] => Forall_nil P
                                       | x :: l' => Forall_cons x (value_ind' x) (go l') end) l)
    end.
End ValueInd.

(* ------------------------------------------------------------------------------------------ *)
(* binary64: canonical form *)

Lemma fwfb_fin m e : fwfb (Fin m e) = true <->
  Z.abs m < p53 /\ ((p52 <= Z.abs m /\ emin <= e <= emax) \/ (Z.abs m < p52 /\ e = emin)).
Proof. unfold fwfb. lia. Qed.

Lemma pow2_pos a : 0 <= a -> 0 < 2 ^ a.
Proof. intros. apply Z.pow_pos_nonneg; lia. Qed.

Lemma pow2_split a b : 0 <= a -> 0 <= b -> 2 ^ (a + b) = 2 ^ a * 2 ^ b.
Proof. intros. apply Z.pow_add_r; lia. Qed.

Lemma pow2_ge2 k : 1 <= k -> 2 <= 2 ^ k.
Proof. intros. change 2 with (2 ^ 1) at 1. apply Z.pow_le_mono_r; lia. Qed.

Lemma fin_unique_lt m1 a1 m2 a2 :
  0 <= a1 < a2 -> Z.abs m1 < p53 -> p52 <= Z.abs m2 -> m1 * 2 ^ a1 = m2 * 2 ^ a2 -> False.
Proof.
  intros Ha H1 H2 E.
  replace a2 with (a1 + (a2 - a1)) in E by lia.
  rewrite pow2_split in E by lia.
  pose proof (pow2_pos a1 ltac:(lia)) as PA.
  pose proof (pow2_ge2 (a2 - a1) ltac:(lia)) as PK.
  set (A := 2 ^ a1) in *. set (K := 2 ^ (a2 - a1)) in *.
  assert (E' : m1 = m2 * K) by (apply Z.mul_reg_r with A; lia).
  unfold p52, p53 in *. nia.
Qed.

Lemma fin_unique m1 e1 m2 e2 :
  fwfb (Fin m1 e1) = true -> fwfb (Fin m2 e2) = true ->
  fscaled (Fin m1 e1) = fscaled (Fin m2 e2) -> m1 = m2 /\ e1 = e2.
Proof.
  intros W1 W2 E. apply fwfb_fin in W1. apply fwfb_fin in W2. cbn [fscaled] in E.
  destruct (Z.lt_trichotomy e1 e2) as [L | [L | L]].
  - exfalso. apply (fin_unique_lt m1 (e1 - emin) m2 (e2 - emin)); unfold emin in *; lia.
  - subst e2. split; [| reflexivity].
    pose proof (pow2_pos (e1 - emin) ltac:(unfold emin in *; lia)) as PA.
    apply Z.mul_reg_r with (2 ^ (e1 - emin)); lia.
  - exfalso. apply (fin_unique_lt m2 (e2 - emin) m1 (e1 - emin)); unfold emin in *; lia.
Qed.

Lemma fscaled_zero m e : fscaled (Fin m e) = 0 -> emin <= e -> m = 0.
Proof.
  cbn [fscaled]. intros E He. pose proof (pow2_pos (e - emin) ltac:(lia)). nia.
Qed.

(* ------------------------------------------------------------------------------------------ *)
(* integer -> binary64 *)

Lemma log2_bounds n : 0 < n -> 2 ^ Z.log2 n <= n < 2 ^ (Z.log2 n + 1).
Proof. intros. replace (Z.log2 n + 1) with (Z.succ (Z.log2 n)) by lia. apply Z.log2_spec; lia. Qed.

Lemma z2f_small z : z <> 0 -> Z.log2 (Z.abs z) + 1 <= 53 ->
  z_to_f64 z = Fin (z * 2 ^ (53 - (Z.log2 (Z.abs z) + 1))) (Z.log2 (Z.abs z) + 1 - 53).
Proof.
  intros Hz HL. unfold z_to_f64.
  destruct (z =? 0) eqn:E0; [lia |].
  destruct (Z.log2 (Z.abs z) + 1 <=? 53) eqn:EL; [| lia].
  f_equal. rewrite Z.mul_assoc. f_equal. rewrite Z.mul_comm. apply Z.abs_sgn.
Qed.

Lemma small_iff_lt z : z <> 0 -> (Z.log2 (Z.abs z) + 1 <= 53 <-> Z.abs z < p53).
Proof.
  intros Hz. pose proof (log2_bounds (Z.abs z) ltac:(lia)) as [B1 B2].
  pose proof (Z.log2_nonneg (Z.abs z)) as LN.
  split; intros H.
  - eapply Z.lt_le_trans; [exact B2 |]. change p53 with (2 ^ 53). apply Z.pow_le_mono_r; lia.
  - destruct (Z_le_gt_dec (Z.log2 (Z.abs z) + 1) 53) as [ok | bad]; [exact ok | exfalso].
    assert (2 ^ 53 <= 2 ^ Z.log2 (Z.abs z)) by (apply Z.pow_le_mono_r; lia).
    change (2 ^ 53) with p53 in *. lia.
Qed.

(* the value of a small integer's float is the integer *)
Lemma z2f_small_scaled z : Z.abs z < p53 -> fscaled (z_to_f64 z) = z * 2 ^ (0 - emin).
Proof.
  intros Hs. destruct (Z.eq_dec z 0) as [-> | Hz]; [reflexivity |].
  pose proof (proj2 (small_iff_lt z Hz) Hs) as HL.
  rewrite z2f_small by assumption. cbn [fscaled].
  pose proof (Z.log2_nonneg (Z.abs z)) as LN.
  set (L := Z.log2 (Z.abs z) + 1) in *.
  rewrite <- Z.mul_assoc. f_equal. rewrite <- Z.pow_add_r by (unfold emin; lia). f_equal. lia.
Qed.

Lemma z2f_wf z : fwfb (z_to_f64 z) = true.
Proof.
  unfold z_to_f64. destruct (z =? 0) eqn:E0; [reflexivity |].
  assert (Hz : z <> 0) by lia.
  pose proof (log2_bounds (Z.abs z) ltac:(lia)) as [B1 B2].
  pose proof (Z.log2_nonneg (Z.abs z)) as LN.
  assert (HS : Z.abs (Z.sgn z) = 1) by lia.
  set (n := Z.abs z) in *. set (L := Z.log2 n + 1) in *.
  replace (Z.log2 n) with (L - 1) in B1 by lia.
  destruct (L <=? 53) eqn:EL.
  - apply fwfb_fin. rewrite Z.abs_mul, HS, Z.mul_1_l.
    assert (P1 : 2 ^ (L - 1) * 2 ^ (53 - L) = p52)
      by (rewrite <- Z.pow_add_r by lia; replace (L - 1 + (53 - L)) with 52 by lia; reflexivity).
    assert (P2 : 2 ^ L * 2 ^ (53 - L) = p53)
      by (rewrite <- Z.pow_add_r by lia; replace (L + (53 - L)) with 53 by lia; reflexivity).
    pose proof (pow2_pos (53 - L) ltac:(lia)) as PP.
    rewrite Z.abs_eq by nia.
    split; [nia |]. left. unfold emin, emax. split; [nia | lia].
  - set (sh := L - 53) in *.
    assert (Hsh : 1 <= sh) by lia.
    assert (P1 : 2 ^ (L - 1) = p52 * 2 ^ sh)
      by (change p52 with (2 ^ 52); rewrite <- Z.pow_add_r by lia; f_equal; lia).
    assert (P2 : 2 ^ L = p53 * 2 ^ sh)
      by (change p53 with (2 ^ 53); rewrite <- Z.pow_add_r by lia; f_equal; lia).
    pose proof (pow2_pos sh ltac:(lia)) as PP.
    assert (Q1 : p52 <= n / 2 ^ sh) by (apply Z.div_le_lower_bound; lia).
    assert (Q2 : n / 2 ^ sh < p53) by (apply Z.div_lt_upper_bound; lia).
    set (q := n / 2 ^ sh) in *.
    set (up := (2 ^ (sh - 1) <? n mod 2 ^ sh) || ((n mod 2 ^ sh =? 2 ^ (sh - 1)) && Z.odd q)).
    set (q' := if up then q + 1 else q).
    assert (Q' : p52 <= q' <= p53) by (unfold q'; destruct up; lia).
    destruct (q' =? p53) eqn:EQ.
    + destruct (emax <? sh + 1) eqn:EE; [destruct (z <? 0); reflexivity |].
      apply fwfb_fin. rewrite Z.abs_mul, HS, Z.mul_1_l. unfold p52, p53, emin, emax in *. lia.
    + destruct (emax <? sh) eqn:EE; [destruct (z <? 0); reflexivity |].
      apply fwfb_fin. rewrite Z.abs_mul, HS, Z.mul_1_l. unfold p52, p53, emin, emax in *. lia.
Qed.

(* a float made from an integer is never NaN or -0.0 *)
Lemma z2f_shape z : match z_to_f64 z with NaN | NegZero => False | _ => True end.
Proof.
  unfold z_to_f64. destruct (z =? 0); [exact I |].
  destruct (_ <=? 53); [exact I |].
  destruct (emax <? _); [destruct (z <? 0); exact I | exact I].
Qed.

Lemma z2f_big_shape z : p53 <= Z.abs z ->
  match z_to_f64 z with Fin m e => 1 <= e | PInf | NInf => True | _ => False end.
Proof.
  intros HB. assert (Hz : z <> 0) by (unfold p53 in *; lia).
  pose proof (small_iff_lt z Hz) as SI.
  unfold z_to_f64. destruct (z =? 0) eqn:E0; [lia |].
  destruct (Z.log2 (Z.abs z) + 1 <=? 53) eqn:EL; [lia |].
  set (sh := Z.log2 (Z.abs z) + 1 - 53) in *. assert (1 <= sh) by lia.
  match goal with |- context [if ?c then p52 else _] => destruct c end.
  - destruct (emax <? sh + 1); [destruct (z <? 0); exact I | lia].
  - destruct (emax <? sh); [destruct (z <? 0); exact I | lia].
Qed.

(* ------------------------------------------------------------------------------------------ *)
(* comparison of floats *)

Lemma compare_impl_antisym a b : compare_impl b a = CompOpp (compare_impl a b).
Proof.
  destruct a, b; try reflexivity;
  unfold compare_impl, fcmp_partial; apply Z.compare_antisym.
Qed.

Lemma compare_impl_refl a : compare_impl a a = Eq.
Proof. destruct a; try reflexivity. unfold compare_impl, fcmp_partial. apply Z.compare_refl. Qed.

Definition fzero (f : f64) : Prop := f = Fin 0 emin \/ f = NegZero.

Lemma wf_fin0 e : fwfb (Fin 0 e) = true -> e = emin.
Proof. intros W. apply fwfb_fin in W. unfold p52, p53 in *. lia. Qed.

Lemma cmp_eq_cases a b : fwfb a = true -> fwfb b = true -> compare_impl a b = Eq ->
  a = b \/ (fzero a /\ fzero b).
Proof.
  intros Wa Wb E.
  destruct a as [m1 e1 | | | |], b as [m2 e2 | | | |]; try discriminate E; try (left; reflexivity).
  - unfold compare_impl, fcmp_partial in E. apply Z.compare_eq in E.
    destruct (fin_unique _ _ _ _ Wa Wb E) as [-> ->]. left; reflexivity.
  - unfold compare_impl, fcmp_partial in E. apply Z.compare_eq in E.
    pose proof (proj1 (fwfb_fin _ _) Wa) as W.
    assert (m1 = 0) by (apply (fscaled_zero m1 e1); [exact E | unfold emin, p52 in *; lia]). subst m1.
    rewrite (wf_fin0 _ Wa). right. split; [left | right]; reflexivity.
  - unfold compare_impl, fcmp_partial in E. apply Z.compare_eq in E. symmetry in E.
    pose proof (proj1 (fwfb_fin _ _) Wb) as W.
    assert (m2 = 0) by (apply (fscaled_zero m2 e2); [exact E | unfold emin, p52 in *; lia]). subst m2.
    rewrite (wf_fin0 _ Wb). right. split; [right | left]; reflexivity.
Qed.

Definition is_fin (f : f64) : Prop := match f with Fin _ _ => True | _ => False end.

Lemma feq_fin a b : is_fin a -> is_fin b -> feq_ieee a b = (fscaled a =? fscaled b).
Proof.
  destruct a, b; cbn [is_fin]; try tauto. intros _ _.
  unfold feq_ieee, fcmp_partial.
  destruct (Z.compare_spec (fscaled (Fin m e)) (fscaled (Fin m0 e0))); lia.
Qed.

Lemma z2f_small_fin z : Z.abs z < p53 -> is_fin (z_to_f64 z).
Proof.
  intros Hs. destruct (Z.eq_dec z 0) as [-> | Hz]; [exact I |].
  rewrite z2f_small; [exact I | exact Hz | apply small_iff_lt; assumption].
Qed.

(* ------------------------------------------------------------------------------------------ *)
(* f64_to_i32_exact on floats that come from integers *)

Lemma f_trunc_scaled x k : 0 <= k -> f_trunc (Fin (x * 2 ^ k) (- k)) = x.
Proof.
  intros Hk. cbn [f_trunc]. destruct (0 <=? - k) eqn:E.
  - assert (k = 0) by lia. subst k. cbn. lia.
  - rewrite Z.opp_involutive. apply Z.quot_mul. pose proof (pow2_pos k Hk). lia.
Qed.

Lemma f_as_i32_small z : z <> 0 -> Z.abs z < p53 -> f_as_i32 (z_to_f64 z) = clamp_i32 z.
Proof.
  intros Hz Hs. pose proof (proj2 (small_iff_lt z Hz) Hs) as HL.
  rewrite z2f_small by assumption. cbn [f_as_i32]. f_equal.
  replace (Z.log2 (Z.abs z) + 1 - 53) with (- (53 - (Z.log2 (Z.abs z) + 1))) by lia.
  apply f_trunc_scaled. lia.
Qed.

Lemma i32_lt_p53 x : in_i32 x = true -> Z.abs x < p53.
Proof. intros H. apply in_i32_spec in H. unfold p53. lia. Qed.

Lemma exact_small x : in_i32 x = true -> f64_to_i32_exact (z_to_f64 x) = Some x.
Proof.
  intros Hi. destruct (Z.eq_dec x 0) as [-> | Hz]; [reflexivity |].
  pose proof (i32_lt_p53 x Hi) as Hs.
  unfold f64_to_i32_exact. rewrite (f_as_i32_small x Hz Hs).
  assert (clamp_i32 x = x) as ->.
  { apply in_i32_spec in Hi. unfold clamp_i32, i32min, i32max. 
    destruct (x <? -2147483648) eqn:?; [lia |]. destruct (2147483647 <? x) eqn:?; [lia | reflexivity]. }
  rewrite feq_fin by (apply z2f_small_fin; exact Hs). rewrite Z.eqb_refl. reflexivity.
Qed.

Lemma clamp_cases z : (clamp_i32 z = z /\ i32min <= z <= i32max) \/
                      (clamp_i32 z = i32min /\ z < i32min) \/ (clamp_i32 z = i32max /\ i32max < z).
Proof. unfold clamp_i32. destruct (z <? i32min) eqn:?; [lia |]. destruct (i32max <? z) eqn:?; lia. Qed.

Lemma exact_big x : in_i32 x = false -> f64_to_i32_exact (z_to_f64 x) = None.
Proof.
  intros Hi. assert (Hout : x < i32min \/ i32max < x).
  { destruct (Z_lt_dec x i32min); [left; assumption |]. destruct (Z_lt_dec i32max x); [right; assumption |].
    exfalso. assert (in_i32 x = true) by (apply in_i32_spec; unfold i32min, i32max in *; lia). congruence. }
  assert (Hz : x <> 0) by (unfold i32min, i32max in *; lia).
  destruct (Z_lt_dec (Z.abs x) p53) as [Hs | Hb].
  - (* exactly representable: the saturated cast differs from x *)
    unfold f64_to_i32_exact. rewrite (f_as_i32_small x Hz Hs).
    assert (Hc : clamp_i32 x <> x /\ Z.abs (clamp_i32 x) < p53).
    { destruct (clamp_cases x) as [[? ?] | [[-> ?] | [-> ?]]]; unfold i32min, i32max, p53 in *; lia. }
    destruct Hc as [Hne Hcs].
    rewrite feq_fin by (apply z2f_small_fin; assumption).
    rewrite !z2f_small_scaled by assumption.
    pose proof (pow2_pos (0 - emin) ltac:(unfold emin; lia)) as PP.
    destruct (_ =? _) eqn:E; [| reflexivity]. exfalso. apply Hne. apply Z.mul_reg_r with (2 ^ (0 - emin)); lia.
  - (* magnitude >= 2^53: infinity or an integer far outside i32 *)
    pose proof (z2f_big_shape x ltac:(lia)) as SH. pose proof (z2f_wf x) as W.
    unfold f64_to_i32_exact.
    destruct (z_to_f64 x) as [m e | | | |] eqn:EF; try (exfalso; exact SH); try reflexivity.
    apply fwfb_fin in W.
    assert (HM : p52 <= Z.abs m) by (unfold emin in *; lia).
    cbn [f_as_i32 f_trunc]. destruct (0 <=? e) eqn:E0; [| lia].
    pose proof (pow2_ge2 e SH) as P2.
    assert (Hbig : m * 2 ^ e < i32min \/ i32max < m * 2 ^ e) by (unfold i32min, i32max, p52 in *; nia).
    assert (Hc : clamp_i32 (m * 2 ^ e) = i32min \/ clamp_i32 (m * 2 ^ e) = i32max).
    { destruct (clamp_cases (m * 2 ^ e)) as [[? ?] | [[-> ?] | [-> ?]]]; [lia | left; reflexivity | right; reflexivity]. }
    assert (Hw : fwfb (Fin m e) = true) by (apply fwfb_fin; exact W).
    destruct Hc as [-> | ->].
    + destruct (feq_ieee (z_to_f64 i32min) (Fin m e)) eqn:EQ; [| reflexivity]. exfalso.
      change (z_to_f64 i32min) with (Fin (-4503599627370496) (-21)) in EQ.
      rewrite feq_fin in EQ by exact I. apply Z.eqb_eq in EQ.
      apply fin_unique in EQ; [lia | reflexivity | exact Hw].
    + destruct (feq_ieee (z_to_f64 i32max) (Fin m e)) eqn:EQ; [| reflexivity]. exfalso.
      change (z_to_f64 i32max) with (Fin 9007199250546688 (-22)) in EQ.
      rewrite feq_fin in EQ by exact I. apply Z.eqb_eq in EQ.
      apply fin_unique in EQ; [lia | reflexivity | exact Hw].
Qed.

(* ------------------------------------------------------------------------------------------ *)
(* numbers: equality and the 64-bit pre-hash *)

Lemma eqb_true_eq a b : eqb a b = true -> a = b.
Proof. destruct a, b; cbn [eqb]; intros H; try discriminate; f_equal; lia. Qed.
Lemma eqb_refl a : eqb a a = true.
Proof. destruct a; cbn [eqb]; lia. Qed.
Lemma eqb_sym a b : eqb a b = eqb b a.
Proof. destruct a, b; cbn [eqb]; try reflexivity; lia. Qed.

Lemma num_eq_refl a : num_eq a a = true.
Proof. destruct a; cbn [num_eq]; [apply eqb_refl | rewrite compare_impl_refl; reflexivity]. Qed.

Lemma num_eq_sym a b : num_eq a b = num_eq b a.
Proof.
  destruct a, b; cbn [num_eq]; [apply eqb_sym | | |];
  rewrite (compare_impl_antisym (as_float _) (as_float _));
  match goal with |- context [CompOpp ?c] => destruct c end; reflexivity.
Qed.

Lemma hash64_small x : hash64 (NInt (Small x)) = u64 x.
Proof. reflexivity. Qed.
Lemma hash64_big x : hash64 (NInt (Big x)) = float_hash (z_to_f64 x).
Proof. unfold hash64, as_int, int_to_i32. rewrite inline_bits_ok. reflexivity. Qed.
Lemma hash64_float f : hash64 (NFloat f) =
  match f64_to_i32_exact f with Some i => u64 i | None => float_hash f end.
Proof. reflexivity. Qed.

Lemma hash64_fzero f : fzero f -> hash64 (NFloat f) = 0.
Proof. intros [-> | ->]; reflexivity. Qed.

Lemma wf_small_i32 x : wfb (Small x) = true -> in_i32 x = true.
Proof. cbn [wfb]. unfold in_inline. intros H. apply andb_true_iff in H. tauto. Qed.
Lemma wf_big_i32 x : wfb (Big x) = true -> in_i32 x = false.
Proof.
  cbn [wfb]. intros H. apply negb_true_iff in H. apply in_inline_false in H.
  destruct (in_i32 x) eqn:E; [| reflexivity]. apply in_i32_spec in E. lia.
Qed.

Lemma hash64_int_float r g : wfb r = true -> fwfb g = true ->
  compare_impl (z_to_f64 (den r)) g = Eq -> hash64 (NInt r) = hash64 (NFloat g).
Proof.
  intros Wr Wg E.
  destruct (cmp_eq_cases _ _ (z2f_wf (den r)) Wg E) as [<- | [Z1 Z2]].
  - destruct r as [x | x]; cbn [den].
    + rewrite hash64_small, hash64_float, (exact_small x (wf_small_i32 x Wr)). reflexivity.
    + rewrite hash64_big, hash64_float, (exact_big x (wf_big_i32 x Wr)). reflexivity.
  - rewrite (hash64_fzero g Z2).
    pose proof (z2f_shape (den r)) as SH.
    destruct Z1 as [Z1 | Z1]; [| rewrite Z1 in SH; contradiction].
    destruct r as [x | x]; cbn [den] in *.
    + pose proof (exact_small x (wf_small_i32 x Wr)) as EX. rewrite Z1 in EX.
      change (f64_to_i32_exact (Fin 0 emin)) with (Some 0) in EX. injection EX as <-. reflexivity.
    + pose proof (exact_big x (wf_big_i32 x Wr)) as EX. rewrite Z1 in EX. discriminate EX.
Qed.

Theorem hash64_coherent a b : nwfb a = true -> nwfb b = true -> num_eq a b = true -> hash64 a = hash64 b.
Proof.
  intros Wa Wb E. destruct a as [x | f], b as [y | g]; cbn [nwfb num_eq as_float] in *.
  - apply eqb_true_eq in E. congruence.
  - apply hash64_int_float; try assumption. destruct (compare_impl _ _); congruence.
  - symmetry. apply hash64_int_float; try assumption.
    rewrite compare_impl_antisym. destruct (compare_impl _ _); cbn; congruence.
  - assert (C : compare_impl f g = Eq) by (destruct (compare_impl f g); congruence).
    destruct (cmp_eq_cases _ _ Wa Wb C) as [-> | [Z1 Z2]]; [reflexivity |].
    rewrite (hash64_fzero _ Z1), (hash64_fzero _ Z2). reflexivity.
Qed.

(* ------------------------------------------------------------------------------------------ *)
(* structural equality on values *)

Lemma list_eqb_refl {A} (f : A -> A -> bool) l : Forall (fun x => f x x = true) l -> list_eqb f l l = true.
Proof. induction 1 as [| x l Hx _ IH]; cbn; [reflexivity | rewrite Hx, IH; reflexivity]. Qed.

Lemma list_eqb_sym {A} (f : A -> A -> bool) l :
  Forall (fun x => forall y, f x y = f y x) l -> forall l', list_eqb f l l' = list_eqb f l' l.
Proof.
  induction 1 as [| x l Hx _ IH]; intros [| y l']; cbn; try reflexivity. rewrite Hx, IH. reflexivity.
Qed.

Lemma zlist_eqb_eq s t : list_eqb Z.eqb s t = true <-> s = t.
Proof.
  revert t. induction s as [| x s IH]; intros [| y t]; cbn; split; intros H; try discriminate; try reflexivity.
  - apply andb_true_iff in H. destruct H as [H1 H2]. apply Z.eqb_eq in H1. apply IH in H2. congruence.
  - injection H as -> ->. rewrite Z.eqb_refl. apply IH. reflexivity.
Qed.

Theorem veq_refl a : veq a a = true.
Proof.
  induction a using value_ind'; cbn [veq].
  - reflexivity.
  - apply eqb_reflx.
  - apply num_eq_refl.
  - apply zlist_eqb_eq. reflexivity.
  - apply list_eqb_refl. assumption.
  - apply list_eqb_refl. assumption.
Qed.

Theorem veq_sym a : forall b, veq a b = veq b a.
Proof.
  induction a using value_ind'; intros [| y | y | y | y | y]; cbn [veq]; try reflexivity.
  - destruct b, y; reflexivity.
  - apply num_eq_sym.
  - apply list_eqb_sym. apply Forall_forall. intros. apply Z.eqb_sym.
  - apply list_eqb_sym. assumption.
  - apply list_eqb_sym. assumption.
Qed.

(* ------------------------------------------------------------------------------------------ *)
(* the 32-bit hash *)

Lemma forallb_Forall {A} (p : A -> bool) l : forallb p l = true -> Forall (fun x => p x = true) l.
Proof. intros H. apply Forall_forall. apply forallb_forall. exact H. Qed.

Section HashProofs.
  Variable sh : list Z -> Z.

  Lemma concat_opt_cons o l : concat_opt (o :: l) =
    match o, concat_opt l with Some a, Some b => Some (a ++ b) | _, _ => None end.
  Proof. reflexivity. Qed.

  Lemma words_list_coherent xs : 
    Forall (fun a => forall b, vwf a -> vwf b -> veq a b = true -> words sh a = words sh b) xs ->
    forall ys, forallb vwfb xs = true -> forallb vwfb ys = true -> list_eqb veq xs ys = true ->
    concat_opt (map (words sh) xs) = concat_opt (map (words sh) ys).
  Proof.
    induction 1 as [| x xs Hx _ IH]; intros [| y ys] Wx Wy E; cbn [forallb list_eqb] in *; try discriminate; [reflexivity |].
    apply andb_true_iff in Wx, Wy, E. destruct Wx, Wy, E.
    cbn [map]. rewrite !concat_opt_cons.
    rewrite (Hx y) by assumption. rewrite (IH ys) by assumption. reflexivity.
  Qed.

  Lemma words_coherent a : forall b, vwf a -> vwf b -> veq a b = true -> words sh a = words sh b.
  Proof.
    induction a using value_ind'; intros [| y | y | y | y | y] Wa Wb E; cbn [veq] in E; try discriminate E.
    - reflexivity.
    - apply eqb_prop in E. subst. reflexivity.
    - cbn [words]. rewrite (hash64_coherent n y); auto.
    - apply zlist_eqb_eq in E. subst. reflexivity.
    - cbn [words]. apply words_list_coherent; assumption.
    - reflexivity.
  Qed.

  Lemma num_vhash_uniform hp n : uniform hp = true -> 
    num_vhash hp n = if hp_float hp then fmix64_32 (hash64 n) else hash_words [hash64 n].
  Proof.
    unfold uniform, num_vhash. intros U. apply andb_true_iff in U. destruct U as [U1 U2].
    apply eqb_prop in U1, U2. destruct n as [[x | x] | f]; cbn [num_overrides]; rewrite ?U1, ?U2; reflexivity.
  Qed.

  Theorem vhash_coherent hp : uniform hp = true ->
    forall a b, vwf a -> vwf b -> veq a b = true -> vhash sh hp a = vhash sh hp b.
  Proof.
    intros U a b Wa Wb E. pose proof (words_coherent a b Wa Wb E) as HW.
    destruct a, b; cbn [veq] in E; try discriminate E; cbn [vhash].
    - reflexivity.
    - apply eqb_prop in E. subst. reflexivity.
    - rewrite !num_vhash_uniform by assumption. rewrite (hash64_coherent n n0); auto.
    - apply zlist_eqb_eq in E. subst. reflexivity.
    - rewrite HW. reflexivity.
    - reflexivity.
  Qed.

  Definition w_small : value := VNum (NInt (Small 1)).
  Definition w_small_f : value := VNum (NFloat (Fin p52 (-52))).          (* 1.0 *)
  Definition w_big : value := VNum (NInt (Big 1099511627776)).            (* 1 << 40 *)
  Definition w_big_f : value := VNum (NFloat (Fin p52 (-12))).            (* float(1 << 40) *)

  Theorem vhash_incoherent hp : uniform hp = false ->
    exists a b, vwf a /\ vwf b /\ veq a b = true /\ vhash sh hp a <> vhash sh hp b.
  Proof.
    intros U. destruct hp as [s b f].
    destruct (Bool.eqb s f) eqn:E1.
    - exists w_big, w_big_f. 
      destruct s, b, f; try discriminate U; try discriminate E1;
      (split; [reflexivity | split; [reflexivity | split; [reflexivity | vm_compute; intros H; discriminate H]]]).
    - exists w_small, w_small_f.
      destruct s, b, f; try discriminate E1;
      (split; [reflexivity | split; [reflexivity | split; [reflexivity | vm_compute; intros H; discriminate H]]]).
  Qed.

  (* decided for the table extracted from the code on this run *)
  Theorem vhash_extracted :
    if uniform hash_path
    then forall a b, vwf a -> vwf b -> veq a b = true -> vhash sh hash_path a = vhash sh hash_path b
    else exists a b, vwf a /\ vwf b /\ veq a b = true /\ vhash sh hash_path a <> vhash sh hash_path b.
  Proof.
    destruct (uniform hash_path) eqn:U; [apply vhash_coherent | apply vhash_incoherent]; exact U.
  Qed.

  (* equal hashable keys are found: the lookup model agrees with equality when the hash is coherent *)
  Theorem found_coherent hp : uniform hp = true ->
    forall a b, vwf a -> vwf b -> veq a b = true -> vhashable sh a = true -> found sh hp a b = Some true.
  Proof.
    intros U a b Wa Wb E H. unfold found. rewrite <- (vhash_coherent hp U a b Wa Wb E).
    unfold vhashable in H.
    assert (exists h, vhash sh hp a = Some h) as [h ->].
    { destruct a; cbn [vhash words] in *; try (eexists; reflexivity); try discriminate H.
      destruct (concat_opt _); [eexists; reflexivity | discriminate H]. }
    rewrite Z.eqb_refl, veq_sym, E. reflexivity.
  Qed.
End HashProofs.

(* ------------------------------------------------------------------------------------------ *)
(* transitivity of equality: refuted in general, proved on the class exact_in_f64 *)
From SV Require Import Eq.Spec.

Definition t_a : value := VNum (NInt (Big 9007199254740993)).   (* 2^53 + 1 *)
Definition t_b : value := VNum (NFloat (Fin p52 1)).            (* float(2^53) *)
Definition t_c : value := VNum (NInt (Big 9007199254740992)).   (* 2^53 *)

Theorem veq_trans_refuted : exists a b c, vwf a /\ vwf b /\ vwf c /\
  veq a b = true /\ veq b c = true /\ veq a c = false.
Proof. exists t_a, t_b, t_c. repeat split; vm_compute; reflexivity. Qed.

Lemma z2f_exact z : Z.abs z <= p53 -> is_fin (z_to_f64 z) /\ fscaled (z_to_f64 z) = z * unit_scale.
Proof.
  intros H. destruct (Z_lt_dec (Z.abs z) p53) as [L | G].
  - split; [apply z2f_small_fin; exact L | apply z2f_small_scaled; exact L].
  - assert (z = p53 \/ z = - p53) as [-> | ->] by (unfold p53 in *; lia); split; try exact I; vm_compute; reflexivity.
Qed.

Lemma compare_impl_eq_key a b : compare_impl a b = Eq <-> fkey a = fkey b.
Proof.
  destruct a, b; unfold compare_impl, fcmp_partial, fkey, is_nan, bool_cmp, fscaled;
  split; intros H; try discriminate H; try reflexivity;
  try (apply Z.compare_eq in H; congruence);
  try (injection H as H; first [rewrite H | rewrite <- H]; apply Z.compare_refl).
Qed.

Lemma fkey_z2f z : Z.abs z <= p53 -> fkey (z_to_f64 z) = KVal (z * unit_scale).
Proof.
  intros H. destruct (z2f_exact z H) as [F S]. destruct (z_to_f64 z); try contradiction. cbn [fkey]. congruence.
Qed.

Lemma unit_scale_pos : 0 < unit_scale.
Proof. reflexivity. Qed.

Lemma num_eq_key a b : nwfb a = true -> nwfb b = true -> exact_num a = true -> exact_num b = true ->
  (num_eq a b = true <-> num_key a = num_key b).
Proof.
  intros Wa Wb Xa Xb. pose proof unit_scale_pos as UP.
  destruct a as [x | f], b as [y | g]; cbn [num_eq num_key as_float exact_num nwfb] in *.
  - rewrite eqb_exact by (apply wfb_wf; assumption). split; intros H.
    + apply Z.eqb_eq in H. congruence.
    + injection H as H. apply Z.eqb_eq. apply Z.mul_reg_r with unit_scale; lia.
  - rewrite <- (fkey_z2f (den x)) by lia. rewrite <- compare_impl_eq_key. destruct (compare_impl _ _); split; congruence.
  - rewrite <- (fkey_z2f (den y)) by lia. rewrite <- compare_impl_eq_key. destruct (compare_impl _ _); split; congruence.
  - rewrite <- compare_impl_eq_key. destruct (compare_impl _ _); split; congruence.
Qed.

Lemma list_eqb_map {A K} (f : A -> A -> bool) (k : A -> K) (P : A -> Prop) xs :
  Forall (fun x => P x /\ forall y, P y -> (f x y = true <-> k x = k y)) xs ->
  forall ys, Forall P ys -> (list_eqb f xs ys = true <-> map k xs = map k ys).
Proof.
  induction 1 as [| x xs [Px Hx] _ IH]; intros [| y ys] Py; cbn; split; intros H; try discriminate; try reflexivity.
  - inversion Py as [| ? ? Py1 Py2]; subst. apply andb_true_iff in H. destruct H as [F1 F2].
    f_equal; [apply Hx; assumption | apply IH; assumption].
  - inversion Py as [| ? ? Py1 Py2]; subst. injection H as E1 E2. apply andb_true_iff. split; [apply Hx; assumption | apply IH; assumption].
Qed.

Definition good (v : value) : Prop := vwfb v = true /\ exact_in_f64 v = true.

Lemma good_list l : forallb vwfb l = true -> forallb exact_in_f64 l = true -> Forall good l.
Proof.
  intros H1 H2. apply Forall_forall. intros x Hx. split.
  - exact (proj1 (forallb_forall _ _) H1 x Hx).
  - exact (proj1 (forallb_forall _ _) H2 x Hx).
Qed.

Theorem veq_denote a : good a -> forall b, good b -> (veq a b = true <-> denote a = denote b).
Proof.
  induction a using value_ind'; intros [Wa Xa] [| y | y | y | y | y] [Wb Xb]; cbn [veq denote];
    try (split; intros HH; discriminate HH).
  - tauto.
  - split; intros E; [apply eqb_prop in E; congruence | injection E as ->; apply eqb_reflx].
  - cbn in Wa, Wb, Xa, Xb. rewrite (num_eq_key n y) by assumption. split; congruence.
  - rewrite zlist_eqb_eq. split; congruence.
  - cbn [vwfb exact_in_f64] in *.
    pose proof (good_list _ Wa Xa) as Ga. pose proof (good_list _ Wb Xb) as Gb.
    rewrite (list_eqb_map veq denote good l); [split; congruence | | exact Gb].
    rewrite Forall_forall in *. intros x Hx. split; [apply Ga; exact Hx |]. intros z Gz. apply H; auto.
  - cbn [vwfb exact_in_f64] in *.
    pose proof (good_list _ Wa Xa) as Ga. pose proof (good_list _ Wb Xb) as Gb.
    rewrite (list_eqb_map veq denote good l); [split; congruence | | exact Gb].
    rewrite Forall_forall in *. intros x Hx. split; [apply Ga; exact Hx |]. intros z Gz. apply H; auto.
Qed.

Theorem veq_trans_exact a b c : good a -> good b -> good c ->
  veq a b = true -> veq b c = true -> veq a c = true.
Proof.
  intros Ga Gb Gc E1 E2. apply (veq_denote a Ga c Gc).
  rewrite (proj1 (veq_denote a Ga b Gb) E1). apply (veq_denote b Gb c Gc). exact E2.
Qed.

(* ------------------------------------------------------------------------------------------ *)
(* insertion sort: permutation, sortedness, stability *)
Section SortProofs.
  Context {A : Type}.
  Variable leb : A -> A -> bool.

  Hypothesis leb_total : forall x y, leb x y = true \/ leb y x = true.
  Hypothesis leb_trans :
    forall x y z, leb x y = true -> leb y z = true -> leb x z = true.

  Definition leP (x y : A) : Prop := leb x y = true.

  (* ---------------------------------------------------------------- *)
  (* 1. Permutation                                                   *)
  (* ---------------------------------------------------------------- *)

  Lemma insert_perm : forall a l, Permutation (insert leb a l) (a :: l).
  Proof.
    intros a l. induction l as [|y l' IH]; cbn [insert].
    - apply Permutation_refl.
    - destruct (leb a y).
      + apply Permutation_refl.
      + apply perm_trans with (y :: a :: l').
        * apply perm_skip. exact IH.
        * apply perm_swap.
  Qed.

  Lemma isort_perm : forall l, Permutation (isort leb l) l.
  Proof.
    intros l. induction l as [|x l' IH]; cbn [isort].
    - apply perm_nil.
    - apply perm_trans with (x :: isort leb l').
      + apply insert_perm.
      + apply perm_skip. exact IH.
  Qed.

  (* ---------------------------------------------------------------- *)
  (* 2. Sortedness                                                    *)
  (* ---------------------------------------------------------------- *)

  Lemma insert_Forall :
    forall (P : A -> Prop) a l, P a -> Forall P l -> Forall P (insert leb a l).
  Proof.
    intros P a l Ha Hl. induction Hl as [|y l' Hy Hl' IH]; cbn [insert].
    - constructor; [exact Ha | constructor].
    - destruct (leb a y).
      + constructor; [exact Ha |]. constructor; assumption.
      + constructor; assumption.
  Qed.

  Lemma insert_sorted :
    forall a l, StronglySorted leP l -> StronglySorted leP (insert leb a l).
  Proof.
    intros a l Hs. induction Hs as [|y l' Hs' IH Hall]; cbn [insert].
    - constructor; constructor.
    - destruct (leb a y) eqn:Hay.
      + constructor.
        * constructor; assumption.
        * constructor; [exact Hay |].
          apply Forall_impl with (P := leP y); [| exact Hall].
          intros z Hyz. unfold leP in *. apply leb_trans with y; assumption.
      + constructor; [exact IH |].
        apply insert_Forall; [| exact Hall].
        unfold leP. destruct (leb_total a y) as [H | H].
        * rewrite H in Hay. discriminate Hay.
        * exact H.
  Qed.

  Lemma isort_sorted :
    forall l, StronglySorted (fun x y => leb x y = true) (isort leb l).
  Proof.
    intros l. change (StronglySorted leP (isort leb l)).
    induction l as [|x l' IH]; cbn [isort].
    - constructor.
    - apply insert_sorted. exact IH.
  Qed.

  (* ---------------------------------------------------------------- *)
  (* 3. Stability                                                     *)
  (* ---------------------------------------------------------------- *)

  Definition equiv (x y : A) : bool := leb x y && leb y x.

  (* An element skipped over by [insert a] (i.e. [leb a y = false]) cannot be
     equivalent to [x] when [a] is. *)
  Lemma equiv_skip :
    forall x a y, equiv x a = true -> leb a y = false -> equiv x y = false.
  Proof.
    intros x a y Hxa Hay. unfold equiv in *.
    apply andb_true_iff in Hxa. destruct Hxa as [_ Hax].
    destruct (leb x y) eqn:Hxy; [| reflexivity].
    rewrite (leb_trans a x y Hax Hxy) in Hay. discriminate Hay.
  Qed.

  Lemma insert_filter_equiv :
    forall x a l,
      filter (equiv x) (insert leb a l) =
      if equiv x a then a :: filter (equiv x) l else filter (equiv x) l.
  Proof.
    intros x a l. induction l as [|y l' IH]; cbn [insert].
    - cbn [filter]. reflexivity.
    - destruct (leb a y) eqn:Hay.
      + cbn [filter]. reflexivity.
      + cbn [filter]. rewrite IH.
        destruct (equiv x a) eqn:Hxa.
        * rewrite (equiv_skip x a y Hxa Hay). reflexivity.
        * reflexivity.
  Qed.

  Lemma isort_stable :
    forall x l, filter (equiv x) (isort leb l) = filter (equiv x) l.
  Proof.
    intros x l. induction l as [|a l' IH]; cbn [isort].
    - reflexivity.
    - rewrite insert_filter_equiv. cbn [filter]. rewrite IH. reflexivity.
  Qed.

End SortProofs.

Theorem isort_spec : forall (A : Type) (leb : A -> A -> bool),
  (forall x y, leb x y = true \/ leb y x = true) ->
  (forall x y z, leb x y = true -> leb y z = true -> leb x z = true) ->
  forall l, Permutation (isort leb l) l
         /\ StronglySorted (fun x y => leb x y = true) (isort leb l)
         /\ (forall x, filter (fun y => leb x y && leb y x) (isort leb l)
                     = filter (fun y => leb x y && leb y x) l).
Proof.
  intros A leb Htotal Htrans l. split; [| split].
  - apply isort_perm.
  - apply isort_sorted; assumption.
  - intros x. exact (isort_stable leb Htrans x l).
Qed.

(* ------------------------------------------------------------------------------------------ *)
(* ordering *)

Definition tr (c1 c2 : comparison) : option comparison :=
  match c1, c2 with
  | Eq, c | c, Eq => Some c
  | Lt, Lt => Some Lt
  | Gt, Gt => Some Gt
  | _, _ => None
  end.

Lemma int_compare_antisym a b : compare b a = CompOpp (compare a b).
Proof.
  destruct a, b; cbn [compare]; try apply Z.compare_antisym.
  - reflexivity.
  - rewrite CompOpp_involutive. reflexivity.
Qed.

Lemma num_cmp_antisym a b : num_cmp b a = CompOpp (num_cmp a b).
Proof. destruct a, b; cbn [num_cmp]; [apply int_compare_antisym | | |]; apply compare_impl_antisym. Qed.

Lemma list_cmp_antisym {A} (f : A -> A -> option comparison) xs :
  Forall (fun x => forall y, f y x = option_map CompOpp (f x y)) xs ->
  forall ys, list_cmp f ys xs = option_map CompOpp (list_cmp f xs ys).
Proof.
  induction 1 as [| x xs Hx _ IH]; intros [| y ys]; cbn [list_cmp]; try reflexivity.
  rewrite Hx. destruct (f x y) as [[| |] |]; cbn; try reflexivity. apply IH.
Qed.

Theorem vcmp_antisym a : forall b, vcmp b a = option_map CompOpp (vcmp a b).
Proof.
  induction a using value_ind'; intros [| y | y | y | y | y]; cbn [vcmp]; try reflexivity.
  - destruct b, y; reflexivity.
  - cbn. f_equal. apply num_cmp_antisym.
  - apply list_cmp_antisym. apply Forall_forall. intros x _ z. unfold zcmp. cbn. f_equal. apply Z.compare_antisym.
  - apply list_cmp_antisym. assumption.
  - apply list_cmp_antisym. assumption.
Qed.

Lemma num_cmp_eq a b : nwfb a = true -> nwfb b = true -> (num_eq a b = true <-> num_cmp a b = Eq).
Proof.
  intros Wa Wb. destruct a as [x | f], b as [y | g]; cbn [num_eq num_cmp nwfb] in *;
    try (destruct (compare_impl _ _); split; congruence).
  rewrite eqb_exact, compare_exact by (apply wfb_wf; assumption).
  rewrite Z.eqb_eq, Z.compare_eq_iff. tauto.
Qed.

Lemma list_cmp_eq {A} (f : A -> A -> option comparison) (g : A -> A -> bool) (Q : A -> Prop) xs :
  Forall (fun x => Q x /\ forall y, Q y -> forall c, f x y = Some c -> (g x y = true <-> c = Eq)) xs ->
  forall ys, Forall Q ys -> forall c, list_cmp f xs ys = Some c -> (list_eqb g xs ys = true <-> c = Eq).
Proof.
  induction 1 as [| x xs [Qx Hx] _ IH]; intros [| y ys] Qy c H; cbn [list_cmp list_eqb] in *;
    try (injection H as <-; split; intros HH; try discriminate HH; reflexivity).
  inversion Qy as [| ? ? Qy1 Qy2]; subst.
  destruct (f x y) as [d |] eqn:F; [| discriminate H].
  pose proof (Hx y Qy1 d F) as HG.
  destruct d.
  - rewrite (proj2 HG eq_refl). cbn. apply IH; assumption.
  - injection H as <-. destruct (g x y); [| cbn; split; intros HH; discriminate HH].
    destruct HG as [HG _]. specialize (HG eq_refl). discriminate HG.
  - injection H as <-. destruct (g x y); [| cbn; split; intros HH; discriminate HH].
    destruct HG as [HG _]. specialize (HG eq_refl). discriminate HG.
Qed.

Lemma wf_list l : forallb vwfb l = true -> Forall vwf l.
Proof. intros H. apply forallb_Forall. exact H. Qed.

Theorem vcmp_eq_veq a : vwf a -> forall b, vwf b -> forall c, vcmp a b = Some c -> (veq a b = true <-> c = Eq).
Proof.
  induction a using value_ind'; intros Wa [| y | y | y | y | y] Wb c E; cbn [vcmp veq] in *; try discriminate E.
  - injection E as <-. destruct b, y; cbn; split; congruence.
  - injection E as <-. apply num_cmp_eq; assumption.
  - revert E. apply (list_cmp_eq zcmp Z.eqb (fun _ => True)).
    + apply Forall_forall. intros x _. split; [exact I |]. intros z _ d Hd. unfold zcmp in Hd. injection Hd as <-.
      rewrite Z.eqb_eq, Z.compare_eq_iff. tauto.
    + apply Forall_forall. intros; exact I.
  - unfold vwf in Wa, Wb. cbn [vwfb] in Wa, Wb. revert E. apply (list_cmp_eq vcmp veq vwf).
    + pose proof (wf_list _ Wa) as Fa. rewrite Forall_forall in *. intros x Hx. split; [apply Fa; exact Hx |].
      intros z Wz. apply H; auto.
    + apply wf_list. exact Wb.
  - unfold vwf in Wa, Wb. cbn [vwfb] in Wa, Wb. revert E. apply (list_cmp_eq vcmp veq vwf).
    + pose proof (wf_list _ Wa) as Fa. rewrite Forall_forall in *. intros x Hx. split; [apply Fa; exact Hx |].
      intros z Wz. apply H; auto.
    + apply wf_list. exact Wb.
Qed.

Lemma zcompare_tr a b c c1 c2 c3 : (a ?= b) = c1 -> (b ?= c) = c2 -> tr c1 c2 = Some c3 -> (a ?= c) = c3.
Proof.
  intros H1 H2 HT.
  destruct (Z.compare_spec a b), (Z.compare_spec b c); subst c1 c2; cbn in HT; try discriminate HT;
    injection HT as <-; destruct (Z.compare_spec a c); try reflexivity; lia.
Qed.

Lemma list_cmp_tr {A} (f : A -> A -> option comparison) (Q : A -> Prop) xs :
  Forall (fun x => forall y z c1 c2 c3, Q y -> Q z -> f x y = Some c1 -> f y z = Some c2 -> tr c1 c2 = Some c3 ->
                                         f x z = Some c3) xs ->
  forall ys zs, Forall Q ys -> Forall Q zs -> forall c1 c2 c3,
  list_cmp f xs ys = Some c1 -> list_cmp f ys zs = Some c2 -> tr c1 c2 = Some c3 -> list_cmp f xs zs = Some c3.
Proof.
  induction 1 as [| x xs Hx _ IH]; intros [| y ys] [| z zs] Qy Qz c1 c2 c3 H1 H2 HT; cbn [list_cmp] in *;
    try (injection H1 as <-); try (injection H2 as <-); try (cbn in HT; congruence).
  - (* [] (y::ys) (z::zs) *)
    destruct (f y z) as [[| |] |]; try discriminate H2.
    + destruct c2; cbn in HT; congruence.
    + injection H2 as <-. cbn in HT. congruence.
    + injection H2 as <-. cbn in HT. discriminate HT.
  - (* (x::xs) (y::ys) [] *)
    destruct (f x y) as [[| |] |]; try discriminate H1.
    + destruct c1; cbn in HT; congruence.
    + injection H1 as <-. cbn in HT. discriminate HT.
    + injection H1 as <-. cbn in HT. congruence.
  - inversion Qy as [| ? ? Qy1 Qy2]; inversion Qz as [| ? ? Qz1 Qz2]; subst.
    destruct (f x y) as [c |] eqn:Fxy; [| discriminate H1].
    destruct (f y z) as [d |] eqn:Fyz; [| destruct c; discriminate H2 || (injection H1 as <-; discriminate H2)].
    destruct c, d.
    + rewrite (Hx y z Eq Eq Eq Qy1 Qz1 Fxy Fyz eq_refl). eapply (IH ys zs Qy2 Qz2); eassumption.
    + rewrite (Hx y z Eq Lt Lt Qy1 Qz1 Fxy Fyz eq_refl). injection H2 as <-. destruct c1; cbn in HT; congruence.
    + rewrite (Hx y z Eq Gt Gt Qy1 Qz1 Fxy Fyz eq_refl). injection H2 as <-. destruct c1; cbn in HT; congruence.
    + rewrite (Hx y z Lt Eq Lt Qy1 Qz1 Fxy Fyz eq_refl). injection H1 as <-. destruct c2; cbn in HT; congruence.
    + rewrite (Hx y z Lt Lt Lt Qy1 Qz1 Fxy Fyz eq_refl). injection H1 as <-. injection H2 as <-. cbn in HT. congruence.
    + injection H1 as <-. injection H2 as <-. cbn in HT. discriminate HT.
    + rewrite (Hx y z Gt Eq Gt Qy1 Qz1 Fxy Fyz eq_refl). injection H1 as <-. destruct c2; cbn in HT; congruence.
    + injection H1 as <-. injection H2 as <-. cbn in HT. discriminate HT.
    + rewrite (Hx y z Gt Gt Gt Qy1 Qz1 Fxy Fyz eq_refl). injection H1 as <-. injection H2 as <-. cbn in HT. congruence.
Qed.

Definition ordv (v : value) : Prop := vwfb v = true /\ float_free v = true.

Lemma ordv_list l : forallb vwfb l = true -> forallb float_free l = true -> Forall ordv l.
Proof.
  intros H1 H2. apply Forall_forall. intros x Hx. split.
  - exact (proj1 (forallb_forall _ _) H1 x Hx).
  - exact (proj1 (forallb_forall _ _) H2 x Hx).
Qed.

Theorem vcmp_trans a : forall b c c1 c2 c3, ordv a -> ordv b -> ordv c ->
  vcmp a b = Some c1 -> vcmp b c = Some c2 -> tr c1 c2 = Some c3 -> vcmp a c = Some c3.
Proof.
  induction a using value_ind'; intros [| y | y | y | y | y] [| z | z | z | z | z] c1 c2 c3 [Wa Fa] [Wb Fb] [Wc Fc] H1 H2 HT;
    cbn [vcmp] in *; try discriminate H1; try discriminate H2.
  - injection H1 as <-. injection H2 as <-. f_equal. destruct b, y, z; cbn in *; congruence.
  - injection H1 as <-. injection H2 as <-. f_equal.
    destruct n as [x |], y as [y |], z as [z |]; cbn in Fa, Fb, Fc; try discriminate.
    cbn [num_cmp vwfb nwfb] in *. rewrite !compare_exact in * by (apply wfb_wf; assumption).
    exact (zcompare_tr _ (den y) _ _ _ _ eq_refl eq_refl HT).
  - eapply (list_cmp_tr zcmp (fun _ => True)); try eassumption; try (apply Forall_forall; intros; exact I).
    apply Forall_forall. intros x _ y' z' d1 d2 d3 _ _ E1 E2 ET. unfold zcmp in *.
    injection E1 as E1. injection E2 as E2. f_equal. eapply zcompare_tr; eassumption.
  - cbn [vwfb float_free] in *.
    refine (list_cmp_tr vcmp ordv l _ y z (ordv_list _ Wb Fb) (ordv_list _ Wc Fc) c1 c2 c3 H1 H2 HT).
    pose proof (ordv_list _ Wa Fa) as Oa. rewrite Forall_forall in *. intros x Hx y' z' d1 d2 d3 Oy Oz E1 E2 ET.
    exact (H x Hx y' z' d1 d2 d3 (Oa x Hx) Oy Oz E1 E2 ET).
  - cbn [vwfb float_free] in *.
    refine (list_cmp_tr vcmp ordv l _ y z (ordv_list _ Wb Fb) (ordv_list _ Wc Fc) c1 c2 c3 H1 H2 HT).
    pose proof (ordv_list _ Wa Fa) as Oa. rewrite Forall_forall in *. intros x Hx y' z' d1 d2 d3 Oy Oz E1 E2 ET.
    exact (H x Hx y' z' d1 d2 d3 (Oa x Hx) Oy Oz E1 E2 ET).
Qed.

(* within one orderable type every two values are comparable *)
Definition list_all2_prefix {A} (f : A -> A -> bool) : list A -> list A -> bool :=
  fix go xs ys := match xs, ys with x :: xs', y :: ys' => f x y && go xs' ys' | _, _ => true end.
Fixpoint same_type (a b : value) {struct a} : bool :=
  match a, b with
  | VBool _, VBool _ | VNum _, VNum _ | VStr _, VStr _ => true
  | VTuple xs, VTuple ys => list_all2_prefix same_type xs ys
  | VList xs, VList ys => list_all2_prefix same_type xs ys
  | _, _ => false
  end.

Lemma list_cmp_total {A} (f : A -> A -> option comparison) (g : A -> A -> bool) xs :
  Forall (fun x => forall y, g x y = true -> f x y <> None) xs ->
  forall ys, list_all2_prefix g xs ys = true -> list_cmp f xs ys <> None.
Proof.
  induction 1 as [| x xs Hx _ IH]; intros [| y ys] G; cbn [list_cmp list_all2_prefix] in *; try discriminate.
  apply andb_true_iff in G. destruct G as [G1 G2]. specialize (Hx y G1).
  destruct (f x y) as [[| |] |]; try discriminate; [apply IH; exact G2 | congruence].
Qed.

Theorem vcmp_total a : forall b, same_type a b = true -> vcmp a b <> None.
Proof.
  induction a using value_ind'; intros [| y | y | y | y | y] S; cbn [same_type vcmp] in *; try discriminate.
  - clear S. revert y. induction s as [| x s IH]; intros [| y t]; cbn; try discriminate.
    destruct (x ?= y); try discriminate. apply IH.
  - eapply list_cmp_total; eassumption.
  - eapply list_cmp_total; eassumption.
Qed.

Theorem vcmp_int a b : wf a -> wf b -> vcmp (VNum (NInt a)) (VNum (NInt b)) = Some (Z.compare (den a) (den b)).
Proof. intros Wa Wb. cbn. f_equal. apply compare_exact; assumption. Qed.
