(* C09 correspondence driver: runs the model on the values the implementation built and prints
   the model's answers as lists of integers.  Executable only. *)
From Coq Require Import ZArith Bool List.
From SV Require Import Int.Model Eq.Model.
Import ListNotations.
Open Scope Z_scope.

Inductive case :=
| CPair (a b : value)                       (* equality / order / hashes / lookup of a pair *)
| CZ2F (z : Z)                              (* float(z): the bit pattern *)
| CJava (s : list Z)                        (* hash("...") *)
| CSort (rev : bool) (keys : list value)    (* sorted(range(n), key = keys[i], reverse = rev) *)
| CISort (rev : bool) (keys : list value).  (* the same for keys the caller knows to be pairwise comparable (long lists):
                                               the stable sort `isort (key_leb rev)` alone, without sorted_model's
                                               all-pairs comparability test (n^2 exact comparisons) *)

Definition b2z (b : bool) : Z := if b then 1 else 0.
Definition cmpz (c : option comparison) : Z :=
  match c with Some Lt => -1 | Some Eq => 0 | Some Gt => 1 | None => 2 end.
Definition hz (h : option Z) : Z := match h with Some x => x | None => -1 end.
Definition fz (f : option bool) : Z := match f with Some true => 1 | Some false => 0 | None => -1 end.

(* the 32-bit hash of each string content as observed on the implementation (a function of content) *)
Fixpoint sh_of (tab : list (list Z * Z)) (s : list Z) : Z :=
  match tab with
  | [] => -7
  | (k, h) :: tab' => if list_eqb Z.eqb k s then h else sh_of tab' s
  end.

Fixpoint number_from (i : Z) (l : list value) : list (value * value) :=
  match l with [] => [] | k :: l' => (VNum (NInt (Small i)), k) :: number_from (i + 1) l' end.
Definition idx_of (v : value) : Z := match v with VNum (NInt (Small i)) => i | _ => -1 end.

Definition run (tab : list (list Z * Z)) (c : case) : list Z :=
  let sh := sh_of tab in
  match c with
  | CPair a b =>
    [b2z (veq a b); b2z (veq b a); cmpz (vcmp a b); cmpz (vcmp b a);
     hz (vhash sh hash_path a); hz (vhash sh hash_path b);
     fz (found sh hash_path a b); fz (found sh hash_path b a); b2z (vwfb a && vwfb b)]
  | CZ2F z => [to_bits (z_to_f64 z)]
  | CJava s => [java_hash s]
  | CSort rev keys =>
    match sorted_model rev (number_from 0 keys) with
    | Some l => map idx_of l
    | None => [-1]
    end
  | CISort rev keys => map idx_of (map fst (isort (key_leb rev) (number_from 0 keys)))
  end.

Definition run_cases (tab : list (list Z * Z)) (cs : list case) : list (list Z) := map (run tab) cs.
