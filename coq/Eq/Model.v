(* C09 model: equality, ordering and hashing of starlark-rust values, mirroring
     starlark/src/values/types/num/value.rs   (NumRef: as_float, f64_to_i32_exact, as_int, get_hash_64, eq, cmp)
     starlark/src/values/types/float/float.rs (StarlarkFloat::compare_impl; get_hash override)
     starlark/src/values/types/int/pointer_i32.rs, bigint.rs (get_hash override / default; write_hash)
     starlark/src/values/traits.rs            (default get_hash = StarlarkHasher over write_hash, finish_small)
     starlark/src/values/comparison.rs        (equals_slice, compare_slice)
     starlark/src/values/types/{tuple,list}/value.rs, string/str_type.rs, none/none_type.rs, bool/value.rs
     starlark_map/src/{hash_value.rs,hasher.rs,fx64.rs}
     starlark/src/stdlib/funcs/other.rs       (sorted = stable sort_by on (element, key); hash = Java string hash)
   Executable; no proofs in this file.

   binary64 is modelled exactly: a finite float is `Fin m e` = m * 2^e in the canonical IEEE form
   (normal: 2^52 <= |m| < 2^53, -1074 <= e <= 971; subnormal and +0.0: |m| < 2^52, e = -1074), so that
   `to_bits` is a closed formula and every finite float has exactly one representation.
   Integers reuse the Small/Big representation of SV.Int.Model (C10).
   Strings are lists of Unicode scalar values (Rust compares the UTF-8 bytes, which orders strings
   exactly as the scalar values do). *)
From Coq Require Import ZArith Bool List.
From SV Require Import Extracted.IntC Extracted.EqC Int.Model.
Import ListNotations.
Open Scope Z_scope.

(* ------------------------------------------------------------------------------------------ *)
(* binary64 *)

Inductive f64 := Fin (m e : Z) | NegZero | PInf | NInf | NaN.

Definition p52 : Z := 4503599627370496.
Definition p53 : Z := 9007199254740992.
Definition p63 : Z := 9223372036854775808.
Definition p64 : Z := 18446744073709551616.
Definition p32 : Z := 4294967296.
Definition emin : Z := -1074.
Definition emax : Z := 971.

Definition fwfb (f : f64) : bool :=
  match f with
  | Fin m e => (Z.abs m <? p53) &&
               (((p52 <=? Z.abs m) && (emin <=? e) && (e <=? emax)) || ((Z.abs m <? p52) && (e =? emin)))
  | _ => true
  end.

(* value of a finite float in units of 2^-1074 (every finite binary64 is an integer multiple of it) *)
Definition fscaled (f : f64) : Z :=
  match f with Fin m e => m * 2 ^ (e - emin) | _ => 0 end.

(* f64::partial_cmp: None iff a NaN is involved; -0.0 = +0.0; otherwise the order of the extended reals *)
Definition fcmp_partial (a b : f64) : option comparison :=
  match a, b with
  | NaN, _ | _, NaN => None
  | PInf, PInf => Some Eq
  | PInf, _ => Some Gt
  | _, PInf => Some Lt
  | NInf, NInf => Some Eq
  | NInf, _ => Some Lt
  | _, NInf => Some Gt
  | _, _ => Some (Z.compare (fscaled a) (fscaled b))
  end.

Definition is_nan (f : f64) : bool := match f with NaN => true | _ => false end.
Definition bool_cmp (a b : bool) : comparison :=
  match a, b with false, true => Lt | true, false => Gt | _, _ => Eq end.

(* StarlarkFloat::compare_impl *)
Definition compare_impl (a b : f64) : comparison :=
  match fcmp_partial a b with
  | Some ord => ord
  | None => bool_cmp (is_nan a) (is_nan b)
  end.

(* IEEE `==` *)
Definition feq_ieee (a b : f64) : bool :=
  match fcmp_partial a b with Some Eq => true | _ => false end.

(* i32 as f64 / BigInt::to_f64 (num-bigint rounds to nearest, ties to even; >= 2^1024 gives infinity) *)
Definition z_to_f64 (z : Z) : f64 :=
  if z =? 0 then Fin 0 emin else
  let n := Z.abs z in
  let s := Z.sgn z in
  let L := Z.log2 n + 1 in
  if L <=? 53 then Fin (s * (n * 2 ^ (53 - L))) (L - 53)
  else
    let sh := L - 53 in
    let q := n / 2 ^ sh in
    let r := n mod 2 ^ sh in
    let half := 2 ^ (sh - 1) in
    let up := (half <? r) || ((r =? half) && Z.odd q) in
    let q' := if up then q + 1 else q in
    let m := if q' =? p53 then p52 else q' in
    let e := if q' =? p53 then sh + 1 else sh in
    if emax <? e then (if z <? 0 then NInf else PInf) else Fin (s * m) e.

(* `f as i32`: truncation toward zero, saturating, NaN -> 0 *)
Definition clamp_i32 (z : Z) : Z := if z <? i32min then i32min else if i32max <? z then i32max else z.
Definition f_trunc (f : f64) : Z :=
  match f with
  | Fin m e => if 0 <=? e then m * 2 ^ e else Z.quot m (2 ^ (- e))
  | _ => 0
  end.
Definition f_as_i32 (f : f64) : Z :=
  match f with
  | NaN => 0
  | PInf => i32max
  | NInf => i32min
  | NegZero => 0
  | Fin _ _ => clamp_i32 (f_trunc f)
  end.

(* NumRef::f64_to_i32_exact *)
Definition f64_to_i32_exact (f : f64) : option Z :=
  let i := f_as_i32 f in
  if feq_ieee (z_to_f64 i) f then Some i else None.

(* f64::to_bits *)
Definition nan_bits : Z := 9221120237041090560.  (* 0x7ff8000000000000; never reaches a hash *)
Definition to_bits (f : f64) : Z :=
  match f with
  | Fin m e => (if m <? 0 then p63 else 0) + (e - emin) * p52 + Z.abs m
  | NegZero => p63
  | PInf => 2047 * p52
  | NInf => p63 + 2047 * p52
  | NaN => nan_bits
  end.

(* ------------------------------------------------------------------------------------------ *)
(* numbers *)

Inductive num := NInt (r : rep) | NFloat (f : f64).

Definition nwfb (n : num) : bool := match n with NInt r => wfb r | NFloat f => fwfb f end.

(* NumRef::as_float *)
Definition as_float (n : num) : f64 :=
  match n with NInt r => z_to_f64 (den r) | NFloat f => f end.

(* StarlarkIntRef::to_i32: Small -> Some; Big -> StarlarkBigInt::to_i32 = None when InlineInt is an i32 *)
Definition int_to_i32 (r : rep) : option Z :=
  match r with
  | Small x => Some x
  | Big x => if inline_bits <? 32 then (if in_i32 x then Some x else None) else None
  end.

(* NumRef::as_int *)
Definition as_int (n : num) : option Z :=
  match n with NInt r => int_to_i32 r | NFloat f => f64_to_i32_exact f end.

Definition u64 (z : Z) : Z := z mod p64.
Definition u32 (z : Z) : Z := z mod p32.
Definition u64max : Z := p64 - 1.

(* NumRef::get_hash_64::float_hash *)
Definition float_hash (f : f64) : Z :=
  if is_nan f then 0
  else match f with
       | PInf | NInf => u64max
       | _ => if feq_ieee f (Fin 0 emin) then 0 else to_bits f
       end.

(* NumRef::get_hash_64 (`i as u64` sign-extends) *)
Definition hash64 (n : num) : Z :=
  match as_int n, n with
  | Some i, _ => u64 i
  | None, NFloat f => float_hash f
  | None, NInt (Small i) => u64 i
  | None, NInt (Big b) => float_hash (z_to_f64 b)
  end.

(* PartialEq for NumRef *)
Definition num_eq (a b : num) : bool :=
  match a, b with
  | NInt x, NInt y => eqb x y
  | _, _ => match compare_impl (as_float a) (as_float b) with Eq => true | _ => false end
  end.

(* Ord for NumRef *)
Definition num_cmp (a b : num) : comparison :=
  match a, b with
  | NInt x, NInt y => compare x y
  | _, _ => compare_impl (as_float a) (as_float b)
  end.

(* ------------------------------------------------------------------------------------------ *)
(* the two routes from the 64-bit pre-hash to the 32-bit StarlarkHashValue *)

(* StarlarkHashValue::hash_64 (fmix64 of MurmurHash3, truncated to u32) *)
Definition fmix64_32 (h : Z) : Z :=
  let h := Z.lxor h (Z.shiftr h fmix_s1) in
  let h := u64 (h * fmix_c1) in
  let h := Z.lxor h (Z.shiftr h fmix_s2) in
  let h := u64 (h * fmix_c2) in
  let h := Z.lxor h (Z.shiftr h fmix_s3) in
  u32 h.

(* Fx64Hasher::add_to_hash (every write_u8/u32/u64 is add_to_hash of the zero-extended word) *)
Definition fx_add (h w : Z) : Z := u64 ((h + w) * fx_k).
Definition rotl64 (x k : Z) : Z := u64 (Z.lor (Z.shiftl x k) (Z.shiftr x (64 - k))).
(* Fx64Hasher::finish then StarlarkHasher::finish_small *)
Definition finish_small (h : Z) : Z :=
  let x := rotl64 h fx_rot in u32 (Z.lxor x (Z.shiftr x fold_shift)).
(* StarlarkValue::get_hash default: new hasher, write_hash, finish_small *)
Definition hash_words (ws : list Z) : Z := finish_small (fold_left fx_add ws 0).

(* which numeric implementation overrides get_hash (true) and which inherits the default (false) *)
Record hash_paths := { hp_small : bool; hp_big : bool; hp_float : bool }.
(* the table extracted from pointer_i32.rs / bigint.rs / float.rs on this run *)
Definition hash_path : hash_paths :=
  {| hp_small := hash_override_small; hp_big := hash_override_big; hp_float := hash_override_float |}.
Definition uniform (hp : hash_paths) : bool :=
  Bool.eqb (hp_small hp) (hp_float hp) && Bool.eqb (hp_big hp) (hp_float hp).
Definition all_override (hp : hash_paths) : bool := hp_small hp && hp_big hp && hp_float hp.

Definition num_overrides (hp : hash_paths) (n : num) : bool :=
  match n with NInt (Small _) => hp_small hp | NInt (Big _) => hp_big hp | NFloat _ => hp_float hp end.

(* get_hash of a number: override = NumRef::get_hash = hash_64(get_hash_64); default = hasher over
   write_hash, which for all three numeric types writes the single word get_hash_64 *)
Definition num_vhash (hp : hash_paths) (n : num) : Z :=
  if num_overrides hp n then fmix64_32 (hash64 n) else hash_words [hash64 n].

(* ------------------------------------------------------------------------------------------ *)
(* values *)

Inductive value :=
| VNone
| VBool (b : bool)
| VNum (n : num)
| VStr (s : list Z)
| VTuple (l : list value)
| VList (l : list value).

Definition list_eqb {A B} (f : A -> B -> bool) : list A -> list B -> bool :=
  fix go xs ys :=
    match xs, ys with
    | [], [] => true
    | x :: xs', y :: ys' => f x y && go xs' ys'
    | _, _ => false
    end.

(* compare_slice: the first non-equal (or failing) element decides, then the lengths *)
Definition list_cmp {A B} (f : A -> B -> option comparison) : list A -> list B -> option comparison :=
  fix go xs ys :=
    match xs, ys with
    | [], [] => Some Eq
    | [], _ :: _ => Some Lt
    | _ :: _, [] => Some Gt
    | x :: xs', y :: ys' =>
      match f x y with
      | Some Eq => go xs' ys'
      | r => r
      end
    end.

Definition zcmp (a b : Z) : option comparison := Some (Z.compare a b).

(* Value::equals (the pointer-equality shortcut only ever answers true for a value compared with
   itself, which the structural answer gives too: C09_veq_refl).  equals_slice compares the lengths
   first and then the elements pairwise; list_eqb returns the same boolean. *)
Fixpoint veq (a b : value) {struct a} : bool :=
  match a, b with
  | VNone, VNone => true
  | VBool x, VBool y => Bool.eqb x y
  | VNum x, VNum y => num_eq x y
  | VStr s, VStr t => list_eqb Z.eqb s t
  | VTuple xs, VTuple ys => list_eqb veq xs ys
  | VList xs, VList ys => list_eqb veq xs ys
  | _, _ => false
  end.

(* Value::compare: None = "operation not supported" (different types, or None/None) *)
Fixpoint vcmp (a b : value) {struct a} : option comparison :=
  match a, b with
  | VBool x, VBool y => Some (bool_cmp x y)
  | VNum x, VNum y => Some (num_cmp x y)
  | VStr s, VStr t => list_cmp zcmp s t
  | VTuple xs, VTuple ys => list_cmp vcmp xs ys
  | VList xs, VList ys => list_cmp vcmp xs ys
  | _, _ => None
  end.

Fixpoint vwfb (v : value) : bool :=
  match v with
  | VNum n => nwfb n
  | VTuple l | VList l => forallb vwfb l
  | _ => true
  end.
Definition vwf (v : value) : Prop := vwfb v = true.

Section Hash.
  (* the cached 32-bit hash of a string: a function of the content only (str_type.rs: get_hash hashes
     as_str() and caches it in the header; every string representation goes through it) *)
  Variable sh : list Z -> Z.

  Definition concat_opt (l : list (option (list Z))) : option (list Z) :=
    fold_right (fun o acc => match o, acc with Some a, Some b => Some (a ++ b) | _, _ => None end) (Some []) l.

  (* write_hash: the words fed to the hasher; None = not hashable *)
  Fixpoint words (v : value) : option (list Z) :=
    match v with
    | VNone => Some [none_word]
    | VBool b => Some [if b then 1 else 0]
    | VNum n => Some [hash64 n]
    | VStr s => Some [sh s]
    | VTuple l => concat_opt (map words l)
    | VList _ => None
    end.

  (* ValueLike::get_hashed *)
  Definition vhash (hp : hash_paths) (v : value) : option Z :=
    match v with
    | VNone => Some none_hash
    | VBool b => Some (if b then bool_hash_true else bool_hash_false)
    | VNum n => Some (num_vhash hp n)
    | VStr s => Some (sh s)
    | VTuple _ => option_map hash_words (words v)
    | VList _ => None
    end.

  Definition vhashable (v : value) : bool := match words v with Some _ => true | None => false end.

  (* SmallMap lookup of key b in {a: _}: same 32-bit hash, then equals *)
  Definition found (hp : hash_paths) (a b : value) : option bool :=
    match vhash hp a, vhash hp b with
    | Some x, Some y => Some ((x =? y) && veq b a)
    | _, _ => None
    end.
End Hash.

(* ------------------------------------------------------------------------------------------ *)
(* hash() builtin: java.lang.String.hashCode over the UTF-16 transcoding, wrapping i32 *)
Definition utf16 (c : Z) : list Z :=
  if c <? 65536 then [c] else [55296 + (c - 65536) / 1024; 56320 + (c - 65536) mod 1024].
Definition to_i32w (z : Z) : Z := (z + 2147483648) mod p32 - 2147483648.
Definition java_hash (s : list Z) : Z :=
  fold_left (fun h c => to_i32w (31 * h + c)) (flat_map utf16 s) 0.

(* ------------------------------------------------------------------------------------------ *)
(* sorted(): Vec::sort_by is a stable sort; insertion sort is the representative stable sort of the
   model (any stable sort returns the same list for a total preorder: C09_sort_stable_perm pins the
   result down uniquely up to the order of equal keys, which stability fixes). *)
Section Sort.
  Context {A : Type}.
  Variable leb : A -> A -> bool.
  Fixpoint insert (x : A) (l : list A) : list A :=
    match l with
    | [] => [x]
    | y :: l' => if leb x y then x :: l else y :: insert x l'
    end.
  (* elements are inserted from the right so that earlier equal elements stay in front *)
  Fixpoint isort (l : list A) : list A :=
    match l with [] => [] | x :: l' => insert x (isort l') end.
End Sort.

Definition key_leb (reverse : bool) (x y : value * value) : bool :=
  (* x.1.compare(y.1).map(Ordering::reverse) when reverse; an error counts as Equal *)
  match option_map (fun c => if reverse then CompOpp c else c) (vcmp (snd x) (snd y)) with
  | Some Gt => false
  | _ => true
  end.
Definition comparable (x y : value * value) : bool :=
  match vcmp (snd x) (snd y) with Some _ => true | None => false end.
(* sorted(xs, key=, reverse=) on the list of (element, key) pairs; None = a comparison failed.
   (The code fails when a comparison the sort actually performs fails; the model fails when any pair is
   incomparable.  The tie only sorts lists that are pairwise comparable or pairwise incomparable.) *)
Definition sorted_model (reverse : bool) (l : list (value * value)) : option (list value) :=
  if forallb (fun x => forallb (comparable x) l) l
  then Some (map fst (isort (key_leb reverse) l))
  else None.
