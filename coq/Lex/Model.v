(* C05 lexer model: executable Gallina mirror of starlark_syntax/src/lexer.rs (the hand-written layer
   `Lexer` over the logos scanner `Token`), branch by branch, on a list of Unicode scalar values whose
   UTF-8 widths make every byte offset explicit.  NO proofs in this file.

   Input   : list N (scalar values of the source text, in order).
   Output  : the tokens `(l, kind, r)` with byte offsets, in the order `Lexer::next` returns them, up to and
             including the first error `(kind, l, r)` (the parser stops at the first lexer error).
   Offsets are computed with the same arithmetic as the code (`it.pos() - 1`, `string_end - 1`, `end - quote_len`...),
   not re-derived, so an offset that is wrong in the code is wrong here too (candidate finding F2).

   Tables (escape letters, digit counts, token spellings, reserved words, tab width) come from
   Extracted/LexC.v, regenerated from /repo on every run. *)
From Coq Require Import NArith ZArith List Bool.
From SV Require Import Extracted.LexC.
Import ListNotations.
Open Scope N_scope.

(* ---------- text ---------- *)

(* UTF-8 width of a scalar value (char::len_utf8) *)
Definition w (c : N) : N := if c <? 128 then 1 else if c <? 2048 then 2 else if c <? 65536 then 3 else 4.

Fixpoint blen (s : list N) : N := match s with [] => 0 | c :: t => w c + blen t end.

(* char::encode_utf8 *)
Definition utf8 (c : N) : list N :=
  if c <? 128 then [c]
  else if c <? 2048 then [192 + c / 64; 128 + c mod 64]
  else if c <? 65536 then [224 + c / 4096; 128 + (c / 64) mod 64; 128 + c mod 64]
  else [240 + c / 262144; 128 + (c / 4096) mod 64; 128 + (c / 64) mod 64; 128 + c mod 64].

Fixpoint list_eqb (a b : list N) : bool :=
  match a, b with
  | [], [] => true
  | x :: a', y :: b' => (x =? y) && list_eqb a' b'
  | _, _ => false
  end.

Fixpoint is_prefix (a l : list N) : bool :=
  match a, l with
  | [], _ => true
  | x :: a', y :: l' => (x =? y) && is_prefix a' l'
  | _ :: _, [] => false
  end.

Definition zs (l : list Z) : list N := map Z.to_N l.
Definition spellings : list (list N) := map zs token_spellings.
Definition reserved : list (list N) := map zs reserved_words.
Definition spell (i : N) : list N := nth (N.to_nat i) spellings [].
Definition is_sp (i : N) (s : list N) : bool := list_eqb (spell i) s.

Definition zn (l : list Z) (k : nat) : N := Z.to_N (nth k l 0%Z).

(* ---------- tokens ---------- *)

Inductive kind :=
| KTok (idx : N)                 (* a `#[token]` variant: keyword, symbol or bracket (index into token_spellings) *)
| KComment | KNewline | KIndent | KDedent
| KIdentifier | KInt | KFloat
| KString (s : list N)           (* decoded scalar values *)
| KBytes (b : list N)            (* decoded bytes *)
| KFStringStart (q : N)          (* 0 Single, 1 Double, 2 TripleSingle, 3 TripleDouble *)
| KFStringText (s : list N)
| KFStringExprStart | KFStringExprEnd | KFStringBang | KFStringEnd.

Inductive ekind :=
| EIndentation | EInvalidInput | EInvalidTab | EUnfinishedStringLiteral
| EInvalidEscapeSequence        (* string / bytes_string *)
| EInvalidEscapeSequenceF       (* lex_fstring_content; same message variant, different span arithmetic *)
| EEmptyEscapeSequence | EReservedKeyword | EStartsZero | EUnfinishedFStringExpression
| EFuel.                        (* the model ran out of fuel: proved impossible (C05_lex_total) *)

Definition lexeme : Type := N * kind * N.
Definition error : Type := ekind * N * N.

(* ---------- character classes (the regex rules pinned in LexC, names re_xxx) ---------- *)

Definition is_digit (c : N) := (48 <=? c) && (c <=? 57).
Definition is_alpha_ (c : N) := ((65 <=? c) && (c <=? 90)) || ((97 <=? c) && (c <=? 122)) || (c =? 95).
Definition is_alnum_ (c : N) := is_alpha_ c || is_digit c.
Definition is_hex (c : N) := is_digit c || ((65 <=? c) && (c <=? 70)) || ((97 <=? c) && (c <=? 102)).
Definition is_bin (c : N) := (c =? 48) || (c =? 49).
Definition is_oct (c : N) := (48 <=? c) && (c <=? 55).
Definition is_quote (c : N) := (c =? 34) || (c =? 39).

(* char::to_digit(radix) for radix 8 / 16 *)
Definition to_digit (radix c : N) : option N :=
  let v := if is_digit c then Some (c - 48)
           else if (97 <=? c) && (c <=? 122) then Some (c - 87)
           else if (65 <=? c) && (c <=? 90) then Some (c - 55) else None in
  match v with Some d => if d <? radix then Some d else None | None => None end.

(* a cursor is a byte offset together with the text from there on *)
Fixpoint take_while (f : N -> bool) (l : list N) (p : N) : N * list N :=
  match l with
  | c :: t => if f c then take_while f t (p + w c) else (p, l)
  | [] => (p, [])
  end.

Fixpoint span_chars (f : N -> bool) (l : list N) : list N * list N :=
  match l with
  | c :: t => if f c then let (a, r) := span_chars f t in (c :: a, r) else ([], l)
  | [] => ([], [])
  end.

(* ---------- the logos scanner (enum Token) ---------- *)

(* #[logos(skip r" +")] #[logos(skip r"\\\n")] #[logos(skip r"\\\r\n")] *)
Fixpoint skip (l : list N) (p : N) : N * list N :=
  match l with
  | c :: t =>
      if c =? 32 then skip t (p + 1)
      else if c =? 92 then
        match t with
        | d :: t2 =>
            if d =? 10 then skip t2 (p + 2)
            else if d =? 13 then
              match t2 with
              | e :: t3 => if e =? 10 then skip t3 (p + 3) else (p, l)
              | [] => (p, l)
              end
            else (p, l)
        | [] => (p, l)
        end
      else (p, l)
  | [] => (p, [])
  end.

Inductive raw :=
| RTok (idx : N) | RComment | RTabs | RNewline | RReserved | RIdent
| RDec (leading_zero : bool) | RInt | RFloat | RError.

Fixpoint find_spelling_from (s : list N) (tbl : list (list N)) (i : N) : option N :=
  match tbl with
  | [] => None
  | x :: r => if list_eqb x s then Some i else find_spelling_from s r (i + 1)
  end.
Definition find_spelling (s : list N) : option N := find_spelling_from s spellings 0.

(* longest `#[token]` spelling that is a prefix of l: (index, length in chars) *)
Fixpoint longest_from (l : list N) (tbl : list (list N)) (i : N) (best : option (N * nat)) : option (N * nat) :=
  match tbl with
  | [] => best
  | x :: r =>
      let best' :=
        if is_prefix x l && negb (Nat.eqb (length x) 0) then
          match best with
          | Some (_, n) => if Nat.ltb n (length x) then Some (i, length x) else best
          | None => Some (i, length x)
          end
        else best in
      longest_from l r (i + 1) best'
  end.

(* [eE][-+]?[0-9]+ *)
Definition exp_part (l : list N) (p : N) : option (N * list N) :=
  match l with
  | e :: t =>
      if (e =? 101) || (e =? 69) then
        let '(p1, t1) := match t with
                         | s :: t2 => if (s =? 43) || (s =? 45) then (p + 2, t2) else (p + 1, t)
                         | [] => (p + 1, t)
                         end in
        match t1 with
        | d :: _ => if is_digit d then Some (take_while is_digit t1 p1) else None
        | [] => None
        end
      else None
  | [] => None
  end.

Definition opt_exp (l : list N) (p : N) : N * list N :=
  match exp_part l p with Some r => r | None => (p, l) end.

(* the number rules: RawDecInt RawHexInt RawBinInt RawOctInt Float (first two patterns); l starts with a digit c *)
Definition scan_number (c : N) (t : list N) (p : N) : raw * N * list N :=
  let prefixed (f : N -> bool) :=
    match t with
    | x :: h :: _ => if f h then Some (take_while f (tl t) (p + 2)) else None
    | _ => None
    end in
  let radix_int :=
    if c =? 48 then
      match t with
      | x :: _ =>
          if (x =? 120) || (x =? 88) then prefixed is_hex
          else if (x =? 98) || (x =? 66) then prefixed is_bin
          else if (x =? 111) || (x =? 79) then prefixed is_oct
          else None
      | [] => None
      end
    else None in
  match radix_int with
  | Some (p', r') => (RInt, p', r')
  | None =>
      let '(p1, r1) := take_while is_digit t (p + 1) in
      match r1 with
      | d :: r2 =>
          if d =? 46 then
            let '(p3, r3) := take_while is_digit r2 (p1 + 1) in
            let '(p4, r4) := opt_exp r3 p3 in (RFloat, p4, r4)
          else
            match exp_part r1 p1 with
            | Some (p4, r4) => (RFloat, p4, r4)
            | None => (RDec ((c =? 48) && (p + 1 <? p1)), p1, r1)
            end
      | [] => (RDec ((c =? 48) && (p + 1 <? p1)), p1, r1)
      end
  end.

(* one token of `Token::lexer` at a non-empty text c :: t (whitespace already skipped) *)
Definition scan_tok (c : N) (t : list N) (p : N) : raw * N * list N :=
  let l := c :: t in
  if c =? 35 then let '(p', r') := take_while (fun x => negb ((x =? 10) || (x =? 13))) t (p + 1) in (RComment, p', r')
  else if c =? 9 then let '(p', r') := take_while (fun x => x =? 9) t (p + 1) in (RTabs, p', r')
  else if c =? 10 then (RNewline, p + 1, t)
  else if c =? 13 then
    match t with
    | d :: t2 => if d =? 10 then (RNewline, p + 2, t2) else (RError, p + 1, t)
    | [] => (RError, p + 1, t)
    end
  else if is_alpha_ c then
    let '(word, r1) := span_chars is_alnum_ l in
    let p1 := p + blen word in
    let plain :=
      match find_spelling word with
      | Some i => (RTok i, p1, r1)
      | None => if existsb (list_eqb word) reserved then (RReserved, p1, r1) else (RIdent, p1, r1)
      end in
    match r1 with
    | q :: r2 =>
        if is_quote q then
          match find_spelling (word ++ [q]) with
          | Some i => (RTok i, p1 + 1, r2)
          | None => plain
          end
        else plain
    | [] => plain
    end
  else if is_digit c then scan_number c t p
  else if (c =? 46) && (match t with d :: _ => is_digit d | [] => false end) then
    (* \.[0-9]+([eE][-+]?[0-9]+)? *)
    let '(p3, r3) := take_while is_digit t (p + 1) in
    let '(p4, r4) := opt_exp r3 p3 in (RFloat, p4, r4)
  else
    match longest_from l spellings 0 None with
    | Some (i, n) => (RTok i, p + blen (firstn n l), skipn n l)
    | None => (RError, p + w c, t)
    end.

(* ---------- escapes (lexer.rs: escape_char, escape, escape_bytes) ---------- *)

Inductive esc_num_res := NumOk (v : N) (p : N) (l : list N) | NumErr (p : N) (l : list N).

(* `fuel` = max - count *)
Fixpoint escape_char (fuel : nat) (cnt mn radix value : N) (p : N) (l : list N) : esc_num_res :=
  match fuel with
  | O => NumOk value p l
  | S f =>
      match l with
      | [] => if mn <=? cnt then NumOk value p l else NumErr p l
      | c :: t =>
          match to_digit radix c with
          | None => if mn <=? cnt then NumOk value p l (* unnext *) else NumErr (p + w c) t
          | Some v => escape_char f (cnt + 1) mn radix (value * radix + v) (p + w c) t
          end
      end
  end.

(* char::from_u32 *)
Definition from_u32 (v : N) : option N :=
  if (v <? 55296) || ((57343 <? v) && (v <=? 1114111)) then Some v else None.

Inductive esc_res := EscOk (out : list N) (p : N) (l : list N) | EscErr (p : N) (l : list N).

Fixpoint assoc (c : N) (tbl : list (Z * Z)) : option N :=
  match tbl with
  | [] => None
  | (a, b) :: r => if Z.to_N a =? c then Some (Z.to_N b) else assoc c r
  end.

Definition num_escape (spec : list Z) (p : N) (l : list N) : esc_num_res :=
  escape_char (N.to_nat (zn spec 1)) 0 (zn spec 0) (zn spec 2) 0 p l.

(* `bytes = false`: escape (pushes chars); `bytes = true`: escape_bytes (pushes bytes).
   (p, l) is the cursor just after the backslash. *)
Definition escape (bytes : bool) (p : N) (l : list N) : esc_res :=
  let enc (c : N) := if bytes then utf8 c else [c] in
  let numeric (spec : list Z) (low_byte : bool) (p' : N) (l' : list N) :=
    match num_escape spec p' l' with
    | NumErr p2 l2 => EscErr p2 l2
    | NumOk v p2 l2 =>
        match from_u32 v with
        | None => EscErr p2 l2
        | Some ch => EscOk (if low_byte then [ch mod 256] else enc ch) p2 l2
        end
    end in
  match l with
  | [] => EscErr p l
  | c :: t =>
      let p1 := p + w c in
      match assoc c (if bytes then escape_simple_bytes else escape_simple) with
      | Some v => EscOk [v] p1 t
      | None =>
          if c =? 10 then EscOk [] p1 t
          else if c =? 13 then
            match t with
            | d :: t2 => if d =? 10 then EscOk [] (p1 + w d) t2 else EscErr (p1 + w d) t2
            | [] => EscErr p1 t
            end
          else if c =? 120 then numeric (if bytes then escape_bytes_x else escape_x) bytes p1 t
          else if c =? 117 then numeric (if bytes then escape_bytes_u else escape_u) false p1 t
          else if c =? 85 then numeric (if bytes then escape_bytes_U else escape_U) false p1 t
          else if is_oct c then
            (* it.unnext(c) *)
            if bytes then
              match num_escape escape_bytes_oct p l with
              | NumErr p2 l2 => EscErr p2 l2
              | NumOk v p2 l2 =>
                  match from_u32 v with
                  | None => EscErr p2 l2
                  | Some ch => if zn escape_bytes_oct 3 <? ch then EscErr p2 l2 else EscOk [ch] p2 l2
                  end
              end
            else numeric escape_oct false p l
          else if is_quote c || (c =? 92) then EscOk [c] p1 t
          else EscOk (92 :: enc c) p1 t
      end
  end.

(* ---------- string / bytes_string ---------- *)

Inductive str_res := StrOk (content : list N) (p : N) (l : list N) | StrErr (e : ekind) (lo hi : N).

Definition drop2 (l : list N) : list N := tl (tl l).

(* One loop for the byte-cursor fast path and the char-cursor slow path of `string` / `bytes_string`:
   `slow` records that a backslash, CR or (non-triple) LF was met, which is where the code leaves the fast
   path; the only observable difference is the message when the text ends.  `acc` is the content reversed.
   `qs` is the closure state of the triple-quote `stop` function.  `p` = string_end + it.pos(). *)
Fixpoint str_loop (fuel : nat) (q : N) (triple raw bytes infexpr : bool) (sstart : N)
         (l : list N) (p : N) (qs : N) (slow : bool) (acc : list N) : str_res :=
  match fuel with
  | O => StrErr EFuel 0 0
  | S f =>
      let continue := str_loop f q triple raw bytes infexpr sstart in
      let enc (c : N) := if bytes then rev (utf8 c) else [c] in
      match l with
      | [] =>
          (* only `string` (not `bytes_string`) looks at in_fstring_expr_mode, and only on its fast path *)
          StrErr (if negb slow && infexpr && negb bytes then EUnfinishedFStringExpression else EUnfinishedStringLiteral) sstart p
      | c :: t =>
          let p1 := p + w c in
          if c =? q then
            if triple then
              if qs =? 2 then StrOk (rev (drop2 acc)) p1 t
              else continue t p1 (qs + 1) slow (c :: acc)
            else StrOk (rev acc) p1 t
          else if (c =? 10) && negb triple then
            (* string_end -= 1; break *)
            StrErr EUnfinishedStringLiteral sstart (p1 - 1)
          else if c =? 13 then continue t p1 0 true acc
          else if c =? 92 then
            if raw then
              match t with
              | [] => StrErr EUnfinishedStringLiteral sstart p1
              | c2 :: t2 => continue t2 (p1 + w c2) 0 true (enc c2 ++ (if is_quote c2 then acc else 92 :: acc))
              end
            else
              match escape bytes p1 t with
              | EscOk out p2 t2 => continue t2 p2 0 true (rev out ++ acc)
              | EscErr p2 _ =>
                  (* string_end + pos - 1 .. string_end + it.pos() *)
                  StrErr (if p2 =? p1 then EEmptyEscapeSequence else EInvalidEscapeSequence) (p1 - 1) p2
              end
          else continue t p1 0 slow (enc c ++ acc)
      end
  end.

(* ---------- f-strings ---------- *)

(* lex_fstring_content reports a failed escape with the span (begin, start + it.pos()).  The translator reads which
   begin the code computes (LexC.fstring_escape_span_begin): 0 = `start + it.pos() - 1`, one byte before the end
   whatever was consumed (finding F2); 1 = the offset of the backslash (the repair, as in `string`). *)
Definition fstring_escape_span_fixed : bool := Z.eqb fstring_escape_span_begin 1.

Record fstate := { fq : N; ftriple : bool; fraw : bool; fbrace : N; fparen : N; fbracket : N }.

Definition fquote_code (q : N) (triple : bool) : N := (if q =? 34 then 1 else 0) + (if triple then 2 else 0).

Inductive fstr_res :=
| FExprStart (text : list N) (brace_pos : N) (l : list N)   (* l starts at the `{` *)
| FEnd (text : list N) (pend : N) (l : list N)
| FErr (e : ekind) (lo hi : N).

(* lex_fstring_content: p = start + it.pos(); acc = text reversed; qc = quote_count *)
Fixpoint fstr_loop (fuel : nat) (q : N) (triple raw : bool) (start : N)
         (l : list N) (p : N) (qc : N) (acc : list N) : fstr_res :=
  match fuel with
  | O => FErr EFuel 0 0
  | S f =>
      let continue := fstr_loop f q triple raw start in
      match l with
      | [] => FErr EUnfinishedStringLiteral start p
      | c :: t =>
          let p1 := p + w c in
          if c =? 123 then
            match t with
            | d :: t2 => if d =? 123 then continue t2 (p1 + w d) 0 (123 :: acc) else FExprStart (rev acc) (p1 - 1) l
            | [] => FExprStart (rev acc) (p1 - 1) l
            end
          else if c =? 125 then
            match t with
            | d :: t2 => if d =? 125 then continue t2 (p1 + w d) 0 (125 :: acc) else FErr EInvalidInput (p1 - 1) (p1 - 1 + 1)
            | [] => FErr EInvalidInput (p1 - 1) (p1 - 1 + 1)
            end
          else if c =? q then
            if triple then
              if qc =? 2 then FEnd (rev (drop2 acc)) p1 t
              else continue t p1 (qc + 1) (c :: acc)
            else FEnd (rev acc) p1 t
          else if (c =? 92) && negb raw then
            match escape false p1 t with
            | EscOk out p2 t2 => continue t2 p2 0 (rev out ++ acc)
            | EscErr p2 _ =>
                (* start + it.pos() - 1 .. start + it.pos()   (repaired: from the backslash) *)
                FErr EInvalidEscapeSequenceF (if fstring_escape_span_fixed then p1 - 1 else p2 - 1) p2
            end
          else if c =? 92 then
            match t with
            | c2 :: t2 => continue t2 (p1 + w c2) 0 (if c2 =? q then c2 :: acc else c2 :: 92 :: acc)
            | [] => continue t p1 0 (92 :: acc)
            end
          else if (c =? 10) && negb triple then FErr EUnfinishedStringLiteral start p1
          else if c =? 13 then continue t p1 0 acc
          else continue t p1 0 (c :: acc)
      end
  end.

(* ---------- calculate_indent ---------- *)

Inductive ind_res :=
| IndEof (p : N) (coms : list lexeme)                          (* text ended: bump(it.pos()) *)
| IndBlank (p : N) (l : list N) (coms : list lexeme)           (* blank line: the `\n` is not consumed *)
| IndLine (p : N) (l : list N) (sp tb istart : N) (coms : list lexeme).

(* make_comment: a trailing `\r` is not part of the comment span *)
Definition mk_comment (cstart pend : N) (lastcr : bool) : lexeme :=
  (cstart, KComment, if lastcr then pend - 1 else pend).

(* incom = inside the inner loop that skips a comment-only line; coms reversed *)
Fixpoint ind_loop (l : list N) (p : N) (incom : bool) (cstart : N) (lastcr : bool) (sp tb istart : N)
         (coms : list lexeme) : ind_res :=
  match l with
  | [] => if incom then IndEof p (mk_comment cstart p lastcr :: coms) else IndEof p coms
  | c :: t =>
      if incom then
        if c =? 10 then ind_loop t (p + 1) false 0 false sp tb (p + 1) (mk_comment cstart p lastcr :: coms)
        else ind_loop t (p + w c) true cstart (c =? 13) sp tb istart coms
      else if c =? 32 then ind_loop t (p + 1) false 0 false (sp + 1) tb istart coms
      else if c =? 9 then ind_loop t (p + 1) false 0 false sp (tb + 1) istart coms
      else if c =? 10 then IndBlank p l coms
      else if c =? 13 then ind_loop t (p + 1) false 0 false sp tb istart coms
      else if c =? 35 then ind_loop t (p + 1) true p false 0 0 istart coms
      else IndLine p l sp tb istart coms
  end.

(* pop indentation levels down to `indent`: number of dedents and the remaining stack, or None for
   "incorrect indentation" (a dedent to a column that was never an indentation level) *)
Fixpoint pop_levels (levels : list N) (indent : N) (n : nat) : option (nat * list N) :=
  match levels with
  | [] => if indent =? 0 then Some (n, []) else None       (* unwrap_or(0) *)
  | now :: r => if now =? indent then Some (n, levels) else if indent <? now then pop_levels r indent (S n) else None
  end.

Inductive indent_res :=
| IOk (p : N) (l : list N) (levels : list N) (toks : list lexeme)
| IErr (toks_before : list lexeme) (e : error).

(* levels: head = innermost.  tstart = lexer.span().start, p = lexer.span().end at entry *)
Definition calculate_indent (tstart p : N) (l : list N) (levels : list N) : indent_res :=
  match ind_loop l p false 0 false 0 0 p [] with
  | IndEof p' coms => IOk p' [] levels (rev coms)
  | IndBlank p' l' coms => IOk p' l' levels (rev coms)
  | IndLine p' l' sp tb istart coms =>
      let indent := sp + tb * Z.to_N indent_tab_width in
      if 0 <? tb then IErr (rev coms) (EInvalidTab, tstart, tstart)
      else
        let now := hd 0 levels in
        if now <? indent then IOk p' l' (indent :: levels) (rev coms ++ [(istart, KIndent, p')])
        else if indent <? now then
          match pop_levels (tl levels) indent 1 with
          | Some (n, levels') => IOk p' l' levels' (rev coms ++ repeat (istart, KDedent, istart) n)
          | None => IErr (rev coms) (EIndentation, tstart, p')
          end
        else IOk p' l' levels (rev coms)
  end.

(* ---------- Lexer::next ---------- *)

Record st := { pos : N; rest : list N; levels : list N; parens : Z; fstack : list fstate }.

Inductive step_res :=
| Go (toks : list lexeme) (s : st)
| Stop (toks : list lexeme) (e : option error).

Definition in_fstring_string_mode (s : st) : bool :=
  match fstack s with f :: _ => fbrace f =? 0 | [] => false end.
Definition in_fstring_expr_mode (s : st) : bool :=
  match fstack s with f :: _ => 0 <? fbrace f | [] => false end.
Definition at_fstring_expr_top_level (s : st) : bool :=
  match fstack s with f :: _ => (fbrace f =? 1) && (fparen f =? 0) && (fbracket f =? 0) | [] => false end.

Definition upd_top (s : st) (g : fstate -> fstate) : list fstate :=
  match fstack s with f :: r => g f :: r | [] => [] end.
Definition set_brace (n : N) (f : fstate) := {| fq := fq f; ftriple := ftriple f; fraw := fraw f; fbrace := n; fparen := fparen f; fbracket := fbracket f |}.
(* track_fstring_delimiter: only when brace_depth > 0 *)
Definition track_paren (opening : bool) (f : fstate) :=
  if 0 <? fbrace f then
    {| fq := fq f; ftriple := ftriple f; fraw := fraw f; fbrace := fbrace f;
       fparen := if opening then fparen f + 1 else fparen f - 1; fbracket := fbracket f |}
  else f.
Definition track_bracket (opening : bool) (f : fstate) :=
  if 0 <? fbrace f then
    {| fq := fq f; ftriple := ftriple f; fraw := fraw f; fbrace := fbrace f;
       fparen := fparen f; fbracket := if opening then fbracket f + 1 else fbracket f - 1 |}
  else f.

Definition mk (s : st) (p : N) (l : list N) : st :=
  {| pos := p; rest := l; levels := levels s; parens := parens s; fstack := fstack s |}.
Definition mkf (s : st) (p : N) (l : list N) (par : Z) (fs : list fstate) : st :=
  {| pos := p; rest := l; levels := levels s; parens := par; fstack := fs |}.

Definition starts2 (q : N) (l : list N) : bool :=
  match l with a :: b :: _ => (a =? q) && (b =? q) | _ => false end.

(* a quote-starting token: prefix letters of the spelling and its quote *)
Definition has (c : N) (sp : list N) : bool := existsb (N.eqb c) sp.

(* the f-string content step (lex_fstring_content + emit_fstring_expr_start / emit_fstring_end) *)
Definition fstring_step (s : st) (f : fstate) (frest : list fstate) : step_res :=
  let start := pos s in
  match fstr_loop (S (length (rest s))) (fq f) (ftriple f) (fraw f) start (rest s) start 0 [] with
  | FErr e lo hi => Stop [] (Some (e, lo, hi))
  | FExprStart text bp l =>
      (* bump(brace_pos); brace_depth = 1; bump(1) *)
      let s' := mkf s (bp + 1) (tl l) (parens s) (set_brace 1 f :: frest) in
      match text with
      | [] => Go [(bp, KFStringExprStart, bp + 1)] s'
      | _ => Go [(start, KFStringText text, bp); (bp, KFStringExprStart, bp + 1)] s'
      end
  | FEnd text pend l =>
      let qlen := if ftriple f then 3 else 1 in
      let s' := mkf s pend l (parens s) frest in
      match text with
      | [] => Go [(pend - qlen, KFStringEnd, pend)] s'
      | _ => Go [(start, KFStringText text, pend - qlen); (pend - qlen, KFStringEnd, pend)] s'
      end
  end.

(* the Newline branch of `next` *)
Definition newline_step (s : st) (tstart p' : N) (r' : list N) : step_res :=
  if (parens s =? 0)%Z && negb (in_fstring_expr_mode s) then
    match calculate_indent tstart p' r' (levels s) with
    | IErr _ e => Stop [] (Some e)          (* returned at once, before the Newline and the buffered comments *)
    | IOk p2 l2 lv toks =>
        Go ((tstart, KNewline, p') :: toks)
           {| pos := p2; rest := l2; levels := lv; parens := parens s; fstack := fstack s |}
    end
  else Go [] (mk s p' r').

Definition string_step (s : st) (tstart p' : N) (r' : list N) (sp : list N) : step_res :=
  let q := last sp 0 in
  let n := length sp in
  if has 102 sp then
    (* RawFStringSingleQuote / RawFStringDoubleQuote *)
    let raw := Nat.eqb n 3 in
    let triple := starts2 q r' in
    let p2 := if triple then p' + 2 else p' in
    let r2 := if triple then tl (tl r') else r' in
    let f := {| fq := q; ftriple := triple; fraw := raw; fbrace := 0; fparen := 0; fbracket := 0 |} in
    Go [(tstart, KFStringStart (fquote_code q triple), p2)] (mkf s p2 r2 (parens s) (f :: fstack s))
  else
    let bytes := has 98 sp in
    let raw := if bytes then Nat.leb 3 n else Nat.eqb n 2 in
    let triple := starts2 q r' in
    let p2 := if triple then p' + 2 else p' in
    let r2 := if triple then tl (tl r') else r' in
    match str_loop (S (length r2)) q triple raw bytes (in_fstring_expr_mode s) tstart r2 p2 0 false [] with
    | StrOk content p3 r3 => Go [(tstart, if bytes then KBytes content else KString content, p3)] (mk s p3 r3)
    | StrErr e lo hi => Stop [] (Some (e, lo, hi))
    end.

Definition token_step (s : st) (i : N) (tstart p' : N) (r' : list N) : step_res :=
  let sp := spell i in
  let tok := [(tstart, KTok i, p')] in
  if is_quote (last sp 0) then string_step s tstart p' r' sp
  else if list_eqb sp [123] then
    Go tok (mkf s p' r' (parens s + 1) (if in_fstring_expr_mode s then upd_top s (fun f => set_brace (fbrace f + 1) f) else fstack s))
  else if list_eqb sp [40] then Go tok (mkf s p' r' (parens s + 1) (upd_top s (track_paren true)))
  else if list_eqb sp [91] then Go tok (mkf s p' r' (parens s + 1) (upd_top s (track_bracket true)))
  else if list_eqb sp [125] then
    if at_fstring_expr_top_level s then
      Go [(tstart, KFStringExprEnd, p')] (mkf s p' r' (parens s) (upd_top s (set_brace 0)))
    else
      Go tok (mkf s p' r' (parens s - 1) (upd_top s (fun f => if 0 <? fbrace f then set_brace (fbrace f - 1) f else f)))
  else if list_eqb sp [41] then Go tok (mkf s p' r' (parens s - 1) (upd_top s (track_paren false)))
  else if list_eqb sp [93] then Go tok (mkf s p' r' (parens s - 1) (upd_top s (track_bracket false)))
  else Go tok (mk s p' r').

(* the logos branch of `next`: skip, scan one token, dispatch *)
Definition scan_step (s : st) : step_res :=
  let '(tstart, l) := skip (rest s) (pos s) in
  match l with
  | [] => Stop ((tstart, KNewline, tstart) :: repeat (tstart, KDedent, tstart) (length (levels s))) None
  | c :: t =>
      let '(r, p', r') := scan_tok c t tstart in
      match r with
      | RTabs => Stop [] (Some (EInvalidTab, tstart, tstart))
      | RNewline => newline_step s tstart p' r'
      | RReserved => Stop [] (Some (EReservedKeyword, tstart, p'))
      | RDec true => Stop [] (Some (EStartsZero, tstart, p'))
      | RDec false | RInt => Go [(tstart, KInt, p')] (mk s p' r')
      | RFloat => Go [(tstart, KFloat, p')] (mk s p' r')
      | RIdent => Go [(tstart, KIdentifier, p')] (mk s p' r')
      | RComment => Go [(tstart, KComment, p')] (mk s p' r')
      | RError => Stop [] (Some (EInvalidInput, tstart, p'))
      | RTok i => token_step s i tstart p' r'
      end
  end.

(* conversion specifier `!` (not `!=`) at the top level of an f-string expression; the remainder is
   inspected before any whitespace is skipped *)
Definition bang_here (s : st) : bool :=
  at_fstring_expr_top_level s
  && match rest s with
     | c :: t => (c =? 33) && negb (match t with d :: _ => d =? 61 | [] => false end)
     | [] => false
     end.

(* one round of `Lexer::next` with an empty buffer (the buffer is a FIFO that is always drained before the
   next token is scanned, so a round emits its lexemes in order) *)
Definition step (s : st) : step_res :=
  match fstack s with
  | f :: frest =>
      if fbrace f =? 0 then fstring_step s f frest
      else if bang_here s then Go [(pos s, KFStringBang, pos s + 1)] (mk s (pos s + 1) (tl (rest s)))
      else scan_step s
  | [] => scan_step s
  end.

Fixpoint run (fuel : nat) (s : st) (acc : list lexeme) : list lexeme * option error :=
  match fuel with
  | O => (rev acc, Some (EFuel, 0, 0))
  | S f =>
      match step s with
      | Stop toks e => (rev acc ++ toks, e)
      | Go toks s' => run f s' (rev toks ++ acc)
      end
  end.

(* Lexer::new: calculate_indent at offset 0; an error there is queued behind the comments already buffered *)
Definition lex (input : list N) : list lexeme * option error :=
  match calculate_indent 0 0 input [] with
  | IErr coms e => (coms, Some e)
  | IOk p l lv toks =>
      run (S (length l)) {| pos := p; rest := l; levels := lv; parens := 0; fstack := [] |} (rev toks)
  end.
