(* C05: the user-level vocabulary of the lexer theorems.  No proofs. *)
From Coq Require Import NArith List Bool.
From SV Require Import Lex.Model.
Import ListNotations.
Open Scope N_scope.

(* p is the byte offset of a character boundary of the text: the UTF-8 length of some prefix *)
Definition boundary (input : list N) (p : N) : Prop := exists k : nat, p = blen (firstn k input).

(* the cursor (p, l) of a scanner: l is a suffix of the text and p the byte length of what precedes it *)
Definition cursor (input : list N) (p : N) (l : list N) : Prop := exists pre, input = pre ++ l /\ p = blen pre.

(* a span lies inside the file, is well-ordered and starts and ends on character boundaries *)
Definition span_ok (input : list N) (l r : N) : Prop :=
  l <= r /\ r <= blen input /\ boundary input l /\ boundary input r.

(* weaker: inside the file and well-ordered *)
Definition span_in_file (input : list N) (l r : N) : Prop := l <= r /\ r <= blen input.

Definition tok_ok (input : list N) (t : lexeme) : Prop := let '(l, _, r) := t in span_ok input l r.

(* spans are monotone and do not overlap: each lexeme starts at or after the end of the previous one *)
Fixpoint ordered (lo : N) (ts : list lexeme) : Prop :=
  match ts with
  | [] => True
  | (l, _, r) :: t => lo <= l /\ l <= r /\ ordered r t
  end.

Definition is_indent (t : lexeme) : bool := match t with (_, KIndent, _) => true | _ => false end.
Definition is_dedent (t : lexeme) : bool := match t with (_, KDedent, _) => true | _ => false end.
Definition count (f : lexeme -> bool) (ts : list lexeme) : nat := length (filter f ts).

(* the indentation stack: strictly decreasing from the innermost level, all levels positive *)
Fixpoint levels_ok (lv : list N) : Prop :=
  match lv with
  | [] => True
  | a :: r => 0 < a /\ hd 0 r < a /\ levels_ok r
  end.

Definition ascii_only (input : list N) : Prop := forall c, In c input -> c < 128.

