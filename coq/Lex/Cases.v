(* C05 correspondence driver (cases.v route): the spans the model assigns, printed by `Eval vm_compute`.
   The high-volume tie uses the extracted model (Extract/LexX.v); this route re-runs a sample inside Coq
   so that extraction + the OCaml driver are themselves cross-checked.  Executable only. *)
From Coq Require Import NArith List.
From SV Require Import Lex.Model.
Import ListNotations.
Open Scope N_scope.

Definition spans_of (input : list N) : list (N * N) * option (N * N) :=
  let '(toks, e) := lex input in
  (map (fun t : lexeme => let '(l, _, r) := t in (l, r)) toks,
   match e with Some (_, l, r) => Some (l, r) | None => None end).
