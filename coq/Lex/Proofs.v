(* C05: proofs about the lexer model. *)
From Coq Require Import NArith ZArith List Bool Lia.
From SV Require Import Extracted.LexC Lex.Model Lex.Spec.
Import ListNotations.
Open Scope N_scope.

(* ---------- text ---------- *)

Lemma w_pos : forall c, 1 <= w c.
Proof. intro c; unfold w; repeat (destruct (_ <? _)); lia. Qed.

Lemma w_le4 : forall c, w c <= 4.
Proof. intro c; unfold w; repeat (destruct (_ <? _)); lia. Qed.

Lemma w_ascii : forall c, c < 128 -> w c = 1.
Proof. intros c H; unfold w. apply N.ltb_lt in H. now rewrite H. Qed.

Lemma blen_app : forall a b, blen (a ++ b) = blen a + blen b.
Proof. induction a; intros; cbn [blen app]; [reflexivity | rewrite IHa; lia]. Qed.

Lemma blen_ge_length : forall l, N.of_nat (length l) <= blen l.
Proof. induction l; cbn [blen length]; [lia | pose proof (w_pos a); lia]. Qed.

Arguments fstring_escape_span_fixed : simpl never.

Ltac eqb_subst :=
  repeat match goal with
         | H : (?c =? ?k) = true |- _ => apply N.eqb_eq in H; try subst c
         end.

(* ---------- cursors ---------- *)

Section WithInput.
Variable input : list N.

(* the cursor (p, l): l is a suffix of the input and p the byte length of what precedes it *)
Notation At := (cursor input).
Notation Bnd := (boundary input).

Lemma At_start : At 0 input.
Proof. exists []; split; reflexivity. Qed.

Lemma At_bnd : forall p l, At p l -> Bnd p.
Proof.
  intros p l [pre [E P]]. exists (length pre). subst.
  rewrite firstn_app, firstn_all, Nat.sub_diag, firstn_O, app_nil_r. reflexivity.
Qed.

Lemma At_len : forall p l, At p l -> p + blen l = blen input.
Proof. intros p l [pre [E P]]. subst. now rewrite blen_app. Qed.

Lemma At_cons : forall p c t, At p (c :: t) -> At (p + w c) t.
Proof.
  intros p c t [pre [E P]]. exists (pre ++ [c]). split.
  - rewrite <- app_assoc. exact E.
  - rewrite blen_app. cbn [blen]. lia.
Qed.

Lemma At_app : forall a p l, At p (a ++ l) -> At (p + blen a) l.
Proof.
  induction a; intros p l H; cbn [blen app] in *.
  - now rewrite N.add_0_r.
  - apply At_cons in H. apply IHa in H. now rewrite N.add_assoc.
Qed.

Lemma At_nil : forall p, At p [] -> p = blen input.
Proof. intros p H. apply At_len in H. cbn [blen] in H. lia. Qed.

Lemma Bnd_le : forall p, Bnd p -> p <= blen input.
Proof.
  intros p [k E]. subst. rewrite <- (firstn_skipn k input) at 2. rewrite blen_app. lia.
Qed.

Lemma At_le : forall p l, At p l -> p <= blen input.
Proof. intros. eapply Bnd_le, At_bnd; eauto. Qed.

(* one-byte characters: the offset before them is where the cursor was *)
Lemma At_cons1 : forall p c t, At p (c :: t) -> w c = 1 -> At (p + 1) t.
Proof. intros p c t H W. apply At_cons in H. now rewrite W in H. Qed.

(* ---------- scanners ---------- *)

Lemma take_while_At : forall f l p p' l', At p l -> take_while f l p = (p', l') -> At p' l' /\ p <= p'.
Proof.
  induction l; intros p p' l' H E; cbn [take_while] in E.
  - inversion E; subst. split; [assumption | lia].
  - destruct (f a).
    + apply At_cons in H. destruct (IHl _ _ _ H E) as [A B]. split; [assumption|]. pose proof (w_pos a). lia.
    + inversion E; subst. split; [assumption | lia].
Qed.

Lemma span_chars_app : forall f l a r, span_chars f l = (a, r) -> l = a ++ r.
Proof.
  induction l; intros a0 r E; cbn [span_chars] in E.
  - inversion E. reflexivity.
  - destruct (f a).
    + destruct (span_chars f l) as [a1 r1] eqn:S. inversion E; subst. cbn [app]. f_equal. now apply IHl.
    + inversion E. reflexivity.
Qed.

Lemma skip_At : forall l p p' l', At p l -> skip l p = (p', l') -> At p' l' /\ p <= p'.
Proof.
  fix IH 1. intros l p p' l' H E. destruct l as [|c t]; cbn [skip] in E.
  - inversion E; subst. split; [assumption | lia].
  - destruct (c =? 32) eqn:C32.
    + eqb_subst. apply At_cons in H. change (w 32) with 1 in H.
      destruct (IH _ _ _ _ H E). split; [assumption | lia].
    + destruct (c =? 92) eqn:C92; [| inversion E; subst; split; [assumption | lia]].
      eqb_subst. destruct t as [|d t2]; [inversion E; subst; split; [assumption | lia]|].
      destruct (d =? 10) eqn:D10.
      * eqb_subst. apply At_cons, At_cons in H. change (w 92) with 1 in H. change (w 10) with 1 in H.
        rewrite <- N.add_assoc in H. change (1 + 1) with 2 in H.
        destruct (IH _ _ _ _ H E). split; [assumption | lia].
      * destruct (d =? 13) eqn:D13; [| inversion E; subst; split; [assumption | lia]].
        eqb_subst. destruct t2 as [|e t3]; [inversion E; subst; split; [assumption | lia]|].
        destruct (e =? 10) eqn:E10; [| inversion E; subst; split; [assumption | lia]].
        eqb_subst. apply At_cons, At_cons, At_cons in H.
        change (w 92) with 1 in H. change (w 13) with 1 in H. change (w 10) with 1 in H.
        replace (p + 1 + 1 + 1) with (p + 3) in H by lia.
        destruct (IH _ _ _ _ H E). split; [assumption | lia].
Qed.

Lemma orb_eq_w1 : forall c a b, a < 128 -> b < 128 -> (c =? a) || (c =? b) = true -> w c = 1.
Proof.
  intros c a b Ha Hb H. apply orb_true_iff in H. destruct H as [H|H]; apply N.eqb_eq in H; subst; now apply w_ascii.
Qed.

Lemma is_digit_w1 : forall c, is_digit c = true -> w c = 1.
Proof. intros c H. unfold is_digit in H. apply andb_true_iff in H. destruct H as [_ H]. apply N.leb_le in H. apply w_ascii. lia. Qed.

Lemma exp_part_At : forall l p p' l', At p l -> exp_part l p = Some (p', l') -> At p' l' /\ p < p'.
Proof.
  intros l p p' l' H E. unfold exp_part in E. destruct l as [|e t]; [discriminate|].
  destruct ((e =? 101) || (e =? 69)) eqn:EE; [|discriminate].
  assert (We : w e = 1) by (eapply orb_eq_w1; [| |exact EE]; lia).
  apply At_cons1 in H; [|assumption].
  destruct t as [|s t2].
  - discriminate.
  - destruct ((s =? 43) || (s =? 45)) eqn:SS.
    + assert (Ws : w s = 1) by (eapply orb_eq_w1; [| |exact SS]; lia).
      apply At_cons1 in H; [|assumption]. replace (p + 1 + 1) with (p + 2) in H by lia.
      destruct t2 as [|d t3]; [discriminate|]. destruct (is_digit d); [|discriminate].
      inversion E as [E1]. destruct (take_while_At _ _ _ _ _ H E1). split; [assumption | lia].
    + destruct (is_digit s); [|discriminate].
      inversion E as [E1]. destruct (take_while_At _ _ _ _ _ H E1). split; [assumption | lia].
Qed.

Lemma opt_exp_At : forall l p p' l', At p l -> opt_exp l p = (p', l') -> At p' l' /\ p <= p'.
Proof.
  intros l p p' l' H E. unfold opt_exp in E. destruct (exp_part l p) as [[p1 l1]|] eqn:X.
  - inversion E; subst. destruct (exp_part_At _ _ _ _ H X). split; [assumption | lia].
  - inversion E; subst. split; [assumption | lia].
Qed.

Lemma scan_number_At : forall c t p r p' l', At p (c :: t) -> is_digit c = true ->
  scan_number c t p = (r, p', l') -> At p' l' /\ p < p'.
Proof.
  intros c t p r p' l' H D E. unfold scan_number in E.
  pose proof (is_digit_w1 _ D) as Wc.
  assert (H1 : At (p + 1) t) by (apply At_cons1 in H; assumption).
  assert (PF : forall f x h t3 q l2, t = x :: h :: t3 -> w x = 1 -> take_while f (tl t) (p + 2) = (q, l2) -> At q l2 /\ p < q).
  { intros f x h t3 q l2 Et Wx Etw. subst t. cbn [tl] in Etw. apply At_cons1 in H1; [|assumption].
    replace (p + 1 + 1) with (p + 2) in H1 by lia. destruct (take_while_At _ _ _ _ _ H1 Etw). split; [assumption | lia]. }
  match type of E with (match ?ri with _ => _ end) = _ => destruct ri as [[q l2]|] eqn:RI end.
  - inversion E; subst. clear E.
    destruct (c =? 48); [|discriminate]. destruct t as [|x t1]; [discriminate|].
    destruct ((x =? 120) || (x =? 88)) eqn:X1.
    { assert (w x = 1) by (eapply orb_eq_w1; [| |exact X1]; lia).
      destruct t1 as [|h t3]; [discriminate|]. destruct (is_hex h); [|discriminate]. inversion RI as [R1]. eapply (PF is_hex x h t3); [reflexivity | assumption | exact R1]. }
    destruct ((x =? 98) || (x =? 66)) eqn:X2.
    { assert (w x = 1) by (eapply orb_eq_w1; [| |exact X2]; lia).
      destruct t1 as [|h t3]; [discriminate|]. destruct (is_bin h); [|discriminate]. inversion RI as [R1]. eapply (PF is_bin x h t3); [reflexivity | assumption | exact R1]. }
    destruct ((x =? 111) || (x =? 79)) eqn:X3; [|discriminate].
    { assert (w x = 1) by (eapply orb_eq_w1; [| |exact X3]; lia).
      destruct t1 as [|h t3]; [discriminate|]. destruct (is_oct h); [|discriminate]. inversion RI as [R1]. eapply (PF is_oct x h t3); [reflexivity | assumption | exact R1]. }
  - clear RI PF. destruct (take_while is_digit t (p + 1)) as [p1 r1] eqn:TW.
    destruct (take_while_At _ _ _ _ _ H1 TW) as [A1 L1].
    destruct r1 as [|d r2].
    + inversion E; subst. split; [assumption | lia].
    + destruct (d =? 46) eqn:D46.
      * eqb_subst. apply At_cons1 in A1; [|reflexivity].
        destruct (take_while is_digit r2 (p1 + 1)) as [p3 r3] eqn:TW2.
        destruct (take_while_At _ _ _ _ _ A1 TW2) as [A3 L3].
        destruct (opt_exp r3 p3) as [p4 r4] eqn:OE. destruct (opt_exp_At _ _ _ _ A3 OE).
        inversion E; subst. split; [assumption | lia].
      * destruct (exp_part (d :: r2) p1) as [[p4 r4]|] eqn:EP.
        -- destruct (exp_part_At _ _ _ _ A1 EP). inversion E; subst. split; [assumption | lia].
        -- inversion E; subst. split; [assumption | lia].
Qed.

Lemma longest_from_pos : forall l tbl i best j n,
  longest_from l tbl i best = Some (j, n) -> (forall j' n', best = Some (j', n') -> (1 <= n')%nat) -> (1 <= n)%nat.
Proof.
  induction tbl; intros i best j n E HB; cbn [longest_from] in E.
  - eapply HB; eauto.
  - eapply IHtbl; [exact E|]. intros j' n' E'.
    destruct (is_prefix a l && negb (Nat.eqb (length a) 0)) eqn:P; [|eauto].
    apply andb_true_iff in P. destruct P as [_ P]. apply negb_true_iff, Nat.eqb_neq in P.
    destruct best as [[b1 b2]|].
    + destruct (Nat.ltb b2 (length a)); inversion E'; subst; [lia | eauto].
    + inversion E'; subst. lia.
Qed.

Lemma is_quote_w1 : forall c, is_quote c = true -> w c = 1.
Proof. intros c H. eapply orb_eq_w1; [| |exact H]; lia. Qed.

Lemma scan_tok_At : forall c t p r p' l', At p (c :: t) -> scan_tok c t p = (r, p', l') -> At p' l' /\ p < p'.
Proof.
  intros c t p r p' l' H E. unfold scan_tok in E. pose proof (w_pos c) as Wc.
  destruct (c =? 35) eqn:C35.
  { eqb_subst. apply At_cons1 in H; [|reflexivity].
    destruct (take_while _ t (p + 1)) as [q l2] eqn:TW. destruct (take_while_At _ _ _ _ _ H TW).
    inversion E; subst. split; [assumption | lia]. }
  destruct (c =? 9) eqn:C9.
  { eqb_subst. apply At_cons1 in H; [|reflexivity].
    destruct (take_while _ t (p + 1)) as [q l2] eqn:TW. destruct (take_while_At _ _ _ _ _ H TW).
    inversion E; subst. split; [assumption | lia]. }
  destruct (c =? 10) eqn:C10.
  { eqb_subst. apply At_cons1 in H; [|reflexivity]. inversion E; subst. split; [assumption | lia]. }
  destruct (c =? 13) eqn:C13.
  { eqb_subst. apply At_cons1 in H; [|reflexivity]. destruct t as [|d t2].
    - inversion E; subst. split; [assumption | lia].
    - destruct (d =? 10) eqn:D10.
      + eqb_subst. apply At_cons1 in H; [|reflexivity]. replace (p + 1 + 1) with (p + 2) in H by lia.
        inversion E; subst. split; [assumption | lia].
      + inversion E; subst. split; [assumption | lia]. }
  destruct (is_alpha_ c) eqn:AL.
  { destruct (span_chars is_alnum_ (c :: t)) as [word r1] eqn:SC.
    pose proof (span_chars_app _ _ _ _ SC) as EL.
    assert (W1 : 1 <= blen word).
    { cbn [span_chars] in SC. unfold is_alnum_ in SC at 1. rewrite AL in SC. cbn [orb] in SC.
      destruct (span_chars is_alnum_ t). inversion SC; subst. cbn [blen]. lia. }
    rewrite EL in H. apply At_app in H.
    assert (PL : forall rr, (let '(r0, p0, l0) := rr in p0 = p + blen word /\ l0 = r1) -> rr = (r, p', l') -> At p' l' /\ p < p').
    { intros [[r0 p0] l0] [P0 L0] E0. inversion E0; subst. split; [assumption | lia]. }
    match type of E with (match r1 with [] => ?pl | _ => _ end) = _ => assert (PLAIN : let '(r0, p0, l0) := pl in p0 = p + blen word /\ l0 = r1) end.
    { destruct (find_spelling word); [split; reflexivity|]. destruct (existsb _ reserved); split; reflexivity. }
    destruct r1 as [|q r2]; [eapply PL; eauto|].
    destruct (is_quote q) eqn:Q; [|eapply PL; eauto].
    destruct (find_spelling (word ++ [q])); [|eapply PL; eauto].
    apply At_cons1 in H; [|now apply is_quote_w1]. inversion E; subst. split; [assumption | lia]. }
  destruct (is_digit c) eqn:DG.
  { eapply scan_number_At; eauto. }
  match type of E with (if ?b then _ else _) = _ => destruct b eqn:FL end.
  { apply andb_true_iff in FL. destruct FL as [C46 _]. eqb_subst. apply At_cons1 in H; [|reflexivity].
    destruct (take_while is_digit t (p + 1)) as [p3 r3] eqn:TW. destruct (take_while_At _ _ _ _ _ H TW) as [A3 L3].
    destruct (opt_exp r3 p3) as [p4 r4] eqn:OE. destruct (opt_exp_At _ _ _ _ A3 OE).
    inversion E; subst. split; [assumption | lia]. }
  destruct (longest_from (c :: t) spellings 0 None) as [[i n]|] eqn:LF.
  - assert (N1 : (1 <= n)%nat) by (eapply longest_from_pos; [exact LF | intros; discriminate]).
    inversion E; subst. rewrite <- (firstn_skipn n (c :: t)) in H. apply At_app in H. split; [assumption|].
    destruct n; [lia|]. cbn [firstn blen]. lia.
  - apply At_cons in H. inversion E; subst. split; [assumption | lia].
Qed.

(* ---------- escapes ---------- *)

Definition num_pos (r : esc_num_res) : N * list N := match r with NumOk _ p l | NumErr p l => (p, l) end.
Definition esc_pos (r : esc_res) : N * list N := match r with EscOk _ p l | EscErr p l => (p, l) end.

Lemma escape_char_At : forall fuel cnt mn radix value p l, At p l ->
  let '(p2, l2) := num_pos (escape_char fuel cnt mn radix value p l) in At p2 l2 /\ p <= p2.
Proof.
  induction fuel; intros cnt mn radix value p l H; cbn [escape_char].
  - cbn. split; [assumption | lia].
  - destruct l as [|c t].
    + destruct (mn <=? cnt); cbn; (split; [assumption | lia]).
    + destruct (to_digit radix c).
      * specialize (IHfuel (cnt + 1) mn radix (value * radix + n) _ _ (At_cons _ _ _ H)).
        destruct (num_pos _) as [p2 l2]. destruct IHfuel. split; [assumption|]. pose proof (w_pos c). lia.
      * destruct (mn <=? cnt); cbn; (split; [try assumption; now apply At_cons | pose proof (w_pos c); lia]).
Qed.

Lemma escape_At : forall b p l, At p l -> let '(p2, l2) := esc_pos (escape b p l) in At p2 l2 /\ p <= p2.
Proof.
  intros b p l H. unfold escape. destruct l as [|c t]; [cbn; split; [assumption | lia]|].
  pose proof (w_pos c) as Wc. pose proof (At_cons _ _ _ H) as H1.
  assert (NUM : forall (spec : list Z) (g : N -> list N), let '(p2, l2) := esc_pos
            (match num_escape spec (p + w c) t with
             | NumErr p2 l2 => EscErr p2 l2
             | NumOk v p2 l2 => match from_u32 v with
                                | None => EscErr p2 l2
                                | Some ch => EscOk (g ch) p2 l2
                                end
             end) in At p2 l2 /\ p <= p2).
  { intros spec g. unfold num_escape.
    pose proof (escape_char_At (N.to_nat (zn spec 1)) 0 (zn spec 0) (zn spec 2) 0 _ _ H1) as X.
    destruct (escape_char _ _ _ _ _ _ _) as [v p2 l2|p2 l2]; cbn in X |- *.
    - destruct (from_u32 v); cbn; (destruct X; split; [assumption | lia]).
    - destruct X; split; [assumption | lia]. }
  destruct (assoc c _); [cbn; split; [assumption | lia]|].
  destruct (c =? 10); [cbn; split; [assumption | lia]|].
  destruct (c =? 13).
  { destruct t as [|d t2]; [cbn; split; [assumption | lia]|].
    pose proof (At_cons _ _ _ H1). pose proof (w_pos d).
    destruct (d =? 10); cbn; (split; [assumption | lia]). }
  destruct (c =? 120); [apply (NUM _ (fun ch => if b then [ch mod 256] else if b then utf8 ch else [ch]))|].
  destruct (c =? 117); [apply (NUM _ (fun ch => if b then utf8 ch else [ch]))|].
  destruct (c =? 85); [apply (NUM _ (fun ch => if b then utf8 ch else [ch]))|].
  destruct (is_oct c).
  { destruct b.
    - unfold num_escape.
      pose proof (escape_char_At (N.to_nat (zn escape_bytes_oct 1)) 0 (zn escape_bytes_oct 0) (zn escape_bytes_oct 2) 0 _ _ H) as X.
      destruct (escape_char _ _ _ _ _ _ _) as [v p2 l2|p2 l2]; cbn in X |- *; [|exact X].
      destruct (from_u32 v); [|exact X]. destruct (_ <? _); exact X.
    - unfold num_escape.
      pose proof (escape_char_At (N.to_nat (zn escape_oct 1)) 0 (zn escape_oct 0) (zn escape_oct 2) 0 _ _ H) as X.
      destruct (escape_char _ _ _ _ _ _ _) as [v p2 l2|p2 l2]; cbn in X |- *; [|exact X].
      destruct (from_u32 v); exact X. }
  destruct (is_quote c || (c =? 92)); cbn; (split; [assumption | lia]).
Qed.

(* ---------- progress in terms of list length ---------- *)

Lemma blen_firstn_mono : forall (l : list N) k k', (k <= k')%nat -> blen (firstn k l) <= blen (firstn k' l).
Proof.
  induction l; intros k k' H.
  - rewrite !firstn_nil. lia.
  - destruct k; [cbn [firstn blen]; lia|]. destruct k'; [lia|]. cbn [firstn blen].
    specialize (IHl k k'). lia.
Qed.

Lemma At_lt_length : forall p l p' l', At p l -> At p' l' -> p < p' -> (length l' < length l)%nat.
Proof.
  intros p l p' l' [pre [E P]] [pre' [E' P']] L.
  assert (LI : length input = (length pre + length l)%nat) by (rewrite E at 1; apply app_length).
  assert (LI' : length input = (length pre' + length l')%nat) by (rewrite E' at 1; apply app_length).
  destruct (Nat.le_gt_cases (length pre') (length pre)) as [C|C]; [|lia].
  exfalso.
  assert (F : pre = firstn (length pre) input) by (rewrite E at 1; rewrite firstn_app, firstn_all, Nat.sub_diag, firstn_O, app_nil_r; reflexivity).
  assert (F' : pre' = firstn (length pre') input) by (rewrite E' at 1; rewrite firstn_app, firstn_all, Nat.sub_diag, firstn_O, app_nil_r; reflexivity).
  pose proof (blen_firstn_mono input _ _ C) as M. rewrite <- F, <- F' in M. lia.
Qed.

(* ---------- string / bytes_string ---------- *)

Lemma str_loop_ok : forall fuel q triple raw bytes infexpr sstart l p qs slow acc,
  At p l -> Bnd sstart -> sstart <= p -> (length l < fuel)%nat ->
  match str_loop fuel q triple raw bytes infexpr sstart l p qs slow acc with
  | StrOk _ p3 l3 => At p3 l3 /\ p < p3 /\ At (p3 - w q) (q :: l3)
  | StrErr e lo hi => e <> EFuel /\ e <> EInvalidEscapeSequenceF /\ lo <= hi /\ Bnd lo /\ Bnd hi /\ sstart <= lo
  end.
Proof.
  induction fuel; intros q triple raw bytes infexpr sstart l p qs slow acc H BS LS LF; [lia|].
  cbn [str_loop]. destruct l as [|c t].
  { repeat split; try (destruct (negb slow && infexpr && negb bytes); discriminate); try assumption; try lia.
    eapply At_bnd; eauto. }
  pose proof (w_pos c) as Wc. pose proof (At_cons _ _ _ H) as H1. pose proof (At_bnd _ _ H) as BP.
  cbn [length] in LF.
  assert (CONT : forall t' p' qs' slow' acc', At p' t' -> p < p' ->
            match str_loop fuel q triple raw bytes infexpr sstart t' p' qs' slow' acc' with
            | StrOk _ p3 l3 => At p3 l3 /\ p < p3 /\ At (p3 - w q) (q :: l3)
            | StrErr e lo hi => e <> EFuel /\ e <> EInvalidEscapeSequenceF /\ lo <= hi /\ Bnd lo /\ Bnd hi /\ sstart <= lo
            end).
  { intros t' p' qs' slow' acc' A' L'.
    assert (LL : (length t' < fuel)%nat) by (pose proof (At_lt_length _ _ _ _ H A' L'); cbn [length] in *; lia).
    specialize (IHfuel q triple raw bytes infexpr sstart t' p' qs' slow' acc' A' BS ltac:(lia) LL).
    destruct (str_loop _ _ _ _ _ _ _ _ _ _ _ _); [destruct IHfuel as (I1 & I2 & I3); split; [assumption | split; [lia | assumption]] | exact IHfuel]. }
  destruct (c =? q) eqn:CQ.
  { assert (QE : At (p + w c - w q) (q :: t)) by (eqb_subst; now replace (p + w q - w q) with p by lia).
    destruct triple; [destruct (qs =? 2)|]; try (split; [assumption | split; [lia | assumption]]). apply CONT; [assumption | lia]. }
  destruct ((c =? 10) && negb triple) eqn:NL.
  { apply andb_true_iff in NL. destruct NL as [C10 _]. eqb_subst. change (w 10) with 1.
    replace (p + 1 - 1) with p by lia. repeat split; try discriminate; try assumption; lia. }
  destruct (c =? 13); [apply CONT; [assumption | lia]|].
  destruct (c =? 92) eqn:C92; [|apply CONT; [assumption | lia]].
  eqb_subst. change (w 92) with 1 in *.
  destruct raw.
  - destruct t as [|c2 t2].
    + repeat split; try discriminate; try assumption; try lia. eapply At_bnd; eauto.
    + apply CONT; [now apply At_cons | pose proof (w_pos c2); lia].
  - pose proof (escape_At bytes _ _ H1) as X.
    destruct (escape bytes (p + 1) t) as [out p2 t2|p2 t2]; cbn in X; destruct X as [X1 X2].
    + apply CONT; [assumption | lia].
    + replace (p + 1 - 1) with p by lia.
      repeat split; try (destruct (p2 =? p + 1); discriminate); try assumption; try lia. eapply At_bnd; eauto.
Qed.

(* ---------- lex_fstring_content ---------- *)

Definition fstr_post (triple : bool) (start p : N) (r : fstr_res) : Prop :=
  match r with
  | FExprStart _ bp l' => At bp l' /\ p <= bp /\ start <= bp /\ (exists t, l' = 123 :: t)
  | FEnd _ pend l' =>
      At pend l' /\ p < pend /\
      (let ql := if triple then 3 else 1 in Bnd (pend - ql) /\ start <= pend - ql /\ ql <= pend)
  | FErr e lo hi =>
      e <> EFuel /\ lo <= hi /\ Bnd hi /\ start <= lo /\
      match e with EInvalidEscapeSequenceF => if fstring_escape_span_fixed then Bnd lo else hi = lo + 1 | _ => Bnd lo end
  end.

Lemma fstr_post_mono : forall triple start p p' r, p <= p' -> fstr_post triple start p' r -> fstr_post triple start p r.
Proof.
  intros triple start p p' r L H. destruct r; cbn in *.
  - destruct H as (A & B & C & D). repeat split; try assumption; lia.
  - destruct H as (A & B & C). repeat split; try assumption; try lia; apply C.
  - exact H.
Qed.

Lemma fstr_loop_ok : forall fuel q triple raw start l p qc acc,
  w q = 1 -> At p l -> Bnd start -> start + qc <= p -> Bnd (p - qc) -> (triple = false -> qc = 0) -> (length l < fuel)%nat ->
  fstr_post triple start p (fstr_loop fuel q triple raw start l p qc acc).
Proof.
  induction fuel; intros q triple raw start l p qc acc WQ H BS LS BQ QC LF; [lia|].
  cbn [fstr_loop]. pose proof (At_bnd _ _ H) as BP. destruct l as [|c t].
  { cbn. repeat split; try discriminate; try assumption; lia. }
  pose proof (w_pos c) as Wc. pose proof (At_cons _ _ _ H) as H1. cbn [length] in LF.
  assert (CONT : forall t' p' acc', At p' t' -> p < p' -> fstr_post triple start p (fstr_loop fuel q triple raw start t' p' 0 acc')).
  { intros t' p' acc' A' L'.
    assert (LL : (length t' < fuel)%nat) by (pose proof (At_lt_length _ _ _ _ H A' L'); cbn [length] in *; lia).
    eapply fstr_post_mono with (p' := p'); [lia|].
    apply IHfuel; try assumption; try lia; try (intros; reflexivity).
    rewrite N.sub_0_r. eapply At_bnd; eauto. }
  destruct (c =? 123) eqn:C123.
  { eqb_subst. change (w 123) with 1 in *. replace (p + 1 - 1) with p by lia.
    assert (FX : fstr_post triple start p (FExprStart (rev acc) p (123 :: t))).
    { cbn. repeat split; try assumption; try lia. now exists t. }
    destruct t as [|d t2]; [exact FX|]. destruct (d =? 123); [|exact FX].
    apply CONT; [now apply At_cons | pose proof (w_pos d); lia]. }
  destruct (c =? 125) eqn:C125.
  { eqb_subst. change (w 125) with 1 in *. replace (p + 1 - 1) with p by lia.
    assert (FX : fstr_post triple start p (FErr EInvalidInput p (p + 1))).
    { cbn. repeat split; try discriminate; try assumption; try lia. eapply At_bnd; eauto. }
    destruct t as [|d t2]; [exact FX|]. destruct (d =? 125); [|exact FX].
    apply CONT; [now apply At_cons | pose proof (w_pos d); lia]. }
  destruct (c =? q) eqn:CQ.
  { eqb_subst. rewrite WQ in *. destruct triple.
    - destruct (qc =? 2) eqn:Q2.
      + eqb_subst. cbn. replace (p + 1 - 3) with (p - 2) by lia. repeat split; try assumption; lia.
      + assert (LL : (length t < fuel)%nat) by lia.
        eapply fstr_post_mono with (p' := p + 1); [lia|].
        apply IHfuel; try assumption; try lia; try (intros; discriminate).
        replace (p + 1 - (qc + 1)) with (p - qc) by lia. assumption.
    - specialize (QC eq_refl). subst qc. cbn. replace (p + 1 - 1) with p by lia.
      repeat split; try assumption; lia. }
  destruct ((c =? 92) && negb raw) eqn:ESC.
  { apply andb_true_iff in ESC. destruct ESC as [C92 _]. eqb_subst. change (w 92) with 1 in *.
    pose proof (escape_At false _ _ H1) as X.
    destruct (escape false (p + 1) t) as [out p2 t2|p2 t2]; cbn in X; destruct X as [X1 X2].
    - apply CONT; [assumption | lia].
    - cbn [fstr_post]. destruct fstring_escape_span_fixed.
      + replace (p + 1 - 1) with p by lia. repeat split; try discriminate; try assumption; try lia. eapply At_bnd; eauto.
      + repeat split; try discriminate; try lia. eapply At_bnd; eauto. }
  destruct (c =? 92) eqn:C92.
  { eqb_subst. change (w 92) with 1 in *. destruct t as [|c2 t2].
    - apply CONT; [assumption | lia].
    - apply CONT; [now apply At_cons | pose proof (w_pos c2); lia]. }
  destruct ((c =? 10) && negb triple) eqn:NL.
  { cbn. repeat split; try discriminate; try assumption; try lia. eapply At_bnd; eauto. }
  destruct (c =? 13); apply CONT; try assumption; lia.
Qed.

(* ---------- chains of lexemes ---------- *)

(* lexemes in order between lo and hi, all on boundaries *)
Fixpoint chain (lo hi : N) (ts : list lexeme) : Prop :=
  match ts with
  | [] => lo <= hi
  | (l, _, r) :: t => lo <= l /\ l <= r /\ Bnd l /\ Bnd r /\ chain r hi t
  end.

Lemma chain_le : forall ts lo hi, chain lo hi ts -> lo <= hi.
Proof.
  induction ts as [|[[l k] r] t]; intros lo hi H; cbn [chain] in H; [assumption|].
  destruct H as (A & B & _ & _ & C). apply IHt in C. lia.
Qed.

Lemma chain_weaken : forall ts lo hi lo' hi', chain lo hi ts -> lo' <= lo -> hi <= hi' -> chain lo' hi' ts.
Proof.
  induction ts as [|[[l k] r] t]; intros lo hi lo' hi' H L1 L2; cbn [chain] in *; [lia|].
  destruct H as (A & B & C & D & E). repeat split; try assumption; try lia. eapply IHt; eauto. lia.
Qed.

Lemma chain_app : forall a lo mid hi b, chain lo mid a -> chain mid hi b -> chain lo hi (a ++ b).
Proof.
  induction a as [|[[l k] r] t]; intros lo mid hi b H1 H2; cbn [chain app] in *.
  - eapply chain_weaken; eauto. lia.
  - destruct H1 as (A & B & C & D & E). repeat split; try assumption. eapply IHt; eauto.
Qed.

Lemma chain_one : forall lo l k r, lo <= l -> l <= r -> Bnd l -> Bnd r -> chain lo r [(l, k, r)].
Proof. intros. cbn. repeat split; try assumption; lia. Qed.

Lemma chain_repeat : forall n x k, Bnd x -> chain x x (repeat (x, k, x) n).
Proof. induction n; intros; cbn [repeat chain]; [lia|]. repeat split; try assumption; try lia. now apply IHn. Qed.

(* ---------- calculate_indent ---------- *)

Lemma ind_loop_ok : forall l p incom cstart lastcr sp tb istart coms lo hi0,
  At p l -> chain lo hi0 (rev coms) -> hi0 <= istart -> Bnd istart -> istart <= p ->
  (incom = true -> Bnd cstart /\ istart <= cstart /\ cstart < p /\ (lastcr = true -> Bnd (p - 1) /\ cstart < p - 1)) ->
  match ind_loop l p incom cstart lastcr sp tb istart coms with
  | IndEof p' c' => At p' [] /\ p <= p' /\ chain lo p' (rev c')
  | IndBlank p' l' c' => At p' l' /\ p <= p' /\ chain lo p' (rev c')
  | IndLine p' l' _ _ is' c' => At p' l' /\ p <= p' /\ chain lo is' (rev c') /\ Bnd is' /\ is' <= p'
  end.
Proof.
  induction l as [|c t]; intros p incom cstart lastcr sp tb istart coms lo hi0 H CH L0 BI LI IC; cbn [ind_loop].
  - pose proof (At_bnd _ _ H) as BP. destruct incom.
    + destruct (IC eq_refl) as (BC & L1 & L2 & L3).
      split; [assumption|]. split; [lia|]. cbn [rev]. eapply chain_app; [exact CH|].
      unfold mk_comment. destruct lastcr.
      * destruct (L3 eq_refl). eapply chain_weaken; [apply chain_one with (lo := hi0)| |]; try eassumption; lia.
      * apply chain_one; try assumption; lia.
    + split; [assumption|]. split; [lia|]. eapply chain_weaken; eauto; lia.
  - pose proof (At_bnd _ _ H) as BP. pose proof (w_pos c) as Wc. pose proof (At_cons _ _ _ H) as H1.
    assert (NOC : forall sp' tb', w c = 1 ->
      match ind_loop t (p + 1) false 0 false sp' tb' istart coms with
      | IndEof p' c' => At p' [] /\ p <= p' /\ chain lo p' (rev c')
      | IndBlank p' l' c' => At p' l' /\ p <= p' /\ chain lo p' (rev c')
      | IndLine p' l' _ _ is' c' => At p' l' /\ p <= p' /\ chain lo is' (rev c') /\ Bnd is' /\ is' <= p'
      end).
    { intros sp' tb' W1. rewrite W1 in H1.
      specialize (IHt (p + 1) false 0 false sp' tb' istart coms lo hi0 H1 CH L0 BI ltac:(lia) ltac:(discriminate)).
      destruct (ind_loop _ _ _ _ _ _ _ _ _); intuition lia. }
    destruct incom.
    + destruct (IC eq_refl) as (BC & L1 & L2 & L3).
      destruct (c =? 10) eqn:C10.
      * eqb_subst. change (w 10) with 1 in H1.
        assert (CH' : chain lo p (rev (mk_comment cstart p lastcr :: coms))).
        { cbn [rev]. eapply chain_app; [exact CH|]. unfold mk_comment. destruct lastcr.
          - destruct (L3 eq_refl). eapply chain_weaken; [apply chain_one with (lo := hi0)| |]; try eassumption; lia.
          - apply chain_one; try assumption; lia. }
        specialize (IHt (p + 1) false 0 false sp tb (p + 1) _ lo p H1 CH' ltac:(lia) (At_bnd _ _ H1) ltac:(lia) ltac:(discriminate)).
        destruct (ind_loop _ _ _ _ _ _ _ _ _); intuition lia.
      * assert (IC' : true = true -> Bnd cstart /\ istart <= cstart /\ cstart < p + w c /\ ((c =? 13) = true -> Bnd (p + w c - 1) /\ cstart < p + w c - 1)).
        { intros _. split; [assumption|]. split; [lia|]. split; [lia|]. intro C13. eqb_subst. change (w 13) with 1. replace (p + 1 - 1) with p by lia. split; [assumption | lia]. }
        specialize (IHt (p + w c) true cstart (c =? 13) sp tb istart coms lo hi0 H1 CH L0 BI ltac:(lia) IC').
        destruct (ind_loop _ _ _ _ _ _ _ _ _); intuition lia.
    + destruct (c =? 32) eqn:C32; [eqb_subst; apply NOC; reflexivity|].
      destruct (c =? 9) eqn:C9; [eqb_subst; apply NOC; reflexivity|].
      destruct (c =? 10) eqn:C10.
      { split; [assumption|]. split; [lia|]. eapply chain_weaken; eauto; lia. }
      destruct (c =? 13) eqn:C13; [eqb_subst; apply NOC; reflexivity|].
      destruct (c =? 35) eqn:C35.
      * eqb_subst. change (w 35) with 1 in H1.
        assert (IC' : true = true -> Bnd p /\ istart <= p /\ p < p + 1 /\ (false = true -> Bnd (p + 1 - 1) /\ p < p + 1 - 1)).
        { intros _. split; [assumption|]. split; [lia|]. split; [lia|]. discriminate. }
        specialize (IHt (p + 1) true p false 0 0 istart coms lo hi0 H1 CH L0 BI ltac:(lia) IC').
        destruct (ind_loop _ _ _ _ _ _ _ _ _); intuition lia.
      * split; [assumption|]. split; [lia|]. split; [eapply chain_weaken; eauto; lia|]. split; [assumption | lia].
Qed.

Lemma calculate_indent_ok : forall tstart p l lv,
  At p l -> Bnd tstart -> tstart <= p ->
  match calculate_indent tstart p l lv with
  | IOk p' l' lv' toks => At p' l' /\ p <= p' /\ chain p p' toks
  | IErr toks (e, lo', hi') =>
      chain p (blen input) toks /\ e <> EFuel /\ e <> EInvalidEscapeSequenceF /\ lo' <= hi' /\ Bnd lo' /\ Bnd hi' /\ tstart <= lo'
  end.
Proof.
  intros tstart p l lv H BT LT. unfold calculate_indent.
  pose proof (At_bnd _ _ H) as BP.
  pose proof (ind_loop_ok l p false 0 false 0 0 p [] p p H ltac:(cbn; lia) ltac:(lia) BP ltac:(lia) ltac:(discriminate)) as X.
  destruct (ind_loop l p false 0 false 0 0 p []) as [p' c'|p' l' c'|p' l' sp tb is' c'].
  - exact X.
  - exact X.
  - destruct X as (A & L & CH & BI & LI). pose proof (At_le _ _ A) as LE. pose proof (At_bnd _ _ A) as BP'.
    destruct (0 <? tb).
    { split; [eapply chain_weaken; eauto; lia|]. repeat split; try discriminate; try assumption; lia. }
    destruct (hd 0 lv <? sp + tb * Z.to_N indent_tab_width).
    { split; [assumption|]. split; [lia|]. eapply chain_app; [exact CH|]. apply chain_one; try assumption; lia. }
    destruct (sp + tb * Z.to_N indent_tab_width <? hd 0 lv).
    + destruct (pop_levels (tl lv) _ 1) as [[n lv']|].
      * split; [assumption|]. split; [lia|]. eapply chain_app; [exact CH|].
        eapply chain_weaken; [apply chain_repeat; assumption | lia | lia].
      * split; [eapply chain_weaken; eauto; lia|]. repeat split; try discriminate; try assumption; lia.
    + split; [assumption|]. split; [lia|]. eapply chain_weaken; eauto; lia.
Qed.

(* ---------- Lexer::next ---------- *)

Definition fq_ok (f : fstate) : Prop := w (fq f) = 1.
Definition inv (s : st) : Prop := At (pos s) (rest s) /\ Forall fq_ok (fstack s).

Definition err_ok (lo0 : N) (e : error) : Prop :=
  let '(k, lo, hi) := e in
  k <> EFuel /\ lo0 <= lo /\ lo <= hi /\ Bnd hi /\
  match k with EInvalidEscapeSequenceF => if fstring_escape_span_fixed then Bnd lo else hi = lo + 1 | _ => Bnd lo end.

Definition step_post (s : st) (r : step_res) : Prop :=
  match r with
  | Go toks s' => inv s' /\ pos s < pos s' /\ chain (pos s) (pos s') toks
  | Stop toks e => chain (pos s) (blen input) toks /\ match e with Some e => err_ok (pos s) e | None => True end
  end.

Lemma err_ok_notF : forall lo0 k lo hi,
  k <> EFuel -> k <> EInvalidEscapeSequenceF -> lo0 <= lo -> lo <= hi -> Bnd lo -> Bnd hi -> err_ok lo0 (k, lo, hi).
Proof. intros. cbn. repeat split; try assumption. destruct k; try assumption; congruence. Qed.

Lemma upd_top_ok : forall s g, (forall f, fq (g f) = fq f) -> Forall fq_ok (fstack s) -> Forall fq_ok (upd_top s g).
Proof.
  intros s g G H. unfold upd_top. destruct (fstack s) as [|f r]; [constructor|].
  inversion H; subst. constructor; [unfold fq_ok in *; now rewrite G | assumption].
Qed.

Lemma fstring_step_ok : forall s f frest, inv s -> fstack s = f :: frest -> step_post s (fstring_step s f frest).
Proof.
  intros s f frest [A F] EF. rewrite EF in F. inversion F as [|f0 r0 FQ FR]; subst.
  pose proof (At_bnd _ _ A) as BP. pose proof (At_le _ _ A) as LE.
  unfold fstring_step.
  pose proof (fstr_loop_ok (S (length (rest s))) (fq f) (ftriple f) (fraw f) (pos s) (rest s) (pos s) 0 []
                FQ A BP ltac:(lia) ltac:(now rewrite N.sub_0_r) ltac:(reflexivity) ltac:(lia)) as X.
  destruct (fstr_loop _ _ _ _ _ _ _ _ _) as [text bp l'|text pend l'|e lo hi]; cbn [fstr_post] in X.
  - destruct X as (A' & L1 & L2 & [t ET]). subst l'. pose proof (At_bnd _ _ A') as BB.
    apply At_cons1 in A'; [|reflexivity]. pose proof (At_bnd _ _ A') as BB1.
    assert (I' : inv (mkf s (bp + 1) (tl (123 :: t)) (parens s) (set_brace 1 f :: frest))).
    { split; cbn; [assumption|]. constructor; assumption. }
    destruct text; cbn [step_post]; (split; [exact I'|]); cbn [pos mkf]; (split; [lia|]); cbn [chain]; repeat split; try assumption; lia.
  - destruct X as (A' & L1 & B1 & L2 & L3). pose proof (At_bnd _ _ A') as BB.
    assert (I' : inv (mkf s pend l' (parens s) frest)) by (split; cbn; assumption).
    destruct text; cbn [step_post]; (split; [exact I'|]); cbn [pos mkf]; (split; [lia|]); cbn [chain]; repeat split; try assumption; lia.
  - destruct X as (N1 & L1 & B1 & L2 & M). cbn. split; [lia|]. repeat split; assumption.
Qed.

Lemma newline_step_ok : forall s tstart p' r', inv s -> At p' r' -> Bnd tstart -> pos s <= tstart -> tstart < p' ->
  step_post s (newline_step s tstart p' r').
Proof.
  intros s tstart p' r' [A F] A' BT L1 L2. unfold newline_step.
  pose proof (At_bnd _ _ A') as BP'. pose proof (At_le _ _ A) as LE.
  destruct ((parens s =? 0)%Z && negb (in_fstring_expr_mode s)).
  - pose proof (calculate_indent_ok tstart p' r' (levels s) A' BT ltac:(lia)) as X.
    destruct (calculate_indent tstart p' r' (levels s)) as [p2 l2 lv toks|toks [[e lo] hi]].
    + destruct X as (A2 & L3 & CH). cbn [step_post]. split; [split; cbn; assumption|]. cbn [pos]. split; [lia|].
      cbn [chain]. repeat split; try assumption; lia.
    + destruct X as (CH & N1 & N2 & L3 & B1 & B2 & L4). cbn [step_post chain]. split; [lia|].
      apply err_ok_notF; try assumption; lia.
  - cbn [step_post]. split; [split; cbn; assumption|]. cbn [pos mk chain]. lia.
Qed.

Lemma starts2_At : forall q p l, w q = 1 -> At p l -> starts2 q l = true -> At (p + 2) (tl (tl l)).
Proof.
  intros q p l WQ H S. destruct l as [|a [|b t]]; try discriminate. cbn in S.
  apply andb_true_iff in S. destruct S as [S1 S2]. eqb_subst.
  apply At_cons, At_cons in H. rewrite WQ in H. cbn [tl]. now replace (p + 2) with (p + 1 + 1) by lia.
Qed.

Lemma string_step_ok : forall s tstart p' r' sp, inv s -> At p' r' -> Bnd tstart -> pos s <= tstart -> tstart < p' ->
  is_quote (last sp 0) = true -> step_post s (string_step s tstart p' r' sp).
Proof.
  intros s tstart p' r' sp [A F] A' BT L1 L2 Q. unfold string_step.
  pose proof (is_quote_w1 _ Q) as WQ. pose proof (At_le _ _ A) as LE.
  assert (A2 : At (if starts2 (last sp 0) r' then p' + 2 else p') (if starts2 (last sp 0) r' then tl (tl r') else r')).
  { destruct (starts2 (last sp 0) r') eqn:S2; [now apply (starts2_At (last sp 0)) | assumption]. }
  assert (L3 : p' <= (if starts2 (last sp 0) r' then p' + 2 else p')) by (destruct (starts2 _ _); lia).
  set (p2 := if starts2 (last sp 0) r' then p' + 2 else p') in *.
  set (r2 := if starts2 (last sp 0) r' then tl (tl r') else r') in *.
  pose proof (At_bnd _ _ A2) as B2.
  destruct (has 102 sp).
  - cbn [step_post]. split; [split; cbn; [assumption | constructor; [exact WQ | assumption]]|].
    cbn [pos mkf]. split; [lia|]. apply chain_weaken with (lo := tstart) (hi := p2); [apply chain_one; try assumption; lia | lia | lia].
  - pose proof (str_loop_ok (S (length r2)) (last sp 0) (starts2 (last sp 0) r')
                  (if has 98 sp then Nat.leb 3 (length sp) else Nat.eqb (length sp) 2) (has 98 sp) (in_fstring_expr_mode s)
                  tstart r2 p2 0 false [] A2 BT ltac:(lia) ltac:(lia)) as X.
    destruct (str_loop _ _ _ _ _ _ _ _ _ _ _ _) as [content p3 r3|e lo hi].
    + destruct X as (A3 & L4 & _). cbn [step_post]. split; [split; cbn; assumption|]. cbn [pos mk]. split; [lia|].
      apply chain_weaken with (lo := tstart) (hi := p3); [apply chain_one; try assumption; try lia; eapply At_bnd; eauto | lia | lia].
    + destruct X as (N1 & N2 & L4 & B3 & B4 & L5). cbn [step_post chain]. split; [lia|].
      apply err_ok_notF; try assumption; lia.
Qed.

Lemma token_step_ok : forall s i tstart p' r', inv s -> At p' r' -> Bnd tstart -> pos s <= tstart -> tstart < p' ->
  step_post s (token_step s i tstart p' r').
Proof.
  intros s i tstart p' r' I A' BT L1 L2. unfold token_step. pose proof I as [A F].
  destruct (is_quote (last (spell i) 0)) eqn:Q; [now apply string_step_ok|].
  pose proof (At_bnd _ _ A') as BP'.
  assert (G : forall k par fs, Forall fq_ok fs -> step_post s (Go [(tstart, k, p')] (mkf s p' r' par fs))).
  { intros k par fs FS. cbn [step_post]. split; [split; cbn; assumption|]. cbn [pos mkf]. split; [lia|].
    cbn [chain]. repeat split; try assumption; lia. }
  assert (G' : forall k, step_post s (Go [(tstart, k, p')] (mk s p' r'))).
  { intros k. cbn [step_post]. split; [split; cbn; assumption|]. cbn [pos mk]. split; [lia|].
    cbn [chain]. repeat split; try assumption; lia. }
  destruct (list_eqb _ [123]).
  { apply G. destruct (in_fstring_expr_mode s); [apply upd_top_ok; [reflexivity | assumption] | assumption]. }
  destruct (list_eqb _ [40]).
  { apply G. apply upd_top_ok; [|assumption]. intro f. unfold track_paren. destruct (0 <? fbrace f); reflexivity. }
  destruct (list_eqb _ [91]).
  { apply G. apply upd_top_ok; [|assumption]. intro f. unfold track_bracket. destruct (0 <? fbrace f); reflexivity. }
  destruct (list_eqb _ [125]).
  { destruct (at_fstring_expr_top_level s); apply G; (apply upd_top_ok; [|assumption]); intro f; [reflexivity|].
    destruct (0 <? fbrace f); reflexivity. }
  destruct (list_eqb _ [41]).
  { apply G. apply upd_top_ok; [|assumption]. intro f. unfold track_paren. destruct (0 <? fbrace f); reflexivity. }
  destruct (list_eqb _ [93]).
  { apply G. apply upd_top_ok; [|assumption]. intro f. unfold track_bracket. destruct (0 <? fbrace f); reflexivity. }
  apply G'.
Qed.

Lemma scan_step_ok : forall s, inv s -> step_post s (scan_step s).
Proof.
  intros s I. pose proof I as [A F]. unfold scan_step.
  destruct (skip (rest s) (pos s)) as [tstart l] eqn:SK.
  destruct (skip_At _ _ _ _ A SK) as [A1 L1]. pose proof (At_bnd _ _ A1) as BT. pose proof (At_le _ _ A1) as LE.
  destruct l as [|c t].
  - apply At_nil in A1. subst tstart. cbn [step_post]. split; [|exact Logic.I].
    cbn [chain]. repeat split; try assumption; try lia. apply chain_repeat. assumption.
  - destruct (scan_tok c t tstart) as [[r p'] r'] eqn:ST.
    destruct (scan_tok_At _ _ _ _ _ _ A1 ST) as [A' L2]. pose proof (At_bnd _ _ A') as BP'.
    pose proof (At_le _ _ A') as LE'.
    assert (G' : forall k, step_post s (Go [(tstart, k, p')] (mk s p' r'))).
    { intros k. cbn [step_post]. split; [split; cbn; assumption|]. cbn [pos mk]. split; [lia|].
      cbn [chain]. repeat split; try assumption; lia. }
    assert (E' : forall k lo hi, k <> EFuel -> k <> EInvalidEscapeSequenceF -> tstart <= lo -> lo <= hi -> Bnd lo -> Bnd hi ->
                 step_post s (Stop [] (Some (k, lo, hi)))).
    { intros. cbn [step_post chain]. split; [lia|]. apply err_ok_notF; try assumption; lia. }
    destruct r as [i| | | | | |lz| | |]; try apply G'; try (apply E'; try discriminate; try assumption; lia).
    + now apply token_step_ok.
    + now apply newline_step_ok.
    + destruct lz; [apply E'; try discriminate; try assumption; lia | apply G'].
Qed.

Lemma step_ok : forall s, inv s -> step_post s (step s).
Proof.
  intros s I. unfold step. destruct (fstack s) as [|f frest] eqn:EF; [now apply scan_step_ok|].
  destruct (fbrace f =? 0); [now apply fstring_step_ok|].
  destruct (bang_here s) eqn:B; [|now apply scan_step_ok].
  destruct I as [A F]. unfold bang_here in B. apply andb_true_iff in B. destruct B as [_ B].
  destruct (rest s) as [|c t] eqn:ER; [discriminate|]. apply andb_true_iff in B. destruct B as [C33 _]. eqb_subst.
  pose proof (At_bnd _ _ A) as BP. apply At_cons1 in A; [|reflexivity]. pose proof (At_bnd _ _ A) as BP1.
  cbn [step_post]. split; [split; cbn; [assumption | assumption]|]. cbn [pos mk]. split; [lia|].
  cbn [chain]. repeat split; try assumption; lia.
Qed.

Lemma err_ok_weaken : forall lo lo' e, err_ok lo e -> lo' <= lo -> err_ok lo' e.
Proof. intros lo lo' [[k l] h] H L. cbn in *. destruct H as (A & B & C & D & E). repeat split; try assumption. lia. Qed.

Definition out_ok (lo : N) (o : list lexeme * option error) : Prop :=
  chain lo (blen input) (fst o) /\ match snd o with Some e => err_ok lo e | None => True end.

Lemma run_ok : forall fuel s acc lo,
  inv s -> (length (rest s) < fuel)%nat -> chain lo (pos s) (rev acc) -> out_ok lo (run fuel s acc).
Proof.
  induction fuel; intros s acc lo I LF CH; [lia|]. cbn [run].
  pose proof (step_ok s I) as X. pose proof (chain_le _ _ _ CH) as LL.
  destruct (step s) as [toks s'|toks e]; cbn [step_post] in X.
  - destruct X as (I' & L & CH'). apply IHfuel; [assumption| |].
    + destruct I as [A _]. destruct I' as [A' _]. pose proof (At_lt_length _ _ _ _ A A' L). lia.
    + rewrite rev_app_distr, rev_involutive. eapply chain_app; eauto.
  - destruct X as (CH' & E). split; cbn [fst snd].
    + eapply chain_app; eauto.
    + destruct e; [eapply err_ok_weaken; eauto | exact Logic.I].
Qed.

Lemma lex_ok : out_ok 0 (lex input).
Proof.
  unfold lex. pose proof At_start as A0. pose proof (At_bnd _ _ A0) as B0.
  pose proof (calculate_indent_ok 0 0 input [] A0 B0 ltac:(lia)) as X.
  destruct (calculate_indent 0 0 input []) as [p l lv toks|toks [[e lo] hi]].
  - destruct X as (A & L & CH). apply run_ok; [split; cbn; [assumption | constructor] | cbn; lia |].
    rewrite rev_involutive. exact CH.
  - destruct X as (CH & N1 & N2 & L & B1 & B2 & L2). split; cbn [fst snd]; [assumption|].
    apply err_ok_notF; try assumption; lia.
Qed.

Lemma chain_tok_ok : forall ts lo hi, chain lo hi ts -> hi <= blen input -> Forall (tok_ok input) ts /\ ordered lo ts.
Proof.
  induction ts as [|[[l k] r] t]; intros lo hi H LE; cbn [chain] in H.
  - split; [constructor | exact Logic.I].
  - destruct H as (A & B & C & D & E). destruct (IHt _ _ E LE) as [F O]. split.
    + constructor; [|assumption]. cbn. repeat split; try assumption. now apply Bnd_le.
    + cbn. repeat split; assumption.
Qed.

(* ---------- a literal's / identifier's span is exactly its own text ---------- *)

Lemma list_eqb_eq : forall a b, list_eqb a b = true -> a = b.
Proof.
  induction a; destruct b; cbn [list_eqb]; intro H; try discriminate; [reflexivity|].
  apply andb_true_iff in H. destruct H as [H1 H2]. apply N.eqb_eq in H1. subst. f_equal. now apply IHa.
Qed.

Lemma is_prefix_app : forall a l, is_prefix a l = true -> l = a ++ skipn (length a) l.
Proof.
  induction a; destruct l; cbn [is_prefix]; intro H; try discriminate; try reflexivity.
  apply andb_true_iff in H. destruct H as [H1 H2]. apply N.eqb_eq in H1. subst. cbn [length skipn app]. f_equal. now apply IHa.
Qed.

Lemma find_spelling_from_nth : forall s tbl i j, find_spelling_from s tbl i = Some j ->
  i <= j /\ nth (N.to_nat (j - i)) tbl [] = s.
Proof.
  induction tbl as [|x r]; intros i j H; cbn [find_spelling_from] in H; [discriminate|].
  destruct (list_eqb x s) eqn:E.
  - inversion H; subst. split; [lia|]. rewrite N.sub_diag. cbn. now apply list_eqb_eq.
  - destruct (IHr _ _ H) as [L Nn]. split; [lia|].
    replace (N.to_nat (j - i)) with (S (N.to_nat (j - (i + 1)))) by lia. exact Nn.
Qed.

Lemma find_spelling_spell : forall s i, find_spelling s = Some i -> spell i = s.
Proof. intros s i H. destruct (find_spelling_from_nth _ _ _ _ H) as [_ E]. unfold spell. now rewrite N.sub_0_r in E. Qed.

Lemma longest_from_prefix : forall l tbl i best j n,
  longest_from l tbl i best = Some (j, n) ->
  (forall j' n', best = Some (j', n') -> i <= j' + N.of_nat (length tbl) + 0 -> True) ->
  best = Some (j, n) \/ (i <= j /\ exists x, nth (N.to_nat (j - i)) tbl [] = x /\ is_prefix x l = true /\ length x = n).
Proof.
  induction tbl as [|x r]; intros i best j n H _; cbn [longest_from] in H; [now left|].
  destruct (IHr _ _ _ _ H (fun _ _ _ _ => I)) as [B|[L [y [Ny [Py Ly]]]]].
  - destruct (is_prefix x l && negb (Nat.eqb (length x) 0)) eqn:P; [|now left].
    apply andb_true_iff in P. destruct P as [P _].
    assert (HERE : Some (i, length x) = Some (j, n) -> best = Some (j, n) \/ (i <= j /\ exists x0, nth (N.to_nat (j - i)) (x :: r) [] = x0 /\ is_prefix x0 l = true /\ length x0 = n)).
    { intro E. inversion E; subst. right. split; [lia|]. exists x. rewrite N.sub_diag. cbn. auto. }
    destruct best as [[b1 b2]|]; [destruct (Nat.ltb b2 (length x)); [now apply HERE | now left] | now apply HERE].
  - right. split; [lia|]. exists y. replace (N.to_nat (j - i)) with (S (N.to_nat (j - (i + 1)))) by lia. auto.
Qed.

(* a `#[token]` lexeme covers exactly its spelling; an identifier covers a maximal run of identifier characters *)
Lemma scan_tok_text : forall c t p r p' l', scan_tok c t p = (r, p', l') ->
  match r with
  | RTok i => c :: t = spell i ++ l'
  | RIdent | RReserved => exists word, c :: t = word ++ l' /\ forallb is_alnum_ word = true /\ is_alpha_ c = true /\
                                  match l' with d :: _ => is_alnum_ d = false | [] => True end
  | _ => True
  end.
Proof.
  intros c t p r p' l' E. unfold scan_tok in E.
  destruct (c =? 35). { destruct (take_while _ t (p + 1)). inversion E; subst. exact Logic.I. }
  destruct (c =? 9). { destruct (take_while _ t (p + 1)). inversion E; subst. exact Logic.I. }
  destruct (c =? 10). { inversion E; subst. exact Logic.I. }
  destruct (c =? 13). { destruct t as [|d t2]; [|destruct (d =? 10)]; inversion E; subst; exact Logic.I. }
  destruct (is_alpha_ c) eqn:AL.
  { destruct (span_chars is_alnum_ (c :: t)) as [word r1] eqn:SC. pose proof (span_chars_app _ _ _ _ SC) as EL.
    assert (ALL : forallb is_alnum_ word = true /\ match r1 with d :: _ => is_alnum_ d = false | [] => True end).
    { clear E EL. revert word r1 SC. generalize (c :: t). induction l as [|x l IH]; intros word r1 SC; cbn [span_chars] in SC.
      - inversion SC; subst. split; [reflexivity | exact Logic.I].
      - destruct (is_alnum_ x) eqn:X.
        + destruct (span_chars is_alnum_ l) as [a r0]. inversion SC; subst. destruct (IH _ _ eq_refl) as [A B].
          split; [cbn; now rewrite X, A | assumption].
        + inversion SC; subst. split; [reflexivity | assumption]. }
    destruct ALL as [ALL NXT].
    assert (PLAIN : forall rr, rr = (r, p', l') ->
              rr = match find_spelling word with
                   | Some i => (RTok i, p + blen word, r1)
                   | None => if existsb (list_eqb word) reserved then (RReserved, p + blen word, r1) else (RIdent, p + blen word, r1)
                   end ->
              match r with
              | RTok i => c :: t = spell i ++ l'
              | RIdent | RReserved => exists word, c :: t = word ++ l' /\ forallb is_alnum_ word = true /\ true = true /\
                                              match l' with d :: _ => is_alnum_ d = false | [] => True end
              | _ => True
              end).
    { intros rr E1 E2. rewrite E1 in E2. destruct (find_spelling word) eqn:FS.
      - inversion E2; subst. now rewrite (find_spelling_spell _ _ FS).
      - destruct (existsb _ reserved); inversion E2; subst; exists word; auto. }
    destruct r1 as [|q r2]; [eapply PLAIN; eauto|].
    destruct (is_quote q); [|eapply PLAIN; eauto].
    destruct (find_spelling (word ++ [q])) eqn:FS2; [|eapply PLAIN; eauto].
    inversion E; subst. rewrite (find_spelling_spell _ _ FS2), EL, <- app_assoc. reflexivity. }
  destruct (is_digit c). { unfold scan_number in E. repeat (match type of E with context [match ?x with _ => _ end] => destruct x end); inversion E; subst; exact Logic.I. }
  match type of E with (if ?b then _ else _) = _ => destruct b end.
  { destruct (take_while is_digit t (p + 1)). destruct (opt_exp _ _). inversion E; subst. exact Logic.I. }
  destruct (longest_from (c :: t) spellings 0 None) as [[i n]|] eqn:LF; [|inversion E; subst; exact Logic.I].
  inversion E; subst. destruct (longest_from_prefix _ _ _ _ _ _ LF (fun _ _ _ _ => Logic.I)) as [B|[_ [x [Nx [Px Lx]]]]]; [discriminate|].
  rewrite N.sub_0_r in Nx. unfold spell. rewrite Nx. rewrite <- Lx. now apply is_prefix_app.
Qed.

End WithInput.

(* ---------- the user-level theorems about spans ---------- *)

Theorem lex_total : forall input toks k l r, lex input = (toks, Some (k, l, r)) -> k <> EFuel.
Proof.
  intros input toks k l r E. pose proof (lex_ok input) as [_ X]. rewrite E in X. cbn in X. tauto.
Qed.

Theorem lex_spans_ok : forall input toks e, lex input = (toks, e) ->
  Forall (tok_ok input) toks /\ ordered 0 toks /\
  match e with
  | None => True
  | Some (k, l, r) =>
      span_in_file input l r /\ boundary input r /\
      (k <> EInvalidEscapeSequenceF \/ fstring_escape_span_fixed = true -> boundary input l) /\
      (k = EInvalidEscapeSequenceF -> fstring_escape_span_fixed = false -> r = l + 1)
  end.
Proof.
  intros input toks e E. pose proof (lex_ok input) as [C X]. rewrite E in C, X. cbn [fst snd] in C, X.
  destruct (chain_tok_ok input _ _ _ C ltac:(lia)) as [F O]. split; [assumption|]. split; [assumption|].
  destruct e as [[[k l] r]|]; [|exact I]. cbn in X. destruct X as (N1 & L0 & L1 & B & M).
  split; [split; [assumption | now apply Bnd_le]|]. split; [assumption|]. split.
  - intros [NF|FX]; destruct k; try assumption; try congruence; rewrite FX in M; assumption.
  - intros EF FX. subst k. rewrite FX in M. assumption.
Qed.

Lemma blen_ascii : forall l, ascii_only l -> blen l = N.of_nat (length l).
Proof.
  induction l; intro H; cbn [blen length]; [reflexivity|].
  rewrite w_ascii by (apply H; now left). rewrite IHl by (intros c Hc; apply H; now right). lia.
Qed.

Theorem ascii_all_boundaries : forall input p, ascii_only input -> p <= blen input -> boundary input p.
Proof.
  intros input p H L. exists (N.to_nat p).
  assert (A : ascii_only (firstn (N.to_nat p) input)).
  { intros c Hc. apply H. rewrite <- (firstn_skipn (N.to_nat p) input). apply in_or_app. now left. }
  rewrite (blen_ascii _ A), firstn_length. rewrite (blen_ascii _ H) in L. lia.
Qed.

(* once the error span of lex_fstring_content starts at the backslash, every error span is on boundaries *)
Theorem error_span_boundary_when_repaired : fstring_escape_span_fixed = true ->
  forall input toks k l r, lex input = (toks, Some (k, l, r)) -> span_ok input l r.
Proof.
  intros FX input toks k l r E. destruct (lex_spans_ok input toks _ E) as (_ & _ & [L R] & B & BL & _).
  repeat split; try assumption. apply BL. now right.
Qed.

(* the witness of finding F2:  x = f"\xé"  *)
Definition f2_witness : list N := [120; 32; 61; 32; 102; 34; 92; 120; 233; 34].

Theorem error_span_boundary_refuted : fstring_escape_span_fixed = false ->
  exists input toks k l r, lex input = (toks, Some (k, l, r)) /\ ~ boundary input l.
Proof.
  intro FX. vm_compute in FX.
  first [ discriminate FX
        | exists f2_witness; eexists; eexists; eexists; eexists; (split; [vm_compute; reflexivity|]);
          intros [k E]; do 11 (destruct k; [vm_compute in E; discriminate|]); vm_compute in E; discriminate ].
Qed.

(* ---------- INDENT / DEDENT balance and the indentation stack ---------- *)

Definition plain (t : lexeme) : Prop := is_indent t = false /\ is_dedent t = false.

Lemma count_app : forall f a b, count f (a ++ b) = (count f a + count f b)%nat.
Proof. intros. unfold count. rewrite filter_app, app_length. reflexivity. Qed.

Lemma count_rev : forall f a, count f (rev a) = count f a.
Proof.
  intros f a. unfold count. induction a; cbn [rev filter]; [reflexivity|].
  rewrite filter_app, app_length, IHa. cbn [filter]. destruct (f a); cbn [length]; lia.
Qed.

Lemma count_plain : forall ts, Forall plain ts -> count is_indent ts = 0%nat /\ count is_dedent ts = 0%nat.
Proof.
  induction 1 as [|t ts [P1 P2] _ [I1 I2]]; [split; reflexivity|].
  unfold count in *. cbn [filter]. rewrite P1, P2. split; assumption.
Qed.

Lemma count_dedents : forall n x, count is_dedent (repeat (x, KDedent, x) n) = n /\ count is_indent (repeat (x, KDedent, x) n) = 0%nat.
Proof. induction n; intro x; cbn; [split; reflexivity|]. destruct (IHn x) as [A B]. unfold count in *. cbn. split; [now rewrite A | assumption]. Qed.

Lemma ind_loop_plain : forall l p incom cstart lastcr sp tb istart coms, Forall plain coms ->
  match ind_loop l p incom cstart lastcr sp tb istart coms with
  | IndEof _ c' | IndBlank _ _ c' | IndLine _ _ _ _ _ c' => Forall plain c'
  end.
Proof.
  induction l as [|c t]; intros p incom cstart lastcr sp tb istart coms H; cbn [ind_loop].
  - destruct incom; [constructor; [split; reflexivity | assumption] | assumption].
  - destruct incom.
    + destruct (c =? 10); apply IHt; [constructor; [split; reflexivity | assumption] | assumption].
    + destruct (c =? 32); [now apply IHt|]. destruct (c =? 9); [now apply IHt|]. destruct (c =? 10); [assumption|].
      destruct (c =? 13); [now apply IHt|]. destruct (c =? 35); [now apply IHt | assumption].
Qed.

Lemma pop_levels_ok : forall lv indent n m lv', pop_levels lv indent n = Some (m, lv') -> levels_ok lv ->
  (length lv + n = length lv' + m)%nat /\ levels_ok lv'.
Proof.
  induction lv as [|a r]; intros indent n m lv' E H; cbn [pop_levels] in E.
  - destruct (indent =? 0); inversion E; subst. split; [reflexivity | exact I].
  - destruct (a =? indent); [inversion E; subst; split; [reflexivity | assumption]|].
    destruct (indent <? a); [|discriminate]. cbn [levels_ok] in H. destruct H as (_ & _ & H).
    destruct (IHr _ _ _ _ E H) as [L O]. split; [cbn [length]; lia | assumption].
Qed.

Lemma calculate_indent_bal : forall tstart p l lv p' l' lv' toks,
  calculate_indent tstart p l lv = IOk p' l' lv' toks -> levels_ok lv ->
  (count is_indent toks + length lv = count is_dedent toks + length lv')%nat /\ levels_ok lv'.
Proof.
  intros tstart p l lv p' l' lv' toks E H. unfold calculate_indent in E.
  pose proof (ind_loop_plain l p false 0 false 0 0 p [] (Forall_nil _)) as P.
  destruct (ind_loop l p false 0 false 0 0 p []) as [q c'|q l2 c'|q l2 sp tb is' c'].
  - inversion E; subst. rewrite !count_rev. destruct (count_plain _ P) as [A B]. rewrite A, B. split; [reflexivity | assumption].
  - inversion E; subst. rewrite !count_rev. destruct (count_plain _ P) as [A B]. rewrite A, B. split; [reflexivity | assumption].
  - destruct (count_plain _ P) as [A B]. destruct (0 <? tb); [discriminate|].
    set (ind := sp + tb * Z.to_N indent_tab_width) in *. clearbody ind.
    destruct (hd 0 lv <? ind) eqn:GT.
    { inversion E; subst. rewrite !count_app, !count_rev, A, B. cbn. split; [lia|].
      apply N.ltb_lt in GT. repeat split; try assumption; lia. }
    destruct (ind <? hd 0 lv) eqn:LT.
    + destruct (pop_levels (tl lv) _ 1) as [[n lv2]|] eqn:PL; [|discriminate]. inversion E; subst.
      destruct lv as [|a r]; [apply N.ltb_lt in LT; cbn in LT; lia|]. cbn [tl] in PL. cbn [levels_ok] in H.
      destruct H as (_ & _ & H). destruct (pop_levels_ok _ _ _ _ _ PL H) as [L O].
      rewrite !count_app, !count_rev, A, B. destruct (count_dedents n is') as [D1 D2]. rewrite D1, D2.
      split; [cbn [length]; lia | assumption].
    + inversion E; subst. rewrite !count_rev, A, B. split; [reflexivity | assumption].
Qed.

Definition bal_post (s : st) (r : step_res) : Prop :=
  match r with
  | Go toks s' => (count is_indent toks + length (levels s) = count is_dedent toks + length (levels s'))%nat /\ levels_ok (levels s')
  | Stop toks None => (count is_indent toks + length (levels s) = count is_dedent toks)%nat
  | Stop _ (Some _) => True
  end.

Lemma go_plain1 : forall s k a b s', levels s' = levels s -> levels_ok (levels s) ->
  (match k with KIndent | KDedent => False | _ => True end) -> bal_post s (Go [(a, k, b)] s').
Proof. intros s k a b s' E H K. cbn. rewrite E. split; [|assumption]. destruct k; try contradiction; reflexivity. Qed.

Lemma step_bal : forall s, levels_ok (levels s) -> bal_post s (step s).
Proof.
  intros s H.
  assert (TOK : forall i tstart p' r', bal_post s (token_step s i tstart p' r')).
  { intros. unfold token_step, string_step.
    destruct (is_quote _).
    { destruct (has 102 _); [apply go_plain1; [reflexivity | assumption | exact I]|].
      destruct (str_loop _ _ _ _ _ _ _ _ _ _ _ _); [|exact I].
      destruct (has 98 _); apply go_plain1; try reflexivity; try assumption; exact I. }
    repeat (match goal with |- context [if ?b then _ else _] => destruct b end);
      apply go_plain1; try reflexivity; try assumption; exact I. }
  assert (SCAN : bal_post s (scan_step s)).
  { unfold scan_step. destruct (skip _ _) as [tstart l]. destruct l as [|c t].
    - cbn [bal_post]. unfold count. cbn [filter is_indent is_dedent length].
      destruct (count_dedents (length (levels s)) tstart) as [D1 D2]. unfold count in D1, D2. rewrite D1, D2. lia.
    - destruct (scan_tok c t tstart) as [[r p'] r'].
      destruct r as [i| | | | | |lz| | |]; try exact I; try (apply go_plain1; [reflexivity | assumption | exact I]).
      + apply TOK.
      + unfold newline_step. destruct (_ && _).
        * destruct (calculate_indent _ _ _ _) as [p2 l2 lv toks|toks e] eqn:CI; [|exact I].
          destruct (calculate_indent_bal _ _ _ _ _ _ _ _ CI H) as [B O]. cbn [bal_post levels]. split; [|assumption].
          unfold count in *. cbn [filter is_indent is_dedent]. exact B.
        * cbn. split; [reflexivity | assumption].
      + destruct lz; [exact I | apply go_plain1; [reflexivity | assumption | exact I]]. }
  unfold step. destruct (fstack s) as [|f frest]; [exact SCAN|].
  destruct (fbrace f =? 0).
  - unfold fstring_step. destruct (fstr_loop _ _ _ _ _ _ _ _ _) as [text bp l'|text pend l'|e lo hi]; [| |exact I].
    + destruct text; cbn; (split; [reflexivity | assumption]).
    + destruct text; cbn; (split; [reflexivity | assumption]).
  - destruct (bang_here s); [apply go_plain1; [reflexivity | assumption | exact I] | exact SCAN].
Qed.

Lemma run_bal : forall fuel s acc toks,
  levels_ok (levels s) -> (count is_indent acc = count is_dedent acc + length (levels s))%nat ->
  run fuel s acc = (toks, None) -> count is_indent toks = count is_dedent toks.
Proof.
  induction fuel; intros s acc toks H B E; cbn [run] in E; [discriminate|].
  pose proof (step_bal s H) as X. destruct (step s) as [ts s'|ts e]; cbn [bal_post] in X.
  - destruct X as [X O]. eapply IHfuel; [exact O | | exact E]. rewrite !count_app, !count_rev. lia.
  - inversion E; subst. rewrite !count_app, !count_rev. lia.
Qed.

Theorem indent_balanced : forall input toks, lex input = (toks, None) -> count is_indent toks = count is_dedent toks.
Proof.
  intros input toks E. unfold lex in E.
  destruct (calculate_indent 0 0 input []) as [p l lv ts|ts e] eqn:CI; [|discriminate].
  destruct (calculate_indent_bal _ _ _ _ _ _ _ _ CI I) as [B O].
  eapply run_bal; [| |exact E]; cbn [levels]; [assumption|]. rewrite !count_rev. cbn [length] in B. lia.
Qed.

(* the stack invariant is kept by every round of the lexer *)
Theorem levels_invariant : forall s toks s', levels_ok (levels s) -> step s = Go toks s' -> levels_ok (levels s').
Proof. intros s toks s' H E. pose proof (step_bal s H) as X. rewrite E in X. exact (proj2 X). Qed.

(* ---------- escape decoding is total: a scalar value (a byte) or an error ---------- *)

From Coq Require Import ZifyBool.
Ltac Zify.zify_post_hook ::= Z.to_euclidean_division_equations.

Definition is_scalar (v : N) : Prop := v < 55296 \/ (57343 < v /\ v <= 1114111).

Lemma from_u32_scalar : forall v ch, from_u32 v = Some ch -> ch = v /\ is_scalar v.
Proof.
  intros v ch H. unfold from_u32 in H. destruct ((v <? 55296) || ((57343 <? v) && (v <=? 1114111))) eqn:E; [|discriminate].
  inversion H; subst. split; [reflexivity|]. unfold is_scalar. lia.
Qed.

Lemma from_u32_surrogate : forall v, 55296 <= v <= 57343 -> from_u32 v = None.
Proof. intros v H. unfold from_u32. destruct ((v <? 55296) || ((57343 <? v) && (v <=? 1114111))) eqn:E; [lia | reflexivity]. Qed.

Lemma from_u32_too_big : forall v, 1114111 < v -> from_u32 v = None.
Proof. intros v H. unfold from_u32. destruct ((v <? 55296) || ((57343 <? v) && (v <=? 1114111))) eqn:E; [lia | reflexivity]. Qed.

Lemma utf8_bytes : forall v, v <= 1114111 -> Forall (fun b => b < 256) (utf8 v).
Proof.
  intros v H. unfold utf8.
  destruct (v <? 128) eqn:A; [repeat constructor; lia|].
  destruct (v <? 2048) eqn:B; [repeat constructor; lia|].
  destruct (v <? 65536) eqn:C; repeat constructor; lia.
Qed.

Lemma assoc_bound : forall c tbl v, Forall (fun ab => Z.to_N (snd ab) < 128) tbl -> assoc c tbl = Some v -> v < 128.
Proof.
  induction tbl as [|[a b] r]; intros v F E; cbn [assoc] in E; [discriminate|].
  inversion F; subst. destruct (Z.to_N a =? c); [inversion E; subst; assumption | eauto].
Qed.

Lemma escape_tables_ascii : Forall (fun ab => Z.to_N (snd ab) < 128) escape_simple /\ Forall (fun ab => Z.to_N (snd ab) < 128) escape_simple_bytes.
Proof. split; repeat constructor. Qed.

Definition out_ok_esc (bytes : bool) (v : N) : Prop := if bytes then v < 256 else is_scalar v.

Theorem escape_total : forall bytes p l, (forall c, In c l -> is_scalar c) ->
  match escape bytes p l with
  | EscOk out _ _ => Forall (out_ok_esc bytes) out
  | EscErr _ _ => True
  end.
Proof.
  intros bytes p l HS. unfold escape. destruct l as [|c t]; [exact I|].
  assert (SC : is_scalar c) by (apply HS; now left).
  assert (ENC : forall ch, is_scalar ch -> Forall (out_ok_esc bytes) (if bytes then utf8 ch else [ch])).
  { intros ch S. destruct bytes; [apply utf8_bytes; unfold is_scalar in S; lia | constructor; [exact S | constructor]]. }
  assert (NUM : forall (spec : list Z) (g : N -> list N) p' l', (forall ch, is_scalar ch -> Forall (out_ok_esc bytes) (g ch)) ->
            match (match num_escape spec p' l' with
                   | NumErr p2 l2 => EscErr p2 l2
                   | NumOk v p2 l2 => match from_u32 v with None => EscErr p2 l2 | Some ch => EscOk (g ch) p2 l2 end
                   end) with EscOk out _ _ => Forall (out_ok_esc bytes) out | EscErr _ _ => True end).
  { intros spec g p' l' G. destruct (num_escape spec p' l') as [v p2 l2|p2 l2]; [|exact I].
    destruct (from_u32 v) eqn:FU; [|exact I]. destruct (from_u32_scalar _ _ FU) as [-> S]. now apply G. }
  destruct (assoc c _) eqn:AS.
  { destruct escape_tables_ascii as [T1 T2].
    assert (n < 128) by (destruct bytes; eapply assoc_bound; eauto).
    constructor; [|constructor]. unfold out_ok_esc, is_scalar. destruct bytes; lia. }
  destruct (c =? 10); [constructor|].
  destruct (c =? 13). { destruct t as [|d t2]; [exact I|]. destruct (d =? 10); [constructor | exact I]. }
  destruct (c =? 120).
  { apply (NUM _ (fun ch => if bytes then [ch mod 256] else if bytes then utf8 ch else [ch])).
    intros ch S. destruct bytes; (constructor; [|constructor]); [cbn; lia | exact S]. }
  destruct (c =? 117); [apply (NUM _ (fun ch => if bytes then utf8 ch else [ch])); exact ENC|].
  destruct (c =? 85); [apply (NUM _ (fun ch => if bytes then utf8 ch else [ch])); exact ENC|].
  destruct (is_oct c).
  { destruct bytes.
    - destruct (num_escape escape_bytes_oct p (c :: t)) as [v p2 l2|p2 l2]; [|exact I].
      destruct (from_u32 v) eqn:FU; [|exact I]. destruct (zn escape_bytes_oct 3 <? n) eqn:LT; [exact I|].
      constructor; [|constructor]. cbn. change (zn escape_bytes_oct 3) with 255 in LT. lia.
    - apply (NUM _ (fun ch => if false then utf8 ch else [ch])). intros ch S. constructor; [exact S | constructor]. }
  destruct (is_quote c || (c =? 92)) eqn:Q.
  { constructor; [|constructor]. destruct bytes; [|exact SC]. cbn. unfold is_quote in Q. lia. }
  constructor; [destruct bytes; cbn; unfold is_scalar; lia | now apply ENC].
Qed.

(* the invalid cases are errors: \x followed by a non-hex digit, lone surrogates, values above 0x10FFFF *)
Theorem escape_invalid_examples :
  (forall p c t, to_digit 16 c = None -> exists p2 l2, escape false p (120 :: c :: t) = EscErr p2 l2) /\
  (exists p2 l2, escape false 0 [117; 100; 56; 48; 48] = EscErr p2 l2) /\          (* \ud800 *)
  (exists p2 l2, escape false 0 [85; 48; 48; 49; 49; 48; 48; 48; 48] = EscErr p2 l2) /\ (* \U00110000 *)
  (exists p2 l2, escape true 0 [52; 48; 48] = EscErr p2 l2) /\                     (* b"\400" *)
  escape false 0 [85; 48; 48; 49; 48; 70; 70; 70; 70] = EscOk [1114111] 9 [].     (* \U0010FFFF *)
Proof.
  split; [|repeat split; try (eexists; eexists; vm_compute; reflexivity); vm_compute; reflexivity].
  intros p c t H. unfold escape. change (assoc 120 escape_simple) with (@None N). cbn [N.eqb Pos.eqb is_oct].
  unfold num_escape. change (N.to_nat (zn escape_x 1)) with 2%nat. change (zn escape_x 2) with 16. change (zn escape_x 0) with 2.
  cbn [escape_char]. rewrite H. change (2 <=? 0) with false. cbn iota. eexists; eexists; reflexivity.
Qed.

(* ---------- the lexer's token stream satisfies the hypothesis of the span-nesting theorems ---------- *)

From SV Require Span.Model.

Definition span_of (t : lexeme) : N * N := let '(l, _, r) := t in (l, r).

Lemma ordered_mono : forall ts lo, ordered lo ts -> Span.Model.mono (map span_of ts).
Proof.
  induction ts as [|[[l k] r] t]; intros lo H; cbn [map Span.Model.mono]; [exact I|].
  cbn [ordered] in H. destruct H as (A & B & C). cbn [span_of]. split; [assumption|]. split; [|eapply IHt; eauto].
  destruct t as [|[[l2 k2] r2] t2]; [exact I|]. cbn [ordered] in C. cbn. tauto.
Qed.

Theorem lexer_tokens_mono : forall input toks e, lex input = (toks, e) ->
  Span.Model.mono (map span_of toks) /\ (forall x, In x (map span_of toks) -> snd x <= blen input).
Proof.
  intros input toks e E. destruct (lex_spans_ok _ _ _ E) as (F & O & _). split; [eapply ordered_mono; eauto|].
  intros x Hx. apply in_map_iff in Hx. destruct Hx as [[[l k] r] [<- Ht]]. rewrite Forall_forall in F.
  specialize (F _ Ht). unfold tok_ok, span_ok in F. cbn [span_of snd]. tauto.
Qed.
