(* C18: lemmas about the MarkStar semantics (plain / instrumented) and the debug adapter's decision function. *)
From Coq Require Import ZArith List Bool Arith Lia.
From SV Require Import Debug.Model.
Import ListNotations.
Open Scope nat_scope.

(* ------------------------------------------------------------------ a relational (parametricity) lemma *)
Section Rel.
  Variables (S1 S2 : Type).
  Variable Rst : S1 -> S2 -> Prop.

  Inductive res_rel : res S1 -> res S2 -> Prop :=
  | RR_ok sg en s1 s2 : Rst s1 s2 -> res_rel (ROk sg en s1) (ROk sg en s2)
  | RR_fail l s1 s2 : Rst s1 s2 -> res_rel (RFail l s1) (RFail l s2)
  | RR_nofuel s1 s2 : Rst s1 s2 -> res_rel (RNoFuel s1) (RNoFuel s2).

  Lemma call_result_rel x en r1 r2 : res_rel r1 r2 -> res_rel (call_result x en r1) (call_result x en r2).
  Proof. intros Hr; inversion Hr; subst; simpl; constructor; auto. Qed.

  Lemma for_loop_rel run1 run2 :
    (forall en s1 s2, Rst s1 s2 -> res_rel (run1 en s1) (run2 en s2)) ->
    forall k x i en s1 s2, Rst s1 s2 -> res_rel (for_loop run1 x i k en s1) (for_loop run2 x i k en s2).
  Proof.
    intros Hrun; induction k as [|k IH]; intros x i en s1 s2 Hs; simpl.
    - constructor; auto.
    - specialize (Hrun (set x i en) s1 s2 Hs).
      destruct (run1 (set x i en) s1) eqn:E1; destruct (run2 (set x i en) s2) eqn:E2;
        inversion Hrun; subst.
      + destruct s0; try (apply IH; auto); constructor; auto.
      + constructor; auto.
      + constructor; auto.
  Qed.

  Variables (emit1 : list Z -> S1 -> S1) (emit2 : list Z -> S2 -> S2).
  Hypothesis emit_rel : forall out s1 s2, Rst s1 s2 -> Rst (emit1 out s1) (emit2 out s2).
  Variable Rd : nat -> nat -> Prop.
  Hypothesis Rd_S : forall a b, Rd a b -> Rd (S a) (S b).

  Lemma exec_head_rel rec1 rec2 :
    (forall d1 d2 ss en s1 s2, Rd d1 d2 -> Rst s1 s2 -> res_rel (rec1 d1 ss en s1) (rec2 d2 ss en s2)) ->
    forall d1 d2 fs s en s1 s2, Rd d1 d2 -> Rst s1 s2 ->
      res_rel (exec_head emit1 rec1 d1 fs s en s1) (exec_head emit2 rec2 d2 fs s en s2).
  Proof.
    intros Hrec d1 d2 fs s en s1 s2 Hd Hs. unfold exec_head.
    destruct (simple_step s en) as [[[[sg en'] out]|]|].
    - constructor; auto.
    - constructor; auto.
    - destruct s; try (constructor; auto; fail).
      + destruct (evals args en); [|constructor; auto].
        destruct (nth_error fs f); [|constructor; auto].
        destruct (Nat.eqb (length l0) (length (params f0))); [|constructor; auto].
        apply call_result_rel. apply Hrec; auto.
      + destruct (evalc c en); [|constructor; auto]. apply Hrec; auto.
      + destruct (eval n en); [|constructor; auto].
        apply for_loop_rel; auto.
  Qed.
End Rel.
Arguments res_rel {S1 S2}.

(* ------------------------------------------------------------------ unfolding equations *)
Lemma exec_block_cons H (hook : H -> event -> H) fuel d fs s rest en st :
  exec_block hook (S fuel) d fs (s :: rest) en st =
  match exec_head emit_out (fun d' ss' en' st' => exec_block hook fuel d' fs ss' en' st') d fs s en
                  (fire hook st (line s, d)) with
  | ROk SigNormal en' st' => exec_block hook fuel d fs rest en' st'
  | other => other
  end.
Proof. reflexivity. Qed.

Lemma pexec_block_cons fuel fs s rest en st :
  pexec_block (S fuel) fs (s :: rest) en st =
  match exec_head (@app Z) (fun _ ss' en' st' => pexec_block fuel fs ss' en' st') O fs s en st with
  | ROk SigNormal en' st' => pexec_block fuel fs rest en' st'
  | other => other
  end.
Proof. reflexivity. Qed.

(* ------------------------------------------------------------------ two observers see the same run *)
Definition st_rel {H1 H2} (R : H1 -> H2 -> Prop) (s1 : hstate H1) (s2 : hstate H2) : Prop :=
  fst s1 = fst s2 /\ R (snd s1) (snd s2).

Section TwoHooks.
  Variables (H1 H2 : Type) (hook1 : H1 -> event -> H1) (hook2 : H2 -> event -> H2).
  Variable R : H1 -> H2 -> Prop.
  Hypothesis R_step : forall a b ev, R a b -> R (hook1 a ev) (hook2 b ev).

  Lemma exec_block_rel : forall fuel d fs ss en s1 s2, st_rel R s1 s2 ->
    res_rel (st_rel R) (exec_block hook1 fuel d fs ss en s1) (exec_block hook2 fuel d fs ss en s2).
  Proof.
    induction fuel as [|fuel IH]; intros d fs ss en s1 s2 Hs.
    - simpl; constructor; auto.
    - destruct ss as [|s rest]; [simpl; constructor; auto|].
      rewrite !exec_block_cons.
      match goal with |- res_rel _ (match ?a with _ => _ end) (match ?b with _ => _ end) =>
        assert (Hh : res_rel (st_rel R) a b) end.
      { apply exec_head_rel with (Rd := @eq nat); auto.
        - intros out a b [E1 E2]; split; simpl; [f_equal; auto|auto].
        - intros; subst; apply IH; auto.
        - destruct Hs as [E1 E2]; split; simpl; auto. }
      match goal with |- res_rel _ (match ?a with _ => _ end) (match ?b with _ => _ end) =>
        destruct a eqn:Ea; destruct b eqn:Eb; inversion Hh; subst end.
      + destruct s3; try (apply IH; auto); constructor; auto.
      + constructor; auto.
      + constructor; auto.
  Qed.
End TwoHooks.

(* ------------------------------------------------------------------ plain vs instrumented *)
Definition erase_rel {H} (p : pstate) (s : hstate H) : Prop := p = fst s.

Lemma plain_hooked_rel H (hook : H -> event -> H) : forall fuel d fs ss en p s, erase_rel p s ->
  res_rel erase_rel (pexec_block fuel fs ss en p) (exec_block hook fuel d fs ss en s).
Proof.
  induction fuel as [|fuel IH]; intros d fs ss en p s Hs.
  - simpl; constructor; auto.
  - destruct ss as [|s0 rest]; [simpl; constructor; auto|].
    rewrite exec_block_cons, pexec_block_cons.
    match goal with |- res_rel _ (match ?a with _ => _ end) (match ?b with _ => _ end) =>
      assert (Hh : res_rel erase_rel a b) end.
    { apply exec_head_rel with (Rd := fun _ _ => True); auto;
        try (intros; apply IH; auto; fail);
        unfold erase_rel in *; simpl; intros; subst; auto. }
    match goal with |- res_rel _ (match ?a with _ => _ end) (match ?b with _ => _ end) =>
      destruct a eqn:Ea; destruct b eqn:Eb; inversion Hh; subst end.
    + destruct s2; try (apply IH; auto); constructor; auto.
    + constructor; auto.
    + constructor; auto.
Qed.

Lemma res_rel_completion {S1 S2} (R : S1 -> S2 -> Prop) r1 r2 :
  res_rel R r1 r2 -> completion_of r1 = completion_of r2 /\ R (state_of r1) (state_of r2).
Proof. intros Hr; inversion Hr; subst; simpl; auto. Qed.

Theorem erase_instrumentation : forall H (hook : H -> event -> H) h0 fuel p,
  outcome_of (exec_hooked hook h0 fuel p) = run_plain fuel p.
Proof.
  intros. unfold exec_hooked, run_plain, outcome_of; simpl.
  destruct (res_rel_completion _ _ _
              (plain_hooked_rel H hook fuel 0 (funs p) (main p) [] [] ([], h0) eq_refl)) as [Ec Es].
  unfold erase_rel in Es. rewrite Ec, Es. reflexivity.
Qed.

Theorem observer_noninterference : forall H (hook : H -> event -> H) h0 fuel p,
  outcome_of (exec_hooked hook h0 fuel p) = outcome_of (exec fuel p).
Proof. intros. unfold exec. rewrite !erase_instrumentation. reflexivity. Qed.

(* the observer's final state is the fold of its step function over the trace: it is fed exactly the trace *)
Theorem hooked_fold : forall H (hook : H -> event -> H) h0 fuel p,
  hstate_of (exec_hooked hook h0 fuel p) = fold_left hook (trace fuel p) h0.
Proof.
  intros. unfold trace, exec_hooked, hstate_of; simpl.
  pose (R := fun (h : H) (l : list event) => h = fold_left hook (rev l) h0).
  assert (Rs : forall a b ev, R a b -> R (hook a ev) (rec_hook b ev)).
  { unfold R, rec_hook; intros a b ev E; simpl. rewrite fold_left_app; simpl. now rewrite <- E. }
  destruct (res_rel_completion _ _ _
              (exec_block_rel H (list event) hook rec_hook R Rs fuel 0 (funs p) (main p) []
                              ([], h0) ([], []) (conj eq_refl eq_refl))) as [_ [_ E]].
  exact E.
Qed.

(* ------------------------------------------------------------------ the statement profiler counts the trace *)
Lemma count_fold l : forall tr n,
  fold_left (count_hook l) tr n = (n + length (filter (fun ev => Nat.eqb (ev_line ev) l) tr))%nat.
Proof.
  induction tr as [|ev tr IH]; intros n; simpl; [lia|].
  rewrite IH. unfold count_hook. destruct (Nat.eqb (ev_line ev) l); simpl; lia.
Qed.

Theorem profile_counts_trace : forall l fuel p,
  hstate_of (exec_hooked (count_hook l) 0%nat fuel p)
  = length (filter (fun ev => Nat.eqb (ev_line ev) l) (trace fuel p)).
Proof. intros. rewrite hooked_fold, count_fold. reflexivity. Qed.

(* ------------------------------------------------------------------ the adapter as an observer = run_dbg over the trace *)
Lemma dbg_fold B pol : forall tr s n acc,
  fold_left (dbg_hook B pol) tr (s, n, acc) =
  (fst (fst (fold_left (dbg_hook B pol) tr (s, n, acc))), snd (fst (fold_left (dbg_hook B pol) tr (s, n, acc))),
   rev (run_dbg B pol s n tr) ++ acc).
Proof.
  induction tr as [|ev tr IH]; intros s n acc; simpl; [reflexivity|].
  destruct (should_stop B s ev); rewrite IH; simpl.
  - rewrite <- app_assoc. reflexivity.
  - reflexivity.
Qed.

Theorem dbg_observer_stops : forall B pol fuel p,
  dbg_stops (hstate_of (exec_hooked (dbg_hook B pol) dbg_init fuel p)) = stops B pol (trace fuel p).
Proof.
  intros. rewrite hooked_fold. unfold dbg_init, dbg_stops, stops. rewrite dbg_fold. simpl.
  rewrite app_nil_r, rev_involutive. reflexivity.
Qed.

(* ------------------------------------------------------------------ breakpoints, continuing *)
Theorem breakpoint_stops : forall B tr,
  stops B (always Continue) tr = filter (fun ev => mem (ev_line ev) B) tr.
Proof.
  intros B tr. unfold stops. generalize 0%nat.
  induction tr as [|ev tr IH]; intros n; simpl; [reflexivity|].
  unfold should_stop; simpl. rewrite orb_false_r.
  destruct (mem (ev_line ev) B); simpl; rewrite IH; reflexivity.
Qed.

Lemma filter_filter_line B l : forall tr, mem l B = true ->
  filter (fun ev => Nat.eqb (ev_line ev) l) (filter (fun ev => mem (ev_line ev) B) tr)
  = filter (fun ev => Nat.eqb (ev_line ev) l) tr.
Proof.
  induction tr as [|ev tr IH]; intros Hm; simpl; [reflexivity|].
  destruct (mem (ev_line ev) B) eqn:E; simpl.
  - rewrite IH; auto.
  - destruct (Nat.eqb (ev_line ev) l) eqn:E2; [|apply IH; auto].
    apply Nat.eqb_eq in E2. rewrite E2 in E. congruence.
Qed.

(* a breakpoint on line l stops exactly once per start event of l *)
Theorem breakpoint_stops_once_per_execution : forall B l tr, mem l B = true ->
  length (filter (fun ev => Nat.eqb (ev_line ev) l) (stops B (always Continue) tr))
  = length (filter (fun ev => Nat.eqb (ev_line ev) l) tr).
Proof. intros. rewrite breakpoint_stops, filter_filter_line; auto. Qed.

(* ------------------------------------------------------------------ stepping *)
Lemma into_all B : forall tr d n, run_dbg B (always (Step Into)) (Some (Into, d)) n tr = tr.
Proof.
  induction tr as [|ev tr IH]; intros d n; simpl; [reflexivity|].
  unfold should_stop; simpl. rewrite orb_true_r. simpl. rewrite IH. reflexivity.
Qed.

Theorem step_into_covers_trace : forall B tr,
  stops B (always (Step Into)) tr = drop_until (fun ev => mem (ev_line ev) B) tr.
Proof.
  intros B tr. unfold stops. generalize 0%nat.
  induction tr as [|ev tr IH]; intros n; simpl; [reflexivity|].
  unfold should_stop; simpl. rewrite orb_false_r.
  destruct (mem (ev_line ev) B); simpl.
  - rewrite into_all. reflexivity.
  - apply IH.
Qed.

(* general form: with a pending step (k, saved) the adapter skips every event that is neither a breakpoint
   nor satisfies the step condition, and stops at the first one that does *)
Lemma run_dbg_skip B pol s n : forall mid rest,
  Forall (fun e => should_stop B s e = false) mid ->
  run_dbg B pol s n (mid ++ rest) = run_dbg B pol s n rest.
Proof.
  induction mid as [|e mid IH]; intros rest Hf; simpl; [reflexivity|].
  inversion Hf; subst. rewrite H1. apply IH; auto.
Qed.

Theorem step_over_skips_callees : forall B pol saved n mid ev rest,
  Forall (fun e => mem (ev_line e) B = false /\ saved < ev_depth e) mid ->
  ev_depth ev <= saved ->
  run_dbg B pol (Some (Over, saved)) n (mid ++ ev :: rest)
  = ev :: run_dbg B pol (after_cmd (pol n ev) ev) (S n) rest.
Proof.
  intros B pol saved n mid ev rest Hmid Hev.
  rewrite run_dbg_skip.
  - simpl. unfold should_stop; simpl.
    replace (Nat.leb (ev_depth ev) saved) with true by (symmetry; apply Nat.leb_le; auto).
    rewrite orb_true_r. reflexivity.
  - eapply Forall_impl; [|exact Hmid]. intros e [Hb Hd]. unfold should_stop; simpl.
    rewrite Hb; simpl. apply Nat.leb_gt; auto.
Qed.

Theorem step_out_returns : forall B pol saved n mid ev rest,
  Forall (fun e => mem (ev_line e) B = false /\ saved <= ev_depth e) mid ->
  ev_depth ev < saved ->
  run_dbg B pol (Some (Out, saved)) n (mid ++ ev :: rest)
  = ev :: run_dbg B pol (after_cmd (pol n ev) ev) (S n) rest.
Proof.
  intros B pol saved n mid ev rest Hmid Hev.
  rewrite run_dbg_skip.
  - simpl. unfold should_stop; simpl.
    replace (Nat.ltb (ev_depth ev) saved) with true by (symmetry; apply Nat.ltb_lt; auto).
    rewrite orb_true_r. reflexivity.
  - eapply Forall_impl; [|exact Hmid]. intros e [Hb Hd]. unfold should_stop; simpl.
    rewrite Hb; simpl. apply Nat.ltb_ge; auto.
Qed.

(* a step that is never satisfied and no breakpoint: no further stop (Out from the module level = continue) *)
Theorem step_none_left : forall B pol s n tr,
  Forall (fun e => should_stop B s e = false) tr -> run_dbg B pol s n tr = [].
Proof.
  intros. rewrite <- (app_nil_r tr). rewrite run_dbg_skip; auto.
Qed.

(* ------------------------------------------------------------------ the trace is the list of executed statement
   instances of the big-step derivation *)
Definition strip (r : res (hstate (list event))) : res pstate :=
  match r with
  | ROk sg en st => ROk sg en (fst st) | RFail l st => RFail l (fst st) | RNoFuel st => RNoFuel (fst st)
  end.
Definition evs (r : res (hstate (list event))) : list event := snd (state_of r).
Definition nofuel {St} (r : res St) : bool := match r with RNoFuel _ => true | _ => false end.

Definition sound_block (fs : list fdef)
           (rec : nat -> list stmt -> env -> hstate (list event) -> res (hstate (list event))) : Prop :=
  forall d ss en p l, nofuel (rec d ss en (p, l)) = false ->
    exists tr, BExec fs d ss en p (strip (rec d ss en (p, l))) tr /\ evs (rec d ss en (p, l)) = rev tr ++ l.

Lemma call_result_strip x en r : strip (call_result x en r) = call_result x en (strip r).
Proof. destruct r; reflexivity. Qed.
Lemma call_result_evs x en r : evs (call_result x en r) = evs r.
Proof. destruct r; reflexivity. Qed.
Lemma call_result_nofuel {St} x en (r : res St) : nofuel (call_result x en r) = nofuel r.
Proof. destruct r; reflexivity. Qed.

Lemma for_loop_sound fs rec d x bd : sound_block fs rec ->
  forall k i en p l, nofuel (for_loop (rec d bd) x i k en (p, l)) = false ->
    exists tr, LExec fs d x bd i k en p (strip (for_loop (rec d bd) x i k en (p, l))) tr
               /\ evs (for_loop (rec d bd) x i k en (p, l)) = rev tr ++ l.
Proof.
  intros Hrec; induction k as [|k IH]; intros i en p l Hn; simpl in *.
  - exists []. split; [constructor|reflexivity].
  - pose proof (Hrec d bd (set x i en) p l) as Hb.
    destruct (rec d bd (set x i en) (p, l)) as [sg en1 [p1 l1]|l' [p1 l1]|[p1 l1]] eqn:E.
    + destruct (Hb eq_refl) as [tr1 [HB He]]. unfold evs in He; simpl in He; subst l1. simpl in HB.
      destruct sg.
      * destruct (IH (i + 1)%Z en1 p1 (rev tr1 ++ l) Hn) as [tr2 [HL He2]].
        exists (tr1 ++ tr2). split; [eapply LE_next; eauto|].
        rewrite He2, rev_app_distr, app_assoc. reflexivity.
      * exists tr1. split; [apply LE_break; auto|reflexivity].
      * destruct (IH (i + 1)%Z en1 p1 (rev tr1 ++ l) Hn) as [tr2 [HL He2]].
        exists (tr1 ++ tr2). split; [eapply LE_next; eauto|].
        rewrite He2, rev_app_distr, app_assoc. reflexivity.
      * exists tr1. split; [apply LE_exit; simpl; auto|reflexivity].
    + destruct (Hb eq_refl) as [tr1 [HB He]]. unfold evs in He; simpl in He; subst l1. simpl in HB.
      exists tr1. split; [apply LE_exit; simpl; auto|reflexivity].
    + discriminate.
Qed.

Lemma exec_head_sound fs rec : sound_block fs rec -> forall d s en p l,
  nofuel (exec_head emit_out rec d fs s en (p, l)) = false ->
  exists tr, SExec fs d s en p (strip (exec_head emit_out rec d fs s en (p, l))) tr
             /\ evs (exec_head emit_out rec d fs s en (p, l)) = rev tr ++ l.
Proof.
  intros Hrec d s en p l. unfold exec_head.
  destruct (simple_step s en) as [[[[sg en'] out]|]|] eqn:Es.
  - intros _. exists []. split; [apply SE_simple; auto|reflexivity].
  - intros _. exists []. split; [apply SE_simple_fail; auto|reflexivity].
  - destruct s; simpl in Es; try discriminate.
    + destruct (evals args en) as [vs|] eqn:Ea;
        [destruct (nth_error fs f) as [fd|] eqn:Ef;
         [destruct (Nat.eqb (length vs) (length (params fd))) eqn:El|]|].
      * rewrite call_result_nofuel. intros Hn.
        destruct (Hrec (S d) (body fd) (bind_params (params fd) vs) p l Hn) as [tr [HB He]].
        exists tr. rewrite call_result_strip, call_result_evs. split; [|exact He].
        eapply SE_call; eauto. apply Nat.eqb_eq; auto.
      * intros _. exists []. split; [|reflexivity]. apply SE_call_bad.
        intros vs' fd' E1 E2. rewrite Ea in E1. rewrite Ef in E2. inversion E1; inversion E2; subst.
        apply Nat.eqb_neq; auto.
      * intros _. exists []. split; [|reflexivity]. apply SE_call_bad. intros vs' fd' E1 E2. congruence.
      * intros _. exists []. split; [|reflexivity]. apply SE_call_bad. intros vs' fd' E1 E2. congruence.
    + destruct (evalc c en) as [b|] eqn:Ec.
      * intros Hn. destruct (Hrec d (if b then th else el) en p l Hn) as [tr [HB He]].
        exists tr. split; [eapply SE_if; eauto|exact He].
      * intros _. exists []. split; [apply SE_if_fail; auto|reflexivity].
    + destruct (eval n en) as [z|] eqn:En.
      * intros Hn. destruct (for_loop_sound fs rec d _ _ Hrec _ _ _ _ _ Hn) as [tr [HL He]].
        exists tr. split; [eapply SE_for; eauto|exact He].
      * intros _. exists []. split; [apply SE_for_fail; auto|reflexivity].
Qed.

Lemma exec_block_sound fs : forall fuel,
  sound_block fs (fun d ss en st => exec_block rec_hook fuel d fs ss en st).
Proof.
  induction fuel as [|fuel IH]; intros d ss en p l Hn.
  - simpl in Hn. discriminate.
  - destruct ss as [|s rest]; [simpl; exists []; split; [constructor|reflexivity]|].
    rewrite exec_block_cons in *.
    pose proof (exec_head_sound fs _ IH d s en p ((line s, d) :: l)) as Hh.
    change (p, (line s, d) :: l) with (fire rec_hook (p, l) (line s, d)) in Hh.
    revert Hn Hh.
    match goal with |- _ -> (nofuel ?X = false -> _) -> _ =>
      destruct X as [sg en1 [p1 l1]|l' [p1 l1]|[p1 l1]] eqn:E end; intros Hn Hh; simpl in Hn.
    + destruct (Hh eq_refl) as [tr1 [HS He]]. unfold evs in He; simpl in He; subst l1. simpl in HS.
      destruct sg.
      * destruct (IH d rest en1 p1 _ Hn) as [tr2 [HB He2]].
        exists ((line s, d) :: tr1 ++ tr2). split; [eapply BE_next; eauto|].
        rewrite He2. simpl. rewrite rev_app_distr. repeat rewrite <- app_assoc. reflexivity.
      * exists ((line s, d) :: tr1). split; [apply BE_stop; auto; intros; discriminate|].
        simpl. rewrite <- app_assoc. reflexivity.
      * exists ((line s, d) :: tr1). split; [apply BE_stop; auto; intros; discriminate|].
        simpl. rewrite <- app_assoc. reflexivity.
      * exists ((line s, d) :: tr1). split; [apply BE_stop; auto; intros; discriminate|].
        simpl. rewrite <- app_assoc. reflexivity.
    + destruct (Hh eq_refl) as [tr1 [HS He]]. unfold evs in He; simpl in He; subst l1. simpl in HS.
      exists ((line s, d) :: tr1). split; [apply BE_stop; auto; intros; discriminate|].
      simpl. rewrite <- app_assoc. reflexivity.
    + discriminate.
Qed.

Theorem trace_once_per_execution : forall (fuel : nat) (p : program),
  snd (run_plain fuel p) <> OutOfFuel ->
  exists r, BExec (funs p) 0 (main p) [] [] r (trace fuel p) /\
            run_plain fuel p = (rev (state_of r), completion_of r).
Proof.
  intros fuel p Hn.
  pose proof (erase_instrumentation (list event) rec_hook [] fuel p) as Her.
  unfold exec_hooked, outcome_of in Her; cbn [fst snd] in Her.
  unfold trace, exec_hooked, hstate_of; cbn [fst snd].
  set (R := exec_block rec_hook fuel 0 (funs p) (main p) [] ([], [])) in *.
  assert (Hnf : nofuel R = false).
  { rewrite <- Her in Hn. cbn [fst snd] in Hn. destruct R; simpl in *; auto. congruence. }
  destruct (exec_block_sound (funs p) fuel 0 (main p) [] [] [] Hnf) as [tr [HB He]].
  fold R in HB, He. exists (strip R). split.
  - unfold evs in He. rewrite He, app_nil_r, rev_involutive. exact HB.
  - rewrite <- Her. destruct R; reflexivity.
Qed.

Scheme BExec_min := Minimality for BExec Sort Prop
  with SExec_min := Minimality for SExec Sort Prop
  with LExec_min := Minimality for LExec Sort Prop.
Combined Scheme bsl_ind from BExec_min, SExec_min, LExec_min.

Lemma depth_all fs :
  (forall d ss en p r tr, BExec fs d ss en p r tr -> Forall (fun ev => d <= ev_depth ev) tr) /\
  (forall d s en p r tr, SExec fs d s en p r tr -> Forall (fun ev => d <= ev_depth ev) tr) /\
  (forall d x bd i k en p r tr, LExec fs d x bd i k en p r tr -> Forall (fun ev => d <= ev_depth ev) tr).
Proof.
  apply bsl_ind; intros; auto;
    try (constructor; simpl; auto; try apply Forall_app; auto; fail);
    try (apply Forall_app; auto; fail).
  eapply Forall_impl; [|eassumption]. intros; simpl in *; lia.
Qed.

Theorem bexec_depth : forall fs d ss en p r tr,
  BExec fs d ss en p r tr -> Forall (fun ev => d <= ev_depth ev) tr.
Proof. intros fs. apply (proj1 (depth_all fs)). Qed.

(* ------------------------------------------------------------------ mixed command scripts: a stop consumes the pending step
   (DapAdapterEvalHookImpl::call: `if stop || step_stop { self.step = None; ... }` - whatever made the adapter stop, the step
   request that was outstanding is gone; the only step state after the stop is the one the user's next command installs) *)
Theorem stop_clears_step : forall B pol s n acc ev,
  should_stop B s ev = true ->
  dbg_hook B pol (s, n, acc) ev = (after_cmd (pol n ev) ev, S n, ev :: acc).
Proof. intros B pol s n acc ev H. unfold dbg_hook. rewrite H. reflexivity. Qed.

Theorem continue_clears_step : forall B pol s n acc ev,
  should_stop B s ev = true -> pol n ev = Continue ->
  dbg_hook B pol (s, n, acc) ev = (None, S n, ev :: acc).
Proof. intros B pol s n acc ev H Hc. rewrite stop_clears_step by exact H. rewrite Hc. reflexivity. Qed.

(* what happens after a stop does not depend on the step request that was pending when the stop happened *)
Theorem stop_forgets_pending_step : forall B pol s s' n ev rest,
  should_stop B s ev = true -> should_stop B s' ev = true ->
  run_dbg B pol s n (ev :: rest) = run_dbg B pol s' n (ev :: rest).
Proof. intros B pol s s' n ev rest H H'. simpl. rewrite H, H'. reflexivity. Qed.

Lemma run_dbg_continue_from B pol : forall tr n,
  (forall m e, n <= m -> pol m e = Continue) ->
  run_dbg B pol None n tr = filter (fun ev => mem (ev_line ev) B) tr.
Proof.
  induction tr as [|ev tr IH]; intros n Hc; simpl; [reflexivity|].
  unfold should_stop; simpl. rewrite orb_false_r.
  destruct (mem (ev_line ev) B); simpl.
  - rewrite (Hc n ev (Nat.le_refl n)). simpl. rewrite IH; [reflexivity|].
    intros m e Hm. apply Hc. lia.
  - apply IH. exact Hc.
Qed.

(* Continue at ANY stop (breakpoint hit while an Over/Out request is outstanding included) and from then on:
   the remaining stops are exactly the start events of breakpoint lines - no stop on a line without breakpoint *)
Theorem continue_runs_to_breakpoints : forall B pol s n ev rest,
  should_stop B s ev = true ->
  (forall m e, n <= m -> pol m e = Continue) ->
  run_dbg B pol s n (ev :: rest) = ev :: filter (fun e => mem (ev_line e) B) rest.
Proof.
  intros B pol s n ev rest H Hc. simpl. rewrite H. rewrite (Hc n ev (Nat.le_refl n)). simpl.
  rewrite run_dbg_continue_from; [reflexivity|]. intros m e Hm. apply Hc. lia.
Qed.

(* a script is a policy that looks only at the number of the stop; appending Continue = continue for ever afterwards *)
Lemma script_tail_continue cs : forall m e, length cs <= m -> script (cs ++ [Continue]) m e = Continue.
Proof.
  intros m e Hm. unfold script. rewrite last_last.
  destruct (Nat.eq_dec m (length cs)) as [->|Hne].
  - rewrite nth_middle. reflexivity.
  - rewrite nth_overflow; [reflexivity|]. rewrite app_length; simpl. lia.
Qed.
