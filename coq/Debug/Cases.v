(* C18: executable comparison drivers used by the tie (tools/props/C18.py).
   run_case : the model's transcript, completion and statement-start trace of a MarkStar program;
   dbg_case : the adapter's decision function applied to a sequence of (line, depth) events - the events fed in by the
              tie are the REAL before_stmt events recorded on the implementation. Numbers are printed as N / Z. *)
From Coq Require Import ZArith NArith List.
From SV Require Import Debug.Model.
Import ListNotations.

Definition ev_out (e : event) : N * N := (N.of_nat (fst e), N.of_nat (snd e)).

(* completion code: 0 done, 1 failed at line, 2 out of fuel *)
Definition comp_out (c : completion) : N * N :=
  match c with Done => (0%N, 0%N) | Failed l => (1%N, N.of_nat l) | OutOfFuel => (2%N, 0%N) end.

Definition run_case (fuel : nat) (p : program) : list Z * (N * N) * list (N * N) * bool :=
  let '(o, h) := exec_hooked rec_hook [] fuel p in
  (* last component: the plain run and the uninstrumented run give the same outcome (a run-time self check of the theorems) *)
  (fst o, comp_out (snd o), map ev_out (rev h),
   match run_plain fuel p, outcome_of (exec fuel p) with
   | (t1, c1), (t2, c2) =>
     andb (if list_eq_dec Z.eq_dec t1 (fst o) then true else false)
          (if list_eq_dec Z.eq_dec t2 (fst o) then true else false)
   end).

Definition mk_events (l : list (nat * nat)) : list event := l.

Definition dbg_case (B : list nat) (cs : list cmd) (tr : list event) : list (N * N) :=
  map ev_out (stops B (script cs) tr).

(* several configurations over one trace *)
Definition dbg_cases (cfgs : list (list nat * list cmd)) (tr : list event) : list (list (N * N)) :=
  map (fun c => dbg_case (fst c) (snd c) tr) cfgs.

(* The example of Properties/C18.v: the program probed on the implementation while the check was built

     1 def f(a):
     2     b = a + 1
     3     emit(b)
     4     return b * 2
     5 x = 3
     6 y = f(x)
     7 emit(y)
     8 for i in range(2):
     9     z = f(i)
    10     emit(z)
    11 if x > 1:
    12     emit(x)
    13 emit(424242)                                                                         *)
Definition ex_prog : program :=
  {| funs := [ {| params := [0]; body := [SAssign 2 1 (EAdd (EVar 0) (EConst 1)); SEmit 3 (EVar 1);
                                           SReturn 4 (EMul (EVar 1) (EConst 2))] |} ];
     main := [SDef 1 0; SAssign 5 10 (EConst 3); SCall 6 11 0 [EVar 10]; SEmit 7 (EVar 11);
              SFor 8 12 (EConst 2) [SCall 9 13 0 [EVar 12]; SEmit 10 (EVar 13)];
              SIf 11 (CLt (EConst 1) (EVar 10)) [SEmit 12 (EVar 10)] [];
              SEmit 13 (EConst 424242)] |}.

Definition ex_trace : list event :=
  [(1,0); (5,0); (6,0); (2,1); (3,1); (4,1); (7,0); (8,0); (9,0); (2,1); (3,1); (4,1); (10,0);
   (9,0); (2,1); (3,1); (4,1); (10,0); (11,0); (12,0); (13,0)].

(* The three-step session of the mixed-script examples of Properties/C18.v (statement starts inside functions only):

     1 def g():
     2     a = 1
     3     return a
     4 def f():
     5     b = g()
     6     c = b + 1
     7     return c
     8 f()                                                                                  *)
Definition ex_nested_trace : list event := [(1,0); (4,0); (8,0); (5,1); (2,2); (3,2); (6,1); (7,1)].
