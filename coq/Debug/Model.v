(* C18  Profilers, statement hooks and the debugger observe without interfering.

   Model (no proofs in this file).

   1. "MarkStar": a small statement language (integers, assignments, emit markers, if, for-range loops,
      break/continue, calls of top-level functions with a call depth, early return, run-time failure by
      division by zero).  Every statement carries the source line it starts on.
   2. Three interpreters over it (explicit fuel):
        pexec_block  - the PLAIN semantics: no events, no depth, no observer (what `bc.run(.., EvalCallbacksDisabled)` means);
        exec_block   - the INSTRUMENTED semantics: mirrors `eval_bc_with_callbacks` + `EvalCallbacksEnabled::before_stmt` +
                       `before_stmt()` (evaluator.rs): at the first instruction of every statement (`BcWriter::mark_before_stmt`,
                       bc/compiler/stmt.rs `IrSpanned<StmtCompiled>::write_bc`) the registered observers are called with the
                       statement's location; the observer is `hook : H -> event -> H` over its OWN state only
                       (profilers: `StmtProfile::before_stmt`, `BcProfile::before_instr`, heap/time-flame `record_call_enter/exit`;
                       the no-op hook; the debug adapter's `DapAdapterEvalHookImpl::call`);
        the trace    - exec_block instantiated with the list-of-events observer.
   3. The debug adapter's decision function (debug/adapter/implementation.rs, `DapAdapterEvalHookImpl::call`):
        stop  iff  breakpoint span = current statement span            (`BreakpointConfig::at`)
               or  step = Some(Into, _)
               or  step = Some(Over, saved) and call_stack_count <= saved
               or  step = Some(Out,  saved) and call_stack_count <  saved;
        on a stop: step := None; `event_stopped`; then the next command: Continue | Step kind => step := Some(kind, call_stack_count).
      Events with `continued = true` are ignored by the adapter and are not part of the trace. *)
From Coq Require Import ZArith List Bool Arith.
Import ListNotations.
Local Open Scope Z_scope.

(* ---------------------------------------------------------------- syntax *)
Definition var := nat.

Inductive expr :=
| EConst (z : Z)
| EVar (x : var)
| EAdd (a b : expr)
| ESub (a b : expr)
| EMul (a b : expr)
| EDiv (a b : expr)      (* floor division; fails when the divisor is 0 *)
| EMod (a b : expr).     (* floor modulo;   fails when the divisor is 0 *)

Inductive cond :=
| CLt (a b : expr) | CLe (a b : expr) | CEq (a b : expr) | CNe (a b : expr).

Inductive stmt :=
| SAssign (l : nat) (x : var) (e : expr)
| SEmit (l : nat) (e : expr)                                (* emit(e): the marker statement *)
| SCall (l : nat) (x : var) (f : nat) (args : list expr)    (* x = f(args) *)
| SIf (l : nat) (c : cond) (th el : list stmt)
| SFor (l : nat) (x : var) (n : expr) (body : list stmt)    (* for x in range(n): body *)
| SReturn (l : nat) (e : expr)
| SBreak (l : nat)
| SContinue (l : nat)
| SDef (l : nat) (f : nat).                                 (* `def f(..):` executed as a statement (binds the name) *)

Record fdef := { params : list var; body : list stmt }.
Record program := { funs : list fdef; main : list stmt }.

Definition line (s : stmt) : nat :=
  match s with
  | SAssign l _ _ | SEmit l _ | SCall l _ _ _ | SIf l _ _ _ | SFor l _ _ _ | SReturn l _
  | SBreak l | SContinue l | SDef l _ => l
  end.

(* ---------------------------------------------------------------- values, environments, expressions *)
Definition env := list (var * Z).

Fixpoint lookup (x : var) (e : env) : option Z :=
  match e with
  | [] => None
  | (y, v) :: r => if Nat.eqb x y then Some v else lookup x r
  end.

Definition set (x : var) (v : Z) (e : env) : env := (x, v) :: e.

Definition bind2 (f : Z -> Z -> option Z) (a b : option Z) : option Z :=
  match a, b with Some x, Some y => f x y | _, _ => None end.

Fixpoint eval (e : expr) (en : env) : option Z :=
  match e with
  | EConst z => Some z
  | EVar x => lookup x en
  | EAdd a b => bind2 (fun x y => Some (x + y)) (eval a en) (eval b en)
  | ESub a b => bind2 (fun x y => Some (x - y)) (eval a en) (eval b en)
  | EMul a b => bind2 (fun x y => Some (x * y)) (eval a en) (eval b en)
  | EDiv a b => bind2 (fun x y => if Z.eqb y 0 then None else Some (x / y)) (eval a en) (eval b en)
  | EMod a b => bind2 (fun x y => if Z.eqb y 0 then None else Some (x mod y)) (eval a en) (eval b en)
  end.

Definition evalc (c : cond) (en : env) : option bool :=
  match c with
  | CLt a b => match eval a en, eval b en with Some x, Some y => Some (Z.ltb x y) | _, _ => None end
  | CLe a b => match eval a en, eval b en with Some x, Some y => Some (Z.leb x y) | _, _ => None end
  | CEq a b => match eval a en, eval b en with Some x, Some y => Some (Z.eqb x y) | _, _ => None end
  | CNe a b => match eval a en, eval b en with Some x, Some y => Some (negb (Z.eqb x y)) | _, _ => None end
  end.

Fixpoint evals (es : list expr) (en : env) : option (list Z) :=
  match es with
  | [] => Some []
  | e :: r => match eval e en, evals r en with Some v, Some vs => Some (v :: vs) | _, _ => None end
  end.

Fixpoint bind_params (ps : list var) (vs : list Z) : env :=
  match ps, vs with
  | p :: ps', v :: vs' => (p, v) :: bind_params ps' vs'
  | _, _ => []
  end.

(* ---------------------------------------------------------------- statement-start events *)
Definition event := (nat * nat)%type.        (* (line of the statement that starts, call depth) *)
Definition ev_line (e : event) : nat := fst e.
Definition ev_depth (e : event) : nat := snd e.

(* ---------------------------------------------------------------- control signals and results *)
Inductive sig := SigNormal | SigBreak | SigContinue | SigRet (z : Z).

(* A result over a state type S (the plain semantics uses S = transcript, the instrumented one
   S = transcript * observer state). *)
Inductive res (S : Type) :=
| ROk (s : sig) (en : env) (st : S)
| RFail (l : nat) (st : S)          (* run-time failure in the statement starting on line l (innermost) *)
| RNoFuel (st : S).
Arguments ROk {S}. Arguments RFail {S}. Arguments RNoFuel {S}.

(* What a simple (non-compound, non-call) statement does: new signal, environment and the emitted values. *)
Definition simple_step (s : stmt) (en : env) : option (option (sig * env * list Z)) :=
  match s with
  | SAssign _ x e => Some (match eval e en with Some z => Some (SigNormal, set x z en, []) | None => None end)
  | SEmit _ e => Some (match eval e en with Some z => Some (SigNormal, en, [z]) | None => None end)
  | SReturn _ e => Some (match eval e en with Some z => Some (SigRet z, en, []) | None => None end)
  | SBreak _ => Some (Some (SigBreak, en, []))
  | SContinue _ => Some (Some (SigContinue, en, []))
  | SDef _ _ => Some (Some (SigNormal, en, []))
  | _ => None
  end.

(* Result of a call seen from the caller: the callee's `return z` binds x; a callee that runs off its end
   yields 0 (generated programs always end in a return). *)
Definition ret_value (s : sig) : Z := match s with SigRet z => z | _ => 0 end.

Definition call_result {St} (x : var) (en : env) (r : res St) : res St :=
  match r with
  | ROk sg _ st' => ROk SigNormal (set x (ret_value sg) en) st'
  | RFail l st' => RFail l st'
  | RNoFuel st' => RNoFuel st'
  end.

(* for x in range(k), starting at i; `run` executes the body once *)
Fixpoint for_loop {St} (run : env -> St -> res St) (x : var) (i : Z) (k : nat) (en : env) (st : St) : res St :=
  match k with
  | O => ROk SigNormal en st
  | S k' =>
    match run (set x i en) st with
    | ROk SigNormal en' st' | ROk SigContinue en' st' => for_loop run x (i + 1) k' en' st'
    | ROk SigBreak en' st' => ROk SigNormal en' st'
    | other => other
    end
  end.

(* The statement dispatcher shared by both semantics: what ONE statement does, given how blocks run
   (`rec depth block env state`) and how emitted values are appended to the state.  It never produces an event
   and never looks at the depth except to pass `S d` to a callee's body. *)
Definition exec_head {St} (emit : list Z -> St -> St) (rec : nat -> list stmt -> env -> St -> res St)
           (d : nat) (fs : list fdef) (s : stmt) (en : env) (st : St) : res St :=
  match simple_step s en with
  | Some (Some (sg, en', out)) => ROk sg en' (emit out st)
  | Some None => RFail (line s) st
  | None =>
    match s with
    | SCall l x f args =>
      match evals args en, nth_error fs f with
      | Some vs, Some fd =>
        if Nat.eqb (length vs) (length (params fd))
        then call_result x en (rec (S d) (body fd) (bind_params (params fd) vs) st)
        else RFail l st
      | _, _ => RFail l st
      end
    | SIf l c th el =>
      match evalc c en with
      | Some b => rec d (if b then th else el) en st
      | None => RFail l st
      end
    | SFor l x n bd =>
      match eval n en with
      | Some z => for_loop (rec d bd) x 0 (Z.to_nat z) en st
      | None => RFail l st
      end
    | _ => RFail (line s) st
    end
  end.

(* ---------------------------------------------------------------- the plain semantics *)
Definition pstate := list Z.     (* the transcript of emit(), most recent first *)

(* no events, no observer; the depth handed to the dispatcher is ignored *)
Fixpoint pexec_block (fuel : nat) (fs : list fdef) (ss : list stmt) (en : env) (st : pstate) : res pstate :=
  match fuel with
  | O => RNoFuel st
  | S fuel' =>
    match ss with
    | [] => ROk SigNormal en st
    | s :: rest =>
      match exec_head (@app Z) (fun _ ss' en' st' => pexec_block fuel' fs ss' en' st') O fs s en st with
      | ROk SigNormal en' st' => pexec_block fuel' fs rest en' st'
      | other => other
      end
    end
  end.

(* ---------------------------------------------------------------- the instrumented semantics *)

Section Hooked.
  Variable H : Type.
  Variable hook : H -> event -> H.            (* the observer: sees the event and its own state, nothing else *)

  Definition hstate := (list Z * H)%type.

  Definition fire (st : hstate) (ev : event) : hstate := (fst st, hook (snd st) ev).
  Definition emit_out (out : list Z) (st : hstate) : hstate := (out ++ fst st, snd st).

  (* d = call depth of the frame the block runs in *)
  Fixpoint exec_block (fuel : nat) (d : nat) (fs : list fdef) (ss : list stmt) (en : env) (st : hstate) : res hstate :=
    match fuel with
    | O => RNoFuel st
    | S fuel' =>
      match ss with
      | [] => ROk SigNormal en st
      | s :: rest =>
        (* before_stmt(span, continued = false), then the statement itself *)
        match exec_head emit_out (fun d' ss' en' st' => exec_block fuel' d' fs ss' en' st') d fs s en (fire st (line s, d)) with
        | ROk SigNormal en' st' => exec_block fuel' d fs rest en' st'
        | other => other
        end
      end
    end.
End Hooked.
Arguments fire {H}. Arguments emit_out {H}. Arguments exec_block {H}.

(* ---------------------------------------------------------------- big-step derivations of the plain semantics
   annotated with the list of executed statement instances.  `BExec fs d ss en p r tr`: running block ss at depth d from
   environment en and transcript p ends in r; tr lists, in execution order, one (line, depth) per rule application for a
   statement (= per executed statement instance).  SExec gives the events INSIDE a statement (its own start event is added
   by the block rule), LExec those of the remaining iterations of a loop.  Out-of-fuel has no derivation. *)
Definition exits {St} (r : res St) : Prop :=
  match r with ROk (SigRet _) _ _ => True | RFail _ _ => True | _ => False end.

Section BigStep.
  Variable fs : list fdef.

  Inductive BExec : nat -> list stmt -> env -> pstate -> res pstate -> list event -> Prop :=
  | BE_nil d en p : BExec d [] en p (ROk SigNormal en p) []
  | BE_next d s rest en p en1 p1 r tr1 tr2 :
      SExec d s en p (ROk SigNormal en1 p1) tr1 -> BExec d rest en1 p1 r tr2 ->
      BExec d (s :: rest) en p r ((line s, d) :: tr1 ++ tr2)
  | BE_stop d s rest en p r tr1 :
      SExec d s en p r tr1 -> (forall en1 p1, r <> ROk SigNormal en1 p1) ->
      BExec d (s :: rest) en p r ((line s, d) :: tr1)
  with SExec : nat -> stmt -> env -> pstate -> res pstate -> list event -> Prop :=
  | SE_simple d s en p sg en' out :
      simple_step s en = Some (Some (sg, en', out)) -> SExec d s en p (ROk sg en' (out ++ p)) []
  | SE_simple_fail d s en p :
      simple_step s en = Some None -> SExec d s en p (RFail (line s) p) []
  | SE_call d l x f args en p vs fd r tr :
      evals args en = Some vs -> nth_error fs f = Some fd -> length vs = length (params fd) ->
      BExec (S d) (body fd) (bind_params (params fd) vs) p r tr ->
      SExec d (SCall l x f args) en p (call_result x en r) tr
  | SE_call_bad d l x f args en p :
      (forall vs fd, evals args en = Some vs -> nth_error fs f = Some fd -> length vs <> length (params fd)) ->
      SExec d (SCall l x f args) en p (RFail l p) []
  | SE_if d l c th el en p b r tr :
      evalc c en = Some b -> BExec d (if b then th else el) en p r tr -> SExec d (SIf l c th el) en p r tr
  | SE_if_fail d l c th el en p :
      evalc c en = None -> SExec d (SIf l c th el) en p (RFail l p) []
  | SE_for d l x n bd en p z r tr :
      eval n en = Some z -> LExec d x bd 0 (Z.to_nat z) en p r tr -> SExec d (SFor l x n bd) en p r tr
  | SE_for_fail d l x n bd en p :
      eval n en = None -> SExec d (SFor l x n bd) en p (RFail l p) []
  with LExec : nat -> var -> list stmt -> Z -> nat -> env -> pstate -> res pstate -> list event -> Prop :=
  | LE_done d x bd i en p : LExec d x bd i O en p (ROk SigNormal en p) []
  | LE_next d x bd i k en p sg en1 p1 r tr1 tr2 :
      BExec d bd (set x i en) p (ROk sg en1 p1) tr1 -> (sg = SigNormal \/ sg = SigContinue) ->
      LExec d x bd (i + 1) k en1 p1 r tr2 -> LExec d x bd i (S k) en p r (tr1 ++ tr2)
  | LE_break d x bd i k en p en1 p1 tr1 :
      BExec d bd (set x i en) p (ROk SigBreak en1 p1) tr1 -> LExec d x bd i (S k) en p (ROk SigNormal en1 p1) tr1
  | LE_exit d x bd i k en p r tr1 :
      BExec d bd (set x i en) p r tr1 -> exits r -> LExec d x bd i (S k) en p r tr1.
End BigStep.

(* ---------------------------------------------------------------- whole programs, outcomes *)
Inductive completion := Done | Failed (l : nat) | OutOfFuel.

(* What the user can see of a run: the transcript (oldest first) and how the run ended. *)
Definition outcome := (list Z * completion)%type.

Definition completion_of {S} (r : res S) : completion :=
  match r with ROk _ _ _ => Done | RFail l _ => Failed l | RNoFuel _ => OutOfFuel end.
Definition state_of {S} (r : res S) : S :=
  match r with ROk _ _ st => st | RFail _ st => st | RNoFuel st => st end.

(* the plain run of a program *)
Definition run_plain (fuel : nat) (p : program) : outcome :=
  let r := pexec_block fuel (funs p) (main p) [] [] in (rev (state_of r), completion_of r).

(* the instrumented run with an observer *)
Definition exec_hooked {H} (hook : H -> event -> H) (h0 : H) (fuel : nat) (p : program) : outcome * H :=
  let r := exec_block hook fuel 0 (funs p) (main p) [] ([], h0) in
  ((rev (fst (state_of r)), completion_of r), snd (state_of r)).

Definition outcome_of {H} (x : outcome * H) : outcome := fst x.
Definition hstate_of {H} (x : outcome * H) : H := snd x.

(* no instrumentation = the observer with no state *)
Definition unit_hook (u : unit) (_ : event) : unit := u.
Definition exec (fuel : nat) (p : program) : outcome * unit := exec_hooked unit_hook tt fuel p.

(* the trace: the list-of-events observer *)
Definition rec_hook (l : list event) (ev : event) : list event := ev :: l.
Definition trace (fuel : nat) (p : program) : list event := rev (hstate_of (exec_hooked rec_hook [] fuel p)).

(* a statement profiler: per-line execution counts (StmtProfile::before_stmt counts per span) *)
Definition count_hook (l : nat) (n : nat) (ev : event) : nat := if Nat.eqb (ev_line ev) l then S n else n.

(* ---------------------------------------------------------------- the debug adapter's decision function *)
Inductive kind := Into | Over | Out.
Inductive cmd := Continue | Step (k : kind).

Definition step_state := option (kind * nat).

Fixpoint mem (x : nat) (l : list nat) : bool :=
  match l with [] => false | y :: r => Nat.eqb x y || mem x r end.

(* DapAdapterEvalHookImpl::call: `step_stop` *)
Definition step_stop (s : step_state) (depth : nat) : bool :=
  match s with
  | None => false
  | Some (Into, _) => true
  | Some (Over, saved) => Nat.leb depth saved
  | Some (Out, saved) => Nat.ltb depth saved
  end.

Definition should_stop (B : list nat) (s : step_state) (ev : event) : bool :=
  mem (ev_line ev) B || step_stop s (ev_depth ev).

(* after a stop at ev the user's command decides the new step state *)
Definition after_cmd (c : cmd) (ev : event) : step_state :=
  match c with Continue => None | Step k => Some (k, ev_depth ev) end.

(* The user: which command is given at the n-th stop (0-based), knowing where it stopped. *)
Definition policy := nat -> event -> cmd.

(* the list of stops when the adapter is fed a sequence of statement-start events *)
Fixpoint run_dbg (B : list nat) (pol : policy) (s : step_state) (n : nat) (tr : list event) : list event :=
  match tr with
  | [] => []
  | ev :: rest =>
    if should_stop B s ev
    then ev :: run_dbg B pol (after_cmd (pol n ev) ev) (S n) rest
    else run_dbg B pol s n rest
  end.

Definition stops (B : list nat) (pol : policy) (tr : list event) : list event := run_dbg B pol None 0 tr.

(* The same adapter as an observer of the instrumented interpreter: state = (step, number of stops, stops so far). *)
Definition dbg_state := (step_state * nat * list event)%type.
Definition dbg_hook (B : list nat) (pol : policy) (st : dbg_state) (ev : event) : dbg_state :=
  let '(s, n, acc) := st in
  if should_stop B s ev then (after_cmd (pol n ev) ev, S n, ev :: acc) else (s, n, acc).
Definition dbg_init : dbg_state := (None, O, []).
Definition dbg_stops (st : dbg_state) : list event := rev (snd st).

Definition always (c : cmd) : policy := fun _ _ => c.

(* command scripts: the i-th stop gets the i-th command, the last one repeats *)
Definition script (cs : list cmd) : policy := fun n _ => nth n cs (last cs Continue).

Fixpoint drop_until (f : event -> bool) (tr : list event) : list event :=
  match tr with [] => [] | ev :: rest => if f ev then ev :: rest else drop_until f rest end.
