(* C13 property theorems: frozen values stay alive as long as anything that can reach them is alive.
   Model: Refs/Model.v (history machine over heaps, Arc counts, value edges, external objects).
   Nothing but statements closed by `exact` and satisfiability examples; pinned in coq/pins/C13.txt. *)
From Coq Require Import List Arith Bool Permutation.
From SV Require Import Refs.Model Refs.Proofs Refs.Cases.
Import ListNotations.

(* WF = count invariant (the strong count of every heap covers its holders; released heaps have count 0)
        /\ Inv (every value edge out of a live heap is covered by a chain of heap references)
        /\ RootInv (every value a held object gives access to is covered by a heap that object holds). *)
Theorem C13_wf_unfold : forall st, WF st <-> (Cnt st /\ Inv st /\ RootInv st).
Proof. intros; split; intro H; exact H. Qed.

(* every operation of the machine preserves the invariant: this is where every add_reference site is used *)
Theorem C13_inv_step : forall st o, WF st -> WF (step st o).
Proof. exact step_wf. Qed.

Theorem C13_inv_reachable : forall hist, WF (run hist).
Proof. exact run_wf. Qed.

Theorem C13_edges_covered : forall hist a b,
  alive (run hist) a = true -> In b (edges (run hist) a) -> rstar (run hist) a b.
Proof. intros hist. exact (proj1 (proj2 (run_wf hist))). Qed.

(* a heap that is held (directly, or through a chain of references from a live heap) is alive *)
Theorem C13_held_heaps_alive : forall hist r ro x y,
  held (run hist) r ro -> In x (r_holds ro) -> rstar (run hist) x y -> alive (run hist) y = true.
Proof.
  intros hist r ro x y Hh Hin R. destruct (run_wf hist) as [HC _].
  eapply rstar_alive; eauto. eapply held_alive; eauto.
Qed.

(* THE PROPERTY on the model: for every history (so: every drop order), everything reachable through value
   edges from a value that a still-held object gives access to lives in a heap that has not been released *)
Theorem C13_live_reachable_intact : forall hist r ro s v w,
  held (run hist) r ro -> In (s, v) (r_vals ro) -> estar (run hist) v w -> alive (run hist) w = true.
Proof. intros hist r ro s v w. exact (wf_live_reachable (run hist) r ro s v w (run_wf hist)). Qed.

Theorem C13_no_use_after_free : forall hist, ~ use_after_free (run hist).
Proof. intros hist. exact (wf_no_use_after_free (run hist) (run_wf hist)). Qed.

Theorem C13_drop_order_irrelevant : forall hist d1 d2, Permutation d1 d2 ->
  let s1 := run (hist ++ map OpDrop d1) in
  let s2 := run (hist ++ map OpDrop d2) in
  roots s1 = roots s2 /\ (forall x, edges s1 x = edges s2 x) /\ (forall x, all_refs s1 x = all_refs s2 x) /\
  forall r ro s v w, held s1 r ro -> In (s, v) (r_vals ro) -> estar s1 v w ->
    held s2 r ro /\ estar s2 v w /\ alive s1 w = true /\ alive s2 w = true.
Proof. exact drop_order_irrelevant. Qed.

(* each reference-taking site of the code is necessary: without it a concrete history ends in a held object
   that reaches a released heap *)
Theorem C13_site_load_symbol_needed : use_after_free (run_cfg (without SiteLoad) hist_load).
Proof. exact site_load_needed. Qed.
Theorem C13_site_freeze_carry_needed : use_after_free (run_cfg (without SiteFreezeCarry) hist_freeze).
Proof. exact site_freeze_carry_needed. Qed.
Theorem C13_site_import_needed : use_after_free (run_cfg (without SiteImport) hist_import).
Proof. exact site_import_needed. Qed.
Theorem C13_site_get_owned_needed : use_after_free (run_cfg (without SiteGetOwned) hist_owned).
Proof. exact site_get_owned_needed. Qed.
Theorem C13_site_add_to_heap_needed : use_after_free (run_cfg (without SiteAddToHeap) hist_add_to_heap).
Proof. exact site_add_to_heap_needed. Qed.
Theorem C13_site_add_to_builder_needed : use_after_free (run_cfg (without SiteAddToBuilder) hist_builder).
Proof. exact site_add_to_builder_needed. Qed.
Theorem C13_site_eval_globals_needed : use_after_free (run_cfg (without SiteEvalGlobals) hist_globals).
Proof. exact site_eval_globals_needed. Qed.
Theorem C13_site_from_globals_needed : use_after_free (run_cfg (without SiteFromGlobals) hist_from_globals).
Proof. exact site_from_globals_needed. Qed.

(* Heaps that hold ONLY references (nothing allocated: OwnedFrozen::build moving a handle, a hand-made
   FrozenHeap::new() + add_reference + into_ref, GlobalsBuilder::new() over foreign values) are legitimate holders;
   the "empty heap" shortcut of FrozenHeap::into_ref_impl may fire only when the reference list is empty too:
   with the shortcut on `arena.is_empty()` alone a re-homed handle (also through two hops, also as a Globals)
   reaches a released heap once the module and the original handle are dropped. *)
Theorem C13_seal_refs_check_needed : use_after_free (run_cfg (without SiteSealRefsCheck) hist_carrier).
Proof. exact seal_refs_check_needed. Qed.
Theorem C13_seal_refs_check_needed_chain : use_after_free (run_cfg (without SiteSealRefsCheck) hist_carrier_chain).
Proof. exact seal_refs_check_needed_chain. Qed.
Theorem C13_seal_refs_check_needed_globals : use_after_free (run_cfg (without SiteSealRefsCheck) hist_carrier_globals).
Proof. exact seal_refs_check_needed_globals. Qed.
Theorem C13_carrier_add_reference_needed : use_after_free (run_cfg (without SiteAddToBuilder) hist_carrier).
Proof. exact carrier_add_reference_needed. Qed.

(* ... and the step lemma itself fails without them *)
Theorem C13_load_step_needs_reference : exists st o, WF st /\ ~ Inv (step_cfg (without SiteLoad) st o).
Proof. exact load_step_needs_reference. Qed.
Theorem C13_freeze_step_needs_carry : exists st o, WF st /\ ~ Inv (step_cfg (without SiteFreezeCarry) st o).
Proof. exact freeze_step_needs_carry. Qed.
Theorem C13_get_owned_step_needs_reference : exists st o, WF st /\ ~ RootInv (step_cfg (without SiteGetOwned) st o).
Proof. exact get_owned_step_needs_reference. Qed.

Theorem C13_seal_step_needs_refs_check : exists st o, WF st /\ ~ RootInv (step_cfg (without SiteSealRefsCheck) st o).
Proof. exact seal_step_needs_refs_check. Qed.
Theorem C13_seal_step_weak_breaks_wf : exists st o, WF st /\ ~ WF (step_cfg (without SiteSealRefsCheck) st o).
Proof. exact seal_step_weak_breaks_wf. Qed.

(* the hypotheses are satisfiable on a non-trivial state: A defines x; B loads x, embeds it in a container and
   re-exports both; C loads both from B; an owned handle to C's container is taken and mapped into A's value;
   A, B and C are dropped in that order: the handle (root 4) still reaches heaps 2, 1... and heap 0 is alive. *)
Definition C13_chain : list op :=
  [OpNewModule; OpDefine 0 1 []; OpFreeze 0;
   OpNewModule; OpLoad 1 0 1 1; OpDefine 1 2 [1]; OpAlias 1 3 1; OpFreeze 1;
   OpNewModule; OpLoad 2 1 2 2; OpLoad 2 1 3 3; OpDefine 2 4 [2; 3]; OpFreeze 2;
   OpGetOwned 2 4; OpMap 3 1; OpDrop 0; OpDrop 1; OpDrop 2; OpDrop 3].

Example C13_chain_nontrivial :
  held (run C13_chain) 4 (mkRoot KHandle [2] [(0, 1)]) /\ estar (run C13_chain) 1 0 /\
  alive (run C13_chain) 0 = true /\ alive (run C13_chain) 1 = true /\ alive (run C13_chain) 2 = true /\
  safe_b (run C13_chain) = true /\ safe_b (run (C13_chain ++ [OpDrop 4])) = true /\
  alive (run (C13_chain ++ [OpDrop 4])) 0 = false.
Proof.
  repeat split; try (vm_compute; reflexivity).
  apply (es_step _ 1 0 0); [vm_compute; auto | constructor].
Qed.

Example C13_sites_present_safe :
  alive (run hist_load) 0 = true /\ alive (run hist_freeze) 0 = true /\ alive (run hist_import) 0 = true /\
  alive (run hist_owned) 0 = true /\ alive (run hist_add_to_heap) 0 = true /\ alive (run hist_builder) 0 = true /\
  alive (run hist_globals) 0 = true /\ alive (run hist_from_globals) 0 = true.
Proof. exact sites_present_safe. Qed.

(* carriers under the real mechanism: the chain handle -> carrier 2 -> carrier 1 -> module heap 0 stays alive after the
   module, the original handle and the intermediate handle are dropped; no value edge leaves a carrier; dropping the
   last handle releases everything; a carrier sealed without references is the shared empty ref *)
Example C13_carriers_safe :
  alive (run hist_carrier) 0 = true /\ alive (run hist_carrier) 1 = true /\
  alive (run hist_carrier_chain) 0 = true /\ alive (run hist_carrier_chain) 1 = true /\ alive (run hist_carrier_chain) 2 = true /\
  get_root (run hist_carrier_chain) 3 = Some (mkRoot KHandle [2] [(0, 0)]) /\
  all_refs (run hist_carrier_chain) 2 = [1] /\ all_refs (run hist_carrier_chain) 1 = [0] /\
  edges (run hist_carrier_chain) 2 = [] /\
  alive (run (hist_carrier_chain ++ [OpDrop 3])) 0 = false /\
  alive (run hist_carrier_globals) 0 = true /\
  alive (run (hist_carrier_globals ++ [OpFromGlobals 2; OpDrop 2])) 0 = true.
Proof. exact carriers_safe. Qed.

Example C13_empty_carrier_is_default :
  get_root (run [OpNewCarrier; OpSealCarrier 0 true]) 0 = Some (mkRoot KGlobals [] []) /\
  alive (run [OpNewCarrier; OpSealCarrier 0 true]) 0 = false.
Proof. exact empty_carrier_is_default. Qed.
