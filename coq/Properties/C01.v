(* C01 property theorems (reference semantics meta-theory and pipeline-stage theorems). *)
From Coq Require Import ZArith String List.
From SV Require Import Core.Syntax Core.Values Core.Sem Core.SemProofs Core.StrProofs Int.Str.
From SV Require Import Core.Slice Core.SliceProofs Scope.Tree Scope.Model Scope.Spec Scope.Proofs.
Import ListNotations.
Open Scope string_scope.
Open Scope Z_scope.

(* The reference semantics is well defined on terminating programs: an outcome obtained with some
   fuel (other than fuel exhaustion) is the outcome with every larger fuel.  This makes the
   quantifier "terminating programs, out-of-fuel excluded" of the property meaningful. *)
Theorem C01_eval_fuel_mono : forall n m en e s r, (n <= m)%nat ->
  eval n en e s = r -> r <> OutOfFuel -> eval m en e s = r.
Proof. exact eval_fuel_mono. Qed.

Theorem C01_exec_fuel_mono : forall n m en st s r, (n <= m)%nat ->
  exec n en st s = r -> r <> OutOfFuel -> exec m en st s = r.
Proof. exact exec_fuel_mono. Qed.

Theorem C01_run_program_fuel_mono : forall n m prog tr o, (n <= m)%nat ->
  run_program n prog = (tr, o) -> o <> NoFuel -> run_program m prog = (tr, o).
Proof. exact run_program_fuel_mono. Qed.

(* ---- pipeline-stage theorems: slicing (values/index.rs) and name resolution (scope.rs) ---- *)
(* ---- slicing: the model of values/index.rs equals the declarative slice ---- *)
Theorem C01_slice_impl_eq_spec : forall (A : Type) (xs : list A) (start stop stride : option Z),
  Slice.apply_slice xs start stop stride = Slice.slice_spec xs start stop stride.
Proof. exact SliceProofs.apply_slice_eq_spec. Qed.

Theorem C01_slice_indices_bounds : forall len start stop stride a b s,
  0 <= len ->
  Slice.convert_slice_indices len start stop stride = Some (a, b, s) ->
  s = SliceProofs.stride_of stride /\ s <> 0 /\
  SliceProofs.clamp_of s <= a <= len + SliceProofs.clamp_of s /\
  SliceProofs.clamp_of s <= b <= len + SliceProofs.clamp_of s.
Proof. exact SliceProofs.convert_slice_indices_bounds. Qed.

Theorem C01_slice_spec_explicit : forall (A : Type) (d : A) (xs : list A) start stop stride a b s,
  Slice.convert_slice_indices (Z.of_nat (length xs)) start stop stride = Some (a, b, s) ->
  let n := SliceProofs.slice_len a b s in
  Slice.slice_spec xs start stop stride =
    Some (map (fun m => nth (Z.to_nat (a + Z.of_nat m * s)) xs d) (seq 0 (Z.to_nat n))) /\
  0 <= n <= Z.of_nat (length xs) /\
  (forall m, 0 <= m < n -> 0 <= a + m * s < Z.of_nat (length xs)).
Proof. exact SliceProofs.slice_spec_explicit. Qed.

Theorem C01_slice_length : forall (A : Type) (xs r : list A) start stop stride a b s,
  Slice.convert_slice_indices (Z.of_nat (length xs)) start stop stride = Some (a, b, s) ->
  Slice.apply_slice xs start stop stride = Some r ->
  Z.of_nat (length r) = SliceProofs.slice_len a b s.
Proof. exact SliceProofs.slice_length. Qed.

Theorem C01_slice_defined_iff_stride_nonzero : forall (A : Type) (xs : list A) start stop stride,
  SliceProofs.stride_of stride <> 0 -> exists r, Slice.apply_slice xs start stop stride = Some r.
Proof. exact SliceProofs.apply_slice_defined. Qed.

Theorem C01_convert_index_python : forall x len,
  Slice.convert_index x len = if andb (- len <=? x) (x <? len) then Some (x mod len) else None.
Proof. exact SliceProofs.convert_index_python. Qed.

Theorem C01_convert_index_spec : forall x len i,
  Slice.convert_index x len = Some i -> 0 <= i < len /\ (i = x \/ i = len + x).
Proof. exact SliceProofs.convert_index_spec. Qed.

(* ---- name resolution: the resolver of scope.rs equals the lexical rule ---- *)
Theorem C01_resolve_alg_eq_decl : forall globals prog,
  Proofs.alg_view (fst (Model.resolve_prog globals prog)) =
  Proofs.decl_view (Spec.resolve_prog_decl globals prog).
Proof. exact Proofs.resolve_alg_eq_decl. Qed.

(* the same in any lexical context, from any resolver state related to it (the form used compositionally) *)
Theorem C01_resolve_sim : forall mods globals t ctx st o st', Proofs.Inv ctx st ->
  Model.a_sk mods globals t st = (o, st') ->
  Proofs.Inv ctx st' /\ Proofs.alg_view o = Proofs.decl_view (Spec.d_sk mods globals ctx t).
Proof. exact Proofs.sim. Qed.

Theorem C01_def_scope_names_spec : forall ps body x,
  In x (Tree.def_scope_names ps body) <-> In x (map param_name ps) \/ In x (body_names body).
Proof. exact Proofs.def_scope_names_spec. Qed.

Theorem C01_module_names_spec : forall prog x,
  In x (Tree.module_names prog) <-> In x (body_names prog).
Proof. exact Proofs.module_names_spec. Qed.

Theorem C01_param_slots_first : forall d ps body,
  NoDup (map param_name ps) ->
  let sc := Model.init_scope d (map param_name ps) (Tree.def_scope_names ps body) in
  Model.sn_pcount sc = length ps /\
  firstn (length ps) (Model.sn_used sc) = map param_name ps /\
  (forall i x, nth_error (map param_name ps) i = Some x -> Proofs.view_of sc x = Some (i, (d, x))).
Proof. exact Proofs.param_slots_first. Qed.

Theorem C01_captured_only_if_nested_use : forall globals prog b,
  In (Model.CapLocal b) (Model.st_captured (snd (Model.resolve_prog globals prog))) ->
  In (snd b, Spec.BFrame (fst b) true) (Spec.resolve_prog_decl globals prog).
Proof. exact Proofs.captured_only_if_nested_use. Qed.

(* ---- strings (MiniStar stage 2): what the string operations of the reference semantics compute ---- *)
(* sep.join(s.split(sep[, maxsplit])) == s for every non-empty separator and every limit *)
Theorem C01_split_join_roundtrip : forall sep x maxsplit, sep <> "" ->
  str_join sep (str_split sep x maxsplit) = x.
Proof. exact split_join_roundtrip. Qed.

(* s.strip(chars) / s.strip() is idempotent (f = the set of stripped characters) *)
Theorem C01_strip_idempotent : forall f x, strip_by f (strip_by f x) = strip_by f x.
Proof. exact strip_idem. Qed.

Theorem C01_lstrip_result_starts_unstripped : forall f x c r, lstrip_by f x = String c r -> f c = false.
Proof. exact lstrip_first. Qed.

(* s.replace(a, a[, count]) == s, also for the empty string *)
Theorem C01_replace_same_is_identity : forall x a count, str_replace x a a count = x.
Proof. exact replace_same. Qed.

Theorem C01_replace_absent_is_identity : forall x old new count, old <> "" ->
  find_from old x 0 = None -> str_replace x old new count = x.
Proof. exact replace_absent. Qed.

(* s.find(p) is the position of the FIRST occurrence; no position at all when it reports none *)
Theorem C01_find_first_occurrence : forall p x i0 i, find_from p x i0 = Some i ->
  exists k, i = (i0 + k)%nat /\ (k <= String.length x)%nat /\ is_prefix p (sdrop k x) = true /\
            forall j, (j < k)%nat -> is_prefix p (sdrop j x) = false.
Proof. exact find_from_spec. Qed.

Theorem C01_find_none_no_occurrence : forall p x i0, find_from p x i0 = None ->
  forall j, (j <= String.length x)%nat -> is_prefix p (sdrop j x) = false.
Proof. exact find_from_none. Qed.

Theorem C01_find_whole_string : forall x p, str_find x p None None =
  match find_from p x 0 with Some i => Some (Z.of_nat i) | None => None end.
Proof. exact str_find_whole. Qed.

(* s.startswith(p) holds exactly when p is a prefix of s *)
Theorem C01_startswith_is_prefix : forall x p, str_method_pure x "startswith" [OStr p] [] = rbool (is_prefix p x).
Proof. exact startswith_is_prefix. Qed.

Theorem C01_is_prefix_spec : forall p x, is_prefix p x = true <-> exists r, x = String.append p r.
Proof. exact is_prefix_spec. Qed.

(* a, b, c = s.partition(sep): a + b + c == s *)
Theorem C01_partition_concat : forall x sep,
  let '(a, b, c) := str_partition x sep in String.append a (String.append b c) = x.
Proof. exact partition_concat. Qed.

Theorem C01_upper_idempotent : forall x, str_upper (str_upper x) = str_upper x.
Proof. exact str_upper_idem. Qed.

Theorem C01_lower_idempotent : forall x, str_lower (str_lower x) = str_lower x.
Proof. exact str_lower_idem. Qed.

(* "%d" % z is the decimal rendering of C10 (Int.Str.render, inverse of int()) *)
Theorem C01_percent_d_is_render : forall z, percent_pure "%d" (OInt z) = rstr (render 10 z).
Proof. exact percent_d_render. Qed.

Theorem C01_percent_arity_errors : percent_pure "%d" (OTuple []) = rerr TypeErr /\
  forall a b, percent_pure "%d" (OTuple [OInt a; OInt b]) = rerr TypeErr.
Proof. split; [exact percent_not_enough | exact percent_too_many]. Qed.

Theorem C01_percent_without_conversions : forall x, sexists (Ascii.eqb ch_pct) x = false ->
  percent_pure x (OTuple []) = rstr x.
Proof. exact percent_plain. Qed.

Theorem C01_format_one_is_str : forall v t, str_obs v = Some t -> format_pure "{}" [v] [] = rstr t.
Proof. exact format_one. Qed.

Theorem C01_format_mixed_numbering_rejected : forall a b,
  format_pure "{0}{}" [OInt a; OInt b] [] = rerr ValueErr /\ format_pure "{}{0}" [OInt a; OInt b] [] = rerr ValueErr.
Proof. intros a b. split; [apply format_mix_rejected | apply format_mix_rejected']. Qed.

(* the string layer inside whole programs: methods, "%", format with keyword arguments, repr, a failing index() *)
Example C01_strings_nonvacuous :
  run_program 50 [SAssign 1 (TVar "s") (EStr "a,b,,c");
                  SExpr 2 (ECall (EVar "emit") [EMeth (EStr "-") "join" [EMeth (EVar "s") "split" [EStr ","] []] []] [] None None);
                  SExpr 3 (ECall (EVar "emit") [EBin BMod (EStr "%s=%d %r") (ETuple [EStr "x"; EInt (-7); EList [EInt 1]])] [] None None);
                  SExpr 4 (ECall (EVar "emit") [EMeth (EStr "{} {k!r} {{}}") "format" [EInt 1] [("k", EStr "q")]] [] None None);
                  SExpr 5 (EMeth (EVar "s") "index" [EStr "z"] [])]
  = ([OStr "a-b--c"; OStr "x=-7 [1]"; OStr "1 ""q"" {}"], Failed ValueErr (Some 5)).
Proof. vm_compute. reflexivity. Qed.

Example C01_runs_nonvacuous :
  run_program 50 [SAssign 1 (TVar "x") (EList [EInt 1; EInt 2]);
                  SExpr 2 (EMeth (EVar "x") "append" [EInt 3] []);
                  SExpr 3 (ECall (EVar "emit") [EVar "x"] [] None None);
                  SExpr 4 (EIndex (EVar "x") (EInt 7))]
  = ([OList [OInt 1; OInt 2; OInt 3]], Failed IndexErr (Some 4)).
Proof. vm_compute. reflexivity. Qed.

(* ---- C01: slot resolution + slot machine simulate the reference semantics (Scope/SlotSyntax.v, SlotSem.v, SlotSim.v) ----
   Paste at the end of coq/Properties/C01.v.  `Require` without `Import`: every name below is fully qualified, so nothing of
   C01.v is shadowed.  COQ_TARGETS of tools/props/C01.py needs "Scope/SlotSim.vo" (it pulls SlotSyntax.vo and SlotSem.vo). *)
From SV Require Scope.SlotSyntax Scope.SlotSem Scope.SlotSim.

(* slots_sim, proved part.  SlotSyntax.resolve_prog = the compiler's name resolution into Module / Local / Captured / Builtin slots
   (None when a name does not resolve); SlotSem.run_slot_program = the evaluator's frame discipline (slot arrays, cells for captured
   variables allocated lazily and kept in the slot, closures carrying the cells of the enclosing frame, module slots).
   For every program in which no lambda captures a COMPREHENSION variable, and whose reference run does not fail with Unbound,
   the slot machine yields the same transcript and the same outcome as Sem.run_program, with the same fuel.
   Covered: module variables, locals, parameters, defaults, *args/**kwargs, nested defs and lambdas capturing locals/parameters of
   any enclosing function (also before their first assignment, also loop variables), recursion, comprehension scoping and
   shadowing, every expression/statement form of MiniStar. *)
Theorem C01_slots_sim_partial : forall fuel prog sp,
  SlotSyntax.resolve_prog prog = Some sp ->
  SlotSyntax.compr_vars_uncaptured prog = true ->
  (forall ln, snd (Sem.run_program fuel prog) <> Sem.Failed Values.Unbound ln) ->
  SlotSem.run_slot_program fuel sp = Sem.run_program fuel prog.
Proof. exact SlotSim.slots_sim_partial. Qed.

(* the same, stated with the resolver that refuses the excluded programs *)
Theorem C01_slots_sim_strict : forall fuel prog sp,
  SlotSyntax.resolve_prog_strict prog = Some sp ->
  (forall ln, snd (Sem.run_program fuel prog) <> Sem.Failed Values.Unbound ln) ->
  SlotSem.run_slot_program fuel sp = Sem.run_program fuel prog.
Proof. exact SlotSim.slots_sim_strict. Qed.

(* the strict resolver only refuses more programs: what it produces is what the compiler's resolver produces *)
Theorem C01_slots_strict_resolver_agrees : forall prog sp,
  SlotSyntax.resolve_prog_strict prog = Some sp -> SlotSyntax.resolve_prog prog = Some sp.
Proof. exact SlotSim.strict_prog. Qed.

(* The FULL statement (forall fuel prog sp, resolve_prog prog = Some sp -> run_slot_program fuel sp = run_program fuel prog) is
   REFUTED by the faithful machine: the evaluator keeps the cell of a captured comprehension variable in its frame slot, so all
   evaluations of that comprehension in one activation share it.  Witness SlotSem.ex_compr_cell_shared; the same program on the
   real evaluator prints [1, 1] where the reference semantics (and Python) give [0, 1]:
     def f():
         fs = []
         for i in range(2):
             fs.append([lambda: x for x in [i]])
         emit([g[0]() for g in fs])
     f()                                                                                                                       *)
Theorem C01_slots_sim_refuted :
  exists fuel prog sp, SlotSyntax.resolve_prog prog = Some sp /\
    (forall ln, snd (Sem.run_program fuel prog) <> Sem.Failed Values.Unbound ln) /\
    SlotSem.run_slot_program fuel sp <> Sem.run_program fuel prog.
Proof. exact SlotSim.slots_sim_refuted. Qed.

(* and the Unbound side condition cannot be dropped either: a comprehension slot keeps its value across evaluations, so a read
   before assignment in a LATER evaluation of the same comprehension succeeds on the machine (witness SlotSem.ex_compr_stale_slot;
   the real evaluator prints [[2], [2]] where the reference fails):
     def f():
         r = []
         for i in range(2):
             r.append([b for a in [i] if (a == 0 or b) for b in [2]])
         emit(r)
     f()                                                                                                                       *)
Theorem C01_slots_sim_unbound_needed :
  exists fuel prog sp, SlotSyntax.resolve_prog prog = Some sp /\ SlotSyntax.compr_vars_uncaptured prog = true /\
    SlotSem.run_slot_program fuel sp <> Sem.run_program fuel prog.
Proof. exact SlotSim.slots_sim_unbound_needed. Qed.

(* the hypotheses are satisfiable on non-trivial programs, and both interpreters really run them:
   nested def capturing a loop variable and a parameter; comprehension shadowing a parameter; recursion, defaults, *args/**kwargs,
   a variable captured before its first assignment, a failing last statement *)
Example C01_slots_capture_loop_nonvacuous :
  SlotSyntax.compr_vars_uncaptured SlotSem.ex_capture_loop = true /\
  SlotSem.run_resolved 60 SlotSem.ex_capture_loop = Some (Sem.run_program 60 SlotSem.ex_capture_loop) /\
  Sem.run_program 60 SlotSem.ex_capture_loop =
    ([Values.OList [Values.OInt 15; Values.OInt 15; Values.OInt 15]; Values.OInt 12], Sem.Done).
Proof. vm_compute. repeat split. Qed.

Example C01_slots_compr_shadow_nonvacuous :
  SlotSyntax.compr_vars_uncaptured SlotSem.ex_compr_shadow = true /\
  SlotSem.run_resolved 60 SlotSem.ex_compr_shadow = Some (Sem.run_program 60 SlotSem.ex_compr_shadow) /\
  fst (Sem.run_program 60 SlotSem.ex_compr_shadow) =
    [Values.OTuple [Values.OList [Values.OInt 1; Values.OInt 2; Values.OInt 9; Values.OInt 12]; Values.OInt 2];
     Values.OList [Values.OInt 5; Values.OInt 6]; Values.OInt 5].
Proof. vm_compute. repeat split. Qed.

Example C01_slots_recursion_nonvacuous :
  SlotSyntax.compr_vars_uncaptured SlotSem.ex_recursion = true /\
  SlotSem.run_resolved 60 SlotSem.ex_recursion = Some (Sem.run_program 60 SlotSem.ex_recursion) /\
  Sem.run_program 60 SlotSem.ex_recursion =
    ([Values.OInt 120; Values.OTuple [Values.OInt 6; Values.OInt 33]], Sem.Failed Values.Unbound (Some 11)).
Proof. vm_compute. repeat split. Qed.

(* ---- index and slice-bound normalisation as translated from /repo's sources on this run ----------
   (tools/rs2v.py -> Extracted/RsIndex.v, RsConv.v).  The reference semantics slices through
   Core.Slice.convert_slice_indices; these theorems say values/index.rs computes exactly that. *)
From SV Require Rs.Prelude Rs.ProofsIndex Extracted.RsIndex Extracted.RsConv.

Theorem C01_source_slice_indices : forall len s e st,
  SV.Rs.ProofsIndex.wfv s -> SV.Rs.ProofsIndex.wfv e -> SV.Rs.ProofsIndex.wfv st ->
  SV.Extracted.RsIndex.rs_convert_slice_indices len s e st =
  SV.Rs.ProofsIndex.slice_res len (SV.Rs.ProofsIndex.bnd s) (SV.Rs.ProofsIndex.bnd e) (SV.Rs.ProofsIndex.bnd st).
Proof. exact SV.Rs.ProofsIndex.rs_convert_slice_indices_eq. Qed.

(* clamping a bound to i32 first (unpack_slice_bound) is invisible for a sequence whose length fits i32 *)
Theorem C01_source_clamp_invisible : forall len x d mn mx,
  0 <= len <= SV.Rs.Prelude.i32_MAX -> -1 <= mn <= mx -> mx <= len ->
  SV.Core.Slice.convert_index_aux len (Some (SV.Rs.ProofsIndex.clamp32 x)) d mn mx =
  SV.Core.Slice.convert_index_aux len (Some x) d mn mx.
Proof. exact SV.Rs.ProofsIndex.convert_index_aux_clamp. Qed.

Theorem C01_source_convert_index : forall x len,
  0 <= len <= SV.Rs.Prelude.i32_MAX -> SV.Int.Model.wf (SV.Int.Model.Small x) ->
  SV.Rs.Prelude.m_ok (SV.Extracted.RsIndex.rs_convert_index (SV.Rs.Prelude.VInt (SV.Int.Model.Small x)) len) =
  SV.Core.Slice.convert_index x len.
Proof. exact SV.Rs.ProofsIndex.rs_convert_index_eq. Qed.

(* the start/end window of str.find/index/count/startswith/endswith (convert_indices.rs) *)
Theorem C01_source_str_window_indices : forall len s e,
  0 <= len <= SV.Rs.Prelude.i32_MAX ->
  match s with Some x => SV.Rs.Prelude.i32_MIN <= x <= SV.Rs.Prelude.i32_MAX | None => True end ->
  match e with Some x => SV.Rs.Prelude.i32_MIN <= x <= SV.Rs.Prelude.i32_MAX | None => True end ->
  let norm := fun (o : option Z) d => let x := match o with Some x => x | None => d end in if x <? 0 then x + len else x in
  SV.Extracted.RsConv.rs_convert_indices len s e =
  (SV.Rs.ProofsIndex.bound_spec (norm s 0) len, SV.Rs.ProofsIndex.bound_spec (norm e len) len).
Proof. exact SV.Rs.ProofsIndex.rs_convert_indices_spec. Qed.

Example C01_source_nonvacuous :
  SV.Extracted.RsIndex.rs_convert_slice_indices 5 (Some (SV.Rs.Prelude.VInt (SV.Int.Model.Big (- 2 ^ 40)))) None
    (Some (SV.Rs.Prelude.VInt (SV.Int.Model.Small (-1)))) = SV.Rs.Prelude.ROk (-1, -1, -1) /\
  SV.Extracted.RsConv.rs_convert_indices 3 (Some (-5)) (Some (-100)) = (0, 0).
Proof. split; vm_compute; reflexivity. Qed.

(* ---- range(): length, truth and membership as translated from range_type.rs on this run ------------ *)
From SV Require Extracted.RsRange.

Theorem C01_source_range_length : forall lo hi st,
  SV.Rs.ProofsIndex.i32b lo -> SV.Rs.ProofsIndex.i32b hi -> SV.Rs.ProofsIndex.i32b st -> st <> 0 ->
  SV.Extracted.RsRange.rs_range_length {| SV.Rs.Prelude.f_start := lo; SV.Rs.Prelude.f_stop := hi; SV.Rs.Prelude.f_step := st |} =
  (let n := SV.Core.Values.range_len lo hi st in
   if n <=? 2147483647 then SV.Rs.Prelude.ROk n else SV.Rs.Prelude.RErr SV.Rs.Prelude.E_IntegerOverflow).
Proof. exact SV.Rs.ProofsIndex.rs_range_length_eq. Qed.

Theorem C01_source_range_truth : forall lo hi st, st <> 0 ->
  SV.Extracted.RsRange.rs_range_to_bool {| SV.Rs.Prelude.f_start := lo; SV.Rs.Prelude.f_stop := hi; SV.Rs.Prelude.f_step := st |} =
  (0 <? SV.Core.Values.range_len lo hi st).
Proof. exact SV.Rs.ProofsIndex.rs_range_to_bool_eq. Qed.

Theorem C01_source_range_contains : forall lo hi st x,
  SV.Rs.ProofsIndex.i32b lo -> SV.Rs.ProofsIndex.i32b hi -> SV.Rs.ProofsIndex.i32b st -> st <> 0 ->
  SV.Int.Model.wf (SV.Int.Model.Small x) ->
  SV.Extracted.RsRange.rs_range_is_in {| SV.Rs.Prelude.f_start := lo; SV.Rs.Prelude.f_stop := hi; SV.Rs.Prelude.f_step := st |}
    (SV.Rs.Prelude.VInt (SV.Int.Model.Small x)) =
  SV.Rs.Prelude.ROk (if 0 <? st then andb (andb (lo <=? x) (x <? hi)) ((x - lo) mod st =? 0)
                     else andb (andb (hi <? x) (x <=? lo)) ((lo - x) mod (- st) =? 0)).
Proof. exact SV.Rs.ProofsIndex.rs_range_is_in_spec. Qed.

Example C01_source_range_nonvacuous :
  SV.Extracted.RsRange.rs_range_length {| SV.Rs.Prelude.f_start := -2147483648; SV.Rs.Prelude.f_stop := 2147483647; SV.Rs.Prelude.f_step := 1 |}
    = SV.Rs.Prelude.RErr SV.Rs.Prelude.E_IntegerOverflow /\
  SV.Extracted.RsRange.rs_range_length {| SV.Rs.Prelude.f_start := 10; SV.Rs.Prelude.f_stop := 0; SV.Rs.Prelude.f_step := -3 |}
    = SV.Rs.Prelude.ROk 4.
Proof. split; vm_compute; reflexivity. Qed.

(* range == range (equals_range as written today) decides equality of the two arithmetic progressions *)
Theorem C01_source_range_equals : forall lo1 hi1 st1 lo2 hi2 st2,
  SV.Rs.ProofsIndex.i32b lo1 -> SV.Rs.ProofsIndex.i32b hi1 -> SV.Rs.ProofsIndex.i32b st1 -> st1 <> 0 ->
  SV.Rs.ProofsIndex.i32b lo2 -> SV.Rs.ProofsIndex.i32b hi2 -> SV.Rs.ProofsIndex.i32b st2 -> st2 <> 0 ->
  let n1 := SV.Core.Values.range_len lo1 hi1 st1 in
  let n2 := SV.Core.Values.range_len lo2 hi2 st2 in
  n1 <= 2147483647 -> n2 <= 2147483647 ->
  exists b, SV.Extracted.RsRange.rs_range_equals_range
              {| SV.Rs.Prelude.f_start := lo1; SV.Rs.Prelude.f_stop := hi1; SV.Rs.Prelude.f_step := st1 |}
              {| SV.Rs.Prelude.f_start := lo2; SV.Rs.Prelude.f_stop := hi2; SV.Rs.Prelude.f_step := st2 |} = SV.Rs.Prelude.ROk b /\
            (b = true <-> SV.Rs.ProofsIndex.range_seq lo1 st1 (Z.to_nat n1) = SV.Rs.ProofsIndex.range_seq lo2 st2 (Z.to_nat n2)).
Proof. exact SV.Rs.ProofsIndex.rs_range_equals_spec. Qed.
