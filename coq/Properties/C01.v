(* C01 property theorems (reference semantics meta-theory and pipeline-stage theorems). *)
From Coq Require Import ZArith String List.
From SV Require Import Core.Syntax Core.Values Core.Sem Core.SemProofs.
Import ListNotations.
Open Scope string_scope.
Open Scope Z_scope.

(* The reference semantics is well defined on terminating programs: an outcome obtained with some
   fuel (other than fuel exhaustion) is the outcome with every larger fuel.  This makes the
   quantifier "terminating programs, out-of-fuel excluded" of the property meaningful. *)
Theorem C01_eval_fuel_mono : forall n m en e s r, (n <= m)%nat ->
  eval n en e s = r -> r <> OutOfFuel -> eval m en e s = r.
Proof. exact eval_fuel_mono. Qed.

Theorem C01_exec_fuel_mono : forall n m en st s r, (n <= m)%nat ->
  exec n en st s = r -> r <> OutOfFuel -> exec m en st s = r.
Proof. exact exec_fuel_mono. Qed.

Theorem C01_run_program_fuel_mono : forall n m prog tr o, (n <= m)%nat ->
  run_program n prog = (tr, o) -> o <> NoFuel -> run_program m prog = (tr, o).
Proof. exact run_program_fuel_mono. Qed.

Example C01_runs_nonvacuous :
  run_program 50 [SAssign 1 (TVar "x") (EList [EInt 1; EInt 2]);
                  SExpr 2 (EMeth (EVar "x") "append" [EInt 3]);
                  SExpr 3 (ECall (EVar "emit") [EVar "x"] [] None None);
                  SExpr 4 (EIndex (EVar "x") (EInt 7))]
  = ([OList [OInt 1; OInt 2; OInt 3]], Failed IndexErr (Some 4)).
Proof. vm_compute. reflexivity. Qed.
