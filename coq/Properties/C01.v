(* C01 property theorems (reference semantics meta-theory and pipeline-stage theorems). *)
From Coq Require Import ZArith String List.
From SV Require Import Core.Syntax Core.Values Core.Sem Core.SemProofs.
From SV Require Import Core.Slice Core.SliceProofs Scope.Tree Scope.Model Scope.Spec Scope.Proofs.
Import ListNotations.
Open Scope string_scope.
Open Scope Z_scope.

(* The reference semantics is well defined on terminating programs: an outcome obtained with some
   fuel (other than fuel exhaustion) is the outcome with every larger fuel.  This makes the
   quantifier "terminating programs, out-of-fuel excluded" of the property meaningful. *)
Theorem C01_eval_fuel_mono : forall n m en e s r, (n <= m)%nat ->
  eval n en e s = r -> r <> OutOfFuel -> eval m en e s = r.
Proof. exact eval_fuel_mono. Qed.

Theorem C01_exec_fuel_mono : forall n m en st s r, (n <= m)%nat ->
  exec n en st s = r -> r <> OutOfFuel -> exec m en st s = r.
Proof. exact exec_fuel_mono. Qed.

Theorem C01_run_program_fuel_mono : forall n m prog tr o, (n <= m)%nat ->
  run_program n prog = (tr, o) -> o <> NoFuel -> run_program m prog = (tr, o).
Proof. exact run_program_fuel_mono. Qed.

(* ---- pipeline-stage theorems: slicing (values/index.rs) and name resolution (scope.rs) ---- *)
(* ---- slicing: the model of values/index.rs equals the declarative slice ---- *)
Theorem C01_slice_impl_eq_spec : forall (A : Type) (xs : list A) (start stop stride : option Z),
  Slice.apply_slice xs start stop stride = Slice.slice_spec xs start stop stride.
Proof. exact SliceProofs.apply_slice_eq_spec. Qed.

Theorem C01_slice_indices_bounds : forall len start stop stride a b s,
  0 <= len ->
  Slice.convert_slice_indices len start stop stride = Some (a, b, s) ->
  s = SliceProofs.stride_of stride /\ s <> 0 /\
  SliceProofs.clamp_of s <= a <= len + SliceProofs.clamp_of s /\
  SliceProofs.clamp_of s <= b <= len + SliceProofs.clamp_of s.
Proof. exact SliceProofs.convert_slice_indices_bounds. Qed.

Theorem C01_slice_spec_explicit : forall (A : Type) (d : A) (xs : list A) start stop stride a b s,
  Slice.convert_slice_indices (Z.of_nat (length xs)) start stop stride = Some (a, b, s) ->
  let n := SliceProofs.slice_len a b s in
  Slice.slice_spec xs start stop stride =
    Some (map (fun m => nth (Z.to_nat (a + Z.of_nat m * s)) xs d) (seq 0 (Z.to_nat n))) /\
  0 <= n <= Z.of_nat (length xs) /\
  (forall m, 0 <= m < n -> 0 <= a + m * s < Z.of_nat (length xs)).
Proof. exact SliceProofs.slice_spec_explicit. Qed.

Theorem C01_slice_length : forall (A : Type) (xs r : list A) start stop stride a b s,
  Slice.convert_slice_indices (Z.of_nat (length xs)) start stop stride = Some (a, b, s) ->
  Slice.apply_slice xs start stop stride = Some r ->
  Z.of_nat (length r) = SliceProofs.slice_len a b s.
Proof. exact SliceProofs.slice_length. Qed.

Theorem C01_slice_defined_iff_stride_nonzero : forall (A : Type) (xs : list A) start stop stride,
  SliceProofs.stride_of stride <> 0 -> exists r, Slice.apply_slice xs start stop stride = Some r.
Proof. exact SliceProofs.apply_slice_defined. Qed.

Theorem C01_convert_index_python : forall x len,
  Slice.convert_index x len = if andb (- len <=? x) (x <? len) then Some (x mod len) else None.
Proof. exact SliceProofs.convert_index_python. Qed.

Theorem C01_convert_index_spec : forall x len i,
  Slice.convert_index x len = Some i -> 0 <= i < len /\ (i = x \/ i = len + x).
Proof. exact SliceProofs.convert_index_spec. Qed.

(* ---- name resolution: the resolver of scope.rs equals the lexical rule ---- *)
Theorem C01_resolve_alg_eq_decl : forall globals prog,
  Proofs.alg_view (fst (Model.resolve_prog globals prog)) =
  Proofs.decl_view (Spec.resolve_prog_decl globals prog).
Proof. exact Proofs.resolve_alg_eq_decl. Qed.

(* the same in any lexical context, from any resolver state related to it (the form used compositionally) *)
Theorem C01_resolve_sim : forall mods globals t ctx st o st', Proofs.Inv ctx st ->
  Model.a_sk mods globals t st = (o, st') ->
  Proofs.Inv ctx st' /\ Proofs.alg_view o = Proofs.decl_view (Spec.d_sk mods globals ctx t).
Proof. exact Proofs.sim. Qed.

Theorem C01_def_scope_names_spec : forall ps body x,
  In x (Tree.def_scope_names ps body) <-> In x (map param_name ps) \/ In x (body_names body).
Proof. exact Proofs.def_scope_names_spec. Qed.

Theorem C01_module_names_spec : forall prog x,
  In x (Tree.module_names prog) <-> In x (body_names prog).
Proof. exact Proofs.module_names_spec. Qed.

Theorem C01_param_slots_first : forall d ps body,
  NoDup (map param_name ps) ->
  let sc := Model.init_scope d (map param_name ps) (Tree.def_scope_names ps body) in
  Model.sn_pcount sc = length ps /\
  firstn (length ps) (Model.sn_used sc) = map param_name ps /\
  (forall i x, nth_error (map param_name ps) i = Some x -> Proofs.view_of sc x = Some (i, (d, x))).
Proof. exact Proofs.param_slots_first. Qed.

Theorem C01_captured_only_if_nested_use : forall globals prog b,
  In (Model.CapLocal b) (Model.st_captured (snd (Model.resolve_prog globals prog))) ->
  In (snd b, Spec.BFrame (fst b) true) (Spec.resolve_prog_decl globals prog).
Proof. exact Proofs.captured_only_if_nested_use. Qed.

Example C01_runs_nonvacuous :
  run_program 50 [SAssign 1 (TVar "x") (EList [EInt 1; EInt 2]);
                  SExpr 2 (EMeth (EVar "x") "append" [EInt 3] []);
                  SExpr 3 (ECall (EVar "emit") [EVar "x"] [] None None);
                  SExpr 4 (EIndex (EVar "x") (EInt 7))]
  = ([OList [OInt 1; OInt 2; OInt 3]], Failed IndexErr (Some 4)).
Proof. vm_compute. reflexivity. Qed.
