(* C19 IDE answers are well-formed and name resolution matches what the program does.
   Models: Lsp/Pos.v (codemap.rs), Lsp/Bind.v (bind.rs, definition.rs); proofs: Lsp/Proofs.v. *)
From Coq Require Import NArith String List.
From SV Require Import Lsp.Bind Lsp.Pos Lsp.Proofs.
Import ListNotations.
Open Scope string_scope.
Open Scope N_scope.

(* Go-to-definition lands on a binding occurrence of the same name that belongs to exactly the scope from
   which the running program reads the variable - for every program of the modelled fragment, i.e. for
   every shadowing pattern (def / lambda / comprehension scopes, parameter defaults and first iterables
   evaluated outside, names assigned later in the body, augmented assignment, tuple targets, load). *)
Theorem C19_lsp_resolution_agrees : forall p use d,
  lsp_definition p use = Some d ->
  scope_read_at_runtime p use = InScope (d_scope d) (d_name d) /\
  In (d_name d, d_binding d) (bindings_of_scope p (d_scope d)).
Proof.
  intros p use d H. split.
  - exact (lsp_resolution_agrees p use d H).
  - exact (lsp_target_is_binding_of_scope p use d H).
Qed.

(* ... and the server answers "no definition" only when the position is not a use or the name is a builtin. *)
Theorem C19_lsp_no_definition_means_builtin_or_no_use : forall p use,
  lsp_definition p use = None ->
  scope_read_at_runtime p use = NotHere \/ exists x, scope_read_at_runtime p use = Global x.
Proof. exact lsp_no_definition_means_builtin_or_no_use. Qed.

(* x = ..; def f(a = x): return a + x; x = ..   -- the `x` in the body is the function's own (later) x *)
Example C19_shadowing_example :
  let p := SCons (SAssign (TVar "x" 1) ELit)
          (SCons (SDef "f" 2 1 (PCons "a" 3 (EVar "x" 4) PNil)
                    (SCons (SReturn (EBin (EVar "a" 5) (EVar "x" 6)))
                    (SCons (SAssign (TVar "x" 7) ELit) SNil))) SNil) in
  lsp_definition p 4 = Some (mkdef 0 1 "x") /\ lsp_definition p 6 = Some (mkdef 1 7 "x") /\
  lsp_definition p 5 = Some (mkdef 1 3 "a").
Proof. vm_compute. repeat split. Qed.

(* Binary search in the line table = "the line containing the offset": the line found starts at or before
   the (clamped) offset, every later line starts after it, and the offset is not past the line's end.
   Holds for every offset: CRLF, a last line without newline, offsets inside a multi-byte character or
   past the end of the file included. *)
Theorem C19_find_line_correct : forall s off,
  let o := clamp_pos s off in
  let l := find_line s off in
  (l < length (lines s))%nat /\
  line_begin s l <= o /\
  (forall j, (l < j < length (lines s))%nat -> o < nth j (lines s) 0) /\
  o <= line_end s l.
Proof. exact find_line_correct. Qed.

Theorem C19_find_line_counts_line_starts : forall s off,
  S (find_line s off) = count_le (lines s) (clamp_pos s off).
Proof. exact find_line_counts_newlines. Qed.

(* Line/column -> offset is the inverse of find_line_col on character boundaries. *)
Theorem C19_line_col_roundtrip : forall s off, boundary s off -> offset_of s (find_line_col s off) = off.
Proof. exact line_col_roundtrip. Qed.

(* Every position produced from an offset on a character boundary denotes a position of the document: the line
   exists, it has at least `column` characters left, and the position lies inside that line's span.  An offset
   past the end of the file is resolved like the end of the file (which is a boundary). *)
Theorem C19_positions_in_document : forall s off, boundary s off -> in_document s (find_line_col s off).
Proof. exact positions_in_document. Qed.

Theorem C19_positions_past_end : forall s off, blen s <= off ->
  find_line_col s off = find_line_col s (blen s) /\ boundary s (blen s).
Proof. exact positions_past_end. Qed.

(* What find_line_col counts is exactly the text between the start of the line containing the offset and the
   offset: the characters that precede the offset on its line. *)
Theorem C19_counted_prefix_is_line_segment : forall s off, boundary s off ->
  exists kb k, (kb <= k <= length s)%nat /\ off = blen (firstn k s) /\
    line_begin s (find_line s off) = blen (firstn kb s) /\
    counted_prefix s off = firstn (k - kb) (skipn kb s).
Proof. exact counted_prefix_is_line_segment. Qed.

(* The column the implementation reports (number of scalar values) IS the protocol's UTF-16 column exactly
   when no astral character is among the characters it counted; otherwise it is too small. *)
Theorem C19_col_utf16_eq_scalar_iff_bmp : forall s off,
  col16 s off = colscalar s off <-> bmp_only (counted_prefix s off) = true.
Proof. exact col_utf16_eq_scalar_iff_bmp. Qed.

Theorem C19_col_scalar_le_utf16 : forall s off, colscalar s off <= col16 s off.
Proof. exact col_scalar_le_utf16. Qed.

(* x = "<U+1F600>"; y   -- the identifier y is at UTF-16 column 11, the implementation says 10 *)
Definition C19_witness : text := [120; 32; 61; 32; 34; 128512; 34; 59; 32; 121; 10].

Theorem C19_col_utf16_refuted :
  exists s off, boundary s off /\ lsp_position s off = (0, 9) /\ col16 s off = 10 /\ colscalar s off <> col16 s off.
Proof.
  exists C19_witness, 12. split; [exists 9%nat; reflexivity|]. vm_compute. repeat split. discriminate.
Qed.

Example C19_positions_example :
  (* CRLF, an astral character, a last line without newline *)
  let s := [97; 13; 10; 128512; 98; 10; 99] in
  map (fun off => (N.of_nat (find_line s off), snd (find_line_col s off), col16 s off)) [0; 1; 2; 3; 7; 8; 9; 10; 99] =
  [(0, 0, 0); (0, 1, 1); (0, 2, 2); (1, 0, 0); (1, 1, 2); (1, 2, 3); (2, 0, 0); (2, 1, 1); (2, 1, 1)].
Proof. vm_compute. reflexivity. Qed.
