(* C12 property theorems: a container cannot be mutated while iterated and is released when iteration ends.
   Nothing but statements closed by `exact` and satisfiability examples; statements pinned in coq/pins/C12.txt.
   Model: Lock/Model.v (containers with an iteration count, catalogue of mutators), Lock/Bc.v (structured programs
   compiled to the Iter/Continue/Break/IterStop/Return skeleton and interpreted; flag false = the code as it is,
   true = an interpreter that stops the active iterators when an error leaves run_block). *)
From Coq Require Import ZArith List Bool Arith.
From SV Require Import Lock.Model Lock.Bc Lock.Proofs Lock.Nested.
Import ListNotations.
Open Scope nat_scope.

(* every mutator, any alias (aliases are the same address): while the count is non-zero a request that passes the
   read-only checks made before mutable access is asked for (receiver kind, list.remove's search, index conversion of
   x[i] = v) is refused with the mutation-during-iteration error and the store is returned untouched *)
Theorem C12_mutation_blocked : forall st a o, 0 < iter_count st a -> pre_ok o st a = true ->
  mutate o st a = (Err MutateWhileIter, st).
Proof. exact mutation_blocked. Qed.

(* ... and whatever the request, it fails and nothing is written *)
Theorem C12_mutation_blocked_intact : forall st a o, 0 < iter_count st a ->
  exists e, mutate o st a = (Err e, st).
Proof. exact mutation_blocked_intact. Qed.

(* in the body of a for loop over container a, a mutation of a fails, the program ends with that error and no
   container has changed content (for both interpreters) *)
Theorem C12_mutation_in_for_body_blocked : forall fx fuel a o rest st r st',
  has_elem st a 0 = true -> pre_ok o st a = true ->
  exec (S (S (S fuel))) fx (BCons (SFor a (BCons (SMutate o a) rest)) BNil) st = (r, st') ->
  r = Error MutateWhileIter /\ forall b, content st' b = content st b.
Proof. exact mutation_in_for_body_blocked. Qed.

(* with a zero count the guard lets the request through *)
Theorem C12_mutation_allowed_when_released : forall st a o c v', st a = Some c -> c_iters c = 0 ->
  pre_check o (c_val c) = None -> apply_op o (c_val c) = inl v' ->
  mutate o st a = (Ok, upd st a (mkCell v' 0)).
Proof. exact mutation_allowed_when_released. Qed.

(* every structured program (for, nested for - over the same container included -, comprehension clauses, break,
   continue, return through any nesting, calls, consuming builtins), for both interpreters: when it ends without an
   error every container's iteration count is what it was on entry *)
Theorem C12_lock_balanced : forall fx fuel p st r st',
  exec fuel fx p st = (r, st') -> r <> NoFuel -> is_err r = false ->
  forall a, iter_count st' a = iter_count st a.
Proof. exact lock_balanced. Qed.

(* comprehensions are compiled (compr.rs) to the same instructions: instance of the theorem above *)
Theorem C12_comprehension_balanced : forall fx fuel clauses elem st r st',
  exec fuel fx (compr clauses elem) st = (r, st') -> r <> NoFuel -> is_err r = false ->
  forall a, iter_count st' a = iter_count st a.
Proof. intros fx fuel clauses elem; exact (lock_balanced fx fuel (compr clauses elem)). Qed.

(* The property also demands release when an error propagates out of the loop:
     C12_lock_released_on_error : forall fuel p st e st',
        exec fuel false p st = (Error e, st') -> forall a, iter_count st' a = iter_count st a.
   The faithful interpreter REFUTES it (candidate finding F4: run_block returns on InstrControl::Err without
   calling iter_stop for the active loops): *)
Theorem C12_lock_retained_on_error_refuted : exists fuel p st st' e a,
  exec fuel false p st = (Error e, st') /\ iter_count st a < iter_count st' a.
Proof. exact lock_retained_on_error_refuted. Qed.

(* the same statement holds for the interpreter that unwinds the active iterators of the frame on error *)
Theorem C12_lock_released_on_error_repaired : forall fuel p st e st',
  exec fuel true p st = (Error e, st') -> forall a, iter_count st' a = iter_count st a.
Proof. exact lock_released_on_error_repaired. Qed.

(* native consumers (sorted/min/max/map/filter with a callback; any/all/enumerate/zip/list/tuple/dict/set/reversed/
   extend/update without) hold the lock through a StarlarkIterator, which releases on exhaustion, on early drop and
   on `?`: balanced on EVERY exit, errors of the callback included, already in the code as it is (callback bodies
   that do not themselves leave a bytecode loop by an error) *)
Theorem C12_builtin_consumers_balanced : forall fx fuel b early a cb st r st',
  flat cb = true ->
  exec fuel fx (BCons (SBuiltin b early a cb) BNil) st = (r, st') -> r <> NoFuel ->
  forall x, iter_count st' x = iter_count st x.
Proof. exact builtin_consumers_balanced. Qed.

(* ---- the lock is a COUNTER: overlapping iterations of the same container ---- *)
(* after n iterations of a have started and m of them have stopped, the count is the entry count + n - m: a stop releases
   its own unit and nothing else *)
Theorem C12_nested_count : forall st a c n m, st a = Some c ->
  iter_count (unlock_n m (lock_n n st a) a) a = c_iters c + n - m.
Proof. exact nested_count. Qed.

(* ... so the container stays locked until the LAST of them ends: with m < n every well-formed request is refused *)
Theorem C12_nested_keeps_locked : forall st a c n m o, st a = Some c -> m < n ->
  pre_ok o (unlock_n m (lock_n n st a) a) a = true ->
  mutate o (unlock_n m (lock_n n st a) a) a = (Err MutateWhileIter, unlock_n m (lock_n n st a) a).
Proof. exact nested_keeps_locked. Qed.

(* any interleaving of starts, stops and attempts on one container (a stop needs an iteration in progress; every attempt
   is made while at least one is in progress): every attempt is refused and no content changes *)
Theorem C12_overlapping_iterations_blocked : forall evs st a live, live <= iter_count st a -> guarded live evs ->
  Forall refused (fst (replay unlock a evs st)) /\ forall b, content (snd (replay unlock a evs st)) b = content st b.
Proof. exact trace_blocked. Qed.

(* a native consumer (StarlarkIterator: start, one callback per element, stop after iter_next = None): the callback is
   refused at EVERY element - first, middle, last, the only one - and afterwards the count is what it was *)
Theorem C12_consumer_callback_blocked : forall o tries st a,
  Forall refused (fst (replay unlock a (consume o tries) st)) /\
  forall b, content (snd (replay unlock a (consume o tries) st)) b = content st b.
Proof. exact consumer_callback_blocked. Qed.

Theorem C12_consumer_releases : forall o tries st a c, st a = Some c ->
  iter_count (snd (replay unlock a (consume o tries) st)) a = c_iters c.
Proof. exact consumer_releases. Qed.

(* The two weakenings a counter excludes, refuted like the error exit above (F4):
   iter_stop that RESETS the count - outer iteration, inner iteration come and gone, attempt: accepted, content changed *)
Theorem C12_reset_on_stop_refuted : exists st a o, guarded 0 (overlap_trace o) /\
  fst (replay unlock a (overlap_trace o) st) = [Err MutateWhileIter] /\
  fst (replay unlock_reset a (overlap_trace o) st) = [Ok] /\
  content (snd (replay unlock_reset a (overlap_trace o) st)) a <> content st a.
Proof. exact reset_variant_refuted. Qed.

(* a consumer that stops as soon as the last element is fetched, i.e. before its callback: the attempt made while the last
   element is handled is accepted *)
Theorem C12_stop_before_last_body_refuted : exists st a o tries,
  fst (replay unlock a (consume o tries) st) = [Err MutateWhileIter] /\
  fst (replay unlock a (consume_early o tries) st) = [Ok] /\
  content (snd (replay unlock a (consume_early o tries) st)) a <> content st a.
Proof. exact early_stop_variant_refuted. Qed.

(* ---- the hypotheses are satisfiable on non-trivial states ---- *)
Definition ex_store : store :=
  of_list [mkCell (VList [1; 2; 3]%Z) 0; mkCell (VDict [(1, 10); (2, 20)]%Z) 0; mkCell (VSet [1; 2; 3]%Z) 0].
Definition ex_locked : store :=
  of_list [mkCell (VList [1; 2; 3]%Z) 2; mkCell (VDict [(1, 10); (2, 20)]%Z) 1; mkCell (VSet [1; 2; 3]%Z) 1].

Example C12_ex_blocked_list : iter_count ex_locked 0 = 2 /\ pre_ok (LSetAt 1 7%Z) ex_locked 0 = true
  /\ fst (mutate (LSetAt 1 7%Z) ex_locked 0) = Err MutateWhileIter.
Proof. vm_compute. repeat split. Qed.

Example C12_ex_blocked_dict_set : fst (mutate (DSetAt 9 9) ex_locked 1) = Err MutateWhileIter
  /\ fst (mutate (DBitOrAssign [(5, 5)]%Z) ex_locked 1) = Err MutateWhileIter
  /\ fst (mutate (SAdd 4) ex_locked 2) = Err MutateWhileIter
  /\ fst (mutate (LRemove 9) ex_locked 0) = Err NotFound.
Proof. vm_compute. repeat split. Qed.

(* nested loops over the same container, break in the inner loop, return from the second outer iteration *)
Definition ex_nested : block :=
  blk [SFor 0 (blk [SFor 0 (blk [SIf 1 (blk [SBreak]) BNil]); SIf 1 (blk [SReturn]) BNil]); SMutate (LAppend 4) 0].

Example C12_ex_nested_return : fst (exec 100 false ex_nested ex_store) = Ret
  /\ iter_count (snd (exec 100 false ex_nested ex_store)) 0 = 0.
Proof. vm_compute. split; reflexivity. Qed.

(* exhaustion of a comprehension with two clauses over the same dict, then the dict is mutable again *)
Definition ex_compr : block :=
  blk [SFor 2 (compr [(1, Some 0); (1, None)] (blk [SCall BNil])); SMutate (DSetAt 9 9) 1].

Example C12_ex_compr : fst (exec 100 false ex_compr ex_store) = Next
  /\ content (snd (exec 100 false ex_compr ex_store)) 1 = Some (VDict [(1, 10); (2, 20); (9, 9)]%Z)
  /\ iter_count (snd (exec 100 false ex_compr ex_store)) 1 = 0.
Proof. vm_compute. repeat split. Qed.

(* the error exit: retained by the code as it is, released by the repaired interpreter *)
Example C12_ex_error_exit :
  iter_count (snd (exec 100 false (blk [SFor 0 (blk [SFor 1 (blk [SFail])])]) ex_store)) 0 = 1
  /\ iter_count (snd (exec 100 false (blk [SFor 0 (blk [SFor 1 (blk [SFail])])]) ex_store)) 1 = 1
  /\ iter_count (snd (exec 100 true (blk [SFor 0 (blk [SFor 1 (blk [SFail])])]) ex_store)) 0 = 0
  /\ iter_count (snd (exec 100 true (blk [SFor 0 (blk [SFor 1 (blk [SFail])])]) ex_store)) 1 = 0.
Proof. vm_compute. repeat split. Qed.

(* a failing callback of sorted(x, key=cb): released by the code as it is *)
Example C12_ex_builtin_error :
  fst (exec 100 false (blk [SBuiltin BSorted None 2 (blk [SIf 1 (blk [SFail]) BNil])]) ex_store) = Error Failed
  /\ iter_count (snd (exec 100 false (blk [SBuiltin BSorted None 2 (blk [SIf 1 (blk [SFail]) BNil])]) ex_store)) 2 = 0.
Proof. vm_compute. split; reflexivity. Qed.

(* an inner for (left by break) and a sorted() over the same list come and go inside the outer for: the attempt that follows,
   still inside the outer body, is refused, content intact; three levels deep as well *)
Definition ex_overlap : block :=
  blk [SFor 0 (blk [SIf 1 (blk [SFor 0 (blk [SIf 1 (blk [SBreak]) BNil]); SBuiltin BSorted None 0 BNil;
                                 SFor 0 (blk [SFor 0 BNil]); SMutate (LAppend 7) 0]) BNil])].

Example C12_ex_overlap : fst (exec 100 false ex_overlap ex_store) = Error MutateWhileIter
  /\ content (snd (exec 100 false ex_overlap ex_store)) 0 = Some (VList [1; 2; 3]%Z)
  /\ fst (exec 100 true ex_overlap ex_store) = Error MutateWhileIter
  /\ iter_count (snd (exec 100 true ex_overlap ex_store)) 0 = 0.
Proof. vm_compute. repeat split. Qed.

(* the callback of map() attempts the mutation at the LAST element of a set: refused, released afterwards *)
Example C12_ex_callback_last :
  fst (exec 100 false (blk [SBuiltin BMap None 2 (blk [SIf 2 (blk [SMutate (SAdd 7) 2]) BNil])]) ex_store) = Error MutateWhileIter
  /\ iter_count (snd (exec 100 false (blk [SBuiltin BMap None 2 (blk [SIf 2 (blk [SMutate (SAdd 7) 2]) BNil])]) ex_store)) 2 = 0
  /\ fst (replay unlock 2 (consume (SAdd 7) [false; false; true]) ex_store) = [Err MutateWhileIter].
Proof. vm_compute. repeat split. Qed.
