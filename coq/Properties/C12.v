(* C12 property theorems: a container cannot be mutated while iterated and is released when iteration ends.
   Nothing but statements closed by `exact` and satisfiability examples; statements pinned in coq/pins/C12.txt.
   Model: Lock/Model.v (containers with an iteration count, catalogue of mutators), Lock/Bc.v (structured programs
   compiled to the Iter/Continue/Break/IterStop/Return skeleton and interpreted; flag false = the code as it is,
   true = an interpreter that stops the active iterators when an error leaves run_block). *)
From Coq Require Import ZArith List Bool Arith.
From SV Require Import Lock.Model Lock.Bc Lock.Proofs.
Import ListNotations.
Open Scope nat_scope.

(* every mutator, any alias (aliases are the same address): while the count is non-zero a request that passes the
   read-only checks made before mutable access is asked for (receiver kind, list.remove's search, index conversion of
   x[i] = v) is refused with the mutation-during-iteration error and the store is returned untouched *)
Theorem C12_mutation_blocked : forall st a o, 0 < iter_count st a -> pre_ok o st a = true ->
  mutate o st a = (Err MutateWhileIter, st).
Proof. exact mutation_blocked. Qed.

(* ... and whatever the request, it fails and nothing is written *)
Theorem C12_mutation_blocked_intact : forall st a o, 0 < iter_count st a ->
  exists e, mutate o st a = (Err e, st).
Proof. exact mutation_blocked_intact. Qed.

(* in the body of a for loop over container a, a mutation of a fails, the program ends with that error and no
   container has changed content (for both interpreters) *)
Theorem C12_mutation_in_for_body_blocked : forall fx fuel a o rest st r st',
  has_elem st a 0 = true -> pre_ok o st a = true ->
  exec (S (S (S fuel))) fx (BCons (SFor a (BCons (SMutate o a) rest)) BNil) st = (r, st') ->
  r = Error MutateWhileIter /\ forall b, content st' b = content st b.
Proof. exact mutation_in_for_body_blocked. Qed.

(* with a zero count the guard lets the request through *)
Theorem C12_mutation_allowed_when_released : forall st a o c v', st a = Some c -> c_iters c = 0 ->
  pre_check o (c_val c) = None -> apply_op o (c_val c) = inl v' ->
  mutate o st a = (Ok, upd st a (mkCell v' 0)).
Proof. exact mutation_allowed_when_released. Qed.

(* every structured program (for, nested for - over the same container included -, comprehension clauses, break,
   continue, return through any nesting, calls, consuming builtins), for both interpreters: when it ends without an
   error every container's iteration count is what it was on entry *)
Theorem C12_lock_balanced : forall fx fuel p st r st',
  exec fuel fx p st = (r, st') -> r <> NoFuel -> is_err r = false ->
  forall a, iter_count st' a = iter_count st a.
Proof. exact lock_balanced. Qed.

(* comprehensions are compiled (compr.rs) to the same instructions: instance of the theorem above *)
Theorem C12_comprehension_balanced : forall fx fuel clauses elem st r st',
  exec fuel fx (compr clauses elem) st = (r, st') -> r <> NoFuel -> is_err r = false ->
  forall a, iter_count st' a = iter_count st a.
Proof. intros fx fuel clauses elem; exact (lock_balanced fx fuel (compr clauses elem)). Qed.

(* The property also demands release when an error propagates out of the loop:
     C12_lock_released_on_error : forall fuel p st e st',
        exec fuel false p st = (Error e, st') -> forall a, iter_count st' a = iter_count st a.
   The faithful interpreter REFUTES it (candidate finding F4: run_block returns on InstrControl::Err without
   calling iter_stop for the active loops): *)
Theorem C12_lock_retained_on_error_refuted : exists fuel p st st' e a,
  exec fuel false p st = (Error e, st') /\ iter_count st a < iter_count st' a.
Proof. exact lock_retained_on_error_refuted. Qed.

(* the same statement holds for the interpreter that unwinds the active iterators of the frame on error *)
Theorem C12_lock_released_on_error_repaired : forall fuel p st e st',
  exec fuel true p st = (Error e, st') -> forall a, iter_count st' a = iter_count st a.
Proof. exact lock_released_on_error_repaired. Qed.

(* native consumers (sorted/min/max/map/filter with a callback; any/all/enumerate/zip/list/tuple/dict/set/reversed/
   extend/update without) hold the lock through a StarlarkIterator, which releases on exhaustion, on early drop and
   on `?`: balanced on EVERY exit, errors of the callback included, already in the code as it is (callback bodies
   that do not themselves leave a bytecode loop by an error) *)
Theorem C12_builtin_consumers_balanced : forall fx fuel b early a cb st r st',
  flat cb = true ->
  exec fuel fx (BCons (SBuiltin b early a cb) BNil) st = (r, st') -> r <> NoFuel ->
  forall x, iter_count st' x = iter_count st x.
Proof. exact builtin_consumers_balanced. Qed.

(* ---- the hypotheses are satisfiable on non-trivial states ---- *)
Definition ex_store : store :=
  of_list [mkCell (VList [1; 2; 3]%Z) 0; mkCell (VDict [(1, 10); (2, 20)]%Z) 0; mkCell (VSet [1; 2; 3]%Z) 0].
Definition ex_locked : store :=
  of_list [mkCell (VList [1; 2; 3]%Z) 2; mkCell (VDict [(1, 10); (2, 20)]%Z) 1; mkCell (VSet [1; 2; 3]%Z) 1].

Example C12_ex_blocked_list : iter_count ex_locked 0 = 2 /\ pre_ok (LSetAt 1 7%Z) ex_locked 0 = true
  /\ fst (mutate (LSetAt 1 7%Z) ex_locked 0) = Err MutateWhileIter.
Proof. vm_compute. repeat split. Qed.

Example C12_ex_blocked_dict_set : fst (mutate (DSetAt 9 9) ex_locked 1) = Err MutateWhileIter
  /\ fst (mutate (DBitOrAssign [(5, 5)]%Z) ex_locked 1) = Err MutateWhileIter
  /\ fst (mutate (SAdd 4) ex_locked 2) = Err MutateWhileIter
  /\ fst (mutate (LRemove 9) ex_locked 0) = Err NotFound.
Proof. vm_compute. repeat split. Qed.

(* nested loops over the same container, break in the inner loop, return from the second outer iteration *)
Definition ex_nested : block :=
  blk [SFor 0 (blk [SFor 0 (blk [SIf 1 (blk [SBreak]) BNil]); SIf 1 (blk [SReturn]) BNil]); SMutate (LAppend 4) 0].

Example C12_ex_nested_return : fst (exec 100 false ex_nested ex_store) = Ret
  /\ iter_count (snd (exec 100 false ex_nested ex_store)) 0 = 0.
Proof. vm_compute. split; reflexivity. Qed.

(* exhaustion of a comprehension with two clauses over the same dict, then the dict is mutable again *)
Definition ex_compr : block :=
  blk [SFor 2 (compr [(1, Some 0); (1, None)] (blk [SCall BNil])); SMutate (DSetAt 9 9) 1].

Example C12_ex_compr : fst (exec 100 false ex_compr ex_store) = Next
  /\ content (snd (exec 100 false ex_compr ex_store)) 1 = Some (VDict [(1, 10); (2, 20); (9, 9)]%Z)
  /\ iter_count (snd (exec 100 false ex_compr ex_store)) 1 = 0.
Proof. vm_compute. repeat split. Qed.

(* the error exit: retained by the code as it is, released by the repaired interpreter *)
Example C12_ex_error_exit :
  iter_count (snd (exec 100 false (blk [SFor 0 (blk [SFor 1 (blk [SFail])])]) ex_store)) 0 = 1
  /\ iter_count (snd (exec 100 false (blk [SFor 0 (blk [SFor 1 (blk [SFail])])]) ex_store)) 1 = 1
  /\ iter_count (snd (exec 100 true (blk [SFor 0 (blk [SFor 1 (blk [SFail])])]) ex_store)) 0 = 0
  /\ iter_count (snd (exec 100 true (blk [SFor 0 (blk [SFor 1 (blk [SFail])])]) ex_store)) 1 = 0.
Proof. vm_compute. repeat split. Qed.

(* a failing callback of sorted(x, key=cb): released by the code as it is *)
Example C12_ex_builtin_error :
  fst (exec 100 false (blk [SBuiltin BSorted None 2 (blk [SIf 1 (blk [SFail]) BNil])]) ex_store) = Error Failed
  /\ iter_count (snd (exec 100 false (blk [SBuiltin BSorted None 2 (blk [SIf 1 (blk [SFail]) BNil])]) ex_store)) 2 = 0.
Proof. vm_compute. split; reflexivity. Qed.
