(* C05 property theorems.  Nothing but statements closed by `exact`, satisfiability examples; the statements are
   pinned in coq/pins/C05.txt.  Vocabulary: Lex/Spec.v (boundary, span_ok, tok_ok, ordered, count, levels_ok,
   ascii_only), Lex/Model.v (lex, escape, step), Span/Model.v (ptree, sp, mono, dialect, accepts, validate). *)
From Coq Require Import NArith ZArith List Bool String.
From SV Require Import Extracted.LexC Lex.Model Lex.Spec Lex.Proofs Span.Model Span.Proofs.
From SV Require Parse.Tokens Parse.Ast Parse.Model Span.ParserSpans Span.ParserSpansProofs.
Import ListNotations.
Open Scope N_scope.

(* the tables the model is built from are the ones in the source (regenerated on every run); the scanner of
   Lex/Model.v is the hand translation of exactly these rules *)
Theorem C05_extracted_tables :
  re_ident = ["[a-zA-Z_][a-zA-Z0-9_]*"%string] /\ re_dec = ["[0-9]+"%string] /\ re_hex = ["0[xX][A-Fa-f0-9]+"%string] /\
  re_bin = ["0[bB][01]+"%string] /\ re_oct = ["0[oO][0-7]+"%string] /\
  re_float = ["[0-9]+\\.[0-9]*([eE][-+]?[0-9]+)?"%string; "[0-9]+[eE][-+]?[0-9]+"%string; "\\.[0-9]+([eE][-+]?[0-9]+)?"%string] /\
  re_comment = ["#[^\r\n]*"%string] /\ re_tabs = ["\t+"%string] /\ re_newline = ["(\r)?\n"%string] /\
  re_skip = [" +"%string; "\\\n"%string; "\\\r\n"%string] /\
  escape_simple = escape_simple_bytes /\ List.length escape_simple = 7%nat /\
  escape_x = [2; 2; 16]%Z /\ escape_u = [4; 4; 16]%Z /\ escape_U = [8; 8; 16]%Z /\ escape_oct = [1; 3; 8]%Z /\
  escape_bytes_x = escape_x /\ escape_bytes_u = escape_u /\ escape_bytes_U = escape_U /\ escape_bytes_oct = [1; 3; 8; 255]%Z /\
  indent_tab_width = 8%Z /\ token_count = Z.of_nat (List.length token_spellings) /\
  dle Standard Extended /\ dle Extended AllOptionsInternal.
Proof. repeat (split; [reflexivity|]). exact presets_chain. Qed.

(* totality with progress: with fuel = length + 1 the model never runs out of fuel, for every input
   (every round of `Lexer::next` consumes at least one character or ends the stream) *)
Theorem C05_lex_total : forall input toks k l r, lex input = (toks, Some (k, l, r)) -> k <> EFuel.
Proof. exact lex_total. Qed.

(* every token span is ordered, inside the file, on character boundaries; spans are monotone and do not overlap;
   every error span is inside the file and ends on a boundary; it starts on a boundary unless it is the escape error
   of an f-string (lex_fstring_content), whose span is the single byte before its end *)
Theorem C05_lex_spans_ok : forall input toks e, lex input = (toks, e) ->
  Forall (tok_ok input) toks /\ ordered 0 toks /\
  match e with
  | None => True
  | Some (k, l, r) =>
      span_in_file input l r /\ boundary input r /\
      (k <> EInvalidEscapeSequenceF \/ fstring_escape_span_fixed = true -> boundary input l) /\
      (k = EInvalidEscapeSequenceF -> fstring_escape_span_fixed = false -> r = l + 1)
  end.
Proof. exact lex_spans_ok. Qed.

(* FULL STATEMENT (refuted on the faithful model, finding F2):
     forall input toks k l r, lex input = (toks, Some (k, l, r)) -> boundary input l.
   Witness: x = f"\x(e-acute)" -- the error span 9..10 starts inside the two-byte character.
   `fstring_escape_span_fixed` is read from the source by the translator: false for the code as it is (span begin =
   start + it.pos() - 1), true once the span begins at the backslash; then the full statement is proved instead. *)
Theorem C05_error_span_boundary_refuted : fstring_escape_span_fixed = false ->
  exists input toks k l r, lex input = (toks, Some (k, l, r)) /\ ~ boundary input l.
Proof. exact error_span_boundary_refuted. Qed.

Theorem C05_error_span_boundary_when_repaired : fstring_escape_span_fixed = true ->
  forall input toks k l r, lex input = (toks, Some (k, l, r)) -> span_ok input l r.
Proof. exact error_span_boundary_when_repaired. Qed.

(* the class on which the full statement holds: texts of one-byte characters *)
Theorem C05_error_span_boundary_ascii : forall input toks k l r,
  ascii_only input -> lex input = (toks, Some (k, l, r)) -> span_ok input l r.
Proof.
  exact (fun input toks k l r A E =>
    match lex_spans_ok input toks (Some (k, l, r)) E with
    | conj _ (conj _ (conj (conj L R) (conj B _))) =>
        conj L (conj R (conj (ascii_all_boundaries input l A (N.le_trans _ _ _ L R)) B))
    end).
Qed.

(* a string / bytes literal's span ends right after its closing quote q (and starts where its opening spelling was
   scanned, C05_token_text); a failure of the scanner is an error whose span is on boundaries *)
Theorem C05_string_span_text : forall input fuel q triple raw bytes infexpr sstart l p qs slow acc,
  cursor input p l -> boundary input sstart -> sstart <= p -> (List.length l < fuel)%nat ->
  match str_loop fuel q triple raw bytes infexpr sstart l p qs slow acc with
  | StrOk _ p3 l3 => cursor input p3 l3 /\ p < p3 /\ cursor input (p3 - w q) (q :: l3)
  | StrErr e lo hi => e <> EFuel /\ e <> EInvalidEscapeSequenceF /\ lo <= hi /\ boundary input lo /\ boundary input hi /\ sstart <= lo
  end.
Proof. exact str_loop_ok. Qed.

(* a keyword / symbol / quote-opening lexeme covers exactly its `#[token]` spelling; an identifier (or reserved word)
   covers exactly a maximal run of identifier characters *)
Theorem C05_token_text : forall c t p r p' l', scan_tok c t p = (r, p', l') ->
  match r with
  | RTok i => c :: t = spell i ++ l'
  | RIdent | RReserved => exists word, c :: t = word ++ l' /\ forallb is_alnum_ word = true /\ is_alpha_ c = true /\
                                  match l' with d :: _ => is_alnum_ d = false | [] => True end
  | _ => True
  end.
Proof. exact scan_tok_text. Qed.

(* INDENT and DEDENT tokens balance on every text that lexes without error, and every round keeps the
   indentation stack strictly increasing towards the innermost level *)
Theorem C05_indent_balanced : forall input toks, lex input = (toks, None) -> count is_indent toks = count is_dedent toks.
Proof. exact indent_balanced. Qed.

Theorem C05_levels_invariant : forall s toks s', levels_ok (levels s) -> step s = Go toks s' -> levels_ok (levels s').
Proof. exact levels_invariant. Qed.

(* escape decoding returns Unicode scalar values (bytes for bytes literals) or an error, for every text *)
Theorem C05_escape_total : forall bytes p l, (forall c, In c l -> is_scalar c) ->
  match escape bytes p l with
  | EscOk out _ _ => Forall (out_ok_esc bytes) out
  | EscErr _ _ => True
  end.
Proof. exact escape_total. Qed.

Theorem C05_escape_invalid :
  (forall p c t, to_digit 16 c = None -> exists p2 l2, escape false p (120 :: c :: t) = EscErr p2 l2) /\
  (exists p2 l2, escape false 0 [117; 100; 56; 48; 48] = EscErr p2 l2) /\
  (exists p2 l2, escape false 0 [85; 48; 48; 49; 49; 48; 48; 48; 48] = EscErr p2 l2) /\
  (exists p2 l2, escape true 0 [52; 48; 48] = EscErr p2 l2) /\
  escape false 0 [85; 48; 48; 49; 48; 70; 70; 70; 70] = EscOk [1114111] 9 [].
Proof. exact escape_invalid_examples. Qed.

Theorem C05_surrogates_rejected : forall v, 55296 <= v <= 57343 \/ 1114111 < v -> from_u32 v = None.
Proof. exact (fun v H => match H with or_introl A => from_u32_surrogate v A | or_intror B => from_u32_too_big v B end). Qed.

(* a tree built bottom-up with node span = (start of first consumed token, end of last consumed token): every
   non-empty child lies inside its parent, is well-ordered, and its own tokens are monotone again (so the
   statement applies at every depth); every span lies inside the file when the tokens do *)
Theorem C05_span_nesting : forall items k,
  mono (flat (PNode items)) -> In k items -> flat k <> [] ->
  fst (sp (PNode items)) <= fst (sp k) /\ fst (sp k) <= snd (sp k) /\ snd (sp k) <= snd (sp (PNode items)) /\ mono (flat k).
Proof. exact span_nesting. Qed.

Theorem C05_span_nesting_deep : forall n t, sub n t -> mono (flat t) -> flat n <> [] ->
  fst (sp t) <= fst (sp n) /\ fst (sp n) <= snd (sp n) /\ snd (sp n) <= snd (sp t) /\ mono (flat n).
Proof. exact span_nesting_deep. Qed.

Theorem C05_span_in_file : forall t len, mono (flat t) -> (forall x, In x (flat t) -> snd x <= len) -> flat t <> [] ->
  fst (sp t) <= snd (sp t) /\ snd (sp t) <= len.
Proof. exact node_span_in_file. Qed.

(* the real token stream of the lexer model meets the hypotheses of the nesting theorems *)
Theorem C05_lexer_tokens_mono : forall input toks e, lex input = (toks, e) ->
  mono (map span_of toks) /\ (forall x, In x (map span_of toks) -> snd x <= blen input).
Proof. exact lexer_tokens_mono. Qed.

(* enabling more dialect features never turns an accepted module into a rejected one, and the tree is unchanged *)
Theorem C05_dialect_monotone : forall d1 d2 m, dle d1 d2 -> accepts d1 m = true -> accepts d2 m = true.
Proof. exact dialect_monotone. Qed.

Theorem C05_validate_monotone : forall d1 d2 m m', dle d1 d2 -> validate d1 m = Some m' -> validate d2 m = Some m' /\ m' = m.
Proof. exact validate_monotone. Qed.

(* the hypotheses are satisfiable and the model does something:  "if x:\n  y = 'a\n'\nz"  lexes to 12 lexemes with one
   INDENT and one DEDENT; a dedent to a column never seen is an error; Standard rejects what Extended accepts *)
Example C05_nonvacuous :
  (let '(toks, e) := lex [105; 102; 32; 120; 58; 10; 32; 32; 121; 32; 61; 32; 39; 97; 92; 110; 39; 10; 122] in
   e = None /\ List.length toks = 12%nat /\ count is_indent toks = 1%nat /\
   nth 7 toks (0, KInt, 0) = (12, KString [97; 10], 17)) /\
  snd (lex [105; 102; 32; 120; 58; 10; 32; 32; 32; 121; 10; 32; 122]) = Some (EIndentation, 10, 12) /\
  accepts Standard (SFor SSimple, []) = false /\ accepts Extended (SFor SSimple, []) = true /\
  accepts Extended (SSimple, [FFString]) = false /\ accepts AllOptionsInternal (SSimple, [FFString; FLambda true true]) = true /\
  sp (PNode [PTok 0 2; PNode [PTok 3 4; PTok 5 9]; PTok 9 10]) = (0, 10).
Proof. vm_compute. repeat split; reflexivity. Qed.

(* ---------- the parser's spans on the model (Span/ParserSpans.v: the parser model of C06 with `last_end` threaded as in
   parser_rd.rs; every node of the result carries the span `node.ast(l, r)` gives it) ---------- *)

(* erasing the spans of the span-tracking parser's result gives exactly the parser model of C06 (Parse.Model.parse, proved
   equal to the reference grammar there): same accept/reject decision, same error code, same tree *)
Theorem C05_parser_erase_spans : forall c fuel (ts : list (Parse.Tokens.token * (N * N))),
  ParserSpans.rmap ParserSpans.erase_stmt (ParserSpans.sparse c fuel ts) = Parse.Model.parse c fuel (map fst ts).
Proof. exact ParserSpansProofs.parser_erase_spans. Qed.

Theorem C05_parser_erase_spans_expr : forall c fuel (ts : list (Parse.Tokens.token * (N * N))) le,
  ParserSpans.rmap (fun p => (ParserSpans.erase (fst p), ParserSpans.toks_of (snd p))) (ParserSpans.sparse_test_m c fuel (ts, le))
  = Parse.Model.parse_test_m c fuel (map fst ts).
Proof. exact ParserSpansProofs.parser_erase_spans_test. Qed.

(* every node's span begins at the begin of the first lexeme and ends at the end of the last lexeme of a non-empty run of
   lexemes (`lay`): a leaf is exactly its own lexeme, the children of a node are laid out in source order over disjoint
   consecutive sub-runs of their parent's run, and the statement node is laid out over ALL lexemes of the line *)
Theorem C05_parser_span_covers_tokens : forall c fuel (ts : list (Parse.Tokens.token * (N * N))) t,
  ParserSpans.sparse c fuel ts = Parse.Ast.Ok t -> ParserSpans.lay ts (ParserSpans.tree_of_stmt t).
Proof. exact ParserSpansProofs.parser_layout. Qed.

(* for an expression (parse_test): the lexemes consumed are `(`* core `)`* and the expression is laid out over core --
   the only lexemes a node consumes that are outside its span are enclosing parentheses (parse_atom returns the inner
   expression with its own span); last_end is the end of the last consumed lexeme *)
Theorem C05_parser_span_covers_tokens_expr : forall c fuel (ts : list (Parse.Tokens.token * (N * N))) le e ts' le',
  ParserSpans.sparse_test_m c fuel (ts, le) = Parse.Ast.Ok (e, (ts', le')) ->
  exists cons, ts = cons ++ ts' /\ le' = ParserSpans.end_last le cons /\ ParserSpans.covers cons (ParserSpans.tree_of e).
Proof. exact ParserSpansProofs.parser_layout_test. Qed.

(* any tree laid out over lexemes with monotone in-file spans nests: every node is ordered and inside the file, every child
   lies inside its parent, consecutive children do not overlap, a leaf has exactly the span of the lexeme carrying its token *)
Theorem C05_layout_nesting : forall len (ts : list (Parse.Tokens.token * (N * N))) t,
  mono (map snd ts) -> (forall x, In x (map snd ts) -> snd x <= len) -> ParserSpans.lay ts t -> ParserSpans.wf len ts t.
Proof. exact ParserSpansProofs.lay_wf. Qed.

(* ... in particular the tree the parser returns, for every lexeme list with monotone in-file spans (what
   C05_lexer_tokens_mono provides for the lexer's output) *)
Theorem C05_parser_span_nesting : forall c fuel (ts : list (Parse.Tokens.token * (N * N))) len t,
  mono (map snd ts) -> (forall x, In x (map snd ts) -> snd x <= len) ->
  ParserSpans.sparse c fuel ts = Parse.Ast.Ok t -> ParserSpans.wf len ts (ParserSpans.tree_of_stmt t).
Proof. exact ParserSpansProofs.parser_span_nesting. Qed.

(* the span-tracking parser does something:  `(a).b = x + f(y, k=2)`  and  `lambda a=(1): a`  (a one-operator table);
   the `.b` node starts at `a`, not at the parenthesis; the parameter `a=(1)` ends after the default's parenthesis *)
Example C05_parser_spans_nonvacuous :
  let c := {| Parse.Tokens.c_tbl := [(Parse.Tokens.TPlus, (Parse.Tokens.Add, 15%Z, 16%Z))]; Parse.Tokens.c_cmp := [];
              Parse.Tokens.c_not_max := 5; Parse.Tokens.c_not_rbp := 5; Parse.Tokens.c_ni_l := 5; Parse.Tokens.c_ni_r := 6;
              Parse.Tokens.c_nic_l := 5; Parse.Tokens.c_nic_r := 6; Parse.Tokens.c_bitor := 7; Parse.Tokens.c_arg := 0;
              Parse.Tokens.c_ortest := 0; Parse.Tokens.c_test := 0;
              Parse.Tokens.c_start := ["Identifier"; "Int"; "OpeningRound"]%string;
              Parse.Tokens.c_unary := [("Minus", "Minus")]%string |} in
  ParserSpans.sparse c 20
    [(Parse.Tokens.TOpeningRound, (0, 1)); (Parse.Tokens.TIdentifier 1, (1, 2)); (Parse.Tokens.TClosingRound, (2, 3));
     (Parse.Tokens.TDot, (3, 4)); (Parse.Tokens.TIdentifier 2, (4, 5)); (Parse.Tokens.TEqual, (6, 7));
     (Parse.Tokens.TIdentifier 3, (8, 9)); (Parse.Tokens.TPlus, (10, 11)); (Parse.Tokens.TIdentifier 4, (12, 13));
     (Parse.Tokens.TOpeningRound, (13, 14)); (Parse.Tokens.TIdentifier 5, (14, 15)); (Parse.Tokens.TComma, (15, 16));
     (Parse.Tokens.TIdentifier 6, (17, 18)); (Parse.Tokens.TEqual, (18, 19)); (Parse.Tokens.TInt 2, (19, 20));
     (Parse.Tokens.TClosingRound, (20, 21))]
  = Parse.Ast.Ok
      (ParserSpans.TAssign (0, 21)
         (ParserSpans.XDot (1, 5) (ParserSpans.XId (1, 2) 1) (4, 5) 2)
         (ParserSpans.XOp (8, 21) (ParserSpans.XId (8, 9) 3) Parse.Tokens.Add
            (ParserSpans.XCall (12, 21) (ParserSpans.XId (12, 13) 4)
               [ParserSpans.YPos (14, 15) (ParserSpans.XId (14, 15) 5);
                ParserSpans.YNamed (17, 20) (17, 18) 6 (ParserSpans.XInt (19, 20) 2)]))) /\
  ParserSpans.sparse c 20
    [(Parse.Tokens.TLambda, (0, 6)); (Parse.Tokens.TIdentifier 1, (7, 8)); (Parse.Tokens.TEqual, (8, 9));
     (Parse.Tokens.TOpeningRound, (9, 10)); (Parse.Tokens.TInt 1, (10, 11)); (Parse.Tokens.TClosingRound, (11, 12));
     (Parse.Tokens.TColon, (12, 13)); (Parse.Tokens.TIdentifier 1, (14, 15))]
  = Parse.Ast.Ok
      (ParserSpans.TExpr (0, 15)
         (ParserSpans.XLambda (0, 15) [ParserSpans.ZNormal (7, 12) (7, 8) 1 (Some (ParserSpans.XInt (10, 11) 1))]
            (ParserSpans.XId (14, 15) 1))).
Proof. vm_compute. split; reflexivity. Qed.

(* ---- the span algebra of codemap.rs as translated from the source on this run (Extracted/RsSpan.v) ------------- *)
From SV Require Rs.Prelude Rs.ProofsSpan Extracted.RsSpan.

(* Span::merge, with which the parser builds the span of every compound node, encloses both arguments exactly
   (min of the begins, max of the ends), keeps begin <= end, and contains every position either argument contains *)
Theorem C05_source_span_merge : forall a b,
  SV.Rs.Prelude.f_begin (SV.Extracted.RsSpan.rs_span_merge a b) = Z.min (SV.Rs.Prelude.f_begin a) (SV.Rs.Prelude.f_begin b) /\
  SV.Rs.Prelude.f_end (SV.Extracted.RsSpan.rs_span_merge a b) = Z.max (SV.Rs.Prelude.f_end a) (SV.Rs.Prelude.f_end b) /\
  (SV.Rs.ProofsSpan.span_wf a -> SV.Rs.ProofsSpan.span_wf b -> SV.Rs.ProofsSpan.span_wf (SV.Extracted.RsSpan.rs_span_merge a b)) /\
  (forall p, SV.Extracted.RsSpan.rs_span_contains a p = true \/ SV.Extracted.RsSpan.rs_span_contains b p = true ->
             SV.Extracted.RsSpan.rs_span_contains (SV.Extracted.RsSpan.rs_span_merge a b) p = true).
Proof. exact SV.Rs.ProofsSpan.span_merge_spec. Qed.

Theorem C05_source_span_merge_algebra : forall a b c,
  SV.Extracted.RsSpan.rs_span_merge a b = SV.Extracted.RsSpan.rs_span_merge b a /\
  SV.Extracted.RsSpan.rs_span_merge (SV.Extracted.RsSpan.rs_span_merge a b) c =
    SV.Extracted.RsSpan.rs_span_merge a (SV.Extracted.RsSpan.rs_span_merge b c) /\
  SV.Extracted.RsSpan.rs_span_merge a a = a.
Proof. exact SV.Rs.ProofsSpan.span_merge_algebra. Qed.

(* Span::intersects (breakpoint and IDE range queries) is interval overlap with inclusive ends, and symmetric *)
Theorem C05_source_span_intersects : forall a b, SV.Rs.ProofsSpan.span_wf a -> SV.Rs.ProofsSpan.span_wf b ->
  (SV.Extracted.RsSpan.rs_span_intersects a b = true <->
     exists p, SV.Extracted.RsSpan.rs_span_contains a p = true /\ SV.Extracted.RsSpan.rs_span_contains b p = true) /\
  SV.Extracted.RsSpan.rs_span_intersects a b = SV.Extracted.RsSpan.rs_span_intersects b a.
Proof. exact SV.Rs.ProofsSpan.span_intersects_spec. Qed.
