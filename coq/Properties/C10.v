(* C10 property theorems.  Nothing but statements closed by `exact`, satisfiability examples and
   Print Assumptions; the statements are pinned in coq/pins/C10.txt. *)
From Coq Require Import ZArith Bool.
From Coq Require Import List String.
From SV Require Import Extracted.IntC Int.Model Int.Proofs Int.Str.
Open Scope Z_scope.

Theorem C10_extracted_constants : inline_bits = 32 /\ 0 < shl_cap < 2147483647.
Proof. exact (conj inline_bits_ok shl_cap_ok). Qed.

Theorem C10_repr_unique : forall a b, wf a -> wf b -> den a = den b -> a = b.
Proof. exact repr_unique. Qed.

Theorem C10_canon : forall z, wf (canon z) /\ den (canon z) = z.
Proof. exact canon_ok. Qed.

Theorem C10_add_exact : forall a b, wf a -> wf b -> wf (add a b) /\ den (add a b) = den a + den b.
Proof. exact add_exact. Qed.

Theorem C10_sub_exact : forall a b, wf a -> wf b -> wf (sub a b) /\ den (sub a b) = den a - den b.
Proof. exact sub_exact. Qed.

Theorem C10_mul_exact : forall a b, wf a -> wf b -> wf (mul a b) /\ den (mul a b) = den a * den b.
Proof. exact mul_exact. Qed.

Theorem C10_neg_exact : forall a, wf a -> wf (neg a) /\ den (neg a) = - den a.
Proof. exact neg_exact. Qed.

Theorem C10_not_exact : forall a, wf a -> wf (bit_not a) /\ den (bit_not a) = Z.lnot (den a).
Proof. exact not_exact. Qed.

Theorem C10_and_exact : forall a b, wf a -> wf b ->
  wf (bit_and a b) /\ den (bit_and a b) = Z.land (den a) (den b).
Proof. exact and_exact. Qed.

Theorem C10_or_exact : forall a b, wf a -> wf b ->
  wf (bit_or a b) /\ den (bit_or a b) = Z.lor (den a) (den b).
Proof. exact or_exact. Qed.

Theorem C10_xor_exact : forall a b, wf a -> wf b ->
  wf (bit_xor a b) /\ den (bit_xor a b) = Z.lxor (den a) (den b).
Proof. exact xor_exact. Qed.

(* floor semantics: Z.div / Z.modulo round toward minus infinity; the only error is division by zero *)
Theorem C10_floor_div_exact : forall a b, wf a -> wf b ->
  match floor_div a b with
  | Ok r => den b <> 0 /\ wf r /\ den r = den a / den b
  | Err FloorDivisionByZero => den b = 0
  | Err _ => False
  end.
Proof. exact floor_div_exact. Qed.

Theorem C10_percent_exact : forall a b, wf a -> wf b ->
  match percent a b with
  | Ok r => den b <> 0 /\ wf r /\ den r = den a mod den b
  | Err ModuloByZero => den b = 0
  | Err _ => False
  end.
Proof. exact percent_exact. Qed.

Theorem C10_shl_exact : forall a b, wf a -> wf b ->
  match left_shift a b with
  | Ok r => 0 <= den b /\ wf r /\ den r = Z.shiftl (den a) (den b)
  | Err LeftShiftNegative => den b < 0
  | Err LeftShiftOverflow => den a <> 0 /\ shl_cap < den b
  | Err _ => False
  end.
Proof. exact shl_exact. Qed.

(* the magnitude guard excludes only integers needing more than 2^64 bits *)
Theorem C10_shr_exact : forall a b, wf a -> wf b -> - 2 ^ u64max <= den a < 2 ^ u64max ->
  match right_shift a b with
  | Ok r => 0 <= den b /\ wf r /\ den r = Z.shiftr (den a) (den b)
  | Err RightShiftNegative => den b < 0
  | Err _ => False
  end.
Proof. exact shr_exact. Qed.

Theorem C10_abs_exact : forall a, wf a -> wf (abs a) /\ den (abs a) = Z.abs (den a).
Proof. exact abs_exact. Qed.

Theorem C10_compare_exact : forall a b, wf a -> wf b -> compare a b = Z.compare (den a) (den b).
Proof. exact compare_exact. Qed.

Theorem C10_eqb_exact : forall a b, wf a -> wf b -> eqb a b = (den a =? den b).
Proof. exact eqb_exact. Qed.

Theorem C10_unpack_i32_exact : forall a, wf a ->
  unpack_i32 a = if (-2147483648 <=? den a) && (den a <=? 2147483647) then Some (den a) else None.
Proof. exact unpack_i32_exact. Qed.

(* conversion to and from strings in any base 2..36: digits are in range, evaluate back to the
   number, and parsing a rendered integer returns it *)
Theorem C10_digits_exact : forall b n, 2 <= b -> 0 <= n ->
  of_digits b (digits b n) = n /\ Forall (fun d => 0 <= d < b) (digits b n) /\ digits b n <> nil.
Proof. exact of_digits_digits. Qed.

Theorem C10_parse_render : forall b z, 2 <= b <= 36 -> parse b (render b z) = Some z.
Proof. exact parse_render. Qed.

Example C10_strings_nonvacuous :
  render 16 (-255) = "-ff"%string /\ parse 36 "Zz"%string = Some 1295 /\ render 10 (2 ^ 64) = "18446744073709551616"%string.
Proof. repeat split; vm_compute; reflexivity. Qed.

(* the hypotheses are satisfiable by both representations, and a Big really is out of range *)
Example C10_nonvacuous :
  wf (Small 5) /\ wf (Small (-2147483648)) /\ wf (Big 2147483648) /\ wf (Big (- 2 ^ 200)) /\
  add (Small 2147483647) (Small 1) = Big 2147483648 /\
  floor_div (Small (-2147483648)) (Small (-1)) = Ok (Big 2147483648) /\
  percent (Big (- 2 ^ 70 - 1)) (Small 7) = Ok (Small 4).
Proof. repeat split; vm_compute; reflexivity. Qed.

(* ---- the same statements about the function bodies translated from /repo's sources on this run ----
   (tools/rs2v.py -> Extracted/RsInline.v, RsInt.v; primitives in Rs/Prelude.v).  `Require` without `Import`. *)
From SV Require Rs.Prelude Rs.ProofsInt Extracted.RsInline Extracted.RsInt.

Theorem C10_source_floor_div_exact : forall a b, wf a -> wf b ->
  div_post (den a) (den b) (SV.Rs.ProofsInt.to_res (SV.Extracted.RsInt.rs_floor_div a b)).
Proof. exact SV.Rs.ProofsInt.source_floor_div_exact. Qed.

Theorem C10_source_percent_exact : forall a b, wf a -> wf b ->
  mod_post (den a) (den b) (SV.Rs.ProofsInt.to_res (SV.Extracted.RsInt.rs_percent a b)).
Proof. exact SV.Rs.ProofsInt.source_percent_exact. Qed.

Theorem C10_source_shl_exact : forall a b, wf a -> wf b ->
  shl_post (den a) (den b) (SV.Rs.ProofsInt.to_res (SV.Extracted.RsInt.rs_left_shift a b)).
Proof. exact SV.Rs.ProofsInt.source_shl_exact. Qed.

Theorem C10_source_shr_exact : forall a b, wf a -> wf b -> - 2 ^ u64max <= den a < 2 ^ u64max ->
  shr_post (den a) (den b) (SV.Rs.ProofsInt.to_res (SV.Extracted.RsInt.rs_right_shift a b)).
Proof. exact SV.Rs.ProofsInt.source_shr_exact. Qed.

Theorem C10_source_abs_exact : forall a, wf a ->
  wf (SV.Extracted.RsInt.rs_abs a) /\ den (SV.Extracted.RsInt.rs_abs a) = Z.abs (den a).
Proof. exact SV.Rs.ProofsInt.source_abs_exact. Qed.

Theorem C10_source_checked_ops : forall a b,
  SV.Extracted.RsInline.rs_II_checked_add a b = (if in_inline (a + b) then Some (a + b) else None) /\
  SV.Extracted.RsInline.rs_II_checked_sub a b = (if in_inline (a - b) then Some (a - b) else None) /\
  SV.Extracted.RsInline.rs_II_checked_mul_i32 a b = (if in_inline (a * b) then Some (a * b) else None) /\
  SV.Extracted.RsInline.rs_II_checked_neg a = (if in_inline (- a) then Some (- a) else None).
Proof. exact SV.Rs.ProofsInt.source_checked_ops. Qed.

(* `.unwrap()` in left_shift cannot panic; the anyhow!("unreachable") errors cannot be returned *)
Theorem C10_source_no_panic : forall a b, wf a -> wf b ->
  SV.Extracted.RsInt.rs_left_shift a b <> SV.Rs.Prelude.RErr SV.Rs.Prelude.E_Panic /\
  SV.Extracted.RsInt.rs_floor_div a b <> SV.Rs.Prelude.RErr SV.Rs.Prelude.E_anyhow /\
  SV.Extracted.RsInt.rs_percent a b <> SV.Rs.Prelude.RErr SV.Rs.Prelude.E_anyhow.
Proof.
  intros a b Ha Hb. repeat split.
  - exact (SV.Rs.ProofsInt.rs_left_shift_no_panic a b Ha Hb).
  - exact (SV.Rs.ProofsInt.rs_floor_div_no_unreachable a b Ha Hb).
  - exact (SV.Rs.ProofsInt.rs_percent_no_unreachable a b Ha Hb).
Qed.

Theorem C10_source_min_max : SV.Extracted.RsInline.rs_II_min_max_for_bits SV.Rs.Prelude.InlineInt_BITS = (imin, imax).
Proof. exact SV.Rs.ProofsInt.rs_min_max_for_bits_eq. Qed.

(* + - * unary - & | ^ ~ and the ordering, as written in int_or_big.rs / bigint.rs today *)
Theorem C10_source_arith_exact : forall a b, wf a -> wf b ->
  (wf (SV.Extracted.RsInt.rs_add_sir a b) /\ den (SV.Extracted.RsInt.rs_add_sir a b) = den a + den b) /\
  (wf (SV.Extracted.RsInt.rs_sub_sir a b) /\ den (SV.Extracted.RsInt.rs_sub_sir a b) = den a - den b) /\
  (wf (SV.Extracted.RsInt.rs_mul_sir a b) /\ den (SV.Extracted.RsInt.rs_mul_sir a b) = den a * den b) /\
  (wf (SV.Extracted.RsInt.rs_neg_sir a) /\ den (SV.Extracted.RsInt.rs_neg_sir a) = - den a) /\
  (wf (SV.Extracted.RsInt.rs_bitand a b) /\ den (SV.Extracted.RsInt.rs_bitand a b) = Z.land (den a) (den b)) /\
  (wf (SV.Extracted.RsInt.rs_bitor a b) /\ den (SV.Extracted.RsInt.rs_bitor a b) = Z.lor (den a) (den b)) /\
  (wf (SV.Extracted.RsInt.rs_bitxor a b) /\ den (SV.Extracted.RsInt.rs_bitxor a b) = Z.lxor (den a) (den b)) /\
  (wf (SV.Extracted.RsInt.rs_bitnot a) /\ den (SV.Extracted.RsInt.rs_bitnot a) = Z.lnot (den a)) /\
  SV.Extracted.RsInt.rs_cmp_sir a b = Z.compare (den a) (den b).
Proof. exact SV.Rs.ProofsInt.source_arith_exact. Qed.
