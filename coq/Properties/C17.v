(* C17 property theorems.  Nothing but statements closed by `exact`, satisfiability examples and
   Print Assumptions; the statements are pinned in coq/pins/C17.txt. *)
From Coq Require Import ZArith String List Bool.
From SV Require Import Core.Syntax Ty.Spec Ty.Model Extracted.TypingC Typing.Model Typing.Proofs Typing.OpSound Typing.StmtSound Typing.WellTyped.
Import ListNotations.
Open Scope string_scope.

(* the loop of solve_bindings has the shape the model mirrors (re-extracted from typecheck.rs on every run) *)
Theorem C17_extracted_shape :
  solve_breaks_when_stable = true /\ solve_flags_nonconvergence = true /\
  solve_starts_from_never = true /\ solve_updates_by_union = true /\ (0 < iterations)%Z.
Proof. exact extracted_shape. Qed.
(* the rule of expr_slice_basic (typing/oracle/ctx.rs) for tuple types, re-extracted on every run: `true` is the shape after
   the repair 0f4399a that Typing/Model.v `slice_basic` follows (TyBasic::Tuple(tuple) -> Ty::tuple_of(tuple.item_ty()), with
   TyTuple::item_ty and Ty::tuple_of as the model has them); the old shape (the tuple type returned unchanged, which the model
   refuted) extracts `false` and breaks this obligation. *)
Theorem C17_extracted_tuple_slice_rule :
  TypingC.tuple_slice_is_homogeneous = true /\ TypingC.tuple_item_ty_is_union_of_elems = true /\
  TypingC.tuple_of_is_homogeneous_tuple = true.
Proof. repeat split; reflexivity. Qed.

(* The union iteration is bounded by the extracted constant (the loop is a structural recursion on it and never
   makes more passes than that), and non-convergence is flagged, never silent: a result without the
   approximation flag is unchanged by a further pass over all binding expressions; a run that used up all
   ITERATIONS passes is either flagged or stable. *)
Theorem C17_solve_passes_bounded : forall fixmul sigs bs n m, (passes fixmul sigs bs n m <= n)%nat.
Proof. exact passes_bounded. Qed.
Theorem C17_solve_terminates_flagged : forall fixmul sigs prog m,
  solve fixmul sigs prog = (m, false) ->
  step fixmul sigs (group (flat_map stmt_binds prog)) m = (m, false).
Proof. exact solve_unflagged_stable. Qed.
Theorem C17_solve_exhausted_flagged : forall fixmul sigs bs n m c m' f,
  solve_loop fixmul sigs bs n m c = (m', f) -> passes fixmul sigs bs n m = n -> (0 < n)%nat ->
  f = true \/ step fixmul sigs bs m' = (m', false).
Proof. exact exhausted_is_flagged. Qed.

(* An unflagged result is a post-fixpoint: the type of every binding expression, evaluated in the final types, is
   absorbed by the type of the binding it feeds (`absorbed` = union2 (types x) (type of e) = types x, the checker's own
   notion of "nothing new") ... *)
Theorem C17_solve_post_fixpoint : forall fixmul sigs prog m,
  solve fixmul sigs prog = (m, false) ->
  forall x es b, In (x, es) (group (flat_map stmt_binds prog)) -> In b es -> absorbed fixmul sigs m x b.
Proof. exact solve_post_fixpoint. Qed.
(* ... hence every value that belongs to the expression's type belongs to the binding's type. *)
Theorem C17_solve_post_fixpoint_denote : forall fixmul sigs m x b t tx v,
  absorbed fixmul sigs m x b -> bind_type fixmul sigs m b = IOk t -> get m x = IOk tx ->
  denote t v = true -> denote tx v = true.
Proof. exact absorbed_denote. Qed.

(* FULL STATEMENT (DESIGN Appendix A, infer_sound):
     well_scoped p -> solve p = (types, false) -> no error -> exec p = Ok st ->
     forall exported x, denote (types x) (value st x) = true.
   Reached: C17_infer_expr_sound_partial (no side condition: literals, names, not, and, or, conditional expressions);
   C17_infer_expr_sound_ops below (the operator fragment under `sound_ops`); C17_infer_sound_straightline (modules that are
   sequences of assignments).  Missing: comprehensions, methods, lambdas and calls of defs in the semantics; control flow
   (if/for/def bodies), tuple-unpacking targets and augmented assignments at statement level; the store semantics of
   coq/Core/Sem.v. *)
Theorem C17_infer_expr_sound_partial : forall fixmul sigs types rho e,
  frag e -> env_ok types rho ->
  forall t v, infer fixmul sigs types e = IOk t -> peval rho e = Some v -> denote t (abs v) = true.
Proof. exact infer_expr_sound_frag. Qed.

(* The faithful model REFUTES expression soundness outside that fragment: `3 * s` with s: Any is typed
   `float | int` (typecheck_num_bin_op puts Mul in the class of Add) while the value is the string "aaa".
   The same witness fails on the implementation (known finding unsound:int-mul-any). *)
Theorem C17_infer_expr_sound_refuted :
  exists types rho e t v,
    env_ok types rho /\ infer false [] types e = IOk t /\ peval rho e = Some v /\ denote t (abs v) = false.
Proof. exact infer_expr_sound_refuted. Qed.

(* Expression soundness for the OPERATOR FRAGMENT of the pure semantics `peval` (literals, names, list/tuple/dict displays,
   + - ~ not, the ten arithmetic/bitwise operators on int, + and * on str/list/tuple, all comparisons, == !=, in / not in,
   and/or/conditional, indexing of list/tuple/dict, slicing of str/list/tuple, calls of the pure builtins len str bool int
   any all abs min max sorted list), for the checker AS IT IS (fixmul = false) or repaired, whenever the expression
   satisfies the boolean side condition `sound_ops`, which excludes exactly the two rules refuted below:
     a * b  where a has an `int` alternative and b is Any (only with fixmul = false, the code as it was before 19a3ea8);
     a[i:j] where a has a typing.Iterable alternative;   (and a call must be a call of a builtin, not of a def).
   The slice of a fixed-arity tuple, excluded and refuted until the repair 0f4399a of expr_slice_basic, is now covered.
   `sigs_wf` / `env_wf`: the types of the environment are normalised (`wf_ty`, the invariant of Ty::unions). *)
Theorem C17_infer_expr_sound_ops : forall fixmul sigs types rho,
  sigs_wf sigs -> env_wf types -> env_ok types rho ->
  forall e t v, sound_ops fixmul sigs types e = true ->
    infer fixmul sigs types e = IOk t -> peval rho e = Some v -> denote t (abs v) = true.
Proof. exact infer_expr_sound_ops. Qed.

(* every type the checker computes from normalised types is normalised *)
Theorem C17_infer_wf : forall fixmul sigs types, sigs_wf sigs -> env_wf types ->
  forall e t, infer fixmul sigs types e = IOk t -> wf_ty t = true.
Proof. exact infer_wf. Qed.

(* per-operator statements the theorem is assembled from *)
Theorem C17_bin_op_sound : forall fixmul o ta tb t va vb v,
  wf_ty ta = true -> wf_ty tb = true -> (o = BMul -> mul_ok fixmul ta tb = true) ->
  denote ta (abs va) = true -> denote tb (abs vb) = true ->
  expr_bin_op fixmul o ta tb = IOk t -> bin_sem o va vb = Some v -> denote t (abs v) = true.
Proof. exact expr_bin_op_sound. Qed.
Theorem C17_index_sound : forall ta ti t va vi v,
  wf_ty ta = true -> wf_ty ti = true -> denote ta (abs va) = true -> denote ti (abs vi) = true ->
  expr_index ta ti = IOk t -> index_sem va vi = Some v -> denote t (abs v) = true.
Proof. exact index_sound. Qed.
(* slicing of str / list / tuple values; `slice_ok ta` only says that ta has no typing.Iterable alternative: tuple types,
   fixed-arity or homogeneous, are covered (a tuple type slices to tuple[T0 | .. | Tn-1, ...]) *)
Theorem C17_slice_sound : forall ta t va lo hi st v,
  wf_ty ta = true -> slice_ok ta = true -> denote ta (abs va) = true ->
  union_simple slice_basic ta = IOk t -> slice_sem va lo hi st = Some v -> denote t (abs v) = true.
Proof. exact slice_sound. Qed.
Theorem C17_slice_ok_is_no_iterable : forall ta, slice_ok ta = negb (existsb is_iter (alts ta)).
Proof. reflexivity. Qed.
(* the repaired rule itself, for all element types, the empty tuple included (Ty::unions([]) = Never) *)
Theorem C17_slice_basic_tuple : forall ts, slice_basic (TyTuple ts) = Some (TTupleOf (us ts)).
Proof. exact slice_basic_tuple. Qed.
Theorem C17_slice_basic_tuple_of : forall e, slice_basic (TTupleOf e) = Some (TTupleOf e).
Proof. exact slice_basic_tuple_of. Qed.
Example C17_slice_basic_empty_tuple : slice_basic (TyTuple []) = Some (TTupleOf TNever).
Proof. exact slice_basic_empty_tuple. Qed.
Theorem C17_builtin_sound : forall f vs v t,
  String.eqb f "list" = false -> builtin_ret f = IOk t -> builtin_sem f vs = Some v -> denote t (abs v) = true.
Proof. exact builtin_sound. Qed.

(* The two excluded rules are REFUTED by the faithful model (`refutes types rho e t v`: the environment is normalised and
   holds values of its types, the checker commits to t for e, e evaluates to v, and v is not in t):
   - `3 * s`, s: Any  is typed `float | int`, the value is "aaa"        (finding unsound:int-mul-any, repaired by 19a3ea8: fixmul)
   - `x[0:1]`, x: str | typing.Iterable is typed `str`, the value of [1, 2][0:1] is [1]   (typecheck_union_simple drops the
     Iterable alternative because expr_slice_basic has no rule for it, although lists and tuples are Iterable and sliceable)
   A third rule used to be refuted here (C17_refuted_tuple_slice: `t[0:1]`, t: (int, str) kept the type (int, str) while the value
   is (1,); finding unsound:tuple-slice-keeps-arity).  It was repaired in the code by 0f4399a, the model follows the repaired
   rule, the refutation is no longer a theorem and is replaced by C17_tuple_slice_sound_example below. *)
Theorem C17_refuted_int_mul_any :
  refutes [("s", IOk TAny)] [("s", PStr "a")] (EBin BMul (EInt 3) (EVar "s")) int_or_float (PStr "aaa").
Proof. exact refuted_int_mul_any. Qed.
(* The rule for `int * Any` as the translator finds it in values/types/num/typecheck.rs on this run (after the repair 19a3ea8:
   an early return of `Any`): with that rule every binary operation of the model is sound with NO side condition on `*` -
   the first of the three refuted rules is gone from the code, and its former witness is now typed `Any`. *)
Theorem C17_bin_op_sound_extracted : forall o ta tb t va vb v,
  TypingC.int_mul_any_is_any = true ->
  wf_ty ta = true -> wf_ty tb = true ->
  denote ta (abs va) = true -> denote tb (abs vb) = true ->
  expr_bin_op TypingC.int_mul_any_is_any o ta tb = IOk t -> bin_sem o va vb = Some v -> denote t (abs v) = true.
Proof.
  intros o ta tb t va vb v E Wa Wb Da Db Ht Hv.
  assert (M : o = BMul -> mul_ok TypingC.int_mul_any_is_any ta tb = true).
  { intros _. unfold mul_ok. rewrite E. reflexivity. }
  exact (expr_bin_op_sound TypingC.int_mul_any_is_any o ta tb t va vb v Wa Wb M Da Db Ht Hv).
Qed.
Example C17_int_mul_any_extracted_is_repaired :
  TypingC.int_mul_any_is_any = true /\
  infer TypingC.int_mul_any_is_any [] [("s", IOk TAny)] (EBin BMul (EInt 3) (EVar "s")) = IOk TAny.
Proof. vm_compute. split; reflexivity. Qed.

(* the former witness: `t[0:1]` with t: (int, str), t = (1, "a") is now typed tuple[int | str, ...]; the value (1,) belongs to
   that type (and not to the old answer (int, str)) *)
Example C17_tuple_slice_sound_example :
  env_wf [("t", IOk (TyTuple [tint; tstr]))] /\ env_ok [("t", IOk (TyTuple [tint; tstr]))] [("t", PTuple [PInt 1; PStr "a"])] /\
  infer false [] [("t", IOk (TyTuple [tint; tstr]))] (ESlice (EVar "t") (Some (EInt 0)) (Some (EInt 1)) None)
    = IOk (TTupleOf (TUnion [tint; tstr])) /\
  peval [("t", PTuple [PInt 1; PStr "a"])] (ESlice (EVar "t") (Some (EInt 0)) (Some (EInt 1)) None) = Some (PTuple [PInt 1]) /\
  denote (TTupleOf (TUnion [tint; tstr])) (abs (PTuple [PInt 1])) = true /\
  denote (TyTuple [tint; tstr]) (abs (PTuple [PInt 1])) = false.
Proof. exact tuple_slice_sound_example. Qed.
Theorem C17_refuted_iterable_slice :
  refutes [("x", IOk (TUnion [tstr; TIter]))] [("x", PList [PInt 1; PInt 2])]
          (ESlice (EVar "x") (Some (EInt 0)) (Some (EInt 1)) None) tstr (PList [PInt 1]).
Proof. exact refuted_iterable_slice. Qed.
(* the side condition rejects the two remaining witnesses and ACCEPTS the former tuple-slice witness (second conjunct) *)
Theorem C17_sound_ops_rejects_witnesses :
  sound_ops false [] [("s", IOk TAny)] (EBin BMul (EInt 3) (EVar "s")) = false /\
  sound_ops false [] [("t", IOk (TyTuple [tint; tstr]))] (ESlice (EVar "t") (Some (EInt 0)) (Some (EInt 1)) None) = true /\
  sound_ops false [] [("x", IOk (TUnion [tstr; TIter]))] (ESlice (EVar "x") (Some (EInt 0)) (Some (EInt 1)) None) = false.
Proof. exact sound_ops_rejects_witnesses. Qed.

(* Whole-module soundness for STRAIGHT-LINE modules (every statement is `x = e`, executed in order by `run`): if the solver
   result is unflagged, no assignment gets a diagnostic, and every right-hand side is in the operator fragment, then after
   the run every binding the checker commits to holds a value of the committed type.  (By C17_solve_post_fixpoint,
   C17_solve_post_fixpoint_denote, C17_infer_expr_sound_ops and the invariance of normalisation under the union iteration.) *)
Theorem C17_infer_sound_straightline : forall fixmul sigs prog asg m rho,
  sigs_wf sigs ->
  straightline prog = Some asg ->
  solve fixmul sigs prog = (m, false) ->
  (forall x e, In (x, e) asg -> sound_ops fixmul sigs m e = true /\ infer fixmul sigs m e <> IErr) ->
  run asg [] = Some rho ->
  forall x t v, lookup x m = Some (IOk t) -> lookup x rho = Some v -> denote t (abs v) = true.
Proof. exact infer_sound_straightline. Qed.
(* the solver's result for a straight-line module is normalised *)
Theorem C17_solve_straightline_wf : forall fixmul sigs prog asg m f,
  sigs_wf sigs -> straightline prog = Some asg -> solve fixmul sigs prog = (m, f) -> env_wf m.
Proof. exact solve_straightline_wf. Qed.

(* FULL STATEMENT (welltyped_no_error): generated_by_rules p -> errors (typecheck p) = [].
   Reached: C17_welltyped_no_error_partial (the fragment `frag`, any environment without erroneous bindings) and
   C17_welltyped_no_error below (expressions derivable by the generator's typing rules).  Missing: the statement level
   (that the solver's result satisfies the environment hypothesis for every generated program), methods, lambdas, keyword
   arguments, enumerate/zip/reversed, indexing of tuple displays (a known false-error finding of the real checker). *)
Theorem C17_welltyped_no_error_partial : forall fixmul sigs types e,
  frag e -> (forall x, lookup x types <> Some IErr) -> infer fixmul sigs types e <> IErr.
Proof. exact frag_no_error. Qed.

(* Completeness of the model checker on the GENERATOR'S TYPING RULES (`wt G GS e t`, Typing/WellTyped.v: the derivation
   tools/gen/progs.py Gen.expr follows for "an expression of static type t": literals, names, list/tuple/dict displays,
   conditional, and/or, not (also over and/or with operands of different types), + - ~, the ten int operators, comparisons,
   == != at any type, in / not in, str + str, str * int, list + list, list * int, tuple + tuple, list indexing, str/list
   slicing with int bounds, the builtins len str bool int abs any all min max sorted, list(xs), list(range(..)), calls of the
   module's defs with defaults, list and dict comprehensions over lists or range(..)):
   a well-typed expression gets NO DIAGNOSTIC (`infer .. <> IErr`), and the type the checker commits to is compatible with
   the generator's type (`compatb`: a scalar type is contained or the type is Never; a container type is Any or all its
   alternatives are that container with compatible components).  Hypotheses: normalised environment and signatures; every
   name of the generator's scope has no erroneous binding and, if the checker commits, a compatible type; builtins are not
   shadowed; the signature table agrees with the generator's function types. *)
Theorem C17_welltyped_no_error : forall fixmul sigs types G GS,
  sigs_wf sigs -> env_wf types ->
  (forall x t, lookup x G = Some t ->
     match lookup x types with Some (IOk T) => compatb t T = true | Some IErr => False | _ => True end) ->
  (forall f, In f builtin_names -> lookup f sigs = None /\ lookup f types = None) ->
  (forall f ps n r, lookup f GS = Some (ps, n, r) ->
     exists s, lookup f sigs = Some s /\ forall2b compatb ps (fs_params s) = true /\ fs_nreq s = n /\ compatb r (fs_ret s) = true) ->
  forall e t, wt G GS e t ->
    infer fixmul sigs types e <> IErr /\ (forall T, infer fixmul sigs types e = IOk T -> compatb t T = true).
Proof. exact welltyped_no_error. Qed.

(* the facts about Ty::unions and intersects the completeness proof rests on *)
Theorem C17_unions_keep_compat : forall t ts, forallb (compatb t) ts = true -> compatb t (us ts) = true.
Proof. exact us_compat. Qed.
Theorem C17_compatible_types_intersect : forall t A B,
  wf_ty A = true -> wf_ty B = true -> compatb t A = true -> compatb t B = true -> inter B (widen A) = true.
Proof. exact eq_inter_compat. Qed.

(* ---- the hypotheses are satisfiable on non-trivial states ------------------------------------------ *)
(* a def with a loop-carried dependency: y = x is typed only in the second pass; the result is unflagged,
   x and y are int, the comprehension variable c is int and z is list[int] *)
Definition ex_prog : list stmt :=
  [SDef 1 "f" [PNormal "p" None]
     [SFor 2 (TVar "i") (EList [EInt 1; EInt 2])
        [SIf 3 (EBin BGt (EVar "i") (EInt 1)) [SAssign 4 (TVar "y") (EVar "x")] [];
         SAssign 5 (TVar "x") (EVar "i")];
      SAssign 6 (TVar "z") (EListComp (EBin BAdd (EVar "c") (EVar "x")) [CFor (TVar "c") (EList [EInt 3])]);
      SAssign 7 (TVar "w") (EIf (EVar "p") (EStr "a") (EVar "z"))]].
Example C17_example_solve :
  exists m, solve false [("f", mkSig [TBase BInt] 1 TAny)] ex_prog = (m, false)
            /\ get m "y" = IOk tint /\ get m "z" = IOk (TList tint) /\ get m "p" = IOk tint
            /\ get m "w" = IOk (TUnion [tstr; TList tint]).
Proof. eexists. split; [vm_compute; reflexivity|]. repeat split; vm_compute; reflexivity. Qed.
Example C17_example_sound :
  infer false [] [("a", IOk tint); ("b", IOk tstr)] (EIf (EUn UNot (EVar "a")) (EVar "a") (EOr (EVar "b") ENone))
    = IOk (TUnion [tnone; tint; tstr])
  /\ peval [("a", PInt 0); ("b", PStr "")] (EIf (EUn UNot (EVar "a")) (EVar "a") (EOr (EVar "b") ENone)) = Some (PInt 0).
Proof. split; vm_compute; reflexivity. Qed.
Example C17_example_repaired : infer true [] [("s", IOk TAny)] (EBin BMul (EInt 3) (EVar "s")) = IOk TAny.
Proof. exact repaired_witness. Qed.

(* the operator theorem applies to a non-trivial expression: every hypothesis holds and the conclusion is computed *)
Definition ex_types : tmap := [("a", IOk tint); ("l", IOk (TList tint)); ("d", IOk (TDict tstr tint)); ("s", IOk tstr)].
Definition ex_rho : list (string * pv) :=
  [("a", PInt 5); ("l", PList [PInt 1; PInt 2; PInt 3]); ("d", PDict [(PStr "k", PInt 7)]); ("s", PStr "hello")].
Definition ex_expr : expr :=
  ETuple [EBin BAdd (EIndex (EVar "l") (EUn UNeg (EInt 1))) (EBin BMul (EVar "a") (EIndex (EVar "d") (EStr "k")));
          ESlice (EVar "s") (Some (EInt 1)) None (Some (EInt 2));
          EBin BNotIn (EVar "a") (EVar "l");
          ECall (EVar "list") [EDict [(EVar "s", EBin BMul (EVar "l") (EInt 2))]] [] None None;
          EBin BAdd (ESlice (EVar "l") None None (Some (EInt (-1)))) (EList [ECall (EVar "len") [EVar "s"] [] None None])].
Example C17_example_ops :
  sound_ops false [] ex_types ex_expr = true
  /\ infer false [] ex_types ex_expr = IOk (TyTuple [tint; tstr; tbool; TList tstr; TList tint])
  /\ peval ex_rho ex_expr = Some (PTuple [PInt 38; PStr "el"; PBool true; PList [PStr "hello"]; PList [PInt 3; PInt 2; PInt 1; PInt 5]]).
Proof. repeat split; vm_compute; reflexivity. Qed.

(* a straight-line module: the hypotheses of C17_infer_sound_straightline hold and the run binds all four names *)
Definition ex_sl : list stmt :=
  [SAssign 1 (TVar "n") (EInt 3);
   SAssign 2 (TVar "xs") (EBin BMul (EList [EVar "n"; EInt 4]) (EInt 2));
   SAssign 3 (TVar "n") (EIf (EVar "xs") (EStr "many") (EVar "n"));
   SAssign 4 (TVar "p") (ETuple [EIndex (EVar "xs") (EInt 0); EVar "n"])].
Example C17_example_straightline :
  exists asg m rho,
    straightline ex_sl = Some asg /\ solve false [] ex_sl = (m, false) /\ run asg [] = Some rho
    /\ forallb (fun xe => sound_ops false [] m (snd xe) && negb (ires_eqb (infer false [] m (snd xe)) IErr)) asg = true
    /\ get m "n" = IOk (TUnion [tint; tstr]) /\ get m "p" = IOk (TUnion [TyTuple [tint; tint]; TyTuple [TUnion [tint; tstr]; TUnion [tint; tstr]]])
    /\ lookup "p" rho = Some (PTuple [PInt 3; PStr "many"]).
Proof. do 3 eexists. repeat split; vm_compute; reflexivity. Qed.

(* the completeness theorem applies to a non-trivial expression with a comprehension, a call of a def with a default, a
   slice, == and list concatenation:  [x + a for x in l if x == a] + f(a * 2, s + "x")[0:1]  *)
Definition ex_G : genv := [("a", GInt); ("l", GList GInt); ("s", GStr); ("x", GInt)].
Definition ex_GS : gsigs := [("f", ([GInt; GStr; GBool], 2%nat, GList GInt))].
Definition ex_wt_types : tmap := [("a", IOk tint); ("l", IOk (TList tint)); ("s", IOk TAny); ("x", IOk tint)].
Definition ex_wt_sigs : sigmap := [("f", mkSig [tint; TAny; tbool] 2 (TList tint))].
Definition ex_wt_expr : expr :=
  EBin BAdd
    (EListComp (EBin BAdd (EVar "x") (EVar "a")) [CFor (TVar "x") (EVar "l"); CIf (EBin BEq (EVar "x") (EVar "a"))])
    (ESlice (call1 "f" [EBin BMul (EVar "a") (EInt 2); EBin BAdd (EVar "s") (EStr "x")]) (Some (EInt 0)) (Some (EInt 1)) None).
Example C17_example_welltyped :
  wt ex_G ex_GS ex_wt_expr (GList GInt)
  /\ sigs_wf ex_wt_sigs /\ env_wf ex_wt_types
  /\ (forall x t, lookup x ex_G = Some t ->
        match lookup x ex_wt_types with Some (IOk T) => compatb t T = true | Some IErr => False | _ => True end)
  /\ (forall f, In f builtin_names -> lookup f ex_wt_sigs = None /\ lookup f ex_wt_types = None)
  /\ (forall f ps n r, lookup f ex_GS = Some (ps, n, r) ->
        exists s, lookup f ex_wt_sigs = Some s /\ forall2b compatb ps (fs_params s) = true /\ fs_nreq s = n /\ compatb r (fs_ret s) = true)
  /\ infer false ex_wt_sigs ex_wt_types ex_wt_expr = IOk (TList tint).
Proof.
  split; [|split; [|split; [|split; [|split; [|split]]]]].
  - apply W_list_add.
    + apply W_listcomp.
      * constructor; [apply (WC_for ex_G ex_GS _ _ GInt); apply W_var; reflexivity|].
        constructor; [|constructor]. apply (WC_if ex_G ex_GS _ GBool). apply (W_eq ex_G ex_GS BEq _ _ GInt); [reflexivity | |]; apply W_var; reflexivity.
      * apply W_arith; [reflexivity | |]; apply W_var; reflexivity.
    + apply W_slice; [right; eexists; reflexivity | | constructor; constructor | constructor; constructor | constructor].
      apply (W_call ex_G ex_GS "f" _ [GInt; GStr; GBool] 2%nat (GList GInt) [GInt; GStr] [GBool]); [reflexivity | reflexivity | | simpl; auto].
      constructor; [|constructor; [|constructor]].
      * apply W_arith; [reflexivity | apply W_var; reflexivity | constructor].
      * apply W_str_add; [apply W_var; reflexivity | constructor].
  - intros f s H. simpl in H. destruct (String.eqb f "f"); inversion H; subst. split; [reflexivity | repeat constructor].
  - intros x t H. simpl in H.
    repeat match type of H with (if String.eqb x ?s then _ else _) = _ => destruct (String.eqb x s) end;
      inversion H; reflexivity.
  - intros x t H. simpl in H |- *.
    repeat match type of H with (if String.eqb x ?s then _ else _) = _ => destruct (String.eqb x s) end;
      inversion H; subst; reflexivity.
  - intros f Hin. simpl in Hin. repeat (destruct Hin as [<-|Hin]; [split; reflexivity|]). destruct Hin.
  - intros f ps n r H. simpl in H. destruct (String.eqb f "f") eqn:E; [|discriminate]. inversion H; subst.
    apply String.eqb_eq in E. subst f. eexists. repeat split; reflexivity.
  - vm_compute. reflexivity.
Qed.

(* ------------------------------------------------------------------------------------------------------------------
   The module INTERFACE (types of exported module variables; also what every def sees for a global) is computed by the
   partial evaluator of typing/fill_types_for_lint.rs over the top-level statements, not by the solver.  Model:
   Typing/IfaceModel.v (qualified names: it has its own small statement language). *)
From SV Require Typing.IfaceModel Typing.IfaceProofs.
Local Open Scope nat_scope.

(* For EVERY run of the module (conditions and iteration counts arbitrary), every exported variable for which the
   interface commits to a definite type (not Any) holds a value of one of the committed kinds. *)
Theorem C17_interface_sound : forall s r', IfaceModel.exec IfaceModel.rempty s r' ->
  forall x ks k, IfaceModel.interface s x = Some (IfaceModel.IKinds ks) -> r' x = Some k -> In k ks.
Proof. exact IfaceProofs.interface_sound. Qed.

(* the invariant behind it, for any prefix state *)
Theorem C17_interface_step_sound : forall s i r r', IfaceModel.exec r s r' -> IfaceModel.iface_sound i r ->
  IfaceModel.iface_sound (IfaceModel.abs false i s) r'.
Proof. exact IfaceProofs.abs_sound. Qed.

(* a body that may not run exactly once resets exactly the variables assigned in it, and a run changes no other *)
Theorem C17_interface_unset_exact : forall s i y,
  IfaceModel.unset false i s y = if IfaceProofs.mem y (IfaceProofs.targets s) then Some IfaceModel.IAny else i y.
Proof. exact IfaceProofs.unset_spec. Qed.

(* Keeping the first binding's type for a variable that is re-bound inside a top-level if / for body or by a tuple
   unpacking ("what we already know about its type is still useful") is UNSOUND: the interface says str, the module
   leaves a value of another kind. *)
Theorem C17_interface_keep_first_binding_refuted :
  exists s r', IfaceModel.exec IfaceModel.rempty s r' /\ ~ IfaceModel.iface_sound (IfaceModel.abs true IfaceModel.iempty s) r'.
Proof. exact IfaceProofs.keep_first_binding_refuted. Qed.

Example C17_interface_keep_first_witnesses :
  (exists r', IfaceModel.exec IfaceModel.rempty IfaceProofs.rebound_in_if r' /\
     IfaceModel.abs true IfaceModel.iempty IfaceProofs.rebound_in_if 0 = Some (IfaceModel.IKinds [IfaceModel.KStr]) /\
     r' 0 = Some IfaceModel.KOther) /\
  (exists r', IfaceModel.exec IfaceModel.rempty IfaceProofs.rebound_in_for r' /\
     IfaceModel.abs true IfaceModel.iempty IfaceProofs.rebound_in_for 0 = Some (IfaceModel.IKinds [IfaceModel.KStr]) /\
     r' 0 = Some IfaceModel.KOther) /\
  (exists r', IfaceModel.exec IfaceModel.rempty IfaceProofs.rebound_unpack r' /\
     IfaceModel.abs true IfaceModel.iempty IfaceProofs.rebound_unpack 0 = Some (IfaceModel.IKinds [IfaceModel.KStr]) /\
     r' 0 = Some IfaceModel.KOther) /\
  IfaceModel.interface IfaceProofs.rebound_in_if 0 = Some IfaceModel.IAny /\
  IfaceModel.interface IfaceProofs.rebound_in_for 0 = Some IfaceModel.IAny /\
  IfaceModel.interface IfaceProofs.rebound_unpack 0 = Some IfaceModel.IAny.
Proof.
  split; [exact IfaceProofs.keep_first_unsound_if|]. split; [exact IfaceProofs.keep_first_unsound_for|].
  split; [exact IfaceProofs.keep_first_unsound_unpack|]. exact IfaceProofs.as_is_any.
Qed.

(* the hypotheses are satisfiable on a non-trivial module: unions from straight-line re-binding, alias, def, a branch *)
Example C17_interface_sample :
  IfaceModel.interface IfaceProofs.sample_module 0 = Some (IfaceModel.IKinds [IfaceModel.KNone; IfaceModel.KStr]) /\
  IfaceModel.interface IfaceProofs.sample_module 1 = Some (IfaceModel.IKinds [IfaceModel.KTuple]) /\
  IfaceModel.interface IfaceProofs.sample_module 2 = Some IfaceModel.IAny /\
  IfaceModel.interface IfaceProofs.sample_module 3 = Some (IfaceModel.IKinds [IfaceModel.KFn]) /\
  exists r', IfaceModel.exec IfaceModel.rempty IfaceProofs.sample_module r' /\ r' 0 = Some IfaceModel.KNone /\
             r' 1 = Some IfaceModel.KTuple /\ r' 2 = Some IfaceModel.KOther /\ r' 3 = Some IfaceModel.KFn.
Proof. exact IfaceProofs.sample_interface. Qed.
