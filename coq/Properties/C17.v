(* C17 property theorems.  Nothing but statements closed by `exact`, satisfiability examples and
   Print Assumptions; the statements are pinned in coq/pins/C17.txt. *)
From Coq Require Import ZArith String List Bool.
From SV Require Import Core.Syntax Ty.Spec Ty.Model Extracted.TypingC Typing.Model Typing.Proofs.
Import ListNotations.
Open Scope string_scope.

(* the loop of solve_bindings has the shape the model mirrors (re-extracted from typecheck.rs on every run) *)
Theorem C17_extracted_shape :
  solve_breaks_when_stable = true /\ solve_flags_nonconvergence = true /\
  solve_starts_from_never = true /\ solve_updates_by_union = true /\ (0 < iterations)%Z.
Proof. exact extracted_shape. Qed.

(* The union iteration is bounded by the extracted constant (the loop is a structural recursion on it and never
   makes more passes than that), and non-convergence is flagged, never silent: a result without the
   approximation flag is unchanged by a further pass over all binding expressions; a run that used up all
   ITERATIONS passes is either flagged or stable. *)
Theorem C17_solve_passes_bounded : forall fixmul sigs bs n m, (passes fixmul sigs bs n m <= n)%nat.
Proof. exact passes_bounded. Qed.
Theorem C17_solve_terminates_flagged : forall fixmul sigs prog m,
  solve fixmul sigs prog = (m, false) ->
  step fixmul sigs (group (flat_map stmt_binds prog)) m = (m, false).
Proof. exact solve_unflagged_stable. Qed.
Theorem C17_solve_exhausted_flagged : forall fixmul sigs bs n m c m' f,
  solve_loop fixmul sigs bs n m c = (m', f) -> passes fixmul sigs bs n m = n -> (0 < n)%nat ->
  f = true \/ step fixmul sigs bs m' = (m', false).
Proof. exact exhausted_is_flagged. Qed.

(* An unflagged result is a post-fixpoint: the type of every binding expression, evaluated in the final types, is
   absorbed by the type of the binding it feeds (`absorbed` = union2 (types x) (type of e) = types x, the checker's own
   notion of "nothing new") ... *)
Theorem C17_solve_post_fixpoint : forall fixmul sigs prog m,
  solve fixmul sigs prog = (m, false) ->
  forall x es b, In (x, es) (group (flat_map stmt_binds prog)) -> In b es -> absorbed fixmul sigs m x b.
Proof. exact solve_post_fixpoint. Qed.
(* ... hence every value that belongs to the expression's type belongs to the binding's type. *)
Theorem C17_solve_post_fixpoint_denote : forall fixmul sigs m x b t tx v,
  absorbed fixmul sigs m x b -> bind_type fixmul sigs m b = IOk t -> get m x = IOk tx ->
  denote t v = true -> denote tx v = true.
Proof. exact absorbed_denote. Qed.

(* FULL STATEMENT (DESIGN Appendix A, infer_sound):
     well_scoped p -> solve p = (types, false) -> no error -> exec p = Ok st ->
     forall exported x, denote (types x) (value st x) = true.
   Reached: soundness of expression typing w.r.t. the pure semantics `peval` for the fragment `frag`
   (literals, names, not, and, or, conditional expressions), for both the faithful and the repaired rule set.
   Missing: operators, displays, indexing, calls and comprehensions in the proof (they are in the model and in the
   tie), statements and defs (whole-module soundness), the store semantics of coq/Core/Sem.v. *)
Theorem C17_infer_expr_sound_partial : forall fixmul sigs types rho e,
  frag e -> env_ok types rho ->
  forall t v, infer fixmul sigs types e = IOk t -> peval rho e = Some v -> denote t (abs v) = true.
Proof. exact infer_expr_sound_frag. Qed.

(* The faithful model REFUTES expression soundness outside that fragment: `3 * s` with s: Any is typed
   `float | int` (typecheck_num_bin_op puts Mul in the class of Add) while the value is the string "aaa".
   The same witness fails on the implementation (known finding unsound:int-mul-any). *)
Theorem C17_infer_expr_sound_refuted :
  exists types rho e t v,
    env_ok types rho /\ infer false [] types e = IOk t /\ peval rho e = Some v /\ denote t (abs v) = false.
Proof. exact infer_expr_sound_refuted. Qed.

(* FULL STATEMENT (welltyped_no_error): generated_by_rules p -> errors (typecheck p) = [].
   Reached: no diagnostic on the fragment `frag` when the environment holds no erroneous binding. *)
Theorem C17_welltyped_no_error_partial : forall fixmul sigs types e,
  frag e -> (forall x, lookup x types <> Some IErr) -> infer fixmul sigs types e <> IErr.
Proof. exact frag_no_error. Qed.

(* ---- the hypotheses are satisfiable on non-trivial states ------------------------------------------ *)
(* a def with a loop-carried dependency: y = x is typed only in the second pass; the result is unflagged,
   x and y are int, the comprehension variable c is int and z is list[int] *)
Definition ex_prog : list stmt :=
  [SDef 1 "f" [PNormal "p" None]
     [SFor 2 (TVar "i") (EList [EInt 1; EInt 2])
        [SIf 3 (EBin BGt (EVar "i") (EInt 1)) [SAssign 4 (TVar "y") (EVar "x")] [];
         SAssign 5 (TVar "x") (EVar "i")];
      SAssign 6 (TVar "z") (EListComp (EBin BAdd (EVar "c") (EVar "x")) [CFor (TVar "c") (EList [EInt 3])]);
      SAssign 7 (TVar "w") (EIf (EVar "p") (EStr "a") (EVar "z"))]].
Example C17_example_solve :
  exists m, solve false [("f", mkSig [TBase BInt] 1 TAny)] ex_prog = (m, false)
            /\ get m "y" = IOk tint /\ get m "z" = IOk (TList tint) /\ get m "p" = IOk tint
            /\ get m "w" = IOk (TUnion [tstr; TList tint]).
Proof. eexists. split; [vm_compute; reflexivity|]. repeat split; vm_compute; reflexivity. Qed.
Example C17_example_sound :
  infer false [] [("a", IOk tint); ("b", IOk tstr)] (EIf (EUn UNot (EVar "a")) (EVar "a") (EOr (EVar "b") ENone))
    = IOk (TUnion [tnone; tint; tstr])
  /\ peval [("a", PInt 0); ("b", PStr "")] (EIf (EUn UNot (EVar "a")) (EVar "a") (EOr (EVar "b") ENone)) = Some (PInt 0).
Proof. split; vm_compute; reflexivity. Qed.
Example C17_example_repaired : infer true [] [("s", IOk TAny)] (EBin BMul (EInt 3) (EVar "s")) = IOk TAny.
Proof. exact repaired_witness. Qed.
