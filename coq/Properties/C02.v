(* C02 property theorems: compile-time optimisation never changes what a program does.
   Model of the optimiser: Opt/Model.v (mirrors eval/compiler/{expr,expr_bool,stmt,call,def_inline}.rs);
   semantics of the IR: Opt/Sem.v (abstract world, arbitrary effectful native functions, unassigned slots fail,
   fuel only for def calls).  Statements only; proofs are in Opt/Proofs.v. *)
From Coq Require Import ZArith String List Bool.
From SV Require Import Extracted.OptC Opt.Model Opt.Sem Opt.Proofs Opt.Cases.
Import ListNotations.
Open Scope string_scope.

Section C02.
  (* everything the optimiser does not know is universally quantified *)
  Variable W : Type.                                                  (* run-time world: heap + transcript *)
  Variable OP : ops.                                                  (* pure meaning of operators on frozen operands *)
  Variable prim : nat -> list value -> W -> res W value.             (* native functions: arbitrary effects/failures *)
  Variable heap_un : un -> value -> W -> res W value.                (* operators on non-frozen operands: arbitrary *)
  Variable heap_bin : bop -> value -> value -> W -> res W value.
  Variable heap_slice : value -> value -> value -> value -> W -> res W value.
  Variable dict_check : list value -> option string.
  Variable ref_truth : W -> nat -> bool.
  Variable ref_iter : W -> nat -> option (list value).
  Variable set_index : value -> value -> value -> W -> res W unit.
  Variable defs : nat -> option (nat * expr).                        (* frozen defs `return e` *)

  Notation eval := (eval W OP prim heap_un heap_bin heap_slice dict_check ref_truth defs).
  Notation exec_block := (exec_block W OP prim heap_un heap_bin heap_slice dict_check ref_truth ref_iter set_index defs).
  Notation exec := (exec W OP prim heap_un heap_bin heap_slice dict_check ref_truth ref_iter set_index defs).

  (* an expression classified pure-and-infallible evaluates, in every state and with every fuel, to a value
     without changing the world (heap and transcript) *)
  Theorem C02_pure_infallible_sound : forall mods e, is_pure_infallible e = true ->
    forall fuel fr w, exists v, eval mods fuel fr e w = Ok v w.
  Proof. intros; apply pure_infallible_eval; assumption. Qed.

  (* ... and when its truth value is predicted, the prediction is right *)
  Theorem C02_pure_infallible_to_bool_sound : forall mods e b, is_pure_infallible_to_bool e = Some b ->
    forall fuel fr w, exists v, eval mods fuel fr e w = Ok v w /\ truth W ref_truth w v = b.
  Proof. intros; apply to_bool_sound; assumption. Qed.

  (* one lemma per smart constructor: value, failure message, world (store + transcript order) all equal *)
  Theorem C02_seq_sound : forall mods l r fuel fr w,
    eval mods fuel fr (seq_c l r) w = eval mods fuel fr (Seq l r) w.
  Proof. intros; apply seq_sound. Qed.

  Theorem C02_logical_bin_op_sound : forall mods op l r fuel fr w,
    eval mods fuel fr (logical_bin_op op l r) w = eval mods fuel fr (LogicalBinOp op l r) w.
  Proof. intros; apply logical_bin_op_sound. Qed.

  Theorem C02_not_sound : forall mods e fuel fr w,
    eval mods fuel fr (not_c e) w = eval mods fuel fr (Builtin1 Not e) w.
  Proof. intros; apply not_sound. Qed.

  Theorem C02_if_expr_sound : forall mods c t f fuel fr w,
    eval mods fuel fr (if_expr c t f) w = eval mods fuel fr (If c t f) w.
  Proof. intros; apply if_expr_sound. Qed.

  (* folding a binary operator: when the compile-time evaluation of `op a b` gives a result that try_value can
     turn into an expression, that expression evaluates like `a op b` in EVERY state; when the compile-time
     evaluation fails, nothing is folded: the failure and its message stay at run time *)
  Theorem C02_fold_bin_sound : forall mods op a b,
    frozenb a = true -> frozenb b = true ->
    (forall e', try_cres (pure_bin OP op a b) = Some e' ->
       forall fuel fr w, eval mods fuel fr e' w = eval mods fuel fr (Builtin2 op (Value a) (Value b)) w) /\
    (forall m, pure_bin OP op a b = CErr m ->
       forall fuel fr w, eval mods fuel fr (bin_op OP op (Value a) (Value b)) w = Err m w).
  Proof. intros; apply fold_bin_sound; assumption. Qed.

  Theorem C02_bin_op_sound : forall mods op l r fuel fr w,
    eval mods fuel fr (bin_op OP op l r) w = eval mods fuel fr (Builtin2 op l r) w.
  Proof. intros; apply bin_op_sound. Qed.

  Theorem C02_un_op_sound : forall mods op x fuel fr w,
    eval mods fuel fr (un_op OP op x) w = eval mods fuel fr (Builtin1 op x) w.
  Proof. intros; apply un_op_sound. Qed.

  Theorem C02_slice_sound : forall mods a lo hi st fuel fr w,
    eval mods fuel fr (slice_c OP a lo hi st) w = eval mods fuel fr (Slice a lo hi st) w.
  Proof. intros; apply slice_sound. Qed.

  (* len(..) / type(..) folding and speculative execution of functions marked safe *)
  Theorem C02_call_fold_sound : forall mods f args fuel fr w,
    eval mods fuel fr (call_other OP f args) w = eval mods fuel fr (Call f args) w.
  Proof. intros; apply call_other_sound. Qed.

  (* inlining, under exactly the guard of try_inline: frozen def, body `return e` with e safe to inline, as many
     arguments as parameters, every argument a constant or a parameter slot of the caller (definitely assigned) *)
  Theorem C02_inline_sound : forall mods param_count fr,
    params_assigned param_count fr ->
    forall n f args fuel w,
    eval mods fuel fr (call_n OP defs param_count n f args) w = eval mods fuel fr (Call f args) w.
  Proof. intros; apply call_n_sound; assumption. Qed.

  (* the headline: the optimiser (bottom-up traversal re-applying every smart constructor, with inlining and the
     post-freeze substitution of module slots) preserves value, failure + message, world, at the same fuel *)
  Theorem C02_optimize_sound : forall mods param_count frozen_slot,
    (forall s v, frozen_slot s = Some v -> nth_error mods s = Some (Some v)) ->
    forall fr, params_assigned param_count fr ->
    forall e fuel w, eval mods fuel fr (optimize OP defs param_count frozen_slot e) w = eval mods fuel fr e w.
  Proof. intros; apply optimize_sound; assumption. Qed.

  (* module level (no parameter slots, nothing frozen yet): unconditional *)
  Theorem C02_optimize_sound_module_level : forall mods fr e fuel w,
    eval mods fuel fr (optimize OP defs 0 (fun _ => None) e) w = eval mods fuel fr e w.
  Proof.
    intros. apply optimize_sound.
    - intros s v H; discriminate.
    - intros l Hl. inversion Hl.
  Qed.

  (* statements *)
  Theorem C02_expr_stmt_sound : forall e fuel s,
    exec_block fuel (expr_stmt e) s = exec fuel (Expr e) s.
  Proof. intros; apply expr_stmt_sound. Qed.

  Theorem C02_if_stmt_sound : forall c t f fuel s,
    exec_block fuel (if_stmt c t f) s = exec fuel (IfS c t f) s.
  Proof. intros; apply if_stmt_sound. Qed.

  Theorem C02_extend_terminal_sound : forall fuel l r s,
    exec_block fuel (extend l r) s = exec_block fuel (l ++ r)%list s.
  Proof. intros; apply extend_sound. Qed.

  (* whole statement lists (with the code's is_iterable_empty, whose string guard is read from the Rust text):
     transcript, store, control outcome (normal / break / continue / return v / error message) all equal.
     Hypotheses: parameters are assigned on entry, and no statement assigns a module slot that the frozen module
     provides (def bodies cannot assign module variables). *)
  Theorem C02_optimize_stmts_sound : forall param_count frozen_slot ss,
    forallb (stmt_ok frozen_slot) ss = true ->
    forall fuel s,
    params_assigned param_count (locals W s) ->
    (forall i v, frozen_slot i = Some v -> nth_error (modules W s) i = Some (Some v)) ->
    exec_block fuel (optimize_stmts OP defs param_count frozen_slot iterable_empty_excludes_str ss) s = exec_block fuel ss s.
  Proof. intros. apply optimize_stmts_sound_real; [assumption | split; assumption]. Qed.

  (* substitution of a module slot by the value it holds (post-freeze re-optimisation; pre-freeze inlining of
     once-assigned module constants) *)
  Theorem C02_freeze_subst_sound : forall mods sl v, nth_error mods sl = Some (Some v) ->
    forall e fuel fr w, eval mods fuel fr (subst_slot sl v e) w = eval mods fuel fr e w.
  Proof. intros; apply subst_slot_sound; assumption. Qed.

  Theorem C02_ident_module_sound : forall mods assigned_at_most_once cur sl,
    (forall v, cur = Some v -> nth_error mods sl = Some (Some v)) ->
    forall fuel fr w, eval mods fuel fr (ident_module assigned_at_most_once cur sl) w = eval mods fuel fr (Module sl) w.
  Proof. intros; apply ident_module_sound; assumption. Qed.

  (* the opacifying rewrite used by the metamorphic tie: c |-> opaque(c) with `opaque` a native identity *)
  Theorem C02_opacify_preserves : forall mods p,
    (forall v w, prim p [v] w = Ok v w) -> p <> fn_len -> p <> fn_type -> o_spec OP p = None ->
    forall e fuel fr w, eval mods fuel fr (opacify p e) w = eval mods fuel fr e w.
  Proof. intros; apply opacify_sound; assumption. Qed.
End C02.

(* ---- the hypotheses are necessary / satisfiable: concrete instance (world = transcript) -------------------- *)

(* folding an operation that raises: nothing is folded, the error stays at run time; a dead branch is removed *)
Example C02_fold_error_not_folded :
  optimize0 no_defs 0 (Builtin2 FloorDiv (Value (VInt 1)) (Value (VInt 0))) = Builtin2 FloorDiv (Value (VInt 1)) (Value (VInt 0)) /\
  optimize0 no_defs 0 (If (Value (VBool false)) (Builtin2 FloorDiv (Value (VInt 1)) (Value (VInt 0))) (Value (VInt 7))) = Value (VInt 7) /\
  optimize0 no_defs 0 (Builtin2 Add (Value (VInt 1)) (Value (VInt 2))) = Value (VInt 3).
Proof. vm_compute. auto. Qed.

(* short-circuit with a side effect on the left is kept; `x = f(); x`-style sequencing keeps the effect *)
Example C02_effects_kept :
  optimize_stmts0 no_defs 0 [Expr (LogicalBinOp And (emit (Value (VInt 1))) (Value (VBool false)))]
    = [Expr (emit (Value (VInt 1)))] /\
  optimize0 no_defs 0 (Seq (emit (Value (VInt 1))) (Value (VInt 2))) = Seq (emit (Value (VInt 1))) (Value (VInt 2)) /\
  optimize0 no_defs 0 (Seq (List [Value (VInt 1)]) (Value (VInt 2))) = Value (VInt 2).
Proof. vm_compute. auto. Qed.

(* `not not x` is collapsed only for definite booleans *)
Example C02_not_not :
  optimize0 no_defs 0 (Builtin1 Not (Builtin1 Not (Local 0))) = Builtin1 Not (Builtin1 Not (Local 0)) /\
  optimize0 no_defs 0 (Builtin1 Not (Builtin1 Not (Builtin2 Equals (Local 0) (Local 1)))) = Builtin2 Equals (Local 0) (Local 1).
Proof. vm_compute. auto. Qed.

(* the guards of the smart constructors that the model mirrors are present in the Rust text (translator items) *)
Theorem C02_extracted_guards :
  iterable_empty_excludes_str = true /\ seq_drops_only_pure_infallible = true /\ logical_uses_to_bool = true /\
  bin_op_folds_only_on_ok = true /\ un_op_folds_only_on_some = true /\ not_not_needs_definitely_bool = true /\
  index_folds_only_on_ok = true /\ pure_infallible_value_list_not_typeis = true /\ inline_arg_guard = true /\
  inline_rejects_args_kwargs = true /\ spec_exec_needs_marking = true /\ stmt_expr_drops_only_pure_infallible = true /\
  for_stmt_uses_is_iterable_empty = true /\ expr_ident_needs_at_most_once = true /\
  to_bool_dict_only_empty = true /\ to_bool_display_needs_pure_elems = true.
Proof. repeat split; reflexivity. Qed.

(* the restriction of is_pure_infallible_to_bool's dict arm to the EMPTY display is necessary.  With the arm written like the
   list/tuple arm (entries pure and infallible => truth = "has entries"), `{[]: 1}` and `{"a": 1, "a": 2}` get the truth value
   true although building them fails; the conditional / `or` folded from that prediction runs the branch (emit 1) where the
   program as written fails before any effect.  The code's arm predicts nothing for these displays, and the general theorem
   C02_pure_infallible_to_bool_sound (for every dict_check) covers what it does predict. *)
Example C02_dict_to_bool_guard_necessary :
  let unhashable := Dict [List []; Value (VInt 1)] in
  let repeated := Dict [Value (VStr "a"); Value (VInt 1); Value (VStr "a"); Value (VInt 2)] in
  (* the entries are pure and infallible; the code predicts nothing; the variant predicts `true` *)
  all_pure_infallible [List []; Value (VInt 1)] = true /\
  is_pure_infallible_to_bool unhashable = None /\ is_pure_infallible_to_bool repeated = None /\
  is_pure_infallible unhashable = false /\ is_pure_infallible repeated = false /\
  to_bool_dict_by_entries unhashable = Some true /\ to_bool_dict_by_entries repeated = Some true /\
  (* building the dict fails, with no effect *)
  eval1 no_defs [] 5 [] unhashable [] = Err "Value of type `list` is not hashable" [] /\
  eval1 no_defs [] 5 [] repeated [] = Err "Dictionary key repeated" [] /\
  (* so the prediction is unsound ... *)
  ~ (forall e b, to_bool_dict_by_entries e = Some b -> forall w, exists v, eval1 no_defs [] 5 [] e w = Ok v w) /\
  (* ... and the folded conditional / `or` behave differently from the program as written: the branch runs *)
  if_expr_with to_bool_dict_by_entries unhashable (emit (Value (VInt 1))) (emit (Value (VInt 2))) = emit (Value (VInt 1)) /\
  eval1 no_defs [] 5 [] (If unhashable (emit (Value (VInt 1))) (emit (Value (VInt 2)))) [] = Err "Value of type `list` is not hashable" [] /\
  eval1 no_defs [] 5 [] (emit (Value (VInt 1))) [] = Ok VNone [VInt 1] /\
  logical_bin_op_with to_bool_dict_by_entries And repeated (emit (Value (VInt 1))) = emit (Value (VInt 1)) /\
  eval1 no_defs [] 5 [] (LogicalBinOp And repeated (emit (Value (VInt 1)))) [] = Err "Dictionary key repeated" [] /\
  (* with the code's predictor the same constructors leave both programs alone, and a well-formed display keeps working *)
  if_expr unhashable (emit (Value (VInt 1))) (emit (Value (VInt 2))) = If unhashable (emit (Value (VInt 1))) (emit (Value (VInt 2))) /\
  logical_bin_op And repeated (emit (Value (VInt 1))) = LogicalBinOp And repeated (emit (Value (VInt 1))) /\
  if_expr_with is_pure_infallible_to_bool (Dict []) (Value (VInt 1)) (Value (VInt 2)) = Value (VInt 2) /\
  eval1 no_defs [] 5 [] (Dict [Value (VStr "a"); Value (VInt 1); Value (VStr "b"); List []]) []
    = Ok (VDict [VStr "a"; VInt 1; VStr "b"; VList []]) [].
Proof.
  vm_compute. repeat split; try reflexivity.
  intro H. destruct (H (Dict [List []; Value (VInt 1)]) true eq_refl []) as [v Hv]. vm_compute in Hv. discriminate.
Qed.

(* the string guard of is_iterable_empty is necessary: without it a `for` over the constant empty string is removed
   although executing it fails (strings are not iterable) - this was a defect of the code, since repaired *)
Example C02_for_stmt_string_guard_necessary :
  exists ss s, exec0 no_defs 5 (optimize_stmts ops0 no_defs 0 no_frozen false ss) s <> exec0 no_defs 5 ss s.
Proof.
  exists [For (TLocal 0) (Value (VStr "")) [Expr (emit (Value (VInt 1)))]; Expr (emit (Value (VInt 2)))], (st0 [None] []).
  vm_compute. discriminate.
Qed.

(* FINDING: ExprCompiled::slice as written folds `"abcdefgh"[a:b:c]` (a, b, c parameters) to the whole string, whatever
   a, b, c are at run time; with the intended guard (slice_c: every present bound a constant) nothing is folded *)
Example C02_slice_as_written_refuted :
  slice_as_written ops1 (Value (VStr "abcdefgh")) (Some (Local 0)) (Some (Local 1)) (Some (Local 2)) = Value (VStr "abcdefgh") /\
  slice_c ops1 (Value (VStr "abcdefgh")) (Local 0) (Local 1) (Local 2)
    = Slice (Value (VStr "abcdefgh")) (Local 0) (Local 1) (Local 2).
Proof. vm_compute. repeat split; reflexivity. Qed.

(* the guard of try_inline is necessary: substituting an UNASSIGNED local for the parameter changes which effect
   happens before the failure (def f(x): return (emit(1), x)[1] called as f(y) with y unassigned) *)
Definition defs_ex (d : nat) : option (nat * expr) :=
  match d with O => Some (1%nat, Seq (emit (Value (VInt 1))) (Local 0)) | _ => None end.

Example C02_inline_guard_necessary :
  let call := Call (Value (VDef 0)) [Local 3] in
  let unguarded := Inlined (inline_body ops0 Call [Local 3] (Seq (emit (Value (VInt 1))) (Local 0))) in
  eval0 defs_ex [] 5 [None; None; None; None] call [] = Err "Local variable referenced before assignment" [] /\
  eval0 defs_ex [] 5 [None; None; None; None] unguarded [] = Err "Local variable referenced before assignment" [VInt 1] /\
  (* with the guard the call is left alone, and with an assigned parameter slot it is inlined *)
  call_c ops0 defs_ex 0 (Value (VDef 0)) [Local 3] = call /\
  call_c ops0 defs_ex 4 (Value (VDef 0)) [Local 3] = Inlined (Seq (emit (Value (VInt 1))) (Local 3)).
Proof. vm_compute. auto. Qed.

(* a module variable assigned twice must not be treated as a constant: substituting the first value changes the
   result (x = 1; ...; x = 2; return x) *)
Example C02_freeze_twice_assigned_counterexample :
  let ss := [Assign (TModule 0) (Value (VInt 2)); Return (Module 0)] in
  assigns_slot 0 (Assign (TModule 0) (Value (VInt 2))) = true /\
  exec0 no_defs 5 ss (st0 [] [Some (VInt 1)]) <> exec0 no_defs 5 (map (subst_stmt 0 (VInt 1)) ss) (st0 [] [Some (VInt 1)]).
Proof. vm_compute. split; [reflexivity | discriminate]. Qed.

(* the headline is not vacuous: a program with effects, a failure and an inlined call *)
Example C02_optimize_nonvacuous :
  let e := Seq (emit (Builtin2 Add (Value (VInt 1)) (Value (VInt 2))))
               (Builtin2 Add (Call (Value (VDef 0)) [Local 0]) (Builtin2 FloorDiv (Value (VInt 1)) (Value (VInt 0)))) in
  optimize0 defs_ex 1 e <> e /\
  eval0 defs_ex [] 5 [Some (VInt 9)] e [] = Err "Integer division by zero" [VInt 1; VInt 3] /\
  eval0 defs_ex [] 5 [Some (VInt 9)] (optimize0 defs_ex 1 e) [] = Err "Integer division by zero" [VInt 1; VInt 3].
Proof. vm_compute. repeat split; try reflexivity. discriminate. Qed.

(* over MiniStar source (the reference semantics of C01): fetching a value through a one-element tuple is the identity
   on value, failure, store and transcript.  (The tie's "cell" rewrite uses a LIST cell [c][0], which the optimiser
   cannot fold; it differs from this tuple cell only by one unreachable allocation.) *)
Theorem C02_opacify_ministar_cell : forall n en e s,
  SV.Core.Sem.eval (S (S n)) en (ministar_cell e) s = SV.Core.Sem.eval n en e s.
Proof. exact ministar_cell_sound. Qed.
