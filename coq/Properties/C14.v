(* C14 property theorems: the mechanisms through which a hash seed, an address or an allocation history could
   become observable do not leak them.  Statements only (closed by `exact`) + satisfiability examples; pinned in
   coq/pins/C14.txt.  What is NOT proved here (tie only): that the real evaluator has no other such mechanism. *)
From Coq Require Import ZArith List String Ascii Bool Arith Permutation.
From SV Require Import Map.Spec Map.Model Eq.Model Core.Syntax Core.Values Core.Sem Determ.Model Determ.Proofs Determ.Cases.
From SV Require Import Determ.Renaming Determ.RenamingOps Determ.RenamingPrims Determ.RenamingSem.
Import ListNotations.

(* hash(s): the ASCII fast path over the bytes and the UTF-16 fold with wrapping i32 arithmetic both compute the
   specification series s[0]*31^(n-1) + ... + s[n-1] over the UTF-16 transcoding, as an i32; for EVERY string *)
Theorem C14_java_hash_spec : forall s : list Z, hash_builtin s = wrap32 (series (flat_map utf16 s)).
Proof. exact hash_builtin_spec. Qed.

(* ... and it is the function the C09 model calls java_hash *)
Theorem C14_hash_is_java_hash : forall s : list Z, hash_builtin s = java_hash s.
Proof. exact hash_builtin_java_hash. Qed.

(* iteration order of a SmallMap-backed container (dict, set, struct fields, scope and module bindings) after any
   history is the same for every seed of the hasher, every index threshold and every sort cut-off *)
Theorem C14_order_seed_independent : forall (K V S H : Type) (keq : K -> K -> bool) (heq : H -> H -> bool) (klt : K -> K -> bool)
    (hash : S -> K -> H),
  (forall a b, keq a b = true <-> a = b) -> (forall a b, heq a b = true <-> a = b) ->
  forall (seed1 seed2 : S) (thr1 thr2 mi1 mi2 : nat) (ops : list (op K V)),
    container_items keq heq klt hash seed1 thr1 mi1 ops = container_items keq heq klt hash seed2 thr2 mi2 ops.
Proof. exact (@order_seed_independent). Qed.

(* ... namely the association-list semantics of the history (no hash, no address occurs in it) *)
Theorem C14_order_is_history_function : forall (K V S H : Type) (keq : K -> K -> bool) (heq : H -> H -> bool) (klt : K -> K -> bool)
    (hash : S -> K -> H),
  (forall a b, keq a b = true <-> a = b) -> (forall a b, heq a b = true <-> a = b) ->
  forall (seed : S) (thr mi : nat) (ops : list (op K V)),
    container_items keq heq klt hash seed thr mi ops = Spec.run keq klt ops.
Proof. exact (@order_is_history_function). Qed.

(* dir(x) = sort(methods ++ attributes): independent of the order in which the (hash-ordered) method table and the
   attribute list are enumerated *)
Theorem C14_dir_order_independent : forall (A : Type) (leb : A -> A -> bool),
  (forall x y, leb x y = true \/ leb y x = true) ->
  (forall x y z, leb x y = true -> leb y z = true -> leb x z = true) ->
  (forall x y, leb x y = true -> leb y x = true -> x = y) ->
  forall m1 m2 a1 a2 : list A, Permutation m1 m2 -> Permutation a1 a2 -> dir_model leb m1 a1 = dir_model leb m2 a2.
Proof. exact (@dir_order_independent). Qed.

(* the suggestion is a function of the ORDERED candidate list: the first candidate, in list order, at the least
   distance within the cut-off; for every length and distance function *)
Theorem C14_did_you_mean_deterministic : forall (N : Type) (len : N -> nat) (dist : N -> N -> nat) value variants,
  did_you_mean len dist value variants =
  if len value =? 0 then None
  else match list_min (map (dist value) (filter (in_range len dist value) variants)) with
       | None => None
       | Some m => hd_error (filter (fun v => in_range len dist value v && (dist value v =? m)) variants)
       end.
Proof. exact (@did_you_mean_is_spec). Qed.

(* stable under every reordering that keeps, for each distance, which candidate comes first at that distance *)
Theorem C14_did_you_mean_stable : forall (N : Type) (len : N -> nat) (dist : N -> N -> nat) value vs1 vs2,
  Permutation vs1 vs2 ->
  (forall m, first_at len dist value m vs1 = first_at len dist value m vs2) ->
  did_you_mean len dist value vs1 = did_you_mean len dist value vs2.
Proof. exact (@did_you_mean_stable). Qed.

(* but NOT under arbitrary reorderings: the order of equally close candidates is observable, which is why the
   candidate list must not come from a seeded hash table *)
Theorem C14_did_you_mean_order_matters_refuted : exists value vs1 vs2,
  Permutation vs1 vs2 /\ dym value vs1 <> dym value vs2.
Proof.
  exists "aaaax"%string, ["aaaay"; "aaaaz"]%string, ["aaaaz"; "aaaay"]%string. split; [apply perm_swap|].
  vm_compute. discriminate.
Qed.

(* the candidate list (scopes innermost first, module bindings, sorted globals) does not depend on the hasher of the
   SmallMaps it is read from *)
Theorem C14_candidates_seed_independent : forall (K V S H : Type) (keq klt : K -> K -> bool) (heq : H -> H -> bool) (hash : S -> K -> H),
  (forall a b, keq a b = true <-> a = b) -> (forall a b, heq a b = true <-> a = b) ->
  forall (seed1 seed2 : S) (thr1 thr2 mi1 mi2 : nat) (scopes : list (list (op K V))) (modb : list (op K V)) (globals : list K),
    scope_candidates (map (container_keys keq heq klt hash seed1 thr1 mi1) scopes)
                     (container_keys keq heq klt hash seed1 thr1 mi1 modb) globals =
    scope_candidates (map (container_keys keq heq klt hash seed2 thr2 mi2) scopes)
                     (container_keys keq heq klt hash seed2 thr2 mi2 modb) globals.
Proof. exact candidates_seed_independent. Qed.

(* what the embedder observes of a MiniStar value contains no store address: two states that hold the same contents
   at renamed addresses (any renaming; s' may hold anything else, cyclic values included) give equal observations *)
Theorem C14_encode_no_address : forall (fl fd fc : nat -> nat) s s', state_iso fl fd fc s s' ->
  forall n v, obs_of n s' (ren_val fl fd fc v) = obs_of n s v.
Proof. exact obs_of_renaming. Qed.

Theorem C14_truth_no_address : forall (fl fd fc : nat -> nat) s s', state_iso fl fd fc s s' ->
  forall v, truth s' (ren_val fl fd fc v) = truth s v /\ type_name (ren_val fl fd fc v) = type_name v.
Proof. intros fl fd fc s s' I v. split; [exact (truth_renaming fl fd fc s s' I v)|exact (type_name_renaming fl fd fc v)]. Qed.

(* the same for the composable relation that constrains allocated addresses only *)
Theorem C14_encode_no_address_closed : forall (fl fd fc : nat -> nat) s s', state_iso_w fl fd fc s s' -> state_closed s ->
  forall n v, val_closed s v = true -> obs_of n s' (ren_val fl fd fc v) = obs_of n s v.
Proof. exact obs_of_renaming_closed. Qed.

(* the reference semantics is a function of the program: any two runs with enough fuel give the same transcript and
   outcome *)
Theorem C14_exec_deterministic : forall n m prog tr1 o1 tr2 o2,
  run_program n prog = (tr1, o1) -> run_program m prog = (tr2, o2) -> o1 <> NoFuel -> o2 <> NoFuel ->
  tr1 = tr2 /\ o1 = o2.
Proof. exact run_program_deterministic. Qed.

(* FULL: allocation-history independence of the MiniStar interpreter (Determ/Renaming*.v).
   A renaming `r : ren` is four relations between addresses (lists, dicts, cells, closures).  `srel r s1 s2` says: each
   relation is a partial bijection; related list / dict addresses hold element-wise related contents and the same
   iteration-lock count; related cells hold related values (or are both unset); related closures have the same code,
   related defaults and related environments; the transcripts are equal.  Nothing is required of unrelated addresses
   (garbage, other allocation order).  `vrel r` relates values up to the renaming, `mrel r m1 m2` says: from any
   `srel r`-related states the two computations end the same way (Ok / Fail with the same error and line / OutOfFuel),
   with related results and final states related for an EXTENSION r' of r (fresh addresses are paired as they are
   allocated).  Proved by induction on the fuel for eval, call and exec, hence for whole programs. *)
Theorem C14_renaming_invariance : forall n,
  (forall r en1 en2 e, erel r en1 en2 -> mrel r (eval n en1 e) (eval n en2 e)) /\
  (forall r f1 f2 (pos1 pos2 : list value) (named1 named2 : list (string * value)),
     vrel r f1 f2 -> Forall2 (vrel r) pos1 pos2 -> Forall2 (fun p q => fst p = fst q /\ vrel r (snd p) (snd q)) named1 named2 ->
     mrel r (call n f1 pos1 named1) (call n f2 pos2 named2)) /\
  (forall r en1 en2 st, erel r en1 en2 -> mrel r (exec n en1 st) (exec n en2 st)).
Proof. exact rel_all. Qed.

(* the statement for exec with `mrel` spelled out *)
Theorem C14_exec_renaming_invariance : forall n r en1 en2 st s1 s2, erel r en1 en2 -> srel r s1 s2 ->
  match exec n en1 st s1, exec n en2 st s2 with
  | Ok c1 t1, Ok c2 t2 => exists r', sub r r' /\ srel r' t1 t2 /\ ctrl_rel r' c1 c2 /\ out t1 = out t2
  | Fail e1 l1 t1, Fail e2 l2 t2 => e1 = e2 /\ l1 = l2 /\ exists r', sub r r' /\ srel r' t1 t2 /\ out t1 = out t2
  | OutOfFuel, OutOfFuel => True
  | _, _ => False
  end.
Proof.
  intros n r en1 en2 st s1 s2 He Hs. pose proof (exec_rel n r en1 en2 st He s1 s2 Hs) as H. unfold rrel in H.
  destruct (exec n en1 st s1), (exec n en2 st s2); try contradiction; auto.
  - destruct H as (r' & S & Ht & Hc). exists r'. repeat (split; [assumption|]). apply (sr_out _ _ _ Ht).
  - destruct H as (E1 & E2 & r' & S & Ht). split; [exact E1|]. split; [exact E2|]. exists r'. repeat (split; [assumption|]). apply (sr_out _ _ _ Ht).
Qed.

(* whole programs started from ANY two related stores (run_program is the case of the empty store): the same
   transcript and the same outcome; and the final states are related *)
Theorem C14_program_renaming_invariance : forall r s1 s2 fuel prog, srel r s1 s2 -> run_from s1 fuel prog = run_from s2 fuel prog.
Proof. exact run_from_rel. Qed.

Theorem C14_program_renaming_invariance_states : forall fuel prog r, mrel r (prog_m fuel prog) (prog_m fuel prog).
Proof. exact prog_rel. Qed.

Theorem C14_run_program_is_run_from_empty : forall fuel prog, run_program fuel prog = run_from empty_state fuel prog.
Proof. exact run_program_from_empty. Qed.

(* every value-level operation respects the relation, e.g. equality, ordering, truth, observation *)
Theorem C14_value_ops_renaming_invariance : forall r s1 s2, srel r s1 s2 ->
  (forall n a1 a2 b1 b2, vrel r a1 a2 -> vrel r b1 b2 -> veq n s1 a1 b1 = veq n s2 a2 b2) /\
  (forall n a1 a2 b1 b2, vrel r a1 a2 -> vrel r b1 b2 -> vcmp n s1 a1 b1 = vcmp n s2 a2 b2) /\
  (forall v1 v2, vrel r v1 v2 -> truth s1 v1 = truth s2 v2) /\
  (forall n v1 v2, vrel r v1 v2 -> obs_of n s1 v1 = obs_of n s2 v2 /\ hashable n v1 = hashable n v2).
Proof.
  intros r s1 s2 Hs. split; [|split; [|split]].
  - intros. apply (veq_rel r s1 s2); assumption.
  - intros. apply (vcmp_rel r s1 s2); assumption.
  - intros. apply (truth_rel r s1 s2); assumption.
  - intros. split; [apply (obs_of_rel r s1 s2); assumption | apply (hashable_rel r); assumption].
Qed.

(* the earlier fragment for the store primitives with functional renamings, kept *)
Theorem C14_renaming_invariance_partial : forall (fl fd fc : nat -> nat) s s', state_iso_w fl fd fc s s' -> state_closed s ->
  (forall vs, forallb (val_closed s) vs = true ->
     let fl' := upd_fun fl (List.length (lists s)) (List.length (lists s')) in
     match alloc_list vs s, alloc_list (map (ren_val fl fd fc) vs) s' with
     | Ok v s1, Ok v' s1' => v' = ren_val fl' fd fc v /\ state_iso_w fl' fd fc s1 s1' /\ state_closed s1 /\ val_closed s1 v = true
     | _, _ => False
     end) /\
  (forall v, val_closed s v = true ->
     match emit_obs (obs_of depth s v) s, emit_obs (obs_of depth s' (ren_val fl fd fc v)) s' with
     | Ok _ s1, Ok _ s1' => state_iso_w fl fd fc s1 s1' /\ state_closed s1
     | _, _ => False
     end).
Proof.
  intros fl fd fc s s' I C. split.
  - intros vs H. exact (alloc_list_iso fl fd fc s s' vs I C H).
  - intros v H. exact (emit_iso fl fd fc s s' v I C H).
Qed.

(* ---- the statements speak about non-trivial objects ---- *)
Example C14_example_hash : hash_builtin [97; 98; 99]%Z = 96354%Z /\ hash_builtin [233; 128512]%Z = java_hash [233; 128512]%Z /\
  hash_builtin (map Z.of_nat (seq 32 90)) = 1841572909%Z.
Proof. vm_compute. repeat split; reflexivity. Qed.

Example C14_example_dym :
  dym "appendd" ["append"; "clear"; "extend"] = Some "append"%string /\
  dym "ab" ["cd"; "xb"; "ax"] = Some "xb"%string /\ dym "b" ["cd"] = None /\
  scope_candidates [["outer"]; ["inner1"; "inner2"]] ["modvar"] ["abs"; "all"] =
    ["inner1"; "inner2"; "outer"; "modvar"; "abs"; "all"]%string /\
  dir_sorted ["pop"; "append"] ["zeta"; "alpha"] = ["alpha"; "append"; "pop"; "zeta"]%string.
Proof. vm_compute. repeat split; reflexivity. Qed.

(* two stores holding the cyclic list x = [1, x] and the dict {"k": x} at different addresses, with garbage in one *)
Definition ex_s : state :=
  {| lists := [([VInt 1; VList 0], 0)]; dicts := [([(VStr "k", VList 0)], 0)]; cells := []; clos := []; out := [] |}.
Definition ex_s' : state :=
  {| lists := [([VStr "garbage"], 0); ([], 0); ([VInt 1; VList 2], 0)]; dicts := [([], 0); ([(VStr "k", VList 2)], 0)];
     cells := []; clos := []; out := [] |}.
Example C14_example_iso :
  state_iso (fun a => 2 + a) (fun a => 1 + a) (fun c => c) ex_s ex_s' /\
  obs_of 4 ex_s' (VDict 1) = obs_of 4 ex_s (VDict 0) /\
  obs_of 4 ex_s (VDict 0) = ODict [(OStr "k", OList [OInt 1; OList [OInt 1; OList [OOther "..."; OOther "..."]]])].
Proof.
  split; [|split; reflexivity].
  split; intros [|[|a]]; cbn; try reflexivity; destruct a; reflexivity.
Qed.

(* the hypotheses of C14_renaming_invariance are satisfiable on the same kind of stores: the cyclic list x = [1, x],
   the dict {"k": x} and a cell holding the dict, at different addresses, with garbage and an unset cell in one store *)
Definition rn_s1 : state :=
  {| lists := [([VInt 1; VList 0], 0)]; dicts := [([(VStr "k", VList 0)], 0)]; cells := [Some (VDict 0)]; clos := []; out := [] |}.
Definition rn_s2 : state :=
  {| lists := [([VStr "garbage"], 0); ([], 0); ([VInt 1; VList 2], 0)]; dicts := [([], 0); ([(VStr "k", VList 2)], 0)];
     cells := [None; Some (VDict 1)]; clos := []; out := [] |}.
Definition rn_r : ren :=
  {| rl := fun a b => a = 0 /\ b = 2; rd := fun a b => a = 0 /\ b = 1; rcl := fun a b => a = 0 /\ b = 1; rc := fun _ _ => False |}.
Example C14_example_srel : srel rn_r rn_s1 rn_s2 /\ erel rn_r [("x"%string, 0)] [("x"%string, 1)].
Proof.
  split.
  - constructor.
    + intros a b [-> ->]. do 2 eexists. split; [reflexivity|]. split; [reflexivity|]. repeat constructor.
    + intros a b [-> ->]. do 2 eexists. split; [reflexivity|]. split; [reflexivity|]. repeat constructor.
    + intros a b [-> ->]. do 2 eexists. split; [reflexivity|]. split; [reflexivity|]. repeat constructor.
    + intros a b [].
    + reflexivity.
    + intros a b a' b' [-> ->] [-> ->]. split; reflexivity.
    + intros a b a' b' [-> ->] [-> ->]. split; reflexivity.
    + intros a b a' b' [-> ->] [-> ->]. split; reflexivity.
    + intros a b a' b' [].
  - repeat constructor.
Qed.
(* emit(x["k"]) from both stores: the same, non-empty, transcript *)
Example C14_example_run_related :
  match exec 6 [("x"%string, 0)] (SExpr 7 (ECall (EVar "emit") [EIndex (EVar "x") (EStr "k")] [] None None)) rn_s1,
        exec 6 [("x"%string, 1)] (SExpr 7 (ECall (EVar "emit") [EIndex (EVar "x") (EStr "k")] [] None None)) rn_s2 with
  | Ok _ t1, Ok _ t2 => out t1 = out t2 /\ List.length (out t1) = 1
  | _, _ => False
  end.
Proof. vm_compute. split; reflexivity. Qed.
