(* C03  Garbage collection is invisible and never loses or corrupts a live value.
   Model: Heap/Copy.v (two-space copy: reserve / forward / trace / fill), Heap/Graph.v (observation, reachability,
   a mutator with safepoints).  Proofs: Heap/Proofs.v. *)
From Coq Require Import ZArith List Bool Arith String.
From SV Require Import Heap.Copy Heap.Graph Heap.Proofs Extracted.TraceC.
Import ListNotations.
Open Scope nat_scope.

(* 1. termination of the recursive copy: fuel = number of unforwarded cells + 1 suffices, for every visit mask
      (each nested call has forwarded one more cell; cycles included). *)
Theorem C03_copy_terminates : forall visit h0 fuel st r,
  heap_wf h0 -> Inv0 h0 st -> ref_ok h0 r -> unfw (old st) < fuel ->
  exists st' r', copy visit fuel st r = Some (st', r') /\ Inv0 h0 st' /\ unfw (old st') <= unfw (old st).
Proof. exact copy_terminates. Qed.

Theorem C03_gc_terminates : forall visit h roots, heap_wf h -> roots_ok h roots ->
  exists st rs, gc_run visit h roots = Some (st, rs).
Proof. exact gc_terminates. Qed.

(* 2. the invariant: forwarding map injective, onto the new heap, defined on reachable cells only; every forwarded
      cell's image is a blackhole (on the DFS stack) or the cell with F applied pointwise.  It holds initially and every
      copy preserves it, leaves the callers' blackholes alone and leaves no blackhole of its own ([ext]). *)
Theorem C03_copy_inv_init : forall h roots, heap_wf h -> Inv h roots (mkSt h []).
Proof. exact copy_inv_init. Qed.

Theorem C03_copy_inv : forall visit h0 roots fuel st r st' r',
  visit_complete visit -> heap_wf h0 ->
  copy visit fuel st r = Some (st', r') -> Inv h0 roots st -> ref_ok h0 r -> reachable h0 roots r ->
  Inv h0 roots st' /\ ext st st' /\ fwd_rel (old st') r r'.
Proof. exact copy_inv. Qed.

(* 3. a collection does not change what can be observed from the roots, at any depth (content, cycles) *)
Theorem C03_gc_obs_eq : forall visit h roots, heap_wf h -> roots_ok h roots -> visit_complete visit ->
  let '(h', roots') := gc visit h roots in
  forall n, map (obs n h') roots' = map (obs n h) roots.
Proof. exact gc_obs_eq. Qed.

(* 4. sharing is preserved: two reachable references are forwarded to the same place iff they were the same *)
Theorem C03_gc_alias_eq : forall visit h roots r1 r2, heap_wf h -> roots_ok h roots -> visit_complete visit ->
  reachable h roots r1 -> reachable h roots r2 ->
  (fwd visit h roots r1 = fwd visit h roots r2 <-> r1 = r2).
Proof. exact gc_alias_eq. Qed.

Theorem C03_gc_roots_fwd : forall visit h roots, heap_wf h -> roots_ok h roots -> visit_complete visit ->
  snd (gc visit h roots) = map (fwd visit h roots) roots.
Proof. exact gc_roots_fwd. Qed.

(* 5. afterwards the heap is a well-formed heap again: no Blackhole, no Forward, no dangling pointer *)
Theorem C03_gc_wf : forall visit h roots, heap_wf h -> roots_ok h roots -> visit_complete visit ->
  let '(h', roots') := gc visit h roots in heap_wf h' /\ roots_ok h' roots'.
Proof. exact gc_wf. Qed.

Theorem C03_gc_no_hole_reachable : forall visit h roots, heap_wf h -> roots_ok h roots -> visit_complete visit ->
  let '(h', roots') := gc visit h roots in
  forall a, reachable h' roots' (Ptr a) -> exists t fs, nth_error h' a = Some (Cell t fs).
Proof. exact gc_no_hole_reachable. Qed.

(* 6. F is an isomorphism between the subgraph reachable from the roots and the WHOLE new heap (nothing dead is kept) *)
Theorem C03_gc_graph_iso : forall visit h roots, heap_wf h -> roots_ok h roots -> visit_complete visit ->
  let '(h', roots') := gc visit h roots in
  exists F : addr -> option addr,
    (forall a, (exists a', F a = Some a') <-> reachable h roots (Ptr a)) /\
    (forall a1 a2 a', F a1 = Some a' -> F a2 = Some a' -> a1 = a2) /\
    (forall a', a' < List.length h' <-> exists a, F a = Some a') /\
    (forall a a', F a = Some a' -> exists t fs fs', nth_error h a = Some (Cell t fs) /\
        nth_error h' a' = Some (Cell t fs') /\ Forall2 (ref_map F) fs fs') /\
    Forall2 (ref_map F) roots roots'.
Proof. exact gc_graph_iso. Qed.

(* 7. the mutator with safepoints: transcript independent of where collections happen *)
Theorem C03_schedule_independent : forall visit sched1 sched2 h roots p,
  visit_complete visit -> heap_wf h -> roots_ok h roots ->
  mout (run visit sched1 0 (mkM h roots []) p) = mout (run visit sched2 0 (mkM h roots []) p).
Proof. exact schedule_independent. Qed.

(* 8. the hypothesis [visit_complete] for the real Trace impls, at the granularity of named fields: in the table the
      translator extracts from the Rust sources on every run, every value-bearing field declared by a type that takes
      part in tracing is visited (finite; the table is the bound) *)
Definition row_complete (row : string * list string * list string) : bool :=
  let '(_, declared, visited) := row in
  forallb (fun f => existsb (String.eqb f) visited) declared.

Theorem C03_visit_complete_extracted : forallb row_complete trace_table = true.
Proof. vm_compute. reflexivity. Qed.

Theorem C03_trace_table_nonempty : (30 <=? List.length trace_table) = true.
Proof. vm_compute. reflexivity. Qed.

(* 9. root completeness: every table that holds heap values (the 'v-typed fields of Module and Evaluator, and the fields of the
      heap itself that hold values: the string interner behind Heap::alloc_str_intern) is traced by the root-set functions
      Module::trace / Evaluator::trace on EVERY path: the translator lists the `.trace*(tracer)` calls in source order with
      "unconditional" = no return/break/continue/?/panic textually before the call and every enclosing block is a test of that
      very root (`if let Some(x) = extra_value`, `for frame in frame_stack`).  Finite; the extracted lists are the bound. *)
Definition root_visited (calls : list (string * string * bool)) (req : string * string) : bool :=
  let '(f, r) := req in
  existsb (fun c => let '(f', r', u) := c in String.eqb f f' && String.eqb r r' && u) calls.

Theorem C03_roots_complete_extracted : forallb (root_visited root_calls) root_required = true.
Proof. vm_compute. reflexivity. Qed.

Theorem C03_roots_required_nonempty :
  (8 <=? List.length root_required) = true /\
  existsb (fun q => String.eqb (snd q) "heap.str_interner") root_required = true /\
  existsb (fun q => String.eqb (snd q) "extra_value") root_required = true.
Proof. vm_compute. repeat split; reflexivity. Qed.

(* ---- the hypotheses are satisfiable / necessary ------------------------------------------------ *)

(* a heap with a 2-cycle, a shared cell, a self loop and garbage *)
Definition ex_heap : heap :=
  [ Cell 1 [Ptr 1; Ptr 2; Imm 7];      (* 0 -> 1, 2 *)
    Cell 2 [Ptr 0; Ptr 2];             (* 1 -> 0 (cycle), 2 (shared) *)
    Cell 3 [Ptr 2; Frozen 5];          (* 2 -> itself *)
    Cell 4 [Ptr 0] ].                  (* 3: garbage *)

Example C03_ex_gc : gc visit_all ex_heap [Ptr 1; Ptr 2; Ptr 1] =
  ([Cell 2 [Ptr 1; Ptr 2]; Cell 1 [Ptr 0; Ptr 2; Imm 7]; Cell 3 [Ptr 2; Frozen 5]], [Ptr 0; Ptr 2; Ptr 0]).
Proof. vm_compute. reflexivity. Qed.

Example C03_ex_wf : heap_wf ex_heap /\ roots_ok ex_heap [Ptr 1; Ptr 2; Ptr 1].
Proof.
  split.
  - intros a c H. do 4 (destruct a as [|a]; [inversion H; subst; eexists _, _; split; [reflexivity|repeat constructor]|]).
    destruct a; discriminate.
  - repeat constructor.
Qed.

(* the order in heap_copy_impl is load-bearing: filling before forwarding never terminates on a 1-cycle ... *)
Lemma fill_first_diverges_aux : forall fuel nw,
  copy_fill_first visit_all fuel (mkSt [Cell 0 [Ptr 0]] nw) (Ptr 0) = None.
Proof.
  induction fuel as [|f IH]; intros nw; simpl; auto. unfold visit_all at 1. simpl. rewrite IH. reflexivity.
Qed.

Example C03_fill_before_forward_diverges : forall fuel, gc_fill_first visit_all fuel [Cell 0 [Ptr 0]] [Ptr 0] = None.
Proof. intros fuel. unfold gc_fill_first. simpl. rewrite fill_first_diverges_aux. reflexivity. Qed.

(* ... whereas the real order handles it *)
Example C03_forward_first_ok : gc visit_all [Cell 0 [Ptr 0]] [Ptr 0] = ([Cell 0 [Ptr 0]], [Ptr 0]).
Proof. vm_compute. reflexivity. Qed.

(* visit_complete is necessary: a Trace impl that skips field 0 of type 0 loses the value held there *)
Definition visit_drop : tag -> nat -> bool := fun t i => negb (Nat.eqb t 0 && Nat.eqb i 0).

Example C03_incomplete_visit_loses_value :
  let h := [Cell 0 [Ptr 1]; Cell 1 [Imm 42]] in
  let '(h', roots') := gc visit_drop h [Ptr 0] in
  map (obs 2 h) [Ptr 0] = [TNode 0 [TNode 1 [TImm 42]]] /\
  map (obs 2 h') roots' = [TNode 0 [TBad]].
Proof. vm_compute. split; reflexivity. Qed.

(* a mutator run that builds a cycle through a mutation, drops the only direct root of one cell, reads back:
   same transcript when collecting at every safepoint, at none, or at every third one *)
Definition ex_prog : list instr :=
  [IConst 5; IAlloc 1 [0]; IAlloc 2 [1; 1]; ISet 1 0 2; IDrop 1; IEmit 2 4; ISame 2 2; IGet 2 0; IEmit 3 3; ISame 3 2].

Example C03_ex_run :
  let t := mout (run visit_all (fun _ => false) 0 (mkM [] [] []) ex_prog) in
  t = [TNode 2 [TNode 1 [TNode 2 [TNode 1 [TCut]; TNode 1 [TCut]]]; TNode 1 [TNode 2 [TNode 1 [TCut]; TNode 1 [TCut]]]];
       TImm 1;
       TNode 1 [TNode 2 [TNode 1 [TCut]; TNode 1 [TCut]]];
       TImm 0] /\
  mout (run visit_all (fun _ => true) 0 (mkM [] [] []) ex_prog) = t /\
  mout (run visit_all (fun k => Nat.eqb (Nat.modulo k 3) 0) 0 (mkM [] [] []) ex_prog) = t.
Proof. vm_compute. repeat split; reflexivity. Qed.
