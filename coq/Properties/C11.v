(* C11 property theorems.  Nothing but statements closed by `exact`, satisfiability examples; the statements are
   pinned in coq/pins/C11.txt.  All theorems hold for EVERY hash function (collisions allowed), every
   NO_INDEX_THRESHOLD and every MAX_INSERTION; the values read from the source enter only through
   C11_extracted_constants and the examples. *)
From Coq Require Import ZArith List Arith Bool Permutation Lia Sorted.
From SV Require Import Extracted.MapC Map.Spec Map.Model Map.Proofs Map.Cases Map.Wrappers Map.WrapperProofs.
Import ListNotations.
Open Scope nat_scope.

(* the shape of the constants the model relies on: the index is built when len == NO_INDEX_THRESHOLD + 1 *)
Theorem C11_extracted_constants :
  (create_index_at_offset = 1 /\ 0 < no_index_threshold <= no_index_threshold_nightly /\ 0 < max_insertion)%Z.
Proof. cbv [create_index_at_offset no_index_threshold no_index_threshold_nightly max_insertion]. lia. Qed.

Section Statements.
  Context {K V H : Type}.
  Variable keq : K -> K -> bool.
  Variable heq : H -> H -> bool.
  Variable klt : K -> K -> bool.
  Variable hash : K -> H.
  Variable thr : nat.
  Variable max_ins : nat.
  Hypothesis keq_spec : forall a b, keq a b = true <-> a = b.
  Hypothesis heq_spec : forall a b, heq a b = true <-> a = b.
  Notation mrun := (@Model.run K V H keq heq klt hash thr max_ins).
  Notation srun := (@Spec.run K V keq klt).

  (* after ANY history: keys distinct; every stored hash is the key's hash; the index, when present, holds exactly
     the slots (hash k_i, i), each once, i.e. its stored indices are a permutation of 0..n-1; an index is present
     whenever the map is larger than the threshold *)
  Theorem C11_inv_reachable : forall ops : list (op K V),
    let m := mrun ops in
    NoDup (map e_key (entries m)) /\
    Forall (fun e => e_hash e = hash (e_key e)) (entries m) /\
    match index m with
    | Some t => NoDup (map snd t) /\
                (forall h j, In (h, j) t <-> nth_error (map e_hash (entries m)) j = Some h) /\
                Permutation (map snd t) (seq 0 (length (entries m)))
    | None => length (entries m) <= thr
    end.
  Proof. exact (inv_explicit keq heq klt hash thr max_ins keq_spec heq_spec). Qed.

  (* the entries, in order, are those of the association-list specification *)
  Theorem C11_refines : forall ops : list (op K V), to_list (mrun ops) = srun ops.
  Proof. exact (refines keq heq klt hash thr max_ins keq_spec heq_spec). Qed.

  (* every operation returns what the specification returns *)
  Theorem C11_ret_refines : forall (ops : list (op K V)) (o : op K V),
    snd (Model.step keq heq klt hash thr max_ins (mrun ops) o) = snd (Spec.step keq klt (srun ops) o).
  Proof. exact (ret_refines keq heq klt hash thr max_ins keq_spec heq_spec). Qed.

  Theorem C11_get_refines : forall (ops : list (op K V)) k,
    Model.get keq heq hash (mrun ops) k = Spec.get keq (srun ops) k.
  Proof. exact (get_refines keq heq klt hash thr max_ins keq_spec heq_spec). Qed.

  Theorem C11_index_of_refines : forall (ops : list (op K V)) k,
    Model.get_index_of keq heq hash (mrun ops) k = Spec.index_of keq (srun ops) k.
  Proof. exact (index_of_refines keq heq klt hash thr max_ins keq_spec heq_spec). Qed.

  Theorem C11_contains_refines : forall (ops : list (op K V)) k,
    Model.contains_key keq heq hash (mrun ops) k = Spec.contains keq (srun ops) k.
  Proof. exact (contains_refines keq heq klt hash thr max_ins keq_spec heq_spec). Qed.

  Theorem C11_get_index_refines : forall (ops : list (op K V)) i,
    Model.get_index (mrun ops) i = nth_error (srun ops) i.
  Proof. exact (get_index_refines keq heq klt hash thr max_ins keq_spec heq_spec). Qed.

  (* every index stored in the hash table is in bounds: the premise of each get_unchecked *)
  Theorem C11_index_in_bounds : forall (ops : list (op K V)) t,
    index (mrun ops) = Some t -> Forall (fun s => snd s < length (entries (mrun ops))) t.
  Proof. exact (index_in_bounds keq heq klt hash thr max_ins keq_spec heq_spec). Qed.

  (* sort_keys yields a permutation in which no key is smaller than its predecessor *)
  Theorem C11_sorted_map_sorted : (forall a b, klt a b = true -> klt b a = false) ->
    forall l : list (K * V),
    Permutation (Spec.sort_keys klt l) l /\
    forall i a b, nth_error (map fst (Spec.sort_keys klt l)) i = Some a ->
                  nth_error (map fst (Spec.sort_keys klt l)) (S i) = Some b -> klt b a = false.
  Proof. exact (sort_keys_sorted klt). Qed.
End Statements.

(* what is observable does not depend on the hash function, on the threshold or on the sort cut-off (used by C14) *)
Theorem C11_hash_independent : forall (K V H1 H2 : Type) (keq klt : K -> K -> bool)
    (heq1 : H1 -> H1 -> bool) (heq2 : H2 -> H2 -> bool) (hash1 : K -> H1) (hash2 : K -> H2) (thr1 thr2 mi1 mi2 : nat),
  (forall a b, keq a b = true <-> a = b) ->
  (forall a b, heq1 a b = true <-> a = b) -> (forall a b, heq2 a b = true <-> a = b) ->
  forall ops : list (op K V),
    to_list (Model.run keq heq1 klt hash1 thr1 mi1 ops) = to_list (Model.run keq heq2 klt hash2 thr2 mi2 ops).
Proof. exact (@hash_independent). Qed.

(* ---- the hypotheses are satisfiable and the statements speak about non-trivial states ---- *)
Example C11_example_hypotheses :
  (forall a b, Nat.eqb a b = true <-> a = b) /\ (forall a b, Nat.ltb a b = true -> Nat.ltb b a = false).
Proof.
  split; [exact Nat.eqb_eq|]. intros a b Hab. apply Nat.ltb_lt in Hab. apply Nat.ltb_ge. apply Nat.lt_le_incl. exact Hab.
Qed.

(* a history with two hash values only (heavy collisions) that crosses the extracted threshold: 17 inserts build the
   index, a removal shifts it, reverse re-maps it; every slot is found under the right hash *)
Definition ex_ops : list (op nat nat) :=
  map (fun k => OInsert k (10 * k)) (seq 0 17) ++ [ORemove 3; OReverse; OInsert 40 1; OPop].
Definition ex_run (ops : list (op nat nat)) :=
  @Model.run nat nat nat Nat.eqb Nat.eqb Nat.ltb (fun k => k mod 2) Cases.thr Cases.max_ins ops.

Example C11_example_crosses_threshold :
  index (ex_run (map (fun k => OInsert k (10 * k)) (seq 0 16))) = None /\
  index_snapshot Nat.eqb (ex_run ex_ops) = Some (map (fun i => (i, true)) (rev (seq 0 16))) /\
  map fst (to_list (ex_run ex_ops)) = [16; 15; 14; 13; 12; 11; 10; 9; 8; 7; 6; 5; 4; 2; 1; 0] /\
  Model.get_index_of Nat.eqb Nat.eqb (fun k => k mod 2) (ex_run ex_ops) 2 = Some 13.
Proof. vm_compute. repeat split; reflexivity. Qed.

(* shrinking keeps the index; only maybe_drop_index releases it *)
Example C11_example_index_kept_when_shrinking :
  let ops := ex_ops ++ [ORetain (fun k v => if k <? 5 then Some (v + 1) else None)] in
  to_list (ex_run ops) = [(4, 41); (2, 21); (1, 11); (0, 1)] /\
  index_snapshot Nat.eqb (ex_run ops) = Some [(0, true); (1, true); (2, true); (3, true)] /\
  index (ex_run (ops ++ [OMaybeDropIndex])) = None /\
  to_list (ex_run (ops ++ [OMaybeDropIndex; OSortKeys])) = [(0, 1); (1, 11); (2, 21); (4, 41)].
Proof. vm_compute. repeat split; reflexivity. Qed.

(* ====================================================================================================
   The wrappers (Map/Wrappers.v mirrors small_set.rs, ordered_map.rs, ordered_set.rs, sorted_map.rs, sorted_set.rs,
   unordered_map.rs, unordered_set.rs, vec2.rs, sorting/insertion.rs; proofs in Map/WrapperProofs.v).
   ==================================================================================================== *)
Section SetStatements.
  Context {K H : Type}.
  Variable keq : K -> K -> bool.
  Variable heq : H -> H -> bool.
  Variable klt : K -> K -> bool.
  Variable hash : K -> H.
  Variable thr : nat.
  Variable max_ins : nat.
  Hypothesis keq_spec : forall a b, keq a b = true <-> a = b.
  Hypothesis heq_spec : forall a b, heq a b = true <-> a = b.
  Notation setrun := (@set_run K H keq heq klt hash thr max_ins).
  Notation osetrun := (@oset_run K H keq heq klt hash thr max_ins).

  (* SmallSet: after ANY history of its methods the elements, in order, are those of the list-of-keys specification *)
  Theorem C11_small_set_refines : forall ops : list (set_op K), set_to_list (setrun ops) = s_run keq klt ops.
  Proof. exact (set_refines keq heq klt hash thr max_ins keq_spec heq_spec). Qed.

  (* ... and the underlying SmallMap<T, ()> satisfies the SmallMap invariant *)
  Theorem C11_small_set_inv_reachable : forall ops : list (set_op K), Inv hash thr (setrun ops).
  Proof. exact (set_inv_reachable keq heq klt hash thr max_ins keq_spec heq_spec). Qed.

  (* every method returns what the specification returns (insert: was it new; take/pop/shift_remove_index: the element;
     get_or_insert: the stored element; try_insert: the occupying element) *)
  Theorem C11_small_set_ret_refines : forall (ops : list (set_op K)) (o : set_op K),
    snd (set_step keq heq klt hash thr max_ins (setrun ops) o) = snd (s_step keq klt (s_run keq klt ops) o).
  Proof. exact (set_ret_refines keq heq klt hash thr max_ins keq_spec heq_spec). Qed.

  (* the layer lemma: a history of SmallSet methods IS the history of the SmallMap methods they delegate to *)
  Theorem C11_small_set_is_map_layer : forall ops : list (set_op K),
    setrun ops = Model.run keq heq klt hash thr max_ins (map (@set_op_to_map K) ops).
  Proof. exact (set_run_is_map_run keq heq klt hash thr max_ins keq_spec heq_spec). Qed.

  Theorem C11_small_set_lookups_refine : forall (ops : list (set_op K)) k i,
    let s := setrun ops in let l := s_run keq klt ops in
    set_contains keq heq hash s k = s_mem keq l k /\
    set_get keq heq hash s k = s_find keq l k /\
    set_get_index_of keq heq hash s k = s_index_of keq l k /\
    set_get_index s i = nth_error l i /\
    set_first s = hd_error l /\ set_last s = list_last l /\ set_len s = length l.
  Proof. exact (set_lookups_refine keq heq klt hash thr max_ins keq_spec heq_spec). Qed.

  (* union: the elements of the first set followed by those of the second not in the first *)
  Theorem C11_small_set_union_refines : forall ops1 ops2 : list (set_op K),
    set_union keq heq hash (setrun ops1) (setrun ops2) = s_union keq (s_run keq klt ops1) (s_run keq klt ops2).
  Proof. exact (set_union_refines keq heq klt hash thr max_ins keq_spec heq_spec). Qed.

  (* OrderedSet forwards every method to SmallSet *)
  Theorem C11_ordered_set_refines : forall ops : list (set_op K), set_to_list (osetrun ops) = s_run keq klt ops.
  Proof. exact (set_refines keq heq klt hash thr max_ins keq_spec heq_spec). Qed.

  (* SortedSet::from_iter: invariant, the sorted de-duplicated input, keys strictly increasing *)
  Theorem C11_sorted_set_from_iter :
    (forall a b, klt a b = true -> klt b a = false) -> (forall a b, klt a b = false -> klt b a = false -> a = b) ->
    forall hint (ks : list K),
    let s := sorted_set_from_iter keq heq klt hash thr max_ins hint ks in
    Inv hash thr s /\ set_to_list s = s_sort klt (s_extend keq [] ks) /\ strictly_sorted klt (set_to_list s).
  Proof. exact (sorted_set_from_iter_ok keq heq klt hash thr max_ins keq_spec heq_spec). Qed.

  Theorem C11_sorted_set_lookups :
    (forall a b, klt a b = true -> klt b a = false) -> (forall a b, klt a b = false -> klt b a = false -> a = b) ->
    forall hint (ks : list K) k i,
    let s := sorted_set_from_iter keq heq klt hash thr max_ins hint ks in let l := s_sort klt (s_extend keq [] ks) in
    set_contains keq heq hash s k = s_mem keq l k /\ set_get keq heq hash s k = s_find keq l k /\
    set_get_index s i = nth_error l i.
  Proof. exact (sorted_set_lookups keq heq klt hash thr max_ins keq_spec heq_spec). Qed.
End SetStatements.

Section MapWrapperStatements.
  Context {K V H : Type}.
  Variable keq : K -> K -> bool.
  Variable veq : V -> V -> bool.
  Variable heq : H -> H -> bool.
  Variable klt : K -> K -> bool.
  Variable kcmp : K -> K -> comparison.
  Variable vcmp : V -> V -> comparison.
  Variable hash : K -> H.
  Variable thr : nat.
  Variable max_ins : nat.
  Hypothesis keq_spec : forall a b, keq a b = true <-> a = b.
  Hypothesis veq_spec : forall a b, veq a b = true <-> a = b.
  Hypothesis heq_spec : forall a b, heq a b = true <-> a = b.
  Notation omrun := (@omap_run K V H keq heq klt hash thr max_ins).
  Notation omspec := (@om_run K V keq klt).
  Notation smrun := (@sorted_run K V H keq heq klt hash thr max_ins).

  (* OrderedMap: entries in order = the association-list specification, for every history of its methods
     (insert, remove, clear, entry or_insert / and_modify, sort_keys, extend, get_mut, iter_mut/values_mut, ...) *)
  Theorem C11_ordered_map_refines : forall ops : list (omap_op K V), to_list (omrun ops) = omspec ops.
  Proof. exact (omap_refines keq heq klt hash thr max_ins keq_spec heq_spec). Qed.

  Theorem C11_ordered_map_inv_reachable : forall ops : list (omap_op K V), Inv hash thr (omrun ops).
  Proof. exact (omap_inv_reachable keq heq klt hash thr max_ins keq_spec heq_spec). Qed.

  Theorem C11_ordered_map_ret_refines : forall (ops : list (omap_op K V)) o,
    snd (omap_step keq heq klt hash thr max_ins (omrun ops) o) = snd (om_step keq klt (omspec ops) o).
  Proof. exact (omap_ret_refines keq heq klt hash thr max_ins keq_spec heq_spec). Qed.

  Theorem C11_ordered_map_get_refines : forall (ops : list (omap_op K V)) k,
    Model.get keq heq hash (omrun ops) k = Spec.get keq (omspec ops) k.
  Proof. exact (omap_get_refines keq heq klt hash thr max_ins keq_spec heq_spec). Qed.

  Theorem C11_ordered_map_index_of_refines : forall (ops : list (omap_op K V)) k,
    Model.get_index_of keq heq hash (omrun ops) k = Spec.index_of keq (omspec ops) k.
  Proof. exact (omap_index_of_refines keq heq klt hash thr max_ins keq_spec heq_spec). Qed.

  Theorem C11_ordered_map_get_index_refines : forall (ops : list (omap_op K V)) i,
    Model.get_index (omrun ops) i = nth_error (omspec ops) i.
  Proof. exact (omap_get_index_refines keq heq klt hash thr max_ins keq_spec heq_spec). Qed.

  (* Eq of OrderedMap / OrderedSet / SortedMap / SortedSet (eq_ordered: hashes then entries) is equality of the entry
     SEQUENCES, for any two maps satisfying the invariant *)
  Theorem C11_ordered_eq_is_list_eq : forall m1 m2 : @smap K V H, Inv hash thr m1 -> Inv hash thr m2 ->
    (omap_eq keq veq heq m1 m2 = true <-> to_list m1 = to_list m2).
  Proof. exact (eq_ordered_is_list_eq keq veq heq hash thr keq_spec veq_spec heq_spec). Qed.

  Theorem C11_ordered_eq_is_list_eq_reachable : forall ops1 ops2 : list (omap_op K V),
    omap_eq keq veq heq (omrun ops1) (omrun ops2) = true <-> omspec ops1 = omspec ops2.
  Proof. exact (omap_eq_is_list_eq keq veq heq klt hash thr max_ins keq_spec veq_spec heq_spec). Qed.

  (* Ord (lexicographic over the entry sequence): Equal exactly on equal sequences *)
  Theorem C11_ordered_cmp_eq_is_list_eq :
    (forall a b, kcmp a b = Eq <-> a = b) -> (forall a b, vcmp a b = Eq <-> a = b) ->
    forall m1 m2 : @smap K V H, omap_cmp kcmp vcmp m1 m2 = Eq <-> to_list m1 = to_list m2.
  Proof. exact (@omap_cmp_eq K V H kcmp vcmp). Qed.

  (* Hash (hash_ordered feeds the stored hashes and the values in order): equal sequences hash equally *)
  Theorem C11_ordered_hash_congr : forall (S : Type) (mix_h : S -> H -> S) (mix_v : S -> V -> S) (m1 m2 : @smap K V H) st,
    Inv hash thr m1 -> Inv hash thr m2 -> to_list m1 = to_list m2 ->
    hash_ordered mix_h mix_v m1 st = hash_ordered mix_h mix_v m2 st.
  Proof. exact (@hash_ordered_congr K V H hash thr). Qed.

  (* Eq of SmallMap / SmallSet is order-INsensitive: same entries as a bag *)
  Theorem C11_small_map_eq_is_perm : forall m1 m2 : @smap K V H, Inv hash thr m1 -> Inv hash thr m2 ->
    (smap_eq keq veq heq m1 m2 = true <-> Permutation (to_list m1) (to_list m2)).
  Proof. exact (smap_eq_is_perm keq veq heq hash thr keq_spec veq_spec heq_spec). Qed.

  Section Sorted.
    Hypothesis klt_asym : forall a b, klt a b = true -> klt b a = false.
    Hypothesis klt_total : forall a b, klt a b = false -> klt b a = false -> a = b.

    (* SortedMap: built by FromIterator (insert all, sort_keys), then any sequence of value writes (get_mut, iter_mut,
       values_mut): the SmallMap invariant holds and the keys are strictly increasing *)
    Theorem C11_sorted_map_inv_reachable : forall hint (kvs : list (K * V)) (ops : list (sorted_op K V)),
      Inv hash thr (smrun hint kvs ops) /\ strictly_sorted klt (map fst (to_list (smrun hint kvs ops))).
    Proof. exact (sorted_map_inv_reachable keq heq klt hash thr max_ins keq_spec heq_spec klt_asym klt_total). Qed.

    Theorem C11_sorted_map_refines : forall hint (kvs : list (K * V)) (ops : list (sorted_op K V)),
      to_list (smrun hint kvs ops) = sorted_spec_run keq klt kvs ops.
    Proof. exact (sorted_map_refines keq heq klt hash thr max_ins keq_spec heq_spec klt_asym klt_total). Qed.

    Theorem C11_sorted_map_get_refines : forall hint (kvs : list (K * V)) (ops : list (sorted_op K V)) k,
      Model.get keq heq hash (smrun hint kvs ops) k = Spec.get keq (sorted_spec_run keq klt kvs ops) k.
    Proof. exact (sorted_map_get_refines keq heq klt hash thr max_ins keq_spec heq_spec klt_asym klt_total). Qed.

    (* the constructor yields a permutation of the de-duplicated input *)
    Theorem C11_sorted_map_from_iter_perm : forall hint (kvs : list (K * V)),
      Permutation (to_list (sorted_from_iter keq heq klt hash thr max_ins hint kvs)) (Spec.extend keq [] kvs).
    Proof. exact (sorted_map_from_iter_perm keq heq klt hash thr max_ins keq_spec heq_spec klt_asym klt_total). Qed.
  End Sorted.

  (* ---- UnorderedMap: hashbrown::HashTable<(K, V)> as a bag of slots *)
  Notation umrun := (@u_run K V H keq heq hash).
  Notation umspec := (@us_run K V keq).

  (* after ANY history: every slot sits under its key's hash, keys are distinct, and the content is, as a bag, that of
     the association-list specification *)
  Theorem C11_unordered_map_refines : forall ops : list (umap_op K V),
    UInv hash (umrun ops) /\ Permutation (u_to_list (umrun ops)) (umspec ops).
  Proof. exact (u_refines keq heq klt hash keq_spec heq_spec). Qed.

  Theorem C11_unordered_map_ret_refines : forall (ops : list (umap_op K V)) o,
    snd (u_step keq heq hash (umrun ops) o) = snd (us_step keq (umspec ops) o).
  Proof. exact (u_ret_refines keq heq klt hash keq_spec heq_spec). Qed.

  Theorem C11_unordered_map_get_refines : forall (ops : list (umap_op K V)) k,
    u_get keq heq hash (umrun ops) k = Spec.get keq (umspec ops) k /\
    u_contains_key keq heq hash (umrun ops) k = Spec.contains keq (umspec ops) k /\
    u_len (umrun ops) = length (umspec ops).
  Proof. exact (u_get_refines keq heq klt hash keq_spec heq_spec). Qed.

  (* lookups do not depend on the bucket order: two tables with the same bag of entries answer alike *)
  Theorem C11_unordered_get_order_independent : forall (t1 t2 : @utable K V H) k, UInv hash t1 -> UInv hash t2 ->
    Permutation (u_to_list t1) (u_to_list t2) -> u_get keq heq hash t1 k = u_get keq heq hash t2 k.
  Proof. exact (u_get_perm keq heq hash keq_spec heq_spec). Qed.

  (* Eq of UnorderedMap is equality of the bags of entries *)
  Theorem C11_unordered_eq_is_perm : forall t1 t2 : @utable K V H, UInv hash t1 -> UInv hash t2 ->
    (u_eq keq veq heq hash t1 t2 = true <-> Permutation (u_to_list t1) (u_to_list t2)).
  Proof. exact (u_eq_is_perm keq veq heq hash keq_spec veq_spec heq_spec). Qed.

  (* Hash of UnorderedMap (length and a commutative sum of entry hashes) does not depend on the bucket order *)
  Theorem C11_unordered_hash_order_independent :
    forall (S : Type) (eh : K -> V -> S) (add : S -> S -> S) (zero : S) (t1 t2 : @utable K V H),
    (forall s a b, add (add s a) b = add (add s b) a) ->
    Permutation (u_to_list t1) (u_to_list t2) -> u_hash eh add zero t1 = u_hash eh add zero t2.
  Proof. exact (@u_hash_perm K V H). Qed.

  (* entries_sorted: a permutation of the entries with strictly increasing keys, the same whatever the bucket order *)
  Theorem C11_unordered_entries_sorted :
    (forall a b, klt a b = true -> klt b a = false) -> (forall a b, klt a b = false -> klt b a = false -> a = b) ->
    (forall a b c, klt a b = true -> klt b c = true -> klt a c = true) ->
    (forall t : @utable K V H, UInv hash t ->
       Permutation (u_entries_sorted klt t) (u_to_list t) /\ strictly_sorted klt (map fst (u_entries_sorted klt t))) /\
    (forall t1 t2 : @utable K V H, UInv hash t1 -> UInv hash t2 -> Permutation (u_to_list t1) (u_to_list t2) ->
       u_entries_sorted klt t1 = u_entries_sorted klt t2).
  Proof.
    exact (fun Ha Ht Hr => conj (fun t => u_entries_sorted_ok klt hash Ha Ht t)
                                (u_entries_sorted_canonical klt hash Ha Ht Hr)).
  Qed.
End MapWrapperStatements.

Section UnorderedSetStatements.
  Context {K H : Type}.
  Variable keq : K -> K -> bool.
  Variable heq : H -> H -> bool.
  Variable klt : K -> K -> bool.
  Variable hash : K -> H.
  Hypothesis keq_spec : forall a b, keq a b = true <-> a = b.
  Hypothesis heq_spec : forall a b, heq a b = true <-> a = b.

  (* UnorderedSet: insert / raw-entry remove / contains / clear keep the invariant and act as the set specification *)
  Theorem C11_unordered_set_ops : forall (t : @uset K H) k, @UInv K unit H hash t ->
    (@UInv K unit H hash (fst (uset_insert keq heq hash t k)) /\
     uset_to_list (fst (uset_insert keq heq hash t k)) = s_insert keq (uset_to_list t) k /\
     snd (uset_insert keq heq hash t k) = negb (s_mem keq (uset_to_list t) k)) /\
    (@UInv K unit H hash (fst (uset_remove keq heq hash t k)) /\
     uset_to_list (fst (uset_remove keq heq hash t k)) = s_remove keq (uset_to_list t) k /\
     snd (uset_remove keq heq hash t k) = s_mem keq (uset_to_list t) k) /\
    uset_contains keq heq hash t k = s_mem keq (uset_to_list t) k /\
    @UInv K unit H hash (uset_clear t).
  Proof. exact (uset_ops_ok keq heq hash keq_spec heq_spec). Qed.

  Theorem C11_unordered_set_from_iter : forall ks : list K,
    @UInv K unit H hash (uset_from_iter keq heq hash ks) /\
    uset_to_list (uset_from_iter keq heq hash ks) = s_extend keq [] ks.
  Proof. exact (uset_from_iter_ok keq heq hash keq_spec heq_spec). Qed.

  Theorem C11_unordered_set_eq_is_perm : forall t1 t2 : @uset K H, @UInv K unit H hash t1 -> @UInv K unit H hash t2 ->
    (uset_eq keq heq hash t1 t2 = true <-> Permutation (uset_to_list t1) (uset_to_list t2)).
  Proof. exact (uset_eq_is_perm keq heq hash keq_spec heq_spec). Qed.

  Theorem C11_unordered_set_entries_sorted :
    (forall a b, klt a b = true -> klt b a = false) -> (forall a b, klt a b = false -> klt b a = false -> a = b) ->
    forall t : @uset K H, @UInv K unit H hash t ->
    Permutation (uset_entries_sorted klt t) (uset_to_list t) /\ strictly_sorted klt (uset_entries_sorted klt t).
  Proof. exact (uset_entries_sorted_ok klt hash). Qed.
End UnorderedSetStatements.

Section Vec2Statements.
  Context {A B : Type}.
  Variable min_cap : nat.       (* MIN_NON_ZERO_CAP *)
  Variable max_ins : nat.       (* MAX_INSERTION *)
  Variable less : A * B -> A * B -> bool.
  Notation vrun := (@v2_run A B min_cap max_ins less).
  Notation vspec := (@vs_run A B less).

  (* Vec2: after ANY history (push, pop, remove, clear, truncate, retain, sort_by, sort_insertion_by, reserve,
     shrink_to_fit, extend, with_capacity, clone) the two halves have the same length, fit the capacity, and zipped
     they are the list of the specification *)
  Theorem C11_vec2_refines : forall ops : list (vec2_op A B), v2_to_list (vrun ops) = vspec ops.
  Proof. exact (v2_refines min_cap max_ins less). Qed.

  Theorem C11_vec2_inv_reachable : forall ops : list (vec2_op A B),
    length (aaa (vrun ops)) = length (bbb (vrun ops)) /\ length (aaa (vrun ops)) <= cap (vrun ops).
  Proof. exact (v2_inv_reachable min_cap max_ins less). Qed.

  Theorem C11_vec2_ret_refines : forall (ops : list (vec2_op A B)) o,
    snd (v2_step min_cap max_ins less (vrun ops) o) = snd (vs_step less (vspec ops) o).
  Proof. exact (v2_ret_refines min_cap max_ins less). Qed.

  Theorem C11_vec2_get_refines : forall (ops : list (vec2_op A B)) i,
    v2_get (vrun ops) i = nth_error (vspec ops) i /\ v2_first (vrun ops) = hd_error (vspec ops) /\
    v2_last (vrun ops) = list_last (vspec ops) /\ v2_len (vrun ops) = length (vspec ops).
  Proof. exact (v2_get_refines min_cap max_ins less). Qed.

  (* sorting/insertion.rs: the index-based insertion sort (find_insertion_point + swap_shift) is the stable insertion
     sort of the specification *)
  Theorem C11_insertion_sort_is_isort : forall l : list (A * B),
    insertion_sort (lless less) (@slice_swap_shift (A * B)) l (length l) = isort less l.
  Proof. exact (insertion_sort_spec less). Qed.

  (* the hybrid sort_by (insertion sort up to MAX_INSERTION entries, else collect + stable std sort + push back):
     a permutation, sorted, and stable -- whatever the cut-off *)
  Theorem C11_vec2_sort_stable_perm : forall v : vec2 A B,
    length (aaa v) = length (bbb v) /\ length (aaa v) <= cap v ->
    (forall a b, less a b = true -> less b a = false) ->
    (forall x y z, less x y = true -> eqv less z x = true -> eqv less z y = true -> False) ->
    let r := v2_to_list (v2_sort_by min_cap max_ins less v) in
    Permutation r (v2_to_list v) /\
    (forall i a b, nth_error r i = Some a -> nth_error r (S i) = Some b -> less b a = false) /\
    (forall z, filter (eqv less z) r = filter (eqv less z) (v2_to_list v)).
  Proof. exact (v2_sort_stable_perm min_cap max_ins less). Qed.
End Vec2Statements.

(* ---- the wrapper hypotheses are satisfiable, the statements speak about non-trivial states ---- *)
Example C11_example_wrapper_hypotheses :
  (forall a b, Nat.ltb a b = false -> Nat.ltb b a = false -> a = b) /\
  (forall a b c, Nat.ltb a b = true -> Nat.ltb b c = true -> Nat.ltb a c = true) /\
  (forall a b, Nat.compare a b = Eq <-> a = b) /\
  (let less := fun x y : nat * nat => Nat.ltb (fst x) (fst y) in
   forall x y z, less x y = true -> eqv less z x = true -> eqv less z y = true -> False).
Proof.
  split; [|split; [|split]].
  - intros a b H1 H2. apply Nat.ltb_ge in H1, H2. lia.
  - intros a b c H1 H2. apply Nat.ltb_lt in H1, H2. apply Nat.ltb_lt. lia.
  - intros a b. apply Nat.compare_eq_iff.
  - intros less x y z Hxy Hzx Hzy. unfold eqv, less in *. apply Nat.ltb_lt in Hxy.
    apply andb_prop in Hzx as [H1 H2]. apply andb_prop in Hzy as [H3 H4].
    apply negb_true_iff in H1, H2, H3, H4. apply Nat.ltb_ge in H1, H2, H3, H4. lia.
Qed.

(* a SmallSet history crossing the extracted threshold, then OrderedSet::try_insert, sort, take *)
Example C11_example_small_set :
  let run := @set_run nat nat Nat.eqb Nat.eqb Nat.ltb (fun k => k mod 2) Cases.thr Cases.max_ins in
  let ops := map SInsert (rev (seq 0 18)) ++ [SRemove 3; STryInsert 5; STryInsert 40; SSort; STake 0] in
  set_to_list (run ops) = [1; 2; 4; 5; 6; 7; 8; 9; 10; 11; 12; 13; 14; 15; 16; 17; 40] /\
  index (run ops) <> None /\
  snd (set_step Nat.eqb Nat.eqb Nat.ltb (fun k => k mod 2) Cases.thr Cases.max_ins (run ops) (STryInsert 7)) = SROptK (Some 7).
Proof. vm_compute. repeat split; discriminate. Qed.

(* OrderedMap equality is order-sensitive, SmallMap equality is not; SortedMap::from_iter sorts and de-duplicates *)
Example C11_example_ordered_vs_unordered_eq :
  let run := @omap_run nat nat nat Nat.eqb Nat.eqb Nat.ltb (fun k => k mod 3) Cases.thr Cases.max_ins in
  let m1 := run [MInsert 1 10; MInsert 2 20; MInsert 3 30] in
  let m2 := run [MInsert 3 30; MInsert 1 10; MInsert 2 20] in
  omap_eq Nat.eqb Nat.eqb Nat.eqb m1 m2 = false /\ smap_eq Nat.eqb Nat.eqb Nat.eqb m1 m2 = true /\
  omap_cmp Nat.compare Nat.compare m1 m2 = Lt /\
  omap_eq Nat.eqb Nat.eqb Nat.eqb (run [MInsert 1 10; MInsert 2 20; MInsert 3 30; MSortKeys]) (run [MInsert 3 30; MInsert 1 10; MInsert 2 20; MSortKeys]) = true /\
  to_list (@sorted_run nat nat nat Nat.eqb Nat.eqb Nat.ltb (fun k => k mod 3) Cases.thr Cases.max_ins 0
             [(5, 1); (2, 2); (9, 3); (2, 4)] [TGetMut 9 S; TValuesMut (fun k v => k + v)]) = [(2, 6); (5, 6); (9, 13)].
Proof. vm_compute. repeat split. Qed.

(* UnorderedMap: two insertion orders give different slot orders, equal maps, equal sorted entries *)
Example C11_example_unordered :
  let run := @u_run nat nat nat Nat.eqb Nat.eqb (fun k => k mod 2) in
  let t1 := run [UInsert 4 1; UInsert 2 2; UInsert 7 3; URemove 2; UInsert 2 5; UEntryModify 7 S 0] in
  let t2 := run [UInsert 2 5; UInsert 7 4; UInsert 4 1] in
  u_to_list t1 <> u_to_list t2 /\ u_eq Nat.eqb Nat.eqb Nat.eqb (fun k => k mod 2) t1 t2 = true /\
  u_entries_sorted Nat.ltb t1 = [(2, 5); (4, 1); (7, 4)] /\ u_entries_sorted Nat.ltb t2 = [(2, 5); (4, 1); (7, 4)].
Proof. vm_compute. repeat split. discriminate. Qed.

(* Vec2::sort_by on both sides of the extracted MAX_INSERTION cut-off: stable (second components keep their order) *)
Example C11_example_vec2_sort :
  let less := fun x y : nat * nat => Nat.ltb (fst x) (fst y) in
  let push_all n := map (fun i => VPush ((7 * i) mod 5) i) (seq 0 n) in
  let run := @v2_run nat nat 4 Cases.max_ins less in
  Cases.max_ins = 20 /\
  v2_to_list (run (push_all 8 ++ [VSortBy])) = [(0, 0); (0, 5); (1, 3); (2, 1); (2, 6); (3, 4); (4, 2); (4, 7)] /\
  v2_to_list (run (push_all 23 ++ [VSortBy; VTruncate 6; VPop])) = [(0, 0); (0, 5); (0, 10); (0, 15); (0, 20)] /\
  cap (run (push_all 23)) = 32 /\ cap (run (push_all 23 ++ [VSortBy])) = 32 /\ cap (run (push_all 23 ++ [VShrinkToFit])) = 23.
Proof. vm_compute. repeat split. Qed.
