(* C11 property theorems.  Nothing but statements closed by `exact`, satisfiability examples; the statements are
   pinned in coq/pins/C11.txt.  All theorems hold for EVERY hash function (collisions allowed), every
   NO_INDEX_THRESHOLD and every MAX_INSERTION; the values read from the source enter only through
   C11_extracted_constants and the examples. *)
From Coq Require Import ZArith List Arith Bool Permutation Lia.
From SV Require Import Extracted.MapC Map.Spec Map.Model Map.Proofs Map.Cases.
Import ListNotations.
Open Scope nat_scope.

(* the shape of the constants the model relies on: the index is built when len == NO_INDEX_THRESHOLD + 1 *)
Theorem C11_extracted_constants :
  (create_index_at_offset = 1 /\ 0 < no_index_threshold <= no_index_threshold_nightly /\ 0 < max_insertion)%Z.
Proof. cbv [create_index_at_offset no_index_threshold no_index_threshold_nightly max_insertion]. lia. Qed.

Section Statements.
  Context {K V H : Type}.
  Variable keq : K -> K -> bool.
  Variable heq : H -> H -> bool.
  Variable klt : K -> K -> bool.
  Variable hash : K -> H.
  Variable thr : nat.
  Variable max_ins : nat.
  Hypothesis keq_spec : forall a b, keq a b = true <-> a = b.
  Hypothesis heq_spec : forall a b, heq a b = true <-> a = b.
  Notation mrun := (@Model.run K V H keq heq klt hash thr max_ins).
  Notation srun := (@Spec.run K V keq klt).

  (* after ANY history: keys distinct; every stored hash is the key's hash; the index, when present, holds exactly
     the slots (hash k_i, i), each once, i.e. its stored indices are a permutation of 0..n-1; an index is present
     whenever the map is larger than the threshold *)
  Theorem C11_inv_reachable : forall ops : list (op K V),
    let m := mrun ops in
    NoDup (map e_key (entries m)) /\
    Forall (fun e => e_hash e = hash (e_key e)) (entries m) /\
    match index m with
    | Some t => NoDup (map snd t) /\
                (forall h j, In (h, j) t <-> nth_error (map e_hash (entries m)) j = Some h) /\
                Permutation (map snd t) (seq 0 (length (entries m)))
    | None => length (entries m) <= thr
    end.
  Proof. exact (inv_explicit keq heq klt hash thr max_ins keq_spec heq_spec). Qed.

  (* the entries, in order, are those of the association-list specification *)
  Theorem C11_refines : forall ops : list (op K V), to_list (mrun ops) = srun ops.
  Proof. exact (refines keq heq klt hash thr max_ins keq_spec heq_spec). Qed.

  (* every operation returns what the specification returns *)
  Theorem C11_ret_refines : forall (ops : list (op K V)) (o : op K V),
    snd (Model.step keq heq klt hash thr max_ins (mrun ops) o) = snd (Spec.step keq klt (srun ops) o).
  Proof. exact (ret_refines keq heq klt hash thr max_ins keq_spec heq_spec). Qed.

  Theorem C11_get_refines : forall (ops : list (op K V)) k,
    Model.get keq heq hash (mrun ops) k = Spec.get keq (srun ops) k.
  Proof. exact (get_refines keq heq klt hash thr max_ins keq_spec heq_spec). Qed.

  Theorem C11_index_of_refines : forall (ops : list (op K V)) k,
    Model.get_index_of keq heq hash (mrun ops) k = Spec.index_of keq (srun ops) k.
  Proof. exact (index_of_refines keq heq klt hash thr max_ins keq_spec heq_spec). Qed.

  Theorem C11_contains_refines : forall (ops : list (op K V)) k,
    Model.contains_key keq heq hash (mrun ops) k = Spec.contains keq (srun ops) k.
  Proof. exact (contains_refines keq heq klt hash thr max_ins keq_spec heq_spec). Qed.

  Theorem C11_get_index_refines : forall (ops : list (op K V)) i,
    Model.get_index (mrun ops) i = nth_error (srun ops) i.
  Proof. exact (get_index_refines keq heq klt hash thr max_ins keq_spec heq_spec). Qed.

  (* every index stored in the hash table is in bounds: the premise of each get_unchecked *)
  Theorem C11_index_in_bounds : forall (ops : list (op K V)) t,
    index (mrun ops) = Some t -> Forall (fun s => snd s < length (entries (mrun ops))) t.
  Proof. exact (index_in_bounds keq heq klt hash thr max_ins keq_spec heq_spec). Qed.

  (* sort_keys yields a permutation in which no key is smaller than its predecessor *)
  Theorem C11_sorted_map_sorted : (forall a b, klt a b = true -> klt b a = false) ->
    forall l : list (K * V),
    Permutation (Spec.sort_keys klt l) l /\
    forall i a b, nth_error (map fst (Spec.sort_keys klt l)) i = Some a ->
                  nth_error (map fst (Spec.sort_keys klt l)) (S i) = Some b -> klt b a = false.
  Proof. exact (sort_keys_sorted klt). Qed.
End Statements.

(* what is observable does not depend on the hash function, on the threshold or on the sort cut-off (used by C14) *)
Theorem C11_hash_independent : forall (K V H1 H2 : Type) (keq klt : K -> K -> bool)
    (heq1 : H1 -> H1 -> bool) (heq2 : H2 -> H2 -> bool) (hash1 : K -> H1) (hash2 : K -> H2) (thr1 thr2 mi1 mi2 : nat),
  (forall a b, keq a b = true <-> a = b) ->
  (forall a b, heq1 a b = true <-> a = b) -> (forall a b, heq2 a b = true <-> a = b) ->
  forall ops : list (op K V),
    to_list (Model.run keq heq1 klt hash1 thr1 mi1 ops) = to_list (Model.run keq heq2 klt hash2 thr2 mi2 ops).
Proof. exact (@hash_independent). Qed.

(* ---- the hypotheses are satisfiable and the statements speak about non-trivial states ---- *)
Example C11_example_hypotheses :
  (forall a b, Nat.eqb a b = true <-> a = b) /\ (forall a b, Nat.ltb a b = true -> Nat.ltb b a = false).
Proof.
  split; [exact Nat.eqb_eq|]. intros a b Hab. apply Nat.ltb_lt in Hab. apply Nat.ltb_ge. apply Nat.lt_le_incl. exact Hab.
Qed.

(* a history with two hash values only (heavy collisions) that crosses the extracted threshold: 17 inserts build the
   index, a removal shifts it, reverse re-maps it; every slot is found under the right hash *)
Definition ex_ops : list (op nat nat) :=
  map (fun k => OInsert k (10 * k)) (seq 0 17) ++ [ORemove 3; OReverse; OInsert 40 1; OPop].
Definition ex_run (ops : list (op nat nat)) :=
  @Model.run nat nat nat Nat.eqb Nat.eqb Nat.ltb (fun k => k mod 2) Cases.thr Cases.max_ins ops.

Example C11_example_crosses_threshold :
  index (ex_run (map (fun k => OInsert k (10 * k)) (seq 0 16))) = None /\
  index_snapshot Nat.eqb (ex_run ex_ops) = Some (map (fun i => (i, true)) (rev (seq 0 16))) /\
  map fst (to_list (ex_run ex_ops)) = [16; 15; 14; 13; 12; 11; 10; 9; 8; 7; 6; 5; 4; 2; 1; 0] /\
  Model.get_index_of Nat.eqb Nat.eqb (fun k => k mod 2) (ex_run ex_ops) 2 = Some 13.
Proof. vm_compute. repeat split; reflexivity. Qed.

(* shrinking keeps the index; only maybe_drop_index releases it *)
Example C11_example_index_kept_when_shrinking :
  let ops := ex_ops ++ [ORetain (fun k v => if k <? 5 then Some (v + 1) else None)] in
  to_list (ex_run ops) = [(4, 41); (2, 21); (1, 11); (0, 1)] /\
  index_snapshot Nat.eqb (ex_run ops) = Some [(0, true); (1, true); (2, true); (3, true)] /\
  index (ex_run (ops ++ [OMaybeDropIndex])) = None /\
  to_list (ex_run (ops ++ [OMaybeDropIndex; OSortKeys])) = [(0, 1); (1, 11); (2, 21); (4, 41)].
Proof. vm_compute. repeat split; reflexivity. Qed.
