(* C09 property theorems.  Nothing but statements closed by `exact`, satisfiability examples;
   the statements are pinned in coq/pins/C09.txt.
   `sh` is the cached 32-bit hash of a string, any function of the string's content.
   `hash_path` is the table extracted from pointer_i32.rs / bigint.rs / float.rs on every run
   (which numeric types define `fn get_hash` themselves). *)
From Coq Require Import ZArith Bool List Permutation Sorted.
From SV Require Import Extracted.EqC Int.Model Eq.Model Eq.Spec Eq.Proofs.
Import ListNotations.
Open Scope Z_scope.

(* --- equality -------------------------------------------------------------------------------- *)
Theorem C09_veq_refl : forall a, veq a a = true.
Proof. exact veq_refl. Qed.

Theorem C09_veq_sym : forall a b, veq a b = veq b a.
Proof. exact veq_sym. Qed.

(* F3: equality is not transitive: 2^53+1 == float(2^53) == 2^53 but 2^53+1 != 2^53 *)
Theorem C09_veq_trans_refuted : exists a b c, vwf a /\ vwf b /\ vwf c /\
  veq a b = true /\ veq b c = true /\ veq a c = false.
Proof. exact veq_trans_refuted. Qed.

(* on values whose integers have magnitude <= 2^53, equality is equality of the mathematical denotations *)
Theorem C09_veq_is_spec_on_exact : forall a b,
  vwf a -> exact_in_f64 a = true -> vwf b -> exact_in_f64 b = true ->
  (veq a b = true <-> denote a = denote b).
Proof. intros a b Wa Xa Wb Xb. exact (veq_denote a (conj Wa Xa) b (conj Wb Xb)). Qed.

Theorem C09_veq_trans_exact : forall a b c,
  vwf a -> exact_in_f64 a = true -> vwf b -> exact_in_f64 b = true -> vwf c -> exact_in_f64 c = true ->
  veq a b = true -> veq b c = true -> veq a c = true.
Proof. intros a b c Wa Xa Wb Xb Wc Xc. exact (veq_trans_exact a b c (conj Wa Xa) (conj Wb Xb) (conj Wc Xc)). Qed.

(* --- hashing --------------------------------------------------------------------------------- *)
(* the 64-bit pre-hash NumRef::get_hash_64 is coherent across small ints, big ints and floats *)
Theorem C09_hash64_coherent : forall a b,
  nwfb a = true -> nwfb b = true -> num_eq a b = true -> hash64 a = hash64 b.
Proof. exact hash64_coherent. Qed.

(* write_hash (what a containing tuple hashes) is coherent for all values *)
Theorem C09_write_hash_coherent : forall sh a b, vwf a -> vwf b -> veq a b = true -> words sh a = words sh b.
Proof. exact words_coherent. Qed.

(* the 32-bit hash used by dict/set is coherent when all three numeric types take the same route ... *)
Theorem C09_vhash_coherent_if_uniform : forall sh hp, uniform hp = true ->
  forall a b, vwf a -> vwf b -> veq a b = true -> vhash sh hp a = vhash sh hp b.
Proof. exact vhash_coherent. Qed.

(* ... and only then *)
Theorem C09_vhash_coherent_refuted_unless_uniform : forall sh hp, uniform hp = false ->
  exists a b, vwf a /\ vwf b /\ veq a b = true /\ vhash sh hp a <> vhash sh hp b.
Proof. exact vhash_incoherent. Qed.

(* for the routes found in the code on this run (F1 while bigint.rs inherits the default get_hash) *)
Theorem C09_vhash_extracted_decided : forall sh,
  if uniform hash_path
  then forall a b, vwf a -> vwf b -> veq a b = true -> vhash sh hash_path a = vhash sh hash_path b
  else exists a b, vwf a /\ vwf b /\ veq a b = true /\ vhash sh hash_path a <> vhash sh hash_path b.
Proof. exact vhash_extracted. Qed.

(* a key equal to a hashable key of a one-entry map is found *)
Theorem C09_dict_lookup_by_equal_key : forall sh hp, uniform hp = true ->
  forall a b, vwf a -> vwf b -> veq a b = true -> vhashable sh a = true -> found sh hp a b = Some true.
Proof. exact found_coherent. Qed.

(* --- ordering -------------------------------------------------------------------------------- *)
Theorem C09_vcmp_antisym : forall a b, vcmp b a = option_map CompOpp (vcmp a b).
Proof. exact vcmp_antisym. Qed.

Theorem C09_vcmp_agrees_veq : forall a, vwf a -> forall b, vwf b ->
  forall c, vcmp a b = Some c -> (veq a b = true <-> c = Eq).
Proof. exact vcmp_eq_veq. Qed.

(* transitivity (of <, of ==, and mixed) on values without floats *)
Theorem C09_vcmp_trans : forall a b c c1 c2 c3,
  vwf a -> float_free a = true -> vwf b -> float_free b = true -> vwf c -> float_free c = true ->
  vcmp a b = Some c1 -> vcmp b c = Some c2 -> tr c1 c2 = Some c3 -> vcmp a c = Some c3.
Proof. intros a b c c1 c2 c3 Wa Fa Wb Fb Wc Fc. exact (vcmp_trans a b c c1 c2 c3 (conj Wa Fa) (conj Wb Fb) (conj Wc Fc)). Qed.

(* totality within a type *)
Theorem C09_vcmp_total : forall a b, same_type a b = true -> vcmp a b <> None.
Proof. exact vcmp_total. Qed.

(* the order on integers is the order of Z whatever the representations *)
Theorem C09_vcmp_int_is_Z : forall a b, wf a -> wf b ->
  vcmp (VNum (NInt a)) (VNum (NInt b)) = Some (Z.compare (den a) (den b)).
Proof. exact vcmp_int. Qed.

(* --- sorting --------------------------------------------------------------------------------- *)
(* sorted() is Vec::sort_by, a stable sort; for a total preorder the result of any stable sort is
   characterised by: permutation, ordered, equal keys keep their input order.  Proved for the model's
   representative (insertion sort). *)
Theorem C09_sort_stable_perm : forall (A : Type) (leb : A -> A -> bool),
  (forall x y, leb x y = true \/ leb y x = true) ->
  (forall x y z, leb x y = true -> leb y z = true -> leb x z = true) ->
  forall l, Permutation (isort leb l) l
         /\ StronglySorted (fun x y => leb x y = true) (isort leb l)
         /\ (forall x, filter (fun y => leb x y && leb y x) (isort leb l)
                     = filter (fun y => leb x y && leb y x) l).
Proof. exact isort_spec. Qed.

(* --- the hypotheses are satisfiable on non-trivial states -------------------------------------- *)
Definition ex_sh (s : list Z) : Z := java_hash s mod 4294967296.
Definition one_f : value := VNum (NFloat (Fin p52 (-52))).
Definition ex_t1 : value := VTuple [VNum (NInt (Small 1)); VStr [97; 233]; VNum (NFloat NegZero)].
Definition ex_t2 : value := VTuple [one_f; VStr [97; 233]; VNum (NInt (Small 0))].

Example C09_ex_mixed_tuple_equal :
  vwf ex_t1 /\ vwf ex_t2 /\ exact_in_f64 ex_t1 = true /\ veq ex_t1 ex_t2 = true /\ denote ex_t1 = denote ex_t2
  /\ words ex_sh ex_t1 = words ex_sh ex_t2 /\ vhashable ex_sh ex_t1 = true.
Proof. vm_compute. repeat split; reflexivity. Qed.

(* float(1 << 40) is found in {1 << 40: _} exactly when the extracted table is uniform *)
Example C09_ex_bigint_float_lookup :
  veq w_big w_big_f = true /\ found ex_sh hash_path w_big w_big_f = Some (uniform hash_path).
Proof. vm_compute. split; reflexivity. Qed.

Example C09_ex_order_tuples :
  let a := VTuple [VNum (NInt (Small 1)); VStr [97]] in
  let b := VTuple [VNum (NInt (Big 1099511627776)); VStr []] in
  float_free a = true /\ same_type a b = true /\ vcmp a b = Some Lt /\ vcmp b a = Some Gt.
Proof. vm_compute. repeat split; reflexivity. Qed.

(* sorted(["b1", "a1", "b0", "a0"], key = first letter) keeps b1 before b0 and a1 before a0 *)
Example C09_ex_sorted_stable :
  sorted_model false [(VStr [98; 49], VStr [98]); (VStr [97; 49], VStr [97]);
                      (VStr [98; 48], VStr [98]); (VStr [97; 48], VStr [97])]
  = Some [VStr [97; 49]; VStr [97; 48]; VStr [98; 49]; VStr [98; 48]].
Proof. vm_compute. reflexivity. Qed.

(* ---- the hash finalisers as translated from /repo's sources on this run (Extracted/RsHash.v, RsMix.v) *)
From SV Require Rs.Prelude Rs.ProofsHash Extracted.RsHash Extracted.RsMix.

Theorem C09_source_hash_64 : forall h, SV.Extracted.RsHash.rs_hash_64 h = fmix64_32 h.
Proof. exact SV.Rs.ProofsHash.rs_hash_64_eq. Qed.

Theorem C09_source_promote : forall h, 0 <= h < 2 ^ 32 ->
  SV.Extracted.RsHash.rs_promote h = (h * 11400714819323198485) mod 2 ^ 64.
Proof. intros h H. rewrite SV.Rs.ProofsHash.rs_promote_eq. exact (SV.Rs.ProofsHash.rs_mix_u32_eq h H). Qed.
