(** * C04 — Freezing preserves every value and makes it permanently immutable.
    Statements only; proofs are in Freeze/Proofs.v.  Model: Freeze/Model.v (`Freezer::freeze`, `heap_freeze`,
    `Module::freeze_impl`), Freeze/Mutate.v (the catalogue of mutators, guard order as in the code). *)
From Coq Require Import ZArith NArith List Bool.
From SV Require Import Freeze.Model Freeze.Mutate Freeze.Proofs Extracted.FreezeC.
Import ListNotations.

(** ** 1. Immutability: every mutator of the catalogue x arbitrary world x any value in a frozen layout:
       an error is returned AND the world is unchanged.  The error is `CannotMutateImmutableValue` unless the code
       checks an argument before it looks at the receiver (list.remove: needle absent; x[i]=v: index out of range;
       d[k]=v: unhashable key; attribute assignment: unsupported) — exactly [pre_check]. *)
Theorem C04_frozen_immutable : forall op w r c,
  cell_of w r = Some c -> is_frozen_tag (ctag c) = true ->
  mutate op w r = (MErr (match pre_check op w c with Some e => e | None => Frozen end), w).
Proof. exact frozen_immutable_any. Qed.

Theorem C04_frozen_immutable_guard_first : forall op w r c,
  cell_of w r = Some c -> is_frozen_tag (ctag c) = true -> pre_check op w c = None ->
  mutate op w r = (MErr Frozen, w).
Proof. intros op w r c H1 H2 H3. rewrite (frozen_immutable_any op w r c H1 H2), H3. reflexivity. Qed.

(** ** 1b. Attempts that would change nothing are attempts all the same.  The effect [apply] of an operation is not even
       computed for a receiver in a frozen layout, so the operations which leave a MUTABLE receiver exactly as it is
       ([snd (apply op w c) = cfields c]: `x[i] = x[i]`, `x[i] += 0`, `x.extend([])`, `x += []`, `d[k] = d[k]`,
       `d.update({})`, `d |= {}`, `d.setdefault(k)` for a present key, `s.add(present)`, `s.update([])`,
       `s.discard(absent)` ...) fail on the frozen image like every other one: whether the stored value is the one that is
       already there plays no role. *)
Theorem C04_noop_attempts_fail : forall op w r c,
  cell_of w r = Some c -> is_frozen_tag (ctag c) = true -> pre_check op w c = None ->
  snd (apply op w c) = cfields c ->
  mutate op w r = (MErr Frozen, w).
Proof. intros op w r c H1 H2 H3 _. apply (C04_frozen_immutable_guard_first op w r c H1 H2 H3). Qed.

(** `x[i] = x[i]` on a frozen list, for every valid index (negative ones included) and whatever the element is. *)
Theorem C04_identity_item_write_fails : forall w r c i j v,
  cell_of w r = Some c -> ctag c = TFrozenList ->
  conv_index (Z.of_nat (length (cfields c))) i = Some j -> nth_error (cfields c) (Z.to_nat j) = Some v ->
  mutate (LSetAt i v) w r = (MErr Frozen, w).
Proof.
  intros w r c i j v H1 H2 H3 _.
  apply (C04_frozen_immutable_guard_first (LSetAt i v) w r c H1).
  - rewrite H2. reflexivity.
  - unfold pre_check. rewrite H2. simpl. rewrite H3. reflexivity.
Qed.

(** ... while on the mutable original the same write succeeds and leaves the fields as they are (so the statement above is
    about operations that do succeed before the freeze). *)
Theorem C04_identity_item_write_unfrozen_noop : forall w a c i j v,
  nth_error (wm w) a = Some (Live c) -> ctag c = TList -> clock c = 0%N ->
  conv_index (Z.of_nat (length (cfields c))) i = Some j -> nth_error (cfields c) (Z.to_nat j) = Some v ->
  fst (mutate (LSetAt i v) w (Ptr a)) = MOk RNone /\ snd (apply (LSetAt i v) w c) = cfields c.
Proof.
  intros w a c i j v H1 H2 H3 H4 H5.
  assert (U : upd (cfields c) (Z.to_nat j) v = cfields c).
  { revert H5. generalize (Z.to_nat j) as n. generalize (cfields c) as l.
    induction l as [|x l IH]; intros [|n] E; simpl in *; try discriminate; auto.
    - inversion E; reflexivity.
    - f_equal. apply IH; assumption. }
  split.
  - unfold mutate. simpl. rewrite H1. unfold pre_check. rewrite H2, H3, H4. simpl. reflexivity.
  - simpl. rewrite H4. exact U.
Qed.

(** ** 2. Closure: after `Module::freeze_impl`, the exported slots and every cell of the frozen heap point only to
       immediate values, the static empty list, or filled frozen cells, and every frozen cell has a frozen layout. *)
Theorem C04_freeze_closed : forall w0 slots slots' w',
  heap_wf w0 -> Forall (ref_ok w0) slots -> freeze_module w0 slots = FOk (slots', w') ->
  Forall (closed_ref (wfz w')) slots' /\ frozen_heap_ok w'.
Proof.
  intros w0 slots slots' w' W O H.
  destruct (freeze_module_inv _ _ _ _ W H) as (HI & N & R). split.
  - clear H. induction R; auto. inversion O; subst. constructor; auto. eapply rel_closed; eauto.
  - intros f c Hc. eapply frozen_heap_closed; eauto.
Qed.

(** Nothing reachable from a frozen export is unfrozen. *)
Theorem C04_freeze_reach_frozen : forall w0 slots slots' w' s r,
  heap_wf w0 -> Forall (ref_ok w0) slots -> freeze_module w0 slots = FOk (slots', w') ->
  In s slots' -> reach w' s r ->
  closed_ref (wfz w') r /\ forall c, cell_of w' r = Some c -> is_frozen_tag (ctag c) = true.
Proof.
  intros w0 slots slots' w' s r W O H Hs Hr.
  destruct (C04_freeze_closed _ _ _ _ W O H) as [Hc Hok].
  rewrite Forall_forall in Hc.
  assert (X : closed_ref (wfz w') r) by (eapply reach_closed; eauto).
  split; auto. intros c Hcell. eapply closed_cell_frozen; eauto.
Qed.

(** ** 3. Value preservation: to EVERY depth the observation of each frozen slot (type, payload, elements, dict/set
       entries and their order, struct fields, captured variables, cycles unrolled) equals that of the original.
       Holds for all heaps, cyclic ones included. *)
Theorem C04_freeze_obs_eq : forall w0 slots slots' w',
  heap_wf w0 -> Forall (ref_ok w0) slots -> freeze_module w0 slots = FOk (slots', w') ->
  forall n, map (obs n w') slots' = map (obs n w0) slots.
Proof.
  intros w0 slots slots' w' W O H n.
  destruct (freeze_module_inv _ _ _ _ W H) as (HI & N & R).
  eapply map_obs_rel; eauto.
Qed.

(** ... and of everything related by the forwarding table the freeze left behind. *)
Theorem C04_freeze_obs_eq_any : forall w0 slots slots' w',
  heap_wf w0 -> freeze_module w0 slots = FOk (slots', w') ->
  forall n r r', ref_ok w0 r -> rel (wm w') r r' -> obs n w' r' = obs n w0 r.
Proof.
  intros w0 slots slots' w' W H n r r' O R.
  destruct (freeze_module_inv _ _ _ _ W H) as (HI & N & _).
  eapply obs_rel; eauto.
Qed.

(** Anything computed from the observation (equality, hash, str, repr, json ...) is preserved. *)
Corollary C04_freeze_obs_function_preserved : forall (A : Type) (g : list obsT -> A) w0 slots slots' w',
  heap_wf w0 -> Forall (ref_ok w0) slots -> freeze_module w0 slots = FOk (slots', w') ->
  forall n, g (map (obs n w') slots') = g (map (obs n w0) slots).
Proof. intros. f_equal. eapply C04_freeze_obs_eq; eauto. Qed.

Corollary C04_freeze_eq_preserved : forall w0 slots slots' w',
  heap_wf w0 -> freeze_module w0 slots = FOk (slots', w') ->
  forall x y x' y', ref_ok w0 x -> ref_ok w0 y -> rel (wm w') x x' -> rel (wm w') y y' ->
  veq w' x' y' = veq w0 x y.
Proof.
  intros w0 slots slots' w' W H x y x' y' Ox Oy Rx Ry.
  destruct (freeze_module_inv _ _ _ _ W H) as (HI & N & _).
  eapply veq_rel; eauto.
Qed.

(** ** 4. Sharing: the image is a function of the original (aliases stay aliases) and two different originals never
       share an allocated image; the only merge is of empty lists into the static immutable empty list
       (`FrozenValue::new_empty_list`), which no operation can tell apart (section 1). *)
Theorem C04_freeze_alias_eq : forall w0 slots slots' w',
  heap_wf w0 -> freeze_module w0 slots = FOk (slots', w') ->
  forall r1 r2 r1' r2', ref_ok w0 r1 -> ref_ok w0 r2 -> rel (wm w') r1 r1' -> rel (wm w') r2 r2' ->
  (r1 = r2 -> r1' = r2') /\ (r1' = r2' -> r1' <> SEmptyList -> r1 = r2).
Proof.
  intros w0 slots slots' w' W H.
  destruct (freeze_module_inv _ _ _ _ W H) as (HI & N & _).
  intros. eapply alias_rel; eauto.
Qed.

Theorem C04_freeze_slots_related : forall w0 slots slots' w',
  heap_wf w0 -> freeze_module w0 slots = FOk (slots', w') -> Forall2 (rel (wm w')) slots slots'.
Proof. intros w0 slots slots' w' W H. apply (freeze_module_inv _ _ _ _ W H). Qed.

(** ** 5. Reads: each non-mutating operation returns on the image the image of what it returned before. *)
Theorem C04_frozen_reads_ok : forall w0 slots slots' w',
  heap_wf w0 -> freeze_module w0 slots = FOk (slots', w') ->
  forall op op' r r', ref_ok w0 r -> rel (wm w') r r' -> rop_ok w0 op -> rop_rel (wm w') op op' ->
  rres_rel (wm w') (read op w0 r) (read op' w' r').
Proof.
  intros w0 slots slots' w' W H.
  destruct (freeze_module_inv _ _ _ _ W H) as (HI & N & _).
  intros. eapply reads_ok; eauto.
Qed.

(** ** 6. Permanence: in ANY world sharing the frozen heap (the module itself later, or any importing module), after ANY
       history of operations of the catalogue on ANY values, every value reachable from a frozen export still observes
       the same, and every single attempt on such a value fails leaving that world unchanged. *)
Theorem C04_frozen_permanent : forall w0 slots slots' w',
  heap_wf w0 -> Forall (ref_ok w0) slots -> freeze_module w0 slots = FOk (slots', w') ->
  forall wi ops s r n, wfz wi = wfz w' -> In s slots' -> reach w' s r ->
    obs n (run ops wi) r = obs n w' r.
Proof.
  intros w0 slots slots' w' W O H wi ops s r n E Hs Hr.
  destruct (C04_freeze_closed _ _ _ _ W O H) as [Hc Hok].
  destruct (C04_freeze_reach_frozen _ _ _ _ _ _ W O H Hs Hr) as [Hcl _].
  symmetry. apply obs_closed; auto. rewrite run_frozen_heap. auto.
Qed.

Theorem C04_module_immutable : forall w0 slots slots' w',
  heap_wf w0 -> Forall (ref_ok w0) slots -> freeze_module w0 slots = FOk (slots', w') ->
  forall wi ops s r c op, wfz wi = wfz w' -> In s slots' -> reach w' s r -> cell_of w' r = Some c ->
    exists e, mutate op (run ops wi) r = (MErr e, run ops wi).
Proof.
  intros w0 slots slots' w' W O H wi ops s r c op E Hs Hr Hc.
  destruct (C04_freeze_reach_frozen _ _ _ _ _ _ W O H Hs Hr) as [Hcl Hfr].
  assert (Hc' : cell_of (run ops wi) r = Some c).
  { destruct r as [z|a|f|]; simpl in *; try tauto; auto. rewrite run_frozen_heap, E. auto. }
  eexists. eapply frozen_immutable_any; eauto.
Qed.

(** ** 7. Totality: on a well-formed heap whose unfrozen part holds no frozen layout, `Module::freeze_impl` never
       panics ("already frozen", dangling pointer) and the DFS terminates (cyclic heaps included): it succeeds or
       reports "cannot be frozen".  So the hypotheses `freeze_module ... = FOk ...` above are not vacuous. *)
Theorem C04_freeze_total : forall w0 slots,
  heap_wf w0 -> mutable_layouts w0 -> Forall (ref_ok w0) slots ->
  (exists slots' w', freeze_module w0 slots = FOk (slots', w')) \/ freeze_module w0 slots = FCannot.
Proof. exact freeze_module_total. Qed.

(** ** 8. The catalogue covers the source: the methods of list/dict/set that ask for the mutable layout
       (`from_value_mut` / `DictMut::from_value` / `SetMut::from_value`; re-extracted from methods.rs on every run) are
       exactly the modelled ones, the guard is their first statement exactly where the model has no [pre_check],
       `+=` / `|=` reach the same guard for BOTH layouts, and the frozen / default `set_at` only return the error. *)
Example C04_catalogue_covers_source :
  list_methods_mutable_downcast = catalogue_list_methods /\
  dict_methods_mutable_downcast = catalogue_dict_methods /\
  set_methods_mutable_downcast = catalogue_set_methods /\
  list_methods_guard_first = guard_first_list_methods /\
  dict_methods_guard_first = guard_first_dict_methods /\
  set_methods_guard_first = guard_first_set_methods /\
  is_list_type_both_layouts = true /\ is_dict_type_both_layouts = true /\
  add_assign_uses_mutable_downcast = true /\ bit_or_assign_uses_mutable_downcast = true /\
  frozen_list_set_at_errors = true /\ frozen_dict_set_at_errors = true /\ default_set_at_errors = true /\
  dict_freeze_in_order = true /\ list_freeze_in_order = true.
Proof. repeat split; reflexivity. Qed.

(** ** Examples: the hypotheses are satisfiable on non-trivial worlds (nested, aliased, cyclic). *)
Local Open Scope Z_scope.

(** m.star:  a = [1, 2];  d = {"k": a, "self": d};  t = (a, [], a);  cyc = [7]; cyc.append(cyc)
    def mk(): l = a ... closure over a;  loaded frozen value FPtr 0 = [5] of an earlier module. *)
Definition ex_w0 : world :=
  mkW [ Live (mkCell TList 0 [Imm 1; Imm 2] 0);                                  (* 0: a *)
        Live (mkCell TLeaf 1001 [] 0);                                           (* 1: "k" *)
        Live (mkCell TLeaf 1002 [] 0);                                           (* 2: "self" *)
        Live (mkCell TDict 0 [Ptr 1; Ptr 0; Ptr 2; Ptr 3] 0);                    (* 3: d (cyclic) *)
        Live (mkCell TList 0 [] 0);                                              (* 4: [] *)
        Live (mkCell TTuple 0 [Ptr 0; Ptr 4; Ptr 0; FPtr 0] 0);                  (* 5: t, aliasing a twice *)
        Live (mkCell TList 0 [Imm 7; Ptr 6] 0);                                  (* 6: cyc *)
        Live (mkCell TCaptured 0 [Ptr 0] 0);                                     (* 7: captured cell holding a *)
        Live (mkCell TDef 77 [Ptr 7; Ptr 4] 0);                                  (* 8: def with capture + default [] *)
        Live (mkCell TSet 0 [Imm 3; Ptr 1] 0) ]                                  (* 9: set *)
      [ Some (mkCell TFrozenList 0 [Imm 5] 0) ].

Definition ex_slots : list ref := [Ptr 0; Ptr 3; Ptr 5; Ptr 6; Ptr 8; Ptr 9; Imm 42; FPtr 0].

Example C04_ex_wf : heap_wf ex_w0 /\ Forall (ref_ok ex_w0) ex_slots.
Proof.
  split; [apply heap_wfb_sound; vm_compute; reflexivity|].
  repeat constructor; simpl; eauto.
Qed.

Example C04_ex_freeze_ok :
  exists slots' w', freeze_module ex_w0 ex_slots = FOk (slots', w') /\
    slots' = [FPtr 1; FPtr 2; FPtr 5; FPtr 6; FPtr 7; FPtr 9; Imm 42; FPtr 0] /\
    (* the dict keeps entry order and points to itself; the tuple shares ONE image of a; [] became the static *)
    nth_error (wfz w') 2 = Some (Some (mkCell TFrozenDict 0 [FPtr 3; FPtr 1; FPtr 4; FPtr 2] 0)) /\
    nth_error (wfz w') 5 = Some (Some (mkCell TFrozenTuple 0 [FPtr 1; SEmptyList; FPtr 1; FPtr 0] 0)) /\
    nth_error (wfz w') 6 = Some (Some (mkCell TFrozenList 0 [Imm 7; FPtr 6] 0)).
Proof. eexists; eexists. vm_compute. repeat split; reflexivity. Qed.

Example C04_ex_obs_eq :
  match freeze_module ex_w0 ex_slots with
  | FOk (slots', w') => map (obs 9 w') slots' = map (obs 9 ex_w0) ex_slots
  | _ => False
  end.
Proof. vm_compute. reflexivity. Qed.

(** After freezing, `a.append(9)`, `d["k"] = 1`, `cyc += [1]`, `s.add(4)`, `a.remove(99)` (absent: "not found" first). *)
Example C04_ex_mutations_fail :
  match freeze_module ex_w0 ex_slots with
  | FOk (_, w') =>
      map (fun p => fst (mutate (fst p) w' (snd p)))
          [(LAppend (Imm 9), FPtr 1); (DSetAt (Imm 3) (Imm 1), FPtr 2); (LAddAssign [Imm 1], FPtr 6);
           (SAdd (Imm 4), FPtr 9); (LRemove (Imm 99), FPtr 1); (LSetAt 5 (Imm 0), FPtr 1); (LClear, SEmptyList)]
      = [MErr Frozen; MErr Frozen; MErr Frozen; MErr Frozen; MErr NotFound; MErr IndexOOB; MErr Frozen]
  | _ => False
  end.
Proof. vm_compute. reflexivity. Qed.

(** The same operations on the unfrozen originals do mutate (the catalogue is not vacuous). *)
Example C04_ex_mutations_unfrozen :
  let w1 := snd (mutate (LAppend (Imm 9)) ex_w0 (Ptr 0)) in
  let w2 := snd (mutate (DSetAt (Ptr 1) (Imm 1)) w1 (Ptr 3)) in
  obs 2 w2 (Ptr 0) = ONode TFrozenList 0 [OImm 1; OImm 2; OImm 9] /\
  read (RDictGet (Ptr 1)) w2 (Ptr 3) = RRef (Imm 1).
Proof. vm_compute. split; reflexivity. Qed.

(** Attempts that change nothing: `a[0] = 1` (already 1), `a[-1] = 2`, `a.extend([])`, `a += []`, `d["k"] = d["k"]`, `d.update({})`,
    `d |= {}`, `d.setdefault("k", 5)`, `s.add(3)`, `s.update([])`, `s.discard(99)`: each succeeds on the original and leaves its
    observation as it is; each fails with `CannotMutateImmutableValue` on the frozen image. *)
Example C04_ex_identity_writes :
  let ops_u := [(LSetAt 0 (Imm 1), Ptr 0); (LSetAt (-1) (Imm 2), Ptr 0); (LExtend [], Ptr 0); (LAddAssign [], Ptr 0);
                (DSetAt (Ptr 1) (Ptr 0), Ptr 3); (DUpdate [], Ptr 3); (DOrAssign [], Ptr 3); (DSetdefault (Ptr 1) (Imm 5), Ptr 3);
                (SAdd (Imm 3), Ptr 9); (SUpdate [], Ptr 9); (SDiscard (Imm 99), Ptr 9)] in
  forallb (fun p => match fst (mutate (fst p) ex_w0 (snd p)) with MOk _ => true | MErr _ => false end) ops_u = true /\
  map (fun p => obs 6 (snd (mutate (fst p) ex_w0 (snd p))) (snd p)) ops_u = map (fun p => obs 6 ex_w0 (snd p)) ops_u /\
  match freeze_module ex_w0 ex_slots with
  | FOk (_, w') =>
      map (fun p => fst (mutate (fst p) w' (snd p)))
          [(LSetAt 0 (Imm 1), FPtr 1); (LSetAt (-1) (Imm 2), FPtr 1); (LExtend [], FPtr 1); (LAddAssign [], FPtr 1);
           (DSetAt (FPtr 3) (FPtr 1), FPtr 2); (DUpdate [], FPtr 2); (DOrAssign [], FPtr 2); (DSetdefault (FPtr 3) (Imm 5), FPtr 2);
           (SAdd (Imm 3), FPtr 9); (SUpdate [], FPtr 9); (SDiscard (Imm 99), FPtr 9)]
      = repeat (MErr Frozen) 11
  | _ => False
  end.
Proof. vm_compute. repeat split; reflexivity. Qed.
