(* C06 property theorems.  Statements closed by `exact`, plus satisfiability examples; pinned in coq/pins/C06.txt.

   The two full statements of DESIGN Appendix A are proved below:
     [full 1] C06_pratt_eq_grammar : forall c, table_ok c = true -> forall fuel ts,
       Model.parse c fuel ts = Grammar.parse_strict fuel ts
     (every binding-power table with table_ok, every fuel, every token list: same tree, same rejection, same
     out-of-fuel; C06_parse_fuel_mono says a definitive answer never changes with more fuel), through the
     congruence of the shared bracket grammar (Parse/ProofsFull.v, no functional extensionality) and
     C06_argument_reentry_eq (parse_argument's re-entry after a consumed identifier = parse_test).
     [full 2] C06_print_parse_roundtrip : forall c, table_ok c = true -> forall e, printable e = true ->
       forall fuel, esize e <= S fuel -> Model.parse c fuel (print_stmt (SExpr e)) = Ok (SExpr e)
     for ALL expression constructors (Parse/PrintProofs.v); `printable` asks only what the parser guarantees of its
     own output (valid call arguments, valid lambda parameters, comprehensions starting with `for`, normalised
     assignable loop targets); corollaries C06_print_fixpoint and C06_print_injective.
   Also for the assignment statement (C06_print_parse_roundtrip_stmt) and at the tie's own fuel
     (C06_print_parse_roundtrip_extracted).
   The earlier operator-layer theorems (C06_pratt_binary_partial etc.) are kept unchanged: the full statement is
   built on them.  Not modelled in Coq: statements other than the one-line expression / assignment statement.

   Literal payloads (the tokens TString n are opaque numbers in the theorems above) have their own round trip, at the
   level of characters (Parse/Escape.v, Parse/EscapeProofs.v):
     C06_string_literal_roundtrip : for every escape table t with esc_table_ok t (the arms of ast.rs fmt_string_literal,
       re-extracted on every run, satisfy it: C06_string_escapes_extracted_ok) and every string value s, the lexer model
       (lexer.rs string / escape / escape_char) reads print_string t s back as s and stops right after the closing quote;
     C06_bytes_literal_roundtrip : the same for Display of AstLiteral::Bytes and bytes_string / escape_bytes.
   C06_escape_cr_arm_needed shows the hypothesis is not idle: the table without the CR arm is refused and loses the value. *)
From Coq Require Import ZArith NArith List Bool.
From SV Require Import Parse.Tokens Parse.Ast Parse.Model Parse.Grammar Parse.Print Parse.Cases Parse.Proofs
  Parse.ProofsFull Parse.PrintProofs Parse.Escape Parse.EscapeCases Parse.EscapeProofs.
Import ListNotations.

(* the tables re-extracted from parser_rd.rs on this run satisfy the well-formedness predicate *)
Theorem C06_table_ok_extracted : exists c, ext_cfg = Some c /\ table_ok c = true.
Proof. exact ext_cfg_some. Qed.

(* Pratt = stratified grammar on the operator layer: at a binding power that enters precedence level i, the Pratt
   loop of parser_rd.rs returns exactly what the level-i nonterminal of the reference grammar returns (same tree,
   same remaining input, same rejection), for every operand parser P that consumes input *)
Theorem C06_pratt_binary_partial : forall c, table_ok c = true -> forall P, consuming P ->
  forall i m, valid_level i -> entry_ok c m i = true ->
  forall ts, parse_expr_top c P m ts = G P i ts.
Proof. exact pratt_eq_grammar_oplayer. Qed.

(* the entry points: parse_test / parse_or_test / parse_argument's continue_infix(0) are OrTest, the operand of the
   prefix `not` is NotTest, parse_bitor_expr's power is BitOr - over the model's own parse_unary *)
Theorem C06_pratt_entry_points : forall c, table_ok c = true -> forall R ts,
  let P := parse_unary c R in
  parse_expr_top c P (c_test c) ts = g_or_test P ts /\
  parse_expr_top c P (c_ortest c) ts = g_or_test P ts /\
  parse_expr_top c P (c_arg c) ts = g_or_test P ts /\
  parse_expr_top c P (c_not_rbp c) ts = g_not_test P ts /\
  parse_expr_top c P (c_bitor c) ts = g_bitor P ts.
Proof. exact pratt_entry_points. Qed.

(* the right operand of an operator of level i is parsed as the nonterminal of level i+1 *)
Theorem C06_pratt_right_operand : forall c, table_ok c = true -> forall P, consuming P ->
  forall t op l r, lookup (c_tbl c) t = Some (op, l, r) ->
  forall ts, parse_expr_top c P r ts = G P (S (ref_level op)) ts.
Proof. exact pratt_right_operand. Qed.

(* the model's parse_unary is a consuming operand parser, so the hypotheses above are satisfiable *)
Theorem C06_parse_unary_consuming : forall c R, consuming (parse_unary c R).
Proof. exact parse_unary_consuming. Qed.

(* the one place where the faithful model and the specification's grammar differ (a finding on the implementation) *)
Theorem C06_bare_tuple_statement_refuted :
  exists ts e, Grammar.parse (fuel_for ts) ts = Ok (SExpr e) /\ run_model ts = Err 15.
Proof. exact bare_tuple_stmt_differs. Qed.

(* a non-trivial run: `not a == b or c * -d` groups as ((not (a == b)) or (c * (-d))) in model and grammar *)
Example C06_example_run :
  let ts := [TNot; TIdentifier 1; TEqualEqual; TIdentifier 2; TOr; TIdentifier 3; TStar; TMinus; TIdentifier 4]%N in
  run_model ts = Ok (SExpr (EOp (ENot (EOp (EId 1) Equal (EId 2))) Or (EOp (EId 3) Multiply (EMinus (EId 4)))))%N
  /\ run_grammar ts = run_model ts
  /\ run_model (run_print (SExpr (EOp (ENot (EOp (EId 1) Equal (EId 2))) Or (EOp (EId 3) Multiply (EMinus (EId 4))))))%N = run_model ts.
Proof. vm_compute. repeat split; reflexivity. Qed.

(* ---- whole expressions and statements ---- *)

(* [full 1] the model of parser_rd.rs and the stratified reference grammar are the same function of the token list *)
Theorem C06_pratt_eq_grammar : forall c, table_ok c = true -> forall fuel ts,
  Model.parse c fuel ts = Grammar.parse_strict fuel ts.
Proof. exact pratt_eq_grammar. Qed.

(* the same for a single Test (the entry used inside brackets, argument lists, lambda bodies, ...) *)
Theorem C06_pratt_eq_grammar_test : forall c, table_ok c = true -> forall fuel ts,
  parse_test_m c fuel ts = parse_test_g fuel ts.
Proof. exact pratt_eq_grammar_test. Qed.

(* at the tables extracted from parser_rd.rs on this run, with the fuel the tie uses *)
Theorem C06_run_model_eq_grammar : forall ts, run_model ts = run_grammar_strict ts.
Proof. exact run_model_eq_grammar. Qed.

(* parse_argument: having consumed an identifier that is not followed by `=`, continue_primary ; continue_infix(c_arg) ;
   continue_ternary builds exactly what parse_test builds on the stream that still has the identifier *)
Theorem C06_argument_reentry_eq : forall c, table_ok c = true -> forall R k r,
  ('(e1, r1) <- continue_primary R (EId k) r ;;
   if Nat.leb (List.length r1) (List.length r) then
     '(e2, r2) <- continue_infix c (parse_unary c R) (c_arg c) e1 r1 ;;
     '(e3, r3) <- continue_ternary R e2 r2 ;;
     Ok (APos e3, r3)
   else Err 99)
  = '(e, r') <- parse_test c (pratt_impl c) R (TIdentifier k :: r) ;; Ok (APos e, r').
Proof. exact argument_reentry_eq. Qed.

(* fuel: any answer other than out-of-fuel (a tree, a rejection, `Unmodelled`) is the answer at every larger fuel *)
Theorem C06_parse_fuel_mono : forall c, table_ok c = true -> forall f f' ts, (f <= f')%nat ->
  Model.parse c f ts <> Oof -> Model.parse c f' ts = Model.parse c f ts.
Proof. exact model_fuel_mono. Qed.

(* [full 2] printing (ast.rs Display) then parsing gives the tree back - every expression constructor *)
Theorem C06_print_parse_roundtrip : forall c, table_ok c = true -> forall e, printable e = true ->
  forall fuel, (esize e <= S fuel)%nat -> Model.parse c fuel (print_stmt (SExpr e)) = Ok (SExpr e).
Proof. exact print_parse_roundtrip. Qed.

Theorem C06_print_parse_roundtrip_large_fuel : forall c, table_ok c = true -> forall e, printable e = true ->
  exists f0, forall fuel, (f0 <= fuel)%nat -> Model.parse c fuel (print_stmt (SExpr e)) = Ok (SExpr e).
Proof. exact print_parse_roundtrip_large_fuel. Qed.

(* the round trip inside any context: the printed expression followed by a closing bracket, `,`, `:`, `else`, `for`
   (or nothing) is parsed back as a Test by the reference grammar, leaving exactly that rest *)
Theorem C06_print_parse_roundtrip_in_context : forall e, printable e = true -> forall fuel, (esize e <= fuel)%nat ->
  forall rest, folt rest -> parse_test_g fuel (print e ++ rest) = Ok (e, rest).
Proof. exact roundtrip_test_grammar. Qed.

(* with the tables extracted on this run and the fuel the tie gives the model (fuel_for = tokens + 2, which is at least
   the size): the extracted model, run on the printed tokens, returns the tree *)
Theorem C06_print_parse_roundtrip_extracted : forall e, printable e = true -> run_model (print e) = Ok (SExpr e).
Proof. exact run_model_print_roundtrip. Qed.

(* both statement forms of the model: expression statement and `target = value` (target assignable and normalised) *)
Theorem C06_print_parse_roundtrip_stmt : forall c, table_ok c = true -> forall s, printable_stmt s = true ->
  forall fuel, (ssize s <= S fuel)%nat -> Model.parse c fuel (print_stmt s) = Ok s.
Proof. exact print_parse_roundtrip_stmt. Qed.

(* printed text is a fixed point of parse-then-print *)
Theorem C06_print_fixpoint : forall c, table_ok c = true -> forall e, printable e = true ->
  forall fuel, (esize e <= S fuel)%nat ->
  exists s, Model.parse c fuel (print e) = Ok s /\ print_stmt s = print e.
Proof. exact print_fixpoint. Qed.

(* different printable trees print differently (why comparing Display output in the tie compares trees) *)
Theorem C06_print_injective : forall e1 e2, printable e1 = true -> printable e2 = true -> print e1 = print e2 -> e1 = e2.
Proof. exact print_injective. Qed.

(* the hypotheses are satisfiable on a tree that uses calls with every argument kind, a slice, a lambda with every
   parameter kind, a conditional, a comprehension with a tuple target, a dict, `not in`, and unary receivers *)
Definition C06_example_tree : expr :=
  (ECall (EDot (EMinus (EId 1)) 2)
     [APos (EIf (EOp (EId 3) NotIn (EList [EInt 4; EStr 5])) (ESlice (EId 6) (Some (EInt 7)) None (Some (EBitNot (EId 8)))) (ETuple [EId 9]));
      ANamed 10 (ELambda [PNormal 11 None; PSlash; PNormal 12 (Some (EInt 13)); PNoArgs; PNormal 14 None; PKwArgs 15] (ENot (EId 11)));
      AArgs (EListComp (EIndex2 (EId 16) (EId 17) (EId 18)) [CFor (ETuple [EId 17; EDot (EId 19) 20]) (EId 21); CIf (EId 17); CFor (EId 18) (EId 22)]);
      AKwArgs (EDictComp (EId 23) (EDict [(EId 24, EFloat 25)]) [CFor (EId 23) (EIndex (EId 26) (EPlus (EInt 27)))])])%N.
Example C06_example_printable :
  printable C06_example_tree = true /\
  run_model (print C06_example_tree) = Ok (SExpr C06_example_tree).
Proof. vm_compute. split; reflexivity. Qed.

(* ---- literal payloads: the printer's escaping is undone by the lexer ---- *)

(* the arms of fmt_string_literal extracted from ast.rs on this run form a safe table: the closing quote, the backslash,
   LF and CR have an arm, and the text of every arm decodes to exactly its character *)
Theorem C06_string_escapes_extracted_ok : esc_table_ok ext_escapes = true.
Proof. exact ext_escapes_ok. Qed.

(* every string value (any list of code points), printed by fmt_string_literal with a safe table and followed by any
   text, is read back by the lexer as that value, leaving exactly that text *)
Theorem C06_string_literal_roundtrip : forall t, esc_table_ok t = true -> forall s rest fuel, (List.length s < fuel)%nat ->
  lex_string fuel (print_string t s ++ rest) = Some (s, rest).
Proof. exact string_literal_roundtrip. Qed.

(* at the extracted table with the fuel the tie uses *)
Theorem C06_string_literal_roundtrip_extracted : forall s, run_lex_string (run_print_string s) = Some (s, []).
Proof. exact run_string_roundtrip. Qed.

(* the printed literal is a fixed point of lex-then-print; different values print differently *)
Theorem C06_string_literal_fixpoint : forall t, esc_table_ok t = true -> forall s fuel, (List.length s < fuel)%nat ->
  exists v, lex_string fuel (print_string t s) = Some (v, []) /\ print_string t v = print_string t s.
Proof. exact string_literal_fixpoint. Qed.

Theorem C06_string_literal_print_injective : forall t, esc_table_ok t = true ->
  forall s1 s2, print_string t s1 = print_string t s2 -> s1 = s2.
Proof. exact print_string_injective. Qed.

(* bytes literals: every list of bytes *)
Theorem C06_bytes_literal_roundtrip : forall bs, Forall (fun b => b < 256)%N bs -> forall rest fuel, (List.length bs < fuel)%nat ->
  lex_bytes fuel (print_bytes bs ++ rest) = Some (bs, rest).
Proof. exact bytes_literal_roundtrip. Qed.

Theorem C06_bytes_literal_roundtrip_extracted : forall bs, Forall (fun b => b < 256)%N bs ->
  run_lex_bytes (print_bytes bs) = Some (bs, []).
Proof. exact run_bytes_roundtrip. Qed.

(* the hypothesis esc_table_ok is needed: drop the CR arm and the table is refused - and a value with a CR really is
   lost, because the lexer ignores a CR between the quotes *)
Theorem C06_escape_cr_arm_needed :
  esc_table_ok escapes_without_cr = false /\
  lex_string 10 (print_string escapes_without_cr [97; 13; 98]%N) = Some ([97; 98]%N, []).
Proof. exact cr_arm_needed. Qed.

(* a non-trivial value: a CR b NUL quote backslash LF TAB e-acute U+2028 U+1F600 *)
Example C06_example_string_literal :
  run_print_string [97; 13; 98; 0; 34; 92; 10; 9; 233; 8232; 128512]%N =
    [34; 97; 92; 114; 98; 92; 120; 48; 48; 92; 34; 92; 92; 92; 110; 92; 116; 233; 8232; 128512; 34]%N
  /\ run_lex_string (run_print_string [97; 13; 98; 0; 34; 92; 10; 9; 233; 8232; 128512]%N)
      = Some ([97; 13; 98; 0; 34; 92; 10; 9; 233; 8232; 128512]%N, [])
  /\ run_lex_bytes (print_bytes [97; 13; 0; 34; 92; 10; 9; 127; 128; 255]%N) = Some ([97; 13; 0; 34; 92; 10; 9; 127; 128; 255]%N, []).
Proof. vm_compute. repeat split; reflexivity. Qed.
