(* C06 property theorems.  Statements closed by `exact`, plus satisfiability examples; pinned in coq/pins/C06.txt. *)
From Coq Require Import ZArith NArith List Bool.
From SV Require Import Parse.Tokens Parse.Ast Parse.Model Parse.Grammar Parse.Print Parse.Cases Parse.Proofs.
Import ListNotations.

(* the tables re-extracted from parser_rd.rs on this run satisfy the well-formedness predicate *)
Theorem C06_table_ok_extracted : exists c, ext_cfg = Some c /\ table_ok c = true.
Proof. exact ext_cfg_some. Qed.

(* the one place where the faithful model and the specification's grammar differ (a finding on the implementation) *)
Theorem C06_bare_tuple_statement_refuted :
  exists ts e, Grammar.parse (fuel_for ts) ts = Ok (SExpr e) /\ run_model ts = Err 15.
Proof. exact bare_tuple_stmt_differs. Qed.
