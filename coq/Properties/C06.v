(* C06 property theorems.  Statements closed by `exact`, plus satisfiability examples; pinned in coq/pins/C06.txt.

   Full statement aimed at (DESIGN Appendix A), kept here for reference:
     [full 1] C06_pratt_eq_grammar : forall c, table_ok c = true -> forall fuel ts,
       Model.parse c fuel ts = Grammar.parse_strict fuel ts.
     [full 2] C06_print_parse_roundtrip : forall c, table_ok c = true -> forall e, exists fuel,
       Model.parse c fuel (print_stmt (SExpr e)) = Ok (SExpr e).
   Proved below: the operator layer of the first statement (every precedence level, every operand parser that
   consumes input, every table satisfying table_ok), instantiated at every entry point the parser uses over the
   model's own parse_unary.  Missing for the full first statement: the congruence lifting through the shared
   bracket grammar (Model.Body is the same Gallina code on both sides, parametric in the operator layer) and the
   lemma that parse_argument's re-entry after a consumed identifier equals parse_test.  The second statement
   (printer) is not proved; it is checked by the tie on every case (model printer = Display tokens, re-parse = same tree). *)
From Coq Require Import ZArith NArith List Bool.
From SV Require Import Parse.Tokens Parse.Ast Parse.Model Parse.Grammar Parse.Print Parse.Cases Parse.Proofs.
Import ListNotations.

(* the tables re-extracted from parser_rd.rs on this run satisfy the well-formedness predicate *)
Theorem C06_table_ok_extracted : exists c, ext_cfg = Some c /\ table_ok c = true.
Proof. exact ext_cfg_some. Qed.

(* Pratt = stratified grammar on the operator layer: at a binding power that enters precedence level i, the Pratt
   loop of parser_rd.rs returns exactly what the level-i nonterminal of the reference grammar returns (same tree,
   same remaining input, same rejection), for every operand parser P that consumes input *)
Theorem C06_pratt_binary_partial : forall c, table_ok c = true -> forall P, consuming P ->
  forall i m, valid_level i -> entry_ok c m i = true ->
  forall ts, parse_expr_top c P m ts = G P i ts.
Proof. exact pratt_eq_grammar_oplayer. Qed.

(* the entry points: parse_test / parse_or_test / parse_argument's continue_infix(0) are OrTest, the operand of the
   prefix `not` is NotTest, parse_bitor_expr's power is BitOr - over the model's own parse_unary *)
Theorem C06_pratt_entry_points : forall c, table_ok c = true -> forall R ts,
  let P := parse_unary c R in
  parse_expr_top c P (c_test c) ts = g_or_test P ts /\
  parse_expr_top c P (c_ortest c) ts = g_or_test P ts /\
  parse_expr_top c P (c_arg c) ts = g_or_test P ts /\
  parse_expr_top c P (c_not_rbp c) ts = g_not_test P ts /\
  parse_expr_top c P (c_bitor c) ts = g_bitor P ts.
Proof. exact pratt_entry_points. Qed.

(* the right operand of an operator of level i is parsed as the nonterminal of level i+1 *)
Theorem C06_pratt_right_operand : forall c, table_ok c = true -> forall P, consuming P ->
  forall t op l r, lookup (c_tbl c) t = Some (op, l, r) ->
  forall ts, parse_expr_top c P r ts = G P (S (ref_level op)) ts.
Proof. exact pratt_right_operand. Qed.

(* the model's parse_unary is a consuming operand parser, so the hypotheses above are satisfiable *)
Theorem C06_parse_unary_consuming : forall c R, consuming (parse_unary c R).
Proof. exact parse_unary_consuming. Qed.

(* the one place where the faithful model and the specification's grammar differ (a finding on the implementation) *)
Theorem C06_bare_tuple_statement_refuted :
  exists ts e, Grammar.parse (fuel_for ts) ts = Ok (SExpr e) /\ run_model ts = Err 15.
Proof. exact bare_tuple_stmt_differs. Qed.

(* a non-trivial run: `not a == b or c * -d` groups as ((not (a == b)) or (c * (-d))) in model and grammar *)
Example C06_example_run :
  let ts := [TNot; TIdentifier 1; TEqualEqual; TIdentifier 2; TOr; TIdentifier 3; TStar; TMinus; TIdentifier 4]%N in
  run_model ts = Ok (SExpr (EOp (ENot (EOp (EId 1) Equal (EId 2))) Or (EOp (EId 3) Multiply (EMinus (EId 4)))))%N
  /\ run_grammar ts = run_model ts
  /\ run_model (run_print (SExpr (EOp (ENot (EOp (EId 1) Equal (EId 2))) Or (EOp (EId 3) Multiply (EMinus (EId 4))))))%N = run_model ts.
Proof. vm_compute. repeat split; reflexivity. Qed.
