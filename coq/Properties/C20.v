(* C20 property theorems: frozen modules are safe to share (the protocols, under ALL interleavings).
   Nothing but statements closed by `exact` and examples; the statements are pinned in coq/pins/C20.txt.
   PARTIAL: the theorems are about the interleaving model Conc/Model.v (reference counts of shared chunks / frozen
   heaps, the per-thread chunk cache, heaps moved between threads, racing once-initialisers, frozen reads);
   memory-model effects (orderings, torn reads, data races) are outside interleaving semantics. *)
From Coq Require Import List Arith NArith Bool PeanoNat.
From SV Require Import Conc.Model Conc.Proofs Conc.Cases.
Import ListNotations.

(* the invariant holds initially and every enabled step of every thread preserves it *)
Theorem C20_inv_init : forall init f p, Inv init (init_state f p).
Proof. exact inv_init. Qed.

Theorem C20_inv_step : forall init t o s s' ob, Inv init s -> step init t o s = Some (s', ob) -> Inv init s'.
Proof. exact step_inv. Qed.

(* for every schedule: the reference count of a chunk = the number of its holders across all threads, caches and
   channels *)
Theorem C20_rc_inv : forall init tr s s' obs, Inv init s -> run init tr s = Some (s', obs) ->
  forall c, rc s' c = count c (refs s').
Proof. exact rc_inv. Qed.

(* a chunk with a holder is live; a freed chunk has no holder; a read by a holder returns the stored contents *)
Theorem C20_no_use_after_free : forall init tr s s' obs, Inv init s -> run init tr s = Some (s', obs) ->
  (forall o c, In (o, c) (refs s') -> exists v, mem s' c = Some v) /\
  (forall c, mem s' c = None -> forall o, ~ In (o, c) (refs s')) /\
  (forall t c s'' ob, step init t (OReadChunk c) s' = Some (s'', ob) ->
     exists v, mem s' c = Some v /\ ob = [EvChunk c v] /\ s'' = s').
Proof. exact no_use_after_free. Qed.

Theorem C20_freed_only_without_holder : forall init s t o s' ob c, Inv init s -> step init t o s = Some (s', ob) ->
  mem s c <> None -> mem s' c = None -> forall o', ~ In (o', c) (refs s').
Proof. exact freed_without_holder. Qed.

Theorem C20_no_leak_at_quiescence : forall init tr s s' obs, Inv init s -> run init tr s = Some (s', obs) ->
  refs s' = [] -> forall c, mem s' c = None /\ rc s' c = 0.
Proof. exact no_leak_at_quiescence. Qed.

(* all observers of a once-cell see the same value, under every interleaving of racing initialisers *)
Theorem C20_once_single_value : forall init tr s s' obs t1 t2 x v1 v2, Inv init s ->
  run init tr s = Some (s', obs) ->
  In (t1, EvOnce x v1) obs -> In (t2, EvOnce x v2) obs -> v1 = v2 /\ v1 = init x.
Proof. exact once_single_value. Qed.

Theorem C20_once_stable : forall init t o s s' ob x v, step init t o s = Some (s', ob) ->
  once s x = Some v -> once s' x = Some v.
Proof. exact once_stable. Qed.

(* no step of any thread writes frozen memory *)
Theorem C20_frozen_never_written : forall init tr s s' obs, run init tr s = Some (s', obs) ->
  forall x, fro s' x = fro s x.
Proof. exact run_frozen_never_written. Qed.

(* a read of a frozen cell commutes with any step of any thread (same final state, same observations) ... *)
Theorem C20_frozen_reads_commute : forall init s t1 x t2 o2 s2 ob2, step init t2 o2 s = Some (s2, ob2) ->
  step init t1 (OReadFrozen x) s = Some (s, [EvFrozen x (fro s x)]) /\
  step init t1 (OReadFrozen x) s2 = Some (s2, [EvFrozen x (fro s x)]).
Proof. exact frozen_read_commutes. Qed.

(* ... and steps of different threads that read frozen cells or touch thread-private data commute *)
Theorem C20_private_steps_commute : forall init s t1 t2 o1 o2 s1 ob1 s12 ob2, t1 <> t2 ->
  private_op o1 = true -> private_op o2 = true ->
  step init t1 o1 s = Some (s1, ob1) -> step init t2 o2 s1 = Some (s12, ob2) ->
  exists s2 s21, step init t2 o2 s = Some (s2, ob2) /\ step init t1 o1 s2 = Some (s21, ob1) /\ state_eqv s12 s21.
Proof. exact private_steps_commute. Qed.

(* for every schedule and every thread t that does not receive heaps from other threads: the operations of t, run
   alone from the same initial state, are all enabled and give exactly t's observations in the concurrent run *)
Theorem C20_concurrent_eq_sequential : forall init tr s s' obs t, Inv init s -> local_ops t tr ->
  run init tr s = Some (s', obs) ->
  exists s'', run init (proj t tr) s = Some (s'', proj t obs).
Proof. exact concurrent_eq_sequential. Qed.

(* --- the atomicity of the reference-count decrement (`Drop for Chunk`: ONE fetch_sub) ------------------------- *)

(* the decrement split into load and store (Model.v: xstep), the two halves scheduled next to each other, IS the atomic
   drop - same enabledness, same final state, same observations, for every state ... *)
Theorem C20_split_decrement_adjacent_is_atomic : forall init t c s ld s' ob, ld t = None ->
  step init t (ODrop c) s = Some (s', ob) ->
  exists ld', xrun init [(t, XDecLoad c); (t, XDecStore)] (s, ld) = Some ((s', ld'), map (pair t) ob) /\ forall t', ld' t' = ld t'.
Proof. exact xdec_adjacent_is_drop. Qed.

Theorem C20_split_decrement_adjacent_enabled_iff : forall init t c s ld, ld t = None ->
  (step init t (ODrop c) s = None <-> xrun init [(t, XDecLoad c); (t, XDecStore)] (s, ld) = None).
Proof. exact xdec_adjacent_enabled_iff. Qed.

(* ... and the extended relation is conservative over the model (schedules of atomic steps run as in the model) *)
Theorem C20_atomic_steps_embed : forall init tr s s' obs ld, run init tr s = Some (s', obs) ->
  xrun init (map (fun p => (fst p, XAtomic (snd p))) tr) (s, ld) = Some ((s', ld), obs).
Proof. exact xrun_atomic. Qed.

(* --- the hypotheses are satisfiable on non-trivial states, and they are load-bearing ------------------------- *)

(* two threads share a chunk; it is created on thread 0, cloned, moved to thread 1, cached there, read by both,
   dropped on both sides: accepted, quiescent, 3 reads, all live, per-thread = solo *)
Example C20_ex_shared_then_dropped :
  check_trace [A 0 7; C 0 0 0; Sd 0 0 0; Rv 1 0 0; Rd 1 0 0; Rd 0 0 0; (1, OCacheStore (0, 0)); D 0 0 0;
               (1, OCacheFetch (0, 0)); Rd 1 0 0; D 1 0 0]
  = [1; 1; 3; 1; 1; 2; 0]%N.
Proof. vm_compute. reflexivity. Qed.

(* racing initialisers: both threads find the cell empty, both compute, the second to finish sees the first value *)
Example C20_ex_once_race :
  option_map snd (run init0 [Ob 0 4; Ob 1 4; Oe 1; Oe 0; Ob 1 4; Oe 1] s0)
  = Some [(1, EvOnce 4 13); (0, EvOnce 4 13); (1, EvOnce 4 13)].
Proof. vm_compute. reflexivity. Qed.

(* a drop without the matching holder (double drop) breaks the invariant: thread 1 still holds the chunk, yet the
   memory is freed and its next read returns poison *)
Example C20_ex_double_drop_breaks_invariant :
  exists s, run init0 [A 0 7; C 0 0 0; Sd 0 0 0; Rv 1 0 0; D 0 0 0] s0 = Some (s, []) /\
            Inv init0 s /\
            let s' := unguarded_drop (0, 0) s in
            In (Heap 1, (0, 0)) (refs s') /\ mem s' (0, 0) = None /\ rc s' (0, 0) <> count (0, 0) (refs s') /\
            option_map snd (step init0 1 (OReadChunk (0, 0)) s') = Some [EvChunk (0, 0) poison].
Proof.
  destruct (run init0 [A 0 7; C 0 0 0; Sd 0 0 0; Rv 1 0 0; D 0 0 0] s0) as [[s obs]|] eqn:E; [|vm_compute in E; discriminate].
  assert (I : Inv init0 s) by (eapply run_inv; [apply inv_init|exact E]).
  vm_compute in E. inversion E; subst. eexists. split; [reflexivity|]. split; [exact I|].
  vm_compute. repeat split; auto. discriminate.
Qed.

(* the guard is what excludes it: the same drop as a model step is not enabled *)
Example C20_ex_double_drop_not_enabled :
  run init0 [A 0 7; C 0 0 0; Sd 0 0 0; Rv 1 0 0; D 0 0 0; D 0 0 0] s0 = None.
Proof. vm_compute. reflexivity. Qed.

(* the ATOMICITY of the decrement is load-bearing.  Thread 0 built a heap in chunk (0,0), keeps the remainder of the
   chunk (its second reference: the per-thread chunk cache) and sent the heap to thread 1: count = 2 = holders, Inv.
   Thread 1 drops the heap NON-atomically (load 2 ... store 1) and thread 0 carves its next heap out of the remainder
   (`OClone` = fetch_add, 2 -> 3) between the two halves: the increment is lost, count = 1 with 2 holders; the next
   (atomic!) drop by thread 0 frees the chunk under its other live reference, whose next read returns poison. *)
Example C20_ex_split_decrement_interleaved_breaks_invariant :
  exists s1, run init0 [A 0 7; C 0 0 0; Sd 0 0 0; Rv 1 0 0] s0 = Some (s1, []) /\ Inv init0 s1 /\
  exists s2 ld, xrun init0 [(1, XDecLoad (0, 0)); (0, XAtomic (OClone (0, 0))); (1, XDecStore)] (s1, no_loads) = Some ((s2, ld), []) /\
    count (0, 0) (refs s2) = 2 /\ rc s2 (0, 0) = 1 /\ mem s2 (0, 0) = Some 7 /\
    exists s3, step init0 0 (ODrop (0, 0)) s2 = Some (s3, []) /\
      In (Heap 0, (0, 0)) (refs s3) /\ mem s3 (0, 0) = None /\
      option_map snd (step init0 0 (OReadChunk (0, 0)) s3) = Some [EvChunk (0, 0) poison].
Proof.
  destruct (run init0 [A 0 7; C 0 0 0; Sd 0 0 0; Rv 1 0 0] s0) as [[s1 obs]|] eqn:E; [|vm_compute in E; discriminate].
  assert (I : Inv init0 s1) by (eapply run_inv; [apply inv_init|exact E]).
  vm_compute in E. inversion E; subst. eexists. split; [reflexivity|]. split; [exact I|].
  eexists. eexists. split; [vm_compute; reflexivity|].
  split; [vm_compute; reflexivity|]. split; [vm_compute; reflexivity|]. split; [vm_compute; reflexivity|].
  eexists. split; [vm_compute; reflexivity|].
  split; [vm_compute; auto|]. split; vm_compute; reflexivity.
Qed.

(* the same three steps with the two halves adjacent (the clone before or after them): count = holders = 2, chunk live *)
Example C20_ex_split_decrement_adjacent_keeps_invariant :
  forall s1, run init0 [A 0 7; C 0 0 0; Sd 0 0 0; Rv 1 0 0] s0 = Some (s1, []) ->
  (exists s2 ld, xrun init0 [(0, XAtomic (OClone (0, 0))); (1, XDecLoad (0, 0)); (1, XDecStore)] (s1, no_loads) = Some ((s2, ld), []) /\
     count (0, 0) (refs s2) = 2 /\ rc s2 (0, 0) = 2 /\ mem s2 (0, 0) = Some 7) /\
  (exists s2 ld, xrun init0 [(1, XDecLoad (0, 0)); (1, XDecStore); (0, XAtomic (OClone (0, 0)))] (s1, no_loads) = Some ((s2, ld), []) /\
     count (0, 0) (refs s2) = 2 /\ rc s2 (0, 0) = 2 /\ mem s2 (0, 0) = Some 7).
Proof.
  intros s1 E. vm_compute in E. inversion E; subst.
  split; eexists; eexists; (split; [vm_compute; reflexivity|]); repeat split; vm_compute; reflexivity.
Qed.

(* --- once-cells inside frozen values: WHEN a lazily filled cell is unobservable ------------------------------- *)

(* `trun initT` = the model with a per-thread initialiser (thread t computes the candidate `initT t x`).  If the
   candidate does not depend on the initialising thread, lazily filling the cell is unobservable: for every schedule the
   operations of thread t run alone give exactly t's observations in the concurrent run ... *)
Theorem C20_once_thread_independent_unobservable : forall initT tr s s' obs t, thread_independent initT ->
  Inv (initT t) s -> local_ops t tr ->
  trun initT tr s = Some (s', obs) ->
  exists s'', trun initT (proj t tr) s = Some (s'', proj t obs).
Proof. exact once_thread_independent_unobservable. Qed.

(* ... and that condition is exactly what is needed: whenever two threads would compute different candidates for a cell
   that is still empty (a frozen enum/record type named after the variable of whichever loading thread binds it first),
   there is a schedule in which a thread's observations differ from those of its own operations run alone *)
Theorem C20_once_thread_dependent_observable : forall initT t1 t2 x s, once s x = None -> initT t1 x <> initT t2 x ->
  exists s' s'',
    trun initT [(t1, OOnceBegin x); (t1, OOnceEnd); (t2, OOnceBegin x); (t2, OOnceEnd)] s
      = Some (s', [(t1, EvOnce x (initT t1 x)); (t2, EvOnce x (initT t1 x))]) /\
    trun initT (proj t2 [(t1, OOnceBegin x); (t1, OOnceEnd); (t2, OOnceBegin x); (t2, OOnceEnd)]) s
      = Some (s'', [(t2, EvOnce x (initT t2 x))]) /\
    proj t2 [(t1, EvOnce x (initT t1 x)); (t2, EvOnce x (initT t1 x))] <> [(t2, EvOnce x (initT t2 x))].
Proof. exact once_thread_dependent_observable. Qed.

(* two binders: thread t names the cell 100 + t.  Thread 1 binds first: thread 0 reads 101 where alone it reads 100 *)
Example C20_ex_first_binder_wins :
  option_map snd (trun (fun t _ => 100 + t) [Ob 1 4; Oe 1; Ob 0 4; Oe 0] s0) = Some [(1, EvOnce 4 101); (0, EvOnce 4 101)] /\
  option_map snd (trun (fun t _ => 100 + t) (proj 0 [Ob 1 4; Oe 1; Ob 0 4; Oe 0]) s0) = Some [(0, EvOnce 4 100)].
Proof. split; vm_compute; reflexivity. Qed.
