(* C18  Profilers, statement hooks and the debugger observe without interfering. *)
From Coq Require Import ZArith List Bool Arith.
From SV Require Import Debug.Model Debug.Proofs Debug.Cases.
Import ListNotations.
Open Scope nat_scope.

(* Any observer of statement starts - whatever its state and step function - leaves the transcript and the completion
   (done / failed at line / out of fuel) exactly those of the uninstrumented run. *)
Theorem C18_observer_noninterference : forall (H : Type) (hook : H -> event -> H) (h0 : H) (fuel : nat) (p : program),
  outcome_of (exec_hooked hook h0 fuel p) = outcome_of (exec fuel p).
Proof. exact observer_noninterference. Qed.

(* Erasing the instrumentation (events, depth, observer state) gives back the plain semantics. *)
Theorem C18_erase_instrumentation : forall (H : Type) (hook : H -> event -> H) (h0 : H) (fuel : nat) (p : program),
  outcome_of (exec_hooked hook h0 fuel p) = run_plain fuel p.
Proof. exact erase_instrumentation. Qed.

(* Every observer is fed exactly the program's trace, event by event, in order: its final state is the fold of its step
   function over the trace (the trace does not depend on who observes). *)
Theorem C18_observer_sees_trace : forall (H : Type) (hook : H -> event -> H) (h0 : H) (fuel : nat) (p : program),
  hstate_of (exec_hooked hook h0 fuel p) = fold_left hook (trace fuel p) h0.
Proof. exact hooked_fold. Qed.

(* A statement profiler's counter for line l = the number of start events of l in the trace. *)
Theorem C18_profile_counts_trace : forall (l fuel : nat) (p : program),
  hstate_of (exec_hooked (count_hook l) 0 fuel p)
  = length (filter (fun ev => Nat.eqb (ev_line ev) l) (trace fuel p)).
Proof. exact profile_counts_trace. Qed.

(* The trace is the list of executed statement instances of the big-step derivation of the PLAIN semantics:
   each rule application for a statement contributes exactly one start event (line, depth), placed before the events of
   its sub-derivations, in execution order; callee events are one level deeper. *)
Theorem C18_trace_once_per_execution : forall (fuel : nat) (p : program),
  snd (run_plain fuel p) <> OutOfFuel ->
  exists r, BExec (funs p) 0 (main p) [] [] r (trace fuel p) /\
            run_plain fuel p = (rev (state_of r), completion_of r).
Proof. exact trace_once_per_execution. Qed.

(* every event of a block run at depth d has depth >= d: callee events are strictly deeper than the calling statement *)
Theorem C18_trace_depth : forall fs d ss en p r tr,
  BExec fs d ss en p r tr -> Forall (fun ev => d <= ev_depth ev) tr.
Proof. exact bexec_depth. Qed.

(* The adapter attached to the interpreter as an observer stops exactly where its decision function says on the trace. *)
Theorem C18_debugger_is_observer : forall (B : list nat) (pol : policy) (fuel : nat) (p : program),
  dbg_stops (hstate_of (exec_hooked (dbg_hook B pol) dbg_init fuel p)) = stops B pol (trace fuel p).
Proof. exact dbg_observer_stops. Qed.

(* Breakpoints, continuing: the stops are exactly the start events of the breakpoint lines ... *)
Theorem C18_breakpoint_stops : forall (B : list nat) (tr : list event),
  stops B (always Continue) tr = filter (fun ev => mem (ev_line ev) B) tr.
Proof. exact breakpoint_stops. Qed.

(* ... hence exactly once per execution of that statement. *)
Theorem C18_breakpoint_once_per_execution : forall (B : list nat) (l : nat) (tr : list event), mem l B = true ->
  length (filter (fun ev => Nat.eqb (ev_line ev) l) (stops B (always Continue) tr))
  = length (filter (fun ev => Nat.eqb (ev_line ev) l) tr).
Proof. exact breakpoint_stops_once_per_execution. Qed.

(* Step Into after every stop: from the first breakpoint hit on, every statement start is a stop. *)
Theorem C18_step_into_covers_trace : forall (B : list nat) (tr : list event),
  stops B (always (Step Into)) tr = drop_until (fun ev => mem (ev_line ev) B) tr.
Proof. exact step_into_covers_trace. Qed.

(* Step Over with saved depth: events deeper than saved (callees) without breakpoint are skipped; the next stop is the
   first event at depth <= saved.  (Events exist only at statement starts - the caveat of the code comment.) *)
Theorem C18_step_over_skips_callees : forall (B : list nat) (pol : policy) (saved n : nat) (mid : list event) (ev : event) (rest : list event),
  Forall (fun e => mem (ev_line e) B = false /\ saved < ev_depth e) mid ->
  ev_depth ev <= saved ->
  run_dbg B pol (Some (Over, saved)) n (mid ++ ev :: rest)
  = ev :: run_dbg B pol (after_cmd (pol n ev) ev) (S n) rest.
Proof. exact step_over_skips_callees. Qed.

(* Step Out: the next stop is the first event at depth < saved (or a breakpoint). *)
Theorem C18_step_out_returns : forall (B : list nat) (pol : policy) (saved n : nat) (mid : list event) (ev : event) (rest : list event),
  Forall (fun e => mem (ev_line e) B = false /\ saved <= ev_depth e) mid ->
  ev_depth ev < saved ->
  run_dbg B pol (Some (Out, saved)) n (mid ++ ev :: rest)
  = ev :: run_dbg B pol (after_cmd (pol n ev) ev) (S n) rest.
Proof. exact step_out_returns. Qed.

(* ---- mixed command scripts (Continue / Into / Over / Out in any order).  Semantics of the decision function:
   every stop - whatever caused it - consumes the pending step request; the step state after the stop is the one installed by
   the command given at that stop (Continue: none). *)
Theorem C18_stop_clears_step : forall (B : list nat) (pol : policy) (s : step_state) (n : nat) (acc : list event) (ev : event),
  should_stop B s ev = true ->
  dbg_hook B pol (s, n, acc) ev = (after_cmd (pol n ev) ev, S n, ev :: acc).
Proof. exact stop_clears_step. Qed.

Theorem C18_continue_clears_step : forall (B : list nat) (pol : policy) (s : step_state) (n : nat) (acc : list event) (ev : event),
  should_stop B s ev = true -> pol n ev = Continue ->
  dbg_hook B pol (s, n, acc) ev = (None, S n, ev :: acc).
Proof. exact continue_clears_step. Qed.

(* the future after a stop does not depend on the step request that was outstanding when the stop happened *)
Theorem C18_stop_forgets_pending_step : forall (B : list nat) (pol : policy) (s s' : step_state) (n : nat) (ev : event) (rest : list event),
  should_stop B s ev = true -> should_stop B s' ev = true ->
  run_dbg B pol s n (ev :: rest) = run_dbg B pol s' n (ev :: rest).
Proof. exact stop_forgets_pending_step. Qed.

(* Continue at any stop and afterwards: only breakpoint lines stop the program from then on, once per start event *)
Theorem C18_continue_runs_to_breakpoints : forall (B : list nat) (pol : policy) (s : step_state) (n : nat) (ev : event) (rest : list event),
  should_stop B s ev = true ->
  (forall m e, n <= m -> pol m e = Continue) ->
  run_dbg B pol s n (ev :: rest) = ev :: filter (fun e => mem (ev_line e) B) rest.
Proof. exact continue_runs_to_breakpoints. Qed.

(* ---- the hypotheses are satisfiable on a program with a loop and a call *)
Example C18_example_trace : trace 50 ex_prog = ex_trace.
Proof. vm_compute. reflexivity. Qed.

Example C18_example_outcome :
  outcome_of (exec 50 ex_prog) = ([4; 8; 1; 2; 2; 4; 3; 424242]%Z, Done)
  /\ run_plain 50 ex_prog = outcome_of (exec 50 ex_prog).
Proof. vm_compute. split; reflexivity. Qed.

(* breakpoints on the marker in f (line 3) and in the loop (line 10): 3 + 2 stops, once per execution *)
Example C18_example_breakpoints :
  stops [3; 10] (always Continue) ex_trace = [(3,1); (3,1); (10,0); (3,1); (10,0)].
Proof. vm_compute. reflexivity. Qed.

(* stop at `y = f(x)` (line 6), step over: the callee's lines 2-4 are skipped, next stop is line 7 *)
Example C18_example_step_over :
  stops [6] (script [Step Over; Continue]) ex_trace = [(6,0); (7,0)].
Proof. vm_compute. reflexivity. Qed.

(* stop inside f (line 3), step out: next stop is the caller's next statement; with the breakpoint still set, it is hit again *)
Example C18_example_step_out :
  stops [3] (script [Step Out; Continue]) ex_trace = [(3,1); (7,0); (3,1); (3,1)].
Proof. vm_compute. reflexivity. Qed.

Example C18_example_step_into :
  stops [6] (always (Step Into)) ex_trace = skipn 2 ex_trace.
Proof. vm_compute. reflexivity. Qed.

(* the debugger attached to the run: same outcome, stops as computed from the trace *)
Example C18_example_debugger_attached :
  outcome_of (exec_hooked (dbg_hook [3; 10] (always Continue)) dbg_init 50 ex_prog) = outcome_of (exec 50 ex_prog)
  /\ dbg_stops (hstate_of (exec_hooked (dbg_hook [3; 10] (always Continue)) dbg_init 50 ex_prog))
     = [(3,1); (3,1); (10,0); (3,1); (10,0)].
Proof. vm_compute. split; reflexivity. Qed.

(* mixed script: stop at `b = g()` (line 5), step Over; the breakpoint inside the callee (line 2) stops the program while
   the Over request is outstanding; Continue there: no further stop (line 6 has no breakpoint) *)
Example C18_example_mixed_script :
  stops [5; 2] (script [Step Over; Continue]) ex_nested_trace = [(5,1); (2,2)]
  /\ stops [5; 2] (script [Step Over; Step Over; Continue]) ex_nested_trace = [(5,1); (2,2); (3,2)]
  /\ stops [5; 2] (script [Step Out; Continue]) ex_nested_trace = [(5,1); (2,2)]
  /\ stops [5] (script [Step Over; Continue]) ex_nested_trace = [(5,1); (6,1)].
Proof. vm_compute. repeat split; reflexivity. Qed.
