(* C07 Evaluation is total and recoverable: a value or a located error, never a crash.
   Part A: the evaluator's bookkeeping model (EvalState/Model.v); Part B: MiniStar (Core/Sem.v). *)
From Coq Require Import ZArith List Bool String.
From SV Require Import EvalState.Model EvalState.Proofs EvalState.Cases EvalState.Lines.
From SV Require Import Core.Syntax Core.Values Core.Sem.
Import ListNotations.

(* ---- Part A ---------------------------------------------------------------------------------------------- *)
Theorem C07_bracket_restores : forall mx tree st,
  let (r, st') := run mx tree st in
  count st' = count st /\ frames st' = frames st /\ current_frame st' = current_frame st /\ guards st' = guards st.
Proof. exact bracket_restores. Qed.

(* the stronger form: also the alloca pointer, the module def-info, the capacity and every live call-stack slot *)
Theorem C07_bracket_restores_all : forall mx tree st, restores st (snd (run mx tree st)).
Proof. exact run_restores. Qed.

Theorem C07_probe_independent : forall mx failing probe st,
  let st' := snd (run mx failing st) in
  fst (run mx probe st') = fst (run mx probe st) /\ equiv (snd (run mx probe st')) (snd (run mx probe st)).
Proof. exact probe_independent. Qed.

Theorem C07_history_recovers : forall mx cap hist info probe, (0 < cap)%nat ->
  exists s', run_history mx hist (idle cap) = Some s' /\ count s' = 0%nat /\ frames s' = [] /\
             guards s' = guards (idle cap) /\
             option_map fst (enter_module mx info probe s') = option_map fst (enter_module mx info probe (idle cap)).
Proof. exact history_recovers. Qed.

Theorem C07_outcome_ignores_stale_slots : forall mx t s1 s2, equiv s1 s2 ->
  fst (run mx t s1) = fst (run mx t s2) /\ equiv (snd (run mx t s1)) (snd (run mx t s2)).
Proof. exact run_equiv. Qed.

Theorem C07_error_has_span : forall mx t, covered t = true -> forall s, has_span (fst (run mx t s)).
Proof. exact covered_has_span. Qed.

Theorem C07_call_error_stack : forall mx f sp isp tag fp w s, (count s < List.length (slots s))%nat ->
  fst (run mx (Instr sp (Call f (Some sp) (Frame fp w (Instr isp (Leaf false tag))))) s) =
  RErr {| kind := EUser tag; espan := Some isp;
          estack := skipn 1 (live s ++ [{| fn_id := f; call_span := Some sp |}]) |}.
Proof. exact call_error_stack. Qed.

(* ---- Part B ---------------------------------------------------------------------------------------------- *)
Theorem C07_builtin_total : forall b args kwargs s, call_builtin b args kwargs s <> OutOfFuel.
Proof. exact builtin_total. Qed.

Theorem C07_method_total : forall recv m args s, call_method recv m args s <> OutOfFuel.
Proof. exact method_total. Qed.

Theorem C07_len_accepts_iff : forall args s,
  (exists v s', call_builtin "len" args [] s = Ok v s') <-> exists a, args = [a] /\ measurable s a.
Proof. exact len_accepts_iff. Qed.

Theorem C07_len_arity_iff : forall args s,
  (exists s', call_builtin "len" args [] s = Fail Arity None s') <-> List.length args <> 1%nat.
Proof. exact len_arity_iff. Qed.

Theorem C07_range_accepts_iff : forall args s,
  (exists v s', call_builtin "range" args [] s = Ok v s') <->
  (exists n, args = [VInt n]) \/ (exists a n, args = [VInt a; VInt n]) \/
  (exists a n st, args = [VInt a; VInt n; VInt st] /\ st <> 0%Z).
Proof. exact range_accepts_iff. Qed.

Theorem C07_list_pop_accepts_iff : forall l xs c args s, nth_error (lists s) l = Some (xs, c) ->
  ((exists v s', call_method (VList l) "pop" args s = Ok v s') <->
   c = O /\ ((args = [] /\ xs <> []) \/
             (exists i, args = [VInt i] /\ (- Z.of_nat (List.length xs) <= i < Z.of_nat (List.length xs))%Z))).
Proof. exact list_pop_accepts_iff. Qed.

(* FULL: a failing program fails at the line of a statement that occurs in its text, at any nesting depth (branches, loop
   bodies, bodies of the functions it defines).  `occurs` and `lines_of_stmts` are defined in EvalState/Lines.v; the proof
   carries the closure-store invariant (every closure body in the store consists of statements of the program) through
   eval / call / exec by induction on the fuel. *)
Theorem C07_error_has_line : forall fuel prog tr e l,
  run_program fuel prog = (tr, Failed e l) ->
  exists st, occurs st prog /\ l = Some (stmt_line st).
Proof. exact run_program_error_has_line. Qed.

Theorem C07_error_line_in_text : forall fuel prog tr e l,
  run_program fuel prog = (tr, Failed e l) -> exists k, l = Some k /\ In k (lines_of_stmts prog).
Proof. exact run_program_error_line_in. Qed.

(* the two descriptions of "a line of the text" agree *)
Theorem C07_lines_are_statement_lines : forall ss l,
  In l (lines_of_stmts ss) <-> exists st, occurs st ss /\ stmt_line st = l.
Proof.
  intros ss l. split; [apply lines_of_stmts_occurs|]. intros (st & O & <-). apply occurs_lines_of_stmts. exact O.
Qed.

(* the invariant itself, for one statement run from any store whose closures all come from the text P *)
Theorem C07_exec_error_line_in : forall (P : Z -> Prop) n en st s e l s',
  clos_ok P s -> stmt_lines_in P st -> exec n en st s = Fail e l s' -> exists k, l = Some k /\ P k.
Proof. exact exec_error_line_in. Qed.

(* weaker earlier forms, kept *)
Theorem C07_error_has_line_partial : forall fuel prog tr e l,
  run_program fuel prog = (tr, Failed e l) -> exists ln, l = Some ln.
Proof. exact run_program_error_has_line_partial. Qed.

Theorem C07_exec_error_has_line_partial : forall n en st s e l s',
  exec n en st s = Fail e l s' -> exists ln, l = Some ln.
Proof. exact exec_error_has_line_partial. Qed.

Theorem C07_expr_stmt_own_line : forall n en ln ex s e s1,
  eval n en ex s = Fail e None s1 -> exec (S n) en (SExpr ln ex) s = Fail e (Some ln) s1.
Proof. exact exec_expr_stmt_own_line. Qed.

(* ---- the hypotheses are satisfiable on non-trivial states ------------------------------------------------ *)
(* a failure three calls deep, under a stack guard and a repr guard: span of the failing instruction, the chain of
   the three calls, and an idle evaluator afterwards *)
Example C07_ex_nested_failure :
  case_result (Frame 0 4 (Seq (Instr 50 (Leaf true 0))
     (Instr 100 (Call 1 (Some 100) (Frame 1 4
       (Instr 101 (Call 2 (Some 101) (Frame 2 4
         (StackGuard (PtrGuard GRepr 77 (Instr 102 (Call 3 (Some 102) (Frame 3 4 (Instr 900 (Leaf false 7))))) (Leaf true 0)))))))))))
  = (1, 900, [1; 2; 3], 0%N, 1)%Z.
Proof. vm_compute. reflexivity. Qed.

(* the call stack has 50 entries: 48 nested calls below the module frame still fit... *)
Example C07_ex_depth_49_ok : nest_result 49 = (0, 0, [], 0%N, 1)%Z.
Proof. vm_compute. reflexivity. Qed.
(* ...the 50th overflows: the error is located at the call instruction and the evaluator is idle again *)
Example C07_ex_depth_50_overflow : fst (fst (fst (fst (nest_result 50)))) = 1%Z /\ snd (nest_result 50) = 1%Z.
Proof. vm_compute. split; reflexivity. Qed.

(* MiniStar: a builtin rejected for its argument, located at its statement *)
Example C07_ex_len_int_located :
  run_program 10 [SExpr 3 (ECall (EVar "len") [EInt 5] [] None None)] = ([], Failed TypeErr (Some 3%Z)).
Proof. vm_compute. reflexivity. Qed.

Example C07_ex_pop_locked : forall s, nth_error (lists s) 0 = Some ([VInt 1], 1%nat) ->
  ~ exists v s', call_method (VList 0) "pop" [] s = Ok v s'.
Proof. intros s E H. apply (list_pop_accepts_iff 0 [VInt 1] 1 [] s E) in H. destruct H as [C _]. discriminate. Qed.

(* MiniStar: a failure inside a function defined by the program is located at the line of the statement of the body *)
Example C07_ex_failure_in_def_body :
  run_program 20 [SDef 1 "f" [PNormal "x" None] [SReturn 2 (Some (EBin BFloorDiv (EInt 1) (EVar "x")))];
                  SExpr 3 (ECall (EVar "f") [EInt 0] [] None None)] = ([], Failed ZeroDiv (Some 2%Z)).
Proof. vm_compute. reflexivity. Qed.
