(* C15 property theorems: call-depth, tick and cancellation limits end evaluation with an error, exactly.
   Nothing but statements closed by `exact`, and satisfiability / boundary examples.  The statements are pinned
   in coq/pins/C15.txt.  `cancelled` (the host's is_cancelled callback, indexed by invocation) and the
   configuration `c` (check period, call-stack size, tick budget) are universally quantified; the real evaluator's
   configuration is `real_cfg D L` built from the constants extracted from the sources. *)
From Coq Require Import Arith List Bool.
From SV Require Import Extracted.LimitsC Limits.Model Limits.Proofs.
Import ListNotations.
Open Scope nat_scope.

(* the comparison operators and constants of the code are the ones the proofs are about *)
Theorem C15_extracted_shape :
  tick_limit_strict = true /\ progress_shape = true /\ push_ge = true /\
  0 < tick_period_nat /\ 0 < default_stack_nat.
Proof. exact extracted_shape. Qed.

(* the two-field representation never loses a tick: after n ticks -- whether or not checks ran, and whether or
   not they failed -- get_total_tick_count has advanced by exactly n *)
Theorem C15_tick_total : forall cancelled c n k, pos (ticks_regardless cancelled c n k) = pos k + n.
Proof. exact ticks_regardless_pos. Qed.

(* over budget: the evaluation of a fresh evaluator ends with the tick-limit error, reported at a tick count t
   with L < t <= L + period, t a multiple of the period unless the end-of-evaluation check raised it *)
Theorem C15_tick_limit_bound : forall cancelled c, 0 < period c -> 0 < size c ->
  forall l, limit c = Some l -> (forall j, cancelled j = false) ->
  forall p, max_depth p < size c -> l < ticks p ->
    let r := eval_module cancelled c p st0 in
    fst r = Err (TickLimit l) /\ depth (snd r) = 0 /\
    l < spos (snd r) <= l + period c /\ spos (snd r) <= ticks p /\
    (spos (snd r) = ticks p \/ Nat.divide (period c) (spos (snd r))).
Proof. exact tick_limit_bound. Qed.

(* ... and exactly there: the first multiple of the period above the budget, or the end of the program if earlier *)
Theorem C15_tick_limit_position : forall cancelled c, 0 < period c -> 0 < size c ->
  forall l, limit c = Some l -> (forall j, cancelled j = false) ->
  forall p, max_depth p < size c -> l < ticks p ->
    spos (snd (eval_module cancelled c p st0)) = Nat.min (ticks p) (period c * (l / period c + 1)).
Proof. exact tick_limit_position. Qed.

(* within budget (also on a re-used evaluator whose last check passed): unaffected *)
Theorem C15_tick_limit_unaffected : forall cancelled c, 0 < period c -> 0 < size c ->
  forall l, limit c = Some l -> (forall j, cancelled j = false) ->
  forall p s, depth s = 0 -> max_depth p < size c -> counter (tks s) < period c -> spos s + ticks p <= l ->
    fst (eval_module cancelled c p s) = Ok /\ depth (snd (eval_module cancelled c p s)) = 0 /\
    spos (snd (eval_module cancelled c p s)) = spos s + ticks p /\
    trace (snd (eval_module cancelled c p s)) = trace s ++ emits p /\
    counter (tks (snd (eval_module cancelled c p s))) < period c.
Proof. exact tick_limit_unaffected. Qed.

(* the budget belongs to the evaluator: once exceeded, every later evaluation on it fails the same way *)
Theorem C15_tick_limit_sticky : forall cancelled c, 0 < period c -> 0 < size c ->
  forall l, limit c = Some l -> (forall j, cancelled j = false) ->
  forall q s, depth s = 0 -> l < spos s -> fst (eval_module cancelled c q s) = Err (TickLimit l).
Proof. exact tick_limit_sticky. Qed.

(* depth: a call stack of `size` frames holds the hidden module frame plus size - 1 frames of the program *)
Theorem C15_depth_exact : forall cancelled c, 0 < period c -> 0 < size c ->
  limit c = None -> (forall j, cancelled j = false) ->
  forall p s, depth s = 0 ->
    (max_depth p < size c ->
       fst (eval_module cancelled c p s) = Ok /\ depth (snd (eval_module cancelled c p s)) = 0 /\
       spos (snd (eval_module cancelled c p s)) = spos s + ticks p /\
       trace (snd (eval_module cancelled c p s)) = trace s ++ emits p) /\
    (size c <= max_depth p ->
       fst (eval_module cancelled c p s) = Err StackOverflow /\ depth (snd (eval_module cancelled c p s)) = 0).
Proof. exact depth_exact. Qed.

(* cancellation requested between the (k0-1)-th and the k0-th invocation of the callback: honoured at the k0-th
   check, i.e. at tick (k0+1)*period, or by the end-of-evaluation check; never seen if the program ends earlier *)
Theorem C15_cancel_within_period : forall cancelled c, 0 < period c -> 0 < size c ->
  forall k0, limit c = None ->
  (forall j, j < k0 -> cancelled j = false) -> (forall j, k0 <= j -> cancelled j = true) ->
  forall p, max_depth p < size c ->
    let r := eval_module cancelled c p st0 in
    (k0 <= ticks p / period c ->
       fst r = Err Cancelled /\ depth (snd r) = 0 /\ spos (snd r) = Nat.min (ticks p) ((k0 + 1) * period c)
       /\ k0 * period c <= spos (snd r) <= (k0 + 1) * period c) /\
    (ticks p / period c < k0 ->
       fst r = Ok /\ depth (snd r) = 0 /\ spos (snd r) = ticks p /\ trace (snd r) = emits p).
Proof. exact cancel_within_period. Qed.

(* after ANY outcome, for any oracle and configuration: the call stack is empty again and the tick total has
   advanced by what was executed (all of ticks p when the evaluation completed) *)
Theorem C15_reusable_after_limit : forall cancelled c p s, depth s = 0 ->
  depth (snd (eval_module cancelled c p s)) = 0 /\
  spos s <= spos (snd (eval_module cancelled c p s)) <= spos s + ticks p /\
  (fst (eval_module cancelled c p s) = Ok ->
     spos (snd (eval_module cancelled c p s)) = spos s + ticks p /\
     trace (snd (eval_module cancelled c p s)) = trace s ++ emits p).
Proof. exact reusable_after_limit. Qed.

(* ---------------------------------------------------------------------------------------------- *)
(* Boundary examples on the real configuration (period and default size as extracted).             *)

Fixpoint nest (d : nat) : prog := match d with 0 => Skip | S m => Frame true (nest m) end.

(* the real configuration satisfies the side conditions (set_max_callstack_size rejects 0) *)
Example C15_real_cfg_ok : forall D L, D <> Some 0 -> 0 < period (real_cfg D L) /\ 0 < size (real_cfg D L).
Proof.
  intros D L H. destruct C15_extracted_shape as (_ & _ & _ & P & S). split; [exact P|].
  destruct D as [[|d]|]; simpl; [congruence|apply Nat.lt_0_succ|exact S].
Qed.

(* off-by-one of the hidden module frame: max_callstack_size = 10 admits 9 nested calls, not 10 *)
Example C15_depth_boundary :
  max_depth (nest 9) = 9 /\
  fst (eval_module never (real_cfg (Some 10) None) (nest 9) st0) = Ok /\
  fst (eval_module never (real_cfg (Some 10) None) (nest 10) st0) = Err StackOverflow /\
  fst (eval_module never (real_cfg (Some 9) None) (nest 9) st0) = Err StackOverflow /\
  spos (snd (eval_module never (real_cfg (Some 10) None) (nest 10) st0)) = 10.
Proof. vm_compute. repeat split. Qed.

Example C15_tick_boundary :
  let p := Loop 3003 Skip in
  ticks p = 3003 /\
  fst (eval_module never (real_cfg None (Some 3003)) p st0) = Ok /\
  fst (eval_module never (real_cfg None (Some 3002)) p st0) = Err (TickLimit 3002) /\
  spos (snd (eval_module never (real_cfg None (Some 3002)) p st0)) = 3003 /\
  spos (snd (eval_module never (real_cfg None (Some 3000)) p st0)) = 3003 /\
  spos (snd (eval_module never (real_cfg None (Some 2999)) p st0)) = 3000.
Proof. vm_compute. repeat split. Qed.

Example C15_cancel_boundary :
  let p := Loop 2500 (Frame true Skip) in
  ticks p = 5000 /\
  (let r := eval_module (from_check 2) (real_cfg None None) p st0 in fst r = Err Cancelled /\ spos (snd r) = 3000) /\
  (let r := eval_module (from_check 5) (real_cfg None None) p st0 in fst r = Err Cancelled /\ spos (snd r) = 5000) /\
  (let r := eval_module (from_check 6) (real_cfg None None) p st0 in fst r = Ok /\ spos (snd r) = 5000).
Proof. vm_compute. repeat split. Qed.

(* a failed check leaves the counter un-reset, so a re-used evaluator checks again on its next tick *)
Example C15_reuse_after_cancel :
  let c := real_cfg None None in
  let s1 := snd (eval_module (fun j => j =? 0) c (Loop 1500 Skip) st0) in
  spos s1 = 1000 /\ depth s1 = 0 /\
  fst (eval_module (fun j => j =? 0) c (Loop 5 Skip) s1) = Ok /\
  spos (snd (eval_module (fun j => j =? 0) c (Loop 5 Skip) s1)) = 1005.
Proof. vm_compute. repeat split. Qed.

(* ---- a lazily allocated frame array must still enforce the configured maximum exactly (Limits/LazyStack.v) ---- *)
From SV Require Limits.LazyStack.

Theorem C15_lazy_stack_exact : forall (max : nat) (grow : nat -> nat),
  (forall a, a < max -> a < grow a <= max) ->
  forall init ops, SV.Limits.LazyStack.Inv max init ->
  let s := List.fold_left (SV.Limits.LazyStack.step max grow) ops init in
  SV.Limits.LazyStack.Inv max s /\
  (SV.Limits.LazyStack.push max grow s = None <-> SV.Limits.LazyStack.count s = max).
Proof. exact SV.Limits.LazyStack.lazy_stack_exact. Qed.

Theorem C15_lazy_stack_unclamped_refuted :
  let s := List.fold_left (SV.Limits.LazyStack.step 60 SV.Limits.LazyStack.grow_unclamped)
             (List.repeat SV.Limits.LazyStack.Push 60) {| SV.Limits.LazyStack.alloc := 50; SV.Limits.LazyStack.count := 0 |} in
  SV.Limits.LazyStack.count s = 60 /\ SV.Limits.LazyStack.push 60 SV.Limits.LazyStack.grow_unclamped s <> None.
Proof. exact SV.Limits.LazyStack.lazy_stack_unclamped_refuted. Qed.

Example C15_lazy_stack_nonvacuous :
  SV.Limits.LazyStack.Inv 60 {| SV.Limits.LazyStack.alloc := 50; SV.Limits.LazyStack.count := 0 |} /\
  SV.Limits.LazyStack.push 60 (SV.Limits.LazyStack.grow_clamped 60)
    (List.fold_left (SV.Limits.LazyStack.step 60 (SV.Limits.LazyStack.grow_clamped 60))
       (List.repeat SV.Limits.LazyStack.Push 60) {| SV.Limits.LazyStack.alloc := 50; SV.Limits.LazyStack.count := 0 |}) = None.
Proof. exact SV.Limits.LazyStack.lazy_stack_nonvacuous. Qed.
