(* C16 property theorems.  Nothing but statements closed by `exact`, satisfiability examples and
   Print Assumptions; the statements are pinned in coq/pins/C16.txt. *)
From Coq Require Import NArith Bool List.
From SV Require Import Ty.Spec Ty.Model Ty.Proofs.
Import ListNotations.

(* the matcher picked by the factory accepts exactly the meaning of a normalised type *)
Theorem C16_compile_correct : forall t v, wf_ty t = true -> matches (compile t) v = denote t v.
Proof. intros t v H. exact (compile_correct t H v). Qed.

(* normalisation always establishes the invariant the factory relies on *)
Theorem C16_normalize_wf : forall t, wf_ty (normalize t) = true.
Proof. exact normalize_wf. Qed.

(* hence every check path answers with the meaning of the normalised type *)
Theorem C16_check_normalised : forall t v, check t v = denote (normalize t) v.
Proof. exact check_normalised. Qed.

(* normalisation never loses a value: no check path rejects a value that belongs to the type as written *)
Theorem C16_normalize_widens : forall t v, denote_raw t v = true -> denote (normalize t) v = true.
Proof. exact normalize_widens. Qed.
Theorem C16_check_complete : forall t v, denote_raw t v = true -> check t v = true.
Proof. exact check_complete. Qed.

(* FULL STATEMENT (DESIGN Appendix A):  forall t v, denote_raw t v = denote (normalize t) v.
   Proved for normalisation without the merge_adjacent step of Ty::unions (flatten, Any absorbs, Never is
   dropped, sort, dedup are all meaning-preserving) ... *)
Theorem C16_normalize_denote_partial : forall t v, denote_raw t v = denote (normalize_nomerge t) v.
Proof. exact normalize_nomerge_denote. Qed.
(* ... and refuted for the real normalisation: list[int] | list[str] becomes list[int | str]. *)
Theorem C16_normalize_denote_refuted : exists t v, denote_raw t v <> denote (normalize t) v.
Proof. exact normalize_denote_refuted. Qed.
Theorem C16_check_refuted : exists t v, denote_raw t v = false /\ check t v = true.
Proof. exact check_refuted. Qed.

(* union laws used by normalisation, under denote *)
Theorem C16_union_idempotent : forall a v, denote (TUnion [a; a]) v = denote a v.
Proof. exact union_idem. Qed.
Theorem C16_union_commutative : forall a b v, denote (TUnion [a; b]) v = denote (TUnion [b; a]) v.
Proof. exact union_comm. Qed.
Theorem C16_union_associative : forall a b c v,
  denote (TUnion [TUnion [a; b]; c]) v = denote (TUnion [a; TUnion [b; c]]) v.
Proof. exact union_assoc. Qed.
Theorem C16_union_never_unit : forall a v, denote (TUnion [TNever; a]) v = denote a v.
Proof. exact union_never_unit. Qed.
Theorem C16_union_any_absorbing : forall a v, denote (TUnion [TAny; a]) v = true.
Proof. exact union_any_absorb. Qed.
Theorem C16_union_flatten : forall xs v, denote (TUnion (flat_map alts xs)) v = denote (TUnion xs) v.
Proof. exact union_flatten. Qed.
Theorem C16_union_sort_dedup : forall xs v, denote (TUnion (dedup (sort xs))) v = denote (TUnion xs) v.
Proof. exact union_sort_dedup. Qed.

(* records and enums are nominal: two declarations of equal shape have disjoint instances *)
Theorem C16_record_enum_nominal : forall i j v, i <> j ->
  (denote (TRecord i) v && denote (TRecord j) v = false) /\ (denote (TEnum i) v && denote (TEnum j) v = false).
Proof.
  intros i j v H. split; destruct v; simpl; try reflexivity.
  - destruct (N.eqb i id) eqn:E1; destruct (N.eqb j id) eqn:E2; try reflexivity.
    apply N.eqb_eq in E1, E2. congruence.
  - destruct (N.eqb i id) eqn:E1; destruct (N.eqb j id) eqn:E2; try reflexivity.
    apply N.eqb_eq in E1, E2. congruence.
Qed.

(* ---- examples: the hypotheses are satisfiable on nested types, and the suspicious branches -------- *)
Definition ex_ty : ty :=
  TUnion [TDict (TBase BStr) (TList (TUnion [TBase BInt; TBase BNone])); TTuple [TBase BInt; TTupleOf (TRecord 1)]; TBase BNone].
Definition ex_val_in : value := VDict [(VStr, VList [VInt true; VNone]); (VStr, VList [])].
Definition ex_val_out : value := VDict [(VStr, VList [VInt false; VStr])].
Example C16_ex_nested_wf : wf_ty (normalize ex_ty) = true /\ normalize ex_ty <> ex_ty.
Proof. split; [reflexivity | vm_compute; discriminate]. Qed.
Example C16_ex_nested_accepts : check ex_ty ex_val_in = true /\ denote_raw ex_ty ex_val_in = true.
Proof. split; reflexivity. Qed.
Example C16_ex_nested_rejects : check ex_ty ex_val_out = false /\ denote_raw ex_ty ex_val_out = false
  /\ check ex_ty (VTuple [VInt false; VTuple [VRecord 1; VRecord 2]]) = false
  /\ check ex_ty (VTuple [VInt false; VTuple [VRecord 1; VRecord 1]]) = true.
Proof. repeat split; reflexivity. Qed.
(* specialisations really are selected *)
Example C16_ex_specialisations :
  compile (normalize (TList (TBase BStr))) = MListOf MStr
  /\ compile (normalize (TList (TUnion [TAny; TBase BInt]))) = MIsList
  /\ compile (normalize (TUnion [TBase BStr; TBase BNone])) = MEither MNone MStr
  /\ compile (normalize (TUnion [TList TAny; TBase BNone])) = MEither MNone MIsList
  /\ compile (normalize (TDict (TBase BStr) TAny)) = MDictOf MStr MAny
  /\ compile (normalize (TTuple [TBase BInt; TBase BStr])) = MTupleElems2 (MTypeId BInt) (MTypeId BStr)
  /\ compile (normalize (TUnion [TBase BInt; TUnion [TBase BStr; TBase BInt]])) = MEither MInt MStr
  /\ compile (normalize (TUnion [TNever; TUnion [TNever; TNever]])) = MNever.
Proof. repeat split; reflexivity. Qed.
(* `Any | X` and `None | Any` are compiled to X and None by the factory: wrong, but unreachable because
   normalisation absorbs Any (wf_ty excludes them) *)
Example C16_ex_any_in_union_needs_wf :
  wf_ty (TUnion [TAny; TBase BInt]) = false
  /\ matches (compile (TUnion [TAny; TBase BInt])) VStr = false /\ denote (TUnion [TAny; TBase BInt]) VStr = true
  /\ matches (compile (TUnion [TBase BNone; TAny])) VStr = false
  /\ check (TUnion [TAny; TBase BInt]) VStr = true /\ check (TUnion [TBase BNone; TAny]) VStr = true.
Proof. repeat split; reflexivity. Qed.

(* ---- the second clause of the property, exactly where it holds ------------------------------------ *)
(* on a type expression none of whose unions brings together two list types or two dict types
   (`merge_free`, computed in the model and reported by the tie for every generated type) the real
   normalisation IS the merge-less one ... *)
Theorem C16_merge_free_normalize : forall t, merge_free t = true -> normalize t = normalize_nomerge t.
Proof. exact merge_free_normalize. Qed.
(* ... so it preserves the meaning of the expression as written, and every check path answers denote_raw *)
Theorem C16_normalize_denote_merge_free : forall t, merge_free t = true ->
  forall v, denote_raw t v = denote (normalize t) v.
Proof. exact normalize_denote_merge_free. Qed.
Theorem C16_check_exact_merge_free : forall t, merge_free t = true -> forall v, check t v = denote_raw t v.
Proof. exact check_exact_merge_free. Qed.

(* ---- the check paths ----------------------------------------------------------------------------- *)
(* isinstance and the host API compile the type from a VALUE at call time (ordinary evaluation: at/at2/bit_or,
   Ty::union2); parameter, return and assignment annotations are compiled at def/compile time by the restricted
   evaluator (type_any_of = Ty::unions, compiler_ty, from_ty again, no check for a wildcard, to_frozen).
   All of them hand `matches` a matcher that answers like the factory's matcher for the normalised type. *)
Theorem C16_isinstance_matcher : forall t, compile_at_isinstance t = compile (normalize t).
Proof. exact isinstance_matcher. Qed.
Theorem C16_compiler_ty_normalize : forall t, compiler_ty t = normalize t.
Proof. exact compiler_ty_normalize. Qed.
Theorem C16_union2_is_unions : forall a b, wf_ty a = true -> wf_ty b = true -> union2 a b = unions_top [a; b].
Proof. exact union2_unions_top. Qed.
Theorem C16_paths_agree : forall t v,
  check_isinstance t v = check_param t v /\ check_param t v = check_return t v /\
  check_return t v = check_assign t v /\ check_assign t v = check_host t v /\ check_host t v = check t v.
Proof. exact paths_agree. Qed.
Theorem C16_paths_agree_frozen_host_and_alias : forall t v,
  check_host_frozen t v = check t v /\ check_param_alias t v = check t v.
Proof. intros t v. split; [apply check_host_frozen_eq | apply check_param_alias_eq]. Qed.

(* freezing a compiled type / a value changes representation tags only, and no check reads them *)
Theorem C16_freeze_ty_tags_only : forall c,
  tc_ty (freeze_ty c) = tc_ty c /\ tc_m (freeze_ty c) = tc_m c /\ tc_frozen (freeze_ty c) = true.
Proof. exact freeze_ty_tags_only. Qed.
Theorem C16_freeze_val_tags_only : forall g, view (freeze_val g) = view g.
Proof. exact view_freeze. Qed.
Theorem C16_freeze_invariant : forall c g, check_tc (freeze_ty c) (freeze_val g) = check_tc c g.
Proof. exact freeze_invariant. Qed.
Theorem C16_freeze_invariant_sites : forall t g,
  check_tc (freeze_ty (tc_new (eval_rt t))) (freeze_val g) = check t (view g) /\
  check_tc (freeze_ty (tc_new (eval_ct t))) (freeze_val g) = check t (view g) /\
  check_tc (tc_new (eval_rt t)) g = check t (view g).
Proof. exact freeze_invariant_sites. Qed.

(* the example type is merge-free although it is changed by normalisation; the refutation witness is not *)
Example C16_ex_merge_free : merge_free ex_ty = true /\ normalize ex_ty <> ex_ty
  /\ merge_free (TUnion [TList (TBase BInt); TList (TBase BStr)]) = false
  /\ merge_free (TUnion [TList (TBase BInt); TList (TBase BInt); TBase BNone]) = true.
Proof. repeat split; try reflexivity. vm_compute; discriminate. Qed.
(* the paths really differ in what they build: an annotation that is a run-time wildcard emits no check
   (MAny) where isinstance runs IsList-of-wildcard collapsed matchers; the frozen tag differs; the answers do not *)
Example C16_ex_paths_differ_in_representation :
  compile_at_isinstance (TUnion [TAny; TBase BInt]) = MAny
  /\ expr_for_type_ty (compiler_ty (TUnion [TAny; TBase BInt])) = None
  /\ tc_frozen (tc_new (eval_rt (TList (TBase BInt)))) = false
  /\ (exists c, expr_for_type_ty (compiler_ty (TList (TBase BInt))) = Some c /\ tc_frozen c = true
                /\ tc_m c = compile_at_isinstance (TList (TBase BInt)))
  /\ eval_rt (TTuple [TBase BInt; TBase BStr]) <> eval_ct (TTuple [TBase BInt; TBase BStr])
  /\ freeze_val (HList false [HLeaf false VStr]) <> HList false [HLeaf false VStr]
  /\ check_tc (freeze_ty (tc_new (eval_rt (TList (TBase BStr))))) (freeze_val (HList false [HLeaf false VStr])) = true.
Proof.
  repeat split; try reflexivity.
  - eexists. repeat split; reflexivity.
  - vm_compute; discriminate.
  - discriminate.
Qed.
