(* C16 property theorems.  Nothing but statements closed by `exact`, satisfiability examples and
   Print Assumptions; the statements are pinned in coq/pins/C16.txt. *)
From Coq Require Import NArith Bool List.
From SV Require Import Ty.Spec Ty.Model Ty.Proofs.
Import ListNotations.

(* the matcher picked by the factory accepts exactly the meaning of a normalised type *)
Theorem C16_compile_correct : forall t v, wf_ty t = true -> matches (compile t) v = denote t v.
Proof. intros t v H. exact (compile_correct t H v). Qed.

(* normalisation always establishes the invariant the factory relies on *)
Theorem C16_normalize_wf : forall t, wf_ty (normalize t) = true.
Proof. exact normalize_wf. Qed.

(* hence every check path answers with the meaning of the normalised type *)
Theorem C16_check_normalised : forall t v, check t v = denote (normalize t) v.
Proof. exact check_normalised. Qed.

(* normalisation never loses a value: no check path rejects a value that belongs to the type as written *)
Theorem C16_normalize_widens : forall t v, denote_raw t v = true -> denote (normalize t) v = true.
Proof. exact normalize_widens. Qed.
Theorem C16_check_complete : forall t v, denote_raw t v = true -> check t v = true.
Proof. exact check_complete. Qed.

(* FULL STATEMENT (DESIGN Appendix A):  forall t v, denote_raw t v = denote (normalize t) v.
   Proved for normalisation without the merge_adjacent step of Ty::unions (flatten, Any absorbs, Never is
   dropped, sort, dedup are all meaning-preserving) ... *)
Theorem C16_normalize_denote_partial : forall t v, denote_raw t v = denote (normalize_nomerge t) v.
Proof. exact normalize_nomerge_denote. Qed.
(* ... and refuted for the real normalisation: list[int] | list[str] becomes list[int | str]. *)
Theorem C16_normalize_denote_refuted : exists t v, denote_raw t v <> denote (normalize t) v.
Proof. exact normalize_denote_refuted. Qed.
Theorem C16_check_refuted : exists t v, denote_raw t v = false /\ check t v = true.
Proof. exact check_refuted. Qed.

(* union laws used by normalisation, under denote *)
Theorem C16_union_idempotent : forall a v, denote (TUnion [a; a]) v = denote a v.
Proof. exact union_idem. Qed.
Theorem C16_union_commutative : forall a b v, denote (TUnion [a; b]) v = denote (TUnion [b; a]) v.
Proof. exact union_comm. Qed.
Theorem C16_union_associative : forall a b c v,
  denote (TUnion [TUnion [a; b]; c]) v = denote (TUnion [a; TUnion [b; c]]) v.
Proof. exact union_assoc. Qed.
Theorem C16_union_never_unit : forall a v, denote (TUnion [TNever; a]) v = denote a v.
Proof. exact union_never_unit. Qed.
Theorem C16_union_any_absorbing : forall a v, denote (TUnion [TAny; a]) v = true.
Proof. exact union_any_absorb. Qed.
Theorem C16_union_flatten : forall xs v, denote (TUnion (flat_map alts xs)) v = denote (TUnion xs) v.
Proof. exact union_flatten. Qed.
Theorem C16_union_sort_dedup : forall xs v, denote (TUnion (dedup (sort xs))) v = denote (TUnion xs) v.
Proof. exact union_sort_dedup. Qed.

(* records and enums are nominal: two declarations of equal shape have disjoint instances *)
Theorem C16_record_enum_nominal : forall i j v, i <> j ->
  (denote (TRecord i) v && denote (TRecord j) v = false) /\ (denote (TEnum i) v && denote (TEnum j) v = false).
Proof.
  intros i j v H. split; destruct v; simpl; try reflexivity.
  - destruct (N.eqb i id) eqn:E1; destruct (N.eqb j id) eqn:E2; try reflexivity.
    apply N.eqb_eq in E1, E2. congruence.
  - destruct (N.eqb i id) eqn:E1; destruct (N.eqb j id) eqn:E2; try reflexivity.
    apply N.eqb_eq in E1, E2. congruence.
Qed.

(* ---- examples: the hypotheses are satisfiable on nested types, and the suspicious branches -------- *)
Definition ex_ty : ty :=
  TUnion [TDict (TBase BStr) (TList (TUnion [TBase BInt; TBase BNone])); TTuple [TBase BInt; TTupleOf (TRecord 1)]; TBase BNone].
Definition ex_val_in : value := VDict [(VStr, VList [VInt true; VNone]); (VStr, VList [])].
Definition ex_val_out : value := VDict [(VStr, VList [VInt false; VStr])].
Example C16_ex_nested_wf : wf_ty (normalize ex_ty) = true /\ normalize ex_ty <> ex_ty.
Proof. split; [reflexivity | vm_compute; discriminate]. Qed.
Example C16_ex_nested_accepts : check ex_ty ex_val_in = true /\ denote_raw ex_ty ex_val_in = true.
Proof. split; reflexivity. Qed.
Example C16_ex_nested_rejects : check ex_ty ex_val_out = false /\ denote_raw ex_ty ex_val_out = false
  /\ check ex_ty (VTuple [VInt false; VTuple [VRecord 1; VRecord 2]]) = false
  /\ check ex_ty (VTuple [VInt false; VTuple [VRecord 1; VRecord 1]]) = true.
Proof. repeat split; reflexivity. Qed.
(* specialisations really are selected *)
Example C16_ex_specialisations :
  compile (normalize (TList (TBase BStr))) = MListOf MStr
  /\ compile (normalize (TList (TUnion [TAny; TBase BInt]))) = MIsList
  /\ compile (normalize (TUnion [TBase BStr; TBase BNone])) = MEither MNone MStr
  /\ compile (normalize (TUnion [TList TAny; TBase BNone])) = MEither MNone MIsList
  /\ compile (normalize (TDict (TBase BStr) TAny)) = MDictOf MStr MAny
  /\ compile (normalize (TTuple [TBase BInt; TBase BStr])) = MTupleElems2 (MTypeId BInt) (MTypeId BStr)
  /\ compile (normalize (TUnion [TBase BInt; TUnion [TBase BStr; TBase BInt]])) = MEither MInt MStr
  /\ compile (normalize (TUnion [TNever; TUnion [TNever; TNever]])) = MNever.
Proof. repeat split; reflexivity. Qed.
(* `Any | X` and `None | Any` are compiled to X and None by the factory: wrong, but unreachable because
   normalisation absorbs Any (wf_ty excludes them) *)
Example C16_ex_any_in_union_needs_wf :
  wf_ty (TUnion [TAny; TBase BInt]) = false
  /\ matches (compile (TUnion [TAny; TBase BInt])) VStr = false /\ denote (TUnion [TAny; TBase BInt]) VStr = true
  /\ matches (compile (TUnion [TBase BNone; TAny])) VStr = false
  /\ check (TUnion [TAny; TBase BInt]) VStr = true /\ check (TUnion [TBase BNone; TAny]) VStr = true.
Proof. repeat split; reflexivity. Qed.
