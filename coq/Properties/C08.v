(* C08 property theorems.  Nothing but statements closed by `exact`, satisfiability examples; the statements are
   pinned in coq/pins/C08.txt. *)
From Coq Require Import List Arith Bool.
From SV Require Import Bind.Model Bind.Spec Bind.Proofs.
Import ListNotations.

(* The binder of starlark-rust (fast path + collect_slow, on the ParametersSpec built from the signature) gives every
   parameter exactly the value the call rule prescribes - including the contents and order of the *args tuple and
   the **kwargs dict - and fails exactly when the call rule says the call is ill-formed. *)
Theorem C08_collect_eq_spec : forall (V : Type) (sg : sig V) (c : call V),
  wf_sig sg = true -> NoDup (map fst (c_named c)) ->
  outcome_of (collect sg c) = outcome_of_spec (bind sg c).
Proof. exact collect_eq_spec. Qed.

(* The same for the slow path alone (the path taken by every call the fast-path guard rejects). *)
Theorem C08_collect_slow_eq_spec : forall (V : Type) (sg : sig V), wf_sig sg = true ->
  forall c : call V, NoDup (map fst (c_named c)) ->
  outcome_of (collect_slow (build_spec sg) c) = outcome_of_spec (bind sg c).
Proof. exact collect_slow_eq_spec. Qed.

(* Whenever the guard of the fast path holds, the fast path returns what the slow path would (no well-formedness
   hypothesis needed). *)
Theorem C08_fast_path_eq : forall (V : Type) (sg : sig V) (c : call V),
  fast_guard (build_spec sg) c = true ->
  collect_inline (build_spec sg) c = collect_slow (build_spec sg) c.
Proof. exact fast_path_eq. Qed.

(* The single comparison `next_position > lowest_name` is equivalent to per-slot detection of a parameter given
   both positionally and by name. *)
Theorem C08_lowest_name_correct : forall (V : Type) (ps : pspec V) named (sl sl' : slots V) kw' low next,
  do_named ps named sl None None = (sl', kw', low) ->
  (clash low next <> None <-> exists i, hit V ps named i /\ i < next).
Proof. exact lowest_name_correct. Qed.

(* Totality: binding always terminates with slots or an error (it is a total function), and on success every
   parameter has a value. *)
Theorem C08_bound_complete : forall (V : Type) (sg : sig V) (c : call V) sl,
  wf_sig sg = true -> NoDup (map fst (c_named c)) ->
  collect sg c = Ok sl -> length sl = length sg /\ Forall (fun o => o <> None) sl.
Proof. exact bound_complete. Qed.

Theorem C08_total : forall (V : Type) (sg : sig V) (c : call V),
  (exists sl, collect sg c = Ok sl) \/ (exists e, collect sg c = Err e).
Proof. intros V sg c. destruct (collect sg c) as [sl|e]; [left|right]; eauto. Qed.

(* The hypotheses are discharged for parsed programs: every parameter list DefParams::unpack accepts is well-formed,
   and named arguments that pass the duplicate check of CallArgsUnpack::unpack / ArgNames::new_check_unique are
   distinct; hence binding agrees with the call rule for every def the parser accepts. *)
Theorem C08_def_unpack_wf : forall (V : Type) (ps : list (aparam V)) (sg : sig V),
  def_unpack ps = Some sg -> wf_sig sg = true.
Proof. exact def_unpack_wf. Qed.

Theorem C08_call_unpack_nodup : forall l : list name, names_unique [] l = true -> NoDup l.
Proof. exact call_unpack_nodup0. Qed.

Theorem C08_parsed_collect_eq_spec : forall (V : Type) (ps : list (aparam V)) (sg : sig V) (c : call V),
  def_unpack ps = Some sg -> names_unique [] (map fst (c_named c)) = true ->
  outcome_of (collect sg c) = outcome_of_spec (bind sg c).
Proof. exact parsed_collect_eq_spec. Qed.

(* ---- examples: the hypotheses are satisfiable on non-trivial signatures (names: a=0 b=1 c=2 d=3 e=4 x=20 y=21) ---- *)
(* def f(a, /, b=101, *c, d, **e) *)
Definition ex_sig : sig nat :=
  [mkParam 0 PosOnly None; mkParam 1 PosOrKw (Some 101); mkParam 2 VarArgs None; mkParam 3 KwOnly None;
   mkParam 4 VarKw None].

Example C08_ex_wf : wf_sig ex_sig = true.
Proof. reflexivity. Qed.

(* f(1, 2, 9, d=3, x=5)  ->  a=1 b=2 c=(9,) d=3 e={x:5} *)
Example C08_ex_all_kinds :
  let c := mkCall [1; 2; 9] [(3, 3); (20, 5)] None None in
  NoDup (map fst (c_named c)) /\
  collect ex_sig c = Ok [Some (SVal 1); Some (SVal 2); Some (STuple [9]); Some (SVal 3); Some (SDict [(20, 5)])] /\
  bind ex_sig c = Some [SVal 1; SVal 2; STuple [9]; SVal 3; SDict [(20, 5)]].
Proof.
  simpl. split; [|split; reflexivity].
  repeat constructor; simpl; intuition discriminate.
Qed.

(* f(7, *[8, 9], **{"d": 4, "y": 6, "a": 5}) : the positional-only name `a` may be reused as a surplus keyword *)
Example C08_ex_star_and_map :
  let c := mkCall [7] [] (Some [8; 9]) (Some [(KStr 3, 4); (KStr 21, 6); (KStr 0, 5)]) in
  collect ex_sig c = Ok [Some (SVal 7); Some (SVal 8); Some (STuple [9]); Some (SVal 4); Some (SDict [(21, 6); (0, 5)])] /\
  bind ex_sig c = Some [SVal 7; SVal 8; STuple [9]; SVal 4; SDict [(21, 6); (0, 5)]].
Proof. split; reflexivity. Qed.

(* f(1, d=3)  : default of b *)
Example C08_ex_default :
  collect ex_sig (mkCall [1] [(3, 3)] None None)
  = Ok [Some (SVal 1); Some (SVal 101); Some (STuple []); Some (SVal 3); Some (SDict [])].
Proof. reflexivity. Qed.

(* errors: f(1, 2, b=3, d=4) repeated b ; f(1) missing d ; f(1, d=2, **{"d": 3}) repeated d ; f(1, d=2, **{7: 3}) *)
Example C08_ex_errors :
  collect ex_sig (mkCall [1; 2] [(1, 3); (3, 4)] None None) = Err (ERepeated 1) /\
  bind ex_sig (mkCall [1; 2] [(1, 3); (3, 4)] None None) = None /\
  collect ex_sig (mkCall [1] [] None None) = Err (EMissing MNamedOnly 3) /\
  bind ex_sig (mkCall [1] [] None None) = None /\
  collect ex_sig (mkCall [1] [(3, 2)] None (Some [(KStr 3, 3)])) = Err (ERepeated 3) /\
  collect ex_sig (mkCall [1] [(3, 2)] None (Some [(KOther, 3)])) = Err ENotString.
Proof. repeat split; reflexivity. Qed.

(* def g(a, b): the fast path; g(1, 2) *)
Example C08_ex_fast_path :
  let sg := [mkParam 0 PosOrKw None; mkParam 1 PosOrKw None] in
  let c := mkCall [1; 2] [] None None in
  wf_sig sg = true /\ fast_guard (build_spec sg) c = true /\
  collect sg c = Ok [Some (SVal 1); Some (SVal 2)] /\
  collect (V := nat) sg (mkCall [1; 2; 3] [] None None) = Err (EExtraPos 1) /\
  collect (V := nat) sg (mkCall [] [(5, 1)] None None) = Err (EMissing MPlain 0).
Proof. repeat split; reflexivity. Qed.

(* def f(a, /, b=101, *c, d, **e) as written is accepted by the model of DefParams::unpack and gives ex_sig;
   a required positional parameter after a default, a duplicate name and a parameter after **kwargs are rejected *)
Example C08_ex_unpack :
  @def_unpack nat [ANormal 0 None; ASlash; ANormal 1 (Some 101); AArgs 2; ANormal 3 None; AKwArgs 4] = Some ex_sig /\
  @def_unpack nat [ANormal 0 (Some 100); ANormal 1 None] = None /\
  @def_unpack nat [ANormal 0 None; ANormal 0 None] = None /\
  @def_unpack nat [AKwArgs 0; ANormal 1 None] = None /\
  @def_unpack nat [ANoArgs; ANormal 0 None; ANormal 1 (Some 7)] = Some [mkParam 0 KwOnly None; mkParam 1 KwOnly (Some 7)] /\
  names_unique [] [3; 20] = true /\ names_unique [] [3; 20; 3] = false.
Proof. repeat split; reflexivity. Qed.

(* ---- ParametersSpecBuilder ---------------------------------------------------------------------------------- *)
(* `build_spec` is not an assumption about the builder: running the builder's methods one call at a time, in the
   order InstrDefImpl::run_with_args makes them for a well-formed parameter list (`steps_of`), and then `finish`,
   produces exactly build_spec sg: kinds, names, the name map without positional-only names, positional_only,
   positional, and the *args / **kwargs indices - and no assert fires on the way. *)
Theorem C08_builder_builds_spec : forall (V : Type) (sg : sig V), wf_sig sg = true ->
  b_finish (fold_left (@builder_step V) (steps_of sg) (Some b_init)) = Some (build_spec sg).
Proof. exact builder_builds_spec. Qed.

(* The asserts of the builder's methods (required/optional/defaulted, args, kwargs, no_more_positional_only_args,
   no_more_positional_args, finish) fire on exactly the call sequences that leave the order
   P* [/ P*] [{args or bare star} P*] [kwargs] or repeat a name that can be passed by keyword. *)
Theorem C08_builder_order_checked : forall (V : Type) (l : list (bstep V)),
  b_finish (fold_left (@builder_step V) l (Some b_init)) <> None <-> steps_ok 0 [] l = true.
Proof. exact run_builder_order_checked. Qed.
Theorem C08_builder_methods_order_checked : forall (V : Type) (l : list (bstep V)),
  fold_left (@builder_step V) l (Some b_init) <> None <-> steps_ok 0 [] l = true.
Proof. exact builder_order_checked. Qed.

(* ---- the static checks are complete as well as sound ---------------------------------------------------------- *)
(* Every well-formed signature in which no required positional parameter follows a defaulted one and *args / **kwargs
   carry no default is the result of DefParams::unpack on a parameter list (the one written back by render_sig) ... *)
Theorem C08_def_unpack_complete : forall (V : Type) (sg : sig V),
  wf_sig sg = true -> dflt_ok false sg = true -> def_unpack (render_sig sg) = Some sg.
Proof. exact def_unpack_complete. Qed.
(* ... and these are all its results. *)
Theorem C08_def_unpack_image : forall (V : Type) (sg : sig V),
  (exists ps, def_unpack ps = Some sg) <-> (wf_sig sg = true /\ dflt_ok false sg = true).
Proof. exact def_unpack_image. Qed.
(* The duplicate check of named arguments accepts exactly the duplicate-free lists. *)
Theorem C08_names_unique_iff : forall l : list name, names_unique [] l = true <-> NoDup l.
Proof. exact names_unique_iff. Qed.

(* ---- `*seq` that is not iterable, `**map` that is not a dict ---------------------------------------------------- *)
(* The binder extended with the two type errors, raised where the code raises them, still computes the call rule
   (extended by: `*seq` must be iterable, `**map` must be a mapping); on well-typed calls it is the binder above. *)
Theorem C08_collect_x_eq_spec : forall (V : Type) (sg : sig V) (c : xcall V),
  wf_sig sg = true -> NoDup (map fst (x_named c)) ->
  outcome_of_x (collect_x sg c) = outcome_of_spec (bind_x sg c).
Proof. exact collect_x_eq_spec. Qed.
Theorem C08_collect_x_embed : forall (V : Type) (sg : sig V) (c : call V),
  collect_x sg (x_of_call c) = lift_x (collect sg c).
Proof. exact collect_x_embed. Qed.

(* the builder on def f(a, /, b=101, *c, d, **e): the calls made, the state machine accepts them, finish = build_spec *)
Example C08_ex_builder :
  steps_of ex_sig = [BRequired 0; BNoMorePosOnly; BDefaulted 1 101; BArgs 2; BRequired 3; BKwargs 4] /\
  run_builder (steps_of ex_sig) = Some (build_spec ex_sig) /\
  ps_map (build_spec ex_sig) = [(1, 1); (3, 3)] /\ ps_npos_only (build_spec ex_sig) = 1 /\
  ps_npos (build_spec ex_sig) = 2 /\ ps_args (build_spec ex_sig) = Some 2 /\ ps_kwargs (build_spec ex_sig) = Some 4 /\
  (* def g(a, *, b): a bare `*` *)
  steps_of [mkParam 0 PosOrKw (@None nat); mkParam 1 KwOnly None] = [BNoMorePosOnly; BRequired 0; BNoMorePos; BRequired 1].
Proof. repeat split; reflexivity. Qed.
(* ill-ordered call sequences panic: a parameter after **kwargs, `/` after `*`, two *args, a repeated keyword name;
   a repeated positional-only name is not checked by the builder (DefParams::unpack rejects it earlier) *)
Example C08_ex_builder_rejects :
  run_builder [BKwargs 9; BRequired (V := nat) 0] = None /\
  run_builder [BNoMorePos; BNoMorePosOnly (V := nat)] = None /\
  run_builder [BArgs (V := nat) 1; BArgs 2] = None /\
  run_builder [BNoMorePosOnly; BRequired (V := nat) 0; BRequired 0] = None /\
  run_builder [BRequired (V := nat) 0; BRequired 0] <> None /\
  run_builder [BOptional (V := nat) 0; BNoMorePosOnly; BOptional 1] <> None.
Proof. repeat split; try reflexivity; discriminate. Qed.
(* render_sig writes ex_sig back as `a, /, b=101, *c, d, **e`; a signature with a required positional after a default is
   well-formed for the binder but is not the image of any parameter list *)
Example C08_ex_render :
  render_sig ex_sig = [ANormal 0 None; ASlash; ANormal 1 (Some 101); AArgs 2; ANormal 3 None; AKwArgs 4] /\
  dflt_ok false ex_sig = true /\
  (let bad := [mkParam 0 PosOrKw (Some 7); mkParam 1 PosOrKw None] in wf_sig bad = true /\ dflt_ok false bad = false).
Proof. repeat split; reflexivity. Qed.
(* f(1, d=2, *5) : not iterable ; f(1, d=2, **5) : not a dict ; f(1, 2, b=3, **5) : the clash is reported first *)
Example C08_ex_illtyped :
  collect_x ex_sig (mkXCall [1] [(3, 2)] (Some StarNotIterable) None) = XFail XArgsNotIterable /\
  bind_x ex_sig (mkXCall [1] [(3, 2)] (Some StarNotIterable) None) = None /\
  collect_x ex_sig (mkXCall [1] [(3, 2)] None (Some KwNotDict)) = XFail XKwNotDict /\
  bind_x ex_sig (mkXCall [1] [(3, 2)] None (Some KwNotDict)) = None /\
  collect_x ex_sig (mkXCall [1; 2] [(1, 3)] None (Some KwNotDict)) = XFail (XErr (ERepeated 1)) /\
  collect_x ex_sig (mkXCall [1] [(3, 2)] (Some (StarSeq [8])) (Some (KwDict [(KStr 20, 5)])))
    = XOk [Some (SVal 1); Some (SVal 8); Some (STuple []); Some (SVal 2); Some (SDict [(20, 5)])].
Proof. repeat split; reflexivity. Qed.
