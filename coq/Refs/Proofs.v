(* C13: proofs about the heap-reference model (Refs/Model.v). *)
From Coq Require Import List Arith Bool Lia Permutation.
From SV Require Import Refs.Model.
Import ListNotations.

(* ------------------------------------------------------------------ lists *)

Lemma nth_upd_same : forall A (l : list A) i f, nth_error (upd_nth l i f) i = option_map f (nth_error l i).
Proof. induction l; destruct i; simpl; intros; auto. Qed.

Lemma nth_upd_other : forall A (l : list A) i j f, i <> j -> nth_error (upd_nth l i f) j = nth_error l j.
Proof. induction l; destruct i, j; simpl; intros; auto; try congruence. Qed.

Lemma length_upd : forall A (l : list A) i f, length (upd_nth l i f) = length l.
Proof. induction l; destruct i; simpl; intros; auto. Qed.

Fixpoint sumf {A} (F : A -> nat) (l : list A) : nat :=
  match l with [] => 0 | a :: t => F a + sumf F t end.

Lemma sumf_app : forall A (F : A -> nat) l1 l2, sumf F (l1 ++ l2) = sumf F l1 + sumf F l2.
Proof. induction l1; simpl; intros; auto. rewrite IHl1. lia. Qed.

Lemma sumf_upd : forall A (F : A -> nat) l i f a, nth_error l i = Some a ->
  sumf F (upd_nth l i f) + F a = sumf F l + F (f a).
Proof.
  induction l; destruct i; simpl; intros; try discriminate.
  - inversion H; subst. lia.
  - specialize (IHl _ f _ H). lia.
Qed.

Lemma sumf_ge : forall A (F : A -> nat) l i a, nth_error l i = Some a -> F a <= sumf F l.
Proof. induction l; destruct i; simpl; intros; try discriminate. - inversion H; subst; lia. - specialize (IHl _ _ H). lia. Qed.

Lemma upd_nth_none : forall A (l : list A) i f, nth_error l i = None -> upd_nth l i f = l.
Proof. induction l; destruct i; simpl; intros; auto; try discriminate. f_equal; auto. Qed.

Lemma mem_In : forall x l, mem x l = true <-> In x l.
Proof.
  unfold mem. intros. rewrite existsb_exists. split.
  - intros [y [Hy He]]. apply Nat.eqb_eq in He. subst; auto.
  - intros. exists x. split; auto. apply Nat.eqb_refl.
Qed.

Lemma mem_false : forall x l, mem x l = false <-> ~ In x l.
Proof. intros. rewrite <- mem_In. destruct (mem x l); split; congruence. Qed.

Notation cnt := (count_occ Nat.eq_dec).

Lemma cnt_app : forall l1 l2 x, cnt (l1 ++ l2) x = cnt l1 x + cnt l2 x.
Proof. intros. apply count_occ_app. Qed.

Lemma cnt_cons : forall y l x, cnt (y :: l) x = (if Nat.eq_dec y x then 1 else 0) + cnt l x.
Proof. intros. simpl. destruct (Nat.eq_dec y x); lia. Qed.

(* ------------------------------------------------------------------ accessors through updates *)

Lemma get_heap_upd : forall st a f x,
  get_heap (upd_heap st a f) x = if Nat.eqb x a then option_map f (get_heap st a) else get_heap st x.
Proof.
  intros. unfold get_heap, upd_heap; simpl. destruct (Nat.eqb_spec x a).
  - subst. apply nth_upd_same.
  - apply nth_upd_other. congruence.
Qed.

Lemma get_root_upd_heap : forall st a f r, get_root (upd_heap st a f) r = get_root st r.
Proof. reflexivity. Qed.

Lemma get_heap_set_root : forall st r x h, get_heap (set_root st r x) h = get_heap st h.
Proof. reflexivity. Qed.

Lemma get_heap_add_root : forall st x h, get_heap (add_root st x) h = get_heap st h.
Proof. reflexivity. Qed.

Lemma get_root_set_root : forall st r x r',
  get_root (set_root st r x) r' = if Nat.eqb r' r then (match nth_error (roots st) r with Some _ => x | None => None end) else get_root st r'.
Proof.
  intros. unfold get_root, set_root; simpl. destruct (Nat.eqb_spec r' r).
  - subst. rewrite nth_upd_same. destruct (nth_error (roots st) r); simpl; auto. destruct x; auto.
  - rewrite nth_upd_other by congruence. auto.
Qed.

Lemma get_root_add_root : forall st x r,
  get_root (add_root st x) r = if Nat.eqb r (length (roots st)) then Some x else get_root st r.
Proof.
  intros. unfold get_root, add_root; simpl. destruct (Nat.eqb_spec r (length (roots st))).
  - subst. rewrite nth_error_app2 by lia. rewrite Nat.sub_diag. reflexivity.
  - destruct (lt_dec r (length (roots st))).
    + rewrite nth_error_app1 by lia. auto.
    + rewrite nth_error_app2 by lia. destruct (r - length (roots st)) eqn:E; [lia|].
      simpl. assert (nth_error (roots st) r = None) by (apply nth_error_None; lia).
      rewrite H. destruct n1; auto.
Qed.

(* ------------------------------------------------------------------ counting holders *)

Definition hcount (h : heap) (x : hid) : nat :=
  if h_alive h then cnt (h_refs h ++ h_mrefs h) x else 0.
Definition rcount (r : option root) (x : hid) : nat :=
  match r with Some ro => cnt (r_holds ro) x | None => 0 end.
Definition holders (st : state) (x : hid) : nat :=
  sumf (fun h => hcount h x) (heaps st) + sumf (fun r => rcount r x) (roots st).

(* Count invariant with a work list of pending decrements: the strong count of every heap is at least the
   number of holders (external objects, live heaps, pending decrements); a released heap has count 0. *)
Definition CntW (st : state) (w : list hid) : Prop :=
  (forall x, holders st x + cnt w x <= rc st x) /\ (forall x, alive st x = false -> rc st x = 0).
Definition Cnt (st : state) : Prop := CntW st [].

Lemma holders_upd_heap : forall st a f ha x, get_heap st a = Some ha ->
  holders (upd_heap st a f) x + hcount ha x = holders st x + hcount (f ha) x.
Proof.
  intros. unfold holders, upd_heap; simpl.
  pose proof (sumf_upd _ (fun h => hcount h x) (heaps st) a f ha H). simpl in H0. lia.
Qed.

Lemma upd_heap_none : forall st a f, get_heap st a = None -> upd_heap st a f = st.
Proof. intros. unfold upd_heap. rewrite upd_nth_none by assumption. destruct st; reflexivity. Qed.

Lemma rc_upd : forall st a f x,
  rc (upd_heap st a f) x = if Nat.eqb x a then (match get_heap st a with Some ha => h_rc (f ha) | None => 0 end) else rc st x.
Proof. intros. unfold rc. rewrite get_heap_upd. destruct (Nat.eqb x a); auto. destruct (get_heap st a); auto. Qed.

Lemma alive_upd : forall st a f x,
  alive (upd_heap st a f) x = if Nat.eqb x a then (match get_heap st a with Some ha => h_alive (f ha) | None => false end) else alive st x.
Proof. intros. unfold alive. rewrite get_heap_upd. destruct (Nat.eqb x a); auto. destruct (get_heap st a); auto. Qed.

Lemma alive_exists : forall st x, alive st x = true -> exists hx, get_heap st x = Some hx /\ h_alive hx = true.
Proof. unfold alive. intros. destruct (get_heap st x); try discriminate. eauto. Qed.

Lemma CntW_weaken : forall st w w', CntW st w -> (forall x, cnt w' x <= cnt w x) -> CntW st w'.
Proof. intros st w w' [H1 H2] Hle. split; auto. intros x. specialize (H1 x). specialize (Hle x). lia. Qed.

Lemma CntW_perm : forall st w w', CntW st w -> Permutation w w' -> CntW st w'.
Proof.
  intros. eapply CntW_weaken; eauto. intros. erewrite (Permutation_count_occ Nat.eq_dec) in H0.
  rewrite (H0 x). lia.
Qed.

(* Arc::clone: one more pending holder *)
Lemma inc_rc_cnt : forall st w x, CntW st w -> alive st x = true -> CntW (inc_rc st x) (x :: w).
Proof.
  intros st w x [H1 H2] Ha. destruct (alive_exists _ _ Ha) as [hx [Hx Hax]]. unfold inc_rc. split.
  - intros y. pose proof (holders_upd_heap st x f_inc hx y Hx).
    assert (hcount (f_inc hx) y = hcount hx y) by reflexivity.
    rewrite rc_upd, Hx, cnt_cons. specialize (H1 y). destruct (Nat.eqb_spec y x).
    + subst. unfold rc in H1. rewrite Hx in H1. simpl. destruct (Nat.eq_dec x x); try congruence. lia.
    + destruct (Nat.eq_dec x y); try congruence. lia.
  - intros y. rewrite rc_upd, alive_upd, Hx. destruct (Nat.eqb_spec y x); auto.
    simpl. rewrite Hax. discriminate.
Qed.

Lemma alive_inc : forall st x y, alive (inc_rc st x) y = alive st y.
Proof.
  intros. unfold inc_rc. rewrite alive_upd. destruct (Nat.eqb_spec y x); auto. subst.
  unfold alive. destruct (get_heap st x); auto.
Qed.

Lemma fold_inc_cnt : forall l st w, CntW st w -> (forall x, In x l -> alive st x = true) ->
  CntW (fold_left inc_rc l st) (l ++ w) /\ (forall y, alive (fold_left inc_rc l st) y = alive st y).
Proof.
  induction l; simpl; intros.
  - auto.
  - assert (CntW (inc_rc st a) (a :: w)) by (apply inc_rc_cnt; auto).
    destruct (IHl (inc_rc st a) (a :: w) H1) as [IH1 IH2].
    { intros. rewrite alive_inc. auto. }
    split.
    + eapply CntW_perm; eauto. apply Permutation_sym. apply Permutation_middle.
    + intros. rewrite IH2. apply alive_inc.
Qed.

(* pushing a reference and cloning the Arc *)
Lemma push_ref_cnt : forall st w a x (mut : bool), CntW st w -> alive st x = true ->
  CntW (inc_rc (upd_heap st a (if mut then f_push_mref x else f_push_ref x)) x) w.
Proof.
  intros st w a x mut [H1 H2] Ha.
  destruct (get_heap st a) as [ha|] eqn:Hga.
  2:{ rewrite upd_heap_none by assumption. eapply CntW_weaken. apply inc_rc_cnt; [split; eauto|auto].
      intros. rewrite cnt_cons. lia. }
  set (g := if mut then f_push_mref x else f_push_ref x).
  assert (Hc : forall y, hcount (g ha) y = (if h_alive ha then (if Nat.eq_dec x y then 1 else 0) else 0) + hcount ha y).
  { intros. unfold g, hcount. destruct mut; simpl; destruct (h_alive ha); auto.
    - rewrite !cnt_app, cnt_cons. lia.
    - destruct (Nat.eq_dec x y); lia. }
  assert (Hal : forall y, alive (upd_heap st a g) y = alive st y).
  { intros. rewrite alive_upd, Hga. destruct (Nat.eqb_spec y a); auto. subst. unfold alive. rewrite Hga.
    unfold g; destruct mut; reflexivity. }
  assert (Hrc : forall y, rc (upd_heap st a g) y = rc st y).
  { intros. rewrite rc_upd, Hga. destruct (Nat.eqb_spec y a); auto. subst. unfold rc. rewrite Hga.
    unfold g; destruct mut; reflexivity. }
  assert (CntW (inc_rc (upd_heap st a g) x) (x :: w) -> False \/ True) by auto.
  destruct (alive_exists (upd_heap st a g) x) as [hx [Hx Hax]]. { rewrite Hal. auto. }
  unfold inc_rc. split.
  - intros y. pose proof (holders_upd_heap st a g ha y Hga).
    pose proof (holders_upd_heap (upd_heap st a g) x f_inc hx y Hx).
    assert (hcount (f_inc hx) y = hcount hx y) by reflexivity.
    rewrite rc_upd, Hx. specialize (H1 y). specialize (Hc y). specialize (Hrc y).
    destruct (Nat.eqb_spec y x).
    + subst y. unfold rc in Hrc at 1. rewrite Hx in Hrc. simpl.
      destruct (Nat.eq_dec x x); try congruence. destruct (h_alive ha); lia.
    + destruct (Nat.eq_dec x y); try congruence. destruct (h_alive ha); lia.
  - intros y. rewrite rc_upd, alive_upd, Hx. destruct (Nat.eqb_spec y x).
    + simpl. rewrite Hax. discriminate.
    + rewrite Hal, Hrc. auto.
Qed.

Lemma add_ref_cnt : forall st w a x, CntW st w -> alive st x = true -> CntW (add_ref st a x) w.
Proof.
  intros. unfold add_ref. destruct (get_heap st a); auto. destruct (mem x (h_refs h)); auto.
  apply (push_ref_cnt st w a x false); auto.
Qed.

Lemma add_mref_cnt : forall st w a x, CntW st w -> alive st x = true -> CntW (add_mref st a x) w.
Proof.
  intros. unfold add_mref. destruct (get_heap st a); auto. destruct (mem x (h_mrefs h)); auto.
  apply (push_ref_cnt st w a x true); auto.
Qed.

(* updates that do not touch liveness, counts or references *)
Definition neutral (f : heap -> heap) : Prop :=
  forall h, h_alive (f h) = h_alive h /\ h_rc (f h) = h_rc h /\ h_refs (f h) = h_refs h /\ h_mrefs (f h) = h_mrefs h.

Lemma neutral_frame : forall st a f, neutral f ->
  (forall y, holders (upd_heap st a f) y = holders st y) /\ (forall y, rc (upd_heap st a f) y = rc st y)
  /\ (forall y, alive (upd_heap st a f) y = alive st y).
Proof.
  intros. destruct (get_heap st a) as [ha|] eqn:Hga.
  2:{ rewrite upd_heap_none by assumption. auto. }
  destruct (H ha) as [N1 [N2 [N3 N4]]]. repeat split; intros.
  - pose proof (holders_upd_heap st a f ha y Hga).
    assert (hcount (f ha) y = hcount ha y). { unfold hcount. rewrite N1, N3, N4. auto. } lia.
  - rewrite rc_upd, Hga. destruct (Nat.eqb_spec y a); auto. subst. unfold rc. rewrite Hga. auto.
  - rewrite alive_upd, Hga. destruct (Nat.eqb_spec y a); auto. subst. unfold alive. rewrite Hga. auto.
Qed.

Lemma neutral_cnt : forall st w a f, neutral f -> CntW st w -> CntW (upd_heap st a f) w.
Proof.
  intros st w a f N [H1 H2]. destruct (neutral_frame st a f N) as [F1 [F2 F3]]. split; intros.
  - rewrite F1, F2. auto.
  - rewrite F2. rewrite F3 in H. auto.
Qed.

Lemma neutral_push_edge : forall b, neutral (f_push_edge b).
Proof. intros b h. auto. Qed.

Lemma add_edge_cnt : forall st w a b, CntW st w -> CntW (add_edge st a b) w.
Proof. intros. unfold add_edge. destruct (Nat.eqb a b); auto. apply neutral_cnt; auto. apply neutral_push_edge. Qed.

(* roots *)
Lemma holders_roots : forall st rs x,
  holders (mkState (heaps st) rs) x = sumf (fun h => hcount h x) (heaps st) + sumf (fun r => rcount r x) rs.
Proof. reflexivity. Qed.

Lemma add_root_cnt : forall st w ro, CntW st (r_holds ro ++ w) -> CntW (add_root st ro) w.
Proof.
  intros st w ro [H1 H2]. split; auto. intros x. specialize (H1 x). rewrite cnt_app in H1.
  unfold add_root. rewrite holders_roots, sumf_app. simpl. unfold holders in H1.
  change (rc {| heaps := heaps st; roots := roots st ++ [Some ro] |} x) with (rc st x). lia.
Qed.

Lemma get_root_nth : forall st r ro, get_root st r = Some ro -> nth_error (roots st) r = Some (Some ro).
Proof. unfold get_root. intros. destruct (nth_error (roots st) r) as [[|]|]; congruence. Qed.

Lemma set_root_holders : forall st r ro x y, get_root st r = Some ro ->
  holders (set_root st r x) y + cnt (r_holds ro) y = holders st y + rcount x y.
Proof.
  intros. apply get_root_nth in H. unfold set_root. rewrite holders_roots.
  pose proof (sumf_upd _ (fun r => rcount r y) (roots st) r (fun _ => x) (Some ro) H). simpl in H0.
  unfold holders. lia.
Qed.

Lemma drop_root_cnt : forall st w r ro, CntW st w -> get_root st r = Some ro ->
  CntW (set_root st r None) (r_holds ro ++ w).
Proof.
  intros st w r ro [H1 H2] Hr. split; auto. intros x.
  pose proof (set_root_holders st r ro None x Hr). simpl in H. rewrite cnt_app. specialize (H1 x).
  change (rc (set_root st r None) x) with (rc st x). lia.
Qed.

Lemma same_holds_cnt : forall st w r ro ro', CntW st w -> get_root st r = Some ro -> r_holds ro' = r_holds ro ->
  CntW (set_root st r (Some ro')) w.
Proof.
  intros st w r ro ro' [H1 H2] Hr Hh. split; auto. intros x.
  pose proof (set_root_holders st r ro (Some ro') x Hr). simpl in H. rewrite Hh in H. specialize (H1 x).
  change (rc (set_root st r (Some ro')) x) with (rc st x). lia.
Qed.

Lemma add_val_cnt : forall st w r s hv, CntW st w -> CntW (add_val st r s hv) w.
Proof. intros. unfold add_val. destruct (get_root st r) eqn:E; auto. eapply same_holds_cnt; eauto. Qed.

Lemma set_kind_cnt : forall st w r k, CntW st w -> CntW (set_kind st r k) w.
Proof. intros. unfold set_kind. destruct (get_root st r) eqn:E; auto. eapply same_holds_cnt; eauto. Qed.

(* a fresh heap owned by its builder *)
Lemma fresh_unheld : forall st w x, CntW st w -> get_heap st x = None -> holders st x = 0 /\ cnt w x = 0.
Proof. intros st w x [H1 _] Hn. specialize (H1 x). unfold rc in H1. rewrite Hn in H1. lia. Qed.

Lemma get_heap_new : forall st x,
  get_heap (fst (new_heap st)) x = if Nat.eqb x (length (heaps st)) then Some (mkHeap true 1 [] [] [] false) else get_heap st x.
Proof.
  intros. unfold new_heap, get_heap; simpl. destruct (Nat.eqb_spec x (length (heaps st))).
  - subst. rewrite nth_error_app2 by lia. rewrite Nat.sub_diag. reflexivity.
  - destruct (lt_dec x (length (heaps st))).
    + rewrite nth_error_app1 by lia. auto.
    + rewrite nth_error_app2 by lia. destruct (x - length (heaps st)) eqn:E; [lia|].
      simpl. assert (nth_error (heaps st) x = None) by (apply nth_error_None; lia).
      rewrite H. destruct n1; auto.
Qed.

Lemma new_heap_cnt : forall st w, CntW st w -> CntW (fst (new_heap st)) (snd (new_heap st) :: w).
Proof.
  intros st w H. pose proof H as [H1 H2].
  assert (Hn : get_heap st (length (heaps st)) = None) by (apply nth_error_None; unfold hid; lia).
  destruct (fresh_unheld st w _ H Hn) as [F1 F2]. split.
  - intros x. unfold rc. rewrite get_heap_new. simpl snd. rewrite cnt_cons.
    assert (holders (fst (new_heap st)) x = holders st x).
    { unfold holders, new_heap; simpl. rewrite sumf_app. simpl. lia. }
    rewrite H0. destruct (Nat.eqb_spec x (length (heaps st))).
    + subst. simpl. destruct (Nat.eq_dec (length (heaps st)) (length (heaps st))); try congruence. lia.
    + destruct (Nat.eq_dec (length (heaps st)) x); try congruence. specialize (H1 x). unfold rc in H1. lia.
  - intros x. unfold alive, rc. rewrite get_heap_new. destruct (Nat.eqb_spec x (length (heaps st))).
    + simpl. discriminate.
    + apply H2.
Qed.

(* sealing an open module: the mutable half's references become pending decrements *)
Lemma seal_cnt : forall st w a ha, CntW st w -> get_heap st a = Some ha -> h_alive ha = true ->
  CntW (upd_heap st a f_seal) (h_mrefs ha ++ w).
Proof.
  intros st w a ha [H1 H2] Hga Hal. split.
  - intros x. pose proof (holders_upd_heap st a f_seal ha x Hga).
    assert (hcount (f_seal ha) x + cnt (h_mrefs ha) x = hcount ha x).
    { unfold hcount. simpl. rewrite Hal. rewrite !cnt_app. simpl. lia. }
    rewrite cnt_app. specialize (H1 x).
    assert (rc (upd_heap st a f_seal) x = rc st x).
    { rewrite rc_upd, Hga. destruct (Nat.eqb_spec x a); auto. subst. unfold rc. rewrite Hga. auto. }
    lia.
  - intros x. rewrite rc_upd, alive_upd, Hga. destruct (Nat.eqb_spec x a); auto. simpl. rewrite Hal. discriminate.
Qed.

(* Arc::drop, transitively *)
Lemma release_cnt : forall fuel w st, CntW st w -> Cnt (release fuel w st).
Proof.
  induction fuel; intros w st H.
  - simpl. eapply CntW_weaken; eauto. intros. simpl. lia.
  - simpl. destruct w as [|x w].
    + auto.
    + assert (Hskip : CntW st w). { eapply CntW_weaken; eauto. intros. rewrite cnt_cons. lia. }
      destruct (get_heap st x) as [hx|] eqn:Hx; auto.
      destruct (h_rc hx) as [|[|n]] eqn:Hrc; auto.
      * (* last reference *)
        apply IHfuel. destruct H as [H1 H2].
        assert (Halx : h_alive hx = true).
        { destruct (h_alive hx) eqn:E; auto. specialize (H2 x). unfold alive, rc in H2. rewrite Hx in H2.
          specialize (H2 E). lia. }
        pose proof (H1 x) as Hxx. unfold rc in Hxx. rewrite Hx, Hrc in Hxx.
        assert (Ecx : cnt (x :: w) x = S (cnt w x)) by (apply count_occ_cons_eq; auto).
        rewrite Ecx in Hxx.
        assert (Hself : hcount hx x = 0).
        { assert (hcount hx x <= holders st x).
          { pose proof (sumf_ge _ (fun h => hcount h x) (heaps st) x hx Hx). simpl in H. unfold holders. lia. }
          lia. }
        split.
        -- intros y. pose proof (holders_upd_heap st x f_kill hx y Hx).
           assert (hcount (f_kill hx) y = 0) by reflexivity.
           assert (hcount hx y = cnt (h_refs hx ++ h_mrefs hx) y). { unfold hcount. rewrite Halx. auto. }
           rewrite rc_upd, Hx. rewrite !cnt_app. rewrite cnt_app in H3. specialize (H1 y). rewrite cnt_cons in H1.
           destruct (Nat.eqb_spec y x).
           ++ subst y. simpl. unfold hcount in Hself. rewrite Halx, cnt_app in Hself. lia.
           ++ destruct (Nat.eq_dec x y); try congruence. lia.
        -- intros y. rewrite rc_upd, alive_upd, Hx. destruct (Nat.eqb_spec y x); auto.
      * (* not the last *)
        apply IHfuel. destruct H as [H1 H2]. split.
        -- intros y. pose proof (holders_upd_heap st x f_dec hx y Hx).
           assert (hcount (f_dec hx) y = hcount hx y) by reflexivity.
           rewrite rc_upd, Hx. specialize (H1 y). rewrite cnt_cons in H1. destruct (Nat.eqb_spec y x).
           ++ subst y. unfold rc in H1. rewrite Hx, Hrc in H1. simpl. rewrite Hrc. simpl.
              destruct (Nat.eq_dec x x); try congruence. lia.
           ++ destruct (Nat.eq_dec x y); try congruence. lia.
        -- intros y. rewrite rc_upd, alive_upd, Hx. destruct (Nat.eqb_spec y x); auto.
           simpl. intros E. specialize (H2 x). unfold alive, rc in H2. rewrite Hx in H2. specialize (H2 E). lia.
Qed.

Lemma drop_refs_cnt : forall st l, CntW st l -> Cnt (drop_refs st l).
Proof. intros. unfold drop_refs. apply release_cnt. auto. Qed.

(* consequences of the count invariant: what is held is alive *)

Lemma held_alive : forall st w r ro x, CntW st w -> get_root st r = Some ro -> In x (r_holds ro) -> alive st x = true.
Proof.
  intros st w r ro x [H1 H2] Hr Hin. destruct (alive st x) eqn:E; auto. specialize (H2 x E). specialize (H1 x).
  apply get_root_nth in Hr.
  pose proof (sumf_ge _ (fun r => rcount r x) (roots st) r (Some ro) Hr). simpl in H.
  assert (cnt (r_holds ro) x > 0) by (apply count_occ_In; auto).
  unfold holders in H1. lia.
Qed.

Lemma ref_alive : forall st w a x, CntW st w -> alive st a = true -> In x (all_refs st a) -> alive st x = true.
Proof.
  intros st w a x [H1 H2] Ha Hin. destruct (alive st x) eqn:E; auto. specialize (H2 x E). specialize (H1 x).
  unfold all_refs in Hin. destruct (alive_exists _ _ Ha) as [ha [Hga Hal]]. rewrite Hga in Hin.
  pose proof (sumf_ge _ (fun h => hcount h x) (heaps st) a ha Hga). simpl in H.
  assert (hcount ha x > 0). { unfold hcount. rewrite Hal. apply count_occ_In; auto. }
  unfold holders in H1. lia.
Qed.

Lemma rstar_alive : forall st w a b, CntW st w -> rstar st a b -> alive st a = true -> alive st b = true.
Proof. intros st w a b HC H. induction H; intros; auto. apply IHrstar. eapply ref_alive; eauto. Qed.

(* ------------------------------------------------------------------ the reference graph *)

Definition refs_le (st st' : state) : Prop := forall a x, In x (all_refs st a) -> In x (all_refs st' a).

Lemma refs_le_refl : forall st, refs_le st st.
Proof. intros st a x H; auto. Qed.

Lemma refs_le_trans : forall s1 s2 s3, refs_le s1 s2 -> refs_le s2 s3 -> refs_le s1 s3.
Proof. intros s1 s2 s3 H1 H2 a x H. auto. Qed.

Lemma rstar_mono : forall st st' a b, refs_le st st' -> rstar st a b -> rstar st' a b.
Proof. intros st st' a b H R. induction R. constructor. econstructor; eauto. Qed.

Lemma rstar_trans : forall st a b c, rstar st a b -> rstar st b c -> rstar st a c.
Proof. intros st a b c R1 R2. induction R1; auto. econstructor; eauto. Qed.

Lemma rstar_one : forall st a b, In b (all_refs st a) -> rstar st a b.
Proof. intros. econstructor; eauto. constructor. Qed.

Definition WFW (st : state) (w : list hid) : Prop := CntW st w /\ Inv st /\ RootInv st.
Definition WF (st : state) : Prop := WFW st [].

Lemma heaps_eq_facts : forall st st', heaps st' = heaps st ->
  (forall x, alive st' x = alive st x) /\ (forall x, all_refs st' x = all_refs st x) /\ (forall x, edges st' x = edges st x)
  /\ (forall x, rc st' x = rc st x).
Proof. intros. unfold alive, all_refs, edges, rc, get_heap. rewrite H. auto. Qed.

Lemma Inv_transfer : forall st st', Inv st -> refs_le st st' ->
  (forall a b, alive st' a = true -> In b (edges st' a) -> alive st a = true /\ In b (edges st a)) -> Inv st'.
Proof. intros st st' HI HR HE a b Ha Hb. destruct (HE a b Ha Hb). eapply rstar_mono; eauto. Qed.

Lemma RootInv_transfer : forall st st', RootInv st -> refs_le st st' ->
  (forall r ro, get_root st' r = Some ro -> get_root st r = Some ro) -> RootInv st'.
Proof.
  intros st st' HI HR HG r ro s v Hh Hin. unfold held in *. destruct (HI r ro s v (HG _ _ Hh) Hin) as [k [K1 K2]].
  exists k. split; auto. eapply rstar_mono; eauto.
Qed.

Lemma all_refs_upd : forall st a f x,
  all_refs (upd_heap st a f) x =
  if Nat.eqb x a then (match get_heap st a with Some ha => h_refs (f ha) ++ h_mrefs (f ha) | None => [] end) else all_refs st x.
Proof. intros. unfold all_refs. rewrite get_heap_upd. destruct (Nat.eqb x a); auto. destruct (get_heap st a); auto. Qed.

Lemma edges_upd : forall st a f x,
  edges (upd_heap st a f) x =
  if Nat.eqb x a then (match get_heap st a with Some ha => h_edges (f ha) | None => [] end) else edges st x.
Proof. intros. unfold edges. rewrite get_heap_upd. destruct (Nat.eqb x a); auto. destruct (get_heap st a); auto. Qed.

Definition keeps (f : heap -> heap) : Prop :=
  forall h, h_refs (f h) = h_refs h /\ h_mrefs (f h) = h_mrefs h /\ h_edges (f h) = h_edges h.

Lemma keeps_graph : forall st a f, keeps f ->
  (forall x, all_refs (upd_heap st a f) x = all_refs st x) /\ (forall x, edges (upd_heap st a f) x = edges st x).
Proof.
  intros. split; intros.
  - rewrite all_refs_upd. destruct (Nat.eqb_spec x a); auto. subst. unfold all_refs.
    destruct (get_heap st a) as [ha|]; auto. destruct (H ha) as [K1 [K2 K3]]. rewrite K1, K2. auto.
  - rewrite edges_upd. destruct (Nat.eqb_spec x a); auto. subst. unfold edges.
    destruct (get_heap st a) as [ha|]; auto. destruct (H ha) as [K1 [K2 K3]]. rewrite K3. auto.
Qed.

Lemma keeps_inc : keeps f_inc. Proof. intro h; auto. Qed.
Lemma keeps_dec : keeps f_dec. Proof. intro h; auto. Qed.
Lemma keeps_kill : keeps f_kill. Proof. intro h; auto. Qed.
Lemma keeps_mark : keeps f_mark_sealed. Proof. intro h; auto. Qed.
Lemma neutral_mark : neutral f_mark_sealed. Proof. intro h; auto. Qed.

(* release only changes liveness and counts *)
Lemma release_frame : forall fuel w st,
  (forall x, all_refs (release fuel w st) x = all_refs st x) /\ (forall x, edges (release fuel w st) x = edges st x)
  /\ roots (release fuel w st) = roots st /\ (forall x, alive (release fuel w st) x = true -> alive st x = true).
Proof.
  induction fuel; intros; simpl.
  - auto.
  - destruct w as [|x w]; auto. destruct (get_heap st x) as [hx|] eqn:Hx; auto.
    destruct (h_rc hx) as [|[|n]]; auto.
    + destruct (IHfuel (h_refs hx ++ h_mrefs hx ++ w) (upd_heap st x f_kill)) as [I1 [I2 [I3 I4]]].
      destruct (keeps_graph st x f_kill keeps_kill) as [K1 K2].
      repeat split; intros.
      * rewrite I1. apply K1.
      * rewrite I2. apply K2.
      * rewrite I3. reflexivity.
      * apply I4 in H. rewrite alive_upd, Hx in H. destruct (Nat.eqb_spec x0 x); auto. simpl in H. discriminate.
    + destruct (IHfuel w (upd_heap st x f_dec)) as [I1 [I2 [I3 I4]]].
      destruct (keeps_graph st x f_dec keeps_dec) as [K1 K2].
      repeat split; intros.
      * rewrite I1. apply K1.
      * rewrite I2. apply K2.
      * rewrite I3. reflexivity.
      * apply I4 in H. rewrite alive_upd, Hx in H. destruct (Nat.eqb_spec x0 x); auto. subst. unfold alive. rewrite Hx. auto.
Qed.

Lemma eq_refs_le : forall st st', (forall x, all_refs st' x = all_refs st x) -> refs_le st st'.
Proof. intros st st' H a x Hin. rewrite H. auto. Qed.

Lemma get_root_roots : forall st st', roots st' = roots st -> forall r, get_root st' r = get_root st r.
Proof. intros. unfold get_root. rewrite H. auto. Qed.

Lemma release_wf : forall fuel w st, WFW st w -> WF (release fuel w st).
Proof.
  intros fuel w st [HC [HI HR]]. destruct (release_frame fuel w st) as [F1 [F2 [F3 F4]]]. split; [|split].
  - apply release_cnt; auto.
  - eapply Inv_transfer; eauto. apply eq_refs_le; auto. intros. rewrite F2 in H0. auto.
  - eapply RootInv_transfer; eauto. apply eq_refs_le; auto. intros. rewrite (get_root_roots _ _ F3) in H. auto.
Qed.

(* frames of the reference-taking helpers *)
Definition hframe (st st' : state) : Prop :=
  refs_le st st' /\ (forall y, edges st' y = edges st y) /\ (forall y, alive st' y = alive st y) /\ roots st' = roots st.

Lemma hframe_refl : forall st, hframe st st.
Proof. intros. repeat split; auto. apply refs_le_refl. Qed.

Lemma hframe_trans : forall s1 s2 s3, hframe s1 s2 -> hframe s2 s3 -> hframe s1 s3.
Proof.
  intros s1 s2 s3 [A1 [A2 [A3 A4]]] [B1 [B2 [B3 B4]]]. repeat split; intros.
  - eapply refs_le_trans; eauto.
  - rewrite B2; auto.
  - rewrite B3; auto.
  - congruence.
Qed.

Lemma inc_rc_frame : forall st x, hframe st (inc_rc st x).
Proof.
  intros. unfold inc_rc. destruct (keeps_graph st x f_inc keeps_inc) as [K1 K2]. repeat split; auto.
  - apply eq_refs_le; auto.
  - apply alive_inc.
Qed.

Lemma push_frame : forall st a x (mut : bool),
  let st' := inc_rc (upd_heap st a (if mut then f_push_mref x else f_push_ref x)) x in
  hframe st st' /\ (get_heap st a <> None -> In x (all_refs st' a)).
Proof.
  intros. set (g := if mut then f_push_mref x else f_push_ref x).
  assert (A' : forall y z, In z (all_refs st y) -> In z (all_refs (upd_heap st a g) y)).
  { intros y z Hin. rewrite all_refs_upd. destruct (Nat.eqb_spec y a); auto. subst. unfold all_refs in Hin.
    destruct (get_heap st a); auto. unfold g; destruct mut; simpl; auto. apply in_app_iff in Hin. apply in_app_iff.
    destruct Hin; simpl; auto. }
  assert (B : In x (match get_heap st a with Some ha => h_refs (g ha) ++ h_mrefs (g ha) | None => [x] end)).
  { destruct (get_heap st a); simpl; auto. unfold g; destruct mut; simpl; auto. apply in_app_iff. simpl; auto. }
  assert (E : forall y, edges (upd_heap st a g) y = edges st y).
  { intros. rewrite edges_upd. destruct (Nat.eqb_spec y a); auto. subst. unfold edges. destruct (get_heap st a); auto.
    unfold g; destruct mut; reflexivity. }
  assert (L : forall y, alive (upd_heap st a g) y = alive st y).
  { intros. rewrite alive_upd. destruct (Nat.eqb_spec y a); auto. subst. unfold alive. destruct (get_heap st a); auto.
    unfold g; destruct mut; reflexivity. }
  destruct (inc_rc_frame (upd_heap st a g) x) as [I1 [I2 [I3 I4]]].
  split.
  - repeat split; intros.
    + intros y z Hin. apply I1. apply A'. auto.
    + subst st'. fold g. rewrite I2. apply E.
    + subst st'. fold g. rewrite I3. apply L.
  - intros Hne. subst st'. fold g. apply I1. rewrite all_refs_upd, Nat.eqb_refl.
    destruct (get_heap st a); try congruence.
Qed.

Lemma add_ref_frame : forall st a x,
  hframe st (add_ref st a x) /\ (get_heap st a <> None -> In x (all_refs (add_ref st a x) a)).
Proof.
  intros. unfold add_ref. destruct (get_heap st a) as [ha|] eqn:Ha.
  - destruct (mem x (h_refs ha)) eqn:M.
    + split. apply hframe_refl. intros _. unfold all_refs. rewrite Ha. apply in_app_iff. left. apply mem_In; auto.
    + destruct (push_frame st a x false) as [P1 P2]. split; auto. intros _. apply P2. congruence.
  - split. apply hframe_refl. congruence.
Qed.

Lemma add_mref_frame : forall st a x,
  hframe st (add_mref st a x) /\ (get_heap st a <> None -> In x (all_refs (add_mref st a x) a)).
Proof.
  intros. unfold add_mref. destruct (get_heap st a) as [ha|] eqn:Ha.
  - destruct (mem x (h_mrefs ha)) eqn:M.
    + split. apply hframe_refl. intros _. unfold all_refs. rewrite Ha. apply in_app_iff. right. apply mem_In; auto.
    + destruct (push_frame st a x true) as [P1 P2]. split; auto. intros _. apply P2. congruence.
  - split. apply hframe_refl. congruence.
Qed.

Lemma hframe_exists : forall st st' a, hframe st st' -> alive st a = true -> get_heap st' a <> None.
Proof.
  intros st st' a [_ [_ [L _]]] Ha. rewrite <- L in Ha. unfold alive in Ha. destruct (get_heap st' a); congruence.
Qed.

Lemma alive_heap_ne : forall st a, alive st a = true -> get_heap st a <> None.
Proof. unfold alive. intros. destruct (get_heap st a); congruence. Qed.

(* folding a reference-taking helper over the heaps held by a handle / the mutable half *)
Lemma fold_addref : forall (add : state -> hid -> hid -> state) a,
  (forall st x, hframe st (add st a x) /\ (get_heap st a <> None -> In x (all_refs (add st a x) a))) ->
  (forall st w x, CntW st w -> alive st x = true -> CntW (add st a x) w) ->
  forall l st w, CntW st w -> (forall x, In x l -> alive st x = true) -> alive st a = true ->
  let st' := fold_left (fun st x => add st a x) l st in
  CntW st' w /\ hframe st st' /\ (forall x, In x l -> In x (all_refs st' a)).
Proof.
  intros add a HF HC. induction l; simpl; intros.
  - split; auto. split. apply hframe_refl. intros x [].
  - destruct (HF st a0) as [F1 F2].
    assert (C1 : CntW (add st a a0) w) by (apply HC; auto).
    destruct F1 as [R1 [E1 [L1 Ro1]]].
    destruct (IHl (add st a a0) w C1) as [I1 [I2 I3]].
    { intros. rewrite L1. auto. }
    { rewrite L1. auto. }
    split; auto. split.
    + eapply hframe_trans; eauto. repeat split; auto.
    + intros x [Hx|Hx]; auto. subst. destruct I2 as [R2 _]. apply R2. apply F2. apply alive_heap_ne; auto.
Qed.

(* ------------------------------------------------------------------ value edges and named values *)

Lemma heaps_add_val : forall st r s hv, heaps (add_val st r s hv) = heaps st.
Proof. intros. unfold add_val. destruct (get_root st r); auto. Qed.

Lemma heaps_set_kind : forall st r k, heaps (set_kind st r k) = heaps st.
Proof. intros. unfold set_kind. destruct (get_root st r); auto. Qed.

Lemma add_edge_frame : forall st a b,
  (forall x, all_refs (add_edge st a b) x = all_refs st x) /\ (forall x, alive (add_edge st a b) x = alive st x)
  /\ roots (add_edge st a b) = roots st
  /\ (forall x y, In y (edges (add_edge st a b) x) -> In y (edges st x) \/ (x = a /\ y = b)).
Proof.
  intros. unfold add_edge. destruct (Nat.eqb a b). { repeat split; auto. }
  repeat split; intros.
  - rewrite all_refs_upd. destruct (Nat.eqb_spec x a); auto. subst. unfold all_refs. destruct (get_heap st a); auto.
  - rewrite alive_upd. destruct (Nat.eqb_spec x a); auto. subst. unfold alive. destruct (get_heap st a); auto.
  - rewrite edges_upd in H. destruct (Nat.eqb_spec x a); auto. subst. unfold edges.
    destruct (get_heap st a); simpl in H; auto. destruct H; auto.
Qed.

Lemma add_edge_wf : forall st w a b, WFW st w -> rstar st a b -> WFW (add_edge st a b) w.
Proof.
  intros st w a b [HC [HI HR]] Hab. destruct (add_edge_frame st a b) as [F1 [F2 [F3 F4]]]. split; [|split].
  - apply add_edge_cnt; auto.
  - intros x y Hx Hy. rewrite F2 in Hx. apply F4 in Hy. eapply rstar_mono. apply eq_refs_le; eauto.
    destruct Hy as [Hy|[? ?]]; subst; auto.
  - eapply RootInv_transfer; eauto. apply eq_refs_le; auto. intros. rewrite (get_root_roots _ _ F3) in H. auto.
Qed.

Lemma add_val_root : forall st r s hv r' ro', get_root (add_val st r s hv) r' = Some ro' ->
  get_root st r' = Some ro' \/
  (r' = r /\ exists ro, get_root st r = Some ro /\ ro' = mkRoot (r_kind ro) (r_holds ro) ((s, hv) :: r_vals ro)).
Proof.
  intros. unfold add_val in H. destruct (get_root st r) as [ro|] eqn:Hr; auto.
  rewrite get_root_set_root in H. destruct (Nat.eqb_spec r' r); auto. subst.
  rewrite (get_root_nth _ _ _ Hr) in H. inversion H; subst. right. split; auto. eauto.
Qed.

Lemma add_val_wf : forall st w r s hv, WFW st w ->
  (forall ro, get_root st r = Some ro -> exists k, In k (r_holds ro) /\ rstar st k hv) -> WFW (add_val st r s hv) w.
Proof.
  intros st w r s hv [HC [HI HR]] Hcov. destruct (heaps_eq_facts _ _ (heaps_add_val st r s hv)) as [F1 [F2 [F3 F4]]].
  split; [|split].
  - apply add_val_cnt; auto.
  - eapply Inv_transfer; eauto. apply eq_refs_le; auto. intros. rewrite F1 in H. rewrite F3 in H0. auto.
  - intros r' ro' s' v' Hh Hin. unfold held in Hh. apply add_val_root in Hh.
    assert (RL : refs_le st (add_val st r s hv)) by (apply eq_refs_le; auto).
    destruct Hh as [Hh|[? [ro [Hr ?]]]].
    + destruct (HR _ _ _ _ Hh Hin) as [k [K1 K2]]. exists k. split; auto. eapply rstar_mono; eauto.
    + subst. simpl in *. destruct Hin as [Hin|Hin].
      * inversion Hin; subst. destruct (Hcov _ Hr) as [k [K1 K2]]. exists k. split; auto. eapply rstar_mono; eauto.
      * destruct (HR _ _ _ _ Hr Hin) as [k [K1 K2]]. exists k. split; auto. eapply rstar_mono; eauto.
Qed.

(* context of an open module / builder: root m holds exactly the live heap a *)
Definition Ctx (st : state) (m : rid) (a : hid) : Prop := exists ro, get_root st m = Some ro /\ r_holds ro = [a].

Lemma Ctx_add_edge : forall st m a x y, Ctx st m a -> Ctx (add_edge st x y) m a.
Proof.
  intros st m a x y [ro [H1 H2]]. exists ro. split; auto.
  destruct (add_edge_frame st x y) as [_ [_ [F3 _]]]. rewrite (get_root_roots _ _ F3). auto.
Qed.

Lemma Ctx_add_val : forall st m a r s hv, Ctx st m a -> Ctx (add_val st r s hv) m a.
Proof.
  intros st m a r s hv [ro [H1 H2]]. unfold add_val. destruct (get_root st r) as [rr|] eqn:Hr; [|exists ro; auto].
  unfold Ctx. rewrite get_root_set_root. destruct (Nat.eqb_spec m r).
  - subst. rewrite (get_root_nth _ _ _ Hr). rewrite H1 in Hr. inversion Hr; subst. eexists. split; eauto.
  - exists ro; auto.
Qed.

Lemma rstar_add_edge : forall st x y a b, rstar st a b -> rstar (add_edge st x y) a b.
Proof. intros. eapply rstar_mono; eauto. apply eq_refs_le. apply add_edge_frame. Qed.

Lemma rstar_add_val : forall st r s hv a b, rstar st a b -> rstar (add_val st r s hv) a b.
Proof. intros. eapply rstar_mono; eauto. apply eq_refs_le. apply (heaps_eq_facts _ _ (heaps_add_val st r s hv)). Qed.

(* link: a named value of root m (holding heap a) that lives in hv, with the value edge a -> hv *)
Lemma link_wf : forall st w m a s hv, WFW st w -> Ctx st m a -> rstar st a hv ->
  WFW (add_val (add_edge st a hv) m s hv) w.
Proof.
  intros. apply add_val_wf. apply add_edge_wf; auto.
  intros ro Hr. destruct (Ctx_add_edge st m a a hv H0) as [ro' [R1 R2]]. rewrite R1 in Hr. inversion Hr; subst.
  exists a. rewrite R2. split; simpl; auto. apply rstar_add_edge; auto.
Qed.

Lemma lookup_In : forall s vals h, lookup s vals = Some h -> In (s, h) vals.
Proof.
  induction vals as [|[s' h'] t]; simpl; intros; try discriminate.
  destruct (Nat.eqb_spec s s'); auto. inversion H; subst; auto.
Qed.

Definition Cov (st : state) (a : hid) (src : list (sym * hid)) : Prop :=
  forall s hv, In (s, hv) src -> rstar st a hv.

Lemma bind_vals_wf : forall binds st w m a src, WFW st w -> Ctx st m a -> Cov st a src ->
  WFW (bind_vals st m a src binds) w.
Proof.
  unfold bind_vals. induction binds as [|[s gs] t]; simpl; intros; auto.
  destruct (lookup gs src) as [hv|] eqn:L; auto.
  apply IHt.
  - apply link_wf; auto. eapply H1. apply lookup_In; eauto.
  - apply Ctx_add_val, Ctx_add_edge; auto.
  - intros s' hv' Hin. apply rstar_add_val, rstar_add_edge. eauto.
Qed.

Lemma copy_vals_wf : forall src st w m a, WFW st w -> Ctx st m a -> Cov st a src ->
  WFW (copy_vals st m a src) w /\ Ctx (copy_vals st m a src) m a /\ refs_le st (copy_vals st m a src).
Proof.
  unfold copy_vals. induction src as [|[s hv] t]; simpl; intros.
  - split; auto. split; auto. apply refs_le_refl.
  - destruct (IHt st w m a H H0) as [I1 [I2 I3]]. { intros s' hv' Hin. eapply H1; simpl; eauto. }
    split; [|split].
    + apply link_wf; auto. eapply rstar_mono; eauto. eapply H1; simpl; eauto.
    + apply Ctx_add_val, Ctx_add_edge; auto.
    + eapply refs_le_trans; eauto. eapply refs_le_trans.
      * apply eq_refs_le. apply (add_edge_frame _ a hv).
      * apply eq_refs_le. apply (heaps_eq_facts _ _ (heaps_add_val _ m s hv)).
Qed.

Lemma edges_to_wf : forall src st w a, WFW st w -> Cov st a src ->
  WFW (edges_to st a src) w /\ (forall x, all_refs (edges_to st a src) x = all_refs st x)
  /\ roots (edges_to st a src) = roots st /\ (forall x, alive (edges_to st a src) x = alive st x).
Proof.
  unfold edges_to. induction src as [|[s hv] t]; simpl; intros.
  - auto.
  - destruct (IHt st w a H) as [I1 [I2 [I3 I4]]]. { intros s' hv' Hin. eapply H0; simpl; eauto. }
    destruct (add_edge_frame (fold_right (fun sv st => add_edge st a (snd sv)) st t) a hv) as [F1 [F2 [F3 _]]].
    split; [|split; [|split]]; intros.
    + apply add_edge_wf; auto. eapply rstar_mono. apply eq_refs_le; eauto. eapply H0; simpl; eauto.
    + rewrite F1; auto.
    + rewrite F3; auto.
    + rewrite F2; auto.
Qed.

Lemma dep_edges_wf : forall deps st w a vals, WFW st w -> Cov st a vals ->
  WFW (dep_edges st a vals deps) w /\ (forall x, all_refs (dep_edges st a vals deps) x = all_refs st x)
  /\ roots (dep_edges st a vals deps) = roots st.
Proof.
  unfold dep_edges. induction deps as [|d t]; simpl; intros; auto.
  destruct (lookup d vals) as [hv|] eqn:L; auto.
  destruct (add_edge_frame st a hv) as [F1 [F2 [F3 _]]].
  destruct (IHt (add_edge st a hv) w a vals) as [I1 [I2 I3]].
  - apply add_edge_wf; auto. eapply H0. apply lookup_In; eauto.
  - intros s' hv' Hin. apply rstar_add_edge. eauto.
  - split; auto. split; intros. rewrite I2; auto. rewrite I3; auto.
Qed.

(* ------------------------------------------------------------------ roots *)

Lemma root1_some : forall st r k ro h, root1 st r k = Some (ro, h) -> get_root st r = Some ro /\ r_holds ro = [h].
Proof.
  unfold root1. intros. destruct (get_root st r) as [x|]; try discriminate.
  destruct (kind_eqb (r_kind x) k); try discriminate. destruct (r_holds x) as [|h0 [|]] eqn:E; try discriminate.
  inversion H; subst. auto.
Qed.

Lemma handle_some : forall st r ro hv, handle st r = Some (ro, hv) ->
  get_root st r = Some ro /\ exists s, r_vals ro = [(s, hv)].
Proof.
  unfold handle. intros. destruct (get_root st r) as [x|]; try discriminate.
  destruct (kind_eqb (r_kind x) KHandle); try discriminate. destruct (r_vals x) as [|[s0 h0] [|]] eqn:E; try discriminate.
  inversion H; subst. eauto.
Qed.

Lemma root1_ctx : forall st r k ro h, root1 st r k = Some (ro, h) -> Ctx st r h.
Proof. intros. apply root1_some in H. destruct H. exists ro; auto. Qed.

Lemma hframe_graph : forall st st', hframe st st' -> Inv st -> RootInv st -> Inv st' /\ RootInv st'.
Proof.
  intros st st' [R [E [L Ro]]] HI HR. split.
  - eapply Inv_transfer; eauto. intros. rewrite L in H. rewrite E in H0. auto.
  - eapply RootInv_transfer; eauto. intros. rewrite (get_root_roots _ _ Ro) in H. auto.
Qed.

Lemma Inv_heaps_eq : forall st st', heaps st' = heaps st -> Inv st -> Inv st'.
Proof.
  intros st st' HE HI. destruct (heaps_eq_facts _ _ HE) as [F1 [F2 [F3 F4]]].
  eapply Inv_transfer; eauto. apply eq_refs_le; auto. intros a b Ha Hb. rewrite F1 in Ha. rewrite F3 in Hb. auto.
Qed.

Lemma add_root_wf : forall st w ro, WFW st (r_holds ro ++ w) ->
  (forall s v, In (s, v) (r_vals ro) -> exists k, In k (r_holds ro) /\ rstar st k v) -> WFW (add_root st ro) w.
Proof.
  intros st w ro [HC [HI HR]] Hcov.
  assert (HE : heaps (add_root st ro) = heaps st) by reflexivity.
  destruct (heaps_eq_facts _ _ HE) as [F1 [F2 [F3 F4]]]. split; [|split].
  - apply add_root_cnt; auto.
  - eapply Inv_heaps_eq; eauto.
  - intros r' ro' s v Hh Hin. unfold held in Hh. rewrite get_root_add_root in Hh.
    assert (RL : refs_le st (add_root st ro)) by (apply eq_refs_le; auto).
    destruct (Nat.eqb r' (length (roots st))).
    + inversion Hh; subst. destruct (Hcov _ _ Hin) as [k [K1 K2]]. exists k; split; auto. eapply rstar_mono; eauto.
    + destruct (HR _ _ _ _ Hh Hin) as [k [K1 K2]]. exists k; split; auto. eapply rstar_mono; eauto.
Qed.

Lemma drop_root_wf : forall st w r ro, WFW st w -> get_root st r = Some ro -> WFW (set_root st r None) (r_holds ro ++ w).
Proof.
  intros st w r ro [HC [HI HR]] Hr.
  assert (HE : heaps (set_root st r None) = heaps st) by reflexivity.
  destruct (heaps_eq_facts _ _ HE) as [F1 [F2 [F3 F4]]]. split; [|split].
  - apply drop_root_cnt; auto.
  - eapply Inv_heaps_eq; eauto.
  - eapply RootInv_transfer; eauto. apply eq_refs_le; auto. intros r' ro' H. rewrite get_root_set_root in H.
    destruct (Nat.eqb r' r); auto. destruct (nth_error (roots st) r); discriminate.
Qed.

Lemma set_kind_wf : forall st w r k, WFW st w -> WFW (set_kind st r k) w.
Proof.
  intros st w r k [HC [HI HR]].
  destruct (heaps_eq_facts _ _ (heaps_set_kind st r k)) as [F1 [F2 [F3 F4]]]. split; [|split].
  - apply set_kind_cnt; auto.
  - eapply Inv_heaps_eq; [apply heaps_set_kind|auto].
  - intros r' ro' s v Hh Hin. unfold held in Hh. unfold set_kind in Hh.
    assert (RL : refs_le st (set_kind st r k)) by (apply eq_refs_le; auto).
    destruct (get_root st r) as [ro|] eqn:Hr.
    + rewrite get_root_set_root in Hh. destruct (Nat.eqb_spec r' r).
      * subst. rewrite (get_root_nth _ _ _ Hr) in Hh. inversion Hh; subst. simpl in *.
        destruct (HR _ _ _ _ Hr Hin) as [k0 [K1 K2]]. exists k0; split; auto. eapply rstar_mono; eauto.
      * destruct (HR _ _ _ _ Hh Hin) as [k0 [K1 K2]]. exists k0; split; auto. eapply rstar_mono; eauto.
    + destruct (HR _ _ _ _ Hh Hin) as [k0 [K1 K2]]. exists k0; split; auto. eapply rstar_mono; eauto.
Qed.

Lemma neutral_keeps_wf : forall st w a f, neutral f -> keeps f -> WFW st w -> WFW (upd_heap st a f) w.
Proof.
  intros st w a f N K [HC [HI HR]]. destruct (keeps_graph st a f K) as [K1 K2].
  destruct (neutral_frame st a f N) as [_ [_ F3]]. split; [|split].
  - apply neutral_cnt; auto.
  - eapply Inv_transfer; eauto. apply eq_refs_le; auto. intros. rewrite F3 in H. rewrite K2 in H0. auto.
  - eapply RootInv_transfer; eauto. apply eq_refs_le; auto.
Qed.

Lemma new_heap_wf : forall st w, WFW st w ->
  let st1 := fst (new_heap st) in let h := snd (new_heap st) in
  WFW st1 (h :: w) /\ (forall x, all_refs st1 x = all_refs st x) /\ roots st1 = roots st
  /\ alive st1 h = true /\ (forall x, alive st x = true -> alive st1 x = true).
Proof.
  intros st w [HC [HI HR]]. simpl.
  assert (Hn : get_heap st (length (heaps st)) = None) by (apply nth_error_None; unfold hid; lia).
  assert (A : forall x, all_refs (fst (new_heap st)) x = all_refs st x).
  { intros. unfold all_refs. rewrite get_heap_new. destruct (Nat.eqb_spec x (length (heaps st))); auto. subst. rewrite Hn. auto. }
  assert (E : forall x, edges (fst (new_heap st)) x = edges st x).
  { intros. unfold edges. rewrite get_heap_new. destruct (Nat.eqb_spec x (length (heaps st))); auto. subst. rewrite Hn. auto. }
  assert (L : forall x, alive (fst (new_heap st)) x = if Nat.eqb x (length (heaps st)) then true else alive st x).
  { intros. unfold alive. rewrite get_heap_new. destruct (Nat.eqb x (length (heaps st))); auto. }
  split; [split; [|split]|split; [|split; [|split]]]; auto.
  - apply (new_heap_cnt st w HC).
  - eapply Inv_transfer; eauto. apply eq_refs_le; auto. intros a b Ha Hb. rewrite E in Hb. rewrite L in Ha.
    destruct (Nat.eqb_spec a (length (heaps st))); auto. subst. unfold edges in Hb. rewrite Hn in Hb. destruct Hb.
  - eapply RootInv_transfer; eauto. apply eq_refs_le; auto.
  - rewrite L, Nat.eqb_refl. auto.
  - intros. rewrite L. destruct (Nat.eqb x (length (heaps st))); auto.
Qed.

(* ------------------------------------------------------------------ freeze: carry-over of the mutable half's references *)

Definition refs_of (st : state) (a : hid) : list hid := match get_heap st a with Some h => h_refs h | None => [] end.
Definition mrefs_of (st : state) (a : hid) : list hid := match get_heap st a with Some h => h_mrefs h | None => [] end.

Lemma add_ref_refs_of : forall st a x,
  (forall y z, In z (refs_of st y) -> In z (refs_of (add_ref st a x) y)) /\
  (forall y, mrefs_of (add_ref st a x) y = mrefs_of st y) /\
  (get_heap st a <> None -> In x (refs_of (add_ref st a x) a)).
Proof.
  intros. unfold add_ref. destruct (get_heap st a) as [ha|] eqn:Ha.
  2:{ repeat split; auto. congruence. }
  destruct (mem x (h_refs ha)) eqn:M.
  { repeat split; auto. intros _. unfold refs_of. rewrite Ha. apply mem_In; auto. }
  assert (G : forall y, get_heap (inc_rc (upd_heap st a (f_push_ref x)) x) y =
              option_map (fun h => if Nat.eqb y x then f_inc h else h)
                (if Nat.eqb y a then Some (f_push_ref x ha) else get_heap st y)).
  { intros. unfold inc_rc. rewrite get_heap_upd. destruct (Nat.eqb_spec y x).
    - subst y. rewrite get_heap_upd, Ha. simpl. destruct (Nat.eqb x a); simpl; auto; destruct (get_heap st x); auto.
    - rewrite get_heap_upd, Ha. simpl. destruct (Nat.eqb y a); simpl; auto; destruct (get_heap st y); auto. }
  repeat split; intros.
  - unfold refs_of in *. rewrite G. destruct (Nat.eqb_spec y a).
    + subst. rewrite Ha in H. simpl. destruct (Nat.eqb a x); simpl; auto.
    + destruct (get_heap st y); simpl; auto. destruct (Nat.eqb y x); auto.
  - unfold mrefs_of. rewrite G. destruct (Nat.eqb_spec y a).
    + subst. rewrite Ha. simpl. destruct (Nat.eqb a x); auto.
    + destruct (get_heap st y); simpl; auto. destruct (Nat.eqb y x); auto.
  - unfold refs_of. rewrite G, Nat.eqb_refl. simpl. destruct (Nat.eqb a x); simpl; auto.
Qed.

Lemma fold_add_ref_refs_of : forall a l st, alive st a = true ->
  let st' := fold_left (fun st x => add_ref st a x) l st in
  (forall z, In z (refs_of st a) -> In z (refs_of st' a)) /\ mrefs_of st' a = mrefs_of st a
  /\ (forall x, In x l -> In x (refs_of st' a)).
Proof.
  intros a. induction l; simpl; intros.
  - repeat split; auto. intros x [].
  - destruct (add_ref_refs_of st a a0) as [A1 [A2 A3]].
    destruct (add_ref_frame st a a0) as [[_ [_ [L _]]] _].
    destruct (IHl (add_ref st a a0)) as [I1 [I2 I3]]. { rewrite L; auto. }
    repeat split; intros; auto.
    + rewrite I2. apply A2.
    + destruct H0; auto. subst. apply I1. apply A3. apply alive_heap_ne; auto.
Qed.

Lemma keeps_refs_edges_seal : forall st a ha, get_heap st a = Some ha -> incl (h_mrefs ha) (h_refs ha) ->
  refs_le st (upd_heap st a f_seal) /\ (forall y, edges (upd_heap st a f_seal) y = edges st y)
  /\ (forall y, alive (upd_heap st a f_seal) y = alive st y).
Proof.
  intros st a ha Ha Hin. repeat split; intros.
  - intros y z Hz. rewrite all_refs_upd. destruct (Nat.eqb_spec y a); auto. subst. rewrite Ha. simpl.
    unfold all_refs in Hz. rewrite Ha in Hz. rewrite app_nil_r. apply in_app_iff in Hz. destruct Hz; auto.
  - rewrite edges_upd. destruct (Nat.eqb_spec y a); auto. subst. unfold edges. rewrite Ha. auto.
  - rewrite alive_upd. destruct (Nat.eqb_spec y a); auto. subst. unfold alive. rewrite Ha. auto.
Qed.

(* ------------------------------------------------------------------ every operation preserves the invariant *)

Lemma held_cov : forall st w r ro h s hv, WFW st w -> get_root st r = Some ro -> r_holds ro = [h] ->
  In (s, hv) (r_vals ro) -> rstar st h hv.
Proof.
  intros st w r ro h s hv [_ [_ HR]] Hr Hh Hin. destruct (HR _ _ _ _ Hr Hin) as [k [K1 K2]].
  rewrite Hh in K1. destruct K1 as [|[]]; subst; auto.
Qed.

Lemma wf_held_alive : forall st w r ro x, WFW st w -> get_root st r = Some ro -> In x (r_holds ro) -> alive st x = true.
Proof. intros st w r ro x [HC _] Hr Hin. eapply held_alive; eauto. Qed.

Lemma root1_alive : forall st w r k ro h, WFW st w -> root1 st r k = Some (ro, h) -> alive st h = true.
Proof.
  intros. destruct (root1_some _ _ _ _ _ H0) as [Hr Hh]. eapply wf_held_alive; eauto. rewrite Hh. simpl; auto.
Qed.

Lemma Ctx_roots : forall st st' m a, roots st' = roots st -> Ctx st m a -> Ctx st' m a.
Proof. intros st st' m a HR [ro [H1 H2]]. exists ro. rewrite (get_root_roots _ _ HR). auto. Qed.

Lemma fold_inc_frame : forall l st, hframe st (fold_left inc_rc l st).
Proof.
  induction l; simpl; intros. apply hframe_refl. eapply hframe_trans. apply inc_rc_frame. apply IHl.
Qed.

Lemma hframe_wf : forall st st' w, hframe st st' -> CntW st' w -> Inv st -> RootInv st -> WFW st' w.
Proof. intros. destruct (hframe_graph _ _ H H1 H2). split; auto. Qed.

Lemma take_ref_link : forall (add : state -> hid -> hid -> state) st w m a x s hv,
  (forall st x, hframe st (add st a x) /\ (get_heap st a <> None -> In x (all_refs (add st a x) a))) ->
  (forall st w x, CntW st w -> alive st x = true -> CntW (add st a x) w) ->
  WFW st w -> Ctx st m a -> alive st a = true -> alive st x = true -> rstar st x hv ->
  WFW (add_val (add_edge (add st a x) a hv) m s hv) w.
Proof.
  intros add st w m a x s hv HF HCn [HC [HI HR]] HCtx Ha Hx Hcov.
  destruct (HF st x) as [F FIn]. pose proof F as [R [E [L Ro]]].
  apply link_wf.
  - eapply hframe_wf; eauto.
  - eapply Ctx_roots; eauto.
  - econstructor. apply FIn. apply alive_heap_ne; auto. eapply rstar_mono; eauto.
Qed.

(* ------------------------------------------------------------------ carriers: heaps that hold only references *)

(* replacing a held object by one that holds no heap: the heaps it held become pending decrements *)
Lemma unhold_root_cnt : forall st w r ro ro', CntW st w -> get_root st r = Some ro -> r_holds ro' = [] ->
  CntW (set_root st r (Some ro')) (r_holds ro ++ w).
Proof.
  intros st w r ro ro' [H1 H2] Hr Hh. split; auto. intros x.
  pose proof (set_root_holders st r ro (Some ro') x Hr) as S. simpl in S. rewrite Hh in S. simpl in S.
  rewrite cnt_app. specialize (H1 x).
  change (rc (set_root st r (Some ro')) x) with (rc st x). lia.
Qed.

Lemma set_root_graph : forall st r ro', Inv st -> RootInv st ->
  (forall s v, In (s, v) (r_vals ro') -> exists k, In k (r_holds ro') /\ rstar st k v) ->
  Inv (set_root st r (Some ro')) /\ RootInv (set_root st r (Some ro')).
Proof.
  intros st r ro' HI HR Hcov.
  assert (HE : heaps (set_root st r (Some ro')) = heaps st) by reflexivity.
  destruct (heaps_eq_facts _ _ HE) as [F1 [F2 [F3 F4]]]. split.
  - eapply Inv_heaps_eq; eauto.
  - assert (RL : refs_le st (set_root st r (Some ro'))) by (apply eq_refs_le; auto).
    intros r' x s v Hh Hin. unfold held in Hh. rewrite get_root_set_root in Hh. destruct (Nat.eqb r' r).
    + destruct (nth_error (roots st) r); try discriminate. inversion Hh; subst.
      destruct (Hcov _ _ Hin) as [k [K1 K2]]. exists k; split; auto. eapply rstar_mono; eauto.
    + destruct (HR _ _ _ _ Hh Hin) as [k [K1 K2]]. exists k; split; auto. eapply rstar_mono; eauto.
Qed.

Lemma rstar_no_refs : forall st a v, all_refs st a = [] -> rstar st a v -> v = a.
Proof. intros st a v Hn R. inversion R; subst; auto. rewrite Hn in H. destruct H. Qed.

Lemma foreign_vals_In : forall a vals s v, In (s, v) (foreign_vals a vals) -> In (s, v) vals /\ v <> a.
Proof.
  unfold foreign_vals. intros a vals s v H. apply filter_In in H. destruct H as [H1 H2]. split; auto. simpl in H2.
  destruct (Nat.eqb_spec v a); auto; discriminate.
Qed.

Lemma is_nil_true : forall A (l : list A), is_nil l = true -> l = [].
Proof. destruct l; simpl; intros; auto; discriminate. Qed.

(* FrozenHeap::into_ref_impl on an arena-empty heap, with the shortcut as the code has it: when the shortcut fires
   the heap has no references, so (by RootInv) the object exposed no foreign value through it *)
Lemma seal_carrier_wf : forall st b a rb ha k vals, WF st -> root1 st b KCarrier = Some (rb, a) -> get_heap st a = Some ha ->
  (forall s v, In (s, v) vals -> In (s, v) (r_vals rb)) ->
  WF (seal_carrier all_sites st b a ha k vals).
Proof.
  intros st b a rb ha k vals H Eb Ha Hsub. unfold WF in *. unfold seal_carrier. cbn [all_sites].
  destruct (root1_some _ _ _ _ _ Eb) as [Hb Hba]. pose proof H as [HC [HI HR]].
  destruct (is_nil (h_refs ha ++ h_mrefs ha)) eqn:En.
  - apply is_nil_true in En.
    unfold drop_refs. apply release_wf. split.
    + pose proof (unhold_root_cnt st [] b rb (mkRoot k [] (foreign_vals a vals)) HC Hb eq_refl) as U.
      rewrite Hba in U. simpl in U. exact U.
    + apply set_root_graph; auto. simpl. intros s v Hin. apply foreign_vals_In in Hin. destruct Hin as [Hin Hne].
      exfalso. apply Hne. apply (rstar_no_refs st a v). { unfold all_refs. rewrite Ha. auto. }
      eapply held_cov; eauto.
  - assert (W1 : WFW (upd_heap st a f_mark_sealed) []).
    { apply neutral_keeps_wf; auto. apply neutral_mark. apply keeps_mark. }
    destruct W1 as [C1 [I1 R1]]. split.
    + eapply same_holds_cnt; eauto.
    + apply set_root_graph; auto. simpl. intros s v Hin. exists a. split; simpl; auto.
      eapply rstar_mono. apply eq_refs_le. apply (keeps_graph st a f_mark_sealed keeps_mark). eapply held_cov; eauto.
Qed.

Theorem step_wf : forall st o, WF st -> WF (step st o).
Proof.
  intros st o H. unfold WF in *. unfold step. destruct o; cbn [step_cfg all_sites].
  - (* OpNewModule *)
    pose proof (new_heap_wf st [] H) as N. destruct (new_heap st) as [st1 h]. simpl in N.
    destruct N as [N1 _]. apply add_root_wf; simpl; auto. intros s v [].
  - (* OpEval *)
    destruct (root1 st m KOpen) as [[rm a]|] eqn:Em; auto. destruct (root1 st g KGlobals) as [[rg gh]|] eqn:Eg; auto.
    pose proof (root1_ctx _ _ _ _ _ Em) as Cm. destruct (root1_some _ _ _ _ _ Em) as [Hm Hma].
    destruct (root1_some _ _ _ _ _ Eg) as [Hg Hga].
    assert (Aa : alive st a = true) by (eapply root1_alive; eauto).
    assert (Ag : alive st gh = true) by (eapply root1_alive; eauto).
    destruct (add_ref_frame st a gh) as [F FIn]. pose proof F as [R [E [L Ro]]]. pose proof H as [HC [HI HR]].
    assert (W1 : WFW (add_ref st a gh) []) by (eapply hframe_wf; eauto; apply add_ref_cnt; auto).
    assert (R1 : rstar (add_ref st a gh) a gh) by (apply rstar_one; apply FIn; apply alive_heap_ne; auto).
    apply bind_vals_wf.
    + apply add_edge_wf; auto.
    + apply Ctx_add_edge. eapply Ctx_roots; eauto.
    + intros s hv Hin. apply rstar_add_edge. eapply rstar_trans; eauto. eapply rstar_mono; eauto.
      eapply held_cov; eauto.
  - (* OpLoad *)
    destruct (root1 st m KOpen) as [[rm a]|] eqn:Em; auto. destruct (root1 st f KFrozen) as [[rf fh]|] eqn:Ef; auto.
    destruct (lookup their (r_vals rf)) as [hv|] eqn:L; auto.
    pose proof (root1_ctx _ _ _ _ _ Em) as Cm. destruct (root1_some _ _ _ _ _ Em) as [Hm Hma].
    destruct (root1_some _ _ _ _ _ Ef) as [Hf Hfa].
    apply (take_ref_link add_mref st [] m a fh local hv); auto.
    + intros; apply add_mref_frame.
    + intros; apply add_mref_cnt; auto.
    + eapply root1_alive; eauto.
    + eapply root1_alive; eauto.
    + eapply held_cov; eauto. apply lookup_In; eauto.
  - (* OpImport *)
    destruct (root1 st m KOpen) as [[rm a]|] eqn:Em; auto. destruct (root1 st f KFrozen) as [[rf fh]|] eqn:Ef; auto.
    pose proof (root1_ctx _ _ _ _ _ Em) as Cm. destruct (root1_some _ _ _ _ _ Em) as [Hm Hma].
    destruct (root1_some _ _ _ _ _ Ef) as [Hf Hfa].
    assert (Aa : alive st a = true) by (eapply root1_alive; eauto).
    assert (Af : alive st fh = true) by (eapply root1_alive; eauto).
    destruct (add_ref_frame st a fh) as [F FIn]. pose proof F as [R [E [L Ro]]]. pose proof H as [HC [HI HR]].
    apply copy_vals_wf.
    + eapply hframe_wf; eauto. apply add_ref_cnt; auto.
    + eapply Ctx_roots; eauto.
    + intros s hv Hin. econstructor. apply FIn. apply alive_heap_ne; auto. eapply rstar_mono; eauto.
      eapply held_cov; eauto.
  - (* OpDefine *)
    destruct (root1 st m KOpen) as [[rm a]|] eqn:Em; auto.
    destruct (root1_some _ _ _ _ _ Em) as [Hm Hma].
    destruct (dep_edges_wf deps st [] a (r_vals rm) H) as [D1 [D2 D3]].
    { intros s' hv Hin. eapply held_cov; eauto. }
    apply add_val_wf; auto. intros ro Hr. rewrite (get_root_roots _ _ D3) in Hr. rewrite Hm in Hr. inversion Hr; subst.
    exists a. rewrite Hma. split; simpl; auto. constructor.
  - (* OpAlias *)
    destruct (root1 st m KOpen) as [[rm a]|] eqn:Em; auto.
    destruct (lookup s' (r_vals rm)) as [hv|] eqn:L; auto.
    destruct (root1_some _ _ _ _ _ Em) as [Hm Hma].
    apply add_val_wf; auto. intros ro Hr. rewrite Hm in Hr. inversion Hr; subst.
    destruct H as [_ [_ HR]]. eapply HR; eauto. apply lookup_In; eauto.
  - (* OpFreeze *)
    destruct (root1 st m KOpen) as [[rm a]|] eqn:Em; auto.
    destruct (get_heap st a) as [ha|] eqn:Ha; auto.
    destruct (root1_some _ _ _ _ _ Em) as [Hm Hma].
    assert (Aa : alive st a = true) by (eapply root1_alive; eauto).
    pose proof H as [HC [HI HR]].
    assert (Am : forall x, In x (h_mrefs ha) -> alive st x = true).
    { intros. eapply ref_alive; eauto. unfold all_refs. rewrite Ha. apply in_app_iff; auto. }
    destruct (fold_addref add_ref a (fun st x => add_ref_frame st a x) (fun st w x => add_ref_cnt st w a x) (h_mrefs ha) st [] HC Am Aa) as [C1 [F1 _]].
    destruct (fold_add_ref_refs_of a (h_mrefs ha) st Aa) as [_ [M2 M3]].
    set (st1 := fold_left (fun st x => add_ref st a x) (h_mrefs ha) st) in *.
    pose proof F1 as [R [E [L Ro]]].
    destruct (hframe_graph _ _ F1 HI HR) as [I1 RI1].
    assert (Aa1 : alive st1 a = true) by (rewrite L; auto).
    destruct (alive_exists _ _ Aa1) as [ha1 [Ha1 Hal1]].
    assert (Mr : h_mrefs ha1 = h_mrefs ha).
    { unfold mrefs_of in M2. rewrite Ha1, Ha in M2. auto. }
    assert (Incl : incl (h_mrefs ha1) (h_refs ha1)).
    { intros x Hx. rewrite Mr in Hx. apply M3 in Hx. unfold refs_of in Hx. rewrite Ha1 in Hx. auto. }
    destruct (keeps_refs_edges_seal st1 a ha1 Ha1 Incl) as [S1 [S2 S3]].
    unfold drop_refs. apply release_wf. apply set_kind_wf.
    split; [|split].
    + pose proof (seal_cnt st1 [] a ha1 C1 Ha1 Hal1) as SC. rewrite app_nil_r, Mr in SC. auto.
    + eapply Inv_transfer; eauto. intros x y Hx Hy. rewrite S3 in Hx. rewrite S2 in Hy. auto.
    + eapply RootInv_transfer; eauto.
  - (* OpGetOwned *)
    destruct (root1 st f KFrozen) as [[rf fh]|] eqn:Ef; auto.
    destruct (lookup s (r_vals rf)) as [hv|] eqn:L; auto.
    destruct (root1_some _ _ _ _ _ Ef) as [Hf Hfa].
    assert (Af : alive st fh = true) by (eapply root1_alive; eauto).
    pose proof H as [HC [HI HR]]. pose proof (inc_rc_frame st fh) as F. pose proof F as [R _].
    apply add_root_wf; simpl.
    + eapply hframe_wf; eauto. apply inc_rc_cnt; auto.
    + intros s0 v [E|[]]. inversion E; subst. exists fh. split; auto. eapply rstar_mono; eauto.
      eapply held_cov; eauto. apply lookup_In; eauto.
  - (* OpMap *)
    destruct (handle st k) as [[rk hv]|] eqn:Ek; auto.
    destruct (Nat.eqb h hv || match get_heap st hv with Some hh => mem h (h_edges hh) | None => false end) eqn:Ok; auto.
    destruct (handle_some _ _ _ _ Ek) as [Hk [s0 Hv]].
    pose proof H as [HC [HI HR]].
    assert (Ak : forall x, In x (r_holds rk) -> alive st x = true) by (intros; eapply (wf_held_alive st [] k rk); eauto).
    destruct (fold_inc_cnt (r_holds rk) st [] HC Ak) as [C1 L1].
    pose proof (fold_inc_frame (r_holds rk) st) as F. pose proof F as [R _].
    apply add_root_wf; simpl.
    + eapply hframe_wf; eauto.
    + intros s1 v [E|[]]. inversion E; subst v s1.
      destruct (HR k rk s0 hv Hk) as [k0 [K1 K2]]. { rewrite Hv. simpl; auto. }
      exists k0. split; auto. eapply rstar_mono; eauto.
      apply orb_true_iff in Ok. destruct Ok as [Ok|Ok].
      * apply Nat.eqb_eq in Ok. subst. auto.
      * destruct (get_heap st hv) as [hh|] eqn:Hh; try discriminate. apply mem_In in Ok.
        eapply rstar_trans; eauto. apply HI.
        -- eapply rstar_alive; eauto.
        -- unfold edges. rewrite Hh. auto.
  - (* OpAddToHeap *)
    destruct (handle st k) as [[rk hv]|] eqn:Ek; auto.
    destruct (root1 st m KOpen) as [[rm a]|] eqn:Em; auto.
    destruct (handle_some _ _ _ _ Ek) as [Hk [s0 Hv]].
    pose proof (root1_ctx _ _ _ _ _ Em) as Cm. destruct (root1_some _ _ _ _ _ Em) as [Hm Hma].
    pose proof H as [HC [HI HR]].
    assert (Aa : alive st a = true) by (eapply root1_alive; eauto).
    assert (Ak : forall x, In x (r_holds rk) -> alive st x = true) by (intros; eapply (wf_held_alive st [] k rk); eauto).
    destruct (fold_addref add_mref a (fun st x => add_mref_frame st a x) (fun st w x => add_mref_cnt st w a x) (r_holds rk) st [] HC Ak Aa) as [C1 [F1 In1]].
    pose proof F1 as [R [E [L Ro]]].
    destruct (HR k rk s0 hv Hk) as [k0 [K1 K2]]. { rewrite Hv. simpl; auto. }
    apply link_wf.
    + eapply hframe_wf; eauto.
    + eapply Ctx_roots; eauto.
    + econstructor. apply In1; eauto. eapply rstar_mono; eauto.
  - (* OpNewBuilder *)
    pose proof (new_heap_wf st [] H) as N. destruct (new_heap st) as [st1 h]. simpl in N.
    destruct N as [N1 _]. apply add_root_wf; simpl; auto. intros s v [].
  - (* OpAddToBuilder *)
    destruct (handle st k) as [[rk hv]|] eqn:Ek; auto.
    destruct (root1 st b KBuilder) as [[rm a]|] eqn:Em; auto.
    destruct (handle_some _ _ _ _ Ek) as [Hk [s0 Hv]].
    pose proof (root1_ctx _ _ _ _ _ Em) as Cm. destruct (root1_some _ _ _ _ _ Em) as [Hm Hma].
    pose proof H as [HC [HI HR]].
    assert (Aa : alive st a = true) by (eapply root1_alive; eauto).
    assert (Ak : forall x, In x (r_holds rk) -> alive st x = true) by (intros; eapply (wf_held_alive st [] k rk); eauto).
    destruct (fold_addref add_ref a (fun st x => add_ref_frame st a x) (fun st w x => add_ref_cnt st w a x) (r_holds rk) st [] HC Ak Aa) as [C1 [F1 In1]].
    pose proof F1 as [R [E [L Ro]]].
    destruct (HR k rk s0 hv Hk) as [k0 [K1 K2]]. { rewrite Hv. simpl; auto. }
    apply link_wf.
    + eapply hframe_wf; eauto.
    + eapply Ctx_roots; eauto.
    + econstructor. apply In1; eauto. eapply rstar_mono; eauto.
  - (* OpBuild *)
    destruct (root1 st b KBuilder) as [[rm a]|] eqn:Em; auto.
    apply set_kind_wf. apply neutral_keeps_wf; auto. apply neutral_mark. apply keeps_mark.
  - (* OpFromGlobals *)
    destruct (root1 st g KGlobals) as [[rg gh]|] eqn:Eg; auto.
    destruct (root1_some _ _ _ _ _ Eg) as [Hg Hga].
    assert (Ag : alive st gh = true) by (eapply root1_alive; eauto).
    pose proof (new_heap_wf st [] H) as N. destruct (new_heap st) as [st1 h]. simpl in N.
    destruct N as [N1 [N2 [N3 [N4 N5]]]].
    destruct (add_ref_frame st1 h gh) as [F FIn]. pose proof F as [R [E [L Ro]]]. pose proof N1 as [C1 [I1 R1]].
    assert (W2 : WFW (add_ref st1 h gh) [h]) by (eapply hframe_wf; eauto; apply add_ref_cnt; auto).
    assert (Cv : Cov (add_ref st1 h gh) h (r_vals rg)).
    { intros s hv Hin. econstructor. apply FIn. apply alive_heap_ne; auto. eapply rstar_mono; eauto.
      eapply rstar_mono. apply eq_refs_le; eauto. eapply held_cov; eauto. }
    destruct (edges_to_wf (r_vals rg) _ [h] h W2 Cv) as [W3 [A3 [Ro3 L3]]].
    apply add_root_wf; simpl.
    + apply neutral_keeps_wf; auto. apply neutral_mark. apply keeps_mark.
    + intros s v Hin. exists h. split; auto. eapply rstar_mono.
      * apply eq_refs_le. apply (keeps_graph _ h f_mark_sealed keeps_mark).
      * eapply rstar_mono. apply eq_refs_le; eauto. eapply Cv; eauto.
  - (* OpNewCarrier *)
    pose proof (new_heap_wf st [] H) as N. destruct (new_heap st) as [st1 h]. simpl in N.
    destruct N as [N1 _]. apply add_root_wf; simpl; auto. intros s v [].
  - (* OpAddToCarrier *)
    destruct (handle st k) as [[rk hv]|] eqn:Ek; auto.
    destruct (root1 st b KCarrier) as [[rm a]|] eqn:Em; auto.
    destruct (handle_some _ _ _ _ Ek) as [Hk [s0 Hv]].
    destruct (root1_some _ _ _ _ _ Em) as [Hm Hma].
    pose proof H as [HC [HI HR]].
    assert (Aa : alive st a = true) by (eapply root1_alive; eauto).
    assert (Ak : forall x, In x (r_holds rk) -> alive st x = true) by (intros; eapply (wf_held_alive st [] k rk); eauto).
    destruct (fold_addref add_ref a (fun st x => add_ref_frame st a x) (fun st w x => add_ref_cnt st w a x) (r_holds rk) st [] HC Ak Aa) as [C1 [F1 In1]].
    pose proof F1 as [R [E [L Ro]]].
    destruct (HR k rk s0 hv Hk) as [k0 [K1 K2]]. { rewrite Hv. simpl; auto. }
    apply add_val_wf.
    + eapply hframe_wf; eauto.
    + intros ro Hr. rewrite (get_root_roots _ _ Ro) in Hr. rewrite Hm in Hr. inversion Hr; subst.
      exists a. rewrite Hma. split; simpl; auto. econstructor. apply In1; eauto. eapply rstar_mono; eauto.
  - (* OpSealCarrier *)
    destruct (root1 st b KCarrier) as [[rb a]|] eqn:Eb; auto.
    destruct (get_heap st a) as [ha|] eqn:Ha; auto.
    destruct g.
    + eapply seal_carrier_wf; eauto.
    + eapply seal_carrier_wf; eauto. intros s v Hin. destruct (r_vals rb); simpl in *; tauto.
  - (* OpClone *)
    destruct (get_root st r) as [ro|] eqn:Hr; auto.
    pose proof H as [HC [HI HR]].
    assert (Ak : forall x, In x (r_holds ro) -> alive st x = true) by (intros; eapply wf_held_alive; eauto).
    destruct (fold_inc_cnt (r_holds ro) st [] HC Ak) as [C1 L1].
    pose proof (fold_inc_frame (r_holds ro) st) as F. pose proof F as [R _].
    assert (WFW (add_root (fold_left inc_rc (r_holds ro) st) ro) []).
    { apply add_root_wf. eapply hframe_wf; eauto.
      intros s v Hin. destruct (HR _ _ _ _ Hr Hin) as [k0 [K1 K2]]. exists k0; split; auto. eapply rstar_mono; eauto. }
    destruct (r_kind ro); auto.
  - (* OpDrop *)
    destruct (get_root st r) as [ro|] eqn:Hr; auto.
    unfold drop_refs. apply release_wf. pose proof (drop_root_wf st [] r ro H Hr) as D. rewrite app_nil_r in D. auto.
Qed.

(* ------------------------------------------------------------------ histories *)

Lemma init_wf : WF init.
Proof.
  split; [|split].
  - split; intros; unfold rc, get_heap; simpl; destruct x; simpl; auto.
  - intros a b Ha. unfold alive, get_heap in Ha. simpl in Ha. destruct a; discriminate.
  - intros r ro s v Hh. unfold held, get_root in Hh. simpl in Hh. destruct r; discriminate.
Qed.

Lemma fold_step_wf : forall hist st, WF st -> WF (fold_left step hist st).
Proof. induction hist; simpl; intros; auto. apply IHhist. apply step_wf; auto. Qed.

Theorem run_wf : forall hist, WF (run hist).
Proof. intros. apply fold_step_wf. apply init_wf. Qed.

Lemma estar_alive : forall st v w, WF st -> estar st v w -> alive st v = true -> alive st w = true.
Proof.
  intros st v w [HC [HI _]] E. induction E; intros; auto. apply IHE.
  eapply rstar_alive; eauto.
Qed.

Theorem wf_live_reachable : forall st r ro s v w, WF st -> held st r ro -> In (s, v) (r_vals ro) -> estar st v w ->
  alive st w = true.
Proof.
  intros st r ro s v w HW Hh Hin E. pose proof HW as [HC [_ HR]].
  destruct (HR _ _ _ _ Hh Hin) as [k [K1 K2]].
  eapply estar_alive; eauto. eapply rstar_alive; eauto. eapply held_alive; eauto.
Qed.

Theorem wf_no_use_after_free : forall st, WF st -> ~ use_after_free st.
Proof.
  intros st HW [r [ro [s [v [w [Hh [Hin [E Hd]]]]]]]].
  rewrite (wf_live_reachable st r ro s v w HW Hh Hin E) in Hd. discriminate.
Qed.

(* ------------------------------------------------------------------ drop order *)

Definition clear_all (ds : list rid) (l : list (option root)) : list (option root) :=
  fold_left (fun l r => upd_nth l r (fun _ => None)) ds l.

Lemma clear_comm : forall (l : list (option root)) a b,
  upd_nth (upd_nth l a (fun _ => None)) b (fun _ => None) = upd_nth (upd_nth l b (fun _ => None)) a (fun _ => None).
Proof. induction l as [|e l IH]; intros a b; destruct a, b; simpl; auto. f_equal. apply IH. Qed.

Lemma clear_all_perm : forall d1 d2, Permutation d1 d2 -> forall l, clear_all d1 l = clear_all d2 l.
Proof.
  unfold clear_all. induction 1; simpl; intros; auto.
  - rewrite clear_comm. auto.
  - rewrite IHPermutation1. auto.
Qed.

Lemma upd_nth_id_none : forall (l : list (option root)) r,
  (match nth_error l r with Some (Some _) => False | _ => True end) -> upd_nth l r (fun _ => None) = l.
Proof.
  induction l; destruct r; simpl; intros; auto.
  - destruct a; tauto.
  - f_equal. apply IHl. auto.
Qed.

Lemma drop_frame : forall st r,
  (forall x, all_refs (step st (OpDrop r)) x = all_refs st x) /\ (forall x, edges (step st (OpDrop r)) x = edges st x)
  /\ roots (step st (OpDrop r)) = upd_nth (roots st) r (fun _ => None).
Proof.
  intros. unfold step. cbn [step_cfg]. destruct (get_root st r) as [ro|] eqn:Hr.
  - unfold drop_refs. destruct (release_frame (S (total_rc (set_root st r None))) (r_holds ro) (set_root st r None)) as [F1 [F2 [F3 _]]].
    split; [|split]; intros.
    + rewrite F1. reflexivity.
    + rewrite F2. reflexivity.
    + rewrite F3. reflexivity.
  - repeat split; auto. symmetry. apply upd_nth_id_none. unfold get_root in Hr.
    destruct (nth_error (roots st) r) as [[|]|]; auto. discriminate.
Qed.

Lemma drops_frame : forall ds st,
  (forall x, all_refs (fold_left step (map OpDrop ds) st) x = all_refs st x)
  /\ (forall x, edges (fold_left step (map OpDrop ds) st) x = edges st x)
  /\ roots (fold_left step (map OpDrop ds) st) = clear_all ds (roots st).
Proof.
  induction ds; intros st.
  - simpl. auto.
  - change (fold_left step (map OpDrop (a :: ds)) st) with (fold_left step (map OpDrop ds) (step st (OpDrop a))).
    destruct (drop_frame st a) as [D1 [D2 D3]]. destruct (IHds (step st (OpDrop a))) as [I1 [I2 I3]].
    split; [|split]; intros.
    + rewrite I1; auto.
    + rewrite I2; auto.
    + rewrite I3, D3. reflexivity.
Qed.

Lemma estar_ext : forall s1 s2 v w, (forall x, edges s2 x = edges s1 x) -> estar s1 v w -> estar s2 v w.
Proof. intros s1 s2 v w HE E. induction E. constructor. econstructor; eauto. rewrite HE; auto. Qed.

(* Two histories that perform the same drops in a different order leave the same external objects, the same
   reference graph and value graph, and everything a remaining object can reach is intact in both. *)
Theorem drop_order_irrelevant : forall hist d1 d2, Permutation d1 d2 ->
  let s1 := run (hist ++ map OpDrop d1) in
  let s2 := run (hist ++ map OpDrop d2) in
  roots s1 = roots s2 /\ (forall x, edges s1 x = edges s2 x) /\ (forall x, all_refs s1 x = all_refs s2 x) /\
  forall r ro s v w, held s1 r ro -> In (s, v) (r_vals ro) -> estar s1 v w ->
    held s2 r ro /\ estar s2 v w /\ alive s1 w = true /\ alive s2 w = true.
Proof.
  intros hist d1 d2 HP. simpl. unfold run. rewrite !fold_left_app.
  set (st := fold_left step hist init).
  destruct (drops_frame d1 st) as [A1 [E1 R1]]. destruct (drops_frame d2 st) as [A2 [E2 R2]].
  assert (RR : roots (fold_left step (map OpDrop d1) st) = roots (fold_left step (map OpDrop d2) st)).
  { rewrite R1, R2. apply clear_all_perm; auto. }
  assert (EE : forall x, edges (fold_left step (map OpDrop d2) st) x = edges (fold_left step (map OpDrop d1) st) x).
  { intros. rewrite E1, E2. auto. }
  split; auto. split; [intros; rewrite EE; auto|]. split; [intros; rewrite A1, A2; auto|].
  intros r ro s v w Hh Hin E.
  assert (W1 : WF (fold_left step (map OpDrop d1) st)) by (apply fold_step_wf; apply fold_step_wf; apply init_wf).
  assert (W2 : WF (fold_left step (map OpDrop d2) st)) by (apply fold_step_wf; apply fold_step_wf; apply init_wf).
  assert (Hh2 : held (fold_left step (map OpDrop d2) st) r ro).
  { unfold held in *. rewrite (get_root_roots _ _ (eq_sym RR)). auto. }
  pose proof (estar_ext _ _ _ _ EE E) as E'.
  repeat split; auto.
  - eapply wf_live_reachable; eauto.
  - eapply wf_live_reachable; eauto.
Qed.

(* ------------------------------------------------------------------ each reference-taking site is necessary *)

Definition hist_base : list op :=
  [OpNewModule; OpDefine 0 1 []; OpFreeze 0].           (* A: x = [...]   (root 0, heap 0) *)

(* B loads x from A and re-exports it; A is dropped; B's value must stay alive *)
Definition hist_load : list op := hist_base ++ [OpNewModule; OpLoad 1 0 1 2; OpDrop 0].
Definition hist_freeze : list op := hist_base ++ [OpNewModule; OpLoad 1 0 1 2; OpFreeze 1; OpDrop 0].
Definition hist_import : list op := hist_base ++ [OpNewModule; OpImport 1 0; OpDrop 0].
Definition hist_owned : list op := hist_base ++ [OpGetOwned 0 1; OpDrop 0].
Definition hist_add_to_heap : list op := hist_base ++ [OpGetOwned 0 1; OpNewModule; OpAddToHeap 1 2 5; OpDrop 1; OpDrop 0].
Definition hist_builder : list op :=
  hist_base ++ [OpGetOwned 0 1; OpNewBuilder; OpAddToBuilder 1 2 5; OpDrop 1; OpDrop 0].
Definition hist_globals : list op := hist_builder ++ [OpBuild 2; OpNewModule; OpEval 3 2 [(7, 5)]; OpDrop 2].
Definition hist_from_globals : list op := hist_builder ++ [OpBuild 2; OpFromGlobals 2; OpDrop 2].

(* carriers: the handle is moved into a fresh heap in which nothing is allocated; module and original handle dropped *)
Definition hist_carrier_open : list op := hist_base ++ [OpGetOwned 0 1; OpNewCarrier; OpAddToCarrier 1 2 0].
Definition hist_carrier : list op := hist_carrier_open ++ [OpSealCarrier 2 false; OpDrop 1; OpDrop 0].
(* ... twice: new heap -> new heap -> module heap, intermediate handle dropped too *)
Definition hist_carrier_chain : list op :=
  hist_carrier_open ++ [OpSealCarrier 2 false; OpNewCarrier; OpAddToCarrier 2 3 0; OpSealCarrier 3 false; OpDrop 2; OpDrop 1; OpDrop 0].
(* GlobalsBuilder::new() holding only the foreign value, built into a Globals *)
Definition hist_carrier_globals : list op :=
  hist_base ++ [OpGetOwned 0 1; OpNewCarrier; OpAddToCarrier 1 2 5; OpSealCarrier 2 true; OpDrop 1; OpDrop 0].

Ltac uaf r ro s v w :=
  exists r, ro, s, v, w; split; [reflexivity | split; [simpl; auto | split; [try constructor | reflexivity]]].

Lemma site_load_needed : use_after_free (run_cfg (without SiteLoad) hist_load).
Proof. uaf 1 (mkRoot KOpen [1] [(2, 0)]) 2 0 0. Qed.

Lemma site_freeze_carry_needed : use_after_free (run_cfg (without SiteFreezeCarry) hist_freeze).
Proof. uaf 1 (mkRoot KFrozen [1] [(2, 0)]) 2 0 0. Qed.

Lemma site_import_needed : use_after_free (run_cfg (without SiteImport) hist_import).
Proof. uaf 1 (mkRoot KOpen [1] [(1, 0)]) 1 0 0. Qed.

Lemma site_get_owned_needed : use_after_free (run_cfg (without SiteGetOwned) hist_owned).
Proof. uaf 1 (mkRoot KHandle [] [(0, 0)]) 0 0 0. Qed.

Lemma site_add_to_heap_needed : use_after_free (run_cfg (without SiteAddToHeap) hist_add_to_heap).
Proof. uaf 2 (mkRoot KOpen [1] [(5, 0)]) 5 0 0. Qed.

Lemma site_add_to_builder_needed : use_after_free (run_cfg (without SiteAddToBuilder) hist_builder).
Proof. uaf 2 (mkRoot KBuilder [1] [(5, 0)]) 5 0 0. Qed.

Lemma site_eval_globals_needed : use_after_free (run_cfg (without SiteEvalGlobals) hist_globals).
Proof. uaf 3 (mkRoot KOpen [2] [(7, 0)]) 7 0 0. Qed.

Lemma site_from_globals_needed : use_after_free (run_cfg (without SiteFromGlobals) hist_from_globals).
Proof. uaf 3 (mkRoot KFrozen [2] [(5, 0)]) 5 0 0. Qed.

(* the empty-heap shortcut of into_ref_impl must also test the reference list *)
Lemma seal_refs_check_needed : use_after_free (run_cfg (without SiteSealRefsCheck) hist_carrier).
Proof. uaf 2 (mkRoot KHandle [] [(0, 0)]) 0 0 0. Qed.

Lemma seal_refs_check_needed_chain : use_after_free (run_cfg (without SiteSealRefsCheck) hist_carrier_chain).
Proof. uaf 3 (mkRoot KHandle [] [(0, 0)]) 0 0 0. Qed.

Lemma seal_refs_check_needed_globals : use_after_free (run_cfg (without SiteSealRefsCheck) hist_carrier_globals).
Proof. uaf 2 (mkRoot KGlobals [] [(5, 0)]) 5 0 0. Qed.

Lemma carrier_add_reference_needed : use_after_free (run_cfg (without SiteAddToBuilder) hist_carrier).
Proof. uaf 2 (mkRoot KHandle [] [(0, 0)]) 0 0 0. Qed.

Lemma carriers_safe :
  alive (run hist_carrier) 0 = true /\ alive (run hist_carrier) 1 = true /\
  alive (run hist_carrier_chain) 0 = true /\ alive (run hist_carrier_chain) 1 = true /\ alive (run hist_carrier_chain) 2 = true /\
  get_root (run hist_carrier_chain) 3 = Some (mkRoot KHandle [2] [(0, 0)]) /\
  all_refs (run hist_carrier_chain) 2 = [1] /\ all_refs (run hist_carrier_chain) 1 = [0] /\
  edges (run hist_carrier_chain) 2 = [] /\
  alive (run (hist_carrier_chain ++ [OpDrop 3])) 0 = false /\
  alive (run hist_carrier_globals) 0 = true /\
  (* ... and a module made from those globals keeps the chain module heap -> carrier -> A alive on its own *)
  alive (run (hist_carrier_globals ++ [OpFromGlobals 2; OpDrop 2])) 0 = true.
Proof. repeat split; reflexivity. Qed.

(* a carrier sealed with no references at all IS the shared empty ref: the object holds no heap *)
Lemma empty_carrier_is_default :
  get_root (run [OpNewCarrier; OpSealCarrier 0 true]) 0 = Some (mkRoot KGlobals [] []) /\
  alive (run [OpNewCarrier; OpSealCarrier 0 true]) 0 = false.
Proof. split; reflexivity. Qed.

(* the same histories are safe with the real mechanism (instances of the theorem, by computation) *)
Lemma sites_present_safe :
  alive (run hist_load) 0 = true /\ alive (run hist_freeze) 0 = true /\ alive (run hist_import) 0 = true /\
  alive (run hist_owned) 0 = true /\ alive (run hist_add_to_heap) 0 = true /\ alive (run hist_builder) 0 = true /\
  alive (run hist_globals) 0 = true /\ alive (run hist_from_globals) 0 = true.
Proof. repeat split; reflexivity. Qed.

(* removing a site breaks the step lemma itself: a well-formed state and one operation after which a value
   edge out of a live heap is not covered by any chain of references *)
Lemma load_step_needs_reference :
  exists st o, WF st /\ ~ Inv (step_cfg (without SiteLoad) st o).
Proof.
  exists (run (hist_base ++ [OpNewModule])), (OpLoad 1 0 1 2). split. apply run_wf.
  intros HI. specialize (HI 1 0).
  assert (R : rstar (step_cfg (without SiteLoad) (run (hist_base ++ [OpNewModule])) (OpLoad 1 0 1 2)) 1 0).
  { apply HI; [reflexivity | simpl; auto]. }
  inversion R; subst. simpl in H. destruct H.
Qed.

Lemma freeze_step_needs_carry :
  exists st o, WF st /\ ~ Inv (step_cfg (without SiteFreezeCarry) st o).
Proof.
  exists (run (hist_base ++ [OpNewModule; OpLoad 1 0 1 2])), (OpFreeze 1). split. apply run_wf.
  intros HI. specialize (HI 1 0).
  assert (R : rstar (step_cfg (without SiteFreezeCarry) (run (hist_base ++ [OpNewModule; OpLoad 1 0 1 2])) (OpFreeze 1)) 1 0).
  { apply HI; [reflexivity | simpl; auto]. }
  inversion R; subst. simpl in H. destruct H.
Qed.

Lemma get_owned_step_needs_reference :
  exists st o, WF st /\ ~ RootInv (step_cfg (without SiteGetOwned) st o).
Proof.
  exists (run hist_base), (OpGetOwned 0 1). split. apply run_wf.
  intros HR. destruct (HR 1 (mkRoot KHandle [] [(0, 0)]) 0 0) as [k [[] _]]. reflexivity. simpl; auto.
Qed.

Lemma seal_step_needs_refs_check :
  exists st o, WF st /\ ~ RootInv (step_cfg (without SiteSealRefsCheck) st o).
Proof.
  exists (run hist_carrier_open), (OpSealCarrier 2 false). split. apply run_wf.
  intros HR. destruct (HR 2 (mkRoot KHandle [] [(0, 0)]) 0 0) as [k [[] _]]. reflexivity. simpl; auto.
Qed.

(* ... so the invariant of the development is not preserved by the weaker shortcut *)
Lemma seal_step_weak_breaks_wf :
  exists st o, WF st /\ ~ WF (step_cfg (without SiteSealRefsCheck) st o).
Proof.
  destruct seal_step_needs_refs_check as [st [o [W N]]]. exists st, o. split; auto. intros [_ [_ HR]]. auto.
Qed.
