(* C13: executable comparison driver used by the tie.  The Python side sends the abstract history of each
   generated case; `trace` replays it on the model and prints, after every operation,
     (safe, [(heap, refs ++ mrefs)] for live heaps, [(root, holds)] for held objects)
   `safe` is the decidable form of "nothing a held object can reach has been released". *)
From Coq Require Import List Arith Bool NArith.
From SV Require Import Refs.Model.
Import ListNotations.

Fixpoint closure (fuel : nat) (st : state) (l : list hid) : list hid :=
  match fuel with
  | 0 => l
  | S f => closure f st (nodup Nat.eq_dec (l ++ flat_map (edges st) l))
  end.

Definition reach (st : state) (v : hid) : list hid := closure (length (heaps st)) st [v].

(* one closure from every heap a held object holds or exposes a value of *)
Definition start_heaps (st : state) : list hid :=
  nodup Nat.eq_dec (flat_map (fun r => match r with
                                       | Some ro => map snd (r_vals ro) ++ r_holds ro
                                       | None => [] end) (roots st)).

Definition safe_b (st : state) : bool :=
  forallb (alive st) (closure (length (heaps st)) st (start_heaps st)).

Fixpoint index_from {A} (i : nat) (l : list A) : list (nat * A) :=
  match l with [] => [] | x :: t => (i, x) :: index_from (S i) t end.

Definition nn (l : list nat) : list N := map N.of_nat l.

Definition heaps_obs (st : state) : list (N * list N) :=
  flat_map (fun ih => if h_alive (snd ih) then [(N.of_nat (fst ih), nn (h_refs (snd ih) ++ h_mrefs (snd ih)))] else [])
           (index_from 0 (heaps st)).

Definition roots_obs (st : state) : list (N * list N) :=
  flat_map (fun ir => match snd ir with Some ro => [(N.of_nat (fst ir), nn (r_holds ro))] | None => [] end)
           (index_from 0 (roots st)).

Definition obs := (bool * list (N * list N) * list (N * list N))%type.
Definition obs_of (st : state) : obs := (safe_b st, heaps_obs st, roots_obs st).

Definition trace_cfg (c : cfg) (hist : list op) : list obs :=
  snd (fold_left (fun sa o => let st' := step_cfg c (fst sa) o in (st', snd sa ++ [obs_of st'])) hist (init, [])).
Definition trace := trace_cfg all_sites.

(* compact summary for high volume: (all steps safe, final live heaps with refs, final held roots) *)
Definition summary (hist : list op) : bool * list (N * list N) * list (N * list N) :=
  let t := trace hist in
  (forallb (fun o => fst (fst o)) t, heaps_obs (run hist), roots_obs (run hist)).

(* the tie sends one group of model operations per harness operation; observation after each group *)
Definition trace_groups (gs : list (list op)) : list obs :=
  snd (fold_left (fun sa g => let st' := fold_left step g (fst sa) in (st', snd sa ++ [obs_of st'])) gs (init, [])).

Definition summary_groups (gs : list (list op)) : bool * list (N * list N) * list (N * list N) :=
  let t := trace_groups gs in
  let st := fold_left (fun st g => fold_left step g st) gs init in
  (forallb (fun o => fst (fst o)) t, heaps_obs st, roots_obs st).

(* Cheap transport of histories: an operation is a list of binary numbers [tag; args...] (unary `nat` literals
   are slow to elaborate).  Tags: 0 NewModule, 1 Eval m g (s gs)*, 2 Load m f their local, 3 Import m f,
   4 Define m s deps*, 5 Alias m s s', 6 Freeze m, 7 GetOwned f s, 8 Map k h, 9 AddToHeap k m s, 10 NewBuilder,
   11 AddToBuilder k b s, 12 Build b, 13 FromGlobals g, 14 Clone r, 15 Drop r, 16 NewCarrier, 17 AddToCarrier k b s,
   18 SealCarrier b g (g: 1 = Globals, 0 = handle).  Malformed = no operation. *)
Fixpoint pairs_of (l : list nat) : list (nat * nat) :=
  match l with a :: b :: t => (a, b) :: pairs_of t | _ => [] end.

Definition dec (code : list N) : list op :=
  match map N.to_nat code with
  | [0] => [OpNewModule]
  | 1 :: m :: g :: binds => [OpEval m g (pairs_of binds)]
  | [2; m; f; their; local] => [OpLoad m f their local]
  | [3; m; f] => [OpImport m f]
  | 4 :: m :: s :: deps => [OpDefine m s deps]
  | [5; m; s; s'] => [OpAlias m s s']
  | [6; m] => [OpFreeze m]
  | [7; f; s] => [OpGetOwned f s]
  | [8; k; h] => [OpMap k h]
  | [9; k; m; s] => [OpAddToHeap k m s]
  | [10] => [OpNewBuilder]
  | [11; k; b; s] => [OpAddToBuilder k b s]
  | [12; b] => [OpBuild b]
  | [13; g] => [OpFromGlobals g]
  | [14; r] => [OpClone r]
  | [15; r] => [OpDrop r]
  | [16] => [OpNewCarrier]
  | [17; k; b; s] => [OpAddToCarrier k b s]
  | [18; b; g] => [OpSealCarrier b (Nat.eqb g 1)]
  | _ => []
  end.

Definition dec_groups (gs : list (list (list N))) : list (list op) := map (flat_map dec) gs.
Definition trace_n (gs : list (list (list N))) : list obs := trace_groups (dec_groups gs).
Definition summary_n (gs : list (list (list N))) := summary_groups (dec_groups gs).

Example dec_carrier :
  dec_groups [[[16%N]; [17; 1; 2; 0]%N; [18; 2; 0]%N; [15; 1]%N]; [[18; 3; 1]%N]]
  = [[OpNewCarrier; OpAddToCarrier 1 2 0; OpSealCarrier 2 false; OpDrop 1]; [OpSealCarrier 3 true]].
Proof. reflexivity. Qed.

Example dec_roundtrip :
  dec_groups [[[0%N]]; [[4; 0; 1]%N; [2; 1; 0; 1; 3]%N]; [[1; 3; 2; 7; 5]%N; [15; 2]%N]]
  = [[OpNewModule]; [OpDefine 0 1 []; OpLoad 1 0 1 3]; [OpEval 3 2 [(7, 5)]; OpDrop 2]].
Proof. reflexivity. Qed.

(* Cheapest transport: the whole history as ONE binary number, little-endian base 1024:
   digit 1 = end of operation, 2 = end of group, v + 3 = the number v. *)
Fixpoint digits (fuel : nat) (n : N) : list N :=
  match fuel with
  | 0 => []
  | S f => if N.eqb n 0 then [] else N.land n 1023 :: digits f (N.shiftr n 10)
  end.

Fixpoint split_digits (ds : list N) (cur : list N) (grp : list (list N)) : list (list (list N)) :=
  match ds with
  | [] => []
  | d :: t =>
    if N.eqb d 1 then split_digits t [] (grp ++ [rev cur])
    else if N.eqb d 2 then grp :: split_digits t [] []
    else split_digits t ((d - 3)%N :: cur) grp
  end.

Definition groups_of_number (n : N) : list (list (list N)) :=
  split_digits (digits (S (N.to_nat (N.size n))) n) [] [].

Definition trace_h (n : N) : list obs := trace_n (groups_of_number n).
Definition summary_h (n : N) := summary_n (groups_of_number n).

Example groups_of_number_ok :
  (* [[ [0] ]; [ [15; 2] ]] : digits 3,1,2, 18,5,1,2 *)
  groups_of_number (3 + 1024 * (1 + 1024 * (2 + 1024 * (18 + 1024 * (5 + 1024 * (1 + 1024 * 2))))))%N
  = [[[0%N]]; [[15%N; 2%N]]].
Proof. vm_compute. reflexivity. Qed.
