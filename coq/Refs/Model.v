(* C13  Frozen values stay alive as long as anything that can reach them is alive.

   Executable model of the heap-reference mechanism of starlark-rust (no proofs in this file).

   Rust side mirrored here (function names in comments at each branch):
     values/layout/heap/heap_type.rs   FrozenHeapRef = Arc<FrozenFrozenHeap{arena, refs}>; OwnedHeap.refs;
                                       FrozenHeap.refs; Heap::add_reference; FrozenHeap::add_reference
                                       (both: `if !refs.contains(h) { refs.insert(h.dupe()) }`);
                                       FrozenHeap::{new, into_ref, into_ref_named, into_ref_impl} (with its
                                       "empty heap" shortcut); OwnedFrozen::{add_to_heap, unchecked_new, build};
                                       OwnedFrozenRef::{add_to_heap, add_to_frozen_heap};
                                       OwnedFrozenReconstructor::{reconstruct, edge, frozen_edge}
     values/layout/heap/owned_frozen.rs OwnedFrozen::{map, maybe_map, clone}
     environment/modules.rs            Module::with_temp_heap, load_symbol, import_public_symbols, freeze_impl,
                                       FrozenModule::{own_value, get_owned, from_globals}
     environment/globals.rs            GlobalsBuilder::{new, set, frozen_heap, build}, Globals::heap
     eval.rs                           Evaluator::eval_module (`self.frozen_heap().add_reference(globals.heap())`)
     eval/compiler/module.rs           eval_load -> Module::load_symbol

   A heap of the model is one arena owner.  An *open* module owns two Rust heaps (the mutable `Heap` with
   `OwnedHeap.refs` and its `FrozenHeap` with `FrozenHeap.refs`) which live and die together and are merged by
   `freeze_impl`; the model keeps them as ONE heap with two reference lists: `h_refs` (FrozenHeap.refs, later
   FrozenFrozenHeap.refs) and `h_mrefs` (OwnedHeap.refs).  Values are abstracted to the heap they live in: a
   value of heap a that points at a value of heap b is the *value edge* a -> b (`h_edges`), a named value of a
   module / handle / globals is recorded by the heap it lives in (`r_vals`).  `h_rc` is the strong count of the
   Arc (for a heap that is not sealed yet: 1, the owning Module / GlobalsBuilder / FrozenHeap).

   A *carrier* is a frozen heap in which nothing is ever allocated (`FrozenHeap::new()` as used by
   `OwnedFrozen::build(name, |heap| handle.as_ref().add_to_frozen_heap(heap))`, a hand-made
   `FrozenHeap::new(); add_reference(..); into_ref()`, or `GlobalsBuilder::new()` holding only foreign values
   under constant-string names): its arena is empty, it exists only for its reference list.  A heap with no
   values but a non-empty `h_refs` is a legitimate holder: whatever holds it keeps everything it references
   alive.  `into_ref_impl` seals an arena-empty heap to the shared `FrozenHeapRef::default()` (no Arc) ONLY when
   the reference list is empty too (`seal_carrier`). *)
From Coq Require Import List Arith Bool.
Import ListNotations.

Definition hid := nat.   (* heap identifier = index in `heaps` *)
Definition rid := nat.   (* external object (root) identifier = index in `roots` *)
Definition sym := nat.   (* a top-level name *)

Record heap := mkHeap {
  h_alive : bool;          (* arena not yet released *)
  h_rc : nat;              (* Arc strong count *)
  h_refs : list hid;       (* FrozenHeap.refs / FrozenFrozenHeap.refs *)
  h_mrefs : list hid;      (* OwnedHeap.refs of the mutable half of an open module *)
  h_edges : list hid;      (* heaps that values of this heap point into *)
  h_sealed : bool          (* into_ref_impl happened: immutable, shareable *)
}.

Inductive kind := KOpen | KFrozen | KHandle | KBuilder | KGlobals | KCarrier.

(* An object held by the embedder: open Module (+ its Evaluator), FrozenModule, OwnedFrozen handle,
   GlobalsBuilder, Globals. *)
Record root := mkRoot {
  r_kind : kind;
  r_holds : list hid;            (* heaps it owns / holds an Arc to *)
  r_vals : list (sym * hid)      (* values it gives access to: name, heap the value lives in *)
}.

Record state := mkState { heaps : list heap; roots : list (option root) }.

Definition init : state := mkState [] [].

(* The places where the code takes a heap reference.  `cfg s = false` removes that one (used only to show
   that each is necessary); the real mechanism is `all_sites`. *)
Inductive site := SiteEvalGlobals | SiteLoad | SiteImport | SiteFreezeCarry | SiteGetOwned | SiteAddToHeap
                | SiteAddToBuilder | SiteFromGlobals
                (* not an add_reference site but the other half of the same obligation: the `&& refs.is_empty()` conjunct
                   of the empty-heap shortcut of FrozenHeap::into_ref_impl (false = shortcut on `arena.is_empty()` alone) *)
                | SiteSealRefsCheck.
Definition cfg := site -> bool.
Definition all_sites : cfg := fun _ => true.
Definition site_eqb (a b : site) : bool :=
  match a, b with
  | SiteEvalGlobals, SiteEvalGlobals | SiteLoad, SiteLoad | SiteImport, SiteImport
  | SiteFreezeCarry, SiteFreezeCarry | SiteGetOwned, SiteGetOwned | SiteAddToHeap, SiteAddToHeap
  | SiteAddToBuilder, SiteAddToBuilder | SiteFromGlobals, SiteFromGlobals
  | SiteSealRefsCheck, SiteSealRefsCheck => true
  | _, _ => false
  end.
Definition without (s : site) : cfg := fun x => negb (site_eqb s x).

(* ---------------------------------------------------------------- primitive state updates *)

Fixpoint upd_nth {A} (l : list A) (i : nat) (f : A -> A) : list A :=
  match l, i with
  | [], _ => []
  | x :: t, 0 => f x :: t
  | x :: t, S i => x :: upd_nth t i f
  end.

Definition get_heap (st : state) (h : hid) : option heap := nth_error (heaps st) h.
Definition get_root (st : state) (r : rid) : option root :=
  match nth_error (roots st) r with Some (Some x) => Some x | _ => None end.

Definition upd_heap (st : state) (h : hid) (f : heap -> heap) : state :=
  mkState (upd_nth (heaps st) h f) (roots st).
Definition set_root (st : state) (r : rid) (x : option root) : state :=
  mkState (heaps st) (upd_nth (roots st) r (fun _ => x)).
Definition add_root (st : state) (x : root) : state := mkState (heaps st) (roots st ++ [Some x]).

Definition mem (x : nat) (l : list nat) : bool := existsb (Nat.eqb x) l.

Definition f_inc (h : heap) := mkHeap (h_alive h) (S (h_rc h)) (h_refs h) (h_mrefs h) (h_edges h) (h_sealed h).
Definition f_dec (h : heap) := mkHeap (h_alive h) (pred (h_rc h)) (h_refs h) (h_mrefs h) (h_edges h) (h_sealed h).
Definition f_kill (h : heap) := mkHeap false 0 (h_refs h) (h_mrefs h) (h_edges h) (h_sealed h).
Definition f_push_ref (x : hid) (h : heap) := mkHeap (h_alive h) (h_rc h) (x :: h_refs h) (h_mrefs h) (h_edges h) (h_sealed h).
Definition f_push_mref (x : hid) (h : heap) := mkHeap (h_alive h) (h_rc h) (h_refs h) (x :: h_mrefs h) (h_edges h) (h_sealed h).
Definition f_push_edge (x : hid) (h : heap) := mkHeap (h_alive h) (h_rc h) (h_refs h) (h_mrefs h) (x :: h_edges h) (h_sealed h).
Definition f_seal (h : heap) := mkHeap (h_alive h) (h_rc h) (h_refs h) [] (h_edges h) true.
Definition f_mark_sealed (h : heap) := mkHeap (h_alive h) (h_rc h) (h_refs h) (h_mrefs h) (h_edges h) true.

(* Arc::clone *)
Definition inc_rc (st : state) (x : hid) : state := upd_heap st x f_inc.

(* FrozenHeap::add_reference(a, x): `if !refs.contains(x) { refs.insert(x.dupe()) }` *)
Definition add_ref (st : state) (a x : hid) : state :=
  match get_heap st a with
  | Some ha => if mem x (h_refs ha) then st else inc_rc (upd_heap st a (f_push_ref x)) x
  | None => st
  end.

(* Heap::add_reference(a, x) on the mutable half *)
Definition add_mref (st : state) (a x : hid) : state :=
  match get_heap st a with
  | Some ha => if mem x (h_mrefs ha) then st else inc_rc (upd_heap st a (f_push_mref x)) x
  | None => st
  end.

(* a value of heap a now points at a value living in heap b *)
Definition add_edge (st : state) (a b : hid) : state :=
  if Nat.eqb a b then st else upd_heap st a (f_push_edge b).

Definition add_val (st : state) (r : rid) (s : sym) (hv : hid) : state :=
  match get_root st r with
  | Some ro => set_root st r (Some (mkRoot (r_kind ro) (r_holds ro) ((s, hv) :: r_vals ro)))
  | None => st
  end.

Fixpoint lookup (s : sym) (vals : list (sym * hid)) : option hid :=
  match vals with
  | [] => None
  | (s', h) :: t => if Nat.eqb s s' then Some h else lookup s t
  end.

(* Drop of FrozenHeapRef values (Arc::drop), as a work list of pending decrements: the last reference
   releases the arena (Arena::drop, poisoned under the verification cfg) and drops the heap's own refs.
   `fuel` bounds the number of decrements (at most the sum of all counts). *)
Fixpoint release (fuel : nat) (work : list hid) (st : state) : state :=
  match fuel with
  | 0 => st
  | S fuel =>
    match work with
    | [] => st
    | x :: w =>
      match get_heap st x with
      | None => release fuel w st
      | Some hx =>
        match h_rc hx with
        | 0 => release fuel w st
        | 1 => release fuel (h_refs hx ++ h_mrefs hx ++ w) (upd_heap st x f_kill)
        | S (S _) => release fuel w (upd_heap st x f_dec)
        end
      end
    end
  end.

Definition total_rc (st : state) : nat := fold_right (fun h n => h_rc h + n) 0 (heaps st).
Definition drop_refs (st : state) (l : list hid) : state := release (S (total_rc st)) l st.

Definition new_heap (st : state) : state * hid :=
  (mkState (heaps st ++ [mkHeap true 1 [] [] [] false]) (roots st), length (heaps st)).

(* ---------------------------------------------------------------- operations *)

Inductive op :=
| OpNewModule                                           (* Module::with_temp_heap + Evaluator::new *)
| OpEval (m g : rid) (binds : list (sym * sym))         (* eval_module(ast, globals g); `s = <global gs>` at top level *)
| OpLoad (m f : rid) (their local : sym)                (* load("f", local = "their") *)
| OpImport (m f : rid)                                  (* Module::import_public_symbols *)
| OpDefine (m : rid) (s : sym) (deps : list sym)        (* s = [dep, ...] / def s(): uses deps / struct(..) *)
| OpAlias (m : rid) (s s' : sym)                        (* s = s'  (re-export) *)
| OpFreeze (m : rid)                                    (* Module::freeze *)
| OpGetOwned (f : rid) (s : sym)                        (* FrozenModule::get_owned *)
| OpMap (k : rid) (h : hid)                             (* OwnedFrozen::clone().map(|v| v[..]) into a sub-value living in h *)
| OpAddToHeap (k m : rid) (s : sym)                     (* module.set(s, handle.add_to_heap(module.heap())) *)
| OpNewBuilder                                          (* GlobalsBuilder::new *)
| OpAddToBuilder (k b : rid) (s : sym)                  (* b.set(s, handle.as_ref().add_to_frozen_heap(b.frozen_heap())) *)
| OpBuild (b : rid)                                     (* GlobalsBuilder::build *)
| OpFromGlobals (g : rid)                               (* FrozenModule::from_globals *)
| OpNewCarrier                                          (* FrozenHeap::new() / GlobalsBuilder::new(): a heap that only carries references *)
| OpAddToCarrier (k b : rid) (s : sym)                  (* handle.as_ref().add_to_frozen_heap(carrier) / reconstructor.frozen_edge(carrier) /
                                                           carrier.add_reference(handle.owner()); the value is remembered under s *)
| OpSealCarrier (b : rid) (g : bool)                    (* into_ref / into_ref_named / the tail of OwnedFrozen::build (g = false: the result is an
                                                           OwnedFrozen over the last value added) / GlobalsBuilder::build (g = true: a Globals) *)
| OpClone (r : rid)                                     (* FrozenModule::dupe / OwnedFrozen::clone / Globals::dupe *)
| OpDrop (r : rid).                                     (* drop of any held object (open module: module + evaluator) *)

Definition kind_eqb (a b : kind) : bool :=
  match a, b with
  | KOpen, KOpen | KFrozen, KFrozen | KHandle, KHandle | KBuilder, KBuilder | KGlobals, KGlobals
  | KCarrier, KCarrier => true
  | _, _ => false
  end.

(* a held root of the given kind with exactly one heap *)
Definition root1 (st : state) (r : rid) (k : kind) : option (root * hid) :=
  match get_root st r with
  | Some ro => if kind_eqb (r_kind ro) k then match r_holds ro with [h] => Some (ro, h) | _ => None end else None
  | None => None
  end.

(* a held handle: holds may be [owner] (or [] when SiteGetOwned is removed) and exactly one value *)
Definition handle (st : state) (r : rid) : option (root * hid) :=
  match get_root st r with
  | Some ro => if kind_eqb (r_kind ro) KHandle then match r_vals ro with [(_, hv)] => Some (ro, hv) | _ => None end else None
  | None => None
  end.

Definition bind_vals (st : state) (m : rid) (a : hid) (src : list (sym * hid)) (binds : list (sym * sym)) : state :=
  fold_left (fun st b => match lookup (snd b) src with
                         | Some hv => add_val (add_edge st a hv) m (fst b) hv
                         | None => st end) binds st.

Definition copy_vals (st : state) (m : rid) (a : hid) (src : list (sym * hid)) : state :=
  fold_right (fun sv st => add_val (add_edge st a (snd sv)) m (fst sv) (snd sv)) st src.

Definition edges_to (st : state) (a : hid) (src : list (sym * hid)) : state :=
  fold_right (fun sv st => add_edge st a (snd sv)) st src.

Definition dep_edges (st : state) (a : hid) (vals : list (sym * hid)) (deps : list sym) : state :=
  fold_left (fun st d => match lookup d vals with Some hv => add_edge st a hv | None => st end) deps st.

Definition set_kind (st : state) (r : rid) (k : kind) : state :=
  match get_root st r with
  | Some ro => set_root st r (Some (mkRoot k (r_holds ro) (r_vals ro)))
  | None => st
  end.

Definition is_nil {A} (l : list A) : bool := match l with [] => true | _ => false end.

(* values of a carrier that would live in its own arena: there are none, the arena is empty *)
Definition foreign_vals (a : hid) (vals : list (sym * hid)) : list (sym * hid) :=
  filter (fun sv => negb (Nat.eqb (snd sv) a)) vals.

(* heap_type.rs FrozenHeap::into_ref_impl on a heap `a` whose arena is empty (nothing was ever allocated in it),
   owned by root b which becomes an object of kind k exposing vals:
     if arena.is_empty() && refs.is_empty() { FrozenHeapRef::default() }    -- no Arc: the object holds no heap; the
                                                                              FrozenHeap (arena, refs) dies here
     else { FrozenHeapRef(Some(Arc::new(FrozenFrozenHeap { arena, refs, .. }))) }
   (a FrozenHeap has no mutable half: h_mrefs is [] for it; the test reads both lists).
   `c SiteSealRefsCheck = false` is the shortcut on `arena.is_empty()` alone. *)
Definition seal_carrier (c : cfg) (st : state) (b : rid) (a : hid) (ha : heap) (k : kind) (vals : list (sym * hid)) : state :=
  if (if c SiteSealRefsCheck then is_nil (h_refs ha ++ h_mrefs ha) else true) then
    drop_refs (set_root st b (Some (mkRoot k [] (foreign_vals a vals)))) [a]
  else
    set_root (upd_heap st a f_mark_sealed) b (Some (mkRoot k [a] vals)).

Definition step_cfg (c : cfg) (st : state) (o : op) : state :=
  match o with
  | OpNewModule =>
      let (st1, h) := new_heap st in add_root st1 (mkRoot KOpen [h] [])
  | OpEval m g binds =>
      match root1 st m KOpen, root1 st g KGlobals with
      | Some (_, a), Some (rg, gh) =>
          (* eval.rs eval_module: self.frozen_heap().add_reference(globals.heap()) *)
          let st1 := if c SiteEvalGlobals then add_ref st a gh else st in
          (* the module's DefInfo / compiled code point at the Globals' functions *)
          let st2 := add_edge st1 a gh in
          bind_vals st2 m a (r_vals rg) binds
      | _, _ => st
      end
  | OpLoad m f their local =>
      match root1 st m KOpen, root1 st f KFrozen with
      | Some (_, a), Some (rf, fh) =>
          match lookup their (r_vals rf) with
          | Some hv =>
              (* modules.rs load_symbol: self.heap().add_reference(&module.heap); Value::new_frozen(v) *)
              let st1 := if c SiteLoad then add_mref st a fh else st in
              add_val (add_edge st1 a hv) m local hv
          | None => st
          end
      | _, _ => st
      end
  | OpImport m f =>
      match root1 st m KOpen, root1 st f KFrozen with
      | Some (_, a), Some (rf, fh) =>
          (* modules.rs import_public_symbols: self.frozen_heap.add_reference(&module.heap); set_private each *)
          let st1 := if c SiteImport then add_ref st a fh else st in
          copy_vals st1 m a (r_vals rf)
      | _, _ => st
      end
  | OpDefine m s deps =>
      match root1 st m KOpen with
      | Some (rm, a) => add_val (dep_edges st a (r_vals rm) deps) m s a
      | None => st
      end
  | OpAlias m s s' =>
      match root1 st m KOpen with
      | Some (rm, _) => match lookup s' (r_vals rm) with Some hv => add_val st m s hv | None => st end
      | None => st
      end
  | OpFreeze m =>
      match root1 st m KOpen with
      | Some (_, a) =>
          match get_heap st a with
          | Some ha =>
              (* modules.rs freeze_impl: for r in heap.referenced_heaps() { frozen_heap.add_reference(&r) } *)
              let st1 := if c SiteFreezeCarry then fold_left (fun st x => add_ref st a x) (h_mrefs ha) st else st in
              (* frozen_heap.into_ref_impl(..); the mutable heap (OwnedHeap) is dropped with its refs *)
              let st2 := upd_heap st1 a f_seal in
              drop_refs (set_kind st2 m KFrozen) (h_mrefs ha)
          | None => st
          end
      | None => st
      end
  | OpGetOwned f s =>
      match root1 st f KFrozen with
      | Some (rf, fh) =>
          match lookup s (r_vals rf) with
          | Some hv =>
              (* modules.rs own_value: OwnedFrozen::unchecked_new(self.heap.dupe(), value) *)
              if c SiteGetOwned then add_root (inc_rc st fh) (mkRoot KHandle [fh] [(0, hv)])
              else add_root st (mkRoot KHandle [] [(0, hv)])
          | None => st
          end
      | None => st
      end
  | OpMap k h' =>
      match handle st k with
      | Some (rk, hv) =>
          let ok := Nat.eqb h' hv || match get_heap st hv with Some hh => mem h' (h_edges hh) | None => false end in
          if ok then
            (* OwnedFrozen::clone (reconstruct: heap_ref.dupe()) then map: same owner, derived value *)
            add_root (fold_left inc_rc (r_holds rk) st) (mkRoot KHandle (r_holds rk) [(0, h')])
          else st
      | None => st
      end
  | OpAddToHeap k m s =>
      match handle st k, root1 st m KOpen with
      | Some (rk, hv), Some (_, a) =>
          (* heap_type.rs OwnedFrozen(Ref)::add_to_heap: heap.add_reference(&self.heap_ref) *)
          let st1 := if c SiteAddToHeap then fold_left (fun st x => add_mref st a x) (r_holds rk) st else st in
          add_val (add_edge st1 a hv) m s hv
      | _, _ => st
      end
  | OpNewBuilder =>
      let (st1, h) := new_heap st in add_root st1 (mkRoot KBuilder [h] [])
  | OpAddToBuilder k b s =>
      match handle st k, root1 st b KBuilder with
      | Some (rk, hv), Some (_, a) =>
          (* heap_type.rs OwnedFrozenRef::add_to_frozen_heap: heap.add_reference(self.heap_ref) *)
          let st1 := if c SiteAddToBuilder then fold_left (fun st x => add_ref st a x) (r_holds rk) st else st in
          add_val (add_edge st1 a hv) b s hv
      | _, _ => st
      end
  | OpBuild b =>
      match root1 st b KBuilder with
      | Some (_, a) => set_kind (upd_heap st a f_mark_sealed) b KGlobals   (* GlobalsBuilder::build: heap.into_ref_impl (a builder has no mutable half) *)
      | None => st
      end
  | OpFromGlobals g =>
      match root1 st g KGlobals with
      | Some (rg, gh) =>
          (* modules.rs from_globals: module.frozen_heap.add_reference(globals.heap()); set each; freeze *)
          let (st1, h) := new_heap st in
          let st2 := if c SiteFromGlobals then add_ref st1 h gh else st1 in
          let st3 := edges_to st2 h (r_vals rg) in
          add_root (upd_heap st3 h f_mark_sealed) (mkRoot KFrozen [h] (r_vals rg))
      | None => st
      end
  | OpNewCarrier =>
      let (st1, h) := new_heap st in add_root st1 (mkRoot KCarrier [h] [])
  | OpAddToCarrier k b s =>
      match handle st k, root1 st b KCarrier with
      | Some (rk, hv), Some (_, a) =>
          (* heap_type.rs OwnedFrozenRef::add_to_frozen_heap / OwnedFrozenReconstructor::frozen_edge:
             heap.add_reference(self.heap_ref) - the same site as for a GlobalsBuilder's heap; nothing is allocated in
             the carrier, so there is no value edge out of it *)
          let st1 := if c SiteAddToBuilder then fold_left (fun st x => add_ref st a x) (r_holds rk) st else st in
          add_val st1 b s hv
      | _, _ => st
      end
  | OpSealCarrier b g =>
      match root1 st b KCarrier with
      | Some (rb, a) =>
          match get_heap st a with
          | Some ha =>
              if g then seal_carrier c st b a ha KGlobals (r_vals rb)       (* GlobalsBuilder::build -> Globals *)
              else seal_carrier c st b a ha KHandle (firstn 1 (r_vals rb))  (* OwnedFrozen::build / unchecked_new(into_ref(), v) *)
          | None => st
          end
      | None => st
      end
  | OpClone r =>
      match get_root st r with
      | Some ro =>
          match r_kind ro with
          | KFrozen | KHandle | KGlobals => add_root (fold_left inc_rc (r_holds ro) st) ro
          | _ => st
          end
      | None => st
      end
  | OpDrop r =>
      match get_root st r with
      | Some ro => drop_refs (set_root st r None) (r_holds ro)
      | None => st
      end
  end.

Definition step := step_cfg all_sites.
Definition run_cfg (c : cfg) (hist : list op) : state := fold_left (step_cfg c) hist init.
Definition run (hist : list op) : state := fold_left step hist init.

(* ---------------------------------------------------------------- vocabulary of the statements *)

Definition alive (st : state) (x : hid) : bool :=
  match get_heap st x with Some h => h_alive h | None => false end.
Definition rc (st : state) (x : hid) : nat :=
  match get_heap st x with Some h => h_rc h | None => 0 end.
Definition all_refs (st : state) (a : hid) : list hid :=
  match get_heap st a with Some h => h_refs h ++ h_mrefs h | None => [] end.
Definition edges (st : state) (a : hid) : list hid :=
  match get_heap st a with Some h => h_edges h | None => [] end.

(* refs* : chains of heap references *)
Inductive rstar (st : state) : hid -> hid -> Prop :=
| rs_refl : forall a, rstar st a a
| rs_step : forall a b c, In b (all_refs st a) -> rstar st b c -> rstar st a c.

(* chains of value edges: what a value living in heap a can reach *)
Inductive estar (st : state) : hid -> hid -> Prop :=
| es_refl : forall a, estar st a a
| es_step : forall a b c, In b (edges st a) -> estar st b c -> estar st a c.

Definition held (st : state) (r : rid) (ro : root) : Prop := get_root st r = Some ro.

(* every value edge out of a live heap is covered by a chain of heap references *)
Definition Inv (st : state) : Prop :=
  forall a b, alive st a = true -> In b (edges st a) -> rstar st a b.

(* every value an external object gives access to is covered by a heap it holds *)
Definition RootInv (st : state) : Prop :=
  forall r ro s v, held st r ro -> In (s, v) (r_vals ro) -> exists k, In k (r_holds ro) /\ rstar st k v.

(* the negation of the property: a held object can reach a value whose heap has been released *)
Definition use_after_free (st : state) : Prop :=
  exists r ro s v w, held st r ro /\ In (s, v) (r_vals ro) /\ estar st v w /\ alive st w = false.
