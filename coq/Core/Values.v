(* MiniStar values, store, observations and the value-level operations (DESIGN 3.2). Executable. *)
From Coq Require Import ZArith String List Bool Ascii.
From SV Require Import Core.Syntax.
Import ListNotations.
Open Scope Z_scope.

Inductive value :=
| VNone | VBool (b : bool) | VInt (z : Z) | VStr (s : string)
| VTuple (vs : list value)
| VList (a : nat) | VDict (a : nat)
| VRange (lo hi st : Z)
| VClo (c : nat) | VBuiltin (b : string).

Definition env := list (string * nat).                 (* name -> cell address, innermost first *)

Inductive body := BStmts (ss : list stmt) | BExpr (e : expr).
Record closure := { c_name : string; c_params : list param; c_defaults : list (string * value);
                    c_body : body; c_env : env }.

(* what the embedder can observe of a value: structural, sharing-insensitive, no addresses *)
Inductive obs :=
| ONone | OBool (b : bool) | OInt (z : Z) | OStr (s : string)
| OList (l : list obs) | OTuple (l : list obs) | ODict (l : list (obs * obs)) | OOther (tag : string).

Record state := {
  lists : list (list value * nat);            (* contents, number of active iterations *)
  dicts : list (list (value * value) * nat);
  cells : list (option value);
  clos : list closure;
  out : list obs                               (* transcript, most recent first *)
}.

Definition empty_state : state := {| lists := []; dicts := []; cells := []; clos := []; out := [] |}.

Inductive err :=
| TypeErr | IndexErr | KeyErr | ZeroDiv | ValueErr | Unbound | Unhashable | MutateWhileIter | Arity
| UserFail | Unsupported.

(* result of a computation: a value and the new state, a failure (kind, line of the innermost
   statement when known) or fuel exhaustion *)
Inductive res (A : Type) :=
| Ok (a : A) (s : state)
| Fail (e : err) (ln : option Z) (s : state)
| OutOfFuel.
Arguments Ok {A}. Arguments Fail {A}. Arguments OutOfFuel {A}.

Definition M (A : Type) := state -> res A.
Definition ret {A} (a : A) : M A := fun s => Ok a s.
Definition bind {A B} (m : M A) (f : A -> M B) : M B :=
  fun s => match m s with Ok a s' => f a s' | Fail e l s' => Fail e l s' | OutOfFuel => OutOfFuel end.
Definition fail {A} (e : err) : M A := fun s => Fail e None s.
Definition get_state : M state := fun s => Ok s s.
Definition put_state (s : state) : M unit := fun _ => Ok tt s.
Notation "x <- m ;; f" := (bind m (fun x => f)) (at level 61, m at next level, right associativity).
Notation "m ;;; f" := (bind m (fun _ => f)) (at level 61, right associativity).

Fixpoint mapM {A B} (f : A -> M B) (l : list A) : M (list B) :=
  match l with
  | [] => ret []
  | x :: xs => y <- f x ;; ys <- mapM f xs ;; ret (y :: ys)
  end.

(* ---- store ------------------------------------------------------------------------------------ *)
Fixpoint upd {A} (l : list A) (i : nat) (x : A) : list A :=
  match l, i with
  | [], _ => []
  | _ :: t, O => x :: t
  | h :: t, S i => h :: upd t i x
  end.

Definition alloc_list (vs : list value) : M value :=
  fun s => Ok (VList (length (lists s)))
    {| lists := lists s ++ [(vs, O)]; dicts := dicts s; cells := cells s; clos := clos s; out := out s |}.
Definition alloc_dict (kvs : list (value * value)) : M value :=
  fun s => Ok (VDict (length (dicts s)))
    {| lists := lists s; dicts := dicts s ++ [(kvs, O)]; cells := cells s; clos := clos s; out := out s |}.
Definition alloc_cell (v : option value) : M nat :=
  fun s => Ok (length (cells s))
    {| lists := lists s; dicts := dicts s; cells := cells s ++ [v]; clos := clos s; out := out s |}.
Definition alloc_clo (c : closure) : M value :=
  fun s => Ok (VClo (length (clos s)))
    {| lists := lists s; dicts := dicts s; cells := cells s; clos := clos s ++ [c]; out := out s |}.

Definition get_list (a : nat) : M (list value) :=
  fun s => match nth_error (lists s) a with Some (l, _) => Ok l s | None => Fail Unsupported None s end.
Definition get_dict (a : nat) : M (list (value * value)) :=
  fun s => match nth_error (dicts s) a with Some (d, _) => Ok d s | None => Fail Unsupported None s end.
Definition get_clo (c : nat) : M closure :=
  fun s => match nth_error (clos s) c with Some x => Ok x s | None => Fail Unsupported None s end.

(* mutation is refused while the container is being iterated *)
Definition set_list (a : nat) (l : list value) : M unit :=
  fun s => match nth_error (lists s) a with
           | Some (_, O) => Ok tt {| lists := upd (lists s) a (l, O); dicts := dicts s; cells := cells s;
                                     clos := clos s; out := out s |}
           | Some (_, S _) => Fail MutateWhileIter None s
           | None => Fail Unsupported None s
           end.
Definition set_dict (a : nat) (d : list (value * value)) : M unit :=
  fun s => match nth_error (dicts s) a with
           | Some (_, O) => Ok tt {| lists := lists s; dicts := upd (dicts s) a (d, O); cells := cells s;
                                     clos := clos s; out := out s |}
           | Some (_, S _) => Fail MutateWhileIter None s
           | None => Fail Unsupported None s
           end.
(* element assignment does not change the size: allowed during iteration for lists, as in the code
   (set_at only needs the container not to be frozen); for dicts replacing an existing key likewise *)
Definition set_list_elem (a : nat) (l : list value) : M unit :=
  fun s => match nth_error (lists s) a with
           | Some (_, c) => Ok tt {| lists := upd (lists s) a (l, c); dicts := dicts s; cells := cells s;
                                     clos := clos s; out := out s |}
           | None => Fail Unsupported None s
           end.

Definition iter_lock (v : value) (d : bool) : M unit :=      (* d = true: lock, false: unlock *)
  fun s => match v with
           | VList a => match nth_error (lists s) a with
                        | Some (l, c) => Ok tt {| lists := upd (lists s) a (l, if d then S c else pred c); dicts := dicts s;
                                                   cells := cells s; clos := clos s; out := out s |}
                        | None => Ok tt s end
           | VDict a => match nth_error (dicts s) a with
                        | Some (l, c) => Ok tt {| lists := lists s; dicts := upd (dicts s) a (l, if d then S c else pred c);
                                                   cells := cells s; clos := clos s; out := out s |}
                        | None => Ok tt s end
           | _ => Ok tt s
           end.

Definition get_cell (a : nat) : M value :=
  fun s => match nth_error (cells s) a with
           | Some (Some v) => Ok v s
           | _ => Fail Unbound None s
           end.
Definition set_cell (a : nat) (v : value) : M unit :=
  fun s => Ok tt {| lists := lists s; dicts := dicts s; cells := upd (cells s) a (Some v); clos := clos s; out := out s |}.
Definition emit_obs (o : obs) : M unit :=
  fun s => Ok tt {| lists := lists s; dicts := dicts s; cells := cells s; clos := clos s; out := o :: out s |}.

Fixpoint lookup (x : string) (e : env) : option nat :=
  match e with
  | [] => None
  | (y, a) :: t => if String.eqb x y then Some a else lookup x t
  end.

(* ---- pure value operations (need the store for lists/dicts; depth-fuelled) --------------------- *)
Definition depth : nat := 40.

Fixpoint obs_of (n : nat) (s : state) (v : value) : obs :=
  match n with
  | O => OOther "..."
  | S n =>
    match v with
    | VNone => ONone | VBool b => OBool b | VInt z => OInt z | VStr x => OStr x
    | VTuple vs => OTuple (map (obs_of n s) vs)
    | VList a => match nth_error (lists s) a with Some (l, _) => OList (map (obs_of n s) l) | None => OOther "?" end
    | VDict a => match nth_error (dicts s) a with
                 | Some (d, _) => ODict (map (fun kv => (obs_of n s (fst kv), obs_of n s (snd kv))) d)
                 | None => OOther "?" end
    | VRange _ _ _ => OOther "range"
    | VClo _ => OOther "function"
    | VBuiltin _ => OOther "builtin"
    end
  end.

Definition truth (s : state) (v : value) : bool :=
  match v with
  | VNone => false | VBool b => b | VInt z => negb (z =? 0) | VStr x => negb (String.eqb x "")
  | VTuple vs => match vs with [] => false | _ => true end
  | VList a => match nth_error (lists s) a with Some ([], _) => false | _ => true end
  | VDict a => match nth_error (dicts s) a with Some ([], _) => false | _ => true end
  | VRange lo hi st => if 0 <? st then lo <? hi else hi <? lo
  | VClo _ | VBuiltin _ => true
  end.

Fixpoint forall2b {A} (f : A -> A -> bool) (l1 l2 : list A) : bool :=
  match l1, l2 with
  | [], [] => true
  | x :: xs, y :: ys => f x y && forall2b f xs ys
  | _, _ => false
  end.

(* structural equality; bool and int are different types (True != 1), as in Starlark *)
Fixpoint veq (n : nat) (s : state) (a b : value) : bool :=
  match n with
  | O => false
  | S n =>
    match a, b with
    | VNone, VNone => true
    | VBool x, VBool y => Bool.eqb x y
    | VInt x, VInt y => x =? y
    | VStr x, VStr y => String.eqb x y
    | VTuple xs, VTuple ys => forall2b (veq n s) xs ys
    | VList x, VList y =>
        if Nat.eqb x y then true else
        match nth_error (lists s) x, nth_error (lists s) y with
        | Some (l1, _), Some (l2, _) => forall2b (veq n s) l1 l2
        | _, _ => false end
    | VDict x, VDict y =>
        if Nat.eqb x y then true else
        match nth_error (dicts s) x, nth_error (dicts s) y with
        | Some (d1, _), Some (d2, _) =>
            Nat.eqb (length d1) (length d2) &&
            forallb (fun kv => existsb (fun kv' => veq n s (fst kv) (fst kv') && veq n s (snd kv) (snd kv')) d2) d1
        | _, _ => false end
    | VRange a1 b1 c1, VRange a2 b2 c2 => (a1 =? a2) && (b1 =? b2) && (c1 =? c2)
    | VClo x, VClo y => Nat.eqb x y
    | VBuiltin x, VBuiltin y => String.eqb x y
    | _, _ => false
    end
  end.

(* ordering within a type; None = not comparable *)
Definition ascii_cmp (a b : ascii) : comparison := Nat.compare (nat_of_ascii a) (nat_of_ascii b).
Fixpoint string_cmp (a b : string) : comparison :=
  match a, b with
  | EmptyString, EmptyString => Eq
  | EmptyString, _ => Lt
  | _, EmptyString => Gt
  | String x xs, String y ys => match ascii_cmp x y with Eq => string_cmp xs ys | c => c end
  end.

Fixpoint lex_cmp {A} (f : A -> A -> option comparison) (l1 l2 : list A) : option comparison :=
  match l1, l2 with
  | [], [] => Some Eq
  | [], _ => Some Lt
  | _, [] => Some Gt
  | x :: xs, y :: ys => match f x y with Some Eq => lex_cmp f xs ys | r => r end
  end.

Fixpoint vcmp (n : nat) (s : state) (a b : value) : option comparison :=
  match n with
  | O => None
  | S n =>
    match a, b with
    | VInt x, VInt y => Some (Z.compare x y)
    | VBool x, VBool y => Some (Z.compare (if x then 1 else 0) (if y then 1 else 0))
    | VStr x, VStr y => Some (string_cmp x y)
    | VTuple xs, VTuple ys => lex_cmp (vcmp n s) xs ys
    | VList x, VList y =>
        match nth_error (lists s) x, nth_error (lists s) y with
        | Some (l1, _), Some (l2, _) => lex_cmp (vcmp n s) l1 l2
        | _, _ => None end
    | VNone, VNone => Some Eq
    | _, _ => None
    end
  end.

Fixpoint hashable (n : nat) (v : value) : bool :=
  match n with
  | O => false
  | S n =>
    match v with
    | VNone | VBool _ | VInt _ | VStr _ | VClo _ | VBuiltin _ | VRange _ _ _ => true
    | VTuple vs => forallb (hashable n) vs
    | VList _ | VDict _ => false
    end
  end.

Definition type_name (v : value) : string :=
  match v with
  | VNone => "NoneType" | VBool _ => "bool" | VInt _ => "int" | VStr _ => "string" | VTuple _ => "tuple"
  | VList _ => "list" | VDict _ => "dict" | VRange _ _ _ => "range" | VClo _ => "function" | VBuiltin _ => "function"
  end.

(* association-list dictionary keyed through veq, insertion ordered *)
Fixpoint dict_get (s : state) (d : list (value * value)) (k : value) : option value :=
  match d with
  | [] => None
  | (k', v) :: t => if veq depth s k k' then Some v else dict_get s t k
  end.
Fixpoint dict_set (s : state) (d : list (value * value)) (k v : value) : list (value * value) :=
  match d with
  | [] => [(k, v)]
  | (k', v') :: t => if veq depth s k k' then (k', v) :: t else (k', v') :: dict_set s t k v
  end.
Fixpoint dict_del (s : state) (d : list (value * value)) (k : value) : list (value * value) :=
  match d with
  | [] => []
  | (k', v') :: t => if veq depth s k k' then t else (k', v') :: dict_del s t k
  end.

(* the elements an iteration visits *)
Fixpoint range_elems (n : nat) (lo hi st : Z) : list value :=
  match n with
  | O => []
  | S n => if (if 0 <? st then lo <? hi else hi <? lo) then VInt lo :: range_elems n (lo + st) hi st else []
  end.
Definition range_len (lo hi st : Z) : Z :=
  if 0 <? st then (if lo <? hi then (hi - lo + st - 1) / st else 0)
  else (if hi <? lo then (lo - hi - st - 1) / (- st) else 0).

Fixpoint chars (x : string) : list value :=
  match x with EmptyString => [] | String c r => VStr (String c EmptyString) :: chars r end.

Definition iter_elems (v : value) : M (list value) :=
  match v with
  | VTuple vs => ret vs
  | VList a => get_list a
  | VDict a => d <- get_dict a ;; ret (map fst d)
  | VRange lo hi st => ret (range_elems (Z.to_nat (range_len lo hi st)) lo hi st)
  | _ => fail TypeErr            (* strings are not iterable in Starlark *)
  end.
