(* Slicing: model of starlark/src/values/index.rs (convert_index, convert_slice_indices, apply_slice).
   Executable; the equivalence with the declarative specification is in Core/SliceProofs.v. *)
From Coq Require Import ZArith List Bool.
Import ListNotations.
Open Scope Z_scope.

(* convert_index: None = IndexOutOfBound *)
Definition convert_index (x len : Z) : option Z :=
  let i := if x <? 0 then len + x else x in
  if (i <? 0) || (len <=? i) then None else Some i.

Definition convert_index_aux (len : Z) (v : option Z) (default min max : Z) : Z :=
  match v with
  | None => default
  | Some x => let i := if x <? 0 then len + x else x in
              if i <? min then min else if max <? i then max else i
  end.

(* None when the stride is zero *)
Definition convert_slice_indices (len : Z) (start stop stride : option Z) : option (Z * Z * Z) :=
  let stride := match stride with None => 1 | Some s => s end in
  if stride =? 0 then None else
  let def_start := if stride <? 0 then len - 1 else 0 in
  let def_end := if stride <? 0 then -1 else len in
  let clamp := if stride <? 0 then -1 else 0 in
  Some (convert_index_aux len start def_start clamp (len + clamp),
        convert_index_aux len stop def_end clamp (len + clamp), stride).

Definition sub_range {A} (xs : list A) (a b : Z) : list A :=      (* xs[a..b] *)
  firstn (Z.to_nat (b - a)) (skipn (Z.to_nat a) xs).

Fixpoint every_nth_from {A} (k : nat) (i : nat) (xs : list A) : list A :=   (* keep positions i with i mod k = 0 *)
  match xs with
  | [] => []
  | x :: t => (if Nat.eqb (Nat.modulo i k) 0 then [x] else []) ++ every_nth_from k (S i) t
  end.

Definition apply_slice {A} (xs : list A) (start stop stride : option Z) : option (list A) :=
  match convert_slice_indices (Z.of_nat (length xs)) start stop stride with
  | None => None
  | Some (start, stop, stride) =>
    if stride =? 1 then Some (if stop <=? start then [] else sub_range xs start stop) else
    let '(lo, hi) := if stride <? 0 then (stop + 1, start + 1) else (start, stop) in
    if hi <=? lo then Some [] else
    let res := sub_range xs lo hi in
    if stride =? -1 then Some (rev res) else
    let res := if stride <? 0 then rev res else res in
    Some (every_nth_from (Z.to_nat (Z.abs stride)) 0 res)
  end.

(* ---- specification: the elements at start, start+step, ... strictly before stop ------------- *)
Fixpoint walk {A} (fuel : nat) (xs : list A) (i stop step : Z) : list A :=
  match fuel with
  | O => []
  | S f => if (if 0 <? step then i <? stop else stop <? i)
           then match nth_error xs (Z.to_nat i) with Some x => [x] | None => [] end ++ walk f xs (i + step) stop step
           else []
  end.
Definition slice_spec {A} (xs : list A) (start stop stride : option Z) : option (list A) :=
  match convert_slice_indices (Z.of_nat (length xs)) start stop stride with
  | None => None
  | Some (start, stop, stride) => Some (walk (S (length xs)) xs start stop stride)
  end.
