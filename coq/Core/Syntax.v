(* MiniStar: abstract syntax of the Python-shared core of Starlark (DESIGN 3.2). *)
From Coq Require Import ZArith String List.
Import ListNotations.

Inductive unop := UNeg | UPos | UInv | UNot.
Inductive binop :=
| BAdd | BSub | BMul | BFloorDiv | BMod | BAnd | BOr | BXor | BShl | BShr
| BEq | BNe | BLt | BLe | BGt | BGe | BIn | BNotIn.

Inductive expr :=
| ENone | EBool (b : bool) | EInt (z : Z) | EStr (s : string)
| EVar (x : string)
| ETuple (es : list expr) | EList (es : list expr) | EDict (kvs : list (expr * expr))
| EUn (o : unop) (e : expr) | EBin (o : binop) (a b : expr)
| EAnd (a b : expr) | EOr (a b : expr) | EIf (c t f : expr)          (* t if c else f *)
| EIndex (a i : expr) | ESlice (a : expr) (lo hi st : option expr)
| ECall (f : expr) (args : list expr) (kwargs : list (string * expr)) (star : option expr) (dstar : option expr)
| EMeth (recv : expr) (m : string) (args : list expr) (kwargs : list (string * expr))   (* recv.m(args, name=e, ...) *)
| ELambda (ps : list param) (body : expr)
| EListComp (e : expr) (cls : list clause)
| EDictComp (k v : expr) (cls : list clause)
with clause := CFor (t : target) (e : expr) | CIf (e : expr)
with param := PNormal (x : string) (default : option expr) | PArgs (x : string) | PKwargs (x : string)
with target := TVar (x : string) | TTuple (ts : list target) | TIndex (a i : expr).

Inductive stmt :=
| SExpr (ln : Z) (e : expr)
| SAssign (ln : Z) (t : target) (e : expr)
| SAug (ln : Z) (t : target) (o : binop) (e : expr)
| SIf (ln : Z) (c : expr) (th el : list stmt)
| SFor (ln : Z) (t : target) (e : expr) (body : list stmt)
| SBreak (ln : Z) | SContinue (ln : Z) | SReturn (ln : Z) (e : option expr) | SPass (ln : Z)
| SDef (ln : Z) (name : string) (ps : list param) (body : list stmt).

Definition stmt_line (s : stmt) : Z :=
  match s with
  | SExpr l _ | SAssign l _ _ | SAug l _ _ _ | SIf l _ _ _ | SFor l _ _ _ | SBreak l | SContinue l
  | SReturn l _ | SPass l | SDef l _ _ _ => l
  end.

(* ---- names bound in a function body (Python/Starlark rule): assigned anywhere in the body,
        not descending into nested defs / lambdas; comprehension variables are not included ------ *)
Fixpoint target_names (t : target) : list string :=
  match t with
  | TVar x => [x]
  | TTuple ts => flat_map target_names ts
  | TIndex _ _ => []
  end.

Fixpoint stmt_names (s : stmt) : list string :=
  match s with
  | SAssign _ t _ | SAug _ t _ _ => target_names t
  | SIf _ _ th el => flat_map stmt_names th ++ flat_map stmt_names el
  | SFor _ t _ body => target_names t ++ flat_map stmt_names body
  | SDef _ name _ _ => [name]
  | _ => []
  end.

Definition body_names (ss : list stmt) : list string := flat_map stmt_names ss.

Definition param_name (p : param) : string :=
  match p with PNormal x _ | PArgs x | PKwargs x => x end.
