(* MiniStar reference semantics: a fuelled big-step interpreter (DESIGN 3.2). Executable; the
   meta-theory is in Core/SemProofs.v. *)
From Coq Require Import ZArith String List Bool Ascii.
From SV Require Import Core.Syntax Core.Values Core.Slice Int.Str.
From SV Require Export Core.StrOps.
Import ListNotations.
Open Scope string_scope.
Open Scope list_scope.
Open Scope Z_scope.

(* ---- helpers ----------------------------------------------------------------------------------- *)
Fixpoint list_repeat {A} (n : nat) (l : list A) : list A :=
  match n with O => [] | S n => l ++ list_repeat n l end.

Definition str_chars (x : string) : list ascii := list_ascii_of_string x.
Definition of_chars (l : list ascii) : string := string_of_list_ascii l.

Definition as_int (v : value) : M Z := match v with VInt z => ret z | _ => fail TypeErr end.

Definition state_of : M state := get_state.

Definition veqM (a b : value) : M bool := s <- get_state ;; ret (veq depth s a b).

(* the pure string layer (Core/StrOps.v) sees its arguments as the embedder would observe them (no addresses) and
   returns address-free data; only a list result is allocated *)
Definition obsl := list obs.
Definition obs_list (vs : list value) : M obsl := s <- get_state ;; ret (map (obs_of depth s) vs).
Definition lift_sres (r : sresult) : M value :=
  match r with
  | inl e => fail e
  | inr (RStr x) => ret (VStr x)
  | inr (RInt z) => ret (VInt z)
  | inr (RBool b) => ret (VBool b)
  | inr RNone => ret VNone
  | inr (RStrTuple l) => ret (VTuple (map VStr l))
  | inr (RStrList l) => alloc_list (map VStr l)
  end.

Definition check_hashable (k : value) : M unit :=
  if hashable depth k then ret tt else fail Unhashable.

Fixpoint memb (s : state) (x : value) (l : list value) : bool :=
  match l with [] => false | y :: t => veq depth s x y || memb s x t end.

(* ---- binary operators ---------------------------------------------------------------------------- *)
Definition cmp_op (o : binop) (c : comparison) : bool :=
  match o, c with
  | BLt, Lt => true | BLe, Lt => true | BLe, Eq => true
  | BGt, Gt => true | BGe, Gt => true | BGe, Eq => true
  | _, _ => false
  end.

Definition contains (a b : value) : M bool :=      (* a in b *)
  match b with
  | VList l => xs <- get_list l ;; s <- get_state ;; ret (memb s a xs)
  | VTuple xs => s <- get_state ;; ret (memb s a xs)
  | VDict d => check_hashable a ;;; kvs <- get_dict d ;; s <- get_state ;;
               ret (match dict_get s kvs a with Some _ => true | None => false end)
  | VStr x => match a with VStr p => ret (is_substring p x) | _ => fail TypeErr end
  | VRange lo hi st =>
      match a with
      | VInt z => ret (if 0 <? st then (lo <=? z) && (z <? hi) && ((z - lo) mod st =? 0)
                       else (hi <? z) && (z <=? lo) && ((lo - z) mod (- st) =? 0))
      | _ => ret false
      end
  | _ => fail TypeErr
  end.

Definition binop_eval (o : binop) (a b : value) : M value :=
  match o with
  | BEq => r <- veqM a b ;; ret (VBool r)
  | BNe => r <- veqM a b ;; ret (VBool (negb r))
  | BLt | BLe | BGt | BGe =>
      s <- get_state ;;
      match vcmp depth s a b with Some c => ret (VBool (cmp_op o c)) | None => fail TypeErr end
  | BIn => r <- contains a b ;; ret (VBool r)
  | BNotIn => r <- contains a b ;; ret (VBool (negb r))
  | BAdd =>
      match a, b with
      | VInt x, VInt y => ret (VInt (x + y))
      | VStr x, VStr y => ret (VStr (String.append x y))
      | VTuple x, VTuple y => ret (VTuple (x ++ y))
      | VList x, VList y => l1 <- get_list x ;; l2 <- get_list y ;; alloc_list (l1 ++ l2)
      | _, _ => fail TypeErr
      end
  | BSub => match a, b with VInt x, VInt y => ret (VInt (x - y)) | _, _ => fail TypeErr end
  | BMul =>
      match a, b with
      | VInt x, VInt y => ret (VInt (x * y))
      | VStr x, VInt n | VInt n, VStr x => ret (VStr (str_repeat (Z.to_nat n) x))
      | VTuple x, VInt n | VInt n, VTuple x => ret (VTuple (list_repeat (Z.to_nat n) x))
      | VList x, VInt n | VInt n, VList x => l <- get_list x ;; alloc_list (list_repeat (Z.to_nat n) l)
      | _, _ => fail TypeErr
      end
  | BFloorDiv =>
      match a, b with
      | VInt x, VInt y => if y =? 0 then fail ZeroDiv else ret (VInt (x / y))
      | _, _ => fail TypeErr
      end
  | BMod =>
      match a, b with
      | VInt x, VInt y => if y =? 0 then fail ZeroDiv else ret (VInt (x mod y))
      | VStr f, _ => os <- obs_list [b] ;; lift_sres (percent_pure f (hd ONone os))      (* "fmt" % args *)
      | _, _ => fail TypeErr
      end
  | BAnd => match a, b with VInt x, VInt y => ret (VInt (Z.land x y)) | _, _ => fail TypeErr end
  | BOr => match a, b with VInt x, VInt y => ret (VInt (Z.lor x y)) | _, _ => fail TypeErr end
  | BXor => match a, b with VInt x, VInt y => ret (VInt (Z.lxor x y)) | _, _ => fail TypeErr end
  | BShl =>
      match a, b with
      | VInt x, VInt y => if y <? 0 then fail ValueErr else if 512 <? y then fail Unsupported else ret (VInt (Z.shiftl x y))
      | _, _ => fail TypeErr
      end
  | BShr =>
      match a, b with
      | VInt x, VInt y => if y <? 0 then fail ValueErr else if 100000 <? y then fail Unsupported else ret (VInt (Z.shiftr x y))
      | _, _ => fail TypeErr
      end
  end.

Definition unop_eval (o : unop) (a : value) : M value :=
  match o, a with
  | UNeg, VInt x => ret (VInt (- x))
  | UPos, VInt x => ret (VInt x)
  | UInv, VInt x => ret (VInt (Z.lnot x))
  | UNot, _ => s <- get_state ;; ret (VBool (negb (truth s a)))
  | _, _ => fail TypeErr
  end.

(* ---- indexing and slicing -------------------------------------------------------------------- *)
Definition index_eval (a i : value) : M value :=
  match a with
  | VList l =>
      xs <- get_list l ;; z <- as_int i ;;
      match convert_index z (Z.of_nat (length xs)) with
      | Some k => match nth_error xs (Z.to_nat k) with Some v => ret v | None => fail IndexErr end
      | None => fail IndexErr end
  | VTuple xs =>
      z <- as_int i ;;
      match convert_index z (Z.of_nat (length xs)) with
      | Some k => match nth_error xs (Z.to_nat k) with Some v => ret v | None => fail IndexErr end
      | None => fail IndexErr end
  | VStr x =>
      z <- as_int i ;;
      let cs := str_chars x in
      match convert_index z (Z.of_nat (length cs)) with
      | Some k => match nth_error cs (Z.to_nat k) with Some c => ret (VStr (String c "")) | None => fail IndexErr end
      | None => fail IndexErr end
  | VDict d =>
      check_hashable i ;;; kvs <- get_dict d ;; s <- get_state ;;
      match dict_get s kvs i with Some v => ret v | None => fail KeyErr end
  | VRange lo hi st =>
      z <- as_int i ;;
      match convert_index z (range_len lo hi st) with
      | Some k => ret (VInt (lo + k * st))
      | None => fail IndexErr end
  | _ => fail TypeErr
  end.

Definition opt_int (v : option value) : M (option Z) :=
  match v with
  | None | Some VNone => ret None
  | Some (VInt z) => ret (Some z)
  | Some _ => fail TypeErr
  end.

Definition slice_eval (a : value) (lo hi st : option value) : M value :=
  lo <- opt_int lo ;; hi <- opt_int hi ;; st <- opt_int st ;;
  match a with
  | VList l =>
      xs <- get_list l ;;
      match apply_slice xs lo hi st with Some r => alloc_list r | None => fail ValueErr end
  | VTuple xs =>
      match apply_slice xs lo hi st with Some r => ret (VTuple r) | None => fail ValueErr end
  | VStr x =>
      match apply_slice (str_chars x) lo hi st with Some r => ret (VStr (of_chars r)) | None => fail ValueErr end
  | _ => fail TypeErr
  end.

Definition set_index (a i v : value) : M unit :=
  match a with
  | VList l =>
      xs <- get_list l ;; z <- as_int i ;;
      match convert_index z (Z.of_nat (length xs)) with
      | Some k => set_list_elem l (upd xs (Z.to_nat k) v)
      | None => fail IndexErr end
  | VDict d =>
      check_hashable i ;;; kvs <- get_dict d ;; s <- get_state ;;
      match dict_get s kvs i with
      | Some _ => (* replacing the value of an existing key keeps the size *)
                  fun st => match nth_error (dicts st) d with
                            | Some (_, c) => Ok tt {| lists := lists st; dicts := upd (dicts st) d (dict_set s kvs i v, c);
                                                      cells := cells st; clos := clos st; out := out st |}
                            | None => Fail Unsupported None st end
      | None => set_dict d (dict_set s kvs i v)
      end
  | _ => fail TypeErr
  end.

(* ---- sorting (stable insertion sort through vcmp) ---------------------------------------------- *)
Fixpoint insert_sorted (s : state) (x : value) (l : list value) : option (list value) :=
  match l with
  | [] => Some [x]
  | y :: t => match vcmp depth s x y with
              | Some Gt => match insert_sorted s x t with Some r => Some (y :: r) | None => None end
              | Some _ => Some (x :: y :: t)        (* x came first in the input: it stays before equal elements *)
              | None => None end
  end.
Fixpoint sort_values (s : state) (l : list value) : option (list value) :=
  match l with
  | [] => Some []
  | x :: t => match sort_values s t with Some r => insert_sorted s x r | None => None end
  end.
(* elements are inserted from the right end of the input, each before the equal ones already placed: stable *)

(* stable sort of (key, element) pairs by key *)
Fixpoint insert_pair (s : state) (p : value * value) (l : list (value * value)) : option (list (value * value)) :=
  match l with
  | [] => Some [p]
  | q :: t => match vcmp depth s (fst p) (fst q) with
              | Some Gt => match insert_pair s p t with Some r => Some (q :: r) | None => None end
              | Some _ => Some (p :: q :: t)        (* p came first in the input: it stays before equal keys *)
              | None => None end
  end.
Fixpoint sort_pairs (s : state) (l : list (value * value)) : option (list (value * value)) :=
  match l with
  | [] => Some []
  | p :: t => match sort_pairs s t with Some r => insert_pair s p r | None => None end
  end.
(* reverse=True keeps the original order of elements with equal keys *)
Definition sort_pairs_dir (s : state) (reverse : bool) (l : list (value * value)) : option (list (value * value)) :=
  if reverse then option_map (@rev _) (sort_pairs s (rev l)) else sort_pairs s l.

Fixpoint assoc_str (x : string) (l : list (string * value)) : option value :=
  match l with
  | [] => None
  | (y, v) :: t => if String.eqb x y then Some v else assoc_str x t
  end.

Fixpoint extremum (s : state) (want : comparison) (best : value) (l : list value) : option value :=
  match l with
  | [] => Some best
  | x :: t => match vcmp depth s x best with
              | Some c => extremum s want (if match c, want with Lt, Lt | Gt, Gt => true | _, _ => false end then x else best) t
              | None => None end
  end.

Fixpoint zip_lists (ls : list (list value)) (n : nat) : list value :=
  match n with
  | O => []
  | S n =>
    if forallb (fun l => match l with [] => false | _ => true end) ls
    then VTuple (map (fun l => hd VNone l) ls) :: zip_lists (map (@tl value) ls) n
    else []
  end.

Fixpoint enumerate_from (i : Z) (l : list value) : list value :=
  match l with [] => [] | x :: t => VTuple [VInt i; x] :: enumerate_from (i + 1) t end.

(* ---- builtin functions ------------------------------------------------------------------------- *)
Definition builtin_names : list string :=
  ["len"; "range"; "list"; "tuple"; "bool"; "int"; "str"; "sorted"; "reversed"; "enumerate"; "zip";
   "min"; "max"; "any"; "all"; "emit"; "abs"; "dict"; "repr"; "ord"; "chr"].

(* str(x): a string is itself, anything else its repr *)
Definition str_of (v : value) : M string :=
  os <- obs_list [v] ;;
  match str_obs (hd ONone os) with Some x => ret x | None => fail Unsupported end.

Definition call_builtin (b : string) (args : list value) (kwargs : list (string * value)) : M value :=
  match kwargs with _ :: _ => fail Unsupported | [] =>
  if String.eqb b "len" then
    match args with
    | [VStr x] => ret (VInt (Z.of_nat (String.length x)))
    | [VTuple xs] => ret (VInt (Z.of_nat (length xs)))
    | [VList l] => xs <- get_list l ;; ret (VInt (Z.of_nat (length xs)))
    | [VDict d] => xs <- get_dict d ;; ret (VInt (Z.of_nat (length xs)))
    | [VRange lo hi st] => ret (VInt (range_len lo hi st))
    | [_] => fail TypeErr
    | _ => fail Arity end
  else if String.eqb b "range" then
    match args with
    | [VInt n] => ret (VRange 0 n 1)
    | [VInt a; VInt n] => ret (VRange a n 1)
    | [VInt a; VInt n; VInt st] => if st =? 0 then fail ValueErr else ret (VRange a n st)
    | [] => fail Arity | _ :: _ :: _ :: _ :: _ => fail Arity
    | _ => fail TypeErr end
  else if String.eqb b "list" then
    match args with
    | [] => alloc_list []
    | [v] => xs <- iter_elems v ;; alloc_list xs
    | _ => fail Arity end
  else if String.eqb b "tuple" then
    match args with
    | [] => ret (VTuple [])
    | [v] => xs <- iter_elems v ;; ret (VTuple xs)
    | _ => fail Arity end
  else if String.eqb b "bool" then
    match args with
    | [] => ret (VBool false)
    | [v] => s <- get_state ;; ret (VBool (truth s v))
    | _ => fail Arity end
  else if String.eqb b "int" then
    match args with
    | [VInt z] => ret (VInt z)
    | [VBool x] => ret (VInt (if x then 1 else 0))
    | [VStr x] => match parse 10 x with Some z => ret (VInt z) | None => fail ValueErr end
    | [_] => fail TypeErr
    | _ => fail Unsupported end
  else if String.eqb b "str" then
    match args with
    | [v] => x <- str_of v ;; ret (VStr x)
    | _ => fail Arity end
  else if String.eqb b "sorted" then
    match args with
    | [v] => xs <- iter_elems v ;; s <- get_state ;;
             match sort_values s xs with Some r => alloc_list r | None => fail TypeErr end
    | _ => fail Unsupported end
  else if String.eqb b "reversed" then
    match args with
    | [v] => xs <- iter_elems v ;; alloc_list (rev xs)
    | _ => fail Arity end
  else if String.eqb b "enumerate" then
    match args with
    | [v] => xs <- iter_elems v ;; alloc_list (enumerate_from 0 xs)
    | [v; VInt st] => xs <- iter_elems v ;; alloc_list (enumerate_from st xs)
    | [_; _] => fail TypeErr
    | _ => fail Arity end
  else if String.eqb b "zip" then
    ls <- mapM iter_elems args ;;
    alloc_list (match ls with [] => [] | l :: _ => zip_lists ls (length l) end)
  else if String.eqb b "min" || String.eqb b "max" then
    let want := if String.eqb b "min" then Lt else Gt in
    xs <- match args with
          | [] => fail Arity
          | [v] => iter_elems v
          | _ => ret args end ;;
    match xs with
    | [] => fail ValueErr
    | x :: t => s <- get_state ;; match extremum s want x t with Some r => ret r | None => fail TypeErr end
    end
  else if String.eqb b "any" then
    match args with
    | [v] => xs <- iter_elems v ;; s <- get_state ;; ret (VBool (existsb (truth s) xs))
    | _ => fail Arity end
  else if String.eqb b "all" then
    match args with
    | [v] => xs <- iter_elems v ;; s <- get_state ;; ret (VBool (forallb (truth s) xs))
    | _ => fail Arity end
  else if String.eqb b "emit" then
    match args with
    | [v] => s <- get_state ;; emit_obs (obs_of depth s v) ;;; ret VNone
    | _ => fail Arity end
  else if String.eqb b "abs" then
    match args with
    | [VInt z] => ret (VInt (Z.abs z))
    | [_] => fail TypeErr
    | _ => fail Arity end
  else if String.eqb b "dict" then
    match args with
    | [] => alloc_dict []
    | _ => fail Unsupported end
  else if existsb (String.eqb b) str_builtin_names then
    os <- obs_list args ;; lift_sres (str_builtin_pure b os)
  else fail Unsupported
  end.

(* ---- methods ------------------------------------------------------------------------------------ *)
Fixpoint remove_first (s : state) (x : value) (l : list value) : option (list value) :=
  match l with
  | [] => None
  | y :: t => if veq depth s x y then Some t
              else match remove_first s x t with Some r => Some (y :: r) | None => None end
  end.
Fixpoint index_of (s : state) (x : value) (l : list value) (i : Z) : option Z :=
  match l with
  | [] => None
  | y :: t => if veq depth s x y then Some i else index_of s x t (i + 1)
  end.
Definition insert_at {A} (l : list A) (i : nat) (x : A) : list A := firstn i l ++ x :: skipn i l.
Definition remove_at {A} (l : list A) (i : nat) : list A := firstn i l ++ skipn (S i) l.

Fixpoint dict_update (s : state) (d : list (value * value)) (kvs : list (value * value)) : list (value * value) :=
  match kvs with
  | [] => d
  | (k, v) :: t => dict_update s (dict_set s d k v) t
  end.

Definition call_method (recv : value) (m : string) (args : list value) : M value :=
  match recv with
  | VList l =>
      xs <- get_list l ;;
      if String.eqb m "append" then
        match args with [v] => set_list l (xs ++ [v]) ;;; ret VNone | _ => fail Arity end
      else if String.eqb m "extend" then
        match args with
        | [v] => ys <- iter_elems v ;; xs' <- get_list l ;; set_list l (xs' ++ ys) ;;; ret VNone
        | _ => fail Arity end
      else if String.eqb m "insert" then
        match args with
        | [VInt i; v] =>
            let n := Z.of_nat (length xs) in
            let i := if i <? 0 then Z.max 0 (n + i) else Z.min n i in
            set_list l (insert_at xs (Z.to_nat i) v) ;;; ret VNone
        | [_; _] => fail TypeErr
        | _ => fail Arity end
      else if String.eqb m "pop" then
        match args with
        | [] => match rev xs with
                | [] => fail IndexErr
                | last :: r => set_list l (rev r) ;;; ret last end
        | [VInt i] =>
            match convert_index i (Z.of_nat (length xs)) with
            | Some k => match nth_error xs (Z.to_nat k) with
                        | Some v => set_list l (remove_at xs (Z.to_nat k)) ;;; ret v
                        | None => fail IndexErr end
            | None => fail IndexErr end
        | [_] => fail TypeErr
        | _ => fail Arity end
      else if String.eqb m "remove" then
        match args with
        | [v] => s <- get_state ;;
                 match remove_first s v xs with Some r => set_list l r ;;; ret VNone | None => fail ValueErr end
        | _ => fail Arity end
      else if String.eqb m "index" then
        match args with
        | [v] => s <- get_state ;;
                 match index_of s v xs 0 with Some i => ret (VInt i) | None => fail ValueErr end
        | _ => fail Unsupported end
      else if String.eqb m "clear" then
        match args with [] => set_list l [] ;;; ret VNone | _ => fail Arity end
      else fail Unsupported
  | VDict d =>
      kvs <- get_dict d ;; s <- get_state ;;
      if String.eqb m "get" then
        match args with
        | [k] => check_hashable k ;;; ret (match dict_get s kvs k with Some v => v | None => VNone end)
        | [k; dflt] => check_hashable k ;;; ret (match dict_get s kvs k with Some v => v | None => dflt end)
        | _ => fail Arity end
      else if String.eqb m "keys" then
        match args with [] => alloc_list (map fst kvs) | _ => fail Arity end
      else if String.eqb m "values" then
        match args with [] => alloc_list (map snd kvs) | _ => fail Arity end
      else if String.eqb m "items" then
        match args with [] => alloc_list (map (fun kv => VTuple [fst kv; snd kv]) kvs) | _ => fail Arity end
      else if String.eqb m "pop" then
        match args with
        | [k] => check_hashable k ;;;
                 match dict_get s kvs k with
                 | Some v => set_dict d (dict_del s kvs k) ;;; ret v
                 | None => fail KeyErr end
        | [k; dflt] => check_hashable k ;;;
                 match dict_get s kvs k with
                 | Some v => set_dict d (dict_del s kvs k) ;;; ret v
                 | None => ret dflt end
        | _ => fail Arity end
      else if String.eqb m "setdefault" then
        match args with
        | [k; dflt] => check_hashable k ;;;
                 match dict_get s kvs k with
                 | Some v => ret v
                 | None => set_dict d (dict_set s kvs k dflt) ;;; ret dflt end
        | [k] => check_hashable k ;;;
                 match dict_get s kvs k with
                 | Some v => ret v
                 | None => set_dict d (dict_set s kvs k VNone) ;;; ret VNone end
        | _ => fail Arity end
      else if String.eqb m "update" then
        match args with
        | [VDict d2] => kvs2 <- get_dict d2 ;; set_dict d (dict_update s kvs kvs2) ;;; ret VNone
        | [_] => fail Unsupported
        | _ => fail Unsupported end
      else if String.eqb m "clear" then
        match args with [] => set_dict d [] ;;; ret VNone | _ => fail Arity end
      else fail Unsupported
  | VStr x =>
      if String.eqb m "join" then
        match args with
        | [v] => xs <- iter_elems v ;; os <- obs_list xs ;; lift_sres (join_pure x os)
        | _ => fail Arity end
      else os <- obs_list args ;; lift_sres (str_method_pure x m os [])
  | _ => fail Unsupported
  end.

(* a method call with keyword arguments: only str.format takes any (every other method of the subset is positional-only) *)
Definition call_method_kw (recv : value) (m : string) (args : list value) (kwargs : list (string * value)) : M value :=
  match kwargs with
  | [] => call_method recv m args
  | _ :: _ =>
      match recv with
      | VStr x =>
          os <- obs_list args ;; kos <- obs_list (map snd kwargs) ;;
          lift_sres (str_method_pure x m os (combine (map fst kwargs) kos))
      | _ => fail Arity
      end
  end.

(* ---- argument binding (simple reference rule; the full call rules are C08's Bind model) ---------- *)
Fixpoint assoc_remove (x : string) (l : list (string * value)) : option (value * list (string * value)) :=
  match l with
  | [] => None
  | (y, v) :: t => if String.eqb x y then Some (v, t)
                   else match assoc_remove x t with Some (r, t') => Some (r, (y, v) :: t') | None => None end
  end.

Fixpoint lookup_default (x : string) (d : list (string * value)) : option value :=
  match d with
  | [] => None
  | (y, v) :: t => if String.eqb x y then Some v else lookup_default x t
  end.

(* returns bindings name -> value, or None on an ill-formed call *)
Fixpoint bind_params (ps : list param) (dflts : list (string * value)) (pos : list value)
         (named : list (string * value)) (seen_star : bool) {struct ps} : option (list (string * value) * list value * list (string * value)) :=
  match ps with
  | [] => Some ([], pos, named)
  | PNormal x _ :: ps' =>
      match (if seen_star then [] else pos), assoc_remove x named with
      | v :: pos', None =>
          match bind_params ps' dflts pos' named seen_star with
          | Some (b, p, n) => Some ((x, v) :: b, p, n) | None => None end
      | _ :: _, Some _ => None                                   (* multiple values *)
      | [], Some (v, named') =>
          match bind_params ps' dflts pos named' seen_star with
          | Some (b, p, n) => Some ((x, v) :: b, p, n) | None => None end
      | [], None =>
          match lookup_default x dflts with
          | Some v => match bind_params ps' dflts pos named seen_star with
                      | Some (b, p, n) => Some ((x, v) :: b, p, n) | None => None end
          | None => None end
      end
  | PArgs x :: ps' =>
      match bind_params ps' dflts [] named true with
      | Some (b, _, n) => Some ((x, VTuple pos) :: b, [], n) | None => None end
  | PKwargs x :: ps' =>
      (* the dict is allocated by the caller: signalled by leaving `named` in the result under x *)
      match bind_params ps' dflts pos [] seen_star with
      | Some (b, p, _) => Some (b, p, named) | None => None end
  end.

Definition has_kwargs (ps : list param) : option string :=
  fold_right (fun p acc => match p with PKwargs x => Some x | _ => acc end) None ps.

Fixpoint dedup (l : list string) : list string :=
  match l with
  | [] => []
  | x :: t => if existsb (String.eqb x) t then dedup t else x :: dedup t
  end.

Fixpoint alloc_cells (names : list string) : M env :=
  match names with
  | [] => ret []
  | x :: t => a <- alloc_cell None ;; r <- alloc_cells t ;; ret ((x, a) :: r)
  end.

Fixpoint clause_names (cls : list clause) : list string :=
  match cls with
  | [] => []
  | CFor t _ :: r => target_names t ++ clause_names r
  | CIf _ :: r => clause_names r
  end.

(* ---- control outcome of a statement --------------------------------------------------------------- *)
Inductive ctrl := CNormal | CBreak | CContinue | CReturn (v : value).

(* attach the line of the innermost statement to a failure that has none yet *)
Definition at_line {A} (ln : Z) (m : M A) : M A :=
  fun s => match m s with
           | Fail e None s' => Fail e (Some ln) s'
           | r => r
           end.

(* run `m` with the container locked, unlocking afterwards on every exit *)
Definition with_lock {A} (v : value) (m : M A) : M A :=
  fun s => match iter_lock v true s with
           | Ok _ s1 =>
               match m s1 with
               | Ok a s2 => match iter_lock v false s2 with Ok _ s3 => Ok a s3 | _ => Fail Unsupported None s2 end
               | Fail e l s2 => match iter_lock v false s2 with Ok _ s3 => Fail e l s3 | _ => Fail e l s2 end
               | OutOfFuel => OutOfFuel
               end
           | Fail e l s' => Fail e l s'
           | OutOfFuel => OutOfFuel
           end.

Section WithEval.
  (* the evaluator at the next lower fuel *)
  Variable ev : env -> expr -> M value.
  Variable callv : value -> list value -> list (string * value) -> M value.

  Fixpoint assign (en : env) (t : target) (v : value) : M unit :=
    match t with
    | TVar x => match lookup x en with Some a => set_cell a v | None => fail Unbound end
    | TTuple ts =>
        vs <- match v with
              | VTuple vs => ret vs
              | VList l => get_list l
              | _ => fail TypeErr end ;;
        if Nat.eqb (length ts) (length vs)
        then (fix go (ts : list target) (vs : list value) : M unit :=
                match ts, vs with
                | t :: ts', v :: vs' => assign en t v ;;; go ts' vs'
                | _, _ => ret tt end) ts vs
        else fail ValueErr
    | TIndex a i => av <- ev en a ;; iv <- ev en i ;; set_index av iv v
    end.

  (* comprehension clauses; `k` is run for every combination that passes the filters *)
  Fixpoint comp_clauses (en : env) (cls : list clause) (first : option (list value)) (k : M unit) : M unit :=
    match cls with
    | [] => k
    | CIf c :: r => cv <- ev en c ;; s <- get_state ;; if truth s cv then comp_clauses en r None k else ret tt
    | CFor t e :: r =>
        p <- match first with
             | Some vs => ret (VNone, vs)
             | None => it <- ev en e ;; vs <- iter_elems it ;; ret (it, vs) end ;;
        with_lock (fst p)
          ((fix go (vs : list value) : M unit :=
              match vs with
              | [] => ret tt
              | v :: vs' => assign en t v ;;; comp_clauses en r None k ;;; go vs'
              end) (snd p))
    end.

  Fixpoint run_block (ex : stmt -> M ctrl) (ss : list stmt) : M ctrl :=
    match ss with
    | [] => ret CNormal
    | s :: r => c <- ex s ;; match c with CNormal => run_block ex r | _ => ret c end
    end.

  Fixpoint for_loop (body : value -> M ctrl) (vs : list value) : M ctrl :=
    match vs with
    | [] => ret CNormal
    | v :: r => c <- body v ;;
                match c with
                | CBreak => ret CNormal
                | CReturn x => ret (CReturn x)
                | _ => for_loop body r
                end
    end.
End WithEval.

Definition aug_list_inplace (o : binop) (a b : value) : option (M value) :=
  match o, a with
  | BAdd, VList l => Some (ys <- iter_elems b ;; xs <- get_list l ;; set_list l (xs ++ ys) ;;; ret a)
  | _, _ => None
  end.

Fixpoint eval (n : nat) (en : env) (e : expr) {struct n} : M value :=
  match n with
  | O => fun _ => OutOfFuel
  | S n =>
    match e with
    | ENone => ret VNone | EBool b => ret (VBool b) | EInt z => ret (VInt z) | EStr x => ret (VStr x)
    | EVar x =>
        match lookup x en with
        | Some a => get_cell a
        | None => if existsb (String.eqb x) builtin_names then ret (VBuiltin x) else fail Unbound
        end
    | ETuple es => vs <- mapM (eval n en) es ;; ret (VTuple vs)
    | EList es => vs <- mapM (eval n en) es ;; alloc_list vs
    | EDict kvs =>
        ps <- mapM (fun kv => k <- eval n en (fst kv) ;; v <- eval n en (snd kv) ;; check_hashable k ;;; ret (k, v)) kvs ;;
        s <- get_state ;; alloc_dict (dict_update s [] ps)
    | EUn o a => v <- eval n en a ;; unop_eval o v
    | EBin o a b => x <- eval n en a ;; y <- eval n en b ;; binop_eval o x y
    | EAnd a b => x <- eval n en a ;; s <- get_state ;; if truth s x then eval n en b else ret x
    | EOr a b => x <- eval n en a ;; s <- get_state ;; if truth s x then ret x else eval n en b
    | EIf c t f => x <- eval n en c ;; s <- get_state ;; if truth s x then eval n en t else eval n en f
    | EIndex a i => x <- eval n en a ;; y <- eval n en i ;; index_eval x y
    | ESlice a lo hi st =>
        x <- eval n en a ;;
        let opt (o : option expr) : M (option value) :=
          match o with None => ret None | Some e => v <- eval n en e ;; ret (Some v) end in
        l <- opt lo ;; h <- opt hi ;; t <- opt st ;; slice_eval x l h t
    | ECall f args kwargs star dstar =>
        fv <- eval n en f ;;
        pos <- mapM (eval n en) args ;;
        named <- mapM (fun kv => v <- eval n en (snd kv) ;; ret (fst kv, v)) kwargs ;;
        extra <- match star with None => ret [] | Some e => v <- eval n en e ;; iter_elems v end ;;
        dextra <- match dstar with
                  | None => ret []
                  | Some e => v <- eval n en e ;;
                              match v with
                              | VDict d => kvs <- get_dict d ;;
                                           mapM (fun kv => match fst kv with VStr k => ret (k, snd kv) | _ => fail TypeErr end) kvs
                              | _ => fail TypeErr end
                  end ;;
        call n fv (pos ++ extra) (named ++ dextra)
    | EMeth r m args kwargs =>
        rv <- eval n en r ;; vs <- mapM (eval n en) args ;;
        named <- mapM (fun kv => v <- eval n en (snd kv) ;; ret (fst kv, v)) kwargs ;;
        call_method_kw rv m vs named
    | ELambda ps body =>
        dflts <- mapM (fun p => match p with
                                | PNormal x (Some d) => v <- eval n en d ;; ret [(x, v)]
                                | _ => ret [] end) ps ;;
        alloc_clo {| c_name := "lambda"; c_params := ps; c_defaults := concat dflts; c_body := BExpr body; c_env := en |}
    | EListComp body cls =>
        match cls with
        | CFor t0 e0 :: _ =>
            it <- eval n en e0 ;; vs <- iter_elems it ;;
            new <- alloc_cells (dedup (clause_names cls)) ;;
            acc <- alloc_list [] ;;
            let en' := new ++ en in
            with_lock it
              (comp_clauses (eval n) en' cls (Some vs)
                 (v <- eval n en' body ;;
                  match acc with VList a => xs <- get_list a ;; set_list a (xs ++ [v]) | _ => ret tt end)) ;;;
            ret acc
        | _ => fail Unsupported
        end
    | EDictComp kx vx cls =>
        match cls with
        | CFor t0 e0 :: _ =>
            it <- eval n en e0 ;; vs <- iter_elems it ;;
            new <- alloc_cells (dedup (clause_names cls)) ;;
            acc <- alloc_dict [] ;;
            let en' := new ++ en in
            with_lock it
              (comp_clauses (eval n) en' cls (Some vs)
                 (k <- eval n en' kx ;; v <- eval n en' vx ;; check_hashable k ;;;
                  match acc with
                  | VDict a => d <- get_dict a ;; s <- get_state ;; set_dict a (dict_set s d k v)
                  | _ => ret tt end)) ;;;
            ret acc
        | _ => fail Unsupported
        end
    end
  end

with call (n : nat) (f : value) (pos : list value) (named : list (string * value)) {struct n} : M value :=
  match n with
  | O => fun _ => OutOfFuel
  | S n =>
    match f with
    | VBuiltin b =>
        if String.eqb b "sorted" && match named with [] => false | _ => true end then
          (* sorted(iterable, key=f, reverse=b): the key function is called once per element, in order *)
          if forallb (fun kv => String.eqb (fst kv) "key" || String.eqb (fst kv) "reverse") named then
            match pos with
            | [v] =>
                xs <- iter_elems v ;;
                ks <- match assoc_str "key" named with
                      | Some VNone | None => ret xs
                      | Some kf => mapM (fun x => call n kf [x] []) xs
                      end ;;
                st <- get_state ;;
                let reverse := match assoc_str "reverse" named with Some r => truth st r | None => false end in
                match sort_pairs_dir st reverse (combine ks xs) with
                | Some r => alloc_list (map snd r)
                | None => fail TypeErr
                end
            | _ => fail Arity
            end
          else fail Arity
        else call_builtin b pos named
    | VClo c =>
        cl <- get_clo c ;;
        match bind_params (c_params cl) (c_defaults cl) pos named false with
        | None => fail Arity
        | Some (binds, rest_pos, rest_named) =>
            match rest_pos, has_kwargs (c_params cl), rest_named with
            | _ :: _, _, _ => fail Arity
            | [], None, _ :: _ => fail Arity
            | [], kw, _ =>
                kwb <- match kw with
                       | Some x => d <- alloc_dict (map (fun kv => (VStr (fst kv), snd kv)) rest_named) ;; ret [(x, d)]
                       | None => ret [] end ;;
                let locals := match c_body cl with BStmts ss => body_names ss | BExpr _ => [] end in
                new <- alloc_cells (dedup (map param_name (c_params cl) ++ locals)) ;;
                let en' := new ++ c_env cl in
                mapM (fun b => match lookup (fst b) new with Some a => set_cell a (snd b) | None => ret tt end) (binds ++ kwb) ;;;
                match c_body cl with
                | BExpr e => eval n en' e
                | BStmts ss =>
                    c <- run_block (exec n en') ss ;;
                    match c with CReturn v => ret v | _ => ret VNone end
                end
            end
        end
    | _ => fail TypeErr
    end
  end

with exec (n : nat) (en : env) (st : stmt) {struct n} : M ctrl :=
  match n with
  | O => fun _ => OutOfFuel
  | S n =>
    at_line (stmt_line st)
    match st with
    | SExpr _ e => eval n en e ;;; ret CNormal
    | SAssign _ t e => v <- eval n en e ;; assign (eval n) en t v ;;; ret CNormal
    | SAug _ t o e =>
        match t with
        | TVar x =>
            cur <- eval n en (EVar x) ;; rhs <- eval n en e ;;
            r <- match aug_list_inplace o cur rhs with Some m => m | None => binop_eval o cur rhs end ;;
            assign (eval n) en t r ;;; ret CNormal
        | TIndex a i =>
            av <- eval n en a ;; iv <- eval n en i ;; cur <- index_eval av iv ;; rhs <- eval n en e ;;
            r <- match aug_list_inplace o cur rhs with Some m => m | None => binop_eval o cur rhs end ;;
            set_index av iv r ;;; ret CNormal
        | TTuple _ => fail Unsupported
        end
    | SIf _ c th el =>
        v <- eval n en c ;; s <- get_state ;;
        if truth s v then run_block (exec n en) th else run_block (exec n en) el
    | SFor _ t e body =>
        it <- eval n en e ;; vs <- iter_elems it ;;
        with_lock it (for_loop (fun v => assign (eval n) en t v ;;; run_block (exec n en) body) vs)
    | SBreak _ => ret CBreak
    | SContinue _ => ret CContinue
    | SReturn _ None => ret (CReturn VNone)
    | SReturn _ (Some e) => v <- eval n en e ;; ret (CReturn v)
    | SPass _ => ret CNormal
    | SDef _ name ps body =>
        dflts <- mapM (fun p => match p with
                                | PNormal x (Some d) => v <- eval n en d ;; ret [(x, v)]
                                | _ => ret [] end) ps ;;
        f <- alloc_clo {| c_name := name; c_params := ps; c_defaults := concat dflts; c_body := BStmts body; c_env := en |} ;;
        assign (eval n) en (TVar name) f ;;; ret CNormal
    end
  end.

(* ---- whole programs ------------------------------------------------------------------------------ *)
Inductive outcome :=
| Done                                   (* ran to completion *)
| Failed (e : err) (ln : option Z)       (* failure kind and the line of the innermost statement *)
| NoFuel.

Definition run_program (fuel : nat) (prog : list stmt) : list obs * outcome :=
  match (globals <- alloc_cells (dedup (body_names prog)) ;; run_block (exec fuel globals) prog) empty_state with
  | Ok _ s => (rev (out s), Done)
  | Fail e l s => (rev (out s), Failed e l)
  | OutOfFuel => ([], NoFuel)
  end.
