(* Slicing: the executable model of starlark/src/values/index.rs (Core/Slice.v: convert_index,
   convert_slice_indices, apply_slice) equals the declarative slice (slice_spec: walk from the normalised
   start by the step while strictly before the normalised stop), for ALL lists and all (absent, negative,
   huge) start/stop/stride, including stride = 0 (both sides reject).  Also: the normalised indices are
   Python's slice.indices (bounds), the walk only reads in-bounds positions, an explicit description of the
   visited index list, the result-length formula, and convert_index = Python index normalisation. *)
From Coq Require Import ZArith List Lia Bool Arith ZifyBool ZifyNat.
From SV Require Import Core.Slice.
Import ListNotations.
Local Open Scope Z_scope.

(* ------------------------------------------------------------------------------------------------ *)
(* convert_index                                                                                    *)
(* ------------------------------------------------------------------------------------------------ *)

Lemma convert_index_spec : forall x len i,
  convert_index x len = Some i -> 0 <= i < len /\ (i = x \/ i = len + x).
Proof.
  unfold convert_index. intros x len i H.
  destruct (x <? 0) eqn:Ex;
    match type of H with (if ?c then _ else _) = _ => destruct c eqn:Ec end;
    inversion H; subst; lia.
Qed.

(* sharper: which of the two alternatives, and exactly when it fails *)
Lemma convert_index_some : forall x len,
  - len <= x < len -> convert_index x len = Some (if x <? 0 then len + x else x).
Proof.
  unfold convert_index. intros x len H.
  destruct (x <? 0) eqn:Ex;
    match goal with |- (if ?c then _ else _) = _ => destruct c eqn:Ec end; try reflexivity; lia.
Qed.

Lemma convert_index_none : forall x len,
  ~ (- len <= x < len) -> convert_index x len = None.
Proof.
  unfold convert_index. intros x len H.
  destruct (x <? 0) eqn:Ex;
    match goal with |- (if ?c then _ else _) = _ => destruct c eqn:Ec end; try reflexivity; lia.
Qed.

(* Python: seq[x] reads position x mod len when -len <= x < len and raises IndexError otherwise *)
Lemma convert_index_python : forall x len,
  convert_index x len = if (- len <=? x) && (x <? len) then Some (x mod len) else None.
Proof.
  intros x len.
  destruct ((- len <=? x) && (x <? len)) eqn:E.
  - rewrite convert_index_some by lia. f_equal.
    destruct (x <? 0) eqn:Ex.
    + apply Z.mod_unique with (q := -1); lia.
    + symmetry. apply Z.mod_small. lia.
  - apply convert_index_none. lia.
Qed.

(* ------------------------------------------------------------------------------------------------ *)
(* convert_slice_indices: the normalised indices (Python's slice.indices)                           *)
(* ------------------------------------------------------------------------------------------------ *)

Lemma convert_index_aux_bounds : forall len v d mn mx,
  mn <= mx -> mn <= d <= mx -> mn <= convert_index_aux len v d mn mx <= mx.
Proof.
  unfold convert_index_aux. intros len v d mn mx H Hd.
  destruct v as [x|]; [|exact Hd].
  cbv zeta.
  destruct (_ <? mn) eqn:E1; [lia|].
  destruct (mx <? _) eqn:E2; lia.
Qed.

(* the value of a normalised index: default, or x (shifted by len when negative) clamped to [mn, mx] *)
Lemma convert_index_aux_value : forall len v d mn mx, mn <= mx ->
  convert_index_aux len v d mn mx =
  match v with
  | None => d
  | Some x => Z.max mn (Z.min mx (if x <? 0 then len + x else x))
  end.
Proof.
  unfold convert_index_aux. intros len v d mn mx H.
  destruct v as [x|]; [|reflexivity]. cbv zeta.
  destruct (_ <? mn) eqn:E1; [lia|].
  destruct (mx <? _) eqn:E2; lia.
Qed.

Definition stride_of (stride : option Z) : Z := match stride with None => 1 | Some s => s end.
Definition clamp_of (s : Z) : Z := if s <? 0 then -1 else 0.

Lemma convert_slice_indices_zero : forall len start stop stride,
  convert_slice_indices len start stop stride = None <-> stride_of stride = 0.
Proof.
  unfold convert_slice_indices, stride_of. intros.
  destruct (_ =? 0) eqn:E; split; intro H; try discriminate; try lia; reflexivity.
Qed.

Lemma convert_slice_indices_bounds : forall len start stop stride a b s,
  0 <= len ->
  convert_slice_indices len start stop stride = Some (a, b, s) ->
  s = stride_of stride /\ s <> 0 /\
  clamp_of s <= a <= len + clamp_of s /\ clamp_of s <= b <= len + clamp_of s.
Proof.
  unfold convert_slice_indices, stride_of, clamp_of. intros len start stop stride a b s Hlen H.
  set (st := match stride with Some s0 => s0 | None => 1 end) in *.
  destruct (st =? 0) eqn:E0; [discriminate|].
  inversion H; subst s. clear H.
  split; [reflexivity|]. split; [lia|].
  destruct (st <? 0) eqn:Es; split; apply convert_index_aux_bounds; lia.
Qed.

(* ------------------------------------------------------------------------------------------------ *)
(* list facts                                                                                       *)
(* ------------------------------------------------------------------------------------------------ *)
Section Lists.
Context {A : Type}.
Implicit Types xs ys : list A.

Lemma skipn_skipn : forall m a xs, skipn m (skipn a xs) = skipn (a + m) xs.
Proof.
  intros m a. induction a as [|a IH]; intros xs; [reflexivity|].
  destruct xs as [|x t]; [now rewrite !skipn_nil|]. cbn [skipn Nat.add]. apply IH.
Qed.

Lemma nth_error_skipn : forall a n xs, nth_error (skipn a xs) n = nth_error xs (a + n).
Proof.
  induction a as [|a IH]; intros n xs; [reflexivity|].
  destruct xs as [|x t]; [now destruct n|]. cbn [skipn Nat.add nth_error]. apply IH.
Qed.

Lemma skipn_nth_cons : forall a xs x, nth_error xs a = Some x -> skipn a xs = x :: skipn (S a) xs.
Proof.
  induction a as [|a IH]; intros [|y t] x H; cbn in H; try discriminate.
  - now inversion H.
  - cbn [skipn]. now apply IH.
Qed.

Lemma firstn_S_snoc : forall n xs x, nth_error xs n = Some x -> firstn (S n) xs = firstn n xs ++ [x].
Proof.
  induction n as [|n IH]; intros [|y t] x H; cbn in H; try discriminate.
  - now inversion H.
  - rewrite firstn_cons. rewrite (IH t x H). reflexivity.
Qed.

(* every_nth_from *)
Lemma enf_shift : forall k, (0 < k)%nat -> forall ys j,
  every_nth_from k (j + k) ys = every_nth_from k j ys.
Proof.
  intros k Hk. induction ys as [|y t IH]; intros j; [reflexivity|].
  cbn [every_nth_from].
  replace (S (j + k))%nat with (S j + k)%nat by lia. rewrite IH.
  replace ((j + k) mod k)%nat with (j mod k)%nat; [reflexivity|].
  replace (j + k)%nat with (j + 1 * k)%nat by lia. rewrite Nat.mod_add by lia. reflexivity.
Qed.

Lemma enf_skip : forall k ys j, (0 < j <= k)%nat ->
  every_nth_from k j ys = every_nth_from k 0 (skipn (k - j) ys).
Proof.
  intros k. induction ys as [|y t IH]; intros j Hj.
  - now rewrite skipn_nil.
  - destruct (Nat.eq_dec j k) as [->|Hne].
    + rewrite Nat.sub_diag. cbn [skipn]. assert (Hk : (0 < k)%nat) by lia. exact (enf_shift k Hk (y :: t) 0%nat).
    + cbn [every_nth_from]. rewrite Nat.mod_small by lia.
      destruct (Nat.eqb_spec j 0); [lia|]. cbn [app].
      rewrite IH by lia.
      replace (k - j)%nat with (S (k - S j)) by lia. reflexivity.
Qed.

Lemma enf_unfold : forall k (y : A) (t : list A), (0 < k)%nat ->
  every_nth_from k 0 (y :: t) = y :: every_nth_from k 0 (skipn (k - 1) t).
Proof.
  intros k y t Hk. cbn [every_nth_from]. rewrite Nat.mod_0_l by lia. cbn [Nat.eqb app].
  f_equal. apply enf_skip. lia.
Qed.

Lemma enf_one : forall ys j, every_nth_from 1 j ys = ys.
Proof.
  induction ys as [|y t IH]; intros j; [reflexivity|].
  cbn [every_nth_from]. rewrite Nat.mod_1_r. cbn [Nat.eqb app]. now rewrite IH.
Qed.

(* sub_range *)
Lemma sub_range_empty : forall xs a b, b <= a -> sub_range xs a b = [].
Proof. intros. unfold sub_range. replace (Z.to_nat (b - a)) with 0%nat by lia. reflexivity. Qed.

Lemma sub_range_length : forall xs a b, 0 <= a -> b <= Z.of_nat (length xs) ->
  length (sub_range xs a b) = Z.to_nat (b - a).
Proof. intros. unfold sub_range. rewrite firstn_length, skipn_length. lia. Qed.

Lemma sub_range_cons : forall xs a b x, 0 <= a < b -> nth_error xs (Z.to_nat a) = Some x ->
  sub_range xs a b = x :: sub_range xs (a + 1) b.
Proof.
  intros xs a b x H Hx. unfold sub_range.
  rewrite (skipn_nth_cons _ _ _ Hx).
  replace (Z.to_nat (b - a)) with (S (Z.to_nat (b - (a + 1)))) by lia.
  rewrite firstn_cons. replace (Z.to_nat (a + 1)) with (S (Z.to_nat a)) by lia. reflexivity.
Qed.

Lemma sub_range_snoc : forall xs a b x, 0 <= a <= b -> nth_error xs (Z.to_nat b) = Some x ->
  sub_range xs a (b + 1) = sub_range xs a b ++ [x].
Proof.
  intros xs a b x H Hx. unfold sub_range.
  replace (Z.to_nat (b + 1 - a)) with (S (Z.to_nat (b - a))) by lia.
  apply firstn_S_snoc. rewrite nth_error_skipn.
  replace (Z.to_nat a + Z.to_nat (b - a))%nat with (Z.to_nat b) by lia. exact Hx.
Qed.

Lemma sub_range_skipn : forall xs a b m, 0 <= a -> 0 <= m ->
  skipn (Z.to_nat m) (sub_range xs a b) = sub_range xs (a + m) b.
Proof.
  intros xs a b m Ha Hm. unfold sub_range.
  rewrite skipn_firstn_comm, skipn_skipn. f_equal; [lia|]. f_equal. lia.
Qed.

Lemma sub_range_firstn : forall xs a b p, 0 <= p ->
  firstn (Z.to_nat p) (sub_range xs a b) = sub_range xs a (Z.min b (a + p)).
Proof.
  intros xs a b p Hp. unfold sub_range. rewrite firstn_firstn. f_equal. lia.
Qed.

End Lists.

(* ------------------------------------------------------------------------------------------------ *)
(* the walk agrees with sub-range / reverse / keep-every-k-th                                       *)
(* ------------------------------------------------------------------------------------------------ *)
Section Walk.
Context {A : Type}.
Variable xs : list A.
Let L := Z.of_nat (length xs).

Lemma nth_error_in : forall i, 0 <= i < L -> exists x, nth_error xs (Z.to_nat i) = Some x.
Proof.
  intros i H. destruct (nth_error xs (Z.to_nat i)) eqn:E; [eauto|].
  apply nth_error_None in E. subst L. lia.
Qed.

Lemma walk_pos : forall k stop, 0 < k -> stop <= L ->
  forall fuel i, 0 <= i -> stop - i <= Z.of_nat fuel ->
  walk fuel xs i stop k = every_nth_from (Z.to_nat k) 0 (sub_range xs i stop).
Proof.
  intros k stop Hk Hstop. induction fuel as [|f IH]; intros i Hi Hf.
  - rewrite sub_range_empty by lia. reflexivity.
  - cbn [walk]. replace (0 <? k) with true by lia.
    destruct (i <? stop) eqn:E.
    + destruct (nth_error_in i ltac:(lia)) as [x Hx]. rewrite Hx.
      rewrite (sub_range_cons xs i stop x ltac:(lia) Hx).
      rewrite enf_unfold by lia. cbn [app]. f_equal.
      replace (Z.to_nat k - 1)%nat with (Z.to_nat (k - 1)) by lia.
      rewrite sub_range_skipn by lia.
      replace (i + 1 + (k - 1)) with (i + k) by lia.
      apply IH; lia.
    + rewrite sub_range_empty by lia. reflexivity.
Qed.

Lemma walk_neg : forall s stop, s < 0 -> -1 <= stop ->
  forall fuel i, i < L -> i - stop <= Z.of_nat fuel ->
  walk fuel xs i stop s = every_nth_from (Z.to_nat (- s)) 0 (rev (sub_range xs (stop + 1) (i + 1))).
Proof.
  intros s stop Hs Hstop. induction fuel as [|f IH]; intros i Hi Hf.
  - rewrite sub_range_empty by lia. reflexivity.
  - cbn [walk]. replace (0 <? s) with false by lia.
    destruct (stop <? i) eqn:E.
    + destruct (nth_error_in i ltac:(lia)) as [x Hx]. rewrite Hx.
      rewrite (sub_range_snoc xs (stop + 1) i x ltac:(lia) Hx).
      rewrite rev_app_distr. cbn [rev app].
      rewrite enf_unfold by lia. f_equal.
      rewrite skipn_rev. rewrite sub_range_length by (subst L; lia).
      replace (Z.to_nat (i - (stop + 1)) - (Z.to_nat (- s) - 1))%nat
        with (Z.to_nat (Z.max 0 (i - (stop + 1) - (- s - 1)))) by lia.
      rewrite sub_range_firstn by lia.
      rewrite IH by lia.
      destruct (Z.le_gt_cases (i + s + 1) (stop + 1)).
      * rewrite (sub_range_empty xs (stop + 1) (i + s + 1)) by lia.
        rewrite sub_range_empty by lia. reflexivity.
      * do 3 f_equal. lia.
    + rewrite sub_range_empty by lia. reflexivity.
Qed.

End Walk.

(* ------------------------------------------------------------------------------------------------ *)
(* main theorem                                                                                     *)
(* ------------------------------------------------------------------------------------------------ *)

Theorem apply_slice_eq_spec : forall (A : Type) (xs : list A) start stop stride,
  apply_slice xs start stop stride = slice_spec xs start stop stride.
Proof.
  intros A xs start stop stride. unfold apply_slice, slice_spec.
  destruct (convert_slice_indices (Z.of_nat (length xs)) start stop stride) as [[[a b] s]|] eqn:E;
    [|reflexivity].
  apply convert_slice_indices_bounds in E; [|lia].
  destruct E as (_ & Hs0 & Ha & Hb). unfold clamp_of in *.
  f_equal.
  destruct (s <? 0) eqn:Eneg.
  - (* negative stride *)
    replace (s =? 1) with false by lia.
    rewrite (walk_neg xs s b ltac:(lia) ltac:(lia) (S (length xs)) a ltac:(lia) ltac:(lia)).
    destruct (a + 1 <=? b + 1) eqn:Ele.
    + rewrite sub_range_empty by lia. reflexivity.
    + destruct (s =? -1) eqn:E1.
      * replace (Z.to_nat (- s)) with 1%nat by lia. now rewrite enf_one.
      * replace (Z.abs s) with (- s) by lia. reflexivity.
  - (* positive stride *)
    rewrite (walk_pos xs s b ltac:(lia) ltac:(lia) (S (length xs)) a ltac:(lia) ltac:(lia)).
    destruct (s =? 1) eqn:E1.
    + replace (Z.to_nat s) with 1%nat by lia. rewrite enf_one.
      destruct (b <=? a) eqn:Ele; [|reflexivity]. now rewrite sub_range_empty by lia.
    + destruct (b <=? a) eqn:Ele.
      * rewrite sub_range_empty by lia. reflexivity.
      * replace (s =? -1) with false by lia. replace (Z.abs s) with s by lia. reflexivity.
Qed.

(* ------------------------------------------------------------------------------------------------ *)
(* the visited positions: explicit, in bounds, and how many                                         *)
(* ------------------------------------------------------------------------------------------------ *)

(* the positions the walk visits *)
Fixpoint walk_idx (fuel : nat) (i stop step : Z) : list Z :=
  match fuel with
  | O => []
  | S f => if (if 0 <? step then i <? stop else stop <? i)
           then i :: walk_idx f (i + step) stop step
           else []
  end.

Lemma walk_as_idx : forall (A : Type) (xs : list A) fuel i stop step,
  walk fuel xs i stop step =
  flat_map (fun j => match nth_error xs (Z.to_nat j) with Some x => [x] | None => [] end)
           (walk_idx fuel i stop step).
Proof.
  intros A xs. induction fuel as [|f IH]; intros i stop step; [reflexivity|].
  cbn [walk walk_idx].
  destruct (if 0 <? step then i <? stop else stop <? i); [|reflexivity].
  cbn [flat_map]. now rewrite IH.
Qed.

(* Python's len(range(start, stop, step)) *)
Definition slice_len (i stop step : Z) : Z :=
  if 0 <? step then (if i <? stop then (stop - i - 1) / step + 1 else 0)
  else (if stop <? i then (i - stop - 1) / (- step) + 1 else 0).

Lemma slice_len_nonneg : forall i stop step, step <> 0 -> 0 <= slice_len i stop step.
Proof.
  intros i stop step H. unfold slice_len.
  destruct (0 <? step) eqn:E.
  - destruct (i <? stop) eqn:E2; [|lia].
    assert (0 <= (stop - i - 1) / step) by (apply Z.div_pos; lia). lia.
  - destruct (stop <? i) eqn:E2; [|lia].
    assert (0 <= (i - stop - 1) / (- step)) by (apply Z.div_pos; lia). lia.
Qed.

Lemma slice_len_step_pos : forall i stop step, 0 < step -> i < stop ->
  slice_len i stop step = 1 + slice_len (i + step) stop step.
Proof.
  intros i stop step Hs Hi. unfold slice_len.
  replace (0 <? step) with true by lia. replace (i <? stop) with true by lia.
  destruct (i + step <? stop) eqn:E.
  - replace (stop - i - 1) with ((stop - (i + step) - 1) + 1 * step) by lia.
    rewrite Z.div_add by lia. lia.
  - rewrite Z.div_small by lia. lia.
Qed.

Lemma slice_len_step_neg : forall i stop step, step < 0 -> stop < i ->
  slice_len i stop step = 1 + slice_len (i + step) stop step.
Proof.
  intros i stop step Hs Hi. unfold slice_len.
  replace (0 <? step) with false by lia. replace (stop <? i) with true by lia.
  destruct (stop <? i + step) eqn:E.
  - replace (i - stop - 1) with ((i + step - stop - 1) + 1 * (- step)) by lia.
    rewrite Z.div_add by lia. lia.
  - rewrite Z.div_small by lia. lia.
Qed.

(* with enough fuel the visited positions are exactly i, i+step, ..., i+(n-1)*step, n = slice_len *)
Lemma walk_idx_explicit : forall step stop, step <> 0 ->
  forall fuel i, slice_len i stop step <= Z.of_nat fuel ->
  walk_idx fuel i stop step =
  map (fun m => i + Z.of_nat m * step) (seq 0 (Z.to_nat (slice_len i stop step))).
Proof.
  intros step stop Hs. induction fuel as [|f IH]; intros i Hf.
  - pose proof (slice_len_nonneg i stop step Hs).
    replace (Z.to_nat (slice_len i stop step)) with 0%nat by lia. reflexivity.
  - cbn [walk_idx].
    destruct (if 0 <? step then i <? stop else stop <? i) eqn:Ec.
    + assert (Hl : slice_len i stop step = 1 + slice_len (i + step) stop step).
      { destruct (0 <? step) eqn:E; [apply slice_len_step_pos | apply slice_len_step_neg]; lia. }
      pose proof (slice_len_nonneg (i + step) stop step Hs).
      rewrite Hl. replace (Z.to_nat (1 + slice_len (i + step) stop step))
        with (S (Z.to_nat (slice_len (i + step) stop step))) by lia.
      cbn [seq map]. f_equal; [lia|].
      rewrite IH by lia. rewrite <- seq_shift, map_map.
      apply map_ext. intros m. lia.
    + assert (Hl : slice_len i stop step = 0).
      { unfold slice_len. destruct (0 <? step); now rewrite Ec. }
      rewrite Hl. reflexivity.
Qed.

(* fuel S len is enough for normalised indices *)
Lemma slice_len_le_len : forall len a b s, 0 <= len -> s <> 0 ->
  clamp_of s <= a <= len + clamp_of s -> clamp_of s <= b <= len + clamp_of s ->
  slice_len a b s <= len.
Proof.
  intros len a b s Hlen Hs Ha Hb. unfold slice_len, clamp_of in *.
  destruct (s <? 0) eqn:Eneg.
  - replace (0 <? s) with false by lia.
    destruct (b <? a) eqn:E; [|lia].
    assert ((a - b - 1) / (- s) <= (a - b - 1)).
    { apply Z.div_le_upper_bound; [lia|]. nia. }
    lia.
  - replace (0 <? s) with true by lia.
    destruct (a <? b) eqn:E; [|lia].
    assert ((b - a - 1) / s <= (b - a - 1)).
    { apply Z.div_le_upper_bound; [lia|]. nia. }
    lia.
Qed.

(* every visited position is a valid position of the list *)
Lemma walk_idx_in_bounds : forall len a b s fuel, 0 <= len -> s <> 0 ->
  clamp_of s <= a <= len + clamp_of s -> clamp_of s <= b <= len + clamp_of s ->
  Forall (fun j => 0 <= j < len) (walk_idx fuel a b s).
Proof.
  intros len a b s fuel Hlen Hs Ha Hb. revert a Ha.
  unfold clamp_of in *.
  induction fuel as [|f IH]; intros a Ha; [constructor|].
  cbn [walk_idx].
  destruct (s <? 0) eqn:Eneg.
  - replace (0 <? s) with false by lia.
    destruct (b <? a) eqn:E; [|constructor].
    constructor; [lia|].
    destruct f as [|f']; [constructor|].
    (* the next position may fall below the clamp; then the walk stops *)
    destruct (b <? a + s) eqn:E2.
    + apply IH. lia.
    + cbn [walk_idx]. replace (0 <? s) with false by lia. rewrite E2. constructor.
  - replace (0 <? s) with true by lia.
    destruct (a <? b) eqn:E; [|constructor].
    constructor; [lia|].
    destruct f as [|f']; [constructor|].
    destruct (a + s <? b) eqn:E2.
    + apply IH. lia.
    + cbn [walk_idx]. replace (0 <? s) with true by lia. rewrite E2. constructor.
Qed.

Lemma flat_map_nth_in_bounds : forall (A : Type) (xs : list A) (d : A) (js : list Z),
  Forall (fun j => 0 <= j < Z.of_nat (length xs)) js ->
  flat_map (fun j => match nth_error xs (Z.to_nat j) with Some x => [x] | None => [] end) js =
  map (fun j => nth (Z.to_nat j) xs d) js.
Proof.
  intros A xs d js H. induction H as [|j js Hj _ IH]; [reflexivity|].
  cbn [flat_map map]. rewrite IH.
  rewrite (nth_error_nth' xs d) by lia. reflexivity.
Qed.

(* The declarative slice, fully explicit: with (a, b, s) the normalised indices and n = slice_len a b s,
   the result is [xs[a]; xs[a+s]; ...; xs[a+(n-1)s]], every read position is inside the list, and
   n <= len xs. *)
Theorem slice_spec_explicit : forall (A : Type) (d : A) (xs : list A) start stop stride a b s,
  convert_slice_indices (Z.of_nat (length xs)) start stop stride = Some (a, b, s) ->
  let n := slice_len a b s in
  slice_spec xs start stop stride =
    Some (map (fun m => nth (Z.to_nat (a + Z.of_nat m * s)) xs d) (seq 0 (Z.to_nat n))) /\
  0 <= n <= Z.of_nat (length xs) /\
  (forall m, 0 <= m < n -> 0 <= a + m * s < Z.of_nat (length xs)).
Proof.
  intros A d xs start stop stride a b s E n.
  pose proof (convert_slice_indices_bounds _ _ _ _ _ _ _ (Nat2Z.is_nonneg (length xs)) E) as (_ & Hs & Ha & Hb).
  pose proof (slice_len_le_len _ a b s (Nat2Z.is_nonneg (length xs)) Hs Ha Hb) as Hle.
  pose proof (slice_len_nonneg a b s Hs) as Hn0.
  pose proof (walk_idx_in_bounds _ a b s (S (length xs)) (Nat2Z.is_nonneg (length xs)) Hs Ha Hb) as Hin.
  pose proof (walk_idx_explicit s b Hs (S (length xs)) a ltac:(lia)) as Hex.
  split; [|split].
  - unfold slice_spec. rewrite E. f_equal.
    rewrite walk_as_idx. rewrite (flat_map_nth_in_bounds A xs d _ Hin).
    rewrite Hex, map_map. reflexivity.
  - subst n. lia.
  - intros m Hm. rewrite Hex in Hin. rewrite Forall_forall in Hin.
    apply (Hin (a + m * s)). apply in_map_iff. exists (Z.to_nat m). split; [rewrite Z2Nat.id by lia; reflexivity|].
    apply in_seq. subst n. lia.
Qed.

(* in-bounds reads of the walk used by the specification *)
Theorem slice_spec_reads_in_bounds : forall (A : Type) (xs : list A) start stop stride a b s,
  convert_slice_indices (Z.of_nat (length xs)) start stop stride = Some (a, b, s) ->
  Forall (fun j => 0 <= j < Z.of_nat (length xs)) (walk_idx (S (length xs)) a b s).
Proof.
  intros A xs start stop stride a b s E.
  pose proof (convert_slice_indices_bounds _ _ _ _ _ _ _ (Nat2Z.is_nonneg (length xs)) E) as (_ & Hs & Ha & Hb).
  apply walk_idx_in_bounds; auto; lia.
Qed.

(* result length = the length of Python's range over slice.indices(len) *)
Lemma flat_map_nth_length : forall (A : Type) (xs : list A) (js : list Z),
  Forall (fun j => 0 <= j < Z.of_nat (length xs)) js ->
  length (flat_map (fun j => match nth_error xs (Z.to_nat j) with Some x => [x] | None => [] end) js)
  = length js.
Proof.
  intros A xs js H. induction H as [|j js Hj _ IH]; [reflexivity|].
  cbn [flat_map]. rewrite app_length, IH.
  destruct (nth_error xs (Z.to_nat j)) eqn:En; [reflexivity|].
  apply nth_error_None in En. lia.
Qed.

Theorem slice_length : forall (A : Type) (xs r : list A) start stop stride a b s,
  convert_slice_indices (Z.of_nat (length xs)) start stop stride = Some (a, b, s) ->
  apply_slice xs start stop stride = Some r ->
  Z.of_nat (length r) = slice_len a b s.
Proof.
  intros A xs r start stop stride a b s E H.
  rewrite apply_slice_eq_spec in H. unfold slice_spec in H. rewrite E in H.
  assert (Hr : r = walk (S (length xs)) xs a b s) by congruence. clear H. subst r.
  pose proof (convert_slice_indices_bounds _ _ _ _ _ _ _ (Nat2Z.is_nonneg (length xs)) E) as (_ & Hs & Ha & Hb).
  pose proof (slice_len_le_len _ a b s (Nat2Z.is_nonneg (length xs)) Hs Ha Hb) as Hle.
  pose proof (slice_len_nonneg a b s Hs) as Hn0.
  pose proof (walk_idx_in_bounds _ a b s (S (length xs)) (Nat2Z.is_nonneg (length xs)) Hs Ha Hb) as Hin.
  rewrite walk_as_idx, (flat_map_nth_length A xs _ Hin).
  rewrite (walk_idx_explicit s b Hs (S (length xs)) a ltac:(lia)).
  rewrite map_length, seq_length. lia.
Qed.

(* the stride-zero case: both reject *)
Theorem apply_slice_zero_stride : forall (A : Type) (xs : list A) start stop,
  apply_slice xs start stop (Some 0) = None /\ slice_spec xs start stop (Some 0) = None.
Proof. intros. split; reflexivity. Qed.

Theorem apply_slice_defined : forall (A : Type) (xs : list A) start stop stride,
  stride_of stride <> 0 -> exists r, apply_slice xs start stop stride = Some r.
Proof.
  intros A xs start stop stride H. rewrite apply_slice_eq_spec. unfold slice_spec.
  destruct (convert_slice_indices _ start stop stride) as [[[a b] s]|] eqn:E; [eauto|].
  apply convert_slice_indices_zero in E. contradiction.
Qed.

(* ------------------------------------------------------------------------------------------------ *)
(* examples (tests, evaluated by the kernel)                                                        *)
(* ------------------------------------------------------------------------------------------------ *)
Definition l7 : list Z := [0; 1; 2; 3; 4; 5; 6].

Example ex_rev_absent : apply_slice l7 None None (Some (-2)) = Some [6; 4; 2; 0].
Proof. vm_compute. reflexivity. Qed.
Example ex_rev_absent_spec : slice_spec l7 None None (Some (-2)) = Some [6; 4; 2; 0].
Proof. vm_compute. reflexivity. Qed.
Example ex_huge_bounds : apply_slice l7 (Some (-(2 ^ 70))) (Some (2 ^ 70)) (Some 3) = Some [0; 3; 6].
Proof. vm_compute. reflexivity. Qed.
Example ex_huge_bounds_neg : apply_slice l7 (Some (2 ^ 70)) (Some (-(2 ^ 70))) (Some (-3)) = Some [6; 3; 0].
Proof. vm_compute. reflexivity. Qed.
Example ex_big_stride : apply_slice l7 (Some 2) None (Some 100) = Some [2].
Proof. vm_compute. reflexivity. Qed.
(* note: the model computes Z.to_nat |stride| in unary, so do not evaluate it on strides like -2^31 *)
Example ex_big_neg_stride : apply_slice l7 None None (Some (-1000)) = Some [6].
Proof. vm_compute. reflexivity. Qed.
(* the i32::MIN stride regression test of index.rs, through the theorem (the specification side is cheap) *)
Example ex_i32_min_stride : apply_slice l7 None None (Some (-2147483648)) = Some [6].
Proof. rewrite apply_slice_eq_spec. vm_compute. reflexivity. Qed.
Example ex_neg_mixed : apply_slice l7 (Some (-2)) (Some 1) (Some (-2)) = Some [5; 3].
Proof. vm_compute. reflexivity. Qed.
Example ex_empty_wrong_dir : apply_slice l7 (Some 1) (Some 5) (Some (-1)) = Some [].
Proof. vm_compute. reflexivity. Qed.
Example ex_zero : apply_slice l7 None None (Some 0) = None.
Proof. vm_compute. reflexivity. Qed.
Example ex_idx : walk_idx 8 6 (-1) (-2) = [6; 4; 2; 0] /\ slice_len 6 (-1) (-2) = 4.
Proof. vm_compute. split; reflexivity. Qed.
Example ex_convert_index : convert_index (-1) 7 = Some 6 /\ convert_index 7 7 = None /\ convert_index (-8) 7 = None.
Proof. vm_compute. repeat split; reflexivity. Qed.
