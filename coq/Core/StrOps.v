(* MiniStar stage 2: the pure string operations of the Python-shared core (executable; proofs are in
   Core/StrProofs.v).  Strings are Coq `string`s, i.e. byte sequences; on ASCII text (the only text the modelled
   programs contain) bytes = ccode points, so indices, `len`, case mapping and character classes coincide with
   starlark-rust's (which works on ccode points) and with Python's.
   Anchors: starlark/src/values/types/string/{methods,interpolation,dot_format,repr}.rs,
            starlark_syntax/src/{fast_string,dot_format_parser}.rs, starlark/src/stdlib/funcs/other.rs (ord, chr, repr, str). *)
From Coq Require Import ZArith String List Bool Ascii.
From SV Require Import Core.Syntax Core.Values Int.Str.
Import ListNotations.
Open Scope string_scope.
Open Scope list_scope.
Open Scope Z_scope.
Local Infix "+++" := String.append (right associativity, at level 60).

(* ---- basic string functions --------------------------------------------------------------------------------- *)
Fixpoint str_repeat (n : nat) (x : string) : string :=
  match n with O => "" | S n => String.append x (str_repeat n x) end.

Fixpoint is_prefix (p x : string) : bool :=
  match p, x with
  | EmptyString, _ => true
  | String a p', String b x' => Ascii.eqb a b && is_prefix p' x'
  | _, EmptyString => false
  end.
Fixpoint is_substring (p x : string) : bool :=
  is_prefix p x || match x with EmptyString => false | String _ x' => is_substring p x' end.

Fixpoint sdrop (n : nat) (x : string) : string :=
  match n, x with
  | O, _ => x
  | S n, String _ r => sdrop n r
  | S _, EmptyString => EmptyString
  end.
Fixpoint stake (n : nat) (x : string) : string :=
  match n, x with
  | O, _ => EmptyString
  | S n, String c r => String c (stake n r)
  | S _, EmptyString => EmptyString
  end.
Fixpoint srev_app (x acc : string) : string :=
  match x with EmptyString => acc | String c r => srev_app r (String c acc) end.
Definition srev (x : string) : string := srev_app x EmptyString.
Definition is_suffix (p x : string) : bool := is_prefix (srev p) (srev x).

Fixpoint smap (f : ascii -> ascii) (x : string) : string :=
  match x with EmptyString => EmptyString | String c r => String (f c) (smap f r) end.
Fixpoint sall (f : ascii -> bool) (x : string) : bool :=
  match x with EmptyString => true | String c r => f c && sall f r end.
Fixpoint sexists (f : ascii -> bool) (x : string) : bool :=
  match x with EmptyString => false | String c r => f c || sexists f r end.
Definition smem (c : ascii) (x : string) : bool := sexists (Ascii.eqb c) x.

(* sep.join(parts) *)
Fixpoint str_join (sep : string) (parts : list string) : string :=
  match parts with
  | [] => ""
  | [a] => a
  | a :: rest => a +++ sep +++ str_join sep rest
  end.

(* ---- character classes (ASCII; char::is_* of Rust restricted to U+0000..U+007F) ---------------------------------- *)
Definition ccode (c : ascii) : N := N_of_ascii c.
Definition c_lower (c : ascii) : bool := N.leb 97%N (ccode c) && N.leb (ccode c) 122%N.
Definition c_upper (c : ascii) : bool := N.leb 65%N (ccode c) && N.leb (ccode c) 90%N.
Definition c_alpha (c : ascii) : bool := c_lower c || c_upper c.
Definition c_digit (c : ascii) : bool := N.leb 48%N (ccode c) && N.leb (ccode c) 57%N.
Definition c_alnum (c : ascii) : bool := c_alpha c || c_digit c.
(* char::is_whitespace: U+0009..U+000D and U+0020 (NOT U+001C..U+001F, which Python counts: DIFFS.md) *)
Definition c_space (c : ascii) : bool := (N.leb 9%N (ccode c) && N.leb (ccode c) 13%N) || N.eqb (ccode c) 32%N.
Definition to_upper (c : ascii) : ascii := if c_lower c then ascii_of_N (ccode c - 32)%N else c.
Definition to_lower (c : ascii) : ascii := if c_upper c then ascii_of_N (ccode c + 32)%N else c.

Definition str_upper := smap to_upper.
Definition str_lower := smap to_lower.
Definition str_capitalize (x : string) : string :=
  match x with EmptyString => EmptyString | String c r => String (to_upper c) (str_lower r) end.
(* fn title: a letter after a non-letter is upper-cased, any other letter lower-cased *)
Fixpoint title_go (x : string) (last_space : bool) : string :=
  match x with
  | EmptyString => EmptyString
  | String c r =>
      if c_alpha c then String (if last_space then to_upper c else to_lower c) (title_go r false)
      else String c (title_go r true)
  end.
Definition str_title (x : string) : string := title_go x true.

Definition snonempty (x : string) : bool := match x with EmptyString => false | _ => true end.
Definition str_isdigit (x : string) := snonempty x && sall c_digit x.
Definition str_isalpha (x : string) := snonempty x && sall c_alpha x.
Definition str_isalnum (x : string) := snonempty x && sall c_alnum x.
Definition str_isspace (x : string) := snonempty x && sall c_space x.
(* at least one cased letter and no letter of the other case *)
Definition str_islower (x : string) := sexists c_lower x && negb (sexists c_upper x).
Definition str_isupper (x : string) := sexists c_upper x && negb (sexists c_lower x).
Fixpoint istitle_go (x : string) (last_space : bool) (seen : bool) : bool :=
  match x with
  | EmptyString => seen
  | String c r =>
      if c_alpha c then
        if (if last_space then c_lower c else c_upper c) then false else istitle_go r false true
      else istitle_go r true seen
  end.
Definition str_istitle (x : string) : bool := istitle_go x true false.

(* ---- strip ---------------------------------------------------------------------------------------------------- *)
Fixpoint lstrip_by (f : ascii -> bool) (x : string) : string :=
  match x with
  | EmptyString => EmptyString
  | String c r => if f c then lstrip_by f r else x
  end.
Fixpoint rstrip_by (f : ascii -> bool) (x : string) : string :=
  match x with
  | EmptyString => EmptyString
  | String c r => match rstrip_by f r with
                  | EmptyString => if f c then EmptyString else String c EmptyString
                  | r' => String c r'
                  end
  end.
Definition strip_by (f : ascii -> bool) (x : string) : string := rstrip_by f (lstrip_by f x).
(* the predicate of `strip(chars)` / `strip()` *)
Definition strip_pred (chars : option string) : ascii -> bool :=
  match chars with None => c_space | Some cs => fun c => smem c cs end.

(* ---- searching -------------------------------------------------------------------------------------------------- *)
(* first position >= i0 (counted from i0) at which p is a prefix *)
Fixpoint find_from (p x : string) (i : nat) : option nat :=
  if is_prefix p x then Some i
  else match x with EmptyString => None | String _ r => find_from p r (S i) end.
(* last such position *)
Fixpoint rfind_from (p x : string) (i : nat) : option nat :=
  match (match x with EmptyString => None | String _ r => rfind_from p r (S i) end) with
  | Some j => Some j
  | None => if is_prefix p x then Some i else None
  end.

(* the window `x[start:end]` of find/index/count/startswith/endswith: convert_str_indices of fast_string.rs,
   as specified (Python's rule): None when start lies beyond the end of the string or the window is empty-negative *)
Definition str_window (x : string) (start stop : option Z) : option (Z * string) :=
  let len := Z.of_nat (String.length x) in
  let lo := match start with None => 0 | Some z => if z <? 0 then Z.max 0 (z + len) else z end in
  let hi := match stop with None => len | Some z => if z <? 0 then Z.max 0 (z + len) else Z.min z len end in
  if (len <? lo) || (hi <? lo) then None
  else Some (lo, stake (Z.to_nat (hi - lo)) (sdrop (Z.to_nat lo) x)).

Definition str_find (x p : string) (start stop : option Z) : option Z :=
  match str_window x start stop with
  | Some (lo, w) => match find_from p w O with Some i => Some (lo + Z.of_nat i) | None => None end
  | None => None
  end.
Definition str_rfind (x p : string) (start stop : option Z) : option Z :=
  match str_window x start stop with
  | Some (lo, w) => match rfind_from p w O with Some i => Some (lo + Z.of_nat i) | None => None end
  | None => None
  end.

(* number of non-overlapping occurrences, scanning from the left; `skip` = characters of the current match still to pass *)
Fixpoint count_go (p x : string) (skip : nat) : nat :=
  match x with
  | EmptyString => O
  | String _ r =>
      match skip with
      | S k => count_go p r k
      | O => if is_prefix p x then S (count_go p r (String.length p - 1)%nat) else count_go p r O
      end
  end.
Definition str_count (x p : string) (start stop : option Z) : Z :=
  match str_window x start stop with
  | Some (_, w) => match p with
                   | EmptyString => Z.of_nat (String.length w) + 1
                   | _ => Z.of_nat (count_go p w O)
                   end
  | None => 0
  end.

(* ---- split ---------------------------------------------------------------------------------------------------- *)
(* split at a non-empty separator, at most k splits; `cur` = the current piece, reversed *)
Fixpoint split_go (sep x : string) (skip k : nat) (cur : string) : list string :=
  match x with
  | EmptyString => [srev cur]
  | String c r =>
      match skip with
      | S s => split_go sep r s k cur
      | O => match k with
             | O => [srev_app cur x]
             | S k' => if is_prefix sep x then srev cur :: split_go sep r (String.length sep - 1)%nat k' EmptyString
                       else split_go sep r O k (String c cur)
             end
      end
  end.
(* maxsplit: None or negative = unlimited (a string of length n has at most n separators) *)
Definition split_limit (x : string) (maxsplit : option Z) : nat :=
  match maxsplit with
  | Some z => if z <? 0 then String.length x else Z.to_nat z
  | None => String.length x
  end.
Definition str_split (sep x : string) (maxsplit : option Z) : list string :=
  split_go sep x O (split_limit x maxsplit) EmptyString.
(* rsplit = split of the reversed string by the reversed separator, pieces reversed, in reverse order *)
Definition str_rsplit (sep x : string) (maxsplit : option Z) : list string :=
  rev (map srev (split_go (srev sep) (srev x) O (split_limit x maxsplit) EmptyString)).

(* split on runs of whitespace (splitn_whitespace): leading/trailing whitespace dropped, at most k splits, the rest
   of the string (trailing whitespace included) forms the last piece *)
Fixpoint split_ws_go (x : string) (k : nat) (cur : string) : list string :=
  match x with
  | EmptyString => match cur with EmptyString => [] | _ => [srev cur] end
  | String c r =>
      match cur with
      | EmptyString =>
          if c_space c then split_ws_go r k cur
          else match k with
               | O => [x]                              (* no split left: the remainder as it is *)
               | S _ => split_ws_go r k (String c EmptyString)
               end
      | _ =>
          if c_space c then srev cur :: split_ws_go r (pred k) EmptyString
          else split_ws_go r k (String c cur)
      end
  end.
Definition str_split_ws (x : string) (maxsplit : option Z) : list string :=
  split_ws_go x (split_limit x maxsplit) EmptyString.
Definition str_rsplit_ws (x : string) (maxsplit : option Z) : list string :=
  rev (map srev (split_ws_go (srev x) (split_limit x maxsplit) EmptyString)).

(* splitlines: line ends are "\n", "\r" and "\r\n" (Python knows more: DIFFS.md) *)
Definition ch_nl : ascii := ascii_of_N 10%N.
Definition ch_cr : ascii := ascii_of_N 13%N.
Fixpoint splitlines_go (x : string) (keep : bool) (cur : string) : list string :=
  match x with
  | EmptyString => match cur with EmptyString => [] | _ => [srev cur] end
  | String c r =>
      if Ascii.eqb c ch_nl then srev (if keep then String c cur else cur) :: splitlines_go r keep EmptyString
      else if Ascii.eqb c ch_cr then
        match r with
        | String c2 r2 =>
            if Ascii.eqb c2 ch_nl then
              (* the pair "\r\n" is one line end; continue after the "\n" by letting the next step see it with the "\r" kept *)
              splitlines_go r keep (if keep then String c cur else cur)
            else srev (if keep then String c cur else cur) :: splitlines_go r keep EmptyString
        | EmptyString => srev (if keep then String c cur else cur) :: splitlines_go r keep EmptyString
        end
      else splitlines_go r keep (String c cur)
  end.
Definition str_splitlines (x : string) (keep : bool) : list string := splitlines_go x keep EmptyString.

(* replace: the occurrences replaced are exactly the separators `split` finds; an empty `old` matches before every
   character and at the end *)
Fixpoint interleave (new x : string) (k : nat) : string :=
  match k with
  | O => x
  | S k' => new +++ match x with EmptyString => EmptyString | String c r => String c (interleave new r k') end
  end.
Definition str_replace (x old new : string) (count : option Z) : string :=
  match old with
  | EmptyString => interleave new x (match count with Some z => Z.to_nat z | None => S (String.length x) end)
  | _ => str_join new (str_split old x count)
  end.

Definition str_partition (x sep : string) : string * string * string :=
  match find_from sep x O with
  | Some i => (stake i x, sep, sdrop (i + String.length sep)%nat x)
  | None => (x, "", "")
  end.
Definition str_rpartition (x sep : string) : string * string * string :=
  match rfind_from sep x O with
  | Some i => (stake i x, sep, sdrop (i + String.length sep)%nat x)
  | None => ("", "", x)
  end.
Definition str_removeprefix (x p : string) : string := if is_prefix p x then sdrop (String.length p) x else x.
Definition str_removesuffix (x p : string) : string :=
  if is_suffix p x then stake (String.length x - String.length p)%nat x else x.

(* ---- repr / str (string/repr.rs, collect_repr of the container types) ----------------------------------------------- *)
Definition hex_digit (n : N) : ascii := digit_char (Z.of_N n).
Definition ch_dq : ascii := ascii_of_N 34%N.
Definition ch_bs : ascii := ascii_of_N 92%N.
Definition ch_tab : ascii := ascii_of_N 9%N.
Fixpoint escape_go (x : string) : string :=
  match x with
  | EmptyString => EmptyString
  | String c r =>
      let n := ccode c in
      (if Ascii.eqb c ch_nl then "\n"
       else if Ascii.eqb c ch_cr then "\r"
       else if Ascii.eqb c ch_tab then "\t"
       else if Ascii.eqb c ch_bs then "\\"
       else if Ascii.eqb c ch_dq then String ch_bs (String ch_dq EmptyString)
       else if N.ltb n 32%N || N.leb 127%N n
       then String ch_bs (String "x" (String (hex_digit (N.div n 16%N)) (String (hex_digit (N.modulo n 16%N)) EmptyString)))
       else String c EmptyString) +++ escape_go r
  end.
Definition str_repr (x : string) : string := String ch_dq (escape_go x +++ String ch_dq EmptyString).

Fixpoint seqO {A} (l : list (option A)) : option (list A) :=
  match l with
  | [] => Some []
  | Some a :: t => match seqO t with Some r => Some (a :: r) | None => None end
  | None :: _ => None
  end.

(* repr of what the embedder observes of a value (addresses and sharing play no part in repr);
   None: a value whose repr is not part of the shared subset (functions, ranges, cut-off cycles) *)
Fixpoint repr_obs (o : obs) : option string :=
  match o with
  | ONone => Some "None"
  | OBool true => Some "True" | OBool false => Some "False"
  | OInt z => Some (render 10 z)
  | OStr x => Some (str_repr x)
  | OList l => match seqO (map repr_obs l) with Some ps => Some ("[" +++ str_join ", " ps +++ "]") | None => None end
  | OTuple l => match seqO (map repr_obs l) with
                | Some [p] => Some ("(" +++ p +++ ",)")
                | Some ps => Some ("(" +++ str_join ", " ps +++ ")")
                | None => None end
  | ODict l => match seqO (map (fun kv => match repr_obs (fst kv), repr_obs (snd kv) with
                                          | Some a, Some b => Some (a +++ ": " +++ b) | _, _ => None end) l) with
               | Some ps => Some ("{" +++ str_join ", " ps +++ "}")
               | None => None end
  | OOther _ => None
  end.
Definition str_obs (o : obs) : option string :=
  match o with OStr x => Some x | _ => repr_obs o end.

(* ---- results of the pure layer: address-free data only ------------------------------------------------------------ *)
Inductive sres :=
| RStr (x : string) | RInt (z : Z) | RBool (b : bool) | RNone
| RStrTuple (l : list string)            (* an immutable sequence of strings *)
| RStrList (l : list string).            (* a NEW list of strings *)
Definition sresult := (err + sres)%type.
Definition rerr (e : err) : sresult := inl e.
Definition rstr (x : string) : sresult := inr (RStr x).
Definition rint (z : Z) : sresult := inr (RInt z).
Definition rbool (b : bool) : sresult := inr (RBool b).

(* ---- "%" formatting (interpolation.rs `percent`) --------------------------------------------------------------- *)
Definition ch_pct : ascii := ascii_of_N 37%N.
Definition render_signed (b : Z) (upper : bool) (z : Z) : string :=
  let body := render b (Z.abs z) in
  (if z <? 0 then "-" else "") +++ (if upper then str_upper body else body).
Definition percent_conv (c : ascii) (a : obs) : err + string :=
  if Ascii.eqb c "s" then match str_obs a with Some t => inr t | None => inl Unsupported end
  else if Ascii.eqb c "r" then match repr_obs a with Some t => inr t | None => inl Unsupported end
  else match a with
       | OInt z => inr (if Ascii.eqb c "d" then render 10 z
                        else if Ascii.eqb c "o" then render_signed 8 false z
                        else if Ascii.eqb c "x" then render_signed 16 false z
                        else render_signed 16 true z)
       | _ => inl TypeErr
       end.
Definition is_int_conv (c : ascii) : bool :=
  Ascii.eqb c "s" || Ascii.eqb c "r" || Ascii.eqb c "d" || Ascii.eqb c "o" || Ascii.eqb c "x" || Ascii.eqb c "X".
Definition is_float_conv (c : ascii) : bool :=
  Ascii.eqb c "e" || Ascii.eqb c "E" || Ascii.eqb c "f" || Ascii.eqb c "F" || Ascii.eqb c "g" || Ascii.eqb c "G".
Definition cons_ok (c : ascii) (r : err + string) : err + string :=
  match r with inr t => inr (String c t) | inl e => inl e end.
Definition app_ok (x : string) (r : err + string) : err + string :=
  match r with inr t => inr (x +++ t) | inl e => inl e end.

Fixpoint percent_go (fmt : string) (args : list obs) : err + string :=
  match fmt with
  | EmptyString => match args with [] => inr "" | _ => inl TypeErr end             (* TooManyParameters *)
  | String c rest =>
      if Ascii.eqb c ch_pct then
        match rest with
        | EmptyString => inl ValueErr                                             (* IncompleteFormat *)
        | String k rest' =>
            if Ascii.eqb k ch_pct then cons_ok ch_pct (percent_go rest' args)
            else if is_int_conv k then
              match args with
              | [] => inl TypeErr                                                 (* NotEnoughParameters *)
              | a :: args' => match percent_conv k a with
                              | inr t => app_ok t (percent_go rest' args')
                              | inl e => inl e end
              end
            else if is_float_conv k then inl Unsupported                          (* floats are not modelled *)
            else inl ValueErr                                                     (* UnsupportedFormatCharacter *)
        end
      else cons_ok c (percent_go rest args)
  end.
Definition percent_pure (fmt : string) (arg : obs) : sresult :=
  match percent_go fmt (match arg with OTuple l => l | _ => [arg] end) with
  | inr t => rstr t | inl e => rerr e end.

(* ---- str.format (dot_format.rs `format`, dot_format_parser.rs `FormatParser`) ------------------------------------ *)
Definition ch_lb : ascii := ascii_of_N 123%N.
Definition ch_rb : ascii := ascii_of_N 125%N.
Definition ch_bang : ascii := ascii_of_N 33%N.
(* after an opening brace: the field name up to "}" or "!r}" / "!s}"; None = one of the parser's errors *)
Fixpoint scan_field (x : string) (cap : string) : option (string * bool * string) :=
  match x with
  | EmptyString => None                                                   (* Unmatched '{' *)
  | String c r =>
      if Ascii.eqb c ch_rb then Some (srev cap, false, r)
      else if Ascii.eqb c ch_bang then
        match r with
        | String k (String e r') =>
            if Ascii.eqb e ch_rb then
              if Ascii.eqb k "r" then Some (srev cap, true, r')
              else if Ascii.eqb k "s" then Some (srev cap, false, r')
              else None                                                   (* Invalid conversion *)
            else None                                                     (* Missing conversion / Unmatched *)
        | _ => None
        end
      else if Ascii.eqb c ch_lb then None                                 (* Unmatched '{' *)
      else scan_field r (String c cap)
  end.

Inductive fmode := FUnset | FAuto (next : nat) | FManual.
Definition all_digits (x : string) : bool := sall c_digit x.
Definition field_bad_char (c : ascii) : bool :=
  Ascii.eqb c "." || Ascii.eqb c "," || Ascii.eqb c "[" || Ascii.eqb c "]".
Fixpoint assoc_obs (k : string) (l : list (string * obs)) : option obs :=
  match l with [] => None | (k', v) :: t => if String.eqb k k' then Some v else assoc_obs k t end.

(* format_capture: which argument a field denotes *)
Definition field_arg (field : string) (mode : fmode) (args : list obs) (kwargs : list (string * obs))
  : err + (obs * fmode) :=
  match field with
  | EmptyString =>
      match mode with
      | FManual => inl ValueErr                                           (* cannot mix *)
      | FUnset => match nth_error args O with Some a => inr (a, FAuto 1) | None => inl IndexErr end
      | FAuto n => match nth_error args n with Some a => inr (a, FAuto (S n)) | None => inl IndexErr end
      end
  | _ =>
      if all_digits field then
        match mode with
        | FAuto _ => inl ValueErr                                         (* cannot mix *)
        | _ => match parse 10 field with
               | Some i => match nth_error args (Z.to_nat i) with Some a => inr (a, FManual) | None => inl IndexErr end
               | None => inl IndexErr end
        end
      else if sexists field_bad_char field then inl ValueErr
      else match assoc_obs field kwargs with Some a => inr (a, mode) | None => inl KeyErr end
  end.

Fixpoint format_go (fuel : nat) (x : string) (mode : fmode) (args : list obs) (kwargs : list (string * obs))
  : err + string :=
  match fuel with
  | O => inl Unsupported
  | S fuel =>
    match x with
    | EmptyString => inr ""
    | String c r =>
        if Ascii.eqb c ch_lb then
          match r with
          | String c2 r2 =>
              if Ascii.eqb c2 ch_lb then cons_ok ch_lb (format_go fuel r2 mode args kwargs)      (* "{{" *)
              else match scan_field r EmptyString with
                   | None => inl ValueErr
                   | Some (field, as_repr, rest) =>
                       match field_arg field mode args kwargs with
                       | inl e => inl e
                       | inr (a, mode') =>
                           match (if as_repr then repr_obs a else str_obs a) with
                           | Some t => app_ok t (format_go fuel rest mode' args kwargs)
                           | None => inl Unsupported
                           end
                       end
                   end
          | EmptyString => inl ValueErr                                   (* Unmatched '{' *)
          end
        else if Ascii.eqb c ch_rb then
          match r with
          | String c2 r2 => if Ascii.eqb c2 ch_rb then cons_ok ch_rb (format_go fuel r2 mode args kwargs)   (* "}}" *)
                            else inl ValueErr                             (* Standalone '}' *)
          | EmptyString => inl ValueErr
          end
        else cons_ok c (format_go fuel r mode args kwargs)
    end
  end.
Definition format_pure (fmt : string) (args : list obs) (kwargs : list (string * obs)) : sresult :=
  match format_go (S (String.length fmt)) fmt FUnset args kwargs with
  | inr t => rstr t | inl e => rerr e end.

(* ---- argument decoding ---------------------------------------------------------------------------------------- *)
(* optional `start` / `end` / `maxsplit` arguments: an int or None *)
Definition opt_z (o : obs) : option (option Z) :=
  match o with OInt z => Some (Some z) | ONone => Some None | _ => None end.
Fixpoint strs_of (l : list obs) : option (list string) :=
  match l with
  | [] => Some []
  | OStr x :: t => match strs_of t with Some r => Some (x :: r) | None => None end
  | _ => None
  end.
(* needle [, start [, end]] *)
Definition with_needle (args : list obs) (k : string -> option Z -> option Z -> sresult) : sresult :=
  match args with
  | [] => rerr Arity
  | [OStr p] => k p None None
  | [OStr p; a] => match opt_z a with Some a' => k p a' None | None => rerr TypeErr end
  | [OStr p; a; b] => match opt_z a, opt_z b with Some a', Some b' => k p a' b' | _, _ => rerr TypeErr end
  | [_] | [_; _] | [_; _; _] => rerr TypeErr
  | _ => rerr Arity
  end.
(* str-or-tuple-of-str [, start [, end]] *)
Definition with_affixes (args : list obs) (k : list string -> option Z -> option Z -> sresult) : sresult :=
  let dec (o : obs) : option (list string) :=
    match o with OStr p => Some [p] | OTuple l => strs_of l | _ => None end in
  match args with
  | [] => rerr Arity
  | [p] => match dec p with Some ps => k ps None None | None => rerr TypeErr end
  | [p; a] => match dec p, opt_z a with Some ps, Some a' => k ps a' None | _, _ => rerr TypeErr end
  | [p; a; b] => match dec p, opt_z a, opt_z b with Some ps, Some a', Some b' => k ps a' b' | _, _, _ => rerr TypeErr end
  | _ => rerr Arity
  end.
Definition no_args (args : list obs) (r : sresult) : sresult := match args with [] => r | _ => rerr Arity end.
Definition opt_chars (args : list obs) (k : option string -> sresult) : sresult :=
  match args with
  | [] => k None
  | [OStr cs] => k (Some cs)
  | [_] => rerr TypeErr
  | _ => rerr Arity
  end.
Definition one_str (args : list obs) (k : string -> sresult) : sresult :=
  match args with
  | [OStr p] => k p
  | [_] => rerr TypeErr
  | _ => rerr Arity
  end.
(* [sep [, maxsplit]] of split/rsplit; sep None = whitespace *)
Definition split_args (args : list obs) (k : option string -> option Z -> sresult) : sresult :=
  let sep (o : obs) : option (option string) :=
    match o with OStr p => Some (Some p) | ONone => Some None | _ => None end in
  match args with
  | [] => k None None
  | [a] => match sep a with Some s => k s None | None => rerr TypeErr end
  | [a; b] => match sep a, opt_z b with Some s, Some m => k s m | _, _ => rerr TypeErr end
  | _ => rerr Arity
  end.

Definition sfound (r : option Z) : sresult := match r with Some i => rint i | None => rint (-1) end.
Definition sfound_or_fail (r : option Z) : sresult := match r with Some i => rint i | None => rerr ValueErr end.
Definition striple (t : string * string * string) : sresult :=
  let '(a, b, c) := t in inr (RStrTuple [a; b; c]).

(* ---- the methods of a string (methods.rs); every parameter is positional-only there ------------------------------- *)
Definition str_method_pure (x m : string) (args : list obs) (kwargs : list (string * obs)) : sresult :=
  if String.eqb m "format" then format_pure x args kwargs
  else match kwargs with _ :: _ => rerr Arity | [] =>
  if String.eqb m "upper" then no_args args (rstr (str_upper x))
  else if String.eqb m "lower" then no_args args (rstr (str_lower x))
  else if String.eqb m "capitalize" then no_args args (rstr (str_capitalize x))
  else if String.eqb m "title" then no_args args (rstr (str_title x))
  else if String.eqb m "isdigit" then no_args args (rbool (str_isdigit x))
  else if String.eqb m "isalpha" then no_args args (rbool (str_isalpha x))
  else if String.eqb m "isalnum" then no_args args (rbool (str_isalnum x))
  else if String.eqb m "isspace" then no_args args (rbool (str_isspace x))
  else if String.eqb m "islower" then no_args args (rbool (str_islower x))
  else if String.eqb m "isupper" then no_args args (rbool (str_isupper x))
  else if String.eqb m "istitle" then no_args args (rbool (str_istitle x))
  else if String.eqb m "elems" then no_args args (inr (RStrTuple (map (fun c => String c EmptyString) (list_ascii_of_string x))))
  else if String.eqb m "strip" then opt_chars args (fun cs => rstr (strip_by (strip_pred cs) x))
  else if String.eqb m "lstrip" then opt_chars args (fun cs => rstr (lstrip_by (strip_pred cs) x))
  else if String.eqb m "rstrip" then opt_chars args (fun cs => rstr (rstrip_by (strip_pred cs) x))
  else if String.eqb m "find" then with_needle args (fun p a b => sfound (str_find x p a b))
  else if String.eqb m "rfind" then with_needle args (fun p a b => sfound (str_rfind x p a b))
  else if String.eqb m "index" then with_needle args (fun p a b => sfound_or_fail (str_find x p a b))
  else if String.eqb m "rindex" then with_needle args (fun p a b => sfound_or_fail (str_rfind x p a b))
  else if String.eqb m "count" then with_needle args (fun p a b => rint (str_count x p a b))
  else if String.eqb m "startswith" then
    with_affixes args (fun ps a b => rbool (match str_window x a b with
                                           | Some (_, w) => existsb (fun p => is_prefix p w) ps | None => false end))
  else if String.eqb m "endswith" then
    with_affixes args (fun ps a b => rbool (match str_window x a b with
                                           | Some (_, w) => existsb (fun p => is_suffix p w) ps | None => false end))
  else if String.eqb m "split" then
    split_args args (fun sep k => match sep with
                                  | None => inr (RStrList (str_split_ws x k))
                                  | Some EmptyString => rerr ValueErr         (* empty separator: an error in the shared meaning *)
                                  | Some s => inr (RStrList (str_split s x k)) end)
  else if String.eqb m "rsplit" then
    split_args args (fun sep k => match sep with
                                  | None => inr (RStrList (str_rsplit_ws x k))
                                  | Some EmptyString => rerr ValueErr
                                  | Some s => inr (RStrList (str_rsplit s x k)) end)
  else if String.eqb m "splitlines" then
    match args with
    | [] => inr (RStrList (str_splitlines x false))
    | [OBool k] => inr (RStrList (str_splitlines x k))
    | [_] => rerr TypeErr
    | _ => rerr Arity end
  else if String.eqb m "replace" then
    match args with
    | [OStr old; OStr new] => rstr (str_replace x old new None)
    | [OStr old; OStr new; OInt k] => if k <? 0 then rerr ValueErr else rstr (str_replace x old new (Some k))
    | [_; _] | [_; _; _] => rerr TypeErr
    | _ => rerr Arity end
  else if String.eqb m "partition" then
    one_str args (fun p => match p with EmptyString => rerr ValueErr | _ => striple (str_partition x p) end)
  else if String.eqb m "rpartition" then
    one_str args (fun p => match p with EmptyString => rerr ValueErr | _ => striple (str_rpartition x p) end)
  else if String.eqb m "removeprefix" then one_str args (fun p => rstr (str_removeprefix x p))
  else if String.eqb m "removesuffix" then one_str args (fun p => rstr (str_removesuffix x p))
  else rerr Unsupported
  end.

(* sep.join(elements) *)
Definition join_pure (sep : string) (elems : list obs) : sresult :=
  match strs_of elems with Some ps => rstr (str_join sep ps) | None => rerr TypeErr end.

(* ---- the string builtins: repr, ord, chr (str is in Sem.v) ----------------------------------------------------------- *)
Definition str_builtin_names : list string := ["repr"; "ord"; "chr"].
Definition str_builtin_pure (b : string) (args : list obs) : sresult :=
  if String.eqb b "repr" then
    match args with
    | [a] => match repr_obs a with Some t => rstr t | None => rerr Unsupported end
    | _ => rerr Arity end
  else if String.eqb b "ord" then
    match args with
    | [OStr (String c EmptyString)] => rint (Z.of_N (ccode c))
    | [OStr _] => rerr ValueErr
    | [_] => rerr TypeErr
    | _ => rerr Arity end
  else if String.eqb b "chr" then
    match args with
    | [OInt z] => if (z <? 0) || (1114111 <? z) || ((55296 <=? z) && (z <=? 57343)) then rerr ValueErr
                  else if z <? 128 then rstr (String (ascii_of_N (Z.to_N z)) EmptyString)
                  else rerr Unsupported                      (* a non-ASCII character: outside the byte-string model *)
    | [_] => rerr TypeErr
    | _ => rerr Arity end
  else rerr Unsupported.
