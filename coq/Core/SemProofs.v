(* Meta-theory of the MiniStar reference semantics: the interpreter is monotone in its fuel, so
   "the outcome of a terminating program" is well defined (independent of the fuel supplied). *)
From Coq Require Import ZArith String List Bool.
From SV Require Import Core.Syntax Core.Values Core.Slice Core.Sem.
Import ListNotations.

Definition res_le {A} (r1 r2 : res A) : Prop := r1 = OutOfFuel \/ r1 = r2.
Definition M_le {A} (m1 m2 : M A) : Prop := forall s, res_le (m1 s) (m2 s).

Lemma res_le_refl {A} (r : res A) : res_le r r.
Proof. right. reflexivity. Qed.
Lemma M_le_refl {A} (m : M A) : M_le m m.
Proof. intros s. apply res_le_refl. Qed.
Lemma res_le_trans {A} (a b c : res A) : res_le a b -> res_le b c -> res_le a c.
Proof. intros [-> | ->] H; [left; reflexivity | exact H]. Qed.
Lemma M_le_trans {A} (a b c : M A) : M_le a b -> M_le b c -> M_le a c.
Proof. intros H1 H2 s. eapply res_le_trans; [apply H1 | apply H2]. Qed.

Lemma bind_le {A B} (m1 m2 : M A) (f1 f2 : A -> M B) :
  M_le m1 m2 -> (forall a, M_le (f1 a) (f2 a)) -> M_le (bind m1 f1) (bind m2 f2).
Proof.
  intros Hm Hf s. unfold bind. destruct (Hm s) as [E|E]; rewrite E.
  - left. reflexivity.
  - destruct (m2 s) as [a s'|e l s'|]; try apply res_le_refl. apply Hf.
Qed.

Lemma mapM_le {A B} (f g : A -> M B) (l : list A) :
  (forall x, M_le (f x) (g x)) -> M_le (mapM f l) (mapM g l).
Proof.
  intros H. induction l as [|x xs IH]; cbn [mapM]; [apply M_le_refl|].
  apply bind_le; [apply H|]. intros y. apply bind_le; [apply IH|]. intros ys. apply M_le_refl.
Qed.

Lemma at_line_le {A} ln (m1 m2 : M A) : M_le m1 m2 -> M_le (at_line ln m1) (at_line ln m2).
Proof.
  intros H s. unfold at_line. destruct (H s) as [E|E]; rewrite E; [left; reflexivity|apply res_le_refl].
Qed.

Lemma with_lock_le {A} v (m1 m2 : M A) : M_le m1 m2 -> M_le (with_lock v m1) (with_lock v m2).
Proof.
  intros H s. unfold with_lock. destruct (iter_lock v true s) as [u s1|e l s1|]; try apply res_le_refl.
  destruct (H s1) as [E|E]; rewrite E; [left; reflexivity|apply res_le_refl].
Qed.

Section TargetInd.
  Variable P : target -> Prop.
  Hypothesis Hvar : forall x, P (TVar x).
  Hypothesis Htup : forall ts, Forall P ts -> P (TTuple ts).
  Hypothesis Hidx : forall a i, P (TIndex a i).
  Fixpoint target_ind' (t : target) : P t :=
    match t with
    | TVar x => Hvar x
    | TTuple ts => Htup ts ((fix go (ts : list target) : Forall P ts :=
                               match ts with
                               | [] => Forall_nil P
                               | t :: r => Forall_cons t (target_ind' t) (go r)
                               end) ts)
    | TIndex a i => Hidx a i
    end.
End TargetInd.

Section Mono.
  Variables ev1 ev2 : env -> expr -> M value.
  Hypothesis Hev : forall en e, M_le (ev1 en e) (ev2 en e).

  Lemma assign_le en t v : M_le (assign ev1 en t v) (assign ev2 en t v).
  Proof.
    revert v. induction t as [x|ts IH|a i] using target_ind'; intros v; cbn [assign].
    - apply M_le_refl.
    - apply bind_le; [apply M_le_refl|]. intros vs.
      destruct (Nat.eqb (length ts) (length vs)); [|apply M_le_refl].
      revert vs. induction IH as [|t ts' Ht Hts IHts]; intros vs; [apply M_le_refl|].
      destruct vs as [|v' vs']; [apply M_le_refl|].
      apply bind_le; [apply Ht|]. intros _. apply IHts.
    - apply bind_le; [apply Hev|]. intros av. apply bind_le; [apply Hev|]. intros iv. apply M_le_refl.
  Qed.

  Lemma comp_clauses_le en cls first (k1 k2 : M unit) :
    M_le k1 k2 -> M_le (comp_clauses ev1 en cls first k1) (comp_clauses ev2 en cls first k2).
  Proof.
    intros Hk. revert first. induction cls as [|c r IH]; intros first; cbn [comp_clauses]; [exact Hk|].
    destruct c as [t e|c].
    - apply bind_le.
      + destruct first; [apply M_le_refl|]. apply bind_le; [apply Hev|]. intros it. apply M_le_refl.
      + intros p. apply with_lock_le. induction (snd p) as [|v vs IHv]; [apply M_le_refl|].
        apply bind_le; [apply assign_le|]. intros _. apply bind_le; [apply IH|]. intros _. apply IHv.
    - apply bind_le; [apply Hev|]. intros cv. apply bind_le; [apply M_le_refl|]. intros s.
      destruct (truth s cv); [apply IH|apply M_le_refl].
  Qed.
End Mono.

Lemma run_block_le (ex1 ex2 : stmt -> M ctrl) ss :
  (forall s, M_le (ex1 s) (ex2 s)) -> M_le (run_block ex1 ss) (run_block ex2 ss).
Proof.
  intros H. induction ss as [|s r IH]; cbn [run_block]; [apply M_le_refl|].
  apply bind_le; [apply H|]. intros c. destruct c; try apply M_le_refl. apply IH.
Qed.

Lemma for_loop_le (b1 b2 : value -> M ctrl) vs :
  (forall v, M_le (b1 v) (b2 v)) -> M_le (for_loop b1 vs) (for_loop b2 vs).
Proof.
  intros H. induction vs as [|v r IH]; cbn [for_loop]; [apply M_le_refl|].
  apply bind_le; [apply H|]. intros c. destruct c; try apply M_le_refl; apply IH.
Qed.

Ltac mono IHe IHc IHx :=
  repeat match goal with
    | |- M_le ?m ?m => apply M_le_refl
    | |- M_le (eval _ _ _) (eval _ _ _) => apply IHe
    | |- M_le (call _ _ _ _) (call _ _ _ _) => apply IHc
    | |- M_le (exec _ _ _) (exec _ _ _) => apply IHx
    | |- M_le (at_line _ _) (at_line _ _) => apply at_line_le
    | |- M_le (with_lock _ _) (with_lock _ _) => apply with_lock_le
    | |- M_le (comp_clauses _ _ _ _ _) (comp_clauses _ _ _ _ _) => apply comp_clauses_le; [intros; apply IHe|]
    | |- M_le (assign _ _ _ _) (assign _ _ _ _) => apply assign_le; intros; apply IHe
    | |- M_le (run_block _ _) (run_block _ _) => apply run_block_le; intro
    | |- M_le (for_loop _ _) (for_loop _ _) => apply for_loop_le; intro
    | |- M_le (mapM _ _) (mapM _ _) => apply mapM_le; intro
    | |- M_le (bind _ _) (bind _ _) => apply bind_le; [|intro]
    | |- M_le (match ?x with _ => _ end) (match ?x with _ => _ end) => destruct x
    | |- M_le (if ?x then _ else _) (if ?x then _ else _) => destruct x
    | |- M_le (let '(_, _) := ?x in _) (let '(_, _) := ?x in _) => destruct x
    end.

Theorem fuel_mono_all : forall n m, (n <= m)%nat ->
  (forall en e, M_le (eval n en e) (eval m en e)) /\
  (forall f pos named, M_le (call n f pos named) (call m f pos named)) /\
  (forall en st, M_le (exec n en st) (exec m en st)).
Proof.
  induction n as [|n IH]; intros m H.
  - repeat split; intros; intro s; left; reflexivity.
  - destruct m as [|m]; [inversion H|].
    destruct (IH m (le_S_n _ _ H)) as [IHe [IHc IHx]].
    split; [|split].
    + intros en e. destruct e; cbn [eval]; mono IHe IHc IHx.
    + intros f pos named. destruct f; cbn [call]; mono IHe IHc IHx.
    + intros en st. destruct st; cbn [exec]; mono IHe IHc IHx.
Qed.

Lemma fuel_mono_le : forall n m, (n <= m)%nat ->
  (forall en e, M_le (eval n en e) (eval m en e)) /\
  (forall en st, M_le (exec n en st) (exec m en st)).
Proof. intros n m H. destruct (fuel_mono_all n m H) as [A [_ B]]. split; assumption. Qed.

(* a result obtained with some fuel is the result with any larger fuel *)
Theorem exec_fuel_mono : forall n m en st s r, (n <= m)%nat ->
  exec n en st s = r -> r <> OutOfFuel -> exec m en st s = r.
Proof.
  intros n m en st s r H E NE. destruct (fuel_mono_le n m H) as [_ Hx].
  destruct (Hx en st s) as [F|F]; congruence.
Qed.

Theorem eval_fuel_mono : forall n m en e s r, (n <= m)%nat ->
  eval n en e s = r -> r <> OutOfFuel -> eval m en e s = r.
Proof.
  intros n m en e s r H E NE. destruct (fuel_mono_le n m H) as [Hx _].
  destruct (Hx en e s) as [F|F]; congruence.
Qed.

Lemma run_block_fuel_mono n m en ss : (n <= m)%nat ->
  M_le (run_block (exec n en) ss) (run_block (exec m en) ss).
Proof. intros H. apply run_block_le. intros st. apply (proj2 (fuel_mono_le n m H)). Qed.

(* whole programs: once a program has an outcome other than NoFuel, more fuel gives the same
   transcript and the same outcome *)
Theorem run_program_fuel_mono : forall n m prog tr o, (n <= m)%nat ->
  run_program n prog = (tr, o) -> o <> NoFuel -> run_program m prog = (tr, o).
Proof.
  intros n m prog tr o H E NE. unfold run_program in *.
  set (init := alloc_cells (dedup (body_names prog))) in *.
  assert (L : M_le (bind init (fun g => run_block (exec n g) prog)) (bind init (fun g => run_block (exec m g) prog))).
  { apply bind_le; [apply M_le_refl|]. intros g. apply run_block_fuel_mono. exact H. }
  destruct (L empty_state) as [F|F].
  - rewrite F in E. inversion E; subst. contradiction.
  - rewrite <- F. exact E.
Qed.
