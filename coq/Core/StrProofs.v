(* Meta-theory of the pure string layer of MiniStar (Core/StrOps.v): what the string operations of the reference
   semantics compute, stated against their specifications. *)
From Coq Require Import ZArith String List Bool Ascii Lia Arith.
From SV Require Import Core.Syntax Core.Values Int.Str Core.StrOps.
Import ListNotations.
Open Scope string_scope.
Open Scope list_scope.
Local Open Scope nat_scope.
Local Infix "+++" := String.append (right associativity, at level 60).

(* ---- append / length / take / drop --------------------------------------------------------------------------- *)
Lemma app_empty_r x : x +++ "" = x.
Proof. induction x as [|c r IH]; cbn; [reflexivity|]. rewrite IH. reflexivity. Qed.
Lemma app_assoc x y z : (x +++ y) +++ z = x +++ (y +++ z).
Proof. induction x as [|c r IH]; cbn; [reflexivity|]. rewrite IH. reflexivity. Qed.
Lemma app_length x y : String.length (x +++ y) = String.length x + String.length y.
Proof. induction x as [|c r IH]; cbn; [reflexivity|]. rewrite IH. reflexivity. Qed.
Lemma srev_app_spec x acc : srev_app x acc = srev x +++ acc.
Proof.
  unfold srev. revert acc. induction x as [|c r IH]; intros acc; cbn [srev_app]; [reflexivity|].
  rewrite (IH (String c acc)), (IH (String c "")). rewrite app_assoc. reflexivity.
Qed.
Lemma srev_cons c x : srev (String c x) = srev x +++ String c "".
Proof. unfold srev at 1. cbn [srev_app]. apply srev_app_spec. Qed.
Lemma sdrop_app p x : sdrop (String.length p) (p +++ x) = x.
Proof. induction p as [|c r IH]; cbn; [reflexivity|exact IH]. Qed.
Lemma stake_sdrop n x : stake n x +++ sdrop n x = x.
Proof. revert x. induction n as [|n IH]; intros [|c r]; cbn; try reflexivity. rewrite IH. reflexivity. Qed.

(* ---- startswith = prefix -------------------------------------------------------------------------------------- *)
Theorem is_prefix_spec p x : is_prefix p x = true <-> exists r, x = p +++ r.
Proof.
  revert x. induction p as [|a p IH]; intros x; cbn [is_prefix].
  - split; [intros _; exists x; reflexivity|reflexivity].
  - destruct x as [|b x].
    + split; [discriminate|]. intros [r E]. discriminate E.
    + rewrite andb_true_iff, Ascii.eqb_eq, IH. split.
      * intros [-> [r ->]]. exists r. reflexivity.
      * intros [r E]. cbn in E. inversion E; subst. split; [reflexivity|]. exists r. reflexivity.
Qed.
Lemma is_prefix_app p r : is_prefix p (p +++ r) = true.
Proof. apply is_prefix_spec. exists r. reflexivity. Qed.
Lemma is_prefix_drop p x : is_prefix p x = true -> p +++ sdrop (String.length p) x = x.
Proof. intros H. apply is_prefix_spec in H. destruct H as [r ->]. rewrite sdrop_app. reflexivity. Qed.
Lemma is_prefix_refl x : is_prefix x x = true.
Proof. apply is_prefix_spec. exists "". rewrite app_empty_r. reflexivity. Qed.

(* ---- find: the FIRST occurrence --------------------------------------------------------------------------------- *)
Theorem find_from_spec p : forall x i0 i, find_from p x i0 = Some i ->
  exists k, i = i0 + k /\ k <= String.length x /\ is_prefix p (sdrop k x) = true /\
            forall j, j < k -> is_prefix p (sdrop j x) = false.
Proof.
  induction x as [|c r IH]; intros i0 i; cbn [find_from].
  - destruct (is_prefix p "") eqn:E; [|discriminate]. intros [= <-]. exists 0. repeat split; try lia. exact E.
  - destruct (is_prefix p (String c r)) eqn:E.
    + intros [= <-]. exists 0. repeat split; try lia. exact E.
    + intros H. destruct (IH _ _ H) as (k & -> & Hk & Hp & Hm). exists (S k). repeat split; try (cbn; lia).
      * exact Hp.
      * intros [|j] Hj; [exact E|]. cbn [sdrop]. apply Hm. lia.
Qed.
Theorem find_from_none p : forall x i0, find_from p x i0 = None ->
  forall j, j <= String.length x -> is_prefix p (sdrop j x) = false.
Proof.
  induction x as [|c r IH]; intros i0; cbn [find_from].
  - destruct (is_prefix p "") eqn:E; [discriminate|]. intros _ [|j] Hj; cbn in *; [exact E|lia].
  - destruct (is_prefix p (String c r)) eqn:E; [discriminate|]. intros H [|j] Hj; [exact E|].
    cbn [sdrop]. eapply IH; [exact H|]. cbn in Hj. lia.
Qed.
(* "abc".find(p) on the whole string: the index of the first occurrence, or -1 when p does not occur *)
Theorem str_find_whole x p : str_find x p None None =
  match find_from p x 0 with Some i => Some (Z.of_nat i) | None => None end.
Proof.
  unfold str_find, str_window. cbn zeta.
  assert (E : (Z.of_nat (String.length x) <? 0)%Z = false) by (apply Z.ltb_ge; lia).
  rewrite E. cbn [orb]. rewrite Z.sub_0_r, Nat2Z.id. cbn [Z.to_nat sdrop].
  assert (T : stake (String.length x) x = x).
  { clear. induction x as [|c r IH]; cbn; [reflexivity|]. rewrite IH. reflexivity. }
  rewrite T. destruct (find_from p x 0); reflexivity.
Qed.

(* ---- upper / lower ----------------------------------------------------------------------------------------------- *)
Lemma to_upper_idem c : to_upper (to_upper c) = to_upper c.
Proof.
  destruct c as [[] [] [] [] [] [] [] []]; vm_compute; reflexivity.
Qed.
Lemma to_lower_idem c : to_lower (to_lower c) = to_lower c.
Proof.
  destruct c as [[] [] [] [] [] [] [] []]; vm_compute; reflexivity.
Qed.
Theorem str_upper_idem x : str_upper (str_upper x) = str_upper x.
Proof. unfold str_upper. induction x as [|c r IH]; cbn [smap]; [reflexivity|]. rewrite IH, to_upper_idem. reflexivity. Qed.
Theorem str_lower_idem x : str_lower (str_lower x) = str_lower x.
Proof. unfold str_lower. induction x as [|c r IH]; cbn [smap]; [reflexivity|]. rewrite IH, to_lower_idem. reflexivity. Qed.
Theorem str_upper_length x : String.length (str_upper x) = String.length x.
Proof. unfold str_upper. induction x as [|c r IH]; cbn; [reflexivity|]. rewrite IH. reflexivity. Qed.

(* ---- strip is idempotent, for every character predicate (whitespace or a `chars` argument) ------------------------- *)
Lemma lstrip_idem f x : lstrip_by f (lstrip_by f x) = lstrip_by f x.
Proof.
  induction x as [|c r IH]; cbn [lstrip_by]; [reflexivity|].
  destruct (f c) eqn:E; [exact IH|]. cbn [lstrip_by]. rewrite E. reflexivity.
Qed.
Lemma rstrip_idem f x : rstrip_by f (rstrip_by f x) = rstrip_by f x.
Proof.
  induction x as [|c r IH]; cbn [rstrip_by]; [reflexivity|].
  destruct (rstrip_by f r) as [|d r'] eqn:E.
  - destruct (f c) eqn:Ec; cbn [rstrip_by]; [reflexivity|]. rewrite Ec. reflexivity.
  - cbn [rstrip_by]. cbn [rstrip_by] in IH. rewrite IH. reflexivity.
Qed.
(* rstrip does not touch a first character that is kept *)
Lemma rstrip_head f c r : f c = false -> exists r', rstrip_by f (String c r) = String c r'.
Proof. intros E. cbn [rstrip_by]. destruct (rstrip_by f r) as [|d r']; [rewrite E|]; eexists; reflexivity. Qed.
Lemma lstrip_head f x : lstrip_by f x = "" \/ exists c r, lstrip_by f x = String c r /\ f c = false.
Proof.
  induction x as [|c r IH]; cbn [lstrip_by]; [left; reflexivity|].
  destruct (f c) eqn:E; [exact IH|]. right. exists c, r. split; [reflexivity|exact E].
Qed.
Theorem strip_idem f x : strip_by f (strip_by f x) = strip_by f x.
Proof.
  unfold strip_by. destruct (lstrip_head f x) as [E|(c & r & E & Ec)]; rewrite E.
  - reflexivity.
  - destruct (rstrip_head f c r Ec) as [r' E']. rewrite E'. cbn [lstrip_by]. rewrite Ec. rewrite <- E'. apply rstrip_idem.
Qed.
(* what strip returns neither starts nor ends with a stripped character *)
Theorem lstrip_first f x c r : lstrip_by f x = String c r -> f c = false.
Proof. intros H. destruct (lstrip_head f x) as [E|(c' & r' & E & Ec)]; rewrite E in H; [discriminate|]. inversion H; subst. exact Ec. Qed.

(* ---- split / join ------------------------------------------------------------------------------------------------- *)
Lemma split_go_nonempty sep : forall x skip k cur, split_go sep x skip k cur <> [].
Proof.
  induction x as [|c r IH]; intros skip k cur; cbn [split_go]; [discriminate|].
  destruct skip as [|s]; [|apply IH]. destruct k as [|k']; [discriminate|].
  destruct (is_prefix sep (String c r)); [discriminate|apply IH].
Qed.
Lemma join_cons sep a l : l <> [] -> str_join sep (a :: l) = a +++ sep +++ str_join sep l.
Proof. destruct l; [congruence|reflexivity]. Qed.

(* joining the pieces with the separator gives back the text (any limit on the number of splits) *)
Lemma split_go_join sep : sep <> "" -> forall x skip k cur,
  str_join sep (split_go sep x skip k cur) = srev cur +++ sdrop skip x.
Proof.
  intros Hsep. induction x as [|c r IH]; intros skip k cur; cbn [split_go].
  - cbn [str_join]. destruct skip; cbn [sdrop]; rewrite app_empty_r; reflexivity.
  - destruct skip as [|s]; [|cbn [sdrop]; apply IH].
    destruct k as [|k']; [cbn [str_join sdrop]; apply srev_app_spec|].
    destruct (is_prefix sep (String c r)) eqn:E.
    + rewrite join_cons by apply split_go_nonempty. rewrite IH. cbn [sdrop].
      change (srev "") with "". cbn [String.append]. f_equal.
      destruct sep as [|a sep']; [congruence|].
      replace (String.length (String a sep') - 1) with (String.length sep') by (cbn [String.length]; lia).
      pose proof (is_prefix_drop _ _ E) as D. cbn [String.length sdrop] in D. exact D.
    + rewrite IH. cbn [sdrop]. rewrite srev_cons, app_assoc. reflexivity.
Qed.
Theorem split_join_roundtrip sep x maxsplit : sep <> "" -> str_join sep (str_split sep x maxsplit) = x.
Proof. intros H. unfold str_split. rewrite (split_go_join sep H). reflexivity. Qed.

(* replacing a (non-empty or empty) string by itself changes nothing, whatever the count *)
Lemma interleave_empty x k : interleave "" x k = x.
Proof. revert x. induction k as [|k IH]; intros [|c x]; cbn; try reflexivity. rewrite IH. reflexivity. Qed.
Theorem replace_same x a count : str_replace x a a count = x.
Proof.
  unfold str_replace. destruct a as [|c a'].
  - apply interleave_empty.
  - apply split_join_roundtrip. discriminate.
Qed.
(* without an occurrence of `old` nothing is replaced *)
Lemma split_go_absent sep : forall x k cur, (forall j, j <= String.length x -> is_prefix sep (sdrop j x) = false) ->
  split_go sep x 0 k cur = [srev cur +++ x].
Proof.
  induction x as [|c r IH]; intros k cur H; cbn [split_go]; [rewrite app_empty_r; reflexivity|].
  destruct k as [|k']; [rewrite srev_app_spec; reflexivity|].
  pose proof (H 0 (Nat.le_0_l _)) as H0. cbn [sdrop] in H0. rewrite H0. rewrite IH.
  - rewrite srev_cons, app_assoc. reflexivity.
  - intros j Hj. apply (H (S j)). cbn. lia.
Qed.
Theorem replace_absent x old new count : old <> "" -> find_from old x 0 = None -> str_replace x old new count = x.
Proof.
  intros Ho Hf. unfold str_replace. destruct old as [|c o']; [congruence|].
  unfold str_split. rewrite split_go_absent; [reflexivity|]. eapply find_from_none. exact Hf.
Qed.

(* ---- partition ------------------------------------------------------------------------------------------------------ *)
Theorem partition_concat x sep : let '(a, b, c) := str_partition x sep in a +++ b +++ c = x.
Proof.
  unfold str_partition. destruct (find_from sep x 0) as [i|] eqn:E; [|cbn; rewrite app_empty_r; reflexivity].
  destruct (find_from_spec _ _ _ _ E) as (k & -> & _ & Hp & _). cbn [Nat.add].
  rewrite <- (stake_sdrop k x) at 3. f_equal.
  replace (k + String.length sep) with (String.length sep + k) by lia.
  assert (D : forall a b y, sdrop (a + b) y = sdrop a (sdrop b y)).
  { intros a b. induction b as [|b IH]; intros y; [rewrite Nat.add_0_r; reflexivity|].
    rewrite Nat.add_succ_r. destruct y; cbn [sdrop]; [destruct a; reflexivity|apply IH]. }
  rewrite D. apply is_prefix_drop. exact Hp.
Qed.

(* ---- "%" and format -------------------------------------------------------------------------------------------------- *)
(* "%d" % z prints z in base 10 (Int.Str.render, whose round trip with `int()` is C10's theorem) *)
Theorem percent_d_render z : percent_pure "%d" (OInt z) = rstr (render 10 z).
Proof. unfold percent_pure. cbn. rewrite app_empty_r. reflexivity. Qed.
Theorem percent_s_str x : percent_pure "%s" (OStr x) = rstr x.
Proof. unfold percent_pure. cbn. rewrite app_empty_r. reflexivity. Qed.
(* the arity errors of "%": a conversion without an argument, an argument without a conversion *)
Theorem percent_not_enough : percent_pure "%d" (OTuple []) = rerr TypeErr.
Proof. reflexivity. Qed.
Theorem percent_too_many a b : percent_pure "%d" (OTuple [OInt a; OInt b]) = rerr TypeErr.
Proof. unfold percent_pure. cbn. destruct (render 10 a +++ ""); reflexivity. Qed.
(* a format string without "%" takes no argument and is returned unchanged *)
Lemma percent_go_plain x : sexists (Ascii.eqb ch_pct) x = false -> percent_go x [] = inr x.
Proof.
  induction x as [|c r IH]; cbn [sexists percent_go]; [reflexivity|].
  rewrite Ascii.eqb_sym. destruct (Ascii.eqb c ch_pct); cbn [orb]; [discriminate|]. intros H. rewrite (IH H). reflexivity.
Qed.
Theorem percent_plain x : sexists (Ascii.eqb ch_pct) x = false -> percent_pure x (OTuple []) = rstr x.
Proof. intros H. unfold percent_pure. rewrite (percent_go_plain x H). reflexivity. Qed.

(* "{}".format(v) is str(v); automatic and manual numbering cannot be mixed *)
Theorem format_one v t : str_obs v = Some t -> format_pure "{}" [v] [] = rstr t.
Proof. intros H. unfold format_pure. cbn. rewrite H. cbn. rewrite app_empty_r. reflexivity. Qed.
Theorem format_mix_rejected a b : format_pure "{0}{}" [OInt a; OInt b] [] = rerr ValueErr.
Proof. unfold format_pure. cbn. destruct (render 10 a); reflexivity. Qed.
Theorem format_mix_rejected' a b : format_pure "{}{0}" [OInt a; OInt b] [] = rerr ValueErr.
Proof. unfold format_pure. cbn. destruct (render 10 a); reflexivity. Qed.

(* repr of a string is quoted with double quotes; str of a string is the string *)
Theorem repr_plain : repr_obs (OStr "ab") = Some """ab""" /\ str_obs (OStr "ab") = Some "ab".
Proof. split; reflexivity. Qed.

(* ---- the interpreter runs the pure layer: two entry points spelled out ------------------------------------------- *)
Lemma stake_all x : stake (String.length x) x = x.
Proof. induction x as [|c r IH]; cbn; [reflexivity|]. rewrite IH. reflexivity. Qed.
Lemma str_window_whole x : str_window x None None = Some (0%Z, x).
Proof.
  unfold str_window. cbn zeta.
  assert (E : (Z.of_nat (String.length x) <? 0)%Z = false) by (apply Z.ltb_ge; lia).
  rewrite E. cbn [orb]. rewrite Z.sub_0_r, Nat2Z.id. cbn [Z.to_nat sdrop]. rewrite stake_all. reflexivity.
Qed.
Theorem startswith_is_prefix x p : str_method_pure x "startswith" [OStr p] [] = rbool (is_prefix p x).
Proof.
  unfold str_method_pure. cbn [String.eqb Ascii.eqb Bool.eqb andb]. cbv iota. cbn [with_affixes].
  rewrite str_window_whole. cbn [existsb]. rewrite orb_false_r. reflexivity.
Qed.
