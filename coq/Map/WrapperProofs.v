(* C11 proofs for the wrappers (Map/Wrappers.v): every container refines its list specification under any history.
   SmallSet / OrderedMap / OrderedSet / SortedMap / SortedSet are layers over the SmallMap model: each method is the
   SmallMap method composed with a projection, so the invariant and the refinement come from Map/Proofs.v.
   UnorderedMap / UnorderedSet and Vec2 have their own (small) invariants. *)
From Coq Require Import List Arith Lia Bool Permutation Sorted.
From SV Require Import Map.Spec Map.Model Map.Proofs Map.Wrappers.
Import ListNotations.

(* ---------------------------------------------------------------------- generic list facts *)
Lemma map_drop_nth {A B} (g : A -> B) i (l : list A) : map g (drop_nth i l) = drop_nth i (map g l).
Proof. revert i; induction l; intros [|i]; simpl; auto. f_equal; auto. Qed.

Lemma remove_at_drop_nth {K V} i (l : list (K * V)) : Spec.remove_at i l = drop_nth i l.
Proof. revert i; induction l; intros [|i]; simpl; auto. f_equal; auto. Qed.

Lemma map_removelast {A B} (g : A -> B) (l : list A) : map g (removelast l) = removelast (map g l).
Proof.
  induction l as [|a l IH]; [reflexivity|]. destruct l as [|b l]; [reflexivity|].
  change (g a :: map g (removelast (b :: l)) = g a :: removelast (map g (b :: l))). f_equal. exact IH.
Qed.

Lemma list_last_map {A B} (g : A -> B) (l : list A) : list_last (map g l) = option_map g (list_last l).
Proof.
  destruct l as [|a l]; [reflexivity|]. unfold list_last.
  change (nth_error (map g (a :: l)) (length (map g (a :: l)) - 1) = option_map g (nth_error (a :: l) (length (a :: l) - 1))).
  rewrite map_length, nth_error_map. reflexivity.
Qed.

Lemma last_opt_list_last {K V} (l : list (K * V)) : Spec.last_opt l = list_last l.
Proof. reflexivity. Qed.

Lemma flat_map_single {A B} (g : A -> B) (l : list A) : flat_map (fun x => [g x]) l = map g l.
Proof. induction l; simpl; auto. Qed.

Lemma filter_rev' {A} (f : A -> bool) (l : list A) : filter f (rev l) = rev (filter f l).
Proof.
  induction l as [|a l IH]; simpl; auto. rewrite filter_app, IH. simpl.
  destruct (f a); simpl; [reflexivity | apply app_nil_r].
Qed.

Lemma forallb_map_ext {A B} (g : A -> B) (p : B -> bool) (q : A -> bool) (l : list A) :
  (forall a, In a l -> p (g a) = q a) -> forallb p (map g l) = forallb q l.
Proof.
  induction l as [|a l IH]; simpl; intros He; auto. rewrite He by (left; reflexivity). f_equal. apply IH.
  intros b Hb. apply He. right; exact Hb.
Qed.

Lemma forallb_ext' {A} (p q : A -> bool) (l : list A) : (forall a, p a = q a) -> forallb p l = forallb q l.
Proof. intros He. induction l as [|a l IH]; simpl; auto. rewrite He, IH. reflexivity. Qed.

Lemma adjacent_Sorted {A} (R : A -> A -> Prop) (l : list A) :
  (forall i a b, nth_error l i = Some a -> nth_error l (S i) = Some b -> R a b) -> Sorted R l.
Proof.
  induction l as [|x l IH]; intros Hadj; [constructor|]. constructor.
  - apply IH. intros i a b Ha Hb. apply (Hadj (S i)); assumption.
  - destruct l as [|y l]; constructor. apply (Hadj 0); reflexivity.
Qed.

Lemma Sorted_adjacent {A} (R : A -> A -> Prop) (l : list A) :
  Sorted R l -> forall i a b, nth_error l i = Some a -> nth_error l (S i) = Some b -> R a b.
Proof.
  induction 1 as [|x l Hs IH Hhd]; intros i a b Ha Hb; [destruct i; discriminate|].
  destruct i as [|i].
  - simpl in Ha. inversion Ha; subst. destruct l as [|y l]; [discriminate|]. simpl in Hb. inversion Hb; subst.
    inversion Hhd; assumption.
  - eapply IH; eauto.
Qed.

(* two strictly sorted lists with the same elements are equal *)
Lemma strict_sorted_unique {A} (R : A -> A -> Prop) (l1 l2 : list A) :
  (forall a, ~ R a a) -> (forall a b c, R a b -> R b c -> R a c) ->
  StronglySorted R l1 -> StronglySorted R l2 -> (forall x, In x l1 <-> In x l2) -> l1 = l2.
Proof.
  intros Hirr Htr. revert l2. induction l1 as [|a l1 IH]; intros l2 H1 H2 Hin.
  - destruct l2 as [|b l2]; auto. exfalso. apply (Hin b). left; reflexivity.
  - destruct l2 as [|b l2]; [exfalso; apply (Hin a); left; reflexivity|].
    inversion H1 as [|? ? Hs1 Hf1]; subst. inversion H2 as [|? ? Hs2 Hf2]; subst.
    rewrite Forall_forall in Hf1, Hf2.
    assert (a = b).
    { destruct (proj1 (Hin a) (or_introl eq_refl)) as [E|Ha]; auto.
      destruct (proj2 (Hin b) (or_introl eq_refl)) as [E|Hb]; auto.
      exfalso. apply (Hirr a). eapply Htr; [apply Hf1; exact Hb | apply Hf2; exact Ha]. }
    subst b. f_equal. apply IH; auto. intros x. split; intros Hx.
    + destruct (proj1 (Hin x) (or_intror Hx)) as [E|Hx2]; auto. subst x. exfalso. apply (Hirr a). apply Hf1; exact Hx.
    + destruct (proj2 (Hin x) (or_intror Hx)) as [E|Hx1]; auto. subst x. exfalso. apply (Hirr a). apply Hf2; exact Hx.
Qed.

(* ---------------------------------------------------------------------- list_eqb / iter_cmp *)
Section ListCmpFacts.
  Context {A : Type} (aeq : A -> A -> bool) (acmp : A -> A -> comparison).
  Hypothesis aeq_spec : forall a b, aeq a b = true <-> a = b.
  Hypothesis acmp_eq : forall a b, acmp a b = Eq <-> a = b.

  Lemma list_eqb_spec l1 l2 : list_eqb aeq l1 l2 = true <-> l1 = l2.
  Proof.
    revert l2; induction l1 as [|x l1 IH]; intros [|y l2]; simpl; split; intros Hh; try discriminate; auto.
    - apply andb_prop in Hh as [Hx Hl]. apply aeq_spec in Hx. apply IH in Hl. subst; reflexivity.
    - inversion Hh; subst. apply andb_true_intro. split; [apply aeq_spec | apply IH]; reflexivity.
  Qed.

  Lemma slice_eq_spec l1 l2 : slice_eq aeq l1 l2 = true <-> l1 = l2.
  Proof.
    unfold slice_eq. split.
    - intros Hh. apply andb_prop in Hh as [_ Hl]. apply list_eqb_spec; exact Hl.
    - intros ->. rewrite Nat.eqb_refl. simpl. apply list_eqb_spec; reflexivity.
  Qed.

  Lemma iter_cmp_eq l1 l2 : iter_cmp acmp l1 l2 = Eq <-> l1 = l2.
  Proof.
    revert l2; induction l1 as [|x l1 IH]; intros [|y l2]; simpl; split; intros Hh; try discriminate; auto.
    - destruct (acmp x y) eqn:E; try discriminate. apply acmp_eq in E. apply IH in Hh. subst; reflexivity.
    - inversion Hh; subst. rewrite (proj2 (acmp_eq y y) eq_refl). apply IH; reflexivity.
  Qed.
End ListCmpFacts.

(* ====================================================================== sets as lists of keys *)
Section SetLists.
  Context {K : Type}.
  Variable keq : K -> K -> bool.
  Variable klt : K -> K -> bool.
  Hypothesis keq_spec : forall a b, keq a b = true <-> a = b.
  Notation pairs := (list (K * unit)).
  Notation keys := (map (@fst K unit)).

  Lemma s_insert_cons x r k :
    s_insert keq (x :: r) k = if keq k x then x :: r else x :: s_insert keq r k.
  Proof. unfold s_insert. simpl. destruct (keq k x); simpl; [reflexivity|]. destruct (s_mem keq r k); reflexivity. Qed.

  Lemma keys_get (l : pairs) k : Spec.get keq l k = if s_mem keq (keys l) k then Some tt else None.
  Proof.
    induction l as [|[k' []] l IH]; simpl; auto. destruct (keq k k'); simpl; auto.
  Qed.

  Lemma keys_contains (l : pairs) k : Spec.contains keq l k = s_mem keq (keys l) k.
  Proof. unfold Spec.contains. rewrite keys_get. destruct (s_mem keq (keys l) k); reflexivity. Qed.

  Lemma keys_insert (l : pairs) k : keys (Spec.insert keq l k tt) = s_insert keq (keys l) k.
  Proof.
    induction l as [|[k' []] l IH]; [reflexivity|]. cbn [map fst Spec.insert]. rewrite s_insert_cons.
    destruct (keq k k'); simpl; [reflexivity|]. f_equal. exact IH.
  Qed.

  Lemma keys_remove (l : pairs) k : keys (Spec.remove keq l k) = s_remove keq (keys l) k.
  Proof. induction l as [|[k' []] l IH]; simpl; auto. destruct (keq k k'); simpl; auto. f_equal; auto. Qed.

  Lemma keys_get_entry (l : pairs) k : option_map fst (Spec.get_entry keq l k) = s_find keq (keys l) k.
  Proof. induction l as [|[k' []] l IH]; simpl; auto. destruct (keq k k'); simpl; auto. Qed.

  Lemma s_mem_find (ks : list K) k : s_mem keq ks k = is_some (s_find keq ks k).
  Proof. induction ks as [|x ks IH]; simpl; auto. destruct (keq k x); simpl; auto. Qed.

  Lemma s_find_key (ks : list K) k x : s_find keq ks k = Some x -> x = k.
  Proof.
    induction ks as [|y ks IH]; simpl; [discriminate|]. destruct (keq k y) eqn:E; auto.
    intros Hx; inversion Hx; subst. apply keq_spec in E. auto.
  Qed.

  Lemma keys_retain (f : K -> bool) (l : pairs) :
    keys (Spec.retain (fun k _ => if f k then Some tt else None) l) = filter f (keys l).
  Proof.
    unfold Spec.retain. induction l as [|[k' []] l IH]; [reflexivity|]. cbn [flat_map map fst snd filter].
    rewrite map_app, IH. destruct (f k'); reflexivity.
  Qed.

  Lemma keys_sort (l : pairs) : keys (Spec.sort_keys klt l) = s_sort klt (keys l).
  Proof. unfold Spec.sort_keys, s_sort. apply isort_map. intros a b; reflexivity. Qed.

  Lemma keys_extend ks' : forall l : pairs,
    keys (Spec.extend keq l (map (fun k => (k, tt)) ks')) = s_extend keq (keys l) ks'.
  Proof.
    unfold Spec.extend, s_extend. induction ks' as [|k ks' IH]; simpl; intros l; auto.
    rewrite IH, keys_insert. reflexivity.
  Qed.

  (* state part of a step: the SmallMap specification step on pairs, projected to keys *)
  Lemma keys_step (l : pairs) (o : set_op K) :
    keys (fst (Spec.step keq klt l (set_op_to_map o))) = fst (s_step keq klt (keys l) o).
  Proof.
    destruct o; simpl.
    - apply keys_insert.
    - rewrite keys_contains. unfold s_insert. destruct (s_mem keq (keys l) k); [reflexivity|].
      rewrite map_app. reflexivity.
    - apply keys_remove.
    - apply keys_remove.
    - rewrite remove_at_drop_nth. apply map_drop_nth.
    - apply map_removelast.
    - reflexivity.
    - apply keys_retain.
    - apply keys_sort.
    - apply map_rev.
    - reflexivity.
    - apply keys_extend.
    - rewrite keys_get. unfold s_insert. destruct (s_mem keq (keys l) k); simpl; [reflexivity|].
      rewrite map_app. reflexivity.
    - rewrite keys_get. unfold s_insert. destruct (s_mem keq (keys l) k); simpl; [reflexivity|].
      rewrite map_app. reflexivity.
    - reflexivity.
    - reflexivity.
  Qed.

  (* lookups on the key list *)
  Lemma keys_index_of (l : pairs) k : Spec.index_of keq l k = s_index_of keq (keys l) k.
  Proof. induction l as [|[k' []] l IH]; simpl; auto. destruct (keq k k'); simpl; auto. rewrite IH; reflexivity. Qed.

  (* s_sort: permutation, sorted *)
  Lemma s_sort_perm ks : Permutation (s_sort klt ks) ks.
  Proof. apply isort_perm. Qed.
End SetLists.

(* ====================================================================== SmallSet / OrderedSet / SortedSet *)
Section SetProofs.
  Context {K H : Type}.
  Variable keq : K -> K -> bool.
  Variable heq : H -> H -> bool.
  Variable klt : K -> K -> bool.
  Variable hash : K -> H.
  Variable thr : nat.
  Variable max_ins : nat.
  Hypothesis keq_spec : forall a b, keq a b = true <-> a = b.
  Hypothesis heq_spec : forall a b, heq a b = true <-> a = b.

  Notation sset := (@sset K H).
  Notation SInv := (@Inv K unit H hash thr).
  Notation mstep := (@Model.step K unit H keq heq klt hash thr max_ins).
  Notation sstep := (@Spec.step K unit keq klt).
  Notation sstepk := (set_step keq heq klt hash thr max_ins).
  Notation to_keys := (@set_to_list K H).

  Lemma get_index_ok (s : sset) i : get_index s i = nth_error (to_list s) i.
  Proof. unfold get_index, to_list. rewrite nth_error_map. reflexivity. Qed.

  (* found index => the entry is there *)
  Lemma lookup_some (s : sset) k : SInv s ->
    match get_index_of_hashed_raw keq heq s (hash k) k with
    | Some i => exists e, nth_error (entries s) i = Some e /\ e_key e = k /\ s_mem keq (to_keys s) k = true
    | None => s_mem keq (to_keys s) k = false
    end.
  Proof.
    intros HI. rewrite (lookup_ok keq heq hash thr keq_spec heq_spec s k HI).
    pose proof (lookup_cases keq keq_spec (entries s) k) as Hc. fold (to_list s) in Hc.
    unfold set_to_list. rewrite (keys_get keq) in Hc.
    destruct (index_of keq (to_list s) k).
    - destruct Hc as [e [Hn [Hk Hg]]]. exists e. repeat split; auto.
      destruct (s_mem keq (map fst (to_list s)) k); [reflexivity|discriminate].
    - destruct (s_mem keq (map fst (to_list s)) k); [discriminate|reflexivity].
  Qed.

  Lemma set_get_ok (s : sset) k : SInv s -> set_get keq heq hash s k = s_find keq (to_keys s) k.
  Proof.
    intros HI. unfold set_get, get_full_hashed.
    rewrite (lookup_ok keq heq hash thr keq_spec heq_spec s k HI).
    unfold set_to_list. rewrite <- (keys_get_entry keq), (get_entry_index_of keq).
    destruct (index_of keq (to_list s) k) as [i|]; [|reflexivity].
    unfold to_list. rewrite nth_error_map. destruct (nth_error (entries s) i); reflexivity.
  Qed.

  (* the layer lemma: the state after a SmallSet method is the state after the SmallMap method it delegates to *)
  Lemma set_step_layer (s : sset) (o : set_op K) : SInv s ->
    fst (sstepk s o) = fst (mstep s (set_op_to_map o)).
  Proof.
    intros HI. destruct o; simpl;
      unfold set_insert, set_shift_remove, set_take, set_shift_remove_index, set_pop, set_get_or_insert,
             set_contains, set_insert_unique_unchecked, set_clear, set_retain, set_sort, set_reverse, set_reserve,
             set_extend, set_with_capacity, entry_or_insert.
    - destruct (insert_hashed keq heq thr s k (hash k) tt); reflexivity.
    - reflexivity.
    - destruct (shift_remove_hashed_entry keq heq s (hash k) k); reflexivity.
    - destruct (shift_remove_hashed_entry keq heq s (hash k) k); reflexivity.
    - destruct (shift_remove_index s i); reflexivity.
    - destruct (pop heq s); reflexivity.
    - reflexivity.
    - reflexivity.
    - reflexivity.
    - reflexivity.
    - reflexivity.
    - reflexivity.
    - destruct (get_index_of_hashed_raw keq heq s (hash k) k); reflexivity.
    - unfold set_try_insert. rewrite set_get_ok by assumption.
      pose proof (lookup_some s k HI) as Hl.
      destruct (get_index_of_hashed_raw keq heq s (hash k) k).
      + destruct Hl as [e [_ [_ Hm]]]. rewrite (s_mem_find keq) in Hm.
        destruct (s_find keq (to_keys s) k); [reflexivity|discriminate].
      + rewrite (s_mem_find keq) in Hl. destruct (s_find keq (to_keys s) k); [discriminate|reflexivity].
    - reflexivity.
    - reflexivity.
  Qed.

  (* returned values *)
  Lemma set_ret_ok (s : sset) (o : set_op K) : SInv s ->
    snd (sstepk s o) = snd (s_step keq klt (to_keys s) o).
  Proof.
    intros HI. unfold set_to_list. destruct o; simpl; try reflexivity.
    - unfold set_insert. pose proof (insert_ok keq heq klt hash thr keq_spec heq_spec s k tt HI) as (_ & _ & Hr).
      destruct (insert_hashed keq heq thr s k (hash k) tt) as [m r]; simpl in *. subst r.
      rewrite (keys_get keq). destruct (s_mem keq (map fst (to_list s)) k); reflexivity.
    - unfold set_shift_remove. pose proof (shift_remove_ok keq heq hash thr keq_spec heq_spec s k HI) as (_ & _ & Hr).
      destruct (shift_remove_hashed_entry keq heq s (hash k) k) as [m r]; simpl in *. subst r.
      rewrite (s_mem_find keq), <- (keys_get_entry keq). destruct (Spec.get_entry keq (to_list s) k); reflexivity.
    - unfold set_take. pose proof (shift_remove_ok keq heq hash thr keq_spec heq_spec s k HI) as (_ & _ & Hr).
      destruct (shift_remove_hashed_entry keq heq s (hash k) k) as [m r]; simpl in *. subst r.
      rewrite (keys_get_entry keq). reflexivity.
    - unfold set_shift_remove_index. pose proof (shift_remove_index_ok hash thr s i HI) as (_ & _ & Hr).
      destruct (shift_remove_index s i) as [m r]; simpl in *. subst r. rewrite nth_error_map. reflexivity.
    - unfold set_pop. pose proof (pop_ok heq hash thr heq_spec s HI) as (_ & _ & Hr).
      destruct (pop heq s) as [m r]; simpl in *. subst r. rewrite last_opt_list_last, list_last_map. reflexivity.
    - unfold set_get_or_insert. pose proof (lookup_some s k HI) as Hl.
      assert (Hk : match s_find keq (map fst (to_list s)) k with Some x => x | None => k end = k).
      { destruct (s_find keq (map fst (to_list s)) k) eqn:F; auto. eapply s_find_key; eauto. }
      rewrite Hk. destruct (get_index_of_hashed_raw keq heq s (hash k) k) as [i|]; simpl; [|reflexivity].
      destruct Hl as [e [Hn [Hke _]]]. unfold get_index. rewrite Hn. simpl. rewrite Hke. reflexivity.
    - unfold set_try_insert. rewrite set_get_ok by assumption. unfold set_to_list.
      destruct (s_find keq (map fst (to_list s)) k); reflexivity.
  Qed.

  (* one step of SmallSet / OrderedSet *)
  Theorem set_step_ok (s : sset) (o : set_op K) : SInv s ->
    SInv (fst (sstepk s o)) /\
    to_keys (fst (sstepk s o)) = fst (s_step keq klt (to_keys s) o) /\
    snd (sstepk s o) = snd (s_step keq klt (to_keys s) o).
  Proof.
    intros HI. rewrite set_step_layer by assumption.
    destruct (step_ok keq heq klt hash thr max_ins keq_spec heq_spec s (set_op_to_map o) HI) as (H1 & H2 & _).
    split; [exact H1|]. split; [|apply set_ret_ok; assumption].
    unfold set_to_list. rewrite H2. apply keys_step.
  Qed.

  Notation set_run := (set_run keq heq klt hash thr max_ins).

  Lemma set_run_gen ops : forall s, SInv s ->
    SInv (fold_left (fun s o => fst (sstepk s o)) ops s) /\
    to_keys (fold_left (fun s o => fst (sstepk s o)) ops s) =
      fold_left (fun l o => fst (s_step keq klt l o)) ops (to_keys s).
  Proof.
    induction ops as [|o ops IH]; simpl; intros s HI; auto.
    destruct (set_step_ok s o HI) as (H1 & H2 & _). destruct (IH _ H1) as [H3 H4]. split; auto.
    rewrite H4, H2. reflexivity.
  Qed.

  Theorem set_inv_reachable ops : SInv (set_run ops).
  Proof. apply (set_run_gen ops _ (inv_empty hash thr)). Qed.

  Theorem set_refines ops : to_keys (set_run ops) = s_run keq klt ops.
  Proof. apply (set_run_gen ops _ (inv_empty hash thr)). Qed.

  Theorem set_ret_refines ops o : snd (sstepk (set_run ops) o) = snd (s_step keq klt (s_run keq klt ops) o).
  Proof. rewrite <- set_refines. apply set_ret_ok. apply set_inv_reachable. Qed.

  (* a history of SmallSet methods is the history of the SmallMap methods they delegate to *)
  Theorem set_run_is_map_run ops :
    set_run ops = Model.run keq heq klt hash thr max_ins (map (@set_op_to_map K) ops).
  Proof.
    unfold Wrappers.set_run, Model.run, set_new.
    assert (Hg : forall s, SInv s ->
              fold_left (fun s o => fst (sstepk s o)) ops s =
              fold_left (fun m o => fst (mstep m o)) (map (@set_op_to_map K) ops) s).
    { induction ops as [|o ops IH]; simpl; intros s HI; auto.
      rewrite set_step_layer by assumption. apply IH.
      apply (step_ok keq heq klt hash thr max_ins keq_spec heq_spec s (set_op_to_map o) HI). }
    apply Hg. apply inv_empty.
  Qed.

  (* lookups of a set satisfying the invariant *)
  Lemma set_contains_ok (s : sset) k : SInv s -> set_contains keq heq hash s k = s_mem keq (to_keys s) k.
  Proof.
    intros HI. unfold set_contains. rewrite (contains_ok keq heq hash thr keq_spec heq_spec s k HI).
    apply keys_contains.
  Qed.
  Lemma set_get_index_of_ok (s : sset) k : SInv s -> set_get_index_of keq heq hash s k = s_index_of keq (to_keys s) k.
  Proof.
    intros HI. unfold set_get_index_of, Model.get_index_of.
    rewrite (lookup_ok keq heq hash thr keq_spec heq_spec s k HI). apply keys_index_of.
  Qed.
  Lemma set_get_index_ok' (s : sset) i : set_get_index s i = nth_error (to_keys s) i.
  Proof. unfold set_get_index, set_to_list. rewrite get_index_ok, nth_error_map. reflexivity. Qed.
  Lemma set_first_ok (s : sset) : set_first s = hd_error (to_keys s).
  Proof. unfold set_first, first. rewrite get_index_ok. unfold set_to_list. destruct (to_list s); reflexivity. Qed.
  Lemma set_last_ok (s : sset) : set_last s = list_last (to_keys s).
  Proof.
    unfold set_last, last, set_to_list. rewrite list_last_map. unfold list_last, to_list, len.
    destruct (entries s) as [|e es] eqn:E; [reflexivity|]. rewrite get_index_ok. unfold to_list. rewrite E, map_length.
    reflexivity.
  Qed.
  Lemma set_difference_ok (s o : sset) : SInv o ->
    set_difference keq heq hash s o = s_difference keq (to_keys s) (to_keys o).
  Proof.
    intros HI. unfold set_difference, s_difference. apply filter_ext. intros k.
    rewrite set_contains_ok by assumption. reflexivity.
  Qed.
  Lemma set_union_ok (s o : sset) : SInv s ->
    set_union keq heq hash s o = s_union keq (to_keys s) (to_keys o).
  Proof. intros HI. unfold set_union, s_union. rewrite set_difference_ok by assumption. reflexivity. Qed.

  Theorem set_lookups_refine ops k i :
    let s := set_run ops in let l := s_run keq klt ops in
    set_contains keq heq hash s k = s_mem keq l k /\
    set_get keq heq hash s k = s_find keq l k /\
    set_get_index_of keq heq hash s k = s_index_of keq l k /\
    set_get_index s i = nth_error l i /\
    set_first s = hd_error l /\ set_last s = list_last l /\ set_len s = length l.
  Proof.
    intros s l. pose proof (set_inv_reachable ops) as HI. fold s in HI. unfold l. rewrite <- set_refines. fold s.
    repeat split.
    - apply set_contains_ok; assumption.
    - apply set_get_ok; assumption.
    - apply set_get_index_of_ok; assumption.
    - apply set_get_index_ok'.
    - apply set_first_ok.
    - apply set_last_ok.
    - unfold set_len, len, set_to_list, to_list. rewrite !map_length. reflexivity.
  Qed.

  Theorem set_union_refines ops1 ops2 :
    set_union keq heq hash (set_run ops1) (set_run ops2) = s_union keq (s_run keq klt ops1) (s_run keq klt ops2).
  Proof. rewrite set_union_ok by apply set_inv_reachable. rewrite !set_refines. reflexivity. Qed.

  (* FromIterator *)
  Lemma set_from_iter_ok hint ks :
    SInv (set_from_iter keq heq hash thr hint ks) /\
    to_keys (set_from_iter keq heq hash thr hint ks) = s_extend keq [] ks.
  Proof.
    unfold set_from_iter, s_extend, set_with_capacity.
    assert (Hg : forall s, SInv s ->
      SInv (fold_left (fun s k => fst (set_insert keq heq hash thr s k)) ks s) /\
      to_keys (fold_left (fun s k => fst (set_insert keq heq hash thr s k)) ks s) = fold_left (s_insert keq) ks (to_keys s)).
    { induction ks as [|k ks IH]; simpl; intros s HI; auto.
      destruct (set_step_ok s (SInsert k) HI) as (H1 & H2 & _). simpl in H1, H2.
      destruct (set_insert keq heq hash thr s k) as [m b]; simpl in *.
      destruct (IH _ H1) as [H3 H4]. split; auto. rewrite H4, H2. reflexivity. }
    destruct (with_capacity_ok (V:=unit) hash thr hint) as [Hi Hl].
    destruct (Hg _ Hi) as [H1 H2]. split; auto. rewrite H2. unfold set_to_list. rewrite Hl. reflexivity.
  Qed.
End SetProofs.

(* ====================================================================== association lists, order-insensitively *)
Section AssocLists.
  Context {K V : Type}.
  Variable keq : K -> K -> bool.
  Variable veq : V -> V -> bool.
  Hypothesis keq_spec : forall a b, keq a b = true <-> a = b.
  Hypothesis veq_spec : forall a b, veq a b = true <-> a = b.
  Notation sget := (Spec.get keq).

  Lemma keq_refl' a : keq a a = true.
  Proof. apply keq_spec; reflexivity. Qed.

  Lemma get_some_in (l : list (K * V)) k v : sget l k = Some v -> In (k, v) l.
  Proof.
    induction l as [|[k' v'] l IH]; simpl; [discriminate|]. destruct (keq k k') eqn:E.
    - intros Hv; inversion Hv; subst. apply keq_spec in E; subst. left; reflexivity.
    - intros Hv. right. apply IH; exact Hv.
  Qed.

  Lemma get_none_notin (l : list (K * V)) k : sget l k = None -> ~ In k (map fst l).
  Proof.
    induction l as [|[k' v'] l IH]; simpl; [tauto|]. destruct (keq k k') eqn:E; [discriminate|].
    intros Hn [Hc|Hc]; [subst; rewrite keq_refl' in E; discriminate | apply IH; auto].
  Qed.

  Lemma get_in (l : list (K * V)) k v : NoDup (map fst l) -> In (k, v) l -> sget l k = Some v.
  Proof.
    induction l as [|[k' v'] l IH]; simpl; intros Hnd Hin; [tauto|].
    inversion Hnd as [|? ? Hnot Hnd']; subst. destruct Hin as [Hin|Hin].
    - inversion Hin; subst. rewrite keq_refl'. reflexivity.
    - destruct (keq k k') eqn:E; [|apply IH; auto].
      apply keq_spec in E; subst. exfalso. apply Hnot. apply (in_map fst) in Hin. exact Hin.
  Qed.

  Lemma get_perm (l l' : list (K * V)) k : Permutation l l' -> NoDup (map fst l) -> sget l k = sget l' k.
  Proof.
    intros Hp Hnd. assert (Hnd' : NoDup (map fst l')) by (eapply Permutation_NoDup; [apply Permutation_map; exact Hp | exact Hnd]).
    destruct (sget l k) as [v|] eqn:G.
    - symmetry. apply get_in; auto. eapply Permutation_in; [exact Hp|]. apply get_some_in; exact G.
    - destruct (sget l' k) as [v'|] eqn:G'; auto. exfalso. apply (get_none_notin _ _ G).
      apply get_some_in in G'. apply (in_map fst) in G'. simpl in G'.
      eapply Permutation_in; [apply Permutation_map, Permutation_sym; exact Hp | exact G'].
  Qed.

  (* the order-insensitive equality test shared by SmallMap, SmallSet, UnorderedMap, UnorderedSet *)
  Definition assoc_eq (l1 l2 : list (K * V)) : bool :=
    (length l1 =? length l2) &&
    forallb (fun kv => match sget l2 (fst kv) with Some v => veq v (snd kv) | None => false end) l1.

  Lemma assoc_eq_perm (l1 l2 : list (K * V)) : NoDup (map fst l1) -> NoDup (map fst l2) ->
    (assoc_eq l1 l2 = true <-> Permutation l1 l2).
  Proof.
    intros Hn1 Hn2. unfold assoc_eq. split.
    - intros Hh. apply andb_prop in Hh as [Hlen Hall]. apply Nat.eqb_eq in Hlen. rewrite forallb_forall in Hall.
      apply NoDup_Permutation_bis; [eapply NoDup_map_inv; exact Hn1 | lia |].
      intros [k v] Hin. specialize (Hall _ Hin). simpl in Hall.
      destruct (sget l2 k) as [v'|] eqn:G; [|discriminate]. apply veq_spec in Hall; subst. apply get_some_in; exact G.
    - intros Hp. apply andb_true_intro. split; [apply Nat.eqb_eq, Permutation_length; exact Hp|].
      apply forallb_forall. intros [k v] Hin. simpl.
      rewrite (get_in l2 k v Hn2) by (eapply Permutation_in; eauto). apply veq_spec; reflexivity.
  Qed.

  Lemma get_entry_get (l : list (K * V)) k : option_map snd (Spec.get_entry keq l k) = sget l k.
  Proof. induction l as [|[k' v'] l IH]; simpl; auto. destruct (keq k k'); simpl; auto. Qed.

  Lemma modify_keys (l : list (K * V)) k f : map fst (Spec.modify keq l k f) = map fst l.
  Proof. induction l as [|[k' v'] l IH]; simpl; auto. destruct (keq k k'); simpl; auto. f_equal; auto. Qed.

  Lemma modify_absent (l : list (K * V)) k f : sget l k = None -> Spec.modify keq l k f = l.
  Proof.
    induction l as [|[k' v'] l IH]; simpl; auto. destruct (keq k k'); [discriminate|]. intros Hn. f_equal; auto.
  Qed.

  Lemma map_values_keys (f : K -> V -> V) (l : list (K * V)) : map fst (map_values f l) = map fst l.
  Proof. unfold map_values. rewrite map_map. reflexivity. Qed.
End AssocLists.

(* ====================================================================== SmallMap Eq, OrderedMap, SortedMap *)
Section OMapProofs.
  Context {K V H : Type}.
  Variable keq : K -> K -> bool.
  Variable veq : V -> V -> bool.
  Variable heq : H -> H -> bool.
  Variable klt : K -> K -> bool.
  Variable kcmp : K -> K -> comparison.
  Variable vcmp : V -> V -> comparison.
  Variable hash : K -> H.
  Variable thr : nat.
  Variable max_ins : nat.
  Hypothesis keq_spec : forall a b, keq a b = true <-> a = b.
  Hypothesis veq_spec : forall a b, veq a b = true <-> a = b.
  Hypothesis heq_spec : forall a b, heq a b = true <-> a = b.

  Notation smap := (@smap K V H).
  Notation MInv := (@Inv K V H hash thr).
  Notation ostep := (omap_step keq heq klt hash thr max_ins).
  Notation osstep := (@om_step K V keq klt).
  Notation mstep := (@Model.step K V H keq heq klt hash thr max_ins).

  Lemma inv_nodup_keys (m : smap) : MInv m -> NoDup (map fst (to_list m)).
  Proof. intros (_ & Hnd & _). unfold to_list. rewrite keys_kv. exact Hnd. Qed.

  Lemma get_ok (m : smap) k : MInv m -> Model.get keq heq hash m k = Spec.get keq (to_list m) k.
  Proof.
    intros HI. unfold Model.get, get_hashed. rewrite (lookup_ok keq heq hash thr keq_spec heq_spec m k HI).
    rewrite (get_index_of keq). destruct (index_of keq (to_list m) k); auto.
    unfold to_list. rewrite nth_error_map. destruct (nth_error (entries m) n); reflexivity.
  Qed.

  (* the stored hashes are determined by the keys *)
  Lemma hashes_of_keys (m : smap) : MInv m -> map e_hash (entries m) = map hash (map fst (to_list m)).
  Proof.
    intros (Hh & _ & _). unfold to_list. rewrite keys_kv. unfold hashes_ok in Hh.
    induction Hh as [|e es He _ IH]; simpl; auto. rewrite He, IH. reflexivity.
  Qed.

  (* ---- PartialEq of SmallMap (and SmallSet): order-insensitive *)
  Lemma smap_eq_assoc (m1 m2 : smap) : MInv m1 -> MInv m2 ->
    smap_eq keq veq heq m1 m2 = assoc_eq keq veq (to_list m1) (to_list m2).
  Proof.
    intros H1 H2. unfold smap_eq, assoc_eq, len, to_list. rewrite !map_length. f_equal.
    destruct H1 as (Hh & _ & _). unfold hashes_ok in Hh. rewrite Forall_forall in Hh.
    symmetry. apply forallb_map_ext. intros e He. simpl. change (fst (e_kv e)) with (e_key e). change (snd (e_kv e)) with (e_val e).
    rewrite (Hh e He). change (get_hashed keq heq m2 (hash (e_key e)) (e_key e)) with (Model.get keq heq hash m2 (e_key e)).
    rewrite get_ok by assumption. reflexivity.
  Qed.

  Theorem smap_eq_is_perm (m1 m2 : smap) : MInv m1 -> MInv m2 ->
    (smap_eq keq veq heq m1 m2 = true <-> Permutation (to_list m1) (to_list m2)).
  Proof.
    intros H1 H2. rewrite smap_eq_assoc by assumption.
    apply assoc_eq_perm; auto using inv_nodup_keys.
  Qed.

  (* ---- PartialEq / Ord / Hash of OrderedMap: order-sensitive *)
  Lemma kv_eqb_spec a b : kv_eqb keq veq a b = true <-> a = b.
  Proof.
    destruct a as [k v], b as [k' v']. unfold kv_eqb. simpl. rewrite andb_true_iff, keq_spec, veq_spec.
    split; [intros [-> ->]; reflexivity | intros E; inversion E; auto].
  Qed.

  Theorem eq_ordered_is_list_eq (m1 m2 : smap) : MInv m1 -> MInv m2 ->
    (eq_ordered keq veq heq m1 m2 = true <-> to_list m1 = to_list m2).
  Proof.
    intros H1 H2. unfold eq_ordered. rewrite andb_true_iff.
    rewrite (slice_eq_spec heq heq_spec), (slice_eq_spec (kv_eqb keq veq) kv_eqb_spec).
    fold (to_list m1) (to_list m2). rewrite !hashes_of_keys by assumption. split.
    - intros [_ E]; exact E.
    - intros E. rewrite E. auto.
  Qed.

  Hypothesis kcmp_eq : forall a b, kcmp a b = Eq <-> a = b.
  Hypothesis vcmp_eq : forall a b, vcmp a b = Eq <-> a = b.

  Lemma kv_cmp_eq a b : kv_cmp kcmp vcmp a b = Eq <-> a = b.
  Proof.
    destruct a as [k v], b as [k' v']. unfold kv_cmp. simpl. split.
    - destruct (kcmp k k') eqn:E; try discriminate. intros Ev. apply kcmp_eq in E. apply vcmp_eq in Ev. subst; reflexivity.
    - intros E; inversion E; subst. rewrite (proj2 (kcmp_eq k' k') eq_refl). apply vcmp_eq; reflexivity.
  Qed.

  Theorem omap_cmp_eq (m1 m2 : smap) : omap_cmp kcmp vcmp m1 m2 = Eq <-> to_list m1 = to_list m2.
  Proof. unfold omap_cmp. apply iter_cmp_eq. exact kv_cmp_eq. Qed.

  Theorem hash_ordered_congr {S} (mix_h : S -> H -> S) (mix_v : S -> V -> S) (m1 m2 : smap) st :
    MInv m1 -> MInv m2 -> to_list m1 = to_list m2 -> hash_ordered mix_h mix_v m1 st = hash_ordered mix_h mix_v m2 st.
  Proof.
    intros H1 H2 E. unfold hash_ordered.
    assert (Hg : forall (es : list (@entry K V H)) st,
      fold_left (fun st e => mix_v (mix_h st (e_hash e)) (e_val e)) es st =
      fold_left (fun st p => mix_v (mix_h st (fst p)) (snd p)) (combine (map e_hash es) (map snd (map e_kv es))) st).
    { induction es as [|e es IH]; simpl; intros st'; auto. }
    rewrite !Hg. fold (to_list m1) (to_list m2). rewrite !hashes_of_keys by assumption. rewrite E. reflexivity.
  Qed.

  (* ---- the OrderedMap methods *)
  Lemma get_mut_ok (m : smap) k f : MInv m ->
    MInv (fst (omap_get_mut keq heq hash m k f)) /\
    to_list (fst (omap_get_mut keq heq hash m k f)) = Spec.modify keq (to_list m) k f /\
    snd (omap_get_mut keq heq hash m k f) = Spec.contains keq (to_list m) k.
  Proof.
    intros HI. unfold omap_get_mut. rewrite (lookup_ok keq heq hash thr keq_spec heq_spec m k HI).
    pose proof (lookup_cases keq keq_spec (entries m) k) as Hc. fold (to_list m) in Hc. unfold Spec.contains.
    destruct (index_of keq (to_list m) k) as [i|] eqn:I.
    - destruct Hc as [e [Hn [Hk Hg]]]. rewrite Hn, Hg. simpl. destruct HI as (Hh & Hnd & Hi). repeat split.
      + apply hashes_ok_set_val; exact Hh.
      + simpl. rewrite set_val_keys. exact Hnd.
      + simpl. destruct (index m); [unfold IdxOk in *; rewrite set_val_hashes; exact Hi | rewrite set_val_length; exact Hi].
      + unfold to_list. simpl. apply kv_modify; assumption.
    - rewrite Hc. simpl. split; [exact HI|]. split; [|reflexivity]. symmetry. apply modify_absent. exact Hc.
  Qed.

  Lemma values_mut_ok (m : smap) f : MInv m ->
    MInv (omap_values_mut f m) /\ to_list (omap_values_mut f m) = map_values f (to_list m).
  Proof.
    intros (Hh & Hnd & Hi). unfold omap_values_mut.
    set (g := fun e : @entry K V H => (e_key e, e_hash e, f (e_key e) (e_val e))).
    assert (Ek : map e_key (map g (entries m)) = map e_key (entries m)) by (rewrite map_map; reflexivity).
    assert (Eh : map e_hash (map g (entries m)) = map e_hash (entries m)) by (rewrite map_map; reflexivity).
    split; [repeat split; simpl|].
    - unfold hashes_ok in *. rewrite Forall_forall in *. intros e He. apply in_map_iff in He as [e0 [E0 He0]].
      subst e. unfold g. simpl. apply (Hh e0 He0).
    - rewrite Ek. exact Hnd.
    - destruct (index m); [unfold IdxOk in *; rewrite Eh; exact Hi | rewrite map_length; exact Hi].
    - unfold to_list, map_values. simpl. rewrite !map_map. reflexivity.
  Qed.

  Theorem omap_step_ok (m : smap) (o : omap_op K V) : MInv m ->
    MInv (fst (ostep m o)) /\ to_list (fst (ostep m o)) = fst (osstep (to_list m) o) /\
    snd (ostep m o) = snd (osstep (to_list m) o).
  Proof.
    intros HI. destruct o; simpl.
    - destruct (insert_ok keq heq klt hash thr keq_spec heq_spec m k v HI) as (H1 & H2 & H3).
      destruct (insert_hashed keq heq thr m k (hash k) v) as [m' r]; simpl in *. subst; auto.
    - destruct (shift_remove_ok keq heq hash thr keq_spec heq_spec m k HI) as (H1 & H2 & H3).
      destruct (shift_remove_hashed_entry keq heq m (hash k) k) as [m' r]; simpl in *. subst.
      rewrite (get_entry_get keq). auto.
    - destruct (step_ok keq heq klt hash thr max_ins keq_spec heq_spec m OClear HI) as (H1 & H2 & _). auto.
    - destruct (step_ok keq heq klt hash thr max_ins keq_spec heq_spec m (OEntryOrInsert k v) HI) as (H1 & H2 & H3).
      simpl in H1, H2, H3. destruct (entry_or_insert keq heq thr m k (hash k) v) as [m' r]; simpl in *.
      destruct (Spec.get keq (to_list m) k); simpl in *; inversion H3; subst; auto.
    - destruct (step_ok keq heq klt hash thr max_ins keq_spec heq_spec m (OEntryModify k f v) HI) as (H1 & H2 & H3).
      simpl in H1, H2, H3. destruct (entry_modify keq heq thr m k (hash k) f v) as [m' r]; simpl in *.
      destruct (Spec.get keq (to_list m) k); simpl in *; inversion H3; subst; auto.
    - destruct (sort_ok klt hash thr max_ins m HI); auto.
    - destruct (extend_ok keq heq klt hash thr keq_spec heq_spec l m HI); auto.
    - destruct (get_mut_ok m k f HI) as (H1 & H2 & H3).
      destruct (omap_get_mut keq heq hash m k f) as [m' b]; simpl in *. subst; auto.
    - destruct (values_mut_ok m f HI); auto.
    - destruct (with_capacity_ok (V:=V) hash thr n); auto.
    - destruct HI as (Hh & Hnd & Hi). repeat split; auto.
  Qed.

  Notation orun := (@omap_run K V H keq heq klt hash thr max_ins).

  Lemma omap_run_gen ops : forall m, MInv m ->
    MInv (fold_left (fun m o => fst (ostep m o)) ops m) /\
    to_list (fold_left (fun m o => fst (ostep m o)) ops m) = fold_left (fun l o => fst (osstep l o)) ops (to_list m).
  Proof.
    induction ops as [|o ops IH]; simpl; intros m HI; auto.
    destruct (omap_step_ok m o HI) as (H1 & H2 & _). destruct (IH _ H1) as [H3 H4]. split; auto.
    rewrite H4, H2. reflexivity.
  Qed.

  Theorem omap_inv_reachable ops : MInv (orun ops).
  Proof. apply (omap_run_gen ops _ (inv_empty hash thr)). Qed.
  Theorem omap_refines ops : to_list (orun ops) = @om_run K V keq klt ops.
  Proof. apply (omap_run_gen ops _ (inv_empty hash thr)). Qed.
  Theorem omap_ret_refines ops o : snd (ostep (orun ops) o) = snd (osstep (@om_run K V keq klt ops) o).
  Proof. rewrite <- omap_refines. apply omap_step_ok. apply omap_inv_reachable. Qed.
  Theorem omap_get_refines ops k : Model.get keq heq hash (orun ops) k = Spec.get keq (@om_run K V keq klt ops) k.
  Proof. rewrite <- omap_refines. apply get_ok. apply omap_inv_reachable. Qed.
  Theorem omap_index_of_refines ops k :
    Model.get_index_of keq heq hash (orun ops) k = Spec.index_of keq (@om_run K V keq klt ops) k.
  Proof.
    rewrite <- omap_refines. unfold Model.get_index_of. apply (lookup_ok keq heq hash thr keq_spec heq_spec).
    apply omap_inv_reachable.
  Qed.
  Theorem omap_get_index_refines (ops : list (omap_op K V)) i : Model.get_index (orun ops) i = nth_error (@om_run K V keq klt ops) i.
  Proof. rewrite <- omap_refines. unfold Model.get_index, to_list. rewrite nth_error_map. reflexivity. Qed.

  Theorem omap_eq_is_list_eq ops1 ops2 :
    omap_eq keq veq heq (orun ops1) (orun ops2) = true <-> @om_run K V keq klt ops1 = @om_run K V keq klt ops2.
  Proof. rewrite <- !omap_refines. apply eq_ordered_is_list_eq; apply omap_inv_reachable. Qed.

  (* ---- SortedMap *)
  Hypothesis klt_asym : forall a b, klt a b = true -> klt b a = false.
  Hypothesis klt_total : forall a b, klt a b = false -> klt b a = false -> a = b.
  Definition strictly_sorted (ks : list K) : Prop := Sorted (fun a b => klt a b = true) ks.

  Lemma sort_keys_strict (l : list (K * V)) : NoDup (map fst l) -> strictly_sorted (map fst (Spec.sort_keys klt l)).
  Proof.
    intros Hnd. destruct (sort_keys_sorted klt klt_asym l) as [Hp Hs].
    assert (Hnd' : NoDup (map fst (Spec.sort_keys klt l))).
    { eapply Permutation_NoDup; [apply Permutation_map, Permutation_sym; exact Hp | exact Hnd]. }
    apply adjacent_Sorted. intros i a b Ha Hb. specialize (Hs i a b Ha Hb).
    destruct (klt a b) eqn:E; auto. exfalso.
    assert (a = b) by (apply klt_total; assumption). subst b.
    rewrite NoDup_nth_error in Hnd'.
    assert (Hlt : i < length (map fst (Spec.sort_keys klt l))) by (apply nth_error_Some; rewrite Ha; discriminate).
    specialize (Hnd' i (S i) Hlt). rewrite Ha, Hb in Hnd'. specialize (Hnd' eq_refl). lia.
  Qed.

  Notation sfrom := (@sorted_from_iter K V H keq heq klt hash thr max_ins).
  Notation srun := (@sorted_run K V H keq heq klt hash thr max_ins).

  Lemma omap_from_iter_ok hint kvs :
    MInv (omap_from_iter keq heq hash thr hint kvs) /\
    to_list (omap_from_iter keq heq hash thr hint kvs) = Spec.extend keq [] kvs.
  Proof.
    unfold omap_from_iter. destruct (with_capacity_ok (V:=V) hash thr hint) as [Hi Hl].
    destruct (extend_ok keq heq klt hash thr keq_spec heq_spec kvs _ Hi) as [H1 H2]. split; auto.
    rewrite H2, Hl. reflexivity.
  Qed.

  Lemma sorted_from_iter_ok hint kvs :
    MInv (sfrom hint kvs) /\ to_list (sfrom hint kvs) = sorted_spec_from_iter keq klt kvs /\
    strictly_sorted (map fst (to_list (sfrom hint kvs))).
  Proof.
    unfold sorted_from_iter, sorted_from, sorted_spec_from_iter.
    destruct (omap_from_iter_ok hint kvs) as [H1 H2].
    destruct (sort_ok klt hash thr max_ins _ H1) as [H3 H4]. rewrite H2 in H4.
    split; auto. split; auto. rewrite H4. apply sort_keys_strict. rewrite <- H2. apply inv_nodup_keys; exact H1.
  Qed.

  Lemma sorted_step_keys (m : smap) (o : sorted_op K V) : MInv m ->
    map fst (to_list (fst (sorted_step keq heq klt hash thr max_ins m o))) = map fst (to_list m).
  Proof.
    intros HI. unfold sorted_step. destruct (omap_step_ok m (sorted_to_omap o) HI) as (_ & H2 & _). rewrite H2.
    destruct o; simpl; [apply modify_keys | apply map_values_keys].
  Qed.

  Lemma sorted_run_gen ops : forall m, MInv m -> strictly_sorted (map fst (to_list m)) ->
    let m' := fold_left (fun m o => fst (sorted_step keq heq klt hash thr max_ins m o)) ops m in
    MInv m' /\ strictly_sorted (map fst (to_list m')) /\
    to_list m' = fold_left (fun l o => fst (osstep l (sorted_to_omap o))) ops (to_list m).
  Proof.
    induction ops as [|o ops IH]; cbv zeta in *; simpl; intros m HI Hs; auto.
    pose proof (sorted_step_keys m o HI) as Hk. unfold sorted_step in *.
    destruct (omap_step_ok m (sorted_to_omap o) HI) as (H1 & H2 & _).
    rewrite <- Hk in Hs. destruct (IH _ H1 Hs) as (H3 & H4 & H5). split; [exact H3|]. split; [exact H4|].
    rewrite H5, H2. reflexivity.
  Qed.

  (* after construction and any sequence of value writes: invariant, keys strictly increasing, list specification *)
  Theorem sorted_map_inv_reachable hint kvs ops :
    MInv (srun hint kvs ops) /\ strictly_sorted (map fst (to_list (srun hint kvs ops))).
  Proof.
    destruct (sorted_from_iter_ok hint kvs) as (H1 & _ & H3).
    destruct (sorted_run_gen ops _ H1 H3) as (H4 & H5 & _). split; assumption.
  Qed.
  Theorem sorted_map_refines hint kvs ops : to_list (srun hint kvs ops) = sorted_spec_run keq klt kvs ops.
  Proof.
    destruct (sorted_from_iter_ok hint kvs) as (H1 & H2 & H3).
    destruct (sorted_run_gen ops _ H1 H3) as (_ & _ & H6). unfold sorted_run, sorted_spec_run. rewrite <- H2. exact H6.
  Qed.
  Theorem sorted_map_get_refines hint kvs ops k :
    Model.get keq heq hash (srun hint kvs ops) k = Spec.get keq (sorted_spec_run keq klt kvs ops) k.
  Proof. rewrite <- (sorted_map_refines hint). apply get_ok. apply sorted_map_inv_reachable. Qed.
  (* the constructor yields a permutation of the de-duplicated input (last value of a key wins, Spec.extend) *)
  Theorem sorted_map_from_iter_perm hint kvs : Permutation (to_list (sfrom hint kvs)) (Spec.extend keq [] kvs).
  Proof.
    destruct (sorted_from_iter_ok hint kvs) as (_ & H2 & _). rewrite H2. unfold sorted_spec_from_iter.
    apply (sort_keys_sorted klt klt_asym).
  Qed.
End OMapProofs.

(* ====================================================================== SortedSet *)
Section SortedSetProofs.
  Context {K H : Type}.
  Variable keq : K -> K -> bool.
  Variable heq : H -> H -> bool.
  Variable klt : K -> K -> bool.
  Variable hash : K -> H.
  Variable thr : nat.
  Variable max_ins : nat.
  Hypothesis keq_spec : forall a b, keq a b = true <-> a = b.
  Hypothesis heq_spec : forall a b, heq a b = true <-> a = b.
  Hypothesis klt_asym : forall a b, klt a b = true -> klt b a = false.
  Hypothesis klt_total : forall a b, klt a b = false -> klt b a = false -> a = b.
  Notation ssfrom := (@sorted_set_from_iter K H keq heq klt hash thr max_ins).

  Theorem sorted_set_from_iter_ok hint ks :
    @Inv K unit H hash thr (ssfrom hint ks) /\
    set_to_list (ssfrom hint ks) = s_sort klt (s_extend keq [] ks) /\
    strictly_sorted klt (set_to_list (ssfrom hint ks)).
  Proof.
    unfold sorted_set_from_iter, set_sort.
    destruct (set_from_iter_ok keq heq klt hash thr max_ins keq_spec heq_spec hint ks) as [H1 H2].
    destruct (sort_ok klt hash thr max_ins _ H1) as [H3 H4].
    split; [exact H3|]. unfold set_to_list in *. rewrite H4. split.
    - rewrite keys_sort, H2. reflexivity.
    - apply (sort_keys_strict klt klt_asym klt_total). apply (inv_nodup_keys hash thr). exact H1.
  Qed.

  (* membership / positional lookups of a sorted set are those of its sorted key list *)
  Theorem sorted_set_lookups hint ks k i :
    let s := ssfrom hint ks in let l := s_sort klt (s_extend keq [] ks) in
    set_contains keq heq hash s k = s_mem keq l k /\ set_get keq heq hash s k = s_find keq l k /\
    set_get_index s i = nth_error l i.
  Proof.
    intros s l. destruct (sorted_set_from_iter_ok hint ks) as (H1 & H2 & _). fold s in H1, H2. unfold l. rewrite <- H2.
    repeat split.
    - apply (set_contains_ok keq heq hash thr keq_spec heq_spec); exact H1.
    - apply (set_get_ok keq heq hash thr keq_spec heq_spec); exact H1.
    - apply set_get_index_ok'.
  Qed.
End SortedSetProofs.

(* ====================================================================== UnorderedMap / UnorderedSet *)
Lemma Sorted_map_inv {A B} (g : A -> B) (R : B -> B -> Prop) (l : list A) :
  Sorted R (map g l) -> Sorted (fun a b => R (g a) (g b)) l.
Proof.
  induction l as [|a l IH]; simpl; intros Hs; [constructor|]. inversion Hs as [|? ? Hs' Hhd]; subst.
  constructor; [apply IH; exact Hs'|]. destruct l; simpl in *; constructor. inversion Hhd; assumption.
Qed.

Section UnorderedProofs.
  Context {K V H : Type}.
  Variable keq : K -> K -> bool.
  Variable veq : V -> V -> bool.
  Variable heq : H -> H -> bool.
  Variable klt : K -> K -> bool.
  Variable hash : K -> H.
  Hypothesis keq_spec : forall a b, keq a b = true <-> a = b.
  Hypothesis veq_spec : forall a b, veq a b = true <-> a = b.
  Hypothesis heq_spec : forall a b, heq a b = true <-> a = b.

  Notation utable := (@utable K V H).
  Notation uslot := (@uslot K V H).
  Notation sget := (Spec.get keq).
  Notation ul := (@u_to_list K V H).
  Notation find_entry t k := (ut_find_entry heq t (hash k) (keq k)).

  Definition slot_ok (s : uslot) : Prop := fst s = hash (fst (snd s)).
  Definition UInv (t : utable) : Prop := Forall slot_ok t /\ NoDup (map fst (ul t)).

  Lemma u_match_keq (s : uslot) k : slot_ok s -> u_match heq (hash k) (keq k) s = keq k (fst (snd s)).
  Proof.
    unfold slot_ok, u_match. intros ->. destruct (keq k (fst (snd s))) eqn:E; [|apply andb_false_r].
    apply keq_spec in E. subst k. rewrite (proj2 (heq_spec _ _) eq_refl). reflexivity.
  Qed.

  (* what find_entry finds *)
  Lemma find_entry_spec (t : utable) k : Forall slot_ok t ->
    match find_entry t k with
    | Some (pre, x, post) => t = pre ++ x :: post /\ fst (snd x) = k /\ sget (ul pre) k = None
    | None => sget (ul t) k = None
    end.
  Proof.
    induction t as [|s t IH]; simpl; intros Hok; [reflexivity|]. inversion Hok as [|? ? Hs Hok']; subst.
    rewrite (u_match_keq s k Hs). destruct s as [h [k' v']]. simpl in *. destruct (keq k k') eqn:E.
    - apply keq_spec in E. subst. repeat split; reflexivity.
    - specialize (IH Hok'). destruct (find_entry t k) as [[[pre x] post]|].
      + destruct IH as (Ht & Hk & Hn). subst t. simpl. rewrite E. repeat split; auto.
      + exact IH.
  Qed.

  (* association lists around a split point *)
  Section Split.
    Variables (pre post : list (K * V)) (k : K) (v0 : V).
    Hypothesis Hpre : sget pre k = None.
    Lemma get_split : sget (pre ++ (k, v0) :: post) k = Some v0.
    Proof. induction pre as [|[k' v'] p IH]; simpl in *; [rewrite (keq_refl' keq keq_spec); reflexivity|].
           destruct (keq k k'); [discriminate|]. apply IH; exact Hpre. Qed.
    Lemma insert_split v : Spec.insert keq (pre ++ (k, v0) :: post) k v = pre ++ (k, v) :: post.
    Proof. induction pre as [|[k' v'] p IH]; simpl in *; [rewrite (keq_refl' keq keq_spec); reflexivity|].
           destruct (keq k k'); [discriminate|]. f_equal. apply IH; exact Hpre. Qed.
    Lemma remove_split : Spec.remove keq (pre ++ (k, v0) :: post) k = pre ++ post.
    Proof. induction pre as [|[k' v'] p IH]; simpl in *; [rewrite (keq_refl' keq keq_spec); reflexivity|].
           destruct (keq k k'); [discriminate|]. f_equal. apply IH; exact Hpre. Qed.
    Lemma modify_split f : Spec.modify keq (pre ++ (k, v0) :: post) k f = pre ++ (k, f v0) :: post.
    Proof. induction pre as [|[k' v'] p IH]; simpl in *; [rewrite (keq_refl' keq keq_spec); reflexivity|].
           destruct (keq k k'); [discriminate|]. f_equal. apply IH; exact Hpre. Qed.
  End Split.

  Lemma insert_absent (l : list (K * V)) k v : sget l k = None -> Spec.insert keq l k v = l ++ [(k, v)].
  Proof.
    induction l as [|[k' v'] l IH]; simpl; auto. destruct (keq k k'); [discriminate|]. intros Hn. f_equal; auto.
  Qed.

  Lemma remove_absent (l : list (K * V)) k : sget l k = None -> Spec.remove keq l k = l.
  Proof.
    induction l as [|[k' v'] l IH]; simpl; auto. destruct (keq k k'); [discriminate|]. intros Hn. f_equal; auto.
  Qed.

  Lemma contains_get (l : list (K * V)) k : Spec.contains keq l k = is_some (sget l k).
  Proof. unfold Spec.contains. destruct (sget l k); reflexivity. Qed.

  Lemma ul_app (a b : utable) : ul (a ++ b) = ul a ++ ul b.
  Proof. unfold u_to_list. apply map_app. Qed.

  (* replacing the value of the found slot keeps the invariant *)
  Lemma uinv_update (pre post : utable) (x : uslot) v :
    UInv (pre ++ x :: post) -> UInv (pre ++ (fst x, (fst (snd x), v)) :: post).
  Proof.
    intros [Hok Hnd]. split.
    - apply Forall_app in Hok as [H1 H2]. inversion H2; subst. apply Forall_app. split; auto.
    - rewrite ul_app, map_app in *. exact Hnd.
  Qed.
  Lemma uinv_remove (pre post : utable) (x : uslot) : UInv (pre ++ x :: post) -> UInv (pre ++ post).
  Proof.
    intros [Hok Hnd]. split.
    - apply Forall_app in Hok as [H1 H2]. inversion H2; subst. apply Forall_app. split; auto.
    - rewrite ul_app, map_app in *. simpl in Hnd. eapply NoDup_remove_1; exact Hnd.
  Qed.
  Lemma uinv_push (t : utable) k v : UInv t -> sget (ul t) k = None -> UInv (ut_insert_unique t (hash k) (k, v)).
  Proof.
    intros [Hok Hnd] Hn. unfold ut_insert_unique. split.
    - apply Forall_app. split; auto. constructor; [reflexivity|constructor].
    - rewrite ul_app, map_app. simpl. eapply Permutation_NoDup; [apply Permutation_cons_append|].
      constructor; auto. apply (get_none_notin keq keq_spec); exact Hn.
  Qed.

  Ltac with_entry t k Hok :=
    let Hf := fresh "Hf" in
    pose proof (find_entry_spec t k Hok) as Hf;
    destruct (ut_find_entry heq t (hash k) (keq k)) as [[[pre [h [k0 v0]]] post]|];
    [ destruct Hf as (Ht & Hk & Hn); simpl in Hk; subst k0; subst t;
      cbn [fst snd]; rewrite ?ul_app; cbn [fst snd u_to_list map]; change (map snd pre) with (ul pre) in *; change (map snd post) with (ul post) in * | ].

  Lemma u_get_ok (t : utable) k : Forall slot_ok t -> u_get keq heq hash t k = sget (ul t) k.
  Proof.
    intros Hok. unfold u_get, ut_find. with_entry t k Hok.
    - rewrite get_split by assumption. reflexivity.
    - rewrite Hf. reflexivity.
  Qed.

  Lemma u_insert_ok (t : utable) k v : UInv t ->
    UInv (fst (u_insert keq heq hash t k v)) /\ ul (fst (u_insert keq heq hash t k v)) = Spec.insert keq (ul t) k v /\
    snd (u_insert keq heq hash t k v) = sget (ul t) k.
  Proof.
    intros HI. pose proof HI as [Hok _]. unfold u_insert. with_entry t k Hok.
    - split; [apply (uinv_update pre post (h, (k, v0)) v HI)|].
      rewrite insert_split, get_split by assumption. auto.
    - simpl. split; [apply uinv_push; assumption|]. unfold ut_insert_unique. rewrite ul_app, insert_absent by assumption. auto.
  Qed.

  Lemma u_remove_ok (t : utable) k : UInv t ->
    UInv (fst (u_remove keq heq hash t k)) /\ ul (fst (u_remove keq heq hash t k)) = Spec.remove keq (ul t) k /\
    snd (u_remove keq heq hash t k) = sget (ul t) k.
  Proof.
    intros HI. pose proof HI as [Hok _]. unfold u_remove. with_entry t k Hok.
    - split; [apply (uinv_remove pre post _ HI)|]. rewrite remove_split, get_split by assumption. auto.
    - simpl. split; auto. rewrite Hf. split; auto. symmetry. apply remove_absent. exact Hf.
  Qed.

  Lemma u_get_mut_ok (t : utable) k f : UInv t ->
    UInv (fst (u_get_mut keq heq hash t k f)) /\ ul (fst (u_get_mut keq heq hash t k f)) = Spec.modify keq (ul t) k f /\
    snd (u_get_mut keq heq hash t k f) = Spec.contains keq (ul t) k.
  Proof.
    intros HI. pose proof HI as [Hok _]. unfold u_get_mut. rewrite contains_get. with_entry t k Hok.
    - split; [apply (uinv_update pre post (h, (k, v0)) (f v0) HI)|].
      rewrite modify_split, get_split by assumption. auto.
    - simpl. rewrite Hf. split; auto. split; auto. symmetry. apply modify_absent. exact Hf.
  Qed.

  Lemma u_entry_or_insert_ok (t : utable) k v : UInv t ->
    let r := u_entry_or_insert keq heq hash t k v in let s := us_step keq (ul t) (UEntryOrInsert k v) in
    UInv (fst r) /\ ul (fst r) = fst s /\ MRVal (snd r) = snd s.
  Proof.
    intros HI. pose proof HI as [Hok _]. unfold u_entry_or_insert. simpl. with_entry t k Hok.
    - rewrite get_split by assumption. simpl. auto.
    - rewrite Hf. simpl. split; [apply uinv_push; assumption|]. unfold ut_insert_unique. rewrite ul_app. auto.
  Qed.

  Lemma u_entry_modify_ok (t : utable) k f v : UInv t ->
    let r := u_entry_modify keq heq hash t k f v in let s := us_step keq (ul t) (UEntryModify k f v) in
    UInv (fst r) /\ ul (fst r) = fst s /\ MRVal (snd r) = snd s.
  Proof.
    intros HI. pose proof HI as [Hok _]. unfold u_entry_modify. simpl. with_entry t k Hok.
    - rewrite get_split by assumption. simpl. split; [apply (uinv_update pre post (h, (k, v0)) (f v0) HI)|].
      rewrite modify_split by assumption. auto.
    - rewrite Hf. simpl. split; [apply uinv_push; assumption|]. unfold ut_insert_unique. rewrite ul_app. auto.
  Qed.

  Lemma u_retain_ok f (t : utable) : UInv t -> UInv (u_retain f t) /\ ul (u_retain f t) = Spec.retain f (ul t).
  Proof.
    intros [Hok Hnd]. unfold u_retain, Spec.retain.
    assert (Hl : ul (flat_map (fun s : uslot => match f (fst (snd s)) (snd (snd s)) with
                                              | Some v' => [(fst s, (fst (snd s), v'))] | None => [] end) t)
                 = flat_map (fun kv => match f (fst kv) (snd kv) with Some v' => [(fst kv, v')] | None => [] end) (ul t)).
    { clear. induction t as [|s t IH]; [reflexivity|]. change (ul (s :: t)) with (snd s :: ul t). cbn [flat_map].
      rewrite ul_app, IH. f_equal. destruct s as [h [k v]]; simpl. destruct (f k v); reflexivity. }
    split; [split|exact Hl].
    - clear Hnd Hl. induction Hok as [|s t Hs _ IH]; [constructor|]. cbn [flat_map]. apply Forall_app. split; auto.
      destruct (f (fst (snd s)) (snd (snd s))); constructor; [exact Hs|constructor].
    - unfold Wrappers.uslot in Hl. rewrite Hl. clear Hl Hok. induction (ul t) as [|[k v] l IH]; [constructor|]. simpl in Hnd.
      inversion Hnd as [|? ? Hnot Hnd']; subst. cbn [flat_map fst snd]. rewrite map_app.
      assert (Hsub : forall x, In x (map fst (flat_map (fun kv : K * V => match f (fst kv) (snd kv) with
                                           | Some v' => [(fst kv, v')] | None => [] end) l)) -> In x (map fst l)).
      { intros x Hx. apply in_map_iff in Hx as [[k1 v1] [E Hin]]. simpl in E; subst. apply in_flat_map in Hin as [[k2 v2] [Hin2 Hx2]].
        simpl in Hx2. destruct (f k2 v2); simpl in Hx2; [|tauto]. destruct Hx2 as [Hx2|[]]. inversion Hx2; subst.
        apply in_map_iff. exists (x, v2); auto. }
      destruct (f k v); simpl; [|apply IH; exact Hnd']. constructor; [|apply IH; exact Hnd'].
      intros Hc. apply Hnot. apply Hsub. exact Hc.
  Qed.

  Lemma u_values_mut_ok f (t : utable) : UInv t -> UInv (u_values_mut f t) /\ ul (u_values_mut f t) = map_values f (ul t).
  Proof.
    intros [Hok Hnd]. unfold u_values_mut, map_values, u_to_list. split; [split|].
    - rewrite Forall_forall in *. intros s Hs. apply in_map_iff in Hs as [s0 [E Hs0]]. subst s. apply (Hok s0 Hs0).
    - unfold u_to_list in *. rewrite !map_map in *. exact Hnd.
    - rewrite !map_map. reflexivity.
  Qed.

  Lemma u_extend_ok kvs : forall t, UInv t ->
    UInv (u_extend keq heq hash t kvs) /\ ul (u_extend keq heq hash t kvs) = Spec.extend keq (ul t) kvs.
  Proof.
    unfold u_extend, Spec.extend. induction kvs as [|[k v] kvs IH]; simpl; intros t HI; auto.
    destruct (u_insert_ok t k v HI) as (H1 & H2 & _). destruct (IH _ H1) as [H3 H4]. split; auto. rewrite H4, H2. reflexivity.
  Qed.

  Lemma uinv_nil : UInv [].
  Proof. split; constructor. Qed.

  Notation ustep := (u_step keq heq hash).
  Notation usstep := (@us_step K V keq).

  Theorem u_step_ok (t : utable) (o : umap_op K V) : UInv t ->
    UInv (fst (ustep t o)) /\ ul (fst (ustep t o)) = fst (usstep (ul t) o) /\ snd (ustep t o) = snd (usstep (ul t) o).
  Proof.
    intros HI. destruct o; simpl.
    - destruct (u_insert_ok t k v HI) as (H1 & H2 & H3). destruct (u_insert keq heq hash t k v); simpl in *. subst; auto.
    - destruct (u_remove_ok t k HI) as (H1 & H2 & H3). destruct (u_remove keq heq hash t k); simpl in *. subst; auto.
    - destruct (u_retain_ok f t HI); auto.
    - pose proof (u_entry_or_insert_ok t k v HI) as H0. simpl in H0.
      destruct (u_entry_or_insert keq heq hash t k v); simpl in *. exact H0.
    - pose proof (u_entry_modify_ok t k f v HI) as H0. simpl in H0.
      destruct (u_entry_modify keq heq hash t k f v); simpl in *. exact H0.
    - destruct (u_get_mut_ok t k f HI) as (H1 & H2 & H3). destruct (u_get_mut keq heq hash t k f); simpl in *. subst; auto.
    - destruct (u_values_mut_ok f t HI); auto.
    - split; [apply uinv_nil|auto].
    - destruct (u_extend_ok l t HI); auto.
    - unfold u_map_values. destruct (u_extend_ok (map (fun kv => (fst kv, f (snd kv))) (ul t)) _ uinv_nil); auto.
    - split; [apply uinv_nil|auto].
    - auto.
  Qed.

  Notation urun := (@u_run K V H keq heq hash).
  Notation usrun := (@us_run K V keq).

  Lemma u_run_gen ops : forall t, UInv t ->
    UInv (fold_left (fun t o => fst (ustep t o)) ops t) /\
    ul (fold_left (fun t o => fst (ustep t o)) ops t) = fold_left (fun l o => fst (usstep l o)) ops (ul t).
  Proof.
    induction ops as [|o ops IH]; simpl; intros t HI; auto.
    destruct (u_step_ok t o HI) as (H1 & H2 & _). destruct (IH _ H1) as [H3 H4]. split; auto. rewrite H4, H2. reflexivity.
  Qed.
  Theorem u_inv_reachable ops : UInv (urun ops).
  Proof. apply (u_run_gen ops _ uinv_nil). Qed.
  Theorem u_refines_eq ops : ul (urun ops) = usrun ops.
  Proof. apply (u_run_gen ops _ uinv_nil). Qed.
  Theorem u_ret_refines ops o : snd (ustep (urun ops) o) = snd (usstep (usrun ops) o).
  Proof. rewrite <- u_refines_eq. apply u_step_ok. apply u_inv_reachable. Qed.

  (* what is claimed about a history: the content, as a bag (the order of hashbrown's buckets carries no meaning) *)
  Theorem u_refines ops : UInv (urun ops) /\ Permutation (ul (urun ops)) (usrun ops).
  Proof. split; [apply u_inv_reachable | rewrite u_refines_eq; apply Permutation_refl]. Qed.
  Theorem u_get_refines ops k :
    u_get keq heq hash (urun ops) k = sget (usrun ops) k /\
    u_contains_key keq heq hash (urun ops) k = Spec.contains keq (usrun ops) k /\
    u_len (urun ops) = length (usrun ops).
  Proof.
    rewrite <- u_refines_eq. destruct (u_inv_reachable ops) as [Hok _]. unfold u_contains_key.
    rewrite u_get_ok by assumption. rewrite contains_get. repeat split. unfold u_len, u_to_list. rewrite map_length. reflexivity.
  Qed.

  (* ---- observables of ANY table satisfying the invariant; none depends on the order of the slots *)
  Theorem u_get_perm (t1 t2 : utable) k : UInv t1 -> UInv t2 -> Permutation (ul t1) (ul t2) ->
    u_get keq heq hash t1 k = u_get keq heq hash t2 k.
  Proof.
    intros [H1 N1] [H2 N2] Hp. rewrite !u_get_ok by assumption. apply (get_perm keq keq_spec); assumption.
  Qed.

  Lemma u_eq_assoc (t1 t2 : utable) : UInv t1 -> UInv t2 ->
    u_eq keq veq heq hash t1 t2 = assoc_eq keq veq (ul t1) (ul t2).
  Proof.
    intros [H1 _] [H2 _]. unfold u_eq, assoc_eq, u_len, u_to_list. rewrite !map_length. f_equal.
    apply forallb_ext'. intros kv. fold (ul t2). rewrite u_get_ok by assumption. reflexivity.
  Qed.

  Theorem u_eq_is_perm (t1 t2 : utable) : UInv t1 -> UInv t2 ->
    (u_eq keq veq heq hash t1 t2 = true <-> Permutation (ul t1) (ul t2)).
  Proof.
    intros I1 I2. rewrite u_eq_assoc by assumption. destruct I1 as [_ N1], I2 as [_ N2].
    apply assoc_eq_perm; assumption.
  Qed.

  Theorem u_hash_perm {S} (eh : K -> V -> S) (add : S -> S -> S) (zero : S) (t1 t2 : utable) :
    (forall s a b, add (add s a) b = add (add s b) a) ->
    Permutation (ul t1) (ul t2) -> u_hash eh add zero t1 = u_hash eh add zero t2.
  Proof.
    intros Hsw Hp. pose proof (Permutation_length Hp) as Hl. unfold u_to_list in Hl. rewrite !map_length in Hl.
    unfold u_hash, u_len. f_equal; [exact Hl|].
    generalize zero. induction Hp; intros z; simpl; auto.
    - rewrite Hsw. reflexivity.
    - rewrite IHHp1. apply IHHp2.
  Qed.

  Hypothesis klt_asym : forall a b, klt a b = true -> klt b a = false.
  Hypothesis klt_total : forall a b, klt a b = false -> klt b a = false -> a = b.
  Hypothesis klt_trans : forall a b c, klt a b = true -> klt b c = true -> klt a c = true.

  Theorem u_entries_sorted_ok (t : utable) : UInv t ->
    Permutation (u_entries_sorted klt t) (ul t) /\ strictly_sorted klt (map fst (u_entries_sorted klt t)).
  Proof.
    intros [_ Hnd]. unfold u_entries_sorted. split; [apply isort_perm|].
    apply (sort_keys_strict klt klt_asym klt_total). exact Hnd.
  Qed.

  (* entries_sorted is THE sorted sequence of the abstract map: it does not depend on the slot order *)
  Theorem u_entries_sorted_canonical (t1 t2 : utable) : UInv t1 -> UInv t2 -> Permutation (ul t1) (ul t2) ->
    u_entries_sorted klt t1 = u_entries_sorted klt t2.
  Proof.
    intros I1 I2 Hp. destruct (u_entries_sorted_ok t1 I1) as [P1 S1]. destruct (u_entries_sorted_ok t2 I2) as [P2 S2].
    set (R := fun a b : K * V => klt (fst a) (fst b) = true).
    assert (HT : Relations_1.Transitive R) by (intros a b c; unfold R; apply klt_trans).
    apply (strict_sorted_unique R).
    - intros a Ha. unfold R in Ha. pose proof (klt_asym _ _ Ha) as Hb. rewrite Ha in Hb. discriminate.
    - intros a b c; unfold R; apply klt_trans.
    - apply Sorted_StronglySorted; auto. apply (Sorted_map_inv fst (fun a b => klt a b = true)). exact S1.
    - apply Sorted_StronglySorted; auto. apply (Sorted_map_inv fst (fun a b => klt a b = true)). exact S2.
    - intros x. split; intros Hx.
      + eapply Permutation_in; [apply Permutation_sym; exact P2|]. eapply Permutation_in; [exact Hp|].
        eapply Permutation_in; [exact P1 | exact Hx].
      + eapply Permutation_in; [apply Permutation_sym; exact P1|]. eapply Permutation_in; [apply Permutation_sym; exact Hp|].
        eapply Permutation_in; [exact P2 | exact Hx].
  Qed.
End UnorderedProofs.

Section UnorderedSetProofs.
  Context {K H : Type}.
  Variable keq : K -> K -> bool.
  Variable heq : H -> H -> bool.
  Variable klt : K -> K -> bool.
  Variable hash : K -> H.
  Hypothesis keq_spec : forall a b, keq a b = true <-> a = b.
  Hypothesis heq_spec : forall a b, heq a b = true <-> a = b.
  Notation uset := (@uset K H).
  Notation USInv := (@UInv K unit H hash).

  Lemma uset_insert_ok (t : uset) k : USInv t ->
    USInv (fst (uset_insert keq heq hash t k)) /\
    uset_to_list (fst (uset_insert keq heq hash t k)) = s_insert keq (uset_to_list t) k /\
    snd (uset_insert keq heq hash t k) = negb (s_mem keq (uset_to_list t) k).
  Proof.
    intros HI. unfold uset_insert, uset_to_list. destruct (u_insert_ok keq heq hash keq_spec heq_spec t k tt HI) as (H1 & H2 & H3).
    destruct (u_insert keq heq hash t k tt) as [t' r]; simpl in *. subst r. rewrite H2, keys_insert, keys_get.
    split; auto. split; auto. destruct (s_mem keq (map fst (u_to_list t)) k); reflexivity.
  Qed.

  Lemma uset_remove_ok (t : uset) k : USInv t ->
    USInv (fst (uset_remove keq heq hash t k)) /\
    uset_to_list (fst (uset_remove keq heq hash t k)) = s_remove keq (uset_to_list t) k /\
    snd (uset_remove keq heq hash t k) = s_mem keq (uset_to_list t) k.
  Proof.
    intros HI. unfold uset_remove, uset_to_list. destruct (u_remove_ok keq heq hash keq_spec heq_spec t k HI) as (H1 & H2 & H3).
    destruct (u_remove keq heq hash t k) as [t' r]; simpl in *. subst r. rewrite H2, keys_remove, keys_get.
    split; auto. split; auto. destruct (s_mem keq (map fst (u_to_list t)) k); reflexivity.
  Qed.

  Lemma uset_contains_ok (t : uset) k : USInv t -> uset_contains keq heq hash t k = s_mem keq (uset_to_list t) k.
  Proof.
    intros [Hok _]. unfold uset_contains, u_contains_key, uset_to_list. rewrite (u_get_ok keq heq hash keq_spec heq_spec) by assumption.
    rewrite keys_get. destruct (s_mem keq (map fst (u_to_list t)) k); reflexivity.
  Qed.

  Lemma uset_from_iter_ok ks :
    USInv (uset_from_iter keq heq hash ks) /\ uset_to_list (uset_from_iter keq heq hash ks) = s_extend keq [] ks.
  Proof.
    unfold uset_from_iter, u_from_iter, uset_to_list, u_new.
    destruct (u_extend_ok keq heq hash keq_spec heq_spec (map (fun k => (k, tt)) ks) _ (uinv_nil hash)) as [H1 H2].
    split; auto. rewrite H2. apply (keys_extend keq ks []).
  Qed.

  Lemma pairs_perm (l1 l2 : list (K * unit)) : Permutation (map fst l1) (map fst l2) -> Permutation l1 l2.
  Proof.
    assert (E : forall l : list (K * unit), l = map (fun k => (k, tt)) (map fst l)).
    { induction l as [|[k []] l IH]; simpl; [reflexivity|]. f_equal. exact IH. }
    intros Hp. rewrite (E l1), (E l2). apply Permutation_map. exact Hp.
  Qed.

  (* every UnorderedSet method keeps the invariant and acts on the key bag as the set specification says *)
  Theorem uset_ops_ok (t : uset) k : USInv t ->
    (USInv (fst (uset_insert keq heq hash t k)) /\
     uset_to_list (fst (uset_insert keq heq hash t k)) = s_insert keq (uset_to_list t) k /\
     snd (uset_insert keq heq hash t k) = negb (s_mem keq (uset_to_list t) k)) /\
    (USInv (fst (uset_remove keq heq hash t k)) /\
     uset_to_list (fst (uset_remove keq heq hash t k)) = s_remove keq (uset_to_list t) k /\
     snd (uset_remove keq heq hash t k) = s_mem keq (uset_to_list t) k) /\
    uset_contains keq heq hash t k = s_mem keq (uset_to_list t) k /\
    USInv (uset_clear t).
  Proof.
    intros HI. split; [apply uset_insert_ok; exact HI|]. split; [apply uset_remove_ok; exact HI|].
    split; [apply uset_contains_ok; exact HI | apply uinv_nil].
  Qed.

  Theorem uset_eq_is_perm (t1 t2 : uset) : USInv t1 -> USInv t2 ->
    (uset_eq keq heq hash t1 t2 = true <-> Permutation (uset_to_list t1) (uset_to_list t2)).
  Proof.
    intros I1 I2. unfold uset_eq, uset_to_list.
    rewrite (u_eq_is_perm keq (fun _ _ : unit => true) heq hash keq_spec) by
      (try assumption; intros [] []; split; reflexivity).
    split; [apply Permutation_map | apply pairs_perm].
  Qed.

  Hypothesis klt_asym : forall a b, klt a b = true -> klt b a = false.
  Hypothesis klt_total : forall a b, klt a b = false -> klt b a = false -> a = b.
  Theorem uset_entries_sorted_ok (t : uset) : USInv t ->
    Permutation (uset_entries_sorted klt t) (uset_to_list t) /\ strictly_sorted klt (uset_entries_sorted klt t).
  Proof.
    intros [_ Hnd]. unfold uset_entries_sorted, uset_to_list. split; [apply isort_perm|].
    pose proof (sort_keys_strict klt klt_asym klt_total (u_to_list t) Hnd) as Hs.
    rewrite keys_sort in Hs. exact Hs.
  Qed.
End UnorderedSetProofs.

(* ====================================================================== sorting/insertion.rs on lists *)
Section InsertionSortProofs.
  Context {X : Type}.
  Variable less : X -> X -> bool.
  (* the `less` closure of Vec2::sort_insertion_by seen on the zipped list *)
  Definition lless (l : list X) (i j : nat) : bool :=
    match nth_error l i, nth_error l j with Some x, Some y => less x y | _, _ => false end.
  Notation ins := (ins_right less).
  Notation lstep := (insertion_step lless (@slice_swap_shift X)).

  (* how many elements of the reversed sorted prefix the new element passes *)
  Fixpoint cnt (x : X) (revp : list X) : nat :=
    match revp with [] => 0 | y :: r => if less x y then S (cnt x r) else 0 end.

  Lemma cnt_le x revp : cnt x revp <= length revp.
  Proof. induction revp as [|y r IH]; simpl; auto. destruct (less x y); lia. Qed.

  Lemma ins_right_cnt x revp : ins x revp = firstn (cnt x revp) revp ++ x :: skipn (cnt x revp) revp.
  Proof. induction revp as [|y r IH]; simpl; auto. destruct (less x y); simpl; [rewrite IH at 1|]; reflexivity. Qed.

  Lemma firstn_S_nth (p : list X) j y : nth_error p j = Some y -> firstn (S j) p = firstn j p ++ [y].
  Proof.
    revert j; induction p as [|a p IH]; intros [|j] Hn; simpl in *; try discriminate.
    - inversion Hn; reflexivity.
    - f_equal. apply IH; exact Hn.
  Qed.

  Lemma drop_nth_app (p rest : list X) x : drop_nth (length p) (p ++ x :: rest) = p ++ rest.
  Proof. induction p as [|a p IH]; simpl; auto. f_equal; exact IH. Qed.

  Lemma nth_error_mid (p rest : list X) x : nth_error (p ++ x :: rest) (length p) = Some x.
  Proof. rewrite nth_error_app2 by lia. rewrite Nat.sub_diag. reflexivity. Qed.

  Lemma lless_mid (p rest : list X) x j y : nth_error p j = Some y -> lless (p ++ x :: rest) (length p) j = less x y.
  Proof.
    intros N. assert (j < length p) by (apply nth_error_Some; rewrite N; discriminate).
    unfold lless. rewrite nth_error_mid, nth_error_app1 by lia. rewrite N. reflexivity.
  Qed.

  Lemma fip_cnt (p rest : list X) x j : j <= length p ->
    find_insertion_point lless (p ++ x :: rest) (length p) j = j - cnt x (rev (firstn j p)).
  Proof.
    induction j as [|j IH]; intros Hj; [reflexivity|]. simpl find_insertion_point.
    destruct (nth_error p j) as [y|] eqn:N; [|apply nth_error_None in N; lia].
    rewrite (lless_mid p rest x j y N).
    rewrite (firstn_S_nth p j y N), rev_app_distr. simpl. destruct (less x y); [apply IH; lia | reflexivity].
  Qed.

  Lemma swap_shift_spec (rest : list X) x a : forall p, a <= length p ->
    slice_swap_shift (p ++ x :: rest) a (length p) = firstn a p ++ x :: skipn a p ++ rest.
  Proof.
    induction a as [|a IH]; intros p Ha.
    - simpl. rewrite nth_error_mid, drop_nth_app. reflexivity.
    - destruct p as [|y p]; [simpl in Ha; lia|]. simpl. rewrite Nat.sub_0_r. f_equal. apply IH. simpl in Ha; lia.
  Qed.

  (* one round of the loop inserts element number |p| into the sorted prefix p *)
  Lemma step_spec (p rest : list X) x : lstep (p ++ x :: rest) (length p) = rev (ins x (rev p)) ++ rest.
  Proof.
    unfold insertion_step. rewrite fip_cnt by lia. rewrite firstn_all.
    pose proof (cnt_le x (rev p)) as Hc. rewrite rev_length in Hc. set (c := cnt x (rev p)) in *.
    assert (E : rev (ins x (rev p)) ++ rest = firstn (length p - c) p ++ x :: skipn (length p - c) p ++ rest).
    { rewrite ins_right_cnt. fold c. rewrite rev_app_distr. simpl. rewrite skipn_rev, firstn_rev, !rev_involutive.
      rewrite <- !app_assoc. reflexivity. }
    rewrite E. destruct (Nat.eqb_spec (length p - c) (length p)) as [Eq|Ne].
    - rewrite Eq, firstn_all, skipn_all. reflexivity.
    - apply swap_shift_spec. lia.
  Qed.

  Lemma ins_right_length x l : length (ins x l) = S (length l).
  Proof. apply (Permutation_length (ins_right_perm less x l)). Qed.

  Lemma sort_fold (rest : list X) : forall done,
    fold_left lstep (seq (length done) (length rest)) (done ++ rest) =
    rev (fold_left (fun r x => ins x r) rest (rev done)).
  Proof.
    induction rest as [|x rest IH]; intros done; simpl.
    - rewrite app_nil_r, rev_involutive. reflexivity.
    - rewrite step_spec. set (done' := rev (ins x (rev done))).
      assert (Hl : length done' = S (length done)).
      { unfold done'. rewrite rev_length, ins_right_length, rev_length. reflexivity. }
      rewrite <- Hl. rewrite IH. unfold done'. rewrite rev_involutive. reflexivity.
  Qed.

  (* the index-based insertion sort computes the stable insertion sort of the specification *)
  Theorem insertion_sort_spec (l : list X) :
    insertion_sort lless (@slice_swap_shift X) l (length l) = isort less l.
  Proof.
    unfold insertion_sort, isort. destruct l as [|x r]; [reflexivity|].
    simpl length. rewrite Nat.sub_succ, Nat.sub_0_r. apply (sort_fold r [x]).
  Qed.

  (* ---- stability *)
  Definition eqv (x y : X) : bool := negb (less x y) && negb (less y x).
  Hypothesis eqv_less : forall x y z, less x y = true -> eqv z x = true -> eqv z y = true -> False.

  Lemma ins_right_filter z x revp : filter (eqv z) (ins x revp) = filter (eqv z) (x :: revp).
  Proof.
    induction revp as [|y r IH]; [reflexivity|]. simpl ins_right. destruct (less x y) eqn:L; [|reflexivity].
    cbn [filter] in *. rewrite IH. destruct (eqv z x) eqn:Ex, (eqv z y) eqn:Ey; try reflexivity.
    exfalso. eapply eqv_less; eauto.
  Qed.

  Lemma fold_ins_filter z l : forall acc,
    filter (eqv z) (fold_left (fun r x => ins x r) l acc) = rev (filter (eqv z) l) ++ filter (eqv z) acc.
  Proof.
    induction l as [|x l IH]; intros acc; [reflexivity|]. cbn [fold_left]. rewrite IH, ins_right_filter.
    cbn [filter]. destruct (eqv z x); [|reflexivity]. simpl. rewrite <- app_assoc. reflexivity.
  Qed.

  (* elements that compare equal keep their relative order *)
  Theorem isort_stable z l : filter (eqv z) (isort less l) = filter (eqv z) l.
  Proof. unfold isort. rewrite filter_rev', fold_ins_filter. simpl. rewrite app_nil_r. apply rev_involutive. Qed.
End InsertionSortProofs.

(* ====================================================================== Vec2 *)
Section Vec2Proofs.
  Context {A B : Type}.
  Variable min_cap : nat.
  Variable max_ins : nat.
  Variable less : A * B -> A * B -> bool.
  Notation vec2 := (vec2 A B).
  Notation vl := (@v2_to_list A B).

  (* the two halves are equally long (len) and fit the allocation *)
  Definition V2Inv (v : vec2) : Prop := length (aaa v) = length (bbb v) /\ length (aaa v) <= cap v.

  Lemma combine_nil_r {X Y} (l : list X) : combine l (@nil Y) = [].
  Proof. destruct l; reflexivity. Qed.
  Lemma combine_app' (la la' : list A) (lb lb' : list B) : length la = length lb ->
    combine (la ++ la') (lb ++ lb') = combine la lb ++ combine la' lb'.
  Proof.
    revert lb; induction la as [|a la IH]; intros [|b lb] Hl; simpl in *; try discriminate; auto. f_equal. apply IH. lia.
  Qed.
  Lemma combine_drop_nth i : forall (la : list A) (lb : list B),
    combine (drop_nth i la) (drop_nth i lb) = drop_nth i (combine la lb).
  Proof.
    intros la. revert i. induction la as [|a la IH]; intros i lb; [destruct i; reflexivity|].
    destruct lb as [|b lb], i as [|i]; simpl; auto using combine_nil_r. f_equal. apply IH.
  Qed.
  Lemma nth_error_combine i : forall (la : list A) (lb : list B),
    nth_error (combine la lb) i =
    match nth_error la i, nth_error lb i with Some a, Some b => Some (a, b) | _, _ => None end.
  Proof.
    induction i as [|i IH]; intros [|a la] [|b lb]; simpl; auto.
    destruct (nth_error la i); reflexivity.
  Qed.
  Lemma removelast_firstn' {X} (l : list X) n : length l = S n -> removelast l = firstn n l.
  Proof.
    revert n; induction l as [|a l IH]; intros n Hl; [discriminate|]. destruct l as [|b l].
    - destruct n; [reflexivity|discriminate].
    - destruct n as [|n]; [discriminate|]. change (a :: removelast (b :: l) = a :: firstn n (b :: l)). f_equal.
      apply IH. simpl in *; lia.
  Qed.
  Lemma swap_shift_length {X} a : forall (l : list X) b, length (slice_swap_shift l a b) = length l.
  Proof.
    induction a as [|a IH]; intros l b; simpl.
    - destruct (nth_error l b) eqn:N; auto. simpl.
      assert (Hd : forall (l : list X) b x, nth_error l b = Some x -> S (length (drop_nth b l)) = length l).
      { clear. induction l as [|y l IH]; intros [|b] x Hn; simpl in *; try discriminate; auto. f_equal. eapply IH; eauto. }
      eapply Hd; eauto.
    - destruct l; simpl; auto.
  Qed.
  Lemma combine_swap_shift a : forall (la : list A) (lb : list B) b, length la = length lb ->
    combine (slice_swap_shift la a b) (slice_swap_shift lb a b) = slice_swap_shift (combine la lb) a b.
  Proof.
    induction a as [|a IH]; intros la lb b Hl.
    - simpl. rewrite nth_error_combine.
      destruct (nth_error la b) as [xa|] eqn:Na, (nth_error lb b) as [xb|] eqn:Nb; auto.
      + simpl. f_equal. apply combine_drop_nth.
      + apply nth_error_None in Nb. assert (b < length la) by (apply nth_error_Some; rewrite Na; discriminate). lia.
      + apply nth_error_None in Na. assert (b < length lb) by (apply nth_error_Some; rewrite Nb; discriminate). lia.
    - destruct la as [|ya la], lb as [|yb lb]; simpl in *; try discriminate; auto. f_equal. apply IH. lia.
  Qed.

  Lemma v2_get_ok (v : vec2) i : v2_get v i = nth_error (vl v) i.
  Proof.
    unfold v2_get, v2_to_list, v2_len. rewrite nth_error_combine. destruct (Nat.ltb_spec i (length (aaa v))) as [Hlt|Hge]; auto.
    apply nth_error_None in Hge. rewrite Hge. reflexivity.
  Qed.

  Lemma vl_length (v : vec2) : V2Inv v -> length (vl v) = v2_len v.
  Proof. intros [Hl _]. unfold v2_to_list, v2_len. rewrite combine_length, <- Hl. apply Nat.min_id. Qed.

  Lemma reserve_ok (v : vec2) n : V2Inv v ->
    V2Inv (v2_reserve min_cap v n) /\ aaa (v2_reserve min_cap v n) = aaa v /\ bbb (v2_reserve min_cap v n) = bbb v /\
    length (aaa v) + n <= cap (v2_reserve min_cap v n).
  Proof.
    intros [Hl Hc]. unfold v2_reserve, v2_len. destruct (Nat.ltb_spec (cap v - length (aaa v)) n); simpl; unfold V2Inv; simpl;
      repeat split; auto; lia.
  Qed.

  Lemma push_ok (v : vec2) a b : V2Inv v -> V2Inv (v2_push min_cap v a b) /\ vl (v2_push min_cap v a b) = vl v ++ [(a, b)].
  Proof.
    intros HI. destruct (reserve_ok v 1 HI) as ([Hl Hc] & Ea & Eb & Hcap). unfold v2_push, v2_to_list, V2Inv. simpl.
    rewrite Ea, Eb in *. destruct HI as [Hl0 _]. rewrite !app_length. simpl. repeat split; try lia.
    apply combine_app'. exact Hl0.
  Qed.

  Lemma fold_push_ok l : forall v, V2Inv v ->
    V2Inv (fold_left (fun w ab => v2_push min_cap w (fst ab) (snd ab)) l v) /\
    vl (fold_left (fun w ab => v2_push min_cap w (fst ab) (snd ab)) l v) = vl v ++ l.
  Proof.
    induction l as [|[a b] l IH]; simpl; intros v HI; [rewrite app_nil_r; auto|].
    destruct (push_ok v a b HI) as [H1 H2]. destruct (IH _ H1) as [H3 H4]. split; auto. rewrite H4, H2, <- app_assoc. reflexivity.
  Qed.

  Lemma inv_with_capacity c : V2Inv (@v2_with_capacity A B c) /\ vl (v2_with_capacity c) = [].
  Proof. unfold V2Inv, v2_with_capacity; simpl. repeat split; lia. Qed.

  Lemma retain2_ok f : forall (la : list A) (lb : list B),
    length (fst (retain2 f la lb)) = length (snd (retain2 f la lb)) /\
    length (fst (retain2 f la lb)) <= length la /\
    combine (fst (retain2 f la lb)) (snd (retain2 f la lb)) =
      flat_map (fun ab => match f (fst ab) (snd ab) with Some x => [x] | None => [] end) (combine la lb).
  Proof.
    induction la as [|a la IH]; intros lb; [simpl; repeat split; auto|].
    destruct lb as [|b lb]; simpl; [repeat split; auto; lia|].
    specialize (IH lb). destruct (retain2 f la lb) as [ra rb]. simpl in *. destruct IH as (H1 & H2 & H3).
    destruct (f a b) as [[a' b']|]; simpl; repeat split; auto; try lia. f_equal. exact H3.
  Qed.

  (* ---- the two sorts *)
  Lemma v2_less_ok (v : vec2) i j : v2_less less v i j = lless less (vl v) i j.
  Proof. unfold v2_less, lless. rewrite !v2_get_ok. reflexivity. Qed.

  Lemma v2_swap_shift_ok (v : vec2) a b : V2Inv v ->
    V2Inv (v2_swap_shift v a b) /\ vl (v2_swap_shift v a b) = slice_swap_shift (vl v) a b.
  Proof.
    intros [Hl Hc]. unfold v2_swap_shift, V2Inv, v2_to_list. simpl. rewrite !swap_shift_length. repeat split; auto.
    apply combine_swap_shift. exact Hl.
  Qed.

  Lemma v2_fip_ok (v : vec2) n i :
    find_insertion_point (v2_less less) v n i = find_insertion_point (lless less) (vl v) n i.
  Proof. induction i as [|i IH]; simpl; auto. rewrite v2_less_ok, IH. reflexivity. Qed.

  Lemma v2_insertion_fold_ok is : forall v, V2Inv v ->
    V2Inv (fold_left (insertion_step (v2_less less) v2_swap_shift) is v) /\
    vl (fold_left (insertion_step (v2_less less) v2_swap_shift) is v) =
      fold_left (insertion_step (lless less) (@slice_swap_shift (A * B))) is (vl v).
  Proof.
    induction is as [|i is IH]; simpl; intros v HI; auto.
    assert (Hs : V2Inv (insertion_step (v2_less less) v2_swap_shift v i) /\
                 vl (insertion_step (v2_less less) v2_swap_shift v i) =
                   insertion_step (lless less) (@slice_swap_shift (A * B)) (vl v) i).
    { unfold insertion_step. rewrite v2_fip_ok. destruct (_ =? i); auto. apply v2_swap_shift_ok; exact HI. }
    destruct Hs as [H1 H2]. destruct (IH _ H1) as [H3 H4]. split; auto. rewrite H4, H2. reflexivity.
  Qed.

  Theorem v2_sort_insertion_ok (v : vec2) : V2Inv v ->
    V2Inv (v2_sort_insertion_by less v) /\ vl (v2_sort_insertion_by less v) = isort less (vl v).
  Proof.
    intros HI. unfold v2_sort_insertion_by, insertion_sort.
    destruct (v2_insertion_fold_ok (seq 1 (v2_len v - 1)) v HI) as [H1 H2]. split; auto.
    rewrite H2, <- (vl_length v HI). apply (insertion_sort_spec less).
  Qed.

  (* the hybrid sort: both routes give the stable sort of the specification *)
  Theorem v2_sort_by_ok (v : vec2) : V2Inv v ->
    V2Inv (v2_sort_by min_cap max_ins less v) /\ vl (v2_sort_by min_cap max_ins less v) = isort less (vl v).
  Proof.
    intros HI. unfold v2_sort_by. destruct (v2_len v <=? max_ins); [apply v2_sort_insertion_ok; exact HI|].
    assert (H0 : V2Inv (@v2_new A B)) by (unfold V2Inv, v2_new; simpl; auto).
    destruct (fold_push_ok (std_sort_by less (vl v)) _ H0) as [H1 H2]. split; auto.
  Qed.

  Notation vstep := (v2_step min_cap max_ins less).
  Notation vsstep := (@vs_step A B less).

  Theorem v2_step_ok (v : vec2) (o : vec2_op A B) : V2Inv v ->
    V2Inv (fst (vstep v o)) /\ vl (fst (vstep v o)) = fst (vsstep (vl v) o) /\ snd (vstep v o) = snd (vsstep (vl v) o).
  Proof.
    intros HI. pose proof HI as [Hl Hc]. destruct o; simpl.
    - destruct (push_ok v a b HI); auto.
    - unfold v2_pop. pose proof (vl_length v HI) as Hlen. destruct (v2_len v) as [|n] eqn:L; simpl.
      + destruct (vl v); [auto|discriminate].
      + unfold v2_len in L. split; [|split].
        * unfold V2Inv; simpl. rewrite !firstn_length. lia.
        * unfold v2_to_list at 1. simpl. rewrite <- combine_firstn. symmetry. apply removelast_firstn'. exact Hlen.
        * rewrite v2_get_ok. unfold list_last. destruct (vl v); [discriminate|]. rewrite Hlen. simpl. rewrite Nat.sub_0_r. reflexivity.
    - unfold v2_remove. rewrite v2_get_ok. pose proof (vl_length v HI) as Hlen.
      destruct (Nat.ltb_spec i (v2_len v)) as [Hlt|Hge].
      + destruct (nth_error (vl v) i) as [ab|] eqn:N; [|apply nth_error_None in N; lia]. simpl. split; [|split; auto].
        * unfold V2Inv; simpl. unfold v2_len in Hlt.
          assert (Hd : forall X (l : list X), i < length l -> S (length (drop_nth i l)) = length l).
          { clear. intros X l. revert i. induction l as [|y l IH]; intros [|i] Hi; simpl in *; try lia. f_equal. apply IH. lia. }
          pose proof (Hd _ (aaa v) Hlt). pose proof (Hd _ (bbb v) ltac:(lia)). lia.
        * apply combine_drop_nth.
      + simpl. assert (N : nth_error (vl v) i = None) by (apply nth_error_None; lia). rewrite N. split; auto. split; auto.
        clear - Hge Hlen. rewrite <- Hlen in Hge. clear Hlen. revert i Hge. induction (vl v) as [|y l IH]; intros [|i] Hi; simpl in *; auto; try lia.
        f_equal. apply IH. lia.
    - unfold V2Inv, v2_clear; simpl. repeat split; auto; try lia.
    - unfold v2_truncate. destruct (Nat.ltb_spec (v2_len v) n) as [Hlt|Hge]; simpl.
      + split; auto. split; auto. symmetry. apply firstn_all2. rewrite (vl_length v HI). lia.
      + split; [|split; auto].
        * unfold V2Inv; simpl. rewrite !firstn_length. lia.
        * unfold v2_to_list; simpl. symmetry. apply combine_firstn.
    - unfold v2_retain. destruct (retain2_ok f (aaa v) (bbb v)) as (H1 & H2 & H3).
      destruct (retain2 f (aaa v) (bbb v)) as [ra rb]; simpl in *. split; [|split; auto].
      unfold V2Inv; simpl. split; auto. lia.
    - destruct (v2_sort_by_ok v HI); auto.
    - destruct (v2_sort_insertion_ok v HI); auto.
    - destruct (reserve_ok v n HI) as (H1 & Ea & Eb & _). split; auto. unfold v2_to_list. rewrite Ea, Eb. auto.
    - unfold v2_shrink_to_fit. destruct (v2_len v <? cap v); auto. unfold v2_clone.
      destruct (inv_with_capacity (v2_len v)) as [H0 E0]. destruct (fold_push_ok (vl v) _ H0) as [H1 H2].
      split; [exact H1|]. rewrite H2, E0. auto.
    - unfold v2_extend. destruct (reserve_ok v (length l) HI) as (H1 & Ea & Eb & _).
      destruct (fold_push_ok l _ H1) as [H2 H3]. split; [exact H2|]. rewrite H3. unfold v2_to_list at 1. rewrite Ea, Eb. auto.
    - destruct (inv_with_capacity n); auto.
    - unfold v2_clone. destruct (inv_with_capacity (v2_len v)) as [H0 E0]. destruct (fold_push_ok (vl v) _ H0) as [H1 H2].
      split; [exact H1|]. rewrite H2, E0. auto.
  Qed.

  Notation vrun := (@v2_run A B min_cap max_ins less).
  Notation vsrun := (@vs_run A B less).

  Lemma v2_run_gen ops : forall v, V2Inv v ->
    V2Inv (fold_left (fun v o => fst (vstep v o)) ops v) /\
    vl (fold_left (fun v o => fst (vstep v o)) ops v) = fold_left (fun l o => fst (vsstep l o)) ops (vl v).
  Proof.
    induction ops as [|o ops IH]; simpl; intros v HI; auto.
    destruct (v2_step_ok v o HI) as (H1 & H2 & _). destruct (IH _ H1) as [H3 H4]. split; auto. rewrite H4, H2. reflexivity.
  Qed.
  Lemma v2_inv_new : V2Inv (@v2_new A B).
  Proof. unfold V2Inv, v2_new; simpl; auto. Qed.
  Theorem v2_inv_reachable ops : V2Inv (vrun ops).
  Proof. apply (v2_run_gen ops _ v2_inv_new). Qed.
  Theorem v2_refines ops : vl (vrun ops) = vsrun ops.
  Proof. apply (v2_run_gen ops _ v2_inv_new). Qed.
  Theorem v2_ret_refines ops o : snd (vstep (vrun ops) o) = snd (vsstep (vsrun ops) o).
  Proof. rewrite <- v2_refines. apply v2_step_ok. apply v2_inv_reachable. Qed.
  Theorem v2_get_refines ops i :
    v2_get (vrun ops) i = nth_error (vsrun ops) i /\ v2_first (vrun ops) = hd_error (vsrun ops) /\
    v2_last (vrun ops) = list_last (vsrun ops) /\ v2_len (vrun ops) = length (vsrun ops).
  Proof.
    rewrite <- v2_refines. pose proof (vl_length _ (v2_inv_reachable ops)) as Hlen. repeat split.
    - apply v2_get_ok.
    - unfold v2_first. rewrite v2_get_ok. destruct (vl (vrun ops)); reflexivity.
    - unfold v2_last. destruct (v2_len (vrun ops)) as [|n] eqn:L.
      + destruct (vl (vrun ops)); [reflexivity|discriminate].
      + rewrite v2_get_ok. unfold list_last. destruct (vl (vrun ops)); [discriminate|]. rewrite Hlen. simpl. rewrite Nat.sub_0_r. reflexivity.
    - symmetry; exact Hlen.
  Qed.
  Theorem v2_eq_ok abeq (v w : vec2) : (forall x y, abeq x y = true <-> x = y) -> V2Inv v -> V2Inv w ->
    (v2_eq abeq v w = true <-> vl v = vl w).
  Proof.
    intros Hs Iv Iw. unfold v2_eq. rewrite andb_true_iff, (list_eqb_spec abeq Hs), Nat.eqb_eq, <- !vl_length by assumption.
    split; [intros [_ E]; exact E | intros E; rewrite E; auto].
  Qed.

  (* sort_by: a permutation, sorted, and stable *)
  Theorem v2_sort_stable_perm (v : vec2) : V2Inv v ->
    (forall a b, less a b = true -> less b a = false) ->
    (forall x y z, less x y = true -> eqv less z x = true -> eqv less z y = true -> False) ->
    let r := vl (v2_sort_by min_cap max_ins less v) in
    Permutation r (vl v) /\
    (forall i a b, nth_error r i = Some a -> nth_error r (S i) = Some b -> less b a = false) /\
    (forall z, filter (eqv less z) r = filter (eqv less z) (vl v)).
  Proof.
    intros HI Hasym Heqv r. unfold r. destruct (v2_sort_by_ok v HI) as [_ E]. rewrite E. split; [apply isort_perm|]. split.
    - intros i a b. apply (isort_sorted less Hasym).
    - intros z. apply isort_stable. exact Heqv.
  Qed.
End Vec2Proofs.
